(* Model of internal/gen (gen.go PrepareData / Generate with the four builtin templates
   listing, chain, ops, script), of acc/pass/validation.go (CheckDanglingInputs), and of the
   documented reading of a listing (doc/gen.md): a `tmp v ...` line declaring temporaries, then
   `add z x y` / `double z x` / `shift z x n` lines over named registers, executed literally
   on a register file.  Executable Gallina only; no proofs here.

   text/template itself is not modelled: [render_listing] etc. are what the builtin templates
   print for a Data value (trim markers resolved by hand); the correspondence check compares
   them byte for byte with the output of the real gen.Generate. *)
From Coq Require Import String.
From Coq Require Import List NArith ZArith Bool Arith.
From AV Require Import model.Proto model.Chain model.Ast model.Ir model.Peg model.Printer model.Translate
  model.Alloc model.Interp.
Import ListNotations.
Open Scope Z_scope.

(* gen.Data (without Meta, which no builtin template prints) *)
Record gendata := mkData {
  g_chain : list Z;              (* Data.Chain *)
  g_ops : list op;               (* Data.Ops *)
  g_script : script;             (* Data.Script *)
  g_prog : iprogram;             (* Data.Program.Instructions, operands named by the allocator *)
  g_temps : list (list N) }.     (* Data.Program.Temporaries *)

(* ---- pass.Validate = CheckDanglingInputs ----
   outputset := {0}; for each instruction: every input index must be in the set, then the
   output index is added. *)
Fixpoint validate_from (outputset : list Z) (p : iprogram) : outcome unit :=
  match p with
  | [] => Ok tt
  | i :: r =>
      if forallb (fun x => existsb (Z.eqb x) outputset) (in_indexes i)
      then validate_from (out_index i :: outputset) r
      else Err ($"dangling")
  end.
Definition validate_ir (p : iprogram) : outcome unit := validate_from [0] p.

(* ---- gen.PrepareData: Translate, then pass.Exec(p, Validate, cfg.Allocator, Eval) ----
   The passes run on one mutable program: Eval compiles the instructions as the allocator left
   them (only the identifiers changed). *)
Definition prepare (cfg : alloc_cfg) (s : script) : outcome gendata :=
  obind (translate s) (fun p =>
  obind (validate_ir p) (fun _ =>
  obind (allocate cfg p) (fun qt =>
  obind (compile (fst qt)) (fun ops =>
  obind (evaluate ops) (fun ch =>
    Ok (mkData ch ops s (fst qt) (snd qt))))))).

(* ---- fmt verbs used by the templates ---- *)
Definition tab : N := 9%N.
Definition nl : N := 10%N.

(* %Nd / %-Nd : pad with spaces to a minimum width *)
Definition padl (w : nat) (s : list N) : list N := repeat 32%N (w - length s) ++ s.
Definition padr (w : nat) (s : list N) : list N := s ++ repeat 32%N (w - length s).

(* %#x of a *big.Int *)
Definition hex0x (z : Z) : list N :=
  match z with
  | Zneg p => $"-0x" ++ print_hexN (Npos p)
  | _ => $"0x" ++ print_hexN (Z.to_N z)
  end.

(* %s of an *ir.Operand: Operand.String() *)
Definition operand_str (o : operand) : list N :=
  match oname o with
  | [] => $"[" ++ print_decZ (oindex o) ++ $"]"
  | n => n
  end.

(* ---- listing.tmpl ----
     {{ printf "tmp\t%s" (join .Program.Temporaries "\t") }}\n
     then for every instruction exactly one of
     add\t<out>\t<x>\t<y>\n    double\t<out>\t<x>\n    shift\t<out>\t<x>\t<s>\n
   (all other white space of the template is trimmed by the {{- -}} markers) *)
Definition listing_line (i : instr) : list N :=
  match iopn i with
  | IAdd x y => $"add" ++ [tab] ++ operand_str (iout i) ++ [tab] ++ operand_str x ++ [tab] ++ operand_str y ++ [nl]
  | IDouble x => $"double" ++ [tab] ++ operand_str (iout i) ++ [tab] ++ operand_str x ++ [nl]
  | IShift x s => $"shift" ++ [tab] ++ operand_str (iout i) ++ [tab] ++ operand_str x ++ [tab] ++ print_decN s ++ [nl]
  end.

Definition render_listing (q : list (list N) * iprogram) : list N :=
  $"tmp" ++ [tab] ++ join [tab] (fst q) ++ [nl] ++ flat_map listing_line (snd q).

(* ---- chain.tmpl: printf "%3d: %#x\n" (inc $n) $value ---- *)
Fixpoint render_chain_from (n : nat) (c : list Z) : list N :=
  match c with
  | [] => []
  | v :: r => padl 3 (print_nat (S n)) ++ $": " ++ hex0x v ++ [nl] ++ render_chain_from (S n) r
  end.
Definition render_chain (c : list Z) : list N := render_chain_from 0 c.

(* ---- ops.tmpl: printf "[%3d] %4d+%-4d %#x\n" $n $op.I $op.J (index $.Chain (inc $n)) ----
   `index` past the end of the chain aborts template execution with an error *)
Fixpoint render_ops_from (n : nat) (c : list Z) (p : list op) : outcome (list N) :=
  match p with
  | [] => Ok []
  | o :: r =>
      match nth_error c (S n) with
      | None => Err ($"template")
      | Some v =>
          obind (render_ops_from (S n) c r) (fun rest =>
            Ok ($"[" ++ padl 3 (print_nat n) ++ $"] " ++ padl 4 (print_nat (fst o)) ++ $"+" ++ padr 4 (print_nat (snd o))
                ++ $" " ++ hex0x v ++ [nl] ++ rest))
      end
  end.
Definition render_ops (c : list Z) (p : list op) : outcome (list N) := render_ops_from 0 c p.

(* ---- script.tmpl: format .Script = printer.String ---- *)
Definition render_script (s : script) : list N := print_script s.

(* gen.Generate with gen.BuiltinTemplate(name) *)
Definition render (tmpl : list N) (d : gendata) : outcome (list N) :=
  if str_eqb tmpl $"listing" then Ok (render_listing (g_temps d, g_prog d))
  else if str_eqb tmpl $"chain" then Ok (render_chain (g_chain d))
  else if str_eqb tmpl $"ops" then render_ops (g_chain d) (g_ops d)
  else if str_eqb tmpl $"script" then Ok (render_script (g_script d))
  else Err ($"template").

(* `addchain gen -type T`: parse, PrepareData, Generate.  No size limit here, as in the Go code; the
   correspondence check does not evaluate scripts with a shift above 4096 (one chain element per doubling):
   that convention lives in dispatch/C06.v and in the harness only. *)
Definition gen (cfg : alloc_cfg) (tmpl src : list N) : outcome (list N) :=
  obind (parse src) (fun s => obind (prepare cfg s) (render tmpl)).

(* cmd/addchain/gen.go: Allocator{Input: "x", Output: "z", Format: "t%d"} *)
Definition default_cfg : alloc_cfg := mkCfg ($"x") ($"z") ($"t").

(* ------------------------------------------------------------------------------------------
   The documented reading of a listing (doc/gen.md):
     tmp v ...      declare temporary variables v ...
     add z x y      z = x + y
     double z x     z = 2*x
     shift z x n    z = 2^n * x
   Lines end with a newline, fields are separated by one tab. *)
Inductive linstr :=
| LAdd (z x y : list N)
| LDouble (z x : list N)
| LShift (z x : list N) (n : N).

Definition ldst (i : linstr) : list N :=
  match i with LAdd z _ _ | LDouble z _ | LShift z _ _ => z end.
Definition lsrcs (i : linstr) : list (list N) :=
  match i with LAdd _ x y => [x; y] | LDouble _ x | LShift _ x _ => [x] end.

(* a text that ends with a newline, as its list of lines *)
Fixpoint drop_last_empty (l : list (list N)) : option (list (list N)) :=
  match l with
  | [] => None
  | [[]] => Some []
  | [_] => None
  | x :: r => option_map (cons x) (drop_last_empty r)
  end.

Definition read_line (l : list N) : option linstr :=
  match split tab l with
  | [k; z; x; y] =>
      if str_eqb k $"add" then Some (LAdd z x y)
      else if str_eqb k $"shift" then option_map (LShift z x) (parse_decN y)
      else None
  | [k; z; x] => if str_eqb k $"double" then Some (LDouble z x) else None
  | _ => None
  end.

(* `tmp` followed by nothing declares no temporary *)
Definition read_tmp (l : list N) : option (list (list N)) :=
  match split tab l with
  | k :: names =>
      if str_eqb k $"tmp" then Some (match names with [[]] => [] | _ => names end) else None
  | [] => None
  end.

Definition read_listing (s : list N) : option (list (list N) * list linstr) :=
  match drop_last_empty (split nl s) with
  | Some (first :: rest) =>
      match read_tmp first, map_opt read_line rest with
      | Some temps, Some prog => Some (temps, prog)
      | _, _ => None
      end
  | _ => None
  end.

(* the listing an allocated program stands for *)
Definition linstr_of (i : instr) : linstr :=
  match iopn i with
  | IAdd x y => LAdd (operand_str (iout i)) (operand_str x) (operand_str y)
  | IDouble x => LDouble (operand_str (iout i)) (operand_str x)
  | IShift x s => LShift (operand_str (iout i)) (operand_str x) s
  end.

(* ---- literal execution on a register file ----
   Registers are named; a register holds nothing until it is written, reading such a register is an
   error ("unwritten").  The caller puts the input value into the input register; when the caller
   passes one object as input and output (aliased), both names denote the same register. *)
Definition canon (mode : imode) (cfg : alloc_cfg) (n : list N) : list N :=
  match mode with
  | Separate => n
  | Aliased => if str_eqb n (cfg_out cfg) then cfg_in cfg else n
  end.

Definition regfile := list (list N * Z).

Definition rget (r : regfile) (n : list N) : option Z := lookup n r.
Fixpoint rset (n : list N) (v : Z) (r : regfile) : regfile :=
  match r with
  | [] => [(n, v)]
  | (k, w) :: t => if str_eqb k n then (n, v) :: t else (k, w) :: rset n v t
  end.

Definition lstep (cn : list N -> list N) (r : regfile) (i : linstr) : outcome regfile :=
  match i with
  | LAdd z x y =>
      match rget r (cn x), rget r (cn y) with
      | Some a, Some b => Ok (rset (cn z) (a + b) r)
      | _, _ => Err ($"unwritten")
      end
  | LDouble z x =>
      match rget r (cn x) with
      | Some a => Ok (rset (cn z) (a + a) r)
      | None => Err ($"unwritten")
      end
  | LShift z x n =>
      match rget r (cn x) with
      | Some a => Ok (rset (cn z) (Z.shiftl a (Z.of_N n)) r)
      | None => Err ($"unwritten")
      end
  end.

Fixpoint lexec (cn : list N -> list N) (r : regfile) (p : list linstr) : outcome regfile :=
  match p with
  | [] => Ok r
  | i :: t => obind (lstep cn r i) (fun r' => lexec cn r' t)
  end.

(* run a listing (as read) with value x in the input register *)
Definition exec_listing (mode : imode) (cfg : alloc_cfg) (x : Z) (l : option (list (list N) * list linstr)) : outcome regfile :=
  match l with
  | None => Err ($"badlisting")
  | Some (_, prog) => lexec (canon mode cfg) [(cfg_in cfg, x)] prog
  end.

(* the value a name denotes afterwards *)
Definition reg_value (mode : imode) (cfg : alloc_cfg) (r : regfile) (n : list N) : option Z := rget r (canon mode cfg n).

(* names that instructions of a listing write *)
Definition written (l : option (list (list N) * list linstr)) : list (list N) :=
  match l with Some (_, prog) => map ldst prog | None => [] end.

(* `runlisting`: generate the listing, read it back as documented, execute it literally with x = 1 *)
Definition run_listing (mode : imode) (cfg : alloc_cfg) (src : list N) : outcome (option Z * bool * regfile) :=
  obind (gen cfg ($"listing") src) (fun text =>
    let l := read_listing text in
    obind (exec_listing mode cfg 1 l) (fun r =>
      Ok (reg_value mode cfg r (cfg_out cfg), existsb (str_eqb (cfg_in cfg)) (written l),
          fold_right insert_named [] r))).

(* ------------------------------------------------------------------------------------------
   Reading the chain and ops outputs back (the inverse of the two printf formats): used to state
   that these outputs list exactly the chain and the operations, nothing lost. *)
Fixpoint drop_spaces (s : list N) : list N :=
  match s with
  | c :: r => if (c =? 32)%N then drop_spaces r else s
  | [] => []
  end.

(* 0x<hex> or -0x<hex> *)
Definition read_hex0x (s : list N) : option Z :=
  match s with
  | a :: b :: c :: r =>
      if (a =? 45)%N && (b =? 48)%N && (c =? 120)%N then option_map (fun n => Z.opp (Z.of_N n)) (parse_hexN r)
      else if (a =? 48)%N && (b =? 120)%N then option_map Z.of_N (parse_hexN (c :: r))
      else None
  | _ => None
  end.

(* "<spaces><n>: <hex>" *)
Definition read_chain_line (l : list N) : option (nat * Z) :=
  match split 58%N (drop_spaces l) with
  | [idx; s :: v] =>
      if (s =? 32)%N then
        match parse_nat idx, read_hex0x v with
        | Some k, Some z => Some (k, z)
        | _, _ => None
        end
      else None
  | _ => None
  end.

(* lines must be numbered k, k+1, ... *)
Fixpoint check_numbered {A} (k : nat) (l : list (nat * A)) : option (list A) :=
  match l with
  | [] => Some []
  | (i, z) :: r => if (i =? k)%nat then option_map (cons z) (check_numbered (S k) r) else None
  end.

Definition read_chain (s : list N) : option (list Z) :=
  match drop_last_empty (split nl s) with
  | Some ls => match map_opt read_chain_line ls with
               | Some l => check_numbered 1 l
               | None => None
               end
  | None => None
  end.

Definition nonempty (s : list N) : bool := match s with [] => false | _ => true end.

(* "[<spaces><k>] <spaces><i>+<j><spaces> <hex>" *)
Definition read_ops_line (l : list N) : option (nat * (op * Z)) :=
  match l with
  | c :: r =>
      if (c =? 91)%N then
        match split 93%N r with
        | [idx; rest] =>
            match split 43%N (drop_spaces rest) with
            | [i; jr] =>
                match filter nonempty (split 32%N jr) with
                | [j; v] =>
                    match parse_nat (drop_spaces idx), parse_nat i, parse_nat j, read_hex0x v with
                    | Some k, Some a, Some b, Some z => Some (k, ((a, b), z))
                    | _, _, _, _ => None
                    end
                | _ => None
                end
            | _ => None
            end
        | _ => None
        end
      else None
  | [] => None
  end.

Definition read_ops (s : list N) : option (list (op * Z)) :=
  match drop_last_empty (split nl s) with
  | Some ls => match map_opt read_ops_line ls with
               | Some l => check_numbered 0 l
               | None => None
               end
  | None => None
  end.

(* ------------------------------------------------------------------------------------------
   `addchain gen [-type T | -tmpl FILE] -out F script` (cmd/addchain/gen.go Execute, internal/cli
   OpenOutput = os.Create): read and parse the input, PrepareData, LoadTemplate -- any failure so far
   leaves F untouched --, then OpenOutput creates/truncates F, then Generate writes into it.
   File system model: a file holds exactly the bytes of the last successful write (os.Create truncates);
   None = the file does not exist.  Exit status 0 / 1. *)
Inductive tmpl_sel :=
| TType (name : list N)        (* -type name; also -tmpl with a file holding that builtin template's text *)
| TBroken.                     (* -tmpl with a file that text/template cannot parse: Generate fails after F was truncated *)

Definition gen_out_step (cfg : alloc_cfg) (t : tmpl_sel) (file : option (list N)) (src : list N) : N * option (list N) :=
  match t with
  | TType name =>
      match gen cfg name src with
      | Ok out => (0%N, Some out)
      | _ => (1%N, file)
      end
  | TBroken =>
      match obind (parse src) (prepare cfg) with
      | Ok _ => (1%N, Some [])
      | _ => (1%N, file)
      end
  end.

(* a history of invocations into the same file: exit statuses (in order) and the final file *)
Fixpoint gen_out_history (cfg : alloc_cfg) (t : tmpl_sel) (file : option (list N)) (srcs : list (list N)) : list N * option (list N) :=
  match srcs with
  | [] => ([], file)
  | s :: r =>
      let '(e, file') := gen_out_step cfg t file s in
      let '(es, final) := gen_out_history cfg t file' r in
      (e :: es, final)
  end.

(* `addchain gen -type T script` to standard output: exit status and the bytes printed *)
Definition gen_stdout (cfg : alloc_cfg) (name src : list N) : N * list N :=
  match gen cfg name src with
  | Ok out => (0%N, out)
  | _ => (1%N, [])
  end.
