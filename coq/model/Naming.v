(* Model of acc/pass (C04, C16): Compile/Eval (eval.go), CanonicalizeOperands' operand
   table and ReadCounts (pass.go), NameByteValues / NameXRuns / NameOperands (naming.go).
   Executable definitions only; proofs are in proofs/NamingProofs.v.

   Scope: programs whose operands carry no identifier on entry (what acc.Decompile
   produces).  Operand objects are then determined by their index, and the identifier
   that the passes store in the canonical operand object is modelled as a table
   index -> identifier. *)
From Coq Require Import String.
From Coq Require Import List NArith ZArith Bool Arith.
From AV Require Import model.Proto model.Chain model.Program model.Ir model.Bits.
Import ListNotations.
Open Scope Z_scope.

(* ---- association lists keyed by a chain index (Go map[int]T); newest binding first ---- *)
Fixpoint zlookup {A} (k : Z) (m : list (Z * A)) : option A :=
  match m with
  | [] => None
  | (k', v) :: t => if k' =? k then Some v else zlookup k t
  end.

(* ---- pass.Compile: unroll every instruction with the program builder calls ---- *)
Definition call_of (o : iop) : call :=
  match o with
  | IAdd x y => CAdd (oindex x) (oindex y)
  | IDouble x => CDouble (oindex x)
  | IShift x s => CShift (oindex x) s
  end.

Fixpoint compile_loop (prog : list op) (P : iprogram) : outcome (list op) :=
  match P with
  | [] => Ok prog
  | i :: r =>
      let '(prog', o) := step prog (call_of (iopn i)) in
      match o with
      | Ok out => if out =? oindex (iout i) then compile_loop prog' r else Err ($"outidx")
      | Err c => Err c
      | Panic c => Panic c
      | OutOfFuel => OutOfFuel
      end
  end.
Definition compile (P : iprogram) : outcome (list op) := compile_loop [] P.

(* pass.Eval: Compile, then Program.Evaluate *)
Definition eval_ir (P : iprogram) : outcome (list Z) := obind (compile P) evaluate.

(* ---- pass.ReadCounts: p.ReadCount[input.Index]++ for every input of every instruction ---- *)
Definition input_indexes (i : instr) : list Z := map oindex (inputs (iopn i)).

Definition rc_get (m : list (Z * nat)) (x : Z) : nat :=
  match zlookup x m with Some c => c | None => O end.
Definition rc_bump (m : list (Z * nat)) (x : Z) : list (Z * nat) := (x, S (rc_get m x)) :: m.
Definition read_counts_ir (P : iprogram) : list (Z * nat) :=
  fold_left (fun m i => fold_left rc_bump (input_indexes i) m) P [].

(* ---- CanonicalizeOperands: the keys of p.Operands, i.e. every index that occurs as an
   input or as an output (inputs first, as Instruction.Operands() lists them).  All
   identifiers are empty on entry.  Go iterates over this map in an unspecified order; each
   entry is processed independently of the others, so the order is not observable. ---- *)
Definition operand_indexes (P : iprogram) : list Z :=
  flat_map (fun i => input_indexes i ++ [oindex (iout i)]) P.

Fixpoint dedup (seen : list Z) (l : list Z) : list Z :=
  match l with
  | [] => []
  | x :: r => if existsb (Z.eqb x) seen then dedup seen r else x :: dedup (x :: seen) r
  end.

Definition operand_table (P : iprogram) : list (Z * list N) :=
  map (fun x => (x, @nil N)) (dedup [] (operand_indexes P)).

(* ---- renderings used by the formats "%b" (big.Int) and "%d" (uint) ---- *)
Definition print_binZ (z : Z) : list N :=
  match z with
  | Zneg p => 45%N :: print_binN (Npos p)
  | _ => print_binN (Z.to_N z)
  end.

(* NameBinaryValues(8, "_%b"): "" if x.BitLen() > 8 *)
Definition name_byte (x : Z) : list N :=
  if (8 <? bitlen x)%N then [] else 95%N :: print_binZ x.

(* NameBinaryRuns("x%d"): n := x.BitLen(); "" unless x == Ones(n) *)
Definition name_xrun (x : Z) : list N :=
  let n := bitlen x in
  if x =? ones n then 120%N :: print_decN n else [].

(* NameOperands(name): for every canonical operand without identifier:
   idx >= len(p.Chain) -> assertion failure; Identifier = name(idx, p.Chain[idx]).
   (A negative idx would index p.Chain out of range.) *)
Definition name_one (f : Z -> list N) (chain : list Z) (e : Z * list N) : outcome (Z * list N) :=
  match snd e with
  | _ :: _ => Ok e
  | [] =>
      let idx := fst e in
      if idx <? 0 then Panic ($"index")
      else match nth_error chain (Z.to_nat idx) with
           | None => Err ($"assert")
           | Some x => Ok (idx, f x)
           end
  end.

Fixpoint name_pass (f : Z -> list N) (chain : list Z) (tbl : list (Z * list N)) : outcome (list (Z * list N)) :=
  match tbl with
  | [] => Ok []
  | e :: r => obind (name_one f chain e) (fun e' => obind (name_pass f chain r) (fun r' => Ok (e' :: r')))
  end.

(* pass.Exec(p, ReadCounts, NameByteValues, NameXRuns): the part that produces identifiers.
   Each naming pass first runs CanonicalizeOperands and Eval (both memoised). *)
Definition name_operands (P : iprogram) : outcome (list (Z * list N)) :=
  obind (eval_ir P) (fun chain =>
  obind (name_pass name_byte chain (operand_table P)) (fun t1 =>
  name_pass name_xrun chain t1)).

(* operand.Identifier of the canonical operand with this index *)
Definition ident_of (tbl : list (Z * list N)) (idx : Z) : list N :=
  match zlookup idx tbl with Some s => s | None => [] end.

(* ---- pass.CheckDanglingInputs ---- *)
Fixpoint check_dangling_loop (outs : list Z) (P : iprogram) : outcome unit :=
  match P with
  | [] => Ok tt
  | i :: r =>
      if forallb (fun x => existsb (Z.eqb x) outs) (input_indexes i)
      then check_dangling_loop (oindex (iout i) :: outs) r
      else Err ($"dangling")
  end.
Definition check_dangling (P : iprogram) : outcome unit := check_dangling_loop [0] P.

(* ---- specification: what a generated name says (independent of the code above) ---- *)

(* the number a digit string denotes, most significant digit first *)
Definition dstep (base a c : N) : N := (a * base + (c - 48))%N.
Definition digits_val (base : N) (s : list N) : N := fold_left (dstep base) s 0%N.
Definition digit_of (base c : N) : Prop := (48 <= c /\ c < 48 + base)%N.

(* the three shapes: _[01]+   x[0-9]+   i[0-9]+ *)
Inductive name_shape : list N -> Prop :=
| shape_byte b : b <> [] -> Forall (digit_of 2) b -> name_shape (95%N :: b)
| shape_xrun d : d <> [] -> Forall (digit_of 10) d -> name_shape (120%N :: d)
| shape_idx d : d <> [] -> Forall (digit_of 10) d -> name_shape (105%N :: d).

(* a name on the element with value x at chain index idx: _b says x = b (binary),
   xN says x = 2^N - 1, iN says idx = N *)
Definition describes (nm : list N) (x idx : Z) : Prop :=
  match nm with
  | 95%N :: b => x = Z.of_N (digits_val 2 b)
  | 120%N :: d => x = 2 ^ Z.of_N (digits_val 10 d) - 1
  | 105%N :: d => idx = Z.of_N (digits_val 10 d)
  | _ => False
  end.
