(* Model of internal/bigints and internal/bigvector (C19). Executable definitions only. *)
From Coq Require Import String.
From Coq Require Import List NArith ZArith Bool.
From AV Require Import model.Proto.
Import ListNotations.
Open Scope Z_scope.

(* Sort ascending. Equal integers are indistinguishable, so any correct sort gives this list. *)
Fixpoint insert_sorted (x : Z) (l : list Z) : list Z :=
  match l with
  | [] => [x]
  | y :: r => if x <=? y then x :: l else y :: insert_sorted x r
  end.
Definition sort (l : list Z) : list Z := fold_right insert_sorted [] l.

(* Index: first occurrence or -1 *)
Fixpoint index_from (i : Z) (n : Z) (xs : list Z) : Z :=
  match xs with
  | [] => -1
  | x :: r => if n =? x then i else index_from (i + 1) n r
  end.
Definition index (n : Z) (xs : list Z) : Z := index_from 0 n xs.
Definition contains (n : Z) (xs : list Z) : bool := 0 <=? index n xs.

(* sort.Search(len, f): i, j := 0, n; for i < j { h := (i+j)/2; if !f(h) { i = h+1 } else { j = h } } *)
Fixpoint search_loop (fuel : nat) (f : nat -> bool) (i j : nat) : nat :=
  match fuel with
  | O => i
  | S fu => if Nat.ltb i j then
              let h := Nat.div2 (i + j) in
              if f h then search_loop fu f i h else search_loop fu f (S h) j
            else i
  end.
Definition contains_sorted (n : Z) (xs : list Z) : bool :=
  let len := length xs in
  let i := search_loop (S len) (fun h => match nth_error xs h with Some x => n <=? x | None => true end) 0 len in
  match nth_error xs i with
  | Some x => x =? n
  | None => false
  end.

(* Unique: remove consecutive duplicates *)
Fixpoint unique_from (last : Z) (xs : list Z) : list Z :=
  match xs with
  | [] => []
  | x :: r => if x =? last then unique_from last r else x :: unique_from x r
  end.
Definition unique (xs : list Z) : list Z :=
  match xs with
  | [] => []
  | x :: r => x :: unique_from x r
  end.

(* MergeUnique *)
Fixpoint merge_unique (xs : list Z) : list Z -> list Z :=
  fix inner (ys : list Z) : list Z :=
    match xs, ys with
    | [], _ => ys
    | _, [] => xs
    | x :: xs', y :: ys' =>
        match x ?= y with
        | Lt => x :: merge_unique xs' ys
        | Eq => x :: merge_unique xs' ys'
        | Gt => y :: inner ys'
        end
    end.
Definition insert_sorted_unique (xs : list Z) (x : Z) : list Z := merge_unique [x] xs.

(* bigvector *)
Fixpoint vadd_aux (u v : list Z) : list Z :=
  match u, v with
  | a :: u', b :: v' => (a + b) :: vadd_aux u' v'
  | _, _ => []
  end.
Definition vadd (u v : list Z) : outcome (list Z) :=
  if Nat.eqb (length u) (length v) then Ok (vadd_aux u v) else Panic ($"lenmismatch").
Definition vlsh (v : list Z) (s : N) : list Z := map (fun x => Z.shiftl x (Z.of_N s)) v.
Definition basis (n i : nat) : list Z := map (fun j => if Nat.eqb j i then 1 else 0) (seq 0 n).

(* Clone: append([]*big.Int{}, xs...);  Concat: append(Clone(xs), ys...) *)
Definition clone (xs : list Z) : list Z := [] ++ xs.
Definition concat (xs ys : list Z) : list Z := clone xs ++ ys.

(* bigvector.New(n): n zeros.  basis.Idx(j): panics for j >= n *)
Definition vnew (n : nat) : list Z := repeat 0 n.
Definition basis_idx (n i j : nat) : outcome Z :=
  if Nat.leb n j then Panic ($"index") else Ok (if Nat.eqb j i then 1 else 0).
