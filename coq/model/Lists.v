(* Model of internal/bigints and internal/bigvector (C19). Executable definitions only. *)
From Coq Require Import String.
From Coq Require Import List NArith ZArith Bool.
From AV Require Import model.Proto model.Bits.
Import ListNotations.
Open Scope Z_scope.

(* Sort ascending. Equal integers are indistinguishable, so any correct sort gives this list. *)
Fixpoint insert_sorted (x : Z) (l : list Z) : list Z :=
  match l with
  | [] => [x]
  | y :: r => if x <=? y then x :: l else y :: insert_sorted x r
  end.
Definition sort (l : list Z) : list Z := fold_right insert_sorted [] l.

(* Index: first occurrence or -1 *)
Fixpoint index_from (i : Z) (n : Z) (xs : list Z) : Z :=
  match xs with
  | [] => -1
  | x :: r => if n =? x then i else index_from (i + 1) n r
  end.
Definition index (n : Z) (xs : list Z) : Z := index_from 0 n xs.
Definition contains (n : Z) (xs : list Z) : bool := 0 <=? index n xs.

(* sort.Search(len, f): i, j := 0, n; for i < j { h := (i+j)/2; if !f(h) { i = h+1 } else { j = h } } *)
Fixpoint search_loop (fuel : nat) (f : nat -> bool) (i j : nat) : nat :=
  match fuel with
  | O => i
  | S fu => if Nat.ltb i j then
              let h := Nat.div2 (i + j) in
              if f h then search_loop fu f i h else search_loop fu f (S h) j
            else i
  end.
Definition contains_sorted (n : Z) (xs : list Z) : bool :=
  let len := length xs in
  let i := search_loop (S len) (fun h => match nth_error xs h with Some x => n <=? x | None => true end) 0 len in
  match nth_error xs i with
  | Some x => x =? n
  | None => false
  end.

(* Unique: remove consecutive duplicates *)
Fixpoint unique_from (last : Z) (xs : list Z) : list Z :=
  match xs with
  | [] => []
  | x :: r => if x =? last then unique_from last r else x :: unique_from x r
  end.
Definition unique (xs : list Z) : list Z :=
  match xs with
  | [] => []
  | x :: r => x :: unique_from x r
  end.

(* MergeUnique *)
Fixpoint merge_unique (xs : list Z) : list Z -> list Z :=
  fix inner (ys : list Z) : list Z :=
    match xs, ys with
    | [], _ => ys
    | _, [] => xs
    | x :: xs', y :: ys' =>
        match x ?= y with
        | Lt => x :: merge_unique xs' ys
        | Eq => x :: merge_unique xs' ys'
        | Gt => y :: inner ys'
        end
    end.
Definition insert_sorted_unique (xs : list Z) (x : Z) : list Z := merge_unique [x] xs.

(* bigvector *)
Fixpoint vadd_aux (u v : list Z) : list Z :=
  match u, v with
  | a :: u', b :: v' => (a + b) :: vadd_aux u' v'
  | _, _ => []
  end.
Definition vadd (u v : list Z) : outcome (list Z) :=
  if Nat.eqb (length u) (length v) then Ok (vadd_aux u v) else Panic ($"lenmismatch").
Definition vlsh (v : list Z) (s : N) : list Z := map (fun x => Z.shiftl x (Z.of_N s)) v.
Definition basis (n i : nat) : list Z := map (fun j => if Nat.eqb j i then 1 else 0) (seq 0 n).

(* Clone: append([]*big.Int{}, xs...);  Concat: append(Clone(xs), ys...) *)
Definition clone (xs : list Z) : list Z := [] ++ xs.
Definition concat (xs ys : list Z) : list Z := clone xs ++ ys.

(* bigvector.New(n): n zeros.  basis.Idx(j): panics for j >= n *)
Definition vnew (n : nat) : list Z := repeat 0 n.
Definition basis_idx (n i j : nat) : outcome Z :=
  if Nat.leb n j then Panic ($"index") else Ok (if Nat.eqb j i then 1 else 0).

(* ---- call histories (C19 correspondence streams "vhist", "lhist") ----
   A straight-line program over registers; every instruction appends one register.  Registers
   are immutable lists here, so an earlier register can never be disturbed by a later call;
   the Go side re-reads every register at the end of the program. *)
Inductive vinstr :=
| VNew (n : nat) | VBasis (n i : nat) | VAdd (a b : nat) | VLsh (a : nat) (s : N) | VIdx (a j : nat).

Definition vstep (regs : list (list Z)) (ins : vinstr) : outcome (list Z) :=
  match ins with
  | VNew n => Ok (vnew n)
  | VBasis n i => Ok (basis n i)
  | VAdd a b => match nth_error regs a, nth_error regs b with
                | Some u, Some v => vadd u v
                | _, _ => Err ($"badreg")
                end
  | VLsh a s => match nth_error regs a with Some u => Ok (vlsh u s) | None => Err ($"badreg") end
  | VIdx a j => match nth_error regs a with
                | Some u => match nth_error u j with Some x => Ok [x] | None => Panic ($"index") end
                | None => Err ($"badreg")
                end
  end.

Fixpoint vhist (prog : list vinstr) (regs : list (list Z)) : outcome (list (list Z)) :=
  match prog with
  | [] => Ok regs
  | ins :: r => obind (vstep regs ins) (fun v => vhist r (regs ++ [v]))
  end.

Inductive linstr :=
| LLit (l : list Z) | LClone (a : nat) | LConcat (a b : nat) | LUnique (a : nat) | LMerge (a b : nat)
| LInsert (a : nat) (x : Z) | LSort (a : nat) | LSub (a lo hi : nat) | LMinMax (a i j : nat).

Fixpoint replace_nth {A} (k : nat) (v : A) (l : list A) : list A :=
  match l, k with
  | [], _ => []
  | _ :: r, O => v :: r
  | x :: r, S k' => x :: replace_nth k' v r
  end.

(* Sort works in place: register a itself becomes sorted; the new register is a copy of it *)
Definition lstep (regs : list (list Z)) (ins : linstr) : outcome (list (list Z)) :=
  let bad := Err ($"badreg") in
  match ins with
  | LLit l => Ok (regs ++ [l])
  | LClone a => match nth_error regs a with Some u => Ok (regs ++ [clone u]) | None => bad end
  | LConcat a b => match nth_error regs a, nth_error regs b with
                   | Some u, Some v => Ok (regs ++ [concat u v]) | _, _ => bad end
  | LUnique a => match nth_error regs a with Some u => Ok (regs ++ [unique u]) | None => bad end
  | LMerge a b => match nth_error regs a, nth_error regs b with
                  | Some u, Some v => Ok (regs ++ [merge_unique u v]) | _, _ => bad end
  | LInsert a x => match nth_error regs a with Some u => Ok (regs ++ [insert_sorted_unique u x]) | None => bad end
  | LSort a => match nth_error regs a with
               | Some u => Ok (replace_nth a (sort u) regs ++ [sort u]) | None => bad end
  | LSub a lo hi => match nth_error regs a with
                    | Some u => if Nat.leb lo hi && Nat.leb hi (length u)
                                then Ok (regs ++ [firstn (hi - lo) (skipn lo u)]) else bad
                    | None => bad end
  | LMinMax a i j => match nth_error regs a with
                     | Some u => match nth_error u i, nth_error u j with
                                 | Some x, Some y => let '(mn, mx) := min_max x y in Ok (regs ++ [[mn; mx]])
                                 | _, _ => bad end
                     | None => bad end
  end.

Fixpoint lhist (prog : list linstr) (regs : list (list Z)) : outcome (list (list Z)) :=
  match prog with
  | [] => Ok regs
  | ins :: r => obind (lstep regs ins) (lhist r)
  end.

(* ---- "bhist": histories over big-integer registers in which the caller may overwrite a value
   it was given ("scribble").  Every register is a list of integers (single results are
   one-element lists).  Values are immutable here: scribbling changes that one element of that
   one register and nothing else; every later call returns its mathematical value. *)
Inductive binstr :=
| BLit (x : Z) | BPow2 (e : N) | BOnes (n : N) | BMask (l h : N)
| BExtract (a k : nat) (l h : N) | BMinMax (a i b j : nat) | BPow2UpTo (a k : nat) | BUint64s (a k : nat)
| BUnique (a : nat) | BMerge (a b : nat) | BConcat (a b : nat)
| BScribble (a k : nat) (mode : N).

(* the caller's in-place writes: r.Add(r,1), r.Lsh(r,8), r.SetInt64(0), r.Not(r) *)
Definition scribble_val (mode : N) (x : Z) : Z :=
  if (mode =? 0)%N then x + 1 else if (mode =? 1)%N then Z.shiftl x 8
  else if (mode =? 2)%N then 0 else Z.lnot x.

Definition reg_elem (regs : list (list Z)) (a k : nat) : option Z :=
  match nth_error regs a with Some u => nth_error u k | None => None end.

Definition bstep (regs : list (list Z)) (ins : binstr) : outcome (list (list Z)) :=
  let bad := Err ($"badreg") in
  match ins with
  | BLit x => Ok (regs ++ [[x]])
  | BPow2 e => Ok (regs ++ [[pow2 e]])
  | BOnes n => Ok (regs ++ [[ones n]])
  | BMask l h => Ok (regs ++ [[mask l h]])
  | BExtract a k l h => match reg_elem regs a k with Some x => Ok (regs ++ [[extract x l h]]) | None => bad end
  | BMinMax a i b j => match reg_elem regs a i, reg_elem regs b j with
                       | Some x, Some y => let '(mn, mx) := min_max x y in Ok (regs ++ [[mn; mx]])
                       | _, _ => bad end
  | BPow2UpTo a k => match reg_elem regs a k with Some x => Ok (regs ++ [pow2_upto x]) | None => bad end
  | BUint64s a k => match reg_elem regs a k with
                    | Some x => if x <? 0 then Err ($"negative")
                                else obind (uint64s x) (fun ws => Ok (regs ++ [ws]))
                    | None => bad end
  | BUnique a => match nth_error regs a with Some u => Ok (regs ++ [unique u]) | None => bad end
  | BMerge a b => match nth_error regs a, nth_error regs b with
                  | Some u, Some v => Ok (regs ++ [merge_unique u v]) | _, _ => bad end
  | BConcat a b => match nth_error regs a, nth_error regs b with
                   | Some u, Some v => Ok (regs ++ [concat u v]) | _, _ => bad end
  | BScribble a k m => match nth_error regs a with
                       | Some u => match nth_error u k with
                                   | Some x => let v := scribble_val m x in
                                               Ok (replace_nth a (replace_nth k v u) regs ++ [[v]])
                                   | None => bad end
                       | None => bad end
  end.

Fixpoint bhist (prog : list binstr) (regs : list (list Z)) : outcome (list (list Z)) :=
  match prog with
  | [] => Ok regs
  | ins :: r => obind (bstep regs ins) (bhist r)
  end.
