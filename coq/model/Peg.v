(* Model of the parser acc/parse (grammar acc/parse/acc.peg, from which pigeon generates
   internal/parser/zparser.go): a recursive-descent parser over bytes that mirrors the grammar
   rule by rule with PEG semantics -- ordered choice, greedy * + ? without back-off, literals as
   plain prefixes (no keyword boundaries).  Executable definitions only.

   pigeon specifics that are modelled:
   * an error returned by an action (strconv.ParseUint in Uint64Literal, the index range check in
     Index) does NOT fail the match: the match succeeds, the error is appended to the parser's error
     list, and the whole parse returns an error at the end.  The list is never rolled back on
     backtracking.  It is modelled as the flag carried by every result (also by failures).
   * invalid UTF-8 is such a sticky error too, and a non-ASCII byte matches no terminal of the
     grammar; since Chain ends in EOF both make the parse fail, which the model reproduces because
     no byte >= 128 matches any class or literal.
   * fuel: p_expr's fuel bounds the parenthesis nesting depth; the loops ( * ) carry a counter
     initialised from the input length.  Running out is reported as PFuel -> OutOfFuel, never as a
     parse result; the entry point passes length + 1. *)
From Coq Require Import String.
From Coq Require Import List NArith ZArith Bool.
From AV Require Import model.Proto model.Ast model.Printer.
Import ListNotations.
Open Scope N_scope.

Inductive pres (A : Type) : Type :=
| PFail (e : bool)                       (* no match; e: an action error was recorded on the way *)
| PGot (e : bool) (a : A) (r : list N)   (* match with value a and remaining input r *)
| PFuel.
Arguments PFail {A} e.
Arguments PGot {A} e a r.
Arguments PFuel {A}.

Definition por {A} (e : bool) (p : pres A) : pres A :=
  match p with
  | PFail f => PFail (e || f)
  | PGot f a r => PGot (e || f) a r
  | PFuel => PFuel
  end.
(* sequence *)
Definition pbind {A B} (p : pres A) (k : A -> list N -> pres B) : pres B :=
  match p with
  | PFail e => PFail e
  | PGot e a r => por e (k a r)
  | PFuel => PFuel
  end.
(* ordered choice; the second alternative is a thunk so that extraction does not evaluate it eagerly *)
Definition palt {A} (p : pres A) (q : unit -> pres A) : pres A :=
  match p with
  | PFail e => por e (q tt)
  | _ => p
  end.

(* _ <- [ \t\r]* *)
Fixpoint skipws (s : list N) : list N :=
  match s with
  | c :: r => if is_ws c then skipws r else s
  | [] => []
  end.

(* greedy class* *)
Fixpoint span (p : N -> bool) (s : list N) : list N * list N :=
  match s with
  | c :: r => if p c then let '(a, b) := span p r in (c :: a, b) else ([], s)
  | [] => ([], [])
  end.

(* literal as a plain prefix *)
Fixpoint lit (l s : list N) : option (list N) :=
  match l, s with
  | [], _ => Some s
  | a :: l', b :: s' => if a =? b then lit l' s' else None
  | _ :: _, [] => None
  end.

(* Identifier <- [a-zA-Z_] [a-zA-Z0-9_]* *)
Definition p_ident (s : list N) : option (list N * list N) :=
  match s with
  | c :: r => if is_alpha_ c then let '(a, b) := span is_idc r in Some (c :: a, b) else None
  | [] => None
  end.

(* ---- UintLiteral ---- *)
Definition is_hexdigit (c : N) : bool :=
  is_digit c || ((97 <=? c) && (c <=? 102)) || ((65 <=? c) && (c <=? 70)).
Definition is_octdigit (c : N) : bool := (48 <=? c) && (c <=? 55).

(* HexUintLiteral <- "0x" [0-9a-fA-F]+      OctalUintLiteral <- '0' [0-7]+      DecimalUintLiteral <- [0-9]+
   each returns the matched text and the rest *)
Definition lit_hex (s : list N) : option (list N * list N) :=
  match s with
  | c1 :: c2 :: r =>
      if (c1 =? 48) && (c2 =? 120) then
        match span is_hexdigit r with
        | ([], _) => None
        | (ds, r') => Some (c1 :: c2 :: ds, r')
        end
      else None
  | _ => None
  end.
Definition lit_oct (s : list N) : option (list N * list N) :=
  match s with
  | c1 :: r =>
      if c1 =? 48 then
        match span is_octdigit r with
        | ([], _) => None
        | (ds, r') => Some (c1 :: ds, r')
        end
      else None
  | _ => None
  end.
Definition lit_dec (s : list N) : option (list N * list N) :=
  match span is_digit s with
  | ([], _) => None
  | (ds, r') => Some (ds, r')
  end.
(* (Hex / Octal / Decimal), in that order *)
Definition lit_text (s : list N) : option (list N * list N) :=
  match lit_hex s with
  | Some x => Some x
  | None => match lit_oct s with
            | Some x => Some x
            | None => lit_dec s
            end
  end.

(* strconv.ParseUint(text, 0, 64): None = error (syntax or range).
   base 0: "0b"/"0o"/"0x" prefix (either case) when at least 3 bytes long, otherwise a leading "0"
   means octal; digits must be below the base; value must fit 64 bits.  (Underscores, which base 0
   also admits, never occur in text matched by the grammar and are treated as a syntax error.) *)
Definition digit_val (c : N) : option N :=
  if is_digit c then Some (c - 48)
  else if (97 <=? c) && (c <=? 122) then Some (c - 87)
  else if (65 <=? c) && (c <=? 90) then Some (c - 55)
  else None.
Fixpoint digits_val (base acc : N) (s : list N) : option N :=
  match s with
  | [] => Some acc
  | c :: r => match digit_val c with
              | Some d => if d <? base then
                            let acc' := acc * base + d in
                            if acc' <? 2 ^ 64 then digits_val base acc' r else None
                          else None
              | None => None
              end
  end.
Definition lower (c : N) : N := if (65 <=? c) && (c <=? 90) then c + 32 else c.
Definition parse_uint_go (text : list N) : option N :=
  match text with
  | [] => None
  | c :: r =>
      if c =? 48 then
        match r with
        | p :: ((_ :: _) as ds) =>
            if lower p =? 98 then digits_val 2 0 ds
            else if lower p =? 111 then digits_val 8 0 ds
            else if lower p =? 120 then digits_val 16 0 ds
            else digits_val 8 0 r
        | _ => digits_val 8 0 r
        end
      else digits_val 10 0 text
  end.

(* UintLiteral: value and sticky flag *)
Definition p_uint (s : list N) : pres N :=
  match lit_text s with
  | Some (text, r) => match parse_uint_go text with
                      | Some v => PGot false v r
                      | None => PGot true 0 r
                      end
  | None => PFail false
  end.

(* ---- operators ---- *)
Definition oalt {A} (a b : option A) : option A := match a with Some x => Some x | None => b end.
Definition p_addop (s : list N) : option (list N) := oalt (lit [43] s) (lit [97; 100; 100] s).           (* '+' / "add" *)
Definition p_shiftop (s : list N) : option (list N) := oalt (lit [60; 60] s) (lit [115; 104; 108] s).    (* "<<" / "shl" *)
Definition p_dblop (s : list N) : option (list N) :=                                                      (* '2' _ '*' / "dbl" *)
  oalt (match lit [50] s with Some r => lit [42] (skipws r) | None => None end) (lit [100; 98; 108] s).

(* ---- operands ---- *)
(* ast.Operand(idx.(uint)): uint -> int conversion; a negative result is an action error (sticky) *)
Definition to_int (v : N) : Z := if v <? 2 ^ 63 then Z.of_N v else (Z.of_N v - 2 ^ 64)%Z.

(* Index <- '[' _ UintLiteral _ ']' *)
Definition p_index (s : list N) : pres expr :=
  match lit [91] s with
  | Some r => pbind (p_uint (skipws r)) (fun v r2 =>
                match lit [93] (skipws r2) with
                | Some r3 => PGot (2 ^ 63 <=? v) (EOperand (to_int v)) r3
                | None => PFail false
                end)
  | None => PFail false
  end.

(* Operand <- One / Index / Identifier *)
Definition p_operand (s : list N) : pres expr :=
  match lit [49] s with
  | Some r => PGot false (EOperand 0) r
  | None => palt (p_index s) (fun _ =>
              match p_ident s with
              | Some (i, r) => PGot false (EIdent i) r
              | None => PFail false
              end)
  end.

(* ---- expressions ---- *)
Section Expr.
Variable pe : list N -> pres expr.        (* Expr, one parenthesis level further down *)

(* ParenExpr <- '(' _ Expr _ ')' *)
Definition p_paren (s : list N) : pres expr :=
  match lit [40] s with
  | Some r => pbind (pe (skipws r)) (fun e r2 =>
                match lit [41] (skipws r2) with
                | Some r3 => PGot false e r3
                | None => PFail false
                end)
  | None => PFail false
  end.

(* BaseExpr <- ParenExpr / Operand *)
Definition p_base (s : list N) : pres expr := palt (p_paren s) (fun _ => p_operand s).

(* ShiftExpr <- _ BaseExpr _ ShiftOperator _ UintLiteral _ / _ DoubleOperator _ BaseExpr / BaseExpr *)
Definition p_shift (s : list N) : pres expr :=
  palt (pbind (p_base (skipws s)) (fun x r =>
          match p_shiftop (skipws r) with
          | Some r2 => pbind (p_uint (skipws r2)) (fun n r3 => PGot false (EShift x n) (skipws r3))
          | None => PFail false
          end))
  (fun _ => palt (match p_dblop (skipws s) with
                  | Some r => pbind (p_base (skipws r)) (fun x r2 => PGot false (EDouble x) r2)
                  | None => PFail false
                  end)
  (fun _ => p_base s)).

(* (_ AddOperator _ ShiftExpr)* folded to the left; n bounds the iterations *)
Fixpoint p_addrest (n : nat) (e : bool) (acc : expr) (s : list N) : pres expr :=
  match n with
  | O => PFuel
  | S n' =>
    match p_addop (skipws s) with
    | None => PGot e acc s
    | Some r => match p_shift (skipws r) with
                | PGot f y r2 => p_addrest n' (e || f) (EAdd acc y) r2
                | PFail f => PGot (e || f) acc s
                | PFuel => PFuel
                end
    end
  end.

(* AddExpr <- _ ShiftExpr (_ AddOperator _ ShiftExpr)* _ *)
Definition p_add (s : list N) : pres expr :=
  pbind (p_shift (skipws s)) (fun x r =>
  pbind (p_addrest (S (length r)) false x r) (fun e r2 => PGot false e (skipws r2))).
End Expr.

(* Expr <- AddExpr *)
Fixpoint p_expr (fuel : nat) (s : list N) : pres expr :=
  match fuel with
  | O => PFuel
  | S f => p_add (p_expr f) s
  end.

(* ---- statements ---- *)
Section Stmt.
Variable pe : list N -> pres expr.

(* Assignment <- _ Identifier _ '=' _ Expr _ EOL *)
Definition p_assignment (s : list N) : pres stmt :=
  match p_ident (skipws s) with
  | Some (n, r) =>
    match lit [61] (skipws r) with
    | Some r2 => pbind (pe (skipws r2)) (fun e r3 =>
                   match lit [10] (skipws r3) with
                   | Some r4 => PGot false (mkStmt n e) r4
                   | None => PFail false
                   end)
    | None => PFail false
    end
  | None => PFail false
  end.

(* Return <- _ ("return" __)? Expr _ EOL?          __ <- [ \t\r]+ *)
Definition p_return (s : list N) : pres stmt :=
  let s1 := skipws s in
  let s2 := match lit kw_return s1 with
            | Some (c :: r) => if is_ws c then skipws r else s1
            | _ => s1
            end in
  pbind (pe s2) (fun e r =>
    let r1 := skipws r in
    PGot false (mkStmt [] e) (match lit [10] r1 with Some r2 => r2 | None => r1 end)).

(* Assignment* *)
Fixpoint p_assignments (n : nat) (s : list N) : pres (list stmt) :=
  match n with
  | O => PFuel
  | S n' =>
    match p_assignment s with
    | PGot f a r => match p_assignments n' r with
                    | PGot g l r2 => PGot (f || g) (a :: l) r2
                    | PFail g => PFail (f || g)
                    | PFuel => PFuel
                    end
    | PFail f => PGot f [] s
    | PFuel => PFuel
    end
  end.
End Stmt.

(* Chain <- Assignment* Return _ EOF *)
Definition p_chain (fuel : nat) (s : list N) : pres script :=
  let pe := p_expr fuel in
  pbind (p_assignments pe (S (length s)) s) (fun l r =>
  pbind (p_return pe r) (fun ret r2 =>
    match skipws r2 with
    | [] => PGot false (l ++ [ret]) []
    | _ => PFail false
    end)).

(* parse.String *)
Definition parse (s : list N) : outcome script :=
  match p_chain (S (length s)) s with
  | PGot false c _ => Ok c
  | PGot true _ _ => Err ($"parse")
  | PFail _ => Err ($"parse")
  | PFuel => OutOfFuel
  end.
