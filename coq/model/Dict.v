(* Model of the generic part of alg/dict (C01): dictsumchain and primitive.
   A dictionary sum is a list of terms (D, E) meaning D * 2^E.  The decomposers are in
   model/Decomp.v (C09), which has its own record type for terms and its own sum_int over N;
   files that import both qualify the names (Dict.sum_int / Decomp.sum_int). *)
From Coq Require Import String.
From Coq Require Import List NArith ZArith Bool Arith.
From AV Require Import model.Proto model.Chain model.Program model.Bits model.Lists.
Import ListNotations.
Open Scope Z_scope.

Notation dterm := (Z * N)%type (only parsing).

Definition term_int (t : Z * N) : Z := Z.shiftl (fst t) (Z.of_N (snd t)).
Definition sum_int (s : list (Z * N)) : Z := fold_left (fun acc t => acc + term_int t) s 0.

(* n successive doublings of cur, each appended *)
Fixpoint shifts (n : nat) (cur : Z) : Z * list Z :=
  match n with
  | O => (cur, [])
  | S n' => let cur' := Z.shiftl cur 1 in
            let '(final, l) := shifts n' cur' in (final, cur' :: l)
  end.

(* dictsumchain: from the top term down; between sum[k] and sum[k-1] shift (E_k - E_{k-1}) times
   (zero times when the exponents are not increasing), then add D_{k-1}; finally shift E_0 times. *)
Fixpoint dsc_loop (cur : Z) (e_prev : N) (rest : list (Z * N)) : list Z :=
  match rest with
  | [] => snd (shifts (N.to_nat e_prev) cur)
  | (d, e) :: rest' =>
      let '(cur', l) := shifts (N.to_nat (e_prev - e)) cur in
      let cur'' := cur' + d in
      l ++ [cur''] ++ dsc_loop cur'' e rest'
  end.

Definition dictsumchain (sum : list (Z * N)) : outcome (list Z) :=
  match rev sum with
  | [] => Panic ($"index")
  | (d, e) :: rest => Ok (dsc_loop d e rest)
  end.

(* idx := map value -> LAST position in c; a missing key reads as 0 (Go zero value) *)
Fixpoint last_index_from (i : nat) (x : Z) (c : list Z) (found : nat) : nat :=
  match c with
  | [] => found
  | y :: r => last_index_from (S i) x r (if x =? y then i else found)
  end.
Definition idx_of (c : list Z) (x : Z) : nat := last_index_from 0 x c 0.

Fixpoint vsum (vs : list (list Z)) (n : nat) : list Z :=
  match vs with
  | [] => repeat 0 n
  | v :: r => vadd_aux v (vsum r n)
  end.

(* the vectors vc: basis vector at primitive positions, sum of the operand vectors elsewhere *)
Fixpoint vc_loop (n : nat) (prim : list bool) (vc : list (list Z)) (p : list op) : outcome (list (list Z)) :=
  match p with
  | [] => Ok vc
  | (i, j) :: r =>
      let k := length vc in
      if nth k prim false then vc_loop n prim (vc ++ [basis n k]) r
      else match nth_error vc i, nth_error vc j with
           | Some a, Some b => vc_loop n prim (vc ++ [vadd_aux a b]) r
           | _, _ => Panic ($"index")
           end
  end.

(* primitive positions: read at least twice, and every dependency of such a position *)
Definition mark_primitive (n : nat) (reads : list nat) (deps : list N) : list bool :=
  let direct := map (fun r => (2 <=? r)%nat) reads in
  map (fun j => existsb (fun i => nth i direct false && N.testbit (nth i deps 0%N) (N.of_nat j)) (seq 0 n)) (seq 0 n).

(* the rebuilt sum before sorting: for i ascending, for every set bit e of v[i] ascending: (c[i], e) *)
Definition rebuilt (c : list Z) (v : list Z) : list (Z * N) :=
  flat_map (fun '(ci, vi) => map (fun e => (ci, e)) (bits_set vi)) (combine c v).

Fixpoint remove_first (t : Z * N) (l : list (Z * N)) : option (list (Z * N)) :=
  match l with
  | [] => None
  | u :: r => if (fst t =? fst u) && (snd t =? snd u)%N then Some r
              else option_map (cons u) (remove_first t r)
  end.
Fixpoint is_perm (a b : list (Z * N)) : bool :=
  match a with
  | [] => match b with [] => true | _ => false end
  | t :: a' => match remove_first t b with Some b' => is_perm a' b' | None => false end
  end.
Fixpoint nondecreasing_e (l : list (Z * N)) : bool :=
  match l with
  | t :: ((u :: _) as r) => (snd t <=? snd u)%N && nondecreasing_e r
  | _ => true
  end.

(* stable insertion sort by exponent: what sort.Slice yields whenever no two exponents tie *)
Fixpoint insert_by_e (t : Z * N) (l : list (Z * N)) : list (Z * N) :=
  match l with
  | [] => [t]
  | u :: r => if (snd t <? snd u)%N then t :: l else u :: insert_by_e t r
  end.
Definition sort_by_e (l : list (Z * N)) : list (Z * N) := fold_right insert_by_e [] (rev l).

(* primitive(sum, c).  [order] is the order in which Go's unstable sort.Slice left the rebuilt
   sum (observed through the verif hook); None = use the stable sort.  The model checks that
   an observed order is a permutation of its own rebuilt sum with non-decreasing exponents. *)
Definition primitive (sum : list (Z * N)) (c : list Z) (order : option (list (Z * N)))
  : outcome (list (Z * N) * list Z) :=
  match sum with
  | [_] =>
      (* early return: the sum is handed back untouched; an observed order must be that very sum *)
      match order with
      | None => Ok (sum, c)
      | Some o => if is_perm o sum then Ok (sum, c) else Err ($"sortoracle")
      end
  | _ =>
    let n := length c in
    obind (program c) (fun p =>
    obind (read_counts p) (fun reads0 =>
    obind (fold_left (fun acc t => obind acc (fun rs => bump rs (idx_of c (fst t)))) sum (Ok reads0)) (fun reads =>
    obind (dependencies p) (fun deps =>
    let prim := mark_primitive n reads deps in
    obind (vc_loop n prim [basis n 0] p) (fun vc =>
    let v := fold_left (fun acc t => vadd_aux acc (vlsh (nth (idx_of c (fst t)) vc []) (snd t))) sum (repeat 0 n) in
    let out0 := rebuilt c v in
    obind (match order with
           | None => Ok (sort_by_e out0)
           | Some o => if is_perm o out0 && nondecreasing_e o then Ok o else Err ($"sortoracle")
           end) (fun out =>
    if sum_int out =? sum_int sum
    then Ok (out, map fst (filter (fun '(x, b) => b) (combine c prim)))
    else Err ($"reconstruct")))))))
  end.
