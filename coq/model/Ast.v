(* acc/ast: syntax tree types (shared by C03, C04, C06, C07, C14, C15, C16). Types only. *)
From Coq Require Import List NArith ZArith.
Import ListNotations.

(* ast.Operand is a Go int (the parser converts a uint literal, so values >= 2^63 wrap to
   negative); ast.Identifier is a string; ast.Shift.S is a Go uint. *)
Inductive expr :=
| EOperand (i : Z)
| EIdent (name : list N)
| EAdd (x y : expr)
| EShift (x : expr) (s : N)
| EDouble (x : expr).

(* ast.Statement: Name = "" for the final (return) statement *)
Record stmt := mkStmt { sname : list N; sexpr : expr }.

(* ast.Chain *)
Definition script := list stmt.

Definition is_op (e : expr) : bool :=
  match e with EAdd _ _ | EShift _ _ | EDouble _ => true | _ => false end.

(* ast.*.Precedence() *)
Definition precedence (e : expr) : nat :=
  match e with
  | EOperand _ | EIdent _ => 4
  | EAdd _ _ => 1
  | EShift _ _ => 2
  | EDouble _ => 3
  end.
