(* Model of alg/dict/runs.go RunsChain (C11).  Executable definitions only; proofs are in
   proofs/RunsProofs.v.

   lc.Program()            Chain.program lc (its error is returned unchanged)
   s := map[uint]uint{}    association list N * N, missing key reads 0
   a, b := MinMax(..)      Bits.min_max
   IsUint64 guard          is_uint64 (0 <= v < 2^64) on the sum lc[k+1], error class "toolarge"
   la, lb uint             N (values below 2^64 after the guard)
   inner for loop          shift_loop, structural on the variant la - s[lb]; it appends rb << (t+1)
                           for t = s[lb] .. la-1 and leaves s[lb] = la; s[lb]+1 <= la < 2^64 never wraps
   Ones(la+lb)             the uint sum wraps: ones ((la + lb) mod 2^64)
   lc[op.I], lc[op.J], lc[k+1]   nth_error, Panic "index" on a miss (Program returns len-1 ops with indices < len) *)
From Coq Require Import String.
From Coq Require Import List NArith ZArith Bool Arith.
From AV Require Import model.Proto model.Chain model.Bits.
Import ListNotations.
Open Scope N_scope.

Fixpoint sget (s : list (N * N)) (b : N) : N :=
  match s with
  | [] => 0
  | (k, v) :: t => if k =? b then v else sget t b
  end.
Definition sset (s : list (N * N)) (b v : N) : list (N * N) := (b, v) :: s.

Definition is_uint64 (z : Z) : bool := (0 <=? z)%Z && (z <? 2 ^ 64)%Z.
Definition wrap64 (n : N) : N := n mod 2 ^ 64.

(* for ; s[lb] < la; s[lb]++ { shift := rb << (s[lb]+1); c = append(c, shift) }  (cnt iterations from s[lb] = t) *)
Fixpoint shift_loop (cnt : nat) (rb : Z) (t : N) : list Z :=
  match cnt with
  | O => []
  | S m => Z.shiftl rb (Z.of_N (t + 1)) :: shift_loop m rb (t + 1)
  end.

(* body of `for k, op := range p`: the guard is on the sum lc[k+1] (fix 5bad32e); a.Uint64(),
   b.Uint64() are then exact because Program only accepts chains of positive values, so both
   operands are below their sum *)
Definition runs_step (lc : list Z) (st : list Z * list (N * N)) (k : nat) (o : op) : outcome (list Z * list (N * N)) :=
  let '(c, s) := st in
  match nth_error lc (fst o), nth_error lc (snd o), nth_error lc (S k) with
  | Some x, Some y, Some z =>
      let '(a, b) := min_max x y in
      if negb (is_uint64 z) then Err ($"toolarge")
      else
        let la := Z.to_N a in
        let lb := Z.to_N b in
        let rb := ones lb in
        let sb := sget s lb in
        let shifts := shift_loop (N.to_nat (la - sb)) rb sb in
        let s' := if sb <? la then sset s lb la else s in
        Ok (c ++ shifts ++ [ones (wrap64 (la + lb))], s')
  | _, _, _ => Panic ($"index")
  end.

Fixpoint runs_loop (lc : list Z) (p : list op) (k : nat) (st : list Z * list (N * N)) : outcome (list Z) :=
  match p with
  | [] => Ok (fst st)
  | o :: r => obind (runs_step lc st k o) (runs_loop lc r (S k))
  end.

(* c := addchain.New(); s := map[uint]uint{} *)
Definition runs_chain (lc : list Z) : outcome (list Z) :=
  obind (program lc) (fun p => runs_loop lc p 0 ([1%Z], [])).
