(* Model of acc/printer/printer.go (after commit e49d16d) and of the effect of
   internal/print.TabWriter = text/tabwriter(minwidth 1, tabwidth 4, padding 1, ' ', flags 0)
   on the statement shape the printer emits.  Executable definitions only.

   printer.statement: named   -> name '\t' '=' '\t' expr '\n'
                      unnamed -> "return" '\t' '\t' expr '\n'
   Every line therefore has exactly two tab-terminated cells followed by trailing text, so the
   tabwriter sees one column block per column spanning all lines:
     width(col) = max(minwidth, max over cells (len cell + padding)),  cells padded with ' '.
   (Exact for names without '\t' '\n' '\v' '\f' 0xff and without non-ASCII bytes, which is all a
   syntactically valid identifier can contain; the correspondence check covers odd names too.)

   Also here: the character classes of the grammar and the well-formedness predicate of syntax
   trees that C07's round trip assumes. *)
From Coq Require Import List NArith ZArith Bool.
From AV Require Import model.Proto model.Ast.
Import ListNotations.
Open Scope N_scope.

(* ---- character classes (acc.peg) ---- *)
Definition is_ws (c : N) : bool := (c =? 32) || (c =? 9) || (c =? 13).          (* [ \t\r] *)
Definition is_digit (c : N) : bool := (48 <=? c) && (c <=? 57).
Definition is_alpha_ (c : N) : bool :=
  ((97 <=? c) && (c <=? 122)) || ((65 <=? c) && (c <=? 90)) || (c =? 95).        (* [a-zA-Z_] *)
Definition is_idc (c : N) : bool := is_alpha_ c || is_digit c.                   (* [a-zA-Z0-9_] *)

(* ---- %d ---- *)
Fixpoint dec_aux (fuel : nat) (n : N) (acc : list N) : list N :=
  match fuel with
  | O => acc
  | S f => if n <? 10 then (n + 48) :: acc else dec_aux f (n / 10) ((n mod 10 + 48) :: acc)
  end.
Definition dec_str (n : N) : list N := dec_aux (S (N.to_nat (N.size n))) n [].
Definition dec_strZ (z : Z) : list N :=
  match z with
  | Zneg p => 45 :: dec_str (Npos p)
  | _ => dec_str (Z.to_N z)
  end.

(* ---- printer.expr ---- *)
Definition is_add (e : expr) : bool := match e with EAdd _ _ => true | _ => false end.
Definition paren (b : bool) (s : list N) : list N := if b then [40] ++ s ++ [41] else s.

(* operand: 0 -> "1", otherwise "[%d]"
   add:     expr(X) " + " (Y parenthesised iff Y is an Add)     [X is never parenthesised: Add has the
            lowest precedence]
   shift:   base(X) " << %d"      double: "2*" base(X)          base(e) parenthesises every operator *)
Fixpoint pr_expr (e : expr) : list N :=
  match e with
  | EOperand i => if (i =? 0)%Z then [49] else [91] ++ dec_strZ i ++ [93]
  | EIdent s => s
  | EAdd x y => pr_expr x ++ [32; 43; 32] ++ paren (is_add y) (pr_expr y)
  | EShift x s => paren (is_op x) (pr_expr x) ++ [32; 60; 60; 32] ++ dec_str s
  | EDouble x => [50; 42] ++ paren (is_op x) (pr_expr x)
  end.

(* ---- statements through the tabwriter ---- *)
Definition kw_return : list N := [114; 101; 116; 117; 114; 110].
Definition label (s : stmt) : list N := match sname s with [] => kw_return | n => n end.
Definition eqcell (s : stmt) : list N := match sname s with [] => [] | _ => [61] end.
Definition colwidth (f : stmt -> list N) (c : script) : nat :=
  S (fold_right (fun s m => Nat.max (length (f s)) m) O c).
Definition pad (w : nat) (t : list N) : list N := t ++ repeat 32 (w - length t).
Definition pr_stmt (w0 w1 : nat) (s : stmt) : list N :=
  pad w0 (label s) ++ pad w1 (eqcell s) ++ pr_expr (sexpr s) ++ [10].

(* printer.Bytes of an ast.Chain *)
Definition print_script (c : script) : list N :=
  flat_map (pr_stmt (colwidth label c) (colwidth eqcell c)) c.

(* ---- well-formed trees: the hypothesis of the round trip ---- *)
Definition ident_ok (s : list N) : bool :=
  match s with c :: r => is_alpha_ c && forallb is_idc r | [] => false end.
(* "dbl" followed by a letter, '_' or '1': where a shift-expression starts the grammar reads it as a
   doubling (finding K1) *)
Definition dbl_class (s : list N) : bool :=
  match s with
  | c1 :: c2 :: c3 :: c :: _ => (c1 =? 100) && (c2 =? 98) && (c3 =? 108) && (is_alpha_ c || (c =? 49))
  | _ => false
  end.
(* sh = true where a shift-expression starts (statement root, either operand of an Add);
   false directly under Shift/Double *)
Fixpoint wf_expr (sh : bool) (e : expr) : bool :=
  match e with
  | EOperand i => ((0 <=? i) && (i <? 2 ^ 63))%Z
  | EIdent s => ident_ok s && negb (sh && dbl_class s)
  | EAdd x y => wf_expr true x && wf_expr true y
  | EShift x s => wf_expr false x && (s <? 2 ^ 64)
  | EDouble x => wf_expr false x
  end.
(* at least one statement, exactly the last one unnamed, the others named by legal identifiers *)
Fixpoint wf_script (c : script) : bool :=
  match c with
  | [] => false
  | [s] => match sname s with [] => wf_expr true (sexpr s) | _ => false end
  | s :: r => ident_ok (sname s) && wf_expr true (sexpr s) && wf_script r
  end.
