(* Model of the chain-algorithm layer (C01): alg.AsChainAlgorithm, binary.RightToLeft,
   dict.Algorithm.FindChain, dict.RunsAlgorithm.FindChain, opt.Algorithm.FindChain, their String()
   methods, exec.Execute and the construction loops of ensemble.Ensemble().
   Executable definitions only; proofs are in proofs/EnsembleProofs.v.

   Go                                         model
   alg.ChainAlgorithm value                   alg_cfg (the configuration as data)
   a.String()                                 alg_name a
   a.FindChain(n)                             find_chain a n orc
   exec.Execute(n, a)                         execute a n orc
   ensemble.Ensemble()                        ensemble

   The target n is a *big.Int -> Z.  The decomposers of model/Decomp.v work on a non-negative
   big.Int (N); n is handed over with Z.to_N, so the dictionary and runs algorithms are modelled for
   n >= 0 only (n < 0 is outside the property and is never sent: the dispatcher answers badcase).

   orc is the sort oracle of DESIGN 3.5: primitive calls the unstable sort.Slice on a list that
   routinely has equal exponents, and dictsumchain consumes ties in the order the sort left them.
   orc = Some o is the post-sort list observed from the implementation; the model checks it is a
   permutation of its own rebuilt sum with non-decreasing exponents (else Err "sortoracle") and goes
   on with it.  orc = None uses the stable insertion sort. *)
From Coq Require Import String.
From Coq Require Import List NArith ZArith Bool Arith.
From AV Require Import model.Proto model.Bits model.Lists model.Chain model.Program
  model.Heuristic model.Contfrac model.Decomp model.Opt model.Runs model.Binary model.Dict.
Import ListNotations.
Open Scope Z_scope.

Notation sort_oracle := (option (list (Z * N))) (only parsing).

Inductive alg_cfg : Type :=
| ABinary                                  (* binary.RightToLeft{} *)
| ADict (m : method) (s : seqalg)          (* dict.NewAlgorithm(m, s) *)
| ARuns (s : seqalg)                       (* dict.NewRunsAlgorithm(s) *)
| AOpt (a : alg_cfg)                       (* opt.Algorithm{Algorithm: a} *)
| ASeq (s : seqalg).                       (* alg.AsChainAlgorithm(s) *)

(* ---- String() ---- *)

(* fmt.Sprintf("fixed_window(%d)", w.K) etc. *)
Definition method_name (m : method) : list N :=
  match m with
  | Fixed K => $"fixed_window(" ++ print_decN K ++ $")"
  | Sliding K => $"sliding_window(" ++ print_decN K ++ $")"
  | RunLength T => $"run_length(" ++ print_decN T ++ $")"
  | Hybrid K T => $"hybrid(" ++ print_decN K ++ [comma] ++ print_decN T ++ $")"
  end.

(* asChainAlgorithm embeds the SequenceAlgorithm, so its String() is the sequence algorithm's *)
Fixpoint alg_name (a : alg_cfg) : list N :=
  match a with
  | ABinary => $"binary_right_to_left"
  | ADict m s => $"dictionary(" ++ method_name m ++ [comma] ++ seqalg_name s ++ $")"
  | ARuns s => $"runs(" ++ seqalg_name s ++ $")"
  | AOpt a' => $"opt(" ++ alg_name a' ++ $")"
  | ASeq s => seqalg_name s
  end.

(* ---- FindChain ---- *)

(* a Decomp.term {D, E : N} as the pair used by model/Dict.v *)
Definition conv_term (t : term) : Z * N := (Z.of_N (D t), E t).
Definition conv_sum (s : list term) : list (Z * N) := map conv_term s.

(* the common tail of both dictionary algorithms:
     sum, c, err = primitive(sum, c); dc := dictsumchain(sum); c = append(c, dc...);
     bigints.Sort(c); c = bigints.Unique(c) *)
Definition reduce_and_build (sum : list (Z * N)) (c : list Z) (orc : sort_oracle) : outcome (list Z) :=
  obind (primitive sum c orc) (fun sc =>
  obind (dictsumchain (fst sc)) (fun dc =>
  Ok (unique (sort (snd sc ++ dc))))).

(* dict.Algorithm.FindChain:
     sum := a.decomp.Decompose(n); sum.SortByExponent(); dict := sum.Dictionary();
     c, err := a.seqalg.FindSequence(dict); ... *)
Definition dict_find_chain (m : method) (s : seqalg) (n : Z) (orc : sort_oracle) : outcome (list Z) :=
  obind (decompose m (Z.to_N n)) (fun sum0 =>
  let sum := sort_by_exponent sum0 in
  let dict := dictionary sum in
  obind (find_sequence_alg s (map Z.of_N dict)) (fun c =>
  reduce_and_build (conv_sum sum) c orc)).

(* dict.RunsAlgorithm.FindChain:
     d := RunLength{T: 0}; sum := d.Decompose(n); runs := sum.Dictionary();
     lengths = [ big.NewInt(int64(run.BitLen())) for run in runs ];
     lc, err := a.seqalg.FindSequence(lengths); c, err := RunsChain(lc); ... *)
Definition runs_find_chain (s : seqalg) (n : Z) (orc : sort_oracle) : outcome (list Z) :=
  obind (decompose (RunLength 0) (Z.to_N n)) (fun sum =>
  let runs := dictionary sum in
  let lengths := map (fun r => Z.of_N (bitlen (Z.of_N r))) runs in
  obind (find_sequence_alg s lengths) (fun lc =>
  obind (runs_chain lc) (fun c =>
  reduce_and_build (conv_sum sum) c orc))).

(* opt.Algorithm.FindChain: c, err := a.Algorithm.FindChain(n); opt, err := Optimize(c)
   asChainAlgorithm.FindChain: a.FindSequence([]*big.Int{target}) *)
Fixpoint find_chain (a : alg_cfg) (n : Z) (orc : sort_oracle) : outcome (list Z) :=
  match a with
  | ABinary => rtl_binary n
  | ADict m s => dict_find_chain m s n orc
  | ARuns s => runs_find_chain s n orc
  | AOpt a' => obind (find_chain a' n orc) optimize
  | ASeq s => find_sequence_alg s [n]
  end.

(* ---- exec.Execute ---- *)

(* exec.Result: Err (class of the error, None = nil), Chain, Program.  Target and Algorithm are
   the arguments themselves. *)
Record result : Type := mkResult {
  res_err : option (list N);
  res_chain : list Z;
  res_program : list op }.

(* r.Chain, r.Err = a.FindChain(n); if r.Err != nil { return r }
   r.Program, r.Err = r.Chain.Program(); if r.Err != nil { return r }
   if !Equal(r.Chain.End(), n) { r.Err = "did not produce the required value" }
   A panic inside FindChain propagates out of Execute.  c.End() cannot panic here: Program()
   has already refused the empty chain. *)
Definition execute (a : alg_cfg) (n : Z) (orc : sort_oracle) : outcome result :=
  match find_chain a n orc with
  | Ok c =>
      match program c with
      | Ok p =>
          match c with
          | [] => Panic ($"index")
          | _ => if last c 0 =? n then Ok (mkResult None c p)
                 else Ok (mkResult (Some ($"end")) c p)
          end
      | Err e => Ok (mkResult (Some e) c [])
      | Panic e => Panic e
      | OutOfFuel => OutOfFuel
      end
  | Err e => Ok (mkResult (Some e) [] [])
  | Panic e => Panic e
  | OutOfFuel => OutOfFuel
  end.

(* ---- ensemble.Ensemble() ---- *)

(* for k := lo; k <= hi; k *= 2 *)
Fixpoint doubling (fuel : nat) (k hi : N) : list N :=
  match fuel with
  | O => []
  | S f => if (k <=? hi)%N then k :: doubling f (2 * k) hi else []
  end.
Definition doubling_range (lo hi : N) : list N := doubling (S (N.to_nat (N.size hi))) lo hi.

(* for k := lo; k <= hi; k++ *)
Definition counting_range (lo hi : N) : list N :=
  map (fun i => (lo + N.of_nat i)%N) (seq 0 (N.to_nat (hi + 1 - lo))).

(* seqalgs: the two heuristic compositions, then every strategy with Singleton() *)
Definition ensemble_seqalgs : list seqalg :=
  [SAHeuristic [Halving; DeltaLargest]; SAHeuristic [Halving; Approximation]]
  ++ map SAContfrac (filter singleton strategies).

Definition ensemble_decomposers : list method :=
  map Sliding (doubling_range 4 128)
  ++ [RunLength 0]
  ++ map RunLength (doubling_range 16 128)
  ++ flat_map (fun k => Hybrid k 0 :: map (Hybrid k) (doubling_range 16 64)) (counting_range 2 8).

Definition ensemble : list alg_cfg :=
  let dicts := flat_map (fun d => map (ADict d) ensemble_seqalgs) ensemble_decomposers in
  let runs := map ARuns ensemble_seqalgs in
  map AOpt (dicts ++ runs).
