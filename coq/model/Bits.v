(* Model of internal/bigint (C19). Executable definitions only. *)
From Coq Require Import List NArith ZArith Bool.
From AV Require Import model.Proto.
Import ListNotations.
Open Scope Z_scope.

(* big.Int.BitLen: length of the absolute value in bits *)
Definition bitlen (x : Z) : N := N.size (Z.abs_N x).

(* Pow2(e) = Lsh(1, e) *)
Definition pow2 (e : N) : Z := Z.shiftl 1 (Z.of_N e).

Definition is_pow2 (x : Z) : bool :=
  let e := bitlen x in
  if (e =? 0)%N then false else x =? pow2 (e - 1).

(* Pow2UpTo: p := 1; for p <= x { append p; p <<= 1 } *)
Fixpoint pow2_upto_loop (fuel : nat) (p x : Z) : list Z :=
  match fuel with
  | O => []
  | S f => if p <=? x then p :: pow2_upto_loop f (Z.shiftl p 1) x else []
  end.
Definition pow2_upto (x : Z) : list Z := pow2_upto_loop (S (N.to_nat (bitlen x))) 1 x.

(* Mask(l,h) = Pow2(h) - Pow2(l) *)
Definition mask (l h : N) : Z := pow2 h - pow2 l.
Definition ones (n : N) : Z := mask 0 n.

(* BitsSet: for i := 0; i < x.BitLen(); i++ { if x.Bit(i) == 1 ... } *)
Definition bits_set (x : Z) : list N :=
  filter (fun i => Z.testbit x (Z.of_N i)) (map N.of_nat (seq 0 (N.to_nat (bitlen x)))).

Definition min_max (x y : Z) : Z * Z := if x <? y then (x, y) else (y, x).

(* Extract: e := Mask(l,h); e.And(e,x); e.Rsh(e,l) *)
Definition extract (x : Z) (l h : N) : Z := Z.shiftr (Z.land (mask l h) x) (Z.of_N l).

(* Uint64s: loop while z != 0 { words += z & ones(64); z >>= 64 }.  Diverges for x < 0
   in Go; the model runs out of fuel there. *)
Fixpoint uint64s_loop (fuel : nat) (z : Z) : outcome (list Z) :=
  match fuel with
  | O => if z =? 0 then Ok [] else OutOfFuel
  | S f => if z =? 0 then Ok []
           else obind (uint64s_loop f (Z.shiftr z 64)) (fun ws => Ok (Z.land z (ones 64) :: ws))
  end.
Definition uint64s (x : Z) : outcome (list Z) := uint64s_loop (S (N.to_nat (bitlen x))) x.

(* BytesLittleEndian: big-endian bytes of |x| reversed *)
Fixpoint bytes_le_loop (fuel : nat) (z : N) : list N :=
  match fuel with
  | O => []
  | S f => if (z =? 0)%N then [] else (z mod 256)%N :: bytes_le_loop f (z / 256)%N
  end.
Definition bytes_le (x : Z) : list N := bytes_le_loop (S (N.to_nat (bitlen x))) (Z.abs_N x).

(* Hex/Binary: strip every '_' then big.Int.SetString(s, base) for an explicit base:
   optional '+'/'-' sign, at least one digit, digits of the base (letters in either case),
   nothing else. *)
Definition strip_underscore (s : list N) : list N := filter (fun c => negb (c =? 95)%N) s.

Definition digitval (c : N) : option N :=
  if ((48 <=? c) && (c <=? 57))%N then Some (c - 48)%N
  else if ((97 <=? c) && (c <=? 122))%N then Some (c - 87)%N
  else if ((65 <=? c) && (c <=? 90))%N then Some (c - 55)%N
  else None.

Fixpoint digits_acc (base : N) (acc : N) (s : list N) : option N :=
  match s with
  | [] => Some acc
  | c :: r => match digitval c with
              | Some d => if (d <? base)%N then digits_acc base (acc * base + d)%N r else None
              | None => None
              end
  end.

Definition set_string (base : N) (s : list N) : option Z :=
  let '(neg, body) := match s with
                      | 45%N :: r => (true, r)
                      | 43%N :: r => (false, r)
                      | _ => (false, s)
                      end in
  match body with
  | [] => None
  | _ => option_map (fun n => if neg then - Z.of_N n else Z.of_N n) (digits_acc base 0 body)
  end.

Definition hex (s : list N) : option Z := set_string 16 (strip_underscore s).
Definition binary (s : list N) : option Z := set_string 2 (strip_underscore s).
