(* Model of alg/binary (C01): right-to-left binary method. *)
From Coq Require Import String.
From Coq Require Import List NArith ZArith Bool.
From AV Require Import model.Proto.
Import ListNotations.
Open Scope Z_scope.

(* for b != 0 { c += d; if b odd { if x == nil { x = d } else { x += d; c += x } }; b >>= 1; d <<= 1 }
   fuel: one iteration per bit of n.  n <= 0: Go loops forever for negative n (arithmetic shift
   never reaches 0) and returns the empty chain for 0. *)
Fixpoint rtl_loop (fuel : nat) (b d : Z) (x : option Z) : outcome (list Z) :=
  match fuel with
  | O => if b =? 0 then Ok [] else OutOfFuel
  | S f =>
      if b =? 0 then Ok []
      else
        let '(x', emit) :=
          if Z.odd b then
            match x with
            | None => (Some d, [])
            | Some xv => (Some (xv + d), [xv + d])
            end
          else (x, []) in
        obind (rtl_loop f (Z.shiftr b 1) (Z.shiftl d 1) x') (fun r => Ok (d :: emit ++ r))
  end.

Definition rtl_binary (n : Z) : outcome (list Z) :=
  rtl_loop (S (N.to_nat (N.size (Z.abs_N n)))) n 1 None.
