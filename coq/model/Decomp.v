(* Model of the decomposition part of alg/dict/dict.go (C09): Term, Sum.Int, Sum.SortByExponent,
   Sum.Dictionary and the four Decompose methods.  Executable definitions only.

   Integers: the decomposed x is a non-negative big.Int -> N.  Scanning positions are Go `int`s
   that run down to -1 -> Z.  Window size K and run limit T are Go `uint`s -> N; the
   conversions int(K), uint(l), uint(s-i) are modelled without wrap-around (K, T and bit lengths
   below 2^63).  internal/bigint (Extract, Ones, Mask) is the shared model of Bits.v over Z. *)
From Coq Require Import String.
From Coq Require Import List NArith ZArith Bool.
From AV Require Import model.Proto model.Bits model.Lists.
Import ListNotations.
Open Scope Z_scope.

(* type Term struct { D *big.Int; E uint } *)
Record term := mkTerm { D : N; E : N }.

(* Term.Int: Lsh(D, E) *)
Definition term_int (t : term) : N := N.shiftl (D t) (E t).

(* Sum.Int: x := 0; for t in s { x += t.Int() } *)
Definition sum_int (s : list term) : N := fold_left (fun acc t => (acc + term_int t)%N) s 0%N.

(* Sum.SortByExponent: sort.Slice with less(i,j) = s[i].E < s[j].E.  sort.Slice is not stable;
   for lists with pairwise distinct exponents (every decomposition, see DecompProofs.sorted_unique)
   the result is the unique E-ascending permutation, computed here by insertion. *)
Fixpoint insert_by_exponent (t : term) (l : list term) : list term :=
  match l with
  | [] => [t]
  | u :: r => if (E u <? E t)%N then u :: insert_by_exponent t r else t :: l
  end.
Definition sort_by_exponent (s : list term) : list term := fold_right insert_by_exponent [] s.

(* Sum.Dictionary: collect D, bigints.Sort, bigints.Unique *)
Definition dictionary (s : list term) : list N :=
  map Z.to_N (unique (sort (map (fun t => Z.of_N (D t)) s))).

(* ---- primitives on a non-negative big.Int ---- *)
(* x.BitLen() as an int *)
Definition bitlen_int (x : N) : Z := Z.of_N (bitlen (Z.of_N x)).
(* x.Bit(i) == 1, i an int.  Go panics for i < 0; every call below sits behind an i >= 0 guard
   (or starts from max(.., 0) and only increases). *)
Definition bit (x : N) (i : Z) : bool := Z.testbit (Z.of_N x) i.
(* bigint.Extract(x, uint(l), uint(h)) *)
Definition extract_n (x : N) (l h : Z) : N := Z.to_N (extract (Z.of_N x) (Z.to_N l) (Z.to_N h)).
(* bigint.Ones(uint(n)) *)
Definition ones_n (n : Z) : N := Z.to_N (ones (Z.to_N n)).
(* y.Xor(y, bigint.Mask(uint(l), uint(h))) *)
Definition xor_mask (y : N) (l h : Z) : N := Z.to_N (Z.lxor (Z.of_N y) (mask (Z.to_N l) (Z.to_N h))).

(* "for h >= 0 && x.Bit(h) == 0 { h-- }": at most h+1 steps, structural on that count *)
Fixpoint find_one_steps (n : nat) (x : N) (h : Z) : Z :=
  match n with
  | O => h
  | S n' => if (0 <=? h) && negb (bit x h) then find_one_steps n' x (h - 1) else h
  end.
Definition find_one (x : N) (h : Z) : Z := find_one_steps (Z.to_nat (h + 1)) x h.

(* "for x.Bit(l) == 0 { l++ }": unbounded in Go.  Once l has passed the top bit of x the Go loop
   never ends; with fuel bitlen+1 the model returns OutOfFuel exactly then. *)
Fixpoint scan_up (fuel : nat) (x : N) (l : Z) : outcome Z :=
  match fuel with
  | O => OutOfFuel
  | S f => if bit x l then Ok l else scan_up f x (l + 1)
  end.

(* "for i >= 0 && x.Bit(i) == 1 && (T == 0 || uint(s-i) < T) { i-- }" *)
Fixpoint run_end_steps (n : nat) (x T : N) (s i : Z) : Z :=
  match n with
  | O => i
  | S n' => if (0 <=? i) && bit x i && ((T =? 0)%N || (s - i <? Z.of_N T))
            then run_end_steps n' x T s (i - 1) else i
  end.
Definition run_end (x T : N) (s : Z) : Z := run_end_steps (Z.to_nat (s + 1)) x T s s.

(* fuel for the outer loops: every iteration lowers the position by at least one *)
Definition fuel_of (x : N) : nat := S (N.to_nat (bitlen (Z.of_N x))).

(* ---- FixedWindow.Decompose ----
   h := x.BitLen(); for h > 0 { l := max(h-K, 0); d := Extract(x,l,h);
   if d != 0 { append {d,l} }; h = l }.  The result lists the terms in append order. *)
Fixpoint fixed_loop (fuel : nat) (x K : N) (h : Z) : outcome (list term) :=
  match fuel with
  | O => OutOfFuel
  | S f =>
      if 0 <? h then
        let l := Z.max (h - Z.of_N K) 0 in
        let d := extract_n x l h in
        obind (fixed_loop f x K l) (fun r =>
          Ok (if (d =? 0)%N then r else mkTerm d (Z.to_N l) :: r))
      else Ok []
  end.
Definition fixed_decompose (K x : N) : outcome (list term) :=
  obind (fixed_loop (fuel_of x) x K (bitlen_int x)) (fun s => Ok (sort_by_exponent s)).

(* ---- SlidingWindow.Decompose ----
   h := x.BitLen()-1; for h >= 0 { find first 1; if h < 0 break; l := max(h-K+1, 0);
   for x.Bit(l) == 0 { l++ }; append {Extract(x,l,h+1), l}; h = l-1 } *)
Fixpoint sliding_loop (fuel : nat) (x K : N) (h : Z) : outcome (list term) :=
  match fuel with
  | O => OutOfFuel
  | S f =>
      if 0 <=? h then
        let h1 := find_one x h in
        if h1 <? 0 then Ok []
        else
          let l0 := Z.max (h1 - Z.of_N K + 1) 0 in
          obind (scan_up (fuel_of x) x l0) (fun l =>
          obind (sliding_loop f x K (l - 1)) (fun r =>
            Ok (mkTerm (extract_n x l (h1 + 1)) (Z.to_N l) :: r)))
      else Ok []
  end.
Definition sliding_decompose (K x : N) : outcome (list term) :=
  obind (sliding_loop (fuel_of x) x K (bitlen_int x - 1)) (fun s => Ok (sort_by_exponent s)).

(* ---- RunLength.Decompose ----
   i := x.BitLen()-1; for i >= 0 { find first 1; if i < 0 break; s := i; scan the run;
   append {Ones(s-i), i+1} } *)
Fixpoint runlength_loop (fuel : nat) (x T : N) (i : Z) : outcome (list term) :=
  match fuel with
  | O => OutOfFuel
  | S f =>
      if 0 <=? i then
        let s := find_one x i in
        if s <? 0 then Ok []
        else
          let i' := run_end x T s in
          obind (runlength_loop f x T i') (fun r =>
            Ok (mkTerm (ones_n (s - i')) (Z.to_N (i' + 1)) :: r))
      else Ok []
  end.
Definition runlength_decompose (T x : N) : outcome (list term) :=
  obind (runlength_loop (fuel_of x) x T (bitlen_int x - 1)) (fun s => Ok (sort_by_exponent s)).

(* ---- Hybrid.Decompose ----
   first pass over a clone y: the same run scan; runs with n <= K are skipped ("continue"),
   longer ones are appended and cleared from y with Xor(Mask(i+1, s+1)); then
   rem := SlidingWindow{K}.Decompose(y); sum = append(sum, rem...); sort. *)
Fixpoint hybrid_loop (fuel : nat) (y K T : N) (i : Z) : outcome (list term * N) :=
  match fuel with
  | O => OutOfFuel
  | S f =>
      if 0 <=? i then
        let s := find_one y i in
        if s <? 0 then Ok ([], y)
        else
          let i' := run_end y T s in
          let n := Z.to_N (s - i') in
          if (n <=? K)%N then hybrid_loop f y K T i'
          else
            let y' := xor_mask y (i' + 1) (s + 1) in
            obind (hybrid_loop f y' K T i') (fun ry =>
              Ok (mkTerm (ones_n (s - i')) (Z.to_N (i' + 1)) :: fst ry, snd ry))
      else Ok ([], y)
  end.
Definition hybrid_decompose (K T x : N) : outcome (list term) :=
  obind (hybrid_loop (fuel_of x) x K T (bitlen_int x - 1)) (fun ry =>
  obind (sliding_decompose K (snd ry)) (fun rem =>
    Ok (sort_by_exponent (fst ry ++ rem)))).

(* ---- the Decomposer interface ---- *)
Inductive method :=
| Fixed (K : N)
| Sliding (K : N)
| RunLength (T : N)
| Hybrid (K T : N).

Definition decompose (m : method) (x : N) : outcome (list term) :=
  match m with
  | Fixed K => fixed_decompose K x
  | Sliding K => sliding_decompose K x
  | RunLength T => runlength_decompose T x
  | Hybrid K T => hybrid_decompose K T x
  end.
