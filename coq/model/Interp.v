(* Model of acc/eval/interp.go: the interpreter that executes a program by operand *names*.
   state map[string]*big.Int is a map from names to cells (pointers) plus a heap of cell
   contents: instructions update the big.Int stored under the output name in place, which is
   why storing one *big.Int under two names (input aliased to output) matters.
   Executable Gallina only; no proofs here. *)
From Coq Require Import String.
From Coq Require Import List NArith ZArith Bool Arith.
From AV Require Import model.Proto model.Ir.
Import ListNotations.
Open Scope Z_scope.

Record machine := mkMachine {
  mstate : list (list N * nat);   (* name -> cell *)
  mheap : list Z }.               (* cell -> value; cell ids are positions *)

Definition new_machine : machine := mkMachine [] [].

Fixpoint slookup (v : list N) (m : list (list N * nat)) : option nat :=
  match m with
  | [] => None
  | (k, c) :: t => if str_eqb k v then Some c else slookup v t
  end.

Fixpoint sset (v : list N) (c : nat) (m : list (list N * nat)) : list (list N * nat) :=
  match m with
  | [] => [(v, c)]
  | (k, c') :: t => if str_eqb k v then (v, c) :: t else (k, c') :: sset v c t
  end.

(* Load: the pointer stored under v *)
Definition load (m : machine) (v : list N) : option nat := slookup v (mstate m).

(* Store(v, x) for a pointer x that is already on the heap *)
Definition store (m : machine) (v : list N) (c : nat) : machine := mkMachine (sset v c (mstate m)) (mheap m).

(* a fresh big.Int with value z *)
Definition new_cell (m : machine) (z : Z) : machine * nat :=
  (mkMachine (mstate m) (mheap m ++ [z]), length (mheap m)).

(* reading through a pointer; a miss cannot happen for pointers obtained from the machine *)
Definition heap_get (m : machine) (c : nat) : outcome Z :=
  match nth_error (mheap m) c with
  | Some z => Ok z
  | None => Panic ($"model")
  end.

Fixpoint set_nth (l : list Z) (c : nat) (z : Z) : list Z :=
  match l, c with
  | [], _ => []
  | _ :: t, O => z :: t
  | h :: t, S c' => h :: set_nth t c' z
  end.

Definition heap_set (m : machine) (c : nat) (z : Z) : machine := mkMachine (mstate m) (set_nth (mheap m) c z).

(* output: the existing object under the name, else a new zero stored under it
   (the name is not checked: the empty identifier is a usable key here) *)
Definition output_cell (m : machine) (o : operand) : machine * nat :=
  match load m (oname o) with
  | Some c => (m, c)
  | None => let mc := new_cell m 0 in (store (fst mc) (oname o) (snd mc), snd mc)
  end.

(* operand: error for the empty identifier, error for an undefined name *)
Definition operand_cell (m : machine) (o : operand) : outcome nat :=
  match oname o with
  | [] => Err ($"missing")
  | _ => match load m (oname o) with
         | Some c => Ok c
         | None => Err ($"undefined")
         end
  end.

(* instruction: the output object is looked up (or created) FIRST, then the operands are
   resolved, then the output object is overwritten with the result (math/big reads its
   arguments before writing, also when they alias the receiver) *)
Definition exec_instr (m : machine) (i : instr) : outcome machine :=
  let mc := output_cell m (iout i) in
  let m1 := fst mc in
  let c := snd mc in
  match iopn i with
  | IAdd x y =>
      obind (operand_cell m1 x) (fun cx =>
      obind (operand_cell m1 y) (fun cy =>
      obind (heap_get m1 cx) (fun vx =>
      obind (heap_get m1 cy) (fun vy =>
      Ok (heap_set m1 c (vx + vy))))))
  | IDouble x =>
      obind (operand_cell m1 x) (fun cx =>
      obind (heap_get m1 cx) (fun vx =>
      Ok (heap_set m1 c (vx + vx))))
  | IShift x s =>
      obind (operand_cell m1 x) (fun cx =>
      obind (heap_get m1 cx) (fun vx =>
      Ok (heap_set m1 c (Z.shiftl vx (Z.of_N s)))))
  end.

Fixpoint exec (m : machine) (p : iprogram) : outcome machine :=
  match p with
  | [] => Ok m
  | i :: r => obind (exec_instr m i) (fun m' => exec m' r)
  end.

(* the two ways a caller sets the machine up *)
Inductive imode := Separate | Aliased.

(* x := value; Store(Input, x); in aliased mode also Store(Output, x) -- the same pointer *)
Definition init_machine (mode : imode) (inp outp : list N) (x : Z) : machine :=
  let mc := new_cell new_machine x in
  let m1 := store (fst mc) inp (snd mc) in
  match mode with
  | Separate => m1
  | Aliased => store m1 outp (snd mc)
  end.

Definition run_interp (mode : imode) (inp outp : list N) (x : Z) (p : iprogram) : outcome machine :=
  exec (init_machine mode inp outp x) p.

(* Load followed by reading the value *)
Definition value_of (m : machine) (v : list N) : option Z :=
  match load m v with
  | Some c => nth_error (mheap m) c
  | None => None
  end.

(* the whole state as name/value pairs, sorted by name (Go map order is unspecified) *)
Fixpoint str_ltb (a b : list N) : bool :=
  match a, b with
  | [], [] => false
  | [], _ :: _ => true
  | _ :: _, [] => false
  | x :: a', y :: b' => if (x <? y)%N then true else if (y <? x)%N then false else str_ltb a' b'
  end.

Fixpoint insert_named {A} (e : list N * A) (l : list (list N * A)) : list (list N * A) :=
  match l with
  | [] => [e]
  | h :: t => if str_ltb (fst e) (fst h) then e :: l else h :: insert_named e t
  end.

Definition dump (m : machine) : list (list N * option Z) :=
  fold_right insert_named [] (map (fun kc => (fst kc, nth_error (mheap m) (snd kc))) (mstate m)).
