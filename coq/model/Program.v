(* Model of program.go (C18): builder calls with bounds checks and the program analyses. *)
From Coq Require Import String.
From Coq Require Import List NArith ZArith Bool Arith.
From AV Require Import model.Proto model.Chain.
Import ListNotations.
Open Scope Z_scope.

(* operands as the caller passes them: Go ints, possibly negative or too large *)
Inductive call :=
| CAdd (i j : Z)
| CDouble (i : Z)
| CShift (i : Z) (s : N).

(* boundscheck: i < 0 -> "negative index", i > len(p) -> "out of bounds" *)
Definition boundscheck (p : list op) (i : Z) : outcome unit :=
  if i <? 0 then Err ($"bounds")
  else if i >? Z.of_nat (length p) then Err ($"bounds")
  else Ok tt.

Definition add (p : list op) (i j : Z) : list op * outcome Z :=
  match boundscheck p i with
  | Ok _ => match boundscheck p j with
            | Ok _ => let p' := p ++ [(Z.to_nat i, Z.to_nat j)] in (p', Ok (Z.of_nat (length p')))
            | e => (p, obind e (fun _ => Ok 0))
            end
  | e => (p, obind e (fun _ => Ok 0))
  end.

Definition double (p : list op) (i : Z) : list op * outcome Z := add p i i.

(* for ; s > 0; s-- { next, err := p.Double(i); if err != nil { return 0, err }; i = next }; return i
   structural on the shift amount as a nat-sized counter; amounts are small in every use *)
Fixpoint shift_loop (s : nat) (p : list op) (i : Z) : list op * outcome Z :=
  match s with
  | O => (p, Ok i)
  | S s' => match double p i with
            | (p', Ok next) => shift_loop s' p' next
            | (p', e) => (p', e)
            end
  end.
Definition shift (p : list op) (i : Z) (s : N) : list op * outcome Z := shift_loop (N.to_nat s) p i.

Definition step (p : list op) (c : call) : list op * outcome Z :=
  match c with
  | CAdd i j => add p i j
  | CDouble i => double p i
  | CShift i s => shift p i s
  end.

(* Count: doubles, adds *)
Definition is_double (o : op) : bool := (fst o =? snd o)%nat.
Definition count (p : list op) : nat * nat :=
  (length (filter is_double p), length (filter (fun o => negb (is_double o)) p)).

(* ReadCounts: reads := make([]int, len(p)+1); for each op, for each of Operands(): reads[i]++ *)
Definition bump (l : list nat) (i : nat) : outcome (list nat) :=
  if (i <? length l)%nat then Ok (firstn i l ++ [S (nth i l O)] ++ skipn (S i) l) else Panic ($"index").
Fixpoint read_counts_loop (reads : list nat) (p : list op) : outcome (list nat) :=
  match p with
  | [] => Ok reads
  | (i, j) :: r =>
      if (i =? j)%nat then obind (bump reads i) (fun rs => read_counts_loop rs r)
      else obind (bump reads i) (fun rs => obind (bump rs j) (fun rs' => read_counts_loop rs' r))
  end.
Definition read_counts (p : list op) : outcome (list nat) := read_counts_loop (repeat O (S (length p))) p.

(* Dependencies: bitsets := [1]; for i, op: bitsets[op.I] | bitsets[op.J] | 1 << (i+1) *)
Fixpoint deps_loop (bs : list N) (p : list op) : outcome (list N) :=
  match p with
  | [] => Ok bs
  | (i, j) :: r =>
      match nth_error bs i, nth_error bs j with
      | Some a, Some b => deps_loop (bs ++ [N.lor (N.lor a b) (N.shiftl 1 (N.of_nat (length bs)))]) r
      | _, _ => Panic ($"index")
      end
  end.
Definition dependencies (p : list op) : outcome (list N) := deps_loop [1%N] p.

(* well-formed program: every operand refers to an element that already exists *)
Definition wf_program (p : list op) : Prop :=
  forall k i j, nth_error p k = Some (i, j) -> (i <= k /\ j <= k)%nat.

(* Shift as the dispatcher runs it.  Go's counter is a 64-bit uint: a shift by 2^63 with a missing
   operand returns at the first Double.  [shift] converts the amount to a unary counter first, which
   cannot be executed for such amounts; [shift_go] attempts the first doubling before converting the
   rest (proofs/ProgramProofs.v: shift_go_eq, step_go_eq show they are the same function). *)
Definition shift_go (p : list op) (i : Z) (s : N) : list op * outcome Z :=
  if (s =? 0)%N then (p, Ok i)
  else match double p i with
       | (p', Ok next) => shift_loop (N.to_nat (N.pred s)) p' next
       | (p', e) => (p', e)
       end.

Definition step_go (p : list op) (c : call) : list op * outcome Z :=
  match c with
  | CShift i s => shift_go p i s
  | _ => step p c
  end.
