(* Model of alg/exec/exec.go: Parallel.Execute as a labelled transition system.

     func (p Parallel) Execute(n *big.Int, as []alg.ChainAlgorithm) []Result {
       rs := make([]Result, len(as))
       sem := make(chan token, p.limit)
       for i, a := range as {
         sem <- token{}                         main_acquire_spawn   (pc = PSpawn i)
         go func(i int, a alg.ChainAlgorithm) {
           p.logger.Printf("start: %s", a)      w_logstart i
           rs[i] = Execute(n, a)                w_store i
           p.logger.Printf("done: %s", a)       w_logdone i
           <-sem                                w_release i
         }(i, a)
       }
       for i := 0; i < p.limit; i++ {           (pc = PWait j)
         sem <- token{}                         main_wait_acquire
       }
       return rs                                main_return
     }

   One transition per blocking / observable operation, in the order of the Go code.
   Executable Gallina only; the proofs are in proofs/ParProofs.v. *)
From Coq Require Import List Arith Bool.
Import ListNotations.

(* state of worker goroutine i *)
Inductive wst := NotYet | Spawned | Started | Stored | Logged | Released.
(* program counter of the goroutine that called Execute *)
Inductive pcs := PSpawn (i : nat) | PWait (j : nat) | PReturned.

Inductive label :=
| main_acquire_spawn
| w_logstart (i : nat)
| w_store (i : nat)
| w_logdone (i : nat)
| w_release (i : nat)
| main_wait_acquire
| main_return.

(* what an observer (logger + caller of Execute) sees *)
Inductive event := EStart (i : nat) | EDone (i : nat) | EReturn.

Fixpoint update {A} (l : nat) (v : A) (xs : list A) : list A :=
  match xs, l with
  | [], _ => []
  | _ :: t, O => v :: t
  | x :: t, S l' => x :: update l' v t
  end.

Definition wst_eqb (a b : wst) : bool :=
  match a, b with
  | NotYet, NotYet | Spawned, Spawned | Started, Started | Stored, Stored | Logged, Logged | Released, Released => true
  | _, _ => false
  end.

(* how far a worker has got; used by the termination measure *)
Definition rank (w : wst) : nat :=
  match w with NotYet => 0 | Spawned => 1 | Started => 2 | Stored => 3 | Logged => 4 | Released => 5 end.

(* transitions worker still has to make *)
Definition togo (w : wst) : nat := 5 - rank w.

(* between its "start" and "done" log lines *)
Definition isrun (w : wst) : nat := match w with Started | Stored => 1 | _ => 0 end.
(* holding a token of the semaphore *)
Definition isact (w : wst) : nat := match w with Spawned | Started | Stored | Logged => 1 | _ => 0 end.
Definition count (f : wst -> nat) (l : list wst) : nat := fold_right (fun w n => f w + n) 0 l.

Definition label_of (e : event) : label :=
  match e with EStart i => w_logstart i | EDone i => w_logdone i | EReturn => main_return end.
Definition event_of (l : label) : option event :=
  match l with
  | w_logstart i => Some (EStart i)
  | w_logdone i => Some (EDone i)
  | main_return => Some EReturn
  | _ => None
  end.
Fixpoint vis (ls : list label) : list event :=
  match ls with
  | [] => []
  | l :: r => match event_of l with Some e => e :: vis r | None => vis r end
  end.

Section Par.
Variable R : Type.            (* exec.Result *)
Variable k : nat.             (* len(as) *)
Variable limit : nat.         (* p.limit = capacity of sem (a negative limit panics in make, see dispatch) *)
Variable res : nat -> R.      (* res i = Execute(n, as[i]) *)

Record st := { pc : pcs; sem : nat; ws : list wst; rs : list (option R) }.

Definition wat (s : st) i := nth i (ws s) NotYet.
Definition setw (s : st) i w := {| pc := pc s; sem := sem s; ws := update i w (ws s); rs := rs s |}.

(* `for i, a := range as`: next iteration, or fall through to the barrier loop *)
Definition mk_spawn (i : nat) : pcs := if i <? k then PSpawn i else PWait 0.

Definition init : st := {| pc := mk_spawn 0; sem := 0; ws := repeat NotYet k; rs := repeat None k |}.

Definition step_ok (s : st) (l : label) : option st :=
  match l with
  | main_acquire_spawn =>                                   (* sem <- token{} ; go worker(i, a) *)
      match pc s with
      | PSpawn i => if sem s <? limit
                    then Some {| pc := mk_spawn (S i); sem := S (sem s); ws := update i Spawned (ws s); rs := rs s |}
                    else None
      | _ => None
      end
  | w_logstart i => if wst_eqb (wat s i) Spawned then Some (setw s i Started) else None
  | w_store i => if wst_eqb (wat s i) Started                (* rs[i] = Execute(n, a): slot i only *)
                 then Some {| pc := pc s; sem := sem s; ws := update i Stored (ws s); rs := update i (Some (res i)) (rs s) |}
                 else None
  | w_logdone i => if wst_eqb (wat s i) Stored then Some (setw s i Logged) else None
  | w_release i => if wst_eqb (wat s i) Logged && (0 <? sem s)  (* <-sem *)
                   then Some {| pc := pc s; sem := sem s - 1; ws := update i Released (ws s); rs := rs s |}
                   else None
  | main_wait_acquire =>                                    (* i < p.limit ; sem <- token{} *)
      match pc s with
      | PWait j => if (j <? limit) && (sem s <? limit)
                   then Some {| pc := PWait (S j); sem := S (sem s); ws := ws s; rs := rs s |}
                   else None
      | _ => None
      end
  | main_return =>                                          (* !(i < p.limit) ; return rs *)
      match pc s with
      | PWait j => if j <? limit then None else Some {| pc := PReturned; sem := sem s; ws := ws s; rs := rs s |}
      | _ => None
      end
  end.

Definition is_returned (s : st) : bool := match pc s with PReturned => true | _ => false end.

(* remaining number of transitions: every step decreases it by exactly one *)
Definition pc_measure (p : pcs) : nat :=
  match p with PSpawn _ => S limit | PWait j => S (limit - j) | PReturned => 0 end.
Definition measure (s : st) : nat := count togo (ws s) + pc_measure (pc s).

(* ---- executable trace acceptor ----
   Internal (unobservable) steps are taken eagerly: they never disable an observable one
   (proved: accepts_sound / accepts_complete). *)
Definition tau_labels : list label :=
  main_acquire_spawn :: main_wait_acquire :: flat_map (fun i => [w_store i; w_release i]) (seq 0 k).

Fixpoint first_step (s : st) (ls : list label) : option (label * st) :=
  match ls with
  | [] => None
  | l :: r => match step_ok s l with Some s' => Some (l, s') | None => first_step s r end
  end.

Fixpoint tau_close (fuel : nat) (s : st) : st :=
  match fuel with
  | O => s
  | S f => match first_step s tau_labels with Some (_, s') => tau_close f s' | None => s end
  end.
Definition closure (s : st) : st := tau_close (measure s) s.

Fixpoint run_trace (s : st) (t : list event) : option st :=
  match t with
  | [] => Some s
  | e :: t' => match step_ok s (label_of e) with
               | Some s' => run_trace (closure s') t'
               | None => None
               end
  end.

(* the trace is a complete observable behaviour of Execute: a path from init to a Returned state *)
Definition accepts (t : list event) : bool :=
  match run_trace (closure init) t with Some s => is_returned s | None => false end.
(* the returned slice after that behaviour *)
Definition slots_after (t : list event) : option (list (option R)) :=
  match run_trace (closure init) t with
  | Some s => if is_returned s then Some (rs s) else None
  | None => None
  end.

(* ---- executable scheduler driven by the harness controller ----
   The instrumented algorithms block inside FindChain until their gate is opened, i.e. w_store i
   is disabled while i is not in `opened`.  Everything else runs to quiescence. *)
Definition all_labels : list label :=
  main_acquire_spawn :: main_wait_acquire :: main_return ::
  flat_map (fun i => [w_logstart i; w_store i; w_logdone i; w_release i]) (seq 0 k).

Definition gate_ok (opened : list nat) (l : label) : bool :=
  match l with w_store i => existsb (Nat.eqb i) opened | _ => true end.

Record sim := { sst : st; strace : list event; smax : nat }.   (* strace is reversed *)

Definition running (s : st) : nat := count isrun (ws s).

Fixpoint sim_close (opened : list nat) (fuel : nat) (x : sim) : sim :=
  match fuel with
  | O => x
  | S f => match first_step (sst x) (filter (gate_ok opened) all_labels) with
           | Some (l, s') =>
               sim_close opened f
                 {| sst := s';
                    strace := match event_of l with Some e => e :: strace x | None => strace x end;
                    smax := Nat.max (smax x) (running s') |}
           | None => x
           end
  end.
Definition quiesce (opened : list nat) (x : sim) : sim := sim_close opened (measure (sst x)) x.

(* open the gates in the given order, running to quiescence in between; `early` records whether
   Execute had already returned at a moment when some gate was still closed *)
Fixpoint open_gates (order opened : list nat) (x : sim) (early : bool) : sim * bool :=
  match order with
  | [] => (x, early)
  | j :: r => let early' := early || is_returned (sst x) in
              let opened' := j :: opened in
              open_gates r opened' (quiesce opened' x) early'
  end.

Record outcome_par := { o_returned : bool; o_slots : list (option R); o_sat : nat; o_early : bool;
                        o_over : bool; o_trace : list event }.

Definition simulate (order : list nat) : outcome_par :=
  let x0 := quiesce [] {| sst := init; strace := []; smax := 0 |} in
  let sat := running (sst x0) in
  let '(x1, early) := open_gates order [] x0 false in
  let x2 := quiesce (seq 0 k) x1 in
  {| o_returned := is_returned (sst x2); o_slots := rs (sst x2); o_sat := sat; o_early := early;
     o_over := limit <? smax x2; o_trace := rev (strace x2) |}.
End Par.

Arguments pc {R}. Arguments sem {R}. Arguments ws {R}. Arguments rs {R}.
Arguments wat {R}. Arguments setw {R}. Arguments is_returned {R}. Arguments running {R}.
Arguments sst {R}. Arguments strace {R}. Arguments smax {R}.
Arguments o_returned {R}. Arguments o_slots {R}. Arguments o_sat {R}. Arguments o_early {R}.
Arguments o_over {R}. Arguments o_trace {R}.
