(* Line protocol shared by the Go harness and the extracted model driver.
   Everything is executable Gallina over byte strings = list N. No proofs here. *)
From Coq Require Import String Ascii.
From Coq Require Import List NArith ZArith Bool.
Import ListNotations.
Open Scope N_scope.

Notation byte := N (only parsing).
Notation str := (list N) (only parsing).

Definition bytes_of_string (s : string) : list N := map N_of_ascii (list_ascii_of_string s).
Notation "$ x" := (bytes_of_string x) (at level 0, x at level 0, only parsing).

Definition sp : N := 32.
Definition comma : N := 44.

(* split on a separator; always returns a non-empty list of fields *)
Fixpoint split (sep : N) (s : list N) : list (list N) :=
  match s with
  | [] => [[]]
  | c :: r =>
      if c =? sep then [] :: split sep r
      else match split sep r with
           | [] => [[c]]
           | w :: ws => (c :: w) :: ws
           end
  end.

Fixpoint str_eqb (a b : list N) : bool :=
  match a, b with
  | [], [] => true
  | x :: a', y :: b' => (x =? y) && str_eqb a' b'
  | _, _ => false
  end.

Fixpoint join (sep : list N) (l : list (list N)) : list N :=
  match l with
  | [] => []
  | [x] => x
  | x :: r => x ++ sep ++ join sep r
  end.

(* ---- digits ---- *)
Definition hexval (c : N) : option N :=
  if (48 <=? c) && (c <=? 57) then Some (c - 48)
  else if (97 <=? c) && (c <=? 102) then Some (c - 87)
  else None.

Definition hexchar (d : N) : N := if d <? 10 then 48 + d else 87 + d.

Fixpoint parse_hex_acc (acc : N) (s : list N) : option N :=
  match s with
  | [] => Some acc
  | c :: r => match hexval c with
              | Some d => parse_hex_acc (acc * 16 + d) r
              | None => None
              end
  end.

Definition parse_hexN (s : list N) : option N :=
  match s with [] => None | _ => parse_hex_acc 0 s end.

Definition parse_hexZ (s : list N) : option Z :=
  match s with
  | 45 :: r => option_map (fun n => Z.opp (Z.of_N n)) (parse_hexN r)
  | _ => option_map Z.of_N (parse_hexN s)
  end.

Fixpoint parse_dec_acc (acc : N) (s : list N) : option N :=
  match s with
  | [] => Some acc
  | c :: r => if (48 <=? c) && (c <=? 57) then parse_dec_acc (acc * 10 + (c - 48)) r else None
  end.

Definition parse_decN (s : list N) : option N :=
  match s with [] => None | _ => parse_dec_acc 0 s end.

Definition parse_decZ (s : list N) : option Z :=
  match s with
  | 45 :: r => option_map (fun n => Z.opp (Z.of_N n)) (parse_decN r)
  | _ => option_map Z.of_N (parse_decN s)
  end.

(* printing by repeated division with explicit fuel (N.size n + 1 digits suffice) *)
Fixpoint print_base_fuel (base : N) (fuel : nat) (n : N) (acc : list N) : list N :=
  match fuel with
  | O => acc
  | S f => let d := hexchar (n mod base) in
           let q := n / base in
           if q =? 0 then d :: acc else print_base_fuel base f q (d :: acc)
  end.

Definition print_hexN (n : N) : list N := print_base_fuel 16 (S (N.to_nat (N.size n))) n [].
Definition print_decN (n : N) : list N := print_base_fuel 10 (S (N.to_nat (N.size n))) n [].
Definition print_binN (n : N) : list N := print_base_fuel 2 (S (N.to_nat (N.size n))) n [].

Definition print_hexZ (z : Z) : list N :=
  match z with
  | Zneg p => 45 :: print_hexN (Npos p)
  | _ => print_hexN (Z.to_N z)
  end.

Definition print_decZ (z : Z) : list N :=
  match z with
  | Zneg p => 45 :: print_decN (Npos p)
  | _ => print_decN (Z.to_N z)
  end.

Definition print_nat (n : nat) : list N := print_decN (N.of_nat n).
Definition parse_nat (s : list N) : option nat := option_map N.to_nat (parse_decN s).

Definition print_bool (b : bool) : list N := if b then [49] else [48].

(* ---- lists: comma separated, "-" for empty ---- *)
Fixpoint map_opt {A B} (f : A -> option B) (l : list A) : option (list B) :=
  match l with
  | [] => Some []
  | x :: r => match f x, map_opt f r with
              | Some y, Some ys => Some (y :: ys)
              | _, _ => None
              end
  end.

Definition parse_list_sep {A} (sep : N) (f : list N -> option A) (s : list N) : option (list A) :=
  match s with
  | [45] => Some []
  | _ => map_opt f (split sep s)
  end.

Definition print_list_sep {A} (sep : N) (f : A -> list N) (l : list A) : list N :=
  match l with
  | [] => [45]
  | _ => join [sep] (map f l)
  end.

Definition parse_list {A} := @parse_list_sep A comma.
Definition print_list {A} := @print_list_sep A comma.

(* ---- byte strings as hex pairs, "-" for empty ---- *)
Fixpoint parse_bytes_aux (s : list N) : option (list N) :=
  match s with
  | [] => Some []
  | a :: b :: r => match hexval a, hexval b, parse_bytes_aux r with
                   | Some x, Some y, Some t => Some ((x * 16 + y) :: t)
                   | _, _, _ => None
                   end
  | _ => None
  end.

Definition parse_bytes (s : list N) : option (list N) :=
  match s with [45] => Some [] | _ => parse_bytes_aux s end.

Definition print_bytes (b : list N) : list N :=
  match b with
  | [] => [45]
  | _ => flat_map (fun c => [hexchar (c / 16); hexchar (c mod 16)]) b
  end.

(* ---- result lines ---- *)
Definition r_ok (payload : list N) : list N := $"ok " ++ payload.
Definition r_err (cls : list N) : list N := $"err " ++ cls.
Definition r_panic (cls : list N) : list N := $"panic " ++ cls.
Definition r_fuel : list N := $"fuel".
Definition r_badcase : list N := $"badcase".

(* outcome of a modelled Go call *)
Inductive outcome (A : Type) : Type :=
| Ok (a : A)
| Err (cls : list N)
| Panic (cls : list N)
| OutOfFuel.
Arguments Ok {A} a.
Arguments Err {A} cls.
Arguments Panic {A} cls.
Arguments OutOfFuel {A}.

Definition obind {A B} (o : outcome A) (f : A -> outcome B) : outcome B :=
  match o with
  | Ok a => f a
  | Err c => Err c
  | Panic c => Panic c
  | OutOfFuel => OutOfFuel
  end.

Definition print_outcome {A} (f : A -> list N) (o : outcome A) : list N :=
  match o with
  | Ok a => r_ok (f a)
  | Err c => r_err c
  | Panic c => r_panic c
  | OutOfFuel => r_fuel
  end.
