(* Model of the command-line tool (C15): cmd/addchain/{search,eval,fmt,gen}.go, internal/cli/cmd.go
   (UsageError = exit 2, Fail/Error = exit 1), alg/exec/exec.go (Parallel.Execute as a function), and of
   the library entry points that take source or expression text.  Executable Gallina only; no proofs.

   Everything is composed from the models of the other properties, each of which returns `Panic`
   exactly where the Go code indexes, slices, divides, asserts a type or calls `make` unchecked:
     Calc.eval            internal/calc            (C13)
     Peg.parse            acc/parse                (C03)
     Translate.translate  acc/translate.go, Translate.compile / Chain.evaluate = pass.Eval   (C03)
     Printer.print_script acc/printer              (C07)
     Decompile.decompile, Build.build              acc/decompile.go, acc/build.go (C04/C16)
     Alloc.allocate       acc/pass/alloc.go        (C05/C17)
     Gen.prepare, render  internal/gen             (C06)
   New here:
     build_named          acc.Build on a program whose operands carry identifiers (what `fmt -b`
                          hands it: the output of acc.Translate; Build.build covers the nameless
                          programs that acc.Decompile produces)
     par_execute          exec.Parallel.Execute as its input/output relation (the schedules are C12)
     report / search      the tail of search.Execute
     dump_eval            the dump loop of eval.Execute  *)
From Coq Require Import String.
From Coq Require Import List NArith ZArith Bool Arith.
From AV Require Import model.Proto model.Chain model.Program model.Ast model.Ir model.Bits.
From AV Require Import model.Printer model.Peg model.Translate.
From AV Require Import model.Decompile model.Naming model.Build.
From AV Require Import model.Alloc model.Interp model.Gen.
From AV Require model.Calc.
Import ListNotations.
Open Scope Z_scope.

(* subcommands.ExitSuccess = 0, ExitFailure = 1 (cli.Command.Fail / Error), ExitUsageError = 2 *)
Inductive exit_class := Exit0 | Exit1 | Exit2.

(* `return cmd.Error(err)` on an error, carry on otherwise; a panic stays a panic *)
Definition or_fail {A} (o : outcome A) (k : A -> outcome exit_class) : outcome exit_class :=
  match o with
  | Ok a => k a
  | Err _ => Ok Exit1
  | Panic c => Panic c
  | OutOfFuel => OutOfFuel
  end.

(* ------------------------------------------------------------------------------------------
   float64 cost values as the flag package delivers them (-add, -double): NaN, +-Inf, or finite.
   Finite values are modelled as exact rationals num/2^10 (no rounding, no overflow to Inf): the
   arithmetic only feeds `cost < mincost`, which selects among in-range indexes whatever it answers. *)
Inductive fcost := FNan | FInf (neg : bool) | FFin (num : Z).

Definition fsign_neg (c : Z) : bool := c <? 0.

(* cost * float64(count), count >= 0 *)
Definition fmul_count (c : fcost) (k : nat) : fcost :=
  match c with
  | FNan => FNan
  | FInf neg => match k with O => FNan | _ => FInf neg end      (* Inf * 0 = NaN *)
  | FFin x => FFin (x * Z.of_nat k)
  end.

Definition fadd (a b : fcost) : fcost :=
  match a, b with
  | FNan, _ | _, FNan => FNan
  | FInf x, FInf y => if Bool.eqb x y then FInf x else FNan     (* Inf + -Inf = NaN *)
  | FInf x, FFin _ | FFin _, FInf x => FInf x
  | FFin x, FFin y => FFin (x + y)
  end.

(* a < b on float64: false as soon as a NaN is involved *)
Definition flt (a b : fcost) : bool :=
  match a, b with
  | FNan, _ | _, FNan => false
  | FInf x, FInf y => x && negb y
  | FInf x, FFin _ => x
  | FFin _, FInf y => negb y
  | FFin x, FFin y => x <? y
  end.

(* ------------------------------------------------------------------------------------------
   acc.Build on a program with identifiers.

   pass.Exec(p, ReadCounts, NameByteValues, NameXRuns); both naming passes start with
   CanonicalizeOperands (identifier conflict = error; memoised) and Eval (memoised), then give a
   name to every canonical operand that has none; then builder.process.

   CanonicalizeOperands makes the first operand object seen for an index (inputs before the output,
   instruction by instruction) the canonical one and redirects all *inputs* to it; an Output object
   that is not canonical keeps its own identifier for ever, and builder.process reads
   inst.Output.Identifier from that object.  [out_idents] computes, per instruction, the identifier
   the builder sees. *)
Fixpoint out_idents (tbl : list (Z * list N)) (seen : list Z) (P : iprogram) : list (instr * list N) :=
  match P with
  | [] => []
  | i :: r =>
      let seen1 := Naming.input_indexes i ++ seen in
      let out := oindex (iout i) in
      let canonical := negb (existsb (Z.eqb out) seen1) in
      (i, if canonical then Naming.ident_of tbl out else oname (iout i)) :: out_idents tbl (out :: seen1) r
  end.

(* one iteration of the loop in builder.process (Build.b_step with the identifier given) *)
Definition b_step_n (rc : list (Z * nat)) (b : bstate) (i : instr) (ident : list N) (nxt : option instr)
  : outcome bstate :=
  let cx := S (b_cx b) in
  obind (b_operator b (iopn i)) (fun e =>
    let out := oindex (iout i) in
    let anon := match ident with [] => true | _ => false end in
    let usedonce := (rc_get rc out =? 1)%nat in
    let usednext := match nxt with Some j => has_input (iopn j) out | None => false end in
    if anon && usedonce && usednext && (cx <? complexitylimit)%nat then
      Ok (mkB (b_stmts b) ((out, e) :: b_expr b) cx)
    else
      let name := b_name ident out in
      Ok (mkB (b_stmts b ++ [mkStmt name e]) ((out, EIdent name) :: b_expr b) O)).

Fixpoint b_loop_n (rc : list (Z * nat)) (b : bstate) (P : list (instr * list N)) : outcome bstate :=
  match P with
  | [] => Ok b
  | (i, ident) :: r => obind (b_step_n rc b i ident (option_map fst (hd_error r))) (fun b1 => b_loop_n rc b1 r)
  end.

(* builder.process; clear_last is `b.chain.Statements[len-1].Name = ""` (panics on no statement) *)
Definition process_n (rc : list (Z * nat)) (P : list (instr * list N)) : outcome script :=
  match P with
  | [] => Ok [mkStmt [] (EOperand 0)]
  | _ => obind (b_loop_n rc b_init P) (fun b => clear_last (b_stmts b))
  end.

Definition build_named (P : iprogram) : outcome script :=
  let rc := read_counts_ir P in
  obind (Alloc.canonicalize [] P) (fun mf =>
  obind (Naming.eval_ir P) (fun chain =>
  obind (name_pass name_byte chain (fst mf)) (fun t1 =>
  obind (name_pass name_xrun chain t1) (fun t2 =>
    process_n rc (out_idents t2 [] P))))).

(* ------------------------------------------------------------------------------------------
   exec.Parallel.Execute(n, as) with p.limit = limit, as a function of the sequential results
   rs[i] = Execute(n, as[i]):
     sem := make(chan token, p.limit)              panics "makechan: size out of range" for limit < 0
     for i, a := range as { sem <- token{}; go ... }   blocks for ever on the first send for limit = 0
                                                    (C12_limit0_stuck): reported as Panic deadlock
     for i := 0; i < p.limit; i++ { sem <- token{} }
     return rs                                      every schedule returns exactly rs (C12) *)
Definition par_execute {R} (limit : Z) (rs : list R) : outcome (list R) :=
  if limit <? 0 then Panic ($"makechan")
  else if (limit =? 0) && negb (match rs with [] => true | _ => false end) then Panic ($"deadlock")
  else Ok rs.

(* ------------------------------------------------------------------------------------------
   The report loop of search.Execute:
     best := 0; mincost := +Inf
     for i, r := range rs { if r.Err != nil { return Fail }; cost := ...; if cost < mincost { best = i; mincost = cost } }
   rs[i] is Execute's Result: Err, or a Program. *)
Fixpoint pick_best (dbl add : fcost) (i : nat) (rs : list (outcome (list op))) (best : nat) (mincost : fcost)
  : outcome nat :=
  match rs with
  | [] => Ok best
  | r :: t =>
      obind r (fun p =>
        let '(doubles, adds) := count p in
        let cost := fadd (fmul_count dbl doubles) (fmul_count add adds) in
        if flt cost mincost then pick_best dbl add (S i) t i cost
        else pick_best dbl add (S i) t best mincost)
  end.

Section Search.
(* ensemble.Ensemble() applied to the target, sequentially: one Result per algorithm (C01) *)
Variable ens : Z -> list (outcome (list op)).

(* search.Execute after flag parsing; expr = f.Arg(0) *)
Definition search (expr : list N) (p : Z) (add dbl : fcost) : outcome exit_class :=
  if p <? 1 then Ok Exit2                                         (* UsageError: concurrency *)
  else
    or_fail (Calc.eval expr) (fun n =>
    if n <? 1 then Ok Exit1                                       (* target must be positive *)
    else
      (* as := ensemble.Ensemble(); concurrency := cmd.concurrency; if concurrency > len(as) { concurrency = len(as) } *)
      let results := ens n in
      let concurrency := Z.min p (Z.of_nat (length results)) in
      obind (par_execute concurrency results) (fun rs =>
      or_fail (pick_best dbl add 0 rs 0 (FInf false)) (fun best =>
        match nth_error rs best with                              (* b := rs[best] *)
        | None => Panic ($"index")
        | Some r =>
            or_fail r (fun prog =>
            or_fail (decompile prog) (fun ir =>
            or_fail (build ir) (fun syntax =>
              let _ := print_script syntax in Ok Exit0)))
        end))).
End Search.

(* ------------------------------------------------------------------------------------------
   eval.Execute: the dump
     for n, op := range p.Program { Printf("[%3d] %3d+%3d\t%x\n", n+1, op.I, op.J, p.Chain[n+1]) }
     Printf("total: %d\tdoubles: \t%d adds: %d\n", doubles+adds, doubles, adds) *)
Definition hexZ (z : Z) : list N := print_hexZ z.

Fixpoint dump_ops (n : nat) (p : list op) (ch : list Z) : outcome (list N) :=
  match p with
  | [] => Ok []
  | o :: r =>
      match nth_error ch (S n) with
      | None => Panic ($"index")                                  (* p.Chain[n+1] *)
      | Some v =>
          obind (dump_ops (S n) r ch) (fun rest =>
            Ok ($"[" ++ padl 3 (print_nat (S n)) ++ $"] " ++ padl 3 (print_nat (fst o)) ++ $"+"
                ++ padl 3 (print_nat (snd o)) ++ [tab] ++ hexZ v ++ [nl] ++ rest))
      end
  end.

Definition dump_eval (p : list op) (ch : list Z) : outcome (list N) :=
  obind (dump_ops 0 p ch) (fun body =>
    let '(doubles, adds) := count p in
    Ok (body ++ $"total: " ++ print_nat (doubles + adds) ++ [tab] ++ $"doubles: " ++ [tab] ++ print_nat doubles
        ++ $" adds: " ++ print_nat adds ++ [nl])).

(* what each command writes to standard output when it succeeds: on the syntax tree, and from the text *)
Definition eval_tree (c : script) : outcome (list N) :=
  obind (load_tree c) (fun r => let '(_, p, ch) := r in dump_eval p ch).

Definition fmt_tree (b : bool) (s : script) : outcome (list N) :=
  if b then obind (translate s) (fun r => obind (build_named r) (fun s' => Ok (print_script s')))
  else Ok (print_script s).

(* gen.Execute: parse, PrepareData, LoadTemplate (unknown -type name = error), Generate *)
Definition gen_tree (typ : list N) (s : script) : outcome (list N) :=
  obind (prepare default_cfg s) (render typ).

Definition eval_out (src : list N) : outcome (list N) := obind (parse src) eval_tree.
Definition fmt_out (b : bool) (src : list N) : outcome (list N) := obind (parse src) (fmt_tree b).
Definition gen_out (typ src : list N) : outcome (list N) := obind (parse src) (gen_tree typ).

(* ------------------------------------------------------------------------------------------
   the command line *)
Inductive cmd :=
| Search (expr : list N) (p : Z) (add dbl : fcost)
| Eval (src : list N)
| Fmt (b : bool) (src : list N)
| Gen (typ : list N) (src : list N).

Definition cli (ens : Z -> list (outcome (list op))) (c : cmd) : outcome exit_class :=
  match c with
  | Search expr p add dbl => search ens expr p add dbl
  | Eval src => or_fail (eval_out src) (fun _ => Ok Exit0)
  | Fmt b src => or_fail (fmt_out b src) (fun _ => Ok Exit0)
  | Gen typ src => or_fail (gen_out typ src) (fun _ => Ok Exit0)
  end.

(* what reaches Execute, or does not: flag.Parse failure / missing expression (subcommands returns
   ExitUsageError), input file that cannot be opened (cmd.Error) *)
Inductive invocation :=
| IUsage
| INoFile
| ICmd (c : cmd).

Definition run_invocation (ens : Z -> list (outcome (list op))) (i : invocation) : outcome exit_class :=
  match i with
  | IUsage => Ok Exit2
  | INoFile => Ok Exit1
  | ICmd c => cli ens c
  end.

(* ------------------------------------------------------------------------------------------
   library entry points that take source or expression text *)
Definition lib_parse (s : list N) : outcome script := parse s.                                  (* parse.String *)
Definition lib_translate (s : list N) : outcome iprogram := obind (parse s) translate.          (* acc.Translate *)
Definition lib_load (s : list N) : outcome (iprogram * list op * list Z) := load_m s.           (* acc.LoadString *)
Definition lib_build (s : list N) : outcome script :=                                            (* acc.Build *)
  obind (parse s) (fun c => obind (translate c) build_named).
Definition lib_print (s : list N) : outcome (list N) := fmt_out false s.                        (* printer.Bytes *)
Definition lib_prepare (s : list N) : outcome gendata := obind (parse s) (prepare default_cfg). (* gen.PrepareData *)
Definition lib_generate (typ s : list N) : outcome (list N) := gen_out typ s.                   (* gen.Generate *)
Definition lib_calc (s : list N) : outcome Z := Calc.eval s.                                    (* calc.Eval *)
