(* acc/ir: intermediate representation types (shared by C03, C04, C05, C06, C16, C17). Types only. *)
From Coq Require Import List NArith ZArith.
Import ListNotations.

(* ir.Operand: optional identifier ([] = unnamed) and chain index (a Go int) *)
Record operand := mkOperand { oname : list N; oindex : Z }.

Inductive iop :=
| IAdd (x y : operand)
| IDouble (x : operand)
| IShift (x : operand) (s : N).

Record instr := mkInstr { iout : operand; iopn : iop }.

Definition iprogram := list instr.

(* Op.Inputs() *)
Definition inputs (o : iop) : list operand :=
  match o with
  | IAdd x y => [x; y]
  | IDouble x => [x]
  | IShift x _ => [x]
  end.

Definition index_operand (i : Z) : operand := mkOperand [] i.
