(* Model of acc/pass/alloc.go (Allocator.Execute, allocation), of the passes it runs first
   (acc/pass/pass.go CanonicalizeOperands, Indexes; acc/pass/naming.go ClearNames) and of
   ir.Program.Output.  Executable Gallina only; no proofs here.

   Scope: a fresh ir.Program (Operands, Indexes, Temporaries nil) whose operand objects are
   pairwise distinct Go objects, or shared only in the way acc.Translate / acc.Decompile
   share them (an instruction's Output object never occurs earlier in the program).  Under
   that scope pointer identity is unobservable and the program is the value [iprogram]. *)
From Coq Require Import String.
From Coq Require Import List NArith ZArith Bool Arith.
From AV Require Import model.Proto model.Ir.
Import ListNotations.
Open Scope Z_scope.

(* Allocator.Format: "must accept one integer value".  Modelled is what fmt.Sprintf(Format, n)
   does for one non-negative int argument on the following format language: literal text
   (with %% for a percent sign) around exactly one verb among %d %v %x %X %o %b, optionally
   with the zero flag and/or a width (%02d, %3x, %04b): the number in the verb's base, padded on
   the left with zeros or spaces up to the width.  Other formats are outside the model. *)
Inductive verb := VDec | VHex | VHexUp | VOct | VBin.
Record tformat := mkFmt {
  f_prefix : list N; f_verb : verb; f_zero : bool; f_width : nat; f_suffix : list N }.

Definition upcase (c : N) : N := if (97 <=? c)%N && (c <=? 122)%N then (c - 32)%N else c.

Definition render_digits (v : verb) (n : N) : list N :=
  match v with
  | VDec => print_decN n
  | VHex => print_hexN n
  | VHexUp => map upcase (print_hexN n)
  | VOct => print_base_fuel 8 (S (N.to_nat (N.size n))) n []
  | VBin => print_binN n
  end.

Definition pad (zero : bool) (w : nat) (s : list N) : list N :=
  repeat (if zero then 48%N else 32%N) (w - length s) ++ s.

(* fmt.Sprintf(format, n) *)
Definition render_fmt (f : tformat) (n : nat) : list N :=
  f_prefix f ++ pad (f_zero f) (f_width f) (render_digits (f_verb f) (N.of_nat n)) ++ f_suffix f.

(* Allocator{Input, Output, Format} *)
Record alloc_cfg := mkCfgF { cfg_in : list N; cfg_out : list N; cfg_fmt : tformat }.

(* the common case Format = prefix ++ "%d" *)
Definition simple_fmt (pre : list N) : tformat := mkFmt pre VDec false 0 [].
Definition mkCfg (i o pre : list N) : alloc_cfg := mkCfgF i o (simple_fmt pre).
Definition cfg_prefix (cfg : alloc_cfg) : list N := f_prefix (cfg_fmt cfg).

Definition out_index (i : instr) : Z := oindex (iout i).
Definition in_indexes (i : instr) : list Z := map oindex (inputs (iopn i)).

(* ---- map[int]T as association list keyed by Z ---- *)
Fixpoint zlookup {A} (k : Z) (m : list (Z * A)) : option A :=
  match m with
  | [] => None
  | (k', v) :: t => if k' =? k then Some v else zlookup k t
  end.

Fixpoint zset {A} (k : Z) (v : A) (m : list (Z * A)) : list (Z * A) :=
  match m with
  | [] => [(k, v)]
  | (k', v') :: t => if k' =? k then (k, v) :: t else (k', v') :: zset k v t
  end.

Fixpoint nlookup {A} (k : nat) (m : list (nat * A)) : option A :=
  match m with
  | [] => None
  | (k', v) :: t => if (k' =? k)%nat then Some v else nlookup k t
  end.

Definition is_empty (s : list N) : bool := match s with [] => true | _ => false end.

(* ---- CanonicalizeOperands, first pass ----
   p.Operands as index -> identifier of the canonical operand object.  One operand:
     existing, found := p.Operands[operand.Index]
     if !found { p.Operands[operand.Index] = operand; continue }
     if existing == operand { continue }        (same object: no observable effect)
     if existing.Identifier != "" && operand.Identifier != "" && they differ { return error }
     if operand.Identifier != "" { existing.Identifier = operand.Identifier } *)
Definition canon_operand (m : list (Z * list N)) (o : operand) : outcome (list (Z * list N)) :=
  match zlookup (oindex o) m with
  | None => Ok ((oindex o, oname o) :: m)
  | Some ex =>
      if negb (is_empty ex) && negb (is_empty (oname o)) && negb (str_eqb ex (oname o))
      then Err ($"conflict")
      else if negb (is_empty (oname o)) then Ok (zset (oindex o) (oname o) m)
      else Ok m
  end.

Fixpoint canon_operands (m : list (Z * list N)) (os : list operand) : outcome (list (Z * list N)) :=
  match os with
  | [] => Ok m
  | o :: r => obind (canon_operand m o) (fun m' => canon_operands m' r)
  end.

(* for _, i := range p.Instructions { for _, operand := range i.Operands() {...} }
   with Operands() = append(Op.Inputs(), Output).  Besides the map, records for every
   instruction whether its Output object became the canonical operand of its index (it did
   iff the index had not been seen before): the second pass of CanonicalizeOperands
   replaces the *inputs* of every instruction by the canonical objects but leaves
   inst.Output alone, so a non-canonical Output object keeps its own identifier for ever. *)
Fixpoint canonicalize (m : list (Z * list N)) (p : iprogram) : outcome (list (Z * list N) * list bool) :=
  match p with
  | [] => Ok (m, [])
  | i :: r =>
      obind (canon_operands m (inputs (iopn i))) (fun m1 =>
        let canonical := match zlookup (out_index i) m1 with None => true | Some _ => false end in
        obind (canon_operand m1 (iout i)) (fun m2 =>
          obind (canonicalize m2 r) (fun mf => Ok (fst mf, canonical :: snd mf))))
  end.

(* ---- Indexes: keys of p.Operands, sort.Ints ---- *)
Fixpoint insert_sorted (x : Z) (l : list Z) : list Z :=
  match l with
  | [] => [x]
  | y :: t => if x <? y then x :: l else if x =? y then l else y :: insert_sorted x t
  end.

Definition sort_indexes (l : list Z) : list Z := fold_right insert_sorted [] l.

(* ---- allocation ---- *)
Record allocation := mkAlloc {
  variable : list (Z * nat);    (* operand index -> variable *)
  available : list nat;         (* stack: head = last element of the Go slice *)
  nvars : nat }.

Definition newallocation : allocation := mkAlloc [] [] 0.

(* Allocate: no-op if assigned; if nothing is available push a.n and a.n++; pop the top *)
Definition allocate_index (a : allocation) (i : Z) : allocation :=
  match zlookup i (variable a) with
  | Some _ => a
  | None =>
      match available a with
      | [] => mkAlloc ((i, nvars a) :: variable a) [] (S (nvars a))
      | v :: rest => mkAlloc ((i, v) :: variable a) rest (nvars a)
      end
  end.

(* Variable: a.Allocate(i); return a.variable[i]  (a Go map miss yields 0) *)
Definition variable_of (a : allocation) (i : Z) : allocation * nat :=
  let a' := allocate_index a i in
  (a', match zlookup i (variable a') with Some v => v | None => O end).

Definition free (a : allocation) (v : nat) : allocation :=
  mkAlloc (variable a) (v :: available a) (nvars a).

(* body of the reverse loop *)
Definition scan_step (a : allocation) (i : instr) : allocation :=
  let av := variable_of a (out_index i) in
  let a2 := free (fst av) (snd av) in
  fold_left allocate_index (in_indexes i) a2.

(* for i := len(p.Instructions) - 1; i >= 0; i-- : the suffix is processed first *)
Fixpoint scan (p : iprogram) : allocation :=
  match p with
  | [] => newallocation
  | i :: rest => scan_step (scan rest) i
  end.

(* lastinputread *)
Definition lir_instr (l : Z) (i : instr) : Z :=
  fold_left (fun l x => if x =? 0 then out_index i else l) (in_indexes i) l.
Definition lastinputread (p : iprogram) : Z := fold_left lir_instr p 0.

(* fmt.Sprintf(a.Format, n) *)
Definition tmpname (cfg : alloc_cfg) (n : nat) : list N := render_fmt (cfg_fmt cfg) n.

(* ---- naming loop ---- *)
Record naming := mkNaming {
  nalloc : allocation;
  vname : list (nat * list N);      (* name : variable -> temporary name *)
  temps : list (list N);            (* p.Temporaries *)
  opname : list (Z * list N) }.     (* identifier given to the canonical operand of an index *)

Definition name_step (cfg : alloc_cfg) (lir : Z) (outv : nat) (s : naming) (index : Z) : naming :=
  let av := variable_of (nalloc s) index in
  let v := snd av in
  let ok := nlookup v (vname s) in
  if index =? 0 then
    mkNaming (fst av) (vname s) (temps s) ((index, cfg_in cfg) :: opname s)
  else if (v =? outv)%nat && (lir <=? index) then
    mkNaming (fst av) (vname s) (temps s) ((index, cfg_out cfg) :: opname s)
  else match ok with
       | None =>
           let nm := tmpname cfg (length (temps s)) in
           (* name[v] = ...; p.Temporaries = append(...); fallthrough; op.Identifier = name[v] *)
           mkNaming (fst av) ((v, nm) :: vname s) (temps s ++ [nm]) ((index, nm) :: opname s)
       | Some nm =>
           mkNaming (fst av) (vname s) (temps s) ((index, nm) :: opname s)
       end.

(* p.Output(): output operand of the last instruction *)
Fixpoint last_instr (p : iprogram) : option instr :=
  match p with
  | [] => None
  | [i] => Some i
  | _ :: r => last_instr r
  end.

(* identifier of the canonical operand of an index after the pass ("" if never named) *)
Definition ident (names : list (Z * list N)) (k : Z) : list N :=
  match zlookup k names with Some n => n | None => [] end.

Definition rename_operand (names : list (Z * list N)) (o : operand) : operand :=
  mkOperand (ident names (oindex o)) (oindex o).

Definition rename_op (names : list (Z * list N)) (o : iop) : iop :=
  match o with
  | IAdd x y => IAdd (rename_operand names x) (rename_operand names y)
  | IDouble x => IDouble (rename_operand names x)
  | IShift x s => IShift (rename_operand names x) s
  end.

(* what the instructions look like afterwards: inputs are the canonical objects; the Output
   object is canonical or keeps its identifier *)
Fixpoint rename (names : list (Z * list N)) (p : iprogram) (canonical : list bool) : iprogram :=
  match p, canonical with
  | i :: r, c :: cs =>
      mkInstr (if c then rename_operand names (iout i) else iout i) (rename_op names (iopn i))
      :: rename names r cs
  | _, _ => []
  end.

(* everything after the passes: the allocation and the state of the naming loop *)
Definition run_naming (cfg : alloc_cfg) (p : iprogram) (idx : list Z) (lst : instr) : naming :=
  let a := scan p in
  let lir := lastinputread p in
  let av := variable_of a (out_index lst) in
  fold_left (name_step cfg lir (snd av)) idx (mkNaming (fst av) [] [] []).

(* Allocator.Execute *)
Definition allocate (cfg : alloc_cfg) (p : iprogram) : outcome (iprogram * list (list N)) :=
  match last_instr p with
  | None => Err ($"empty")
  | Some lst =>
      obind (canonicalize [] p) (fun mf =>
        let idx := sort_indexes (map fst (fst mf)) in
        let s := run_naming cfg p idx lst in
        Ok (rename (opname s) p (snd mf), temps s))
  end.
