(* Model of alg/contfrac/contfrac.go (C08): the seven strategies, chain/minchain, FindSequence;
   and the uniform entry point over both families of sequence algorithms (used by C01).
   Executable definitions only. *)
From Coq Require Import String.
From Coq Require Import List NArith ZArith Bool Arith.
From AV Require Import model.Proto model.Bits model.Lists model.Chain model.Heuristic.
Import ListNotations.
Open Scope Z_scope.

(* order of contfrac.Strategies *)
Inductive strategy : Type := Binary | CoBinary | Dichotomic | Sqrt | Total | Dyadic | Fermat.
Definition strategies : list strategy := [Binary; CoBinary; Dichotomic; Sqrt; Total; Dyadic; Fermat].

(* Singleton(): SqrtStrategy returns false in the code (its comment says true) *)
Definition singleton (s : strategy) : bool :=
  match s with
  | Binary | CoBinary | Dichotomic => true
  | Sqrt | Total | Dyadic | Fermat => false
  end.

Definition strategy_name (s : strategy) : list N :=
  match s with
  | Binary => $"binary"
  | CoBinary => $"co_binary"
  | Dichotomic => $"dichotomic"
  | Sqrt => $"sqrt"
  | Total => $"total"
  | Dyadic => $"dyadic"
  | Fermat => $"fermat"
  end.
Definition contfrac_alg_name (s : strategy) : list N := $"continued_fractions(" ++ strategy_name s ++ $")".

(* DyadicStrategy.K: k := n >> 1; for k > 1 { append k; k >>= 1 } *)
Fixpoint dyadic_loop (fuel : nat) (k : Z) : list Z :=
  match fuel with
  | O => []
  | S f => if 1 <? k then k :: dyadic_loop f (Z.shiftr k 1) else []
  end.

(* FermatStrategy.K: k := n >> 1; s := 1; for k > 1 { append k; k >>= s; s *= 2 }
   (s is a Go uint; it would wrap only after 64 iterations, i.e. for n of more than 2^63 bits) *)
Fixpoint fermat_loop (fuel : nat) (k s : Z) : list Z :=
  match fuel with
  | O => []
  | S f => if 1 <? k then k :: fermat_loop f (Z.shiftr k s) (2 * s) else []
  end.

(* Strategy.K.  big.Int.Sqrt panics on a negative argument; the other strategies do not fail. *)
Definition strategy_K (s : strategy) (n : Z) : outcome (list Z) :=
  match s with
  | Binary => Ok [Z.shiftr n 1]
  | CoBinary => Ok [Z.shiftr (if Z.testbit n 0 then n + 1 else n) 1]
  | Dichotomic => let h := (bitlen n / 2)%N in Ok [n / pow2 h]
  | Sqrt => if n <? 0 then Panic ($"sqrtneg") else Ok [Z.sqrt n]
  | Total => Ok (map (fun i => 2 + Z.of_nat i) (seq 0 (Z.to_nat (n - 2))))
  | Dyadic => Ok (dyadic_loop (S (N.to_nat (bitlen n))) (Z.shiftr n 1))
  | Fermat => Ok (fermat_loop (S (N.to_nat (bitlen n))) (Z.shiftr n 1) 1)
  end.

(* all results in order, or the first failure *)
Fixpoint all_ok {A} (l : list (outcome A)) : outcome (list A) :=
  match l with
  | [] => Ok []
  | o :: r => obind o (fun x => obind (all_ok r) (fun xs => Ok (x :: xs)))
  end.

(* minchain's selection: min starts nil; if min == nil || len(c) < len(min) { min = c }.
   Every chain returned by chain() is non-empty unless it is the nil of an empty K, so nil = []. *)
Fixpoint shortest (cs : list (list Z)) (best : list Z) : list Z :=
  match cs with
  | [] => best
  | c :: r =>
      if match best with [] => true | _ => false end || (length c <? length best)%nat
      then shortest r c else shortest r best
  end.

(* chain (inl ns) and minchain (inr n) with the recursive calls abstracted as rec *)
Definition cf_body (s : strategy) (rec : list Z + Z -> outcome (list Z)) (a : list Z + Z)
  : outcome (list Z) :=
  match a with
  | inr n =>
      if is_pow2 n then Ok (pow2_upto n)
      else if n =? 3 then Ok [1; 2; 3]
      else
        obind (strategy_K s n) (fun ks =>
        obind (all_ok (map (fun k => rec (inl [k; n])) ks)) (fun cs =>
        Ok (shortest cs [])))
  | inl ns =>
      match rev ns with
      | [] => Panic ($"index")                       (* ns[k-2] with k = 0 *)
      | [n] => rec (inr n)                           (* k == 1 *)
      | n :: m :: rr =>
          if m <=? 1 then rec (inr n)                (* ns[k-2] <= 1 *)
          else
            let q := n / m in                        (* DivMod with m >= 2 *)
            let r := n mod m in
            obind (rec (inr q)) (fun cq =>
              let remaining := rev (m :: rr) in      (* ns[:k-1] *)
              if r =? 0 then
                obind (rec (inl remaining)) (fun c => product c cq)
              else
                obind (rec (inl (insert_sorted_unique remaining r))) (fun c =>
                obind (product c cq) (fun p => plus p r)))
      end
  end.

(* mutual recursion chain/minchain on one fuel (= recursion depth) *)
Fixpoint cf (s : strategy) (fuel : nat) : list Z + Z -> outcome (list Z) :=
  match fuel with
  | O => fun _ => OutOfFuel
  | S f => cf_body s (cf s f)
  end.
Definition cf_chain (s : strategy) (fuel : nat) (ns : list Z) : outcome (list Z) := cf s fuel (inl ns).
Definition cf_minchain (s : strategy) (fuel : nat) (n : Z) : outcome (list Z) := cf s fuel (inr n).

(* recursion depth 2^n with n small *)
Fixpoint cf_deep (s : strategy) (n : nat) (rec : list Z + Z -> outcome (list Z))
  (a : list Z + Z) {struct n} : outcome (list Z) :=
  match n with
  | O => cf_body s rec a
  | S m => cf_deep s m (fun a' => cf_deep s m rec a') a
  end.

(* Algorithm.FindSequence: bigints.Sort(targets) in place; return a.chain(targets), nil *)
Definition cf_find_sequence (s : strategy) (fuel : nat) (targets : list Z) : outcome (list Z) :=
  cf_chain s fuel (sort targets).

(* depth bound: ((L+4) * largest + L + 3) <= 2^cf_depth_bits where L = max(len, 2) *)
Definition cf_depth_bits (targets : list Z) : nat :=
  let ns := sort targets in
  let L := Z.of_nat (Nat.max (length ns) 2) in
  S (N.to_nat (bitlen (last ns 0) + bitlen (L + 4))).
Definition cf_find_sequence_go (s : strategy) (targets : list Z) : outcome (list Z) :=
  cf_deep s (cf_depth_bits targets) (fun _ => OutOfFuel) (inl (sort targets)).

(* ---- both families behind one entry point ---- *)
Inductive seqalg : Type :=
| SAHeuristic (hs : list heur)       (* [h] is heuristic(h); otherwise heuristic(use_first(hs)) *)
| SAContfrac (s : strategy).

Definition heur_of_list (hs : list heur) : heur :=
  match hs with
  | [h] => h
  | _ => UseFirst hs
  end.

Definition seqalg_name (a : seqalg) : list N :=
  match a with
  | SAHeuristic hs => heuristic_alg_name (heur_of_list hs)
  | SAContfrac s => contfrac_alg_name s
  end.

Definition find_sequence_alg (a : seqalg) (targets : list Z) : outcome (list Z) :=
  match a with
  | SAHeuristic hs => find_sequence_go (heur_of_list hs) targets
  | SAContfrac s => cf_find_sequence_go s targets
  end.

(* the caller's slice after the call: contfrac sorts it in place, heuristic leaves it alone *)
Definition targets_after (a : seqalg) (targets : list Z) : list Z :=
  match a with
  | SAHeuristic _ => targets
  | SAContfrac _ => sort targets
  end.

(* the configurations of the property: ensemble's two compositions, the stand-alone heuristics,
   the seven strategies *)
Definition seqalgs : list seqalg :=
  [SAHeuristic [Halving; DeltaLargest]; SAHeuristic [Halving; Approximation];
   SAHeuristic [DeltaLargest]; SAHeuristic [Approximation]; SAHeuristic [Halving]]
  ++ map SAContfrac strategies.
