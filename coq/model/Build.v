(* Model of acc/build.go (C04, C16): Build = analysis passes, then builder.process.
   Executable definitions only; proofs are in proofs/BuildProofs.v.
   Scope as in Naming.v: operands carry no identifier on entry (output of acc.Decompile);
   every output operand is then the canonical object of its index whenever Compile succeeds
   (an output index is never read before it is written), so inst.Output.Identifier is the
   table entry of its index. *)
From Coq Require Import String.
From Coq Require Import List NArith ZArith Bool Arith.
From AV Require Import model.Proto model.Chain model.Program model.Ir model.Ast model.Bits
  model.Decompile model.Naming.
Import ListNotations.
Open Scope Z_scope.

(* const complexitylimit = 5 *)
Definition complexitylimit : nat := 5.

(* builder: chain.Statements, expr map, and process's local complexity counter *)
Record bstate := mkB { b_stmts : list stmt; b_expr : list (Z * expr); b_cx : nat }.
Definition b_init : bstate := mkB [] [] O.

(* builder.operand *)
Definition b_operand (b : bstate) (x : Z) : expr :=
  match zlookup x (b_expr b) with Some e => e | None => EOperand x end.

(* builder.add: operator operand first; both operators is an assertion failure *)
Definition b_add (b : bstate) (x y : Z) : outcome expr :=
  let ex := b_operand b x in
  let ey := b_operand b y in
  if is_op ex && is_op ey then Err ($"assert")
  else if is_op ey then Ok (EAdd ey ex)
  else Ok (EAdd ex ey).

(* builder.operator *)
Definition b_operator (b : bstate) (o : iop) : outcome expr :=
  match o with
  | IAdd x y => b_add b (oindex x) (oindex y)
  | IDouble x => Ok (EDouble (b_operand b (oindex x)))
  | IShift x s => Ok (EShift (b_operand b (oindex x)) s)
  end.

(* ir.HasInput *)
Definition has_input (o : iop) (idx : Z) : bool := existsb (fun i => oindex i =? idx) (inputs o).

(* builder.name: the identifier if there is one, else fmt.Sprintf("i%d", op.Index) *)
Definition b_name (ident : list N) (idx : Z) : list N :=
  match ident with
  | [] => 105%N :: print_decZ idx
  | _ => ident
  end.

Section Process.
Variable tbl : list (Z * list N).   (* identifiers after the naming passes *)
Variable rc : list (Z * nat).       (* p.ReadCount *)

(* one iteration of the loop in builder.process; nxt = insts[i+1] if i+1 < n *)
Definition b_step (b : bstate) (i : instr) (nxt : option instr) : outcome bstate :=
  let cx := S (b_cx b) in
  obind (b_operator b (iopn i)) (fun e =>
    let out := oindex (iout i) in
    let anon := match ident_of tbl out with [] => true | _ => false end in
    let usedonce := (rc_get rc out =? 1)%nat in
    let usednext := match nxt with Some j => has_input (iopn j) out | None => false end in
    if anon && usedonce && usednext && (cx <? complexitylimit)%nat then
      Ok (mkB (b_stmts b) ((out, e) :: b_expr b) cx)
    else
      (* commit: the statement's expression is b.operand(out) = e *)
      let name := b_name (ident_of tbl out) out in
      Ok (mkB (b_stmts b ++ [mkStmt name e]) ((out, EIdent name) :: b_expr b) O)).

Fixpoint b_loop (b : bstate) (P : iprogram) : outcome bstate :=
  match P with
  | [] => Ok b
  | i :: r => obind (b_step b i (hd_error r)) (fun b1 => b_loop b1 r)
  end.
End Process.

(* b.chain.Statements[len-1].Name = "" (index -1 on an empty list panics) *)
Fixpoint clear_last (ss : list stmt) : outcome (list stmt) :=
  match ss with
  | [] => Panic ($"index")
  | [s] => Ok [mkStmt [] (sexpr s)]
  | s :: r => obind (clear_last r) (fun r' => Ok (s :: r'))
  end.

(* builder.process *)
Definition process (tbl : list (Z * list N)) (rc : list (Z * nat)) (P : iprogram) : outcome script :=
  match P with
  | [] => Ok [mkStmt [] (EOperand 0)]      (* fix F5: the one-element chain is "return 1" *)
  | _ => obind (b_loop tbl rc b_init P) (fun b => clear_last (b_stmts b))
  end.

(* acc.Build *)
Definition build (P : iprogram) : outcome script :=
  let rc := read_counts_ir P in
  obind (name_operands P) (fun tbl => process tbl rc P).

(* Decompile then Build: what `addchain search` does with the best program *)
Definition build_program (p : list op) : outcome script := obind (decompile p) build.
