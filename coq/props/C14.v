(* C14 -- the search command's report is self-consistent, minimal and reproducible.
   Only statements, each closed by an exact lemma, with Print Assumptions.

   Vocabulary
     search_m ens expr p w     cmd/addchain/search.go after flag parsing (model/Search.v); ens n is the
                               sequential list of exec.Execute results over the ensemble, w the -add/-double
                               weights as exact rationals, p the -p flag
     search_full orcs expr p w search_m over the ensemble model of C01 (model/SearchEns.v); orcs i is the
                               sort oracle of algorithm i (None = stable sort, DESIGN 3.5)
     select tbl w              the selection loop alone, on the table of (doubles, adds)
     report p                  Decompile, Build, Print: the bytes on standard output
     eval_cmd, fmt_cmd         `addchain eval`, `addchain fmt` (model/Search.v over C03's load_m, C07's parse)
     gen                       `addchain gen` (model/Gen.v, C06)
     consistent_report w n rs o   (proofs/SearchMain.v) the whole claim about one run: o reports target n;
                               the selected index exists, its cost is dbl*doubles + add*adds of its program,
                               <= the cost of every result and < the cost of every earlier result; the
                               table lists exactly those costs; the printed script evaluates (eval command)
                               to a genuine addition chain ending in n whose doublings/additions give the
                               reported cost; fmt accepts the script and leaves it unchanged
     good_ares n r             what C01 proves of every exec.Execute result (no error, a chain ending in n,
                               program of the right length evaluating to it)
     fits_slice r              the program has fewer than 2^63 - 1 operations (Go's bound on slice lengths)

   fmt -b                       `addchain fmt -b`: Cli.fmt_out true (model/Cli.v, C15): parse, Translate, acc.Build on
                               the translated program (build_named: operands carry identifiers), print
   gen_clause n o, fmtb_clause n o   (proofs/SearchAll.v) gen with every builtin template accepts the printed
                               script when n >= 2 and refuses it with a diagnostic when n = 1; fmt -b accepts
                               it and its output loads to a genuine chain ending in n

   C14_full (below) is the whole property over the models and is PROVED (C14_full_proved).  The names of the
   top-level theorems keep `_partial` because two things remain outside any Gallina statement:
     - costs are exact rationals: float64 rounding for weights that are not small dyadic numbers is not
       modelled (the check uses dyadic weights only, for which float64 arithmetic is exact);
     - "byte-identical across runs" is, for a Gallina function, the statement that the output is a function
       of (expr, weights, sort order): C14_p_irrelevant, C14_schedule_irrelevant (C12) say that -p and the
       interleaving do not enter; that Go's unstable sort.Slice is deterministic is an assumption about the
       Go library (the theorems hold for every sort order; the harness oracle compares runs).
   Both are covered by the oracle of the correspondence check on the real binary. *)
From Coq Require Import String.
From Coq Require Import List NArith ZArith Bool QArith.
From AV Require Import model.Par proofs.ParProofs.
From AV Require Import model.Proto model.Bits model.Chain model.Program model.Ast model.Printer model.Peg model.Translate
  model.Build model.Calc model.Gen model.Ensemble model.Search model.SearchEns.
From AV Require Import proofs.BuildProofs proofs.CalcSpec proofs.CalcProofs.
From AV Require Import model.AstProto.
From AV Require model.Cli.
From AV Require Import proofs.SearchProofs proofs.SearchBridge proofs.SearchMain proofs.SearchEnsProofs proofs.SearchGen proofs.SearchFmtB proofs.SearchAll proofs.SearchBounds.
Import ListNotations.
Open Scope Z_scope.

(* ---- the selection loop: minimal, first, total ---- *)
Theorem C14_select_min : forall tbl w,
  match select tbl w with
  | None => tbl = []
  | Some (i, c) =>
      exists da, nth_error tbl i = Some da /\ c = cost_of w da /\
        (forall j db, nth_error tbl j = Some db -> (c <= cost_of w db)%Q) /\
        (forall j db, (j < i)%nat -> nth_error tbl j = Some db -> (c < cost_of w db)%Q)
  end.
Proof. exact select_min. Qed.
Print Assumptions C14_select_min.

Theorem C14_select_none_iff : forall tbl w, select tbl w = None <-> tbl = [].
Proof. exact select_none_iff. Qed.
Print Assumptions C14_select_none_iff.

(* ---- the printed script is the chain: C04 o C07 o C03 with no hypothesis left about the text layer ---- *)
Theorem C14_report_consistent : forall p c,
  evaluate p = Ok c -> NoDup c -> Z.of_nat (length p) + 1 < 2 ^ 63 ->
  exists text t ir,
    report p = Ok text /\ text = print_script t /\ parse text = Ok t /\
    load_m text = Ok (ir, map cop p, c) /\ count (map cop p) = count p.
Proof. exact report_consistent. Qed.
Print Assumptions C14_report_consistent.

(* the hypothesis of C04_roundtrip_partial ("loading the printed text of a well-formed tree = C04's local
   translate_eval"), discharged from the printer/parser/Translate models of C07 and C03 *)
Theorem C14_text_layer : forall t ops c,
  BuildTranslateAux.wf_script t = true -> BuildTranslateAux.translate_eval t = Ok (ops, c) ->
  Z.of_nat (length ops) + 1 < 2 ^ 63 ->
  exists ir, load_m (print_script t) = Ok (ir, ops, c).
Proof. exact aux_load. Qed.
Print Assumptions C14_text_layer.

(* ---- the property, for ANY list of results with C01's guarantee (no reference to the ensemble) ---- *)
Theorem C14_results_consistent : forall w n rs,
  rs <> [] -> Forall (good_ares n) rs -> Forall fits_slice rs ->
  exists o, search_results w n rs = Ok o /\ consistent_report w n rs o.
Proof. exact search_results_consistent. Qed.
Print Assumptions C14_results_consistent.

(* ... and no row of the printed table claims fewer operations than doubling allows *)
Theorem C14_table_lower_bound : forall w n rs o,
  Forall (good_ares n) rs -> consistent_report w n rs o ->
  forall q d a, In (q, (d, a)) (so_table o) -> Z.log2_up n <= Z.of_nat (d + a).
Proof. exact table_lower_bound. Qed.
Print Assumptions C14_table_lower_bound.

Theorem C14_search_consistent : forall ens : Z -> outcome (list ares),
  (forall n, 1 <= n -> exists rs, ens n = Ok rs /\ rs <> [] /\ Forall (good_ares n) rs /\ Forall fits_slice rs) ->
  forall expr p w n, eval expr = Ok n -> 1 <= n -> 1 <= p ->
  exists rs o, ens n = Ok rs /\ search_m ens expr p w = Ok o /\ consistent_report w n rs o.
Proof. exact search_consistent. Qed.
Print Assumptions C14_search_consistent.

(* ---- the property over the ensemble model, C01's theorem plugged in: every expression of value
   n >= 1, every -p >= 1, every weights (positive or not), every sort order.  The only alternative to a
   consistent report is the model's refusal of an impossible sort order, which search reports as an
   algorithm error; it cannot happen with the stable sort. ---- *)
Theorem C14_search_ensemble_partial : forall orcs expr p w n,
  eval expr = Ok n -> 1 <= n -> Z.of_N (bitlen n) < 2 ^ 64 -> 1 <= p ->
  (forall rs, ens_model orcs n = Ok rs -> Forall fits_slice rs) ->
  (exists rs o, ens_model orcs n = Ok rs /\ search_full orcs expr p w = Ok o /\
                consistent_report w n rs o /\ gen_clause n o /\ fmtb_clause n o) \/
  (search_full orcs expr p w = Err ($"alg") /\ exists j, orcs j <> None).
Proof. exact search_full_all. Qed.
Print Assumptions C14_search_ensemble_partial.

Theorem C14_search_stable_partial : forall expr p w n,
  eval expr = Ok n -> 1 <= n -> Z.of_N (bitlen n) < 2 ^ 64 -> 1 <= p ->
  (forall rs, ens_model (fun _ => None) n = Ok rs -> Forall fits_slice rs) ->
  exists rs o, ens_model (fun _ => None) n = Ok rs /\ search_full (fun _ => None) expr p w = Ok o /\
               consistent_report w n rs o /\ gen_clause n o /\ fmtb_clause n o.
Proof.
  intros expr p w n He Hn Hb Hp Hfit.
  destruct (search_full_all (fun _ => None) expr p w n He Hn Hb Hp Hfit) as [H|[_ (j & Hj)]]; [exact H|].
  exfalso. apply Hj. reflexivity.
Qed.
Print Assumptions C14_search_stable_partial.

(* the same, starting from the text of a standard expression (C13): s renders the token list ts whose
   value under the usual rules is n *)
Theorem C14_search_standard_expression_partial : forall s ts p w n,
  renders false s ts -> E ts n -> 1 <= n -> Z.of_N (bitlen n) < 2 ^ 64 -> 1 <= p ->
  (forall rs, ens_model (fun _ => None) n = Ok rs -> Forall fits_slice rs) ->
  exists rs o, ens_model (fun _ => None) n = Ok rs /\ search_full (fun _ => None) s p w = Ok o /\
               consistent_report w n rs o /\ gen_clause n o /\ fmtb_clause n o.
Proof.
  intros s ts p w n Hr He. exact (C14_search_stable_partial s p w n (eval_complete_std s ts n Hr He)).
Qed.
Print Assumptions C14_search_standard_expression_partial.

(* ---- exit statuses: 2 for -p < 1, 1 for an expression without value or of value < 1, 0 otherwise ---- *)
Theorem C14_exit_status : forall ens : Z -> outcome (list ares),
  (forall n, 1 <= n -> exists rs, ens n = Ok rs /\ rs <> [] /\ Forall (good_ares n) rs /\ Forall fits_slice rs) ->
  forall expr p w,
  exit_status (search_m ens expr p w) =
    if p <? 1 then Some 2
    else match eval expr with
         | Ok n => if n <? 1 then Some 1 else Some 0
         | Err _ => Some 1
         | _ => None
         end.
Proof. exact search_exit_status. Qed.
Print Assumptions C14_exit_status.

(* ---- the target 1: the script is "return  1", its cost is 0, and gen refuses it with a diagnostic ---- *)
Theorem C14_one : forall w rs o, Forall (good_ares 1) rs -> consistent_report w 1 rs o ->
  so_stdout o = $"return  1" ++ [10%N] /\ (so_cost o == 0)%Q.
Proof. exact consistent_one. Qed.
Print Assumptions C14_one.

Theorem C14_gen_refuses_one : forall tmpl, gen default_cfg tmpl ($"return  1" ++ [10%N]) = Err ($"empty").
Proof. exact gen_one. Qed.
Print Assumptions C14_gen_refuses_one.

(* ---- gen accepts the report of every valid non-empty program, with every builtin template (C04's
   no-dangling theorem, C05's allocator theorem, C06's gen model) ---- *)
Theorem C14_gen_accepts : forall p c tmpl text,
  evaluate p = Ok c -> NoDup c -> p <> [] -> Z.of_nat (length p) + 1 < 2 ^ 63 ->
  In tmpl builtin_templates -> report p = Ok text ->
  exists out, gen default_cfg tmpl text = Ok out.
Proof. exact report_gen. Qed.
Print Assumptions C14_gen_accepts.

(* ---- fmt -b accepts the report of every valid program and prints a script of the same chain (C15's
   build_named; the builder invariant of C04 re-used on the translated program) ---- *)
Theorem C14_fmtb_accepts : forall p c text,
  evaluate p = Ok c -> NoDup c -> Z.of_nat (length p) + 1 < 2 ^ 63 -> report p = Ok text ->
  exists out ir', Cli.fmt_out true text = Ok out /\ load_m out = Ok (ir', map cop p, c).
Proof. exact report_fmtb. Qed.
Print Assumptions C14_fmtb_accepts.

(* ---- reproducibility: neither -p nor the schedule enters the result ---- *)
Theorem C14_p_irrelevant : forall ens expr p p' w, 1 <= p -> 1 <= p' ->
  search_m ens expr p w = search_m ens expr p' w.
Proof. exact search_p_irrelevant. Qed.
Print Assumptions C14_p_irrelevant.

(* C12 returned_complete: in every reachable returned state of the executor, for every limit, the slice
   handed to search is the sequential list of results *)
Theorem C14_schedule_irrelevant : forall (rs : list ares) (d : ares) limit s,
  reachable ares (length rs) limit (fun i => nth i rs d) s -> pc s = PReturned ->
  Par.rs s = map Some rs.
Proof. exact search_schedule_irrelevant. Qed.
Print Assumptions C14_schedule_irrelevant.

(* ---- the full statement of the property over the models: every clause of the property text, for every
   expression of value n >= 1, every -p >= 1, every weights, every sort order ---- *)
Definition C14_full : Prop :=
  forall orcs expr p w n,
  eval expr = Ok n -> 1 <= n -> Z.of_N (bitlen n) < 2 ^ 64 -> 1 <= p -> pos_weights w ->
  (forall rs, ens_model orcs n = Ok rs -> Forall fits_slice rs) ->
  (exists rs o, ens_model orcs n = Ok rs /\ search_full orcs expr p w = Ok o /\ consistent_report w n rs o /\
     (* fmt -b accepts, and prints a script of a chain ending in n *)
     (exists out ir ops c, Cli.fmt_out true (so_stdout o) = Ok out /\ load_m out = Ok (ir, ops, c) /\
                           last c 0 = n /\ is_chain c) /\
     (* gen accepts iff there is at least one operation *)
     (2 <= n -> exists out, gen default_cfg ($"listing") (so_stdout o) = Ok out) /\
     (n = 1 -> exists cls, gen default_cfg ($"listing") (so_stdout o) = Err cls) /\
     (* -p does not enter *)
     (forall p', 1 <= p' -> search_full orcs expr p' w = Ok o)) \/
  (search_full orcs expr p w = Err ($"alg") /\ exists j, orcs j <> None).

Theorem C14_full_proved : C14_full.
Proof.
  intros orcs expr p w n He Hn Hb Hp _ Hfit.
  destruct (search_full_all orcs expr p w n He Hn Hb Hp Hfit) as [(rs & o & Er & Es & Hc & Hg & Hf)|H]; [left|right; exact H].
  exists rs, o. split; [exact Er|]. split; [exact Es|]. split; [exact Hc|]. split; [exact Hf|].
  assert (Hl : In ($"listing") builtin_templates) by (left; reflexivity).
  split; [exact (proj1 (Hg _ Hl))|]. split.
  - intros H1. eexists. exact (proj2 (Hg _ Hl) H1).
  - intros p' Hp'. unfold search_full in *. rewrite (search_p_irrelevant _ expr p' p w Hp' Hp). exact Es.
Qed.
Print Assumptions C14_full_proved.

(* ---- non-vacuity ---- *)
Definition ex_w : weights := mkW (5 # 4) (1 # 2).   (* -add 1.25 -double 0.5 *)

(* ties: rows 1 and 2 both cost 23/4; the first is selected; row 0 costs more *)
Example C14_select_example :
  select [(2, 5); (4, 3); (4, 3)]%nat ex_w = Some (1%nat, cost_of ex_w (4, 3)%nat) /\
  (cost_of ex_w (4, 3)%nat == 23 # 4)%Q /\ (cost_of ex_w (2, 5)%nat == 29 # 4)%Q.
Proof. split; [reflexivity|]. split; reflexivity. Qed.

(* the hypotheses of C14_report_consistent on C04's example program (folded shifts, re-used doublings,
   non-canonical operand order) *)
Definition ex_p : list op :=
  [(0,0); (1,1); (2,2); (3,3); (4,4); (5,5); (6,6); (7,7); (8,8);
   (9,8); (10,3); (7,11); (12,12); (13,13); (14,10); (0,8); (1,16); (17,2)]%nat.
Example C14_report_hypotheses_satisfiable :
  exists c, evaluate ex_p = Ok c /\ NoDup c /\ Z.of_nat (length ex_p) + 1 < 2 ^ 63.
Proof.
  eexists. split; [vm_compute; reflexivity|]. split; [apply has_dup_NoDup; vm_compute; reflexivity|reflexivity].
Qed.

(* the whole command on "2^5-3" with -p 4 -add 1.25 -double 0.5, stable sort: the model run ends in the
   report the real binary prints (index 0, cost 23/4, six statements) *)
Example C14_search_example :
  exists o, search_full (fun _ => None) ($"2^5-3") 4 ex_w = Ok o /\ so_n o = 29 /\ so_best o = O /\
            (so_cost o == 23 # 4)%Q /\ length (so_table o) = 200%nat /\
            so_stdout o = $"_10    = 2*1
_11    = 1 + _10
_110   = 2*_11
_111   = 1 + _110
_11100 = _111 << 2
return   1 + _11100
".
Proof. eexists. split; [vm_compute; reflexivity|]. repeat split. Qed.

(* ... and the hypotheses of C14_search_stable_partial hold for it *)
Example C14_search_hypotheses_satisfiable :
  eval ($"2^5-3") = Ok 29 /\ Z.of_N (bitlen 29) < 2 ^ 64 /\
  forall rs, ens_model (fun _ => None) 29 = Ok rs -> Forall fits_slice rs.
Proof.
  split; [vm_compute; reflexivity|]. split; [reflexivity|].
  intros rs H. vm_compute in H. injection H as <-.
  repeat (constructor; [reflexivity|]). constructor.
Qed.

(* gen on that script: the listing the real command prints *)
Example C14_gen_example :
  exists o out, search_full (fun _ => None) ($"2^5-3") 4 ex_w = Ok o /\
    gen default_cfg ($"listing") (so_stdout o) = Ok out /\
    out = $"tmp	t0
double	t0	x
add	t0	x	t0
double	t0	t0
add	t0	x	t0
shift	t0	t0	2
add	z	x	t0
".
Proof. eexists _, _. split; [vm_compute; reflexivity|]. split; [vm_compute; reflexivity|reflexivity]. Qed.

(* fmt -b on that script: here a fixed point *)
Example C14_fmtb_example :
  exists o, search_full (fun _ => None) ($"2^5-3") 4 ex_w = Ok o /\
    Cli.fmt_out true (so_stdout o) = Ok (so_stdout o).
Proof. eexists. split; [vm_compute; reflexivity|vm_compute; reflexivity]. Qed.

(* failing invocations *)
Example C14_failures :
  search_full (fun _ => None) ($"5") 0 ex_w = Err ($"usage") /\
  search_full (fun _ => None) ($"1/0") 1 ex_w = Err ($"eval") /\
  search_full (fun _ => None) ($"2-3") 1 ex_w = Err ($"nonpos") /\
  search_full (fun _ => None) ($"0") 64 ex_w = Err ($"nonpos").
Proof. repeat split; vm_compute; reflexivity. Qed.
