(* C14 - placeholder while the correspondence check is being built. *)
From Coq Require Import List NArith ZArith QArith.
From AV Require Import model.Proto model.Search.
Import ListNotations.

Theorem C14_select_empty : forall w, select [] w = None.
Proof. reflexivity. Qed.
Print Assumptions C14_select_empty.
