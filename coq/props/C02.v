(* C02 placeholder; replaced by the full statements *)
From Coq Require Import List ZArith Bool.
From AV Require Import model.Proto model.Chain.
Import ListNotations.
Open Scope Z_scope.
Theorem C02_example : validate [1; 2; 3; 6] = Ok tt.
Proof. vm_compute. reflexivity. Qed.
Print Assumptions C02_example.
