(* C02 — chain validation accepts exactly the addition chains and lists exactly their ops.
   Only statements, each closed by an exact lemma of proofs/ChainProofs.v, with Print Assumptions.
   The model (model/Chain.v) mirrors /repo/chain.go and Program.Evaluate of /repo/program.go; all
   statements are over arbitrary lists of integers (zeros, negatives, duplicates, any order, empty). *)
From Coq Require Import String.
From Coq Require Import List NArith ZArith Bool.
From AV Require Import model.Proto model.Chain proofs.ChainProofs proofs.ChainBounds.
Import ListNotations.
Open Scope Z_scope.

(* Validate succeeds iff the sequence is non-empty and begins with 1, has no repeated value, no zero,
   and every later element is the sum of two earlier elements (written out; this is [is_chain]). *)
Theorem C02_validate_iff : forall c : list Z,
  validate c = Ok tt <->
  (exists r, c = 1 :: r) /\ NoDup c /\ ~ In 0 c /\
  forall k, (1 <= k < length c)%nat ->
    exists i j, (i <= j < k)%nat /\ nth i c 0 + nth j c 0 = nth k c 0.
Proof. exact validate_iff. Qed.
Print Assumptions C02_validate_iff.

(* ... and otherwise returns an error: validation never panics *)
Theorem C02_validate_total : forall c, validate c = Ok tt \/ exists cls, validate c = Err cls.
Proof. exact validate_total. Qed.
Print Assumptions C02_validate_total.

(* Produces adds exactly "last element = n"; Superset adds exactly "every target present" *)
Theorem C02_produces_iff : forall c n, produces c n = Ok tt <-> is_chain c /\ last c 0 = n.
Proof. exact produces_iff. Qed.
Print Assumptions C02_produces_iff.

Theorem C02_superset_iff : forall c ts,
  superset c ts = Ok tt <-> is_chain c /\ forall t, In t ts -> In t c.
Proof. exact superset_iff. Qed.
Print Assumptions C02_superset_iff.

(* IsAscending holds exactly for strictly increasing sequences that begin with 1 *)
Theorem C02_asc_iff : forall c : list Z,
  is_asc c = true <->
  (exists r, c = 1 :: r) /\ forall i j, (i < j < length c)%nat -> nth i c 0 < nth j c 0.
Proof. exact asc_iff. Qed.
Print Assumptions C02_asc_iff.

(* Ops(k), for every position k of the sequence and every order of the elements: no pair is listed
   twice and the listed pairs are exactly the index pairs i <= j < k whose values sum to element k *)
Theorem C02_ops_exact : forall (c : list Z) k, (k < length c)%nat ->
  exists l, ops_go c k = Ok l /\ NoDup l /\
            forall i j, In (i, j) l <-> (i <= j < k)%nat /\ nth i c 0 + nth j c 0 = nth k c 0.
Proof. exact ops_exact. Qed.
Print Assumptions C02_ops_exact.

(* the same as an equality of lists (so also the order: lexicographic in (i, j)), on both code paths *)
Theorem C02_ops_spec : forall c k, (k < length c)%nat ->
  ops_go c k = Ok (filter (fun o => nth (fst o) c 0 + nth (snd o) c 0 =? nth k c 0) (pairs 0 k)).
Proof. exact ops_go_in_range. Qed.
Print Assumptions C02_ops_spec.

(* the linear two-pointer scan equals the quadratic scan whenever the prefix is strictly increasing *)
Theorem C02_ops_2p_quad : forall c k,
  (forall i j, (i < j)%nat -> (j < k)%nat -> nth i c 0 < nth j c 0) -> ops_2p c k = ops_quad c k.
Proof. exact ops_paths_agree. Qed.
Print Assumptions C02_ops_2p_quad.

(* a position outside the sequence makes Go index out of range; the model says so *)
Theorem C02_ops_out_of_range : forall c k, (length c <= k)%nat -> k <> 0%nat -> ops_go c k = Panic ($"index").
Proof. exact ops_go_out_of_range. Qed.
Print Assumptions C02_ops_out_of_range.

(* Program() succeeds exactly on the addition chains ... *)
Theorem C02_program_iff : forall c, (exists p, program c = Ok p) <-> is_chain c.
Proof. exact program_iff. Qed.
Print Assumptions C02_program_iff.

(* ... and the program evaluates back to that same chain; it has one op per later element *)
Theorem C02_program_evaluate : forall c p,
  program c = Ok p -> evaluate p = Ok c /\ length p = (length c - 1)%nat.
Proof. exact program_evaluate. Qed.
Print Assumptions C02_program_evaluate.

(* growth bound (a consequence every accepted chain inherits): the k-th element is at most 2^k, so a
   sequence the validator accepts as a chain for n has at least log2_up n + 1 elements *)
Theorem C02_growth_bound : forall c,
  is_chain c -> forall k, (k < length c)%nat -> nz c k <= 2 ^ Z.of_nat k.
Proof. exact chain_nz_le_pow2. Qed.
Print Assumptions C02_growth_bound.

Theorem C02_length_lower_bound : forall c n,
  produces c n = Ok tt -> Z.log2_up n <= Z.of_nat (length c - 1).
Proof. exact produces_length_lower_bound. Qed.
Print Assumptions C02_length_lower_bound.

Theorem C02_superset_length_lower_bound : forall c ts,
  superset c ts = Ok tt -> forall t, In t ts -> Z.log2_up t <= Z.of_nat (length c - 1).
Proof. exact superset_length_lower_bound. Qed.
Print Assumptions C02_superset_length_lower_bound.

(* ---- non-vacuity: the hypotheses are met by non-trivial objects ---- *)

(* an unsorted valid chain, accepted; its program and the round trip *)
Example C02_ex_chain : is_chain [1; 2; 4; 3; 7; 14; 11].
Proof. apply validate_iff. vm_compute. reflexivity. Qed.
Example C02_ex_program :
  program [1; 2; 4; 3; 7; 14; 11] = Ok [(0, 0); (1, 1); (0, 1); (2, 3); (4, 4); (2, 4)]%nat
  /\ evaluate [(0, 0); (1, 1); (0, 1); (2, 3); (4, 4); (2, 4)]%nat = Ok [1; 2; 4; 3; 7; 14; 11].
Proof. vm_compute. split; reflexivity. Qed.
(* rejected sequences of every kind named in the property *)
Example C02_ex_rejected :
  validate [] = Err ($"empty") /\ validate [2; 4] = Err ($"first") /\ validate [1; 0] = Err ($"zero")
  /\ validate [1; 2; 2] = Err ($"dup") /\ validate [1; 2; 5] = Err ($"notsum")
  /\ validate [1; -1] = Err ($"notsum") /\ validate [1; 3; 2] = Err ($"notsum").
Proof. vm_compute. repeat split; reflexivity. Qed.
(* both Ops paths on a position with several pairs *)
Example C02_ex_ops :
  ops_go [1; 2; 3; 4; 5; 6] 5 = Ok [(0, 4); (1, 3); (2, 2)]%nat       (* ascending prefix: two-pointer *)
  /\ ops_go [1; 2; 4; 3; 5; 6] 5 = Ok [(0, 4); (1, 2); (3, 3)]%nat.   (* unsorted prefix: quadratic *)
Proof. vm_compute. split; reflexivity. Qed.
Example C02_ex_asc : asc [1; 2; 3; 5; 10] /\ is_asc [1; 2; 4; 3] = false.
Proof. split; [apply asc_iff|]; vm_compute; reflexivity. Qed.
