(* C16 — placeholder while the proofs are being ported; replaced by the full statements. *)
From Coq Require Import List NArith ZArith.
From AV Require Import model.Proto model.Naming.
Import ListNotations.

Theorem C16_name_byte_5 : name_byte 5 = [95; 49; 48; 49]%N.
Proof. reflexivity. Qed.
Print Assumptions C16_name_byte_5.
