(* C16 — names in built scripts are unique, legal and say what the value is.
   Only statements, each closed by an exact lemma, with Print Assumptions.

   Throughout: p has in-range operands (wf_program), c is its chain (evaluate p = Ok c), the
   values are pairwise distinct (NoDup c), and t is the script acc.Build(acc.Decompile(p)).
   `stmt_bindings t` is Translate's reading of the script: for each statement, in order, its
   name and the chain index of its value (local copy of the Translate model,
   proofs/BuildTranslateAux.v).  `describes nm x idx` (model/Naming.v): "_b" says x = b in
   binary, "xN" says x = 2^N - 1, "iN" says idx = N.  ident_ok / dbl_class are the clauses of
   the parser's identifier rule and of finding K1 (local copy of Printer.v's predicate). *)
From Coq Require Import String.
From Coq Require Import List NArith ZArith Bool.
From AV Require Import model.Proto model.Chain model.Program model.Ir model.Ast
  model.Decompile model.Naming model.Build
  proofs.BuildTranslateAux proofs.NamingProofs proofs.BuildProofs.
Import ListNotations.
Open Scope Z_scope.

(* no two statements define the same name (the unnamed final statement counts as "") *)
Theorem C16_names_unique : forall p c t,
  wf_program p -> evaluate p = Ok c -> NoDup c -> build_program p = Ok t ->
  NoDup (map sname t).
Proof. exact names_unique. Qed.
Print Assumptions C16_names_unique.

(* exactly the final statement is unnamed *)
Theorem C16_only_last_unnamed : forall p c t,
  wf_program p -> evaluate p = Ok c -> NoDup c -> build_program p = Ok t ->
  exists init last, t = init ++ [last] /\ sname last = [] /\ forall s, In s init -> sname s <> [].
Proof. exact only_last_unnamed. Qed.
Print Assumptions C16_only_last_unnamed.

(* every name has one of the shapes _[01]+, x[0-9]+, i[0-9]+, hence is a legal identifier
   and is not in the "dbl" class of finding K1 *)
Theorem C16_names_legal : forall p c t,
  wf_program p -> evaluate p = Ok c -> NoDup c -> build_program p = Ok t ->
  forall s, In s t -> sname s <> [] ->
    name_shape (sname s) /\ ident_ok (sname s) = true /\ dbl_class (sname s) = false.
Proof. exact names_legal. Qed.
Print Assumptions C16_names_legal.

(* a name describes the element its statement denotes *)
Theorem C16_names_faithful : forall p c t,
  wf_program p -> evaluate p = Ok c -> NoDup c -> build_program p = Ok t ->
  exists bs, stmt_bindings t = Ok bs /\ map fst bs = map sname t /\
    forall nm idx, In (nm, idx) bs -> nm <> [] ->
      0 <= idx < Z.of_nat (length c) /\ describes nm (nth (Z.to_nat idx) c 0) idx.
Proof. exact names_faithful. Qed.
Print Assumptions C16_names_faithful.

(* the schemes cannot collide: equal names force equal values or equal indexes, for any
   non-negative values and indexes (this is where "pairwise distinct values" is used) *)
Theorem C16_schemes_disjoint : forall x1 i1 x2 i2, 0 <= x1 -> 0 <= x2 -> 0 <= i1 -> 0 <= i2 ->
  stmt_name x1 i1 = stmt_name x2 i2 -> x1 = x2 \/ i1 = i2.
Proof. exact stmt_name_inj. Qed.
Print Assumptions C16_schemes_disjoint.

(* ---- non-vacuity: 1,2,3,6,7,...,255,510,511,1022,1023 then values that no scheme names ---- *)
Definition ex_p : list op :=
  [(0,0); (1,0); (2,2); (3,0); (4,4); (5,0); (6,6); (7,0); (8,8); (9,0); (10,10); (11,0); (12,12); (13,0);
   (14,14); (15,0); (16,16); (17,0); (18,18); (19,19); (20,20); (21,5); (22,22); (23,23); (24,1)]%nat.

Example C16_hypotheses_satisfiable :
  wf_program ex_p /\ (exists c, evaluate ex_p = Ok c /\ NoDup c) /\ exists t, build_program ex_p = Ok t.
Proof.
  split; [apply wf_check_ok; reflexivity|]. split.
  - eexists. split; [vm_compute; reflexivity|]. apply has_dup_NoDup. vm_compute. reflexivity.
  - eexists. vm_compute. reflexivity.
Qed.

(* the names of its 17 statements: _10 ... _11111111 (byte values), x9, x10 (all-ones above a
   byte), and the unnamed final statement *)
Example C16_example_names :
  exists t, build_program ex_p = Ok t /\
    map sname t = map bytes_of_string
      ["_10"; "_11"; "_110"; "_111"; "_1110"; "_1111"; "_11110"; "_11111"; "_111110"; "_111111";
       "_1111110"; "_1111111"; "_11111110"; "_11111111"; "x9"; "x10"; ""]%string.
Proof. eexists. split; vm_compute; reflexivity. Qed.

(* the fallback scheme: a re-used value that is neither a byte nor all-ones is named by index *)
Example C16_example_index_name :
  exists t, build_program [(0,0); (1,1); (2,2); (3,3); (4,4); (5,5); (6,6); (7,7); (8,8); (9,8); (10,10); (10,11)]%nat = Ok t /\
    map sname t = map bytes_of_string ["i8"; "i10"; ""]%string.
Proof. eexists. split; vm_compute; reflexivity. Qed.

(* the hypothesis matters: with a duplicated value two statements get the same name *)
Example C16_duplicates_excluded :
  exists t, build_program [(0,0); (0,0); (1,2)]%nat = Ok t /\ ~ NoDup (map sname t).
Proof.
  eexists. split; [vm_compute; reflexivity|]. intros H. inversion H as [|x l Hn _]. apply Hn. left. reflexivity.
Qed.
