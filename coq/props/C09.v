(* C09 placeholder: replaced by the full statements once DecompProofs.v exists. *)
From Coq Require Import List NArith ZArith Bool.
From AV Require Import model.Proto model.Decomp.
Import ListNotations.
Open Scope N_scope.

Theorem C09_example : decompose (Sliding 3) 5745 = Ok [mkTerm 1 0; mkTerm 7 4; mkTerm 1 9; mkTerm 5 10].
Proof. vm_compute. reflexivity. Qed.
Print Assumptions C09_example.
