(* C09 — dictionary decompositions represent the target exactly and without overlap.
   Only statements, each closed by an exact lemma of proofs/DecompProofs.v, with Print Assumptions.

   Model: model/Decomp.v (`decompose : method -> N -> outcome (list term)`, `sum_int`,
   `sort_by_exponent`, `dictionary`).  A term {D; E} stands for D * 2^E; its bit range is
   [E, E + N.size D).  The theorems hold for every x : N (x = 0 gives the empty sum), every
   K >= 1 and every T >= 0, which contains the property's range x >= 1.  With K = 0 the Go loops
   of FixedWindow and SlidingWindow never end (last two theorems): outside the property.
   "x itself is not modified" is a statement about Go aliasing; it is checked by the harness
   oracle on every case, the model is purely functional. *)
From Coq Require Import List NArith ZArith Bool Sorted Permutation.
From AV Require Import model.Proto model.Decomp proofs.DecompProofs.
Import ListNotations.
Open Scope N_scope.

(* window sizes for which the property is stated *)
Definition C09_valid (m : method) : Prop :=
  match m with
  | Fixed K | Sliding K | Hybrid K _ => 1 <= K
  | RunLength _ => True
  end.

(* fuel adequacy: for valid parameters the model's entry point always returns a sum *)
Theorem C09_returns : forall m x, C09_valid m -> exists s, decompose m x = Ok s.
Proof. exact decomp_returns. Qed.
Print Assumptions C09_returns.

(* the terms sum to exactly x (sum_int mirrors Sum.Int: fold of D << E) *)
Theorem C09_sum : forall m x s, C09_valid m -> decompose m x = Ok s -> sum_int s = x.
Proof. exact decomp_sum. Qed.
Print Assumptions C09_sum.

(* listed by strictly increasing exponent *)
Theorem C09_sorted : forall m x s, C09_valid m -> decompose m x = Ok s ->
  StronglySorted (fun a b => E a < E b) s.
Proof. exact decomp_sorted. Qed.
Print Assumptions C09_sorted.

(* every d is positive *)
Theorem C09_positive : forall m x s, C09_valid m -> decompose m x = Ok s ->
  Forall (fun t => 0 < D t) s.
Proof. exact decomp_positive. Qed.
Print Assumptions C09_positive.

(* bit ranges do not overlap: for every pair in list order, the first range ends at or before
   the start of the second *)
Theorem C09_disjoint : forall m x s, C09_valid m -> decompose m x = Ok s ->
  ForallOrdPairs (fun a b => E a + N.size (D a) <= E b) s.
Proof. exact decomp_disjoint. Qed.
Print Assumptions C09_disjoint.

(* fixed-window terms have at most K bits *)
Theorem C09_shape_fixed : forall K x s, 1 <= K -> decompose (Fixed K) x = Ok s ->
  Forall (fun t => N.size (D t) <= K) s.
Proof. exact shape_fixed. Qed.
Print Assumptions C09_shape_fixed.

(* sliding-window terms are odd with at most K bits *)
Theorem C09_shape_sliding : forall K x s, 1 <= K -> decompose (Sliding K) x = Ok s ->
  Forall (fun t => N.odd (D t) = true /\ N.size (D t) <= K) s.
Proof. exact shape_sliding. Qed.
Print Assumptions C09_shape_sliding.

(* run-length terms are all-ones, of length at most T when T > 0 *)
Theorem C09_shape_runlength : forall T x s, decompose (RunLength T) x = Ok s ->
  Forall (fun t => exists w, D t = 2 ^ w - 1 /\ (0 < T -> w <= T)) s.
Proof. exact shape_runlength. Qed.
Print Assumptions C09_shape_runlength.

(* hybrid terms are odd and either at most K bits wide or all-ones runs longer than K
   (and at most T when T > 0) *)
Theorem C09_shape_hybrid : forall K T x s, 1 <= K -> decompose (Hybrid K T) x = Ok s ->
  Forall (fun t => N.odd (D t) = true /\
                   (N.size (D t) <= K \/
                    exists w, D t = 2 ^ w - 1 /\ K < w /\ (0 < T -> w <= T))) s.
Proof. exact shape_hybrid. Qed.
Print Assumptions C09_shape_hybrid.

(* the derived dictionary is the strictly increasing list of exactly the d of the sum
   (for any term list, not only decompositions) *)
Theorem C09_dictionary : forall s,
  StronglySorted N.lt (dictionary s) /\
  forall d, In d (dictionary s) <-> exists t, In t s /\ D t = d.
Proof. exact dictionary_spec. Qed.
Print Assumptions C09_dictionary.

(* sort.Slice is not a stable sort and the model uses insertion; it does not matter: any
   exponent-ascending rearrangement of a decomposition is the model's list *)
Theorem C09_sort_unique : forall m x s s', C09_valid m -> decompose m x = Ok s ->
  Permutation s s' -> StronglySorted (fun a b => E a < E b) s' -> s' = s.
Proof. exact sort_slice_justified. Qed.
Print Assumptions C09_sort_unique.

(* outside the property: K = 0.  The Go loops never end; the model runs out of fuel. *)
Theorem C09_fixed_K0_diverges : forall x, 1 <= x -> decompose (Fixed 0) x = OutOfFuel.
Proof. exact fixed_K0_diverges. Qed.
Print Assumptions C09_fixed_K0_diverges.

Theorem C09_sliding_K0_diverges : forall x, 1 <= x -> decompose (Sliding 0) x = OutOfFuel.
Proof. exact sliding_K0_diverges. Qed.
Print Assumptions C09_sliding_K0_diverges.

(* non-vacuity: the hypotheses are met by non-trivial decompositions.
   x = 0xefb7 = 0b1110_1111_1011_0111 (runs of 3, 5, 2, 3 ones) *)
Example C09_ex_fixed : decompose (Fixed 3) 0xefb7 =
  Ok [mkTerm 1 0; mkTerm 3 1; mkTerm 3 4; mkTerm 7 7; mkTerm 3 10; mkTerm 7 13].
Proof. vm_compute. reflexivity. Qed.
Example C09_ex_sliding : decompose (Sliding 3) 0xefb7 =
  Ok [mkTerm 7 0; mkTerm 3 4; mkTerm 3 7; mkTerm 7 9; mkTerm 7 13].
Proof. vm_compute. reflexivity. Qed.
Example C09_ex_runlength :
  decompose (RunLength 3) 0xefb7 = Ok [mkTerm 7 0; mkTerm 3 4; mkTerm 3 7; mkTerm 7 9; mkTerm 7 13] /\
  decompose (RunLength 0) 0xefb7 = Ok [mkTerm 7 0; mkTerm 3 4; mkTerm 31 7; mkTerm 7 13].
Proof. vm_compute. split; reflexivity. Qed.
(* K = 2, T = 4: the run of five is cut into 15 @ 8 (a run) and the left-over 1 @ 7 (a window) *)
Example C09_ex_hybrid :
  decompose (Hybrid 2 4) 0xefb7 = Ok [mkTerm 7 0; mkTerm 3 4; mkTerm 1 7; mkTerm 15 8; mkTerm 7 13] /\
  decompose (Hybrid 3 0) 0xefb7 = Ok [mkTerm 7 0; mkTerm 3 4; mkTerm 31 7; mkTerm 7 13] /\
  decompose (Hybrid 3 2) 0xefb7 = decompose (Sliding 3) 0xefb7.
Proof. vm_compute. repeat split; reflexivity. Qed.
Example C09_ex_dictionary :
  dictionary [mkTerm 7 0; mkTerm 3 4; mkTerm 3 7; mkTerm 7 9; mkTerm 7 13] = [3; 7] /\
  sum_int [mkTerm 7 0; mkTerm 3 4; mkTerm 3 7; mkTerm 7 9; mkTerm 7 13] = 0xefb7.
Proof. vm_compute. split; reflexivity. Qed.
