(* C04 — the script printed for a chain loads back to exactly that chain.
   Only statements, each closed by an exact lemma, with Print Assumptions.

   Models: acc.Decompile (model/Decompile.v), pass.Compile / Eval / ReadCounts / naming passes
   (model/Naming.v), acc.Build (model/Build.v); acc.Translate as the local copy
   proofs/BuildTranslateAux.v (to be unified with model/Translate.v of branch c07c03).
   The text layer (printer + tabwriter, PEG parser, shared Translate) comes from the merged C07/C03
   models; C04_roundtrip is the unconditional text-level statement (C04_full instantiated with
   Printer.print_script and Translate.load_m). *)
From Coq Require Import String.
From Coq Require Import List NArith ZArith Bool.
From AV Require Import model.Proto model.Chain model.Program model.Ir model.Ast
  model.Decompile model.Naming model.Build
  proofs.BuildTranslateAux proofs.DecompileProofs proofs.BuildProofs.
From AV Require model.Printer model.Translate proofs.SearchBridge.
Import ListNotations.
Open Scope Z_scope.

(* The intermediate instruction form expands back to exactly the original operations
   (pass.Compile(Decompile(p)) = p, operand order included; shifts expand to doublings) *)
Theorem C04_decompile_expand : forall p, wf_program p ->
  exists q, decompile p = Ok q /\ compile q = Ok p.
Proof. exact decompile_expand. Qed.
Print Assumptions C04_decompile_expand.

(* ... and never reads a value that no instruction produces (pass.CheckDanglingInputs) *)
Theorem C04_decompile_no_dangling : forall p, wf_program p ->
  exists q, decompile p = Ok q /\ check_dangling q = Ok tt.
Proof. exact decompile_no_dangling. Qed.
Print Assumptions C04_decompile_no_dangling.

(* For every valid program (in-range operands, pairwise distinct values, either operand
   order, the empty program included): Decompile and Build succeed (the builder's assertion is
   unreachable), the script satisfies the hypothesis of the print/parse round-trip theorem,
   and Translate + Compile + Evaluate of the script give the same operations up to the order
   of the two operands of an addition, and the identical chain.
   length p < 2^63 is Go's own bound on slice lengths (operands and shift amounts fit int/uint). *)
Theorem C04_build_translate : forall p c, wf_program p -> evaluate p = Ok c -> NoDup c ->
  Z.of_nat (length p) < 2 ^ 63 ->
  exists t, build_program p = Ok t /\ wf_script t = true /\
            translate_compile t = Ok (map cop p) /\ translate_eval t = Ok (map cop p, c).
Proof. exact build_translate. Qed.
Print Assumptions C04_build_translate.

(* The full statement, over a printer and a loader given as functions on bytes.  The bound says
   that the chain (length p + 1 elements) fits a Go slice; Translate's element counter is a Go int. *)
Definition C04_full (print : script -> list N) (load : list N -> outcome (list op * list Z)) : Prop :=
  forall p c, wf_program p -> evaluate p = Ok c -> NoDup c -> Z.of_nat (length p) + 1 < 2 ^ 63 ->
  exists t, build_program p = Ok t /\ load (print t) = Ok (map cop p, c).

(* acc.LoadString (model/Translate.v load_m = parser, Translate, Compile, Evaluate), keeping the
   program and the chain *)
Definition load_ops_chain (src : list N) : outcome (list op * list Z) :=
  obind (Translate.load_m src) (fun r => Ok (snd (fst r), snd r)).

(* the text layer as a hypothesis: how the statement is assembled *)
Lemma C04_full_from_text_layer : forall print load,
  (forall t ops c, wf_script t = true -> translate_eval t = Ok (ops, c) ->
     Z.of_nat (length ops) + 1 < 2 ^ 63 -> load (print t) = Ok (ops, c)) -> C04_full print load.
Proof.
  intros print load H p c Hwf Hev Hnd Hlen.
  assert (Hl : Z.of_nat (length p) < 2 ^ 63) by (clear -Hlen; apply Z.lt_trans with (2 := Hlen); apply Z.lt_succ_diag_r).
  destruct (build_translate p c Hwf Hev Hnd Hl) as (t & Eb & Hw & _ & Ee).
  exists t. split; [exact Eb|]. apply (H t _ _ Hw Ee). now rewrite map_length.
Qed.

(* C04 with the real printer (model/Printer.v, tabwriter included), the real parser (model/Peg.v)
   and the shared Translate/Compile/Evaluate (model/Translate.v): no hypothesis about the text layer.
   The text-layer step is SearchBridge.aux_load (written on branch c14: the index-only Translate copy
   of BuildTranslateAux.v is simulated by the object-heap Translate of model/Translate.v, the two
   wf_script predicates coincide, C07 roundtrip removes printer and parser). *)
Theorem C04_roundtrip : C04_full Printer.print_script load_ops_chain.
Proof.
  apply C04_full_from_text_layer. intros t ops c Hw He Hlen.
  destruct (SearchBridge.aux_load t ops c Hw He Hlen) as (ir & Hl).
  unfold load_ops_chain. rewrite Hl. reflexivity.
Qed.
Print Assumptions C04_roundtrip.

(* the same, spelled out: Decompile, Build and print succeed, and the bytes load (LoadString) to
   the identical chain and the same operations up to the order of an addition's operands *)
Theorem C04_roundtrip_text : forall p c,
  wf_program p -> evaluate p = Ok c -> NoDup c -> Z.of_nat (length p) + 1 < 2 ^ 63 ->
  exists text ir, obind (build_program p) (fun t => Ok (Printer.print_script t)) = Ok text /\
                  Translate.load_m text = Ok (ir, map cop p, c).
Proof.
  intros p c Hwf Hev Hnd Hlen.
  assert (Hl : Z.of_nat (length p) < 2 ^ 63) by (clear -Hlen; apply Z.lt_trans with (2 := Hlen); apply Z.lt_succ_diag_r).
  destruct (build_translate p c Hwf Hev Hnd Hl) as (t & Eb & Hw & _ & Ee).
  destruct (SearchBridge.aux_load t (map cop p) c Hw Ee) as (ir & Hld); [now rewrite map_length|].
  exists (Printer.print_script t), ir. rewrite Eb. split; [reflexivity|exact Hld].
Qed.
Print Assumptions C04_roundtrip_text.

(* ---- non-vacuity: a program with a re-used doubling-run intermediate, a folded shift,
   values above 2^8 that get inlined, an all-ones value, and non-canonical operand order ---- *)
Definition ex_p : list op :=
  [(0,0); (1,1); (2,2); (3,3); (4,4); (5,5); (6,6); (7,7); (8,8);   (* 2 .. 512 *)
   (9,8); (10,3); (7,11); (12,12); (13,13); (14,10); (0,8); (1,16); (17,2)]%nat.

Example C04_hypotheses_satisfiable :
  wf_program ex_p /\ (exists c, evaluate ex_p = Ok c /\ NoDup c) /\ Z.of_nat (length ex_p) < 2 ^ 63.
Proof.
  split; [apply wf_check_ok; reflexivity|]. split; [|reflexivity].
  eexists. split; [vm_compute; reflexivity|]. apply has_dup_NoDup. vm_compute. reflexivity.
Qed.

(* its instruction form: the run 8 -> 128 is folded into one shift because its intermediates
   are read once; 256 and 512 stay doublings because they are read again *)
Example C04_example_ir :
  decompile ex_p = Ok
   [mkInstr (zi 1) (IDouble (zi 0)); mkInstr (zi 2) (IDouble (zi 1)); mkInstr (zi 3) (IDouble (zi 2));
    mkInstr (zi 7) (IShift (zi 3) 4); mkInstr (zi 8) (IDouble (zi 7)); mkInstr (zi 9) (IDouble (zi 8));
    mkInstr (zi 10) (IAdd (zi 9) (zi 8)); mkInstr (zi 11) (IAdd (zi 10) (zi 3)); mkInstr (zi 12) (IAdd (zi 7) (zi 11));
    mkInstr (zi 14) (IShift (zi 12) 2); mkInstr (zi 15) (IAdd (zi 14) (zi 10));
    mkInstr (zi 16) (IAdd (zi 0) (zi 8)); mkInstr (zi 17) (IAdd (zi 1) (zi 16)); mkInstr (zi 18) (IAdd (zi 17) (zi 2))].
Proof. vm_compute. reflexivity. Qed.

(* the built script has 8 statements for 18 operations (single-use values are inlined) and
   translates back to the operations in canonical operand order *)
Example C04_example_roundtrip :
  exists t, build_program ex_p = Ok t /\ length t = 8%nat /\ translate_compile t = Ok (map cop ex_p).
Proof. eexists. split; [vm_compute; reflexivity|]. split; vm_compute; reflexivity. Qed.

(* the hypotheses matter: a duplicate value makes Translate reject the built script *)
Example C04_duplicates_excluded :
  exists t, build_program [(0,0); (0,0); (1,2)]%nat = Ok t /\ translate_compile t = Err (bytes_of_string "redefine"%string).
Proof. eexists. split; vm_compute; reflexivity. Qed.
