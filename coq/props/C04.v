(* C04 — placeholder while the proofs are being ported; replaced by the full statements. *)
From Coq Require Import List NArith ZArith.
From AV Require Import model.Proto model.Decompile model.Build.
Import ListNotations.

Theorem C04_empty_program : build_program [] = Ok [Ast.mkStmt [] (Ast.EOperand 0)].
Proof. reflexivity. Qed.
Print Assumptions C04_empty_program.
