(* C06 -- generated listings, run literally, compute the script's chain or are refused.
   Only statements, each closed by an exact lemma, with Print Assumptions.

   Vocabulary (model/Gen.v, proofs/GenProofs.v):
     gen cfg tmpl src      `addchain gen -type tmpl`: parse, PrepareData (Translate, Validate, Allocator,
                           Eval -- in this order), render the builtin template
     prepare cfg s         gen.PrepareData on a syntax tree
     read_listing text     the documented reading of a listing: `tmp v ...`, then add/double/shift lines
     exec_listing mode cfg x l   literal execution on a register file, input register = x; reading a
                           register that was never written is the error "unwritten"; in Aliased mode the
                           input and output names denote one register
     uses_only cfg l       no instruction writes the input; every written name is the output or a declared
                           temporary; every name read is the input, the output or a declared temporary
     load_m src            acc.LoadString (model of C03): IR, program (ops) and chain of a source text
     read_chain, read_ops  inverse of the chain / ops line formats
     cfg_ok, cfg_clean     Input, Output, temporaries pairwise distinct and non-empty; no tab / newline in
                           the configured names (C06_default_cfg: true for x, z, t%d)
     dangling p            some instruction of p reads an index other than 0 that no earlier instruction
                           outputs (an intermediate result of a shift, or an element that does not exist)

   Not modelled: text/template.  render_listing, render_chain, render_ops, render_script are the output of
   the four builtin templates written out by hand; the correspondence check compares them byte for byte
   with the real gen.Generate. *)
From Coq Require Import String.
From Coq Require Import List NArith ZArith Bool.
From AV Require Import model.Proto model.Chain model.Ast model.Ir model.Peg model.Printer model.Translate
  model.Alloc model.Interp model.Gen proofs.AllocProofs proofs.InterpProofs proofs.GenProofs.
Import ListNotations.
Open Scope Z_scope.

(* ---- the whole property over the model ---- *)
Definition C06_full : Prop := forall cfg src, cfg_ok cfg -> cfg_clean cfg ->
  (* listing: read as documented and run literally it computes the last element of the chain the
     script loads to, in both aliasing modes, using only the input (never written), the output and
     declared, pairwise distinct temporaries; every register is written before it is read *)
  (forall text, gen cfg ($"listing") src = Ok text ->
     exists p ops ch temps prog,
       load_m src = Ok (p, ops, ch) /\
       read_listing text = Some (temps, prog) /\ prog <> [] /\ uses_only cfg (temps, prog) /\ NoDup temps /\
       forall mode, exists r,
         exec_listing mode cfg 1 (read_listing text) = Ok r /\
         reg_value mode cfg r (cfg_out cfg) = Some (last ch 0) /\
         (mode = Separate -> reg_value mode cfg r (cfg_in cfg) = Some 1)) /\
  (* chain and ops list exactly the evaluated chain and operations *)
  (forall text, gen cfg ($"chain") src = Ok text ->
     exists p ops ch, load_m src = Ok (p, ops, ch) /\ read_chain text = Some ch) /\
  (forall text, gen cfg ($"ops") src = Ok text ->
     exists p ops ch, load_m src = Ok (p, ops, ch) /\ length ch = S (length ops) /\
                      read_ops text = Some (combine ops (tl ch))) /\
  (* the script output re-loads to the same chain *)
  (forall text, gen cfg ($"script") src = Ok text ->
     exists s p ops ch, parse src = Ok s /\ text = print_script s /\
                        load_m src = Ok (p, ops, ch) /\ load_m text = Ok (p, ops, ch)) /\
  (* a script whose instructions read a value that no instruction outputs is refused *)
  (forall s p tmpl, parse src = Ok s -> translate s = Ok p -> dangling p -> exists cls, gen cfg tmpl src = Err cls).

Theorem C06 : C06_full.
Proof.
  intros cfg src Hcfg Hcl. split; [|split; [|split; [|split]]].
  - intros text. exact (gen_listing_correct cfg src text Hcfg Hcl).
  - exact (gen_chain_exact cfg src).
  - exact (gen_ops_exact cfg src).
  - exact (gen_script_reloads cfg src).
  - intros s p tmpl. exact (gen_refuses_dangling_src cfg tmpl src s p).
Qed.
Print Assumptions C06.

(* the generator's own configuration (x, z, t%d) meets the hypotheses *)
Theorem C06_default_cfg : cfg_ok default_cfg /\ cfg_clean default_cfg.
Proof. exact default_cfg_ok. Qed.
Print Assumptions C06_default_cfg.

(* ---- the parts, at the level of syntax trees (any tree, not only parsed ones) ---- *)

(* rendering and reading back is the identity on (temporaries, instructions) for names that can stand
   in a tab-separated field ... *)
Theorem C06_listing_roundtrip : forall q, names_clean q ->
  read_listing (render_listing q) = Some (fst q, map linstr_of (snd q)).
Proof. exact listing_roundtrip. Qed.
Print Assumptions C06_listing_roundtrip.

(* ... which the names the allocator hands out are *)
Theorem C06_allocator_names_clean : forall cfg p lst nmap q ts, cfg_ok cfg -> cfg_clean cfg -> wf_ir p ->
  last_instr p = Some lst -> consistent nmap p -> allocate cfg p = Ok (q, ts) -> names_clean (ts, q).
Proof. exact allocated_names_clean. Qed.
Print Assumptions C06_allocator_names_clean.

(* every accepted script satisfies the hypotheses of C05: its IR has at least one instruction, outputs
   strictly increasing from >= 1, every input is 0 or an earlier output (aliases, repeated operands, `<< 0`
   and a bare final operand included), no index carries two names; and what the allocator's program
   compiles to is what the IR compiles to *)
Theorem C06_prepare_ok_wf : forall cfg s d, prepare cfg s = Ok d ->
  exists p lst nmap, translate s = Ok p /\ wf_ir p /\ nz_shifts p /\ last_instr p = Some lst /\ consistent nmap p /\
    allocate cfg p = Ok (g_prog d, g_temps d) /\ compile p = Ok (g_ops d) /\ evaluate (g_ops d) = Ok (g_chain d).
Proof. exact prepare_ok_wf. Qed.
Print Assumptions C06_prepare_ok_wf.

(* the listing of an allocated program on a plain register file: C05 transported from the name-keyed
   interpreter of acc/eval to the documented reading (reads of unwritten registers are errors here) *)
Theorem C06_allocated_listing : forall cfg p lst nmap x q ts, cfg_ok cfg -> wf_ir p -> last_instr p = Some lst ->
  consistent nmap p -> allocate cfg p = Ok (q, ts) ->
  forall mode, exists r, lexec (canon mode cfg) [(cfg_in cfg, x)] (map linstr_of q) = Ok r /\
    reg_value mode cfg r (cfg_out cfg) = Some (chain_values x p (out_index lst)) /\
    (mode = Separate -> reg_value mode cfg r (cfg_in cfg) = Some x).
Proof. exact allocated_listing. Qed.
Print Assumptions C06_allocated_listing.

(* the value C05 speaks about is the last element of the evaluated chain *)
Theorem C06_chain_values_evaluate : forall p ops ch lst, wf_ir p -> nz_shifts p -> compile p = Ok ops ->
  evaluate ops = Ok ch -> last_instr p = Some lst ->
  last ch 0 = chain_values 1 p (out_index lst) /\ length ch = S (length ops).
Proof. exact chain_values_evaluate. Qed.
Print Assumptions C06_chain_values_evaluate.

Theorem C06_listing : forall cfg s d, cfg_ok cfg -> cfg_clean cfg -> prepare cfg s = Ok d ->
  let l := (g_temps d, map linstr_of (g_prog d)) in
  read_listing (render_listing (g_temps d, g_prog d)) = Some l /\
  g_prog d <> [] /\ uses_only cfg l /\ NoDup (g_temps d) /\
  forall mode, exists r,
    exec_listing mode cfg 1 (read_listing (render_listing (g_temps d, g_prog d))) = Ok r /\
    reg_value mode cfg r (cfg_out cfg) = Some (last (g_chain d) 0) /\
    (mode = Separate -> reg_value mode cfg r (cfg_in cfg) = Some 1).
Proof. exact listing_correct. Qed.
Print Assumptions C06_listing.

(* Data.Chain / Data.Ops are what the loader computes; all four templates render *)
Theorem C06_prepare_loads : forall cfg s d, prepare cfg s = Ok d ->
  exists p, load_tree s = Ok (p, g_ops d, g_chain d) /\ g_script d = s.
Proof. exact prepare_loads. Qed.
Print Assumptions C06_prepare_loads.

Theorem C06_render_total : forall cfg s d, prepare cfg s = Ok d ->
  forall tmpl, In tmpl [$"listing"; $"chain"; $"ops"; $"script"] -> exists out, render tmpl d = Ok out.
Proof. exact render_total. Qed.
Print Assumptions C06_render_total.

(* chain_ops_exact: both line formats can be read back without loss *)
Theorem C06_chain_roundtrip : forall c, read_chain (render_chain c) = Some c.
Proof. exact chain_roundtrip. Qed.
Print Assumptions C06_chain_roundtrip.

Theorem C06_ops_roundtrip : forall c p text, render_ops c p = Ok text -> length c = S (length p) ->
  read_ops text = Some (combine p (tl c)).
Proof. exact ops_roundtrip. Qed.
Print Assumptions C06_ops_roundtrip.

(* script_reloads, for every well-formed tree (C07's round trip is the imported lemma) *)
Theorem C06_script_reloads : forall cfg s d, wf_script s = true -> prepare cfg s = Ok d ->
  render_script (g_script d) = print_script s /\
  exists p, load_m (render_script (g_script d)) = Ok (p, g_ops d, g_chain d).
Proof. exact script_reloads. Qed.
Print Assumptions C06_script_reloads.

(* gen_refuses_dangling: never rendered, and the class is the validation error *)
Theorem C06_gen_refuses_dangling : forall cfg s p, translate s = Ok p -> dangling p ->
  prepare cfg s = Err ($"dangling").
Proof. exact gen_refuses_dangling. Qed.
Print Assumptions C06_gen_refuses_dangling.

(* a script without instructions is refused by the allocator *)
Theorem C06_empty_refused : forall cfg s, translate s = Ok [] -> prepare cfg s = Err ($"empty").
Proof. exact prepare_empty_refused. Qed.
Print Assumptions C06_empty_refused.

(* `addchain gen -type T -out F` run once per script into the same file F (file system: a file holds exactly
   the bytes of the last successful write): F ends up holding the output for the last accepted script -- to
   which C06_full applies -- or what it held before when none was accepted; the exit statuses say which
   scripts were accepted *)
Theorem C06_out_file : forall cfg name srcs file,
  snd (gen_out_history cfg (TType name) file srcs) = last_accepted cfg name srcs file /\
  fst (gen_out_history cfg (TType name) file srcs) = map (fun s => match gen cfg name s with Ok _ => 0%N | _ => 1%N end) srcs.
Proof. exact gen_out_history_last. Qed.
Print Assumptions C06_out_file.

(* ---- non-vacuity ---- *)
(* an accepted script with a doubling, a dead statement, an alias, a shift, `<< 0`, an index operand *)
Definition ex_ok : list N := $"_10 = 2*1
_11 = 1 + _10
dead = _10 + _10
alias = _11
_1100 = alias << 2
return (_1100 << 0) + _11 + [1]".

Example C06_ex_accepts :
  option_map read_listing (match gen default_cfg ($"listing") ex_ok with Ok t => Some t | _ => None end)
  = Some (Some ([$"t0"; $"t1"; $"t2"],
                [LDouble $"t0" $"x"; LAdd $"t1" $"x" $"t0"; LAdd $"t2" $"t0" $"t0"; LShift $"t2" $"t1" 2;
                 LAdd $"t1" $"t1" $"t2"; LAdd $"z" $"t0" $"t1"])) /\
  option_map (fun t => (snd (fst t), snd t)) (match load_m ex_ok with Ok r => Some r | _ => None end)
  = Some ([(0, 0); (0, 1); (1, 1); (2, 2); (4, 4); (2, 5); (1, 6)]%nat, [1; 2; 3; 4; 6; 12; 15; 17]) /\
  option_map read_chain (match gen default_cfg ($"chain") ex_ok with Ok t => Some t | _ => None end)
  = Some (Some [1; 2; 3; 4; 6; 12; 15; 17]) /\
  match run_listing Aliased default_cfg ex_ok, run_listing Separate default_cfg ex_ok with
  | Ok (v, inw, _), Ok (v', inw', _) => v = Some 17 /\ inw = false /\ v' = Some 17 /\ inw' = false
  | _, _ => False
  end.
Proof. vm_compute. repeat split; reflexivity. Qed.

(* finding F7 (fixed): the index operand points into the middle of the shift; the script loads (chain
   1 2 4 8 12) but the generator refuses it *)
Definition ex_dangling : list N := $"a = 1 << 3
return a + [2]".
Example C06_ex_dangling :
  (match parse ex_dangling with Ok s => match translate s with Ok p => dangling p | _ => False end | _ => False end) /\
  gen default_cfg ($"listing") ex_dangling = Err ($"dangling") /\
  option_map (fun t => snd t) (match load_m ex_dangling with Ok r => Some r | _ => None end) = Some [1; 2; 4; 8; 12].
Proof.
  split; [|split; vm_compute; reflexivity].
  vm_compute. exists [{| iout := {| oname := $"a"; oindex := 3 |}; iopn := IShift {| oname := []; oindex := 0 |} 3 |}].
  eexists. exists []. exists 2. repeat split; [left; reflexivity|discriminate|].
  intros [H|[]]. discriminate H.
Qed.

(* finding F8 (fixed): a shift by zero yields no instruction; no instruction at all is refused *)
Example C06_ex_shift0 :
  option_map read_listing (match gen default_cfg ($"listing") ($"x = 1+1
return x << 0") with Ok t => Some t | _ => None end) = Some (Some ([], [LAdd $"z" $"x" $"x"])) /\
  gen default_cfg ($"listing") ($"return 1") = Err ($"empty").
Proof. vm_compute. split; reflexivity. Qed.
