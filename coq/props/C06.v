(* C06 -- generated listings, run literally, compute the script's chain or are refused. *)
From Coq Require Import String.
From Coq Require Import List NArith ZArith Bool.
From AV Require Import model.Proto model.Ir model.Translate model.Alloc model.Gen proofs.GenProofs.
Import ListNotations.
Open Scope Z_scope.

Theorem C06_empty_refused : forall cfg s, translate s = Ok [] -> prepare cfg s = Err ($"empty").
Proof. exact prepare_empty_refused. Qed.
Print Assumptions C06_empty_refused.
