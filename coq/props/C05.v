(* C05 -- allocated programs compute the chain, even when the output aliases the input.
   Only statements, each closed by an exact lemma, with Print Assumptions.

   Vocabulary (proofs/AllocProofs.v, proofs/InterpProofs.v):
     wf_ir p          outputs strictly increasing from >= 1, every input is element 0 or the
                      output of an earlier instruction
     consistent nm p  no index carries two different identifiers before the pass (always true
                      for unnamed programs, e.g. acc.Decompile output)
     cfg_ok cfg       Input, Output non-empty and different, no temporary name equals either,
                      temporary names pairwise different (cfg_ok_intro: holds whenever the
                      temporary prefix is a prefix of neither name)
     chain_values x p the chain: element 0 is x, an instruction defines the element of its output
     L q k            element k is live before the suffix q: read in q, not defined in q *)
From Coq Require Import String.
From Coq Require Import List NArith ZArith Bool.
From AV Require Import model.Proto model.Ir model.Alloc model.Interp proofs.AllocProofs proofs.InterpProofs.
Import ListNotations.
Open Scope Z_scope.

(* The property: allocation succeeds; every operand is named; no instruction writes the input
   variable; in both aliasing modes the interpreter finishes with the last chain element in the
   output variable, and in separate mode the input variable still holds x; the declared
   temporaries are exactly the names used other than Input and Output, without repetition. *)
Theorem C05_exec : forall cfg p lst nmap x,
  cfg_ok cfg -> wf_ir p -> last_instr p = Some lst -> consistent nmap p ->
  exists q temporaries, allocate cfg p = Ok (q, temporaries) /\
    (forall i o, In i q -> In o (operands i) -> oname o <> []) /\
    (forall i, In i q -> oname (iout i) <> cfg_in cfg) /\
    (forall mode, exists m, run_interp mode (cfg_in cfg) (cfg_out cfg) x q = Ok m /\
        value_of m (cfg_out cfg) = Some (chain_values x p (out_index lst)) /\
        (mode = Separate -> value_of m (cfg_in cfg) = Some x)) /\
    (forall n, In n temporaries <->
        (exists i o, In i q /\ In o (operands i) /\ oname o = n) /\ n <> cfg_in cfg /\ n <> cfg_out cfg) /\
    NoDup temporaries.
Proof. exact allocated_exec. Qed.
Print Assumptions C05_exec.

(* Clone histories.  ir.Program.Clone copies the instructions (with whatever identifiers they
   carry) and no pass results, so a clone is the program value itself: passes that ran on the
   original only matter through the identifiers they left.  If the original was allocated under
   configuration A, allocating its clone under B yields the whole property again for B, with the
   chain of the original program: the allocation of a clone does not depend on what ran on the
   original.  The same statement covers running the allocator again on one object: qA is the value
   of the object after the run under A, and the next run under B (identifiers cleared, temporaries
   list started afresh) is allocate cfgB qA.  (For a clone of a program no allocator ran on,
   C05_exec applies directly.) *)
Theorem C05_clone_history : forall cfgA cfgB p lst nmap x qA tA,
  cfg_ok cfgB -> wf_ir p -> last_instr p = Some lst -> consistent nmap p ->
  allocate cfgA p = Ok (qA, tA) ->
  exists q temporaries, allocate cfgB qA = Ok (q, temporaries) /\
    (forall i o, In i q -> In o (operands i) -> oname o <> []) /\
    (forall i, In i q -> oname (iout i) <> cfg_in cfgB) /\
    (forall mode, exists m, run_interp mode (cfg_in cfgB) (cfg_out cfgB) x q = Ok m /\
        value_of m (cfg_out cfgB) = Some (chain_values x p (out_index lst)) /\
        (mode = Separate -> value_of m (cfg_in cfgB) = Some x)) /\
    (forall n, In n temporaries <->
        (exists i o, In i q /\ In o (operands i) /\ oname o = n) /\ n <> cfg_in cfgB /\ n <> cfg_out cfgB) /\
    NoDup temporaries.
Proof. exact allocated_again. Qed.
Print Assumptions C05_clone_history.

(* "at least one instruction" is exactly the hypothesis last_instr p = Some _ *)
Theorem C05_nonempty_has_last : forall p : iprogram, p <> [] -> exists lst, last_instr p = Some lst.
Proof. exact last_instr_some. Qed.
Print Assumptions C05_nonempty_has_last.

(* chain_values is the chain: element 0 is x and every instruction's output is its operation
   applied to the chain values of its inputs *)
Theorem C05_chain_values_zero : forall x p, wf_ir p -> chain_values x p 0 = x.
Proof.
  intros x p H. apply chain_values_zero. intros H0. pose proof (wf_ir_outs_pos p 0 H H0) as Hlt. revert Hlt. apply Z.lt_irrefl.
Qed.
Print Assumptions C05_chain_values_zero.

Theorem C05_chain_values_def : forall x pre i q, wf (pre ++ i :: q) ->
  chain_values x (pre ++ i :: q) (out_index i) = op_value (chain_values x (pre ++ i :: q)) (iopn i).
Proof. exact chain_values_def. Qed.
Print Assumptions C05_chain_values_def.

(* reverse scan: two distinct values live before the same instruction never share a variable *)
Theorem C05_alloc_sound : forall pre q i j, wf (pre ++ q) -> L q i -> L q j -> i <> j ->
  exists vi vj, zlookup i (variable (scan (pre ++ q))) = Some vi /\
                zlookup j (variable (scan (pre ++ q))) = Some vj /\ vi <> vj.
Proof. exact alloc_sound. Qed.
Print Assumptions C05_alloc_sound.

(* the variable of an instruction's output conflicts with nothing live after it, even when the output is dead *)
Theorem C05_out_conflict : forall i rest k, wf (i :: rest) -> L rest k -> k <> out_index i ->
  exists vk vo, zlookup k (variable (scan (i :: rest))) = Some vk /\
                zlookup (out_index i) (variable (scan (i :: rest))) = Some vo /\ vk <> vo.
Proof. exact out_conflict. Qed.
Print Assumptions C05_out_conflict.

(* naming: distinct variables get distinct names, whatever state the naming loop is in *)
Theorem C05_naming_sound : forall cfg, cfg_ok cfg -> forall lir outv a done s, NInv cfg lir outv a done s ->
  forall j k, In j done -> In k done -> V a j <> V a k ->
  nm_of cfg lir outv a (vname s) j <> nm_of cfg lir outv a (vname s) k.
Proof. exact naming_sound. Qed.
Print Assumptions C05_naming_sound.

(* the hypotheses on the configuration are met by every configuration whose literal text before
   the verb is a prefix of neither variable name; the rendering of the counter is injective for
   every format of the modelled language (all verbs, zero/space padding, any width) *)
Theorem C05_cfg_ok_intro : forall cfg, cfg_in cfg <> [] -> cfg_out cfg <> [] -> cfg_in cfg <> cfg_out cfg ->
  is_prefix (cfg_prefix cfg) (cfg_in cfg) = false -> is_prefix (cfg_prefix cfg) (cfg_out cfg) = false ->
  cfg_ok cfg.
Proof. exact cfg_ok_intro. Qed.
Print Assumptions C05_cfg_ok_intro.

Theorem C05_format_injective : forall cfg n m, tmpname cfg n = tmpname cfg m -> n = m.
Proof. exact tmpname_inj. Qed.
Print Assumptions C05_format_injective.

(* a program without instructions is refused *)
Theorem C05_empty_refused : forall cfg, allocate cfg [] = Err ($"empty").
Proof. reflexivity. Qed.
Print Assumptions C05_empty_refused.

(* ---- non-vacuity: the hypotheses hold for a program with adds, a double, a shift, a dead
   value (element 3) and a repeated operand, and the conclusion is what the model computes *)
Definition ix (k : Z) : operand := index_operand k.
Definition ex_prog : iprogram :=
  [ mkInstr (ix 1) (IAdd (ix 0) (ix 0));
    mkInstr (ix 2) (IAdd (ix 1) (ix 0));
    mkInstr (ix 3) (IDouble (ix 0));
    mkInstr (ix 6) (IShift (ix 2) 3);
    mkInstr (ix 7) (IAdd (ix 6) (ix 1)) ].
Definition ex_cfg : alloc_cfg := mkCfg ($"x") ($"z") ($"t").

Example C05_ex_cfg_ok : cfg_ok ex_cfg.
Proof. apply cfg_ok_intro; try discriminate; reflexivity. Qed.

(* a configuration with a zero-padded binary counter and text after it: x%03b_ *)
Definition ex_cfg2 : alloc_cfg := mkCfgF ($"in") ($"out") (mkFmt ($"x") VBin true 3 ($"_")).
Example C05_ex_cfg2_ok : cfg_ok ex_cfg2 /\ tmpname ex_cfg2 5 = $"x101_" /\ tmpname ex_cfg2 1 = $"x001_".
Proof. split; [apply cfg_ok_intro; try discriminate; reflexivity|split; reflexivity]. Qed.

Example C05_ex_wf : wf_ir ex_prog.
Proof. unfold wf_ir, ex_prog. cbn. intuition (try discriminate; try reflexivity; auto). Qed.

Example C05_ex_consistent : consistent (fun _ => []) ex_prog.
Proof. intros o Ho. left. cbn in Ho. intuition (subst; reflexivity). Qed.

Example C05_ex_runs :
  (* chain 1 2 3 [2] 24 26: the output variable ends with 26; three temporaries are declared *)
  option_map (fun m => value_of m ($"z"))
    (match allocate ex_cfg ex_prog with Ok (q, _) =>
       match run_interp Aliased ($"x") ($"z") 1 q with Ok m => Some m | _ => None end | _ => None end)
  = Some (Some 26)
  /\ chain_values 1 ex_prog 7 = 26
  /\ option_map snd (match allocate ex_cfg ex_prog with Ok r => Some r | _ => None end) = Some [$"t0"; $"t1"; $"t2"].
Proof. vm_compute. repeat split. Qed.
