(* C05 placeholder while the proofs are being built. *)
From Coq Require Import String.
From Coq Require Import List NArith ZArith Bool.
From AV Require Import model.Proto model.Ir model.Alloc model.Interp.
Import ListNotations.

Theorem C05_empty_refused : forall cfg, allocate cfg [] = Err ($"empty").
Proof. reflexivity. Qed.
Print Assumptions C05_empty_refused.
