(* C08 placeholder: replaced by the real statements. *)
From Coq Require Import List ZArith.
From AV Require Import model.Proto model.Heuristic model.Contfrac.
Import ListNotations.
Open Scope Z_scope.

Theorem C08_example : find_sequence_alg (SAContfrac Binary) [5; 5] = Ok [1; 2; 4; 5].
Proof. vm_compute. reflexivity. Qed.
Print Assumptions C08_example.
