(* C08 — addition-sequence algorithms return a valid chain containing every target.
   Only statements, each closed by an exact lemma, with Print Assumptions.
   is_chain / asc are the specification predicates of model/Chain.v; find_sequence_alg is the entry
   point the correspondence check runs (heuristic.Algorithm.FindSequence / contfrac.Algorithm.FindSequence). *)
From Coq Require Import List ZArith Bool Sorted Permutation.
From AV Require Import model.Proto model.Lists model.Chain model.Heuristic model.Contfrac.
From AV Require Import proofs.SeqAux proofs.HeuristicProofs proofs.ContfracProofs.
Import ListNotations.
Open Scope Z_scope.

(* ---- main statements, on the entry point (adequate fuel included) ---- *)

(* every configuration that contains a total heuristic (delta_largest, approximation) and every
   continued-fraction strategy: for every non-empty list of positive targets, in any order, with
   repeats, with or without 1 and 2, the result is Ok c (no error, no panic, not out of fuel) with c a
   valid ascending addition chain that contains every target and nothing above the largest target
   (except the leader 2) *)
Theorem C08_total_configurations : forall a, seqalg_total a = true ->
  forall ts, ts <> [] -> (forall t, In t ts -> 0 < t) ->
  exists c, find_sequence_alg a ts = Ok c /\ is_chain c /\ asc c /\ (forall t, In t ts -> In t c) /\
            (forall x, In x c -> x <= 2 \/ exists t, In t ts /\ x <= t).
Proof. exact find_sequence_alg_total. Qed.
Print Assumptions C08_total_configurations.

(* every configuration, total or not (halving alone, use_first() ...): the only failure is the
   "no sequence" error, and only without a total heuristic; never an invalid or incomplete chain *)
Theorem C08_any_configuration : forall a ts, ts <> [] -> (forall t, In t ts -> 0 < t) ->
  match find_sequence_alg a ts with
  | Ok c => is_chain c /\ asc c /\ (forall t, In t ts -> In t c) /\
            (forall x, In x c -> x <= 2 \/ exists t, In t ts /\ x <= t)
  | Err e => e = noseq /\ seqalg_total a = false
  | _ => False
  end.
Proof. exact find_sequence_alg_sound. Qed.
Print Assumptions C08_any_configuration.

(* the caller's slice after the call holds the same values (contfrac sorts it in place) *)
Theorem C08_target_values : forall a ts, Permutation (targets_after a ts) ts.
Proof. exact targets_after_perm. Qed.
Print Assumptions C08_target_values.

(* the configurations named by the property are total; halving alone is not *)
Example C08_configurations :
  map seqalg_total seqalgs = [true; true; true; true; false; true; true; true; true; true; true; true].
Proof. vm_compute. reflexivity. Qed.

(* ---- heuristics: the contract of Suggest and its instances ---- *)
Theorem C08_halving_good : good_suggest Halving.
Proof. exact halving_good. Qed.
Print Assumptions C08_halving_good.

Theorem C08_delta_good_total : good_suggest DeltaLargest /\ total DeltaLargest.
Proof. exact (conj delta_good delta_total). Qed.
Print Assumptions C08_delta_good_total.

Theorem C08_approx_good_total : good_suggest Approximation /\ total Approximation.
Proof. exact (conj approx_good approx_total). Qed.
Print Assumptions C08_approx_good_total.

Theorem C08_usefirst_good : forall hs, Forall good_suggest hs -> good_suggest (UseFirst hs).
Proof. exact usefirst_good. Qed.
Print Assumptions C08_usefirst_good.

Theorem C08_usefirst_total : forall hs, Exists total hs -> total (UseFirst hs).
Proof. exact usefirst_total. Qed.
Print Assumptions C08_usefirst_total.

Theorem C08_every_heuristic_good : forall h, good_suggest h.
Proof. exact heur_good. Qed.
Print Assumptions C08_every_heuristic_good.

Theorem C08_halving_partial : ~ total Halving.
Proof. exact halving_not_total. Qed.
Print Assumptions C08_halving_partial.

(* a nested use_first is first-success over its leaves in order: splicing changes nothing *)
Theorem C08_usefirst_nested : forall h f t, suggest h f t = suggest (UseFirst (leaves h)) f t.
Proof. exact suggest_leaves. Qed.
Print Assumptions C08_usefirst_nested.

Theorem C08_find_sequence_flatten : forall h fuel ts,
  find_sequence h fuel ts = find_sequence (UseFirst (leaves h)) fuel ts.
Proof. exact find_sequence_flatten. Qed.
Print Assumptions C08_find_sequence_flatten.

Example C08_ex_nested :
  leaves (UseFirst [UseFirst [Halving]; UseFirst []; UseFirst [UseFirst [DeltaLargest]; Approximation]])
    = [Halving; DeltaLargest; Approximation]
  /\ find_sequence_alg (SAHeuristic [UseFirst [UseFirst [Halving]; DeltaLargest]]) [3] = Ok [1; 2; 3]
  /\ is_total (UseFirst [UseFirst [Halving]; DeltaLargest]) = true.
Proof. vm_compute. repeat split. Qed.

(* the Bos-Coster loop for any heuristic meeting the contract, any fuel: Ok means a chain with every
   target; the error means the heuristic is not total; out of fuel only below the largest target *)
Theorem C08_find_sequence_ok : forall h, good_suggest h -> forall ts, (forall t, In t ts -> 0 < t) ->
  forall fuel,
  match find_sequence h fuel ts with
  | Ok c => is_chain c /\ asc c /\ (forall t, In t ts -> In t c) /\
            (forall x, In x c -> x <= 2 \/ exists t, In t ts /\ x <= t)
  | Err e => e = noseq /\ ~ total h
  | Panic _ => False
  | OutOfFuel => Z.of_nat fuel <= last (init_proto ts) 0 - 2
  end.
Proof. exact find_sequence_ok. Qed.
Print Assumptions C08_find_sequence_ok.

Theorem C08_find_sequence_terminates : forall h, good_suggest h -> forall ts, (forall t, In t ts -> 0 < t) ->
  exists f0, forall fuel, (f0 <= fuel)%nat -> find_sequence h fuel ts <> OutOfFuel.
Proof. exact find_sequence_terminates. Qed.
Print Assumptions C08_find_sequence_terminates.

(* the entry point runs the same loop with 2^bitlen(max) iterations allowed *)
Theorem C08_entry_fuel_heuristic : forall h ts, find_sequence_go h ts = find_sequence h (2 ^ iter_bits ts) ts.
Proof. exact find_sequence_go_eq. Qed.
Print Assumptions C08_entry_fuel_heuristic.

(* ---- continued fractions ---- *)
(* every strategy, on every n that can reach it (n >= 5: not a power of two, not 3), proposes a
   non-empty list of k with 2 <= k < n, and does not fail *)
Theorem C08_good_K : forall s n, 5 <= n ->
  exists ks, strategy_K s n = Ok ks /\ ks <> [] /\ forall k, In k ks -> 2 <= k < n.
Proof. exact all_good_K. Qed.
Print Assumptions C08_good_K.

(* chain(ns) for sorted positive ns: terminates (the depth measure of DESIGN 5.C08) with a chain that
   ends at the largest value and contains every value *)
Theorem C08_cf_chain_ok : forall s, good_K s -> forall ns, ns <> [] -> StronglySorted Z.le ns ->
  (forall x, In x ns -> 0 < x) ->
  exists f0, forall fuel, (f0 <= fuel)%nat ->
  exists c, cf_chain s fuel ns = Ok c /\ is_chain c /\ asc c /\ last c 0 = last ns 0 /\ forall t, In t ns -> In t c.
Proof. exact cf_chain_ok_sorted. Qed.
Print Assumptions C08_cf_chain_ok.

Theorem C08_entry_fuel_contfrac : forall s ts,
  cf_find_sequence_go s ts = cf_find_sequence s (2 ^ cf_depth_bits ts) ts.
Proof. exact cf_find_sequence_go_eq. Qed.
Print Assumptions C08_entry_fuel_contfrac.

(* ---- non-vacuity ---- *)
Example C08_ex_heuristic :
  find_sequence_alg (SAHeuristic [Halving; DeltaLargest]) [117; 47; 47; 1; 343] =
    Ok [1; 2; 3; 4; 7; 11; 22; 44; 47; 54; 58; 116; 117; 171; 342; 343]
  /\ find_sequence_alg (SAHeuristic [Halving]) [117; 47] = Err noseq
  /\ find_sequence_alg (SAHeuristic [Halving]) [64; 4] = Ok [1; 2; 4; 8; 16; 32; 64].
Proof. vm_compute. repeat split. Qed.

Example C08_ex_contfrac :
  map (fun s => find_sequence_alg (SAContfrac s) [7; 5; 5; 2]) strategies =
    [Ok [1; 2; 4; 5; 7]; Ok [1; 2; 4; 5; 7]; Ok [1; 2; 4; 5; 7]; Ok [1; 2; 4; 5; 7];
     Ok [1; 2; 4; 5; 7]; Ok [1; 2; 4; 5; 7]; Ok [1; 2; 4; 5; 7]]
  /\ targets_after (SAContfrac Binary) [7; 5; 5; 2] = [2; 5; 5; 7].
Proof. vm_compute. repeat split. Qed.

Example C08_ex_good_pre : good_pre [1; 2; 5; 9] 23 /\ suggest Halving [1; 2; 5; 9] 23 = Ok (Some [1; 11; 22]).
Proof.
  split; [|vm_compute; reflexivity].
  split; [simpl; repeat split; intros y Hy; simpl in Hy; intuition; subst; reflexivity|].
  split; [simpl; auto|]. split; [simpl; auto|].
  intros y Hy. simpl in Hy. intuition; subst; split; reflexivity.
Qed.
