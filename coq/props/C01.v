(* C01 — every search algorithm returns a genuine addition chain ending at the target.
   Only statements, each closed by an exact lemma, with Print Assumptions.

   is_chain (model/Chain.v) is the definition of an addition chain: first element 1, no repeated
   value, no zero, every later element the sum of two (possibly equal) earlier elements.
   execute a n orc (model/Ensemble.v) is exec.Execute(n, a): FindChain, Program, end check.
   orc is the sort oracle (DESIGN 3.5): None = stable sort; Some o = the order Go's unstable
   sort.Slice left in dict.primitive, observed by the harness; the model refuses an o that is not a
   permutation of its own rebuilt sum with non-decreasing exponents with Err "sortoracle", so every
   statement below holds FOR EVERY orc, with that refusal as the only alternative outcome.
   "The target is unchanged" and "the same chain on every run" are not statements about the model (it is
   a function of immutable values); the harness oracle checks them on the Go code for every case. *)
From Coq Require Import String.
From Coq Require Import List NArith ZArith Bool.
From AV Require Import model.Proto model.Bits model.Lists model.Chain model.Program
  model.Heuristic model.Contfrac model.Decomp model.Opt model.Runs model.Binary model.Dict model.Ensemble
  proofs.C01Aux proofs.BinaryProofs proofs.DictProofs proofs.PrimitiveProofs proofs.ContfracProofs
  proofs.EnsembleProofs proofs.EnsembleBounds.
From AV Require proofs.DecompProofs.
Import ListNotations.
Open Scope Z_scope.

(* ---- what a faultless Execute result is ---- *)
Definition good_result (n : Z) (r : result) : Prop :=
  res_err r = None /\ is_chain (res_chain r) /\ last (res_chain r) 0 = n /\
  length (res_program r) = (length (res_chain r) - 1)%nat /\
  evaluate (res_program r) = Ok (res_chain r).

(* ---- the full statement ---- *)
(* every ensemble member, every n >= 1 (whose bit length fits a machine word), every sort oracle:
   Execute reports no error and a genuine chain ending at n with its program — or the model refuses
   the observed order (impossible with orc = None) *)
Definition C01_at (a : alg_cfg) : Prop :=
  forall n orc, 1 <= n -> Z.of_N (bitlen n) < 2 ^ 64 ->
  (exists r, execute a n orc = Ok r /\ good_result n r) \/
  (orc <> None /\ execute a n orc = Ok (mkResult (Some ($"sortoracle")) [] [])).
Definition C01_full : Prop := forall a, In a ensemble -> C01_at a.

(* ---- L0: Execute never reports a wrong chain, for ANY configuration (present or future) ---- *)
Theorem C01_execute_sound : forall a n orc r,
  execute a n orc = Ok r -> res_err r = None ->
  is_chain (res_chain r) /\ last (res_chain r) 0 = n /\
  length (res_program r) = (length (res_chain r) - 1)%nat /\
  evaluate (res_program r) = Ok (res_chain r).
Proof. exact execute_sound. Qed.
Print Assumptions C01_execute_sound.

(* ... and no successful result is shorter than the doubling bound: at least log2_up n operations *)
Theorem C01_result_ops_lower_bound : forall a n orc r,
  execute a n orc = Ok r -> res_err r = None ->
  Z.log2_up n <= Z.of_nat (length (res_program r)).
Proof. exact execute_ops_lower_bound. Qed.
Print Assumptions C01_result_ops_lower_bound.

(* ---- L1: the binary method, unconditionally ---- *)
Theorem C01_rtl_ok : forall n, 1 <= n ->
  exists c, rtl_binary n = Ok c /\ is_chain c /\ asc c /\ last c 0 = n.
Proof. exact rtl_ok. Qed.
Print Assumptions C01_rtl_ok.

(* the property for binary_right_to_left and opt(binary_right_to_left): full, no hypotheses *)
Theorem C01_binary : forall a, a = ABinary \/ a = AOpt ABinary -> forall n orc, 1 <= n ->
  exists r, execute a n orc = Ok r /\ good_result n r.
Proof. exact binary_execute. Qed.
Print Assumptions C01_binary.

(* ---- L2: building the target out of the dictionary ---- *)
(* closed_set l: 1 is in l, all members >= 1, every member other than 1 is a sum of two members *)
Theorem C01_dictsumchain_ok : forall sum c0,
  sum <> [] -> nondecreasing_e sum = true -> closed_set c0 -> (forall t, In t sum -> In (fst t) c0) ->
  exists dc, dictsumchain sum = Ok dc /\ closed_set (c0 ++ dc) /\ In (sum_int sum) (c0 ++ dc) /\
             (forall y, In y dc -> y <= sum_int sum) /\ (dc <> [] -> last dc 0 = sum_int sum) /\
             (forall t, In t sum -> fst t <= sum_int sum).
Proof. exact dictsumchain_ok. Qed.
Print Assumptions C01_dictsumchain_ok.

Theorem C01_sort_unique_chain : forall l, closed_set l ->
  is_chain (unique (sort l)) /\ asc (unique (sort l)).
Proof. exact sort_unique_chain. Qed.
Print Assumptions C01_sort_unique_chain.

(* ---- L3: primitive ---- *)
(* primitive_post sum c (sum', c'): same value, exponents non-decreasing, non-empty, c' a valid chain
   containing every D of sum', c' a sub-collection of c *)
Theorem C01_primitive_ok : forall sum c order,
  is_chain c -> sum <> [] -> nondecreasing_e sum = true -> (forall t, In t sum -> In (fst t) c) ->
  (exists r, primitive sum c order = Ok r /\
     sum_int (fst r) = sum_int sum /\ nondecreasing_e (fst r) = true /\ fst r <> [] /\
     is_chain (snd r) /\ (forall t, In t (fst r) -> In (fst t) (snd r)) /\ (forall x, In x (snd r) -> In x c)) \/
  (exists o, order = Some o /\ primitive sum c order = Err ($"sortoracle")).
Proof. exact primitive_ok. Qed.
Print Assumptions C01_primitive_ok.

(* the "reconstruction does not match" error is dead code on valid inputs; no panic either *)
Theorem C01_primitive_never_reconstruct : forall sum c order,
  is_chain c -> sum <> [] -> nondecreasing_e sum = true -> (forall t, In t sum -> In (fst t) c) ->
  primitive sum c order <> Err ($"reconstruct") /\ (forall e, primitive sum c order <> Panic e) /\
  primitive sum c order <> OutOfFuel.
Proof. exact primitive_never_reconstruct. Qed.
Print Assumptions C01_primitive_never_reconstruct.

(* ---- L4: the dictionary and runs algorithms, given their two ingredients ----
   decomp_ok m  (interface to C09): for x >= 1, decompose m x = Ok s with Sum.Int s = x and every D >= 1
   seqalg_ok s  (interface to C08): find_sequence_alg s [1] = Ok [1], and for non-empty positive targets
                find_sequence_alg s ts = Ok c with c a valid chain containing every target in which every
                element is <= 2 or <= some target; discharged below for every configuration C08 proves total
   runlength_ones (C09): every D of RunLength{0}.Decompose is 2^l - 1 *)
Theorem C01_dict_alg_ok : forall m s, decomp_ok m -> seqalg_ok s -> forall n orc, 1 <= n ->
  (exists c, dict_find_chain m s n orc = Ok c /\ is_chain c /\ asc c /\ last c 0 = n) \/
  (orc <> None /\ dict_find_chain m s n orc = Err ($"sortoracle")).
Proof. exact dict_alg_ok. Qed.
Print Assumptions C01_dict_alg_ok.

Theorem C01_runs_alg_ok : forall s, decomp_ok (RunLength 0) -> runlength_ones -> seqalg_ok s ->
  forall n orc, 1 <= n -> Z.of_N (bitlen n) < 2 ^ 64 ->
  (exists c, runs_find_chain s n orc = Ok c /\ is_chain c /\ asc c /\ last c 0 = n) \/
  (orc <> None /\ runs_find_chain s n orc = Err ($"sortoracle")).
Proof. exact runs_alg_ok. Qed.
Print Assumptions C01_runs_alg_ok.

(* ---- L5: the optimisation wrapper ---- *)
Theorem C01_opt_ok : forall a n orc, find_chain_ok a n orc -> find_chain_ok (AOpt a) n orc.
Proof. exact opt_ok. Qed.
Print Assumptions C01_opt_ok.

(* ---- composition: every configuration, by structure ---- *)
(* cfg_hyps a collects decomp_ok / seqalg_ok / runlength_ones / seqalg_asc for the parts of a *)
Theorem C01_any_configuration : forall a, cfg_hyps a -> C01_at a.
Proof. exact any_configuration. Qed.
Print Assumptions C01_any_configuration.

(* ---- the C08 interface holds for every configuration C08 proves total (seqalg_total, computable):
   every continued-fraction strategy and every heuristic composition containing delta_largest or
   approximation ---- *)
Theorem C01_seqalg_interface : forall s, seqalg_total s = true -> seqalg_ok s /\ seqalg_asc s.
Proof. exact seqalg_total_ok. Qed.
Print Assumptions C01_seqalg_interface.

(* ---- the property for every configuration of its list ----
   cfg_valid a: a is built from binary, dictionary(m, s) with K >= 1 in m, runs(s), s itself as a chain
   algorithm, where s is any sequence algorithm with seqalg_total s = true (every continued-fraction
   strategy; every heuristic composition containing delta_largest or approximation), under any
   nesting of opt(...) *)
Theorem C01_every_configuration : forall a, cfg_valid a -> C01_at a.
Proof. exact every_configuration. Qed.
Print Assumptions C01_every_configuration.

(* with the stable sort as oracle there is no alternative outcome *)
Theorem C01_every_configuration_stable : forall a, cfg_valid a ->
  forall n, 1 <= n -> Z.of_N (bitlen n) < 2 ^ 64 ->
  exists r, execute a n None = Ok r /\ good_result n r.
Proof. exact every_configuration_stable. Qed.
Print Assumptions C01_every_configuration_stable.

(* ---- the ensemble: the full statement ---- *)
Theorem C01_ensemble : C01_full.
Proof. exact ensemble_ok. Qed.
Print Assumptions C01_ensemble.

(* the ensemble as data (also compared with ensemble.Ensemble() by the dumpconfig case) *)
Theorem C01_ensemble_shape : length ensemble = 200%nat /\
  forall a, In a ensemble ->
    (exists m s, a = AOpt (ADict m s) /\ In m ensemble_decomposers /\ In s ensemble_seqalgs) \/
    (exists s, a = AOpt (ARuns s) /\ In s ensemble_seqalgs).
Proof. exact ensemble_shape. Qed.
Print Assumptions C01_ensemble_shape.

(* ---- non-vacuity ---- *)
Definition ex_alg : alg_cfg := AOpt (ADict (Hybrid 3 16) (SAHeuristic [Halving; Approximation])).
Example C01_ex_member : In ex_alg ensemble.
Proof. vm_compute. tauto. Qed.
(* a 43-bit target with three long runs: the model returns an error-free result, and L0 applies to it *)
Example C01_ex_execute : exists r, execute ex_alg 0x7ffe00ffc7f None = Ok r /\ good_result 0x7ffe00ffc7f r.
Proof.
  destruct (execute ex_alg 0x7ffe00ffc7f None) as [r| | |] eqn:E; [|vm_compute in E; discriminate..].
  exists r. split; [reflexivity|].
  assert (He : res_err r = None) by (vm_compute in E; injection E as <-; reflexivity).
  split; [exact He|]. exact (C01_execute_sound _ _ _ _ E He).
Qed.
(* hypotheses of L2/L3 on a concrete object: the chain 1,2,3,6,7 and the sum 7*2^0 + 3*2^5 + 7*2^5 + 1*2^9;
   primitive rewrites it (7 is read only twice...) and keeps its value 839 *)
Example C01_ex_primitive :
  is_chain [1; 2; 3; 6; 7] /\ nondecreasing_e [(7, 0%N); (3, 5%N); (7, 5%N); (1, 9%N)] = true /\
  exists s' c', primitive [(7, 0%N); (3, 5%N); (7, 5%N); (1, 9%N)] [1; 2; 3; 6; 7] None = Ok (s', c') /\
                sum_int s' = 839 /\ is_chain c'.
Proof.
  split; [apply ChainProofs.validate_iff; vm_compute; reflexivity|]. split; [reflexivity|].
  eexists _, _. split; [vm_compute; reflexivity|]. split; [vm_compute; reflexivity|].
  apply ChainProofs.validate_iff. vm_compute. reflexivity.
Qed.
(* the interface hypotheses are met on concrete inputs by the ensemble's ingredients *)
Example C01_ex_interfaces :
  (exists s, decompose (Hybrid 3 16) 0x7ffe00ffc7f%N = Ok s /\ Decomp.sum_int s = 0x7ffe00ffc7f%N) /\
  (exists c, find_sequence_alg (SAHeuristic [Halving; Approximation]) [1; 7; 127; 1023; 16383] = Ok c /\
             is_chain c /\ last c 0 = 16383).
Proof.
  split.
  - eexists. split; [vm_compute; reflexivity|vm_compute; reflexivity].
  - eexists. split; [vm_compute; reflexivity|]. split; [apply ChainProofs.validate_iff; vm_compute; reflexivity|reflexivity].
Qed.
