(* C01 placeholder: replaced by the real statements. *)
From Coq Require Import List ZArith.
From AV Require Import model.Proto model.Binary.
Import ListNotations.
Open Scope Z_scope.

Theorem C01_example : rtl_binary 11 = Ok [1; 2; 3; 4; 8; 11].
Proof. vm_compute. reflexivity. Qed.
Print Assumptions C01_example.
