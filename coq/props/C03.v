(* C03 -- loading a script yields the chain defined by the published grammar and semantics.
   Only statements, each closed by an exact lemma, with Print Assumptions.

   "The syntax tree that the published grammar assigns" is the PEG reading of acc.peg; model/Peg.v is that
   reading made executable (tied to the generated parser by the exhaustive token-sequence correspondence).
   `denote` (model/Translate.v) is the in-order semantics read directly off the tree. *)
From Coq Require Import String.
From Coq Require Import List NArith ZArith Bool.
From AV Require Import model.Proto model.Chain model.Ast model.Ir model.Printer model.Peg model.Translate.
From AV Require Import proofs.TranslateProofs proofs.PegFuel.
Import ListNotations.
Open Scope Z_scope.

(* For all trees (any nesting, any names, several unnamed statements, shifts by 0 included) whose total
   number of chain elements stays below 2^63 (otherwise Go's int counter would wrap; such a chain cannot
   be materialised anyway): Translate + Compile + Evaluate accept exactly the scripts that the in-order
   semantics accepts, and then return the denoted chain and program; otherwise they return an error --
   never a panic.  Which error class is reported is NOT part of the statement and would be false:
   Translate resolves every name before Compile checks any bound, so `return [9] + 1 + zz` is "undefined"
   for the code and an operation on a future index in order of evaluation. *)
Theorem C03_load_refines : forall c, script_cost c < 2 ^ 63 ->
  match denote c with
  | Ok (vs, ops) => exists ir, load_tree c = Ok (ir, ops, vs)
  | Err _ => exists cls, load_tree c = Err cls
  | _ => False
  end.
Proof. exact load_refines. Qed.
Print Assumptions C03_load_refines.

(* the converse direction, for readability: what the code accepts is what the script denotes *)
Theorem C03_loaded_denoted : forall c ir ops vs, script_cost c < 2 ^ 63 ->
  load_tree c = Ok (ir, ops, vs) -> denote c = Ok (vs, ops).
Proof. exact loaded_denoted. Qed.
Print Assumptions C03_loaded_denoted.

(* rejection classes of the in-order semantics are rejected by the code, with no chain produced *)
Theorem C03_reject_undefined : forall c, script_cost c < 2 ^ 63 -> denote c = Err ($"undefined") ->
  exists cls, load_tree c = Err cls.
Proof. intros c H. exact (reject_denoted c _ H). Qed.
Print Assumptions C03_reject_undefined.

Theorem C03_reject_redefine : forall c, script_cost c < 2 ^ 63 -> denote c = Err ($"redefine") ->
  exists cls, load_tree c = Err cls.
Proof. intros c H. exact (reject_denoted c _ H). Qed.
Print Assumptions C03_reject_redefine.

Theorem C03_reject_future_index : forall c, script_cost c < 2 ^ 63 -> denote c = Err ($"future") ->
  exists cls, load_tree c = Err cls.
Proof. intros c H. exact (reject_denoted c _ H). Qed.
Print Assumptions C03_reject_future_index.

(* source level (acc.LoadString): a text outside the grammar is an error; a text inside it loads to what its
   tree denotes *)
Theorem C03_load_string : forall src,
  match parse src with
  | Ok c => script_cost c < 2 ^ 63 ->
            match denote c with
            | Ok (vs, ops) => exists ir, load_m src = Ok (ir, ops, vs)
            | Err _ => exists cls, load_m src = Err cls
            | _ => False
            end
  | Err cls => load_m src = Err cls
  | Panic _ => False
  | OutOfFuel => load_m src = OutOfFuel
  end.
Proof. exact load_m_spec. Qed.
Print Assumptions C03_load_string.

(* the parser model never runs out of fuel: no result is an artefact of truncation *)
Theorem C03_parse_fuel_adequate : forall s, parse s <> OutOfFuel.
Proof. exact parse_fuel_adequate. Qed.
Print Assumptions C03_parse_fuel_adequate.

(* ... and any larger fuel gives the same answer as the fuel the entry point passes *)
Theorem C03_parse_fuel_mono : forall s f, (S (length s) <= f)%nat -> p_chain f s = p_chain (S (length s)) s.
Proof. exact p_chain_fuel_mono. Qed.
Print Assumptions C03_parse_fuel_mono.

(* ---- non-vacuity and the rejection classes on concrete scripts ---- *)
Example C03_accepts :
  match load_m $"_10 = 2*1
_11 = 1 + _10
_1100 = _11 << 2
return _1100 + _11" with
  | Ok (_, ops, ch) => ch = [1; 2; 3; 6; 12; 15] /\ ops = [(0, 0); (0, 1); (2, 2); (3, 3); (2, 4)]%nat
  | _ => False
  end.
Proof. vm_compute. split; reflexivity. Qed.

Definition tree_of (src : list N) : script := match parse src with Ok c => c | _ => [] end.
(* the size hypothesis of the refinement theorems on a concrete script: 1 + 3 shifts + 2 additions *)
Example C03_cost : script_cost (tree_of $"a = 1 << 3
return a + [2] + (a << 0)") = 6.
Proof. vm_compute. reflexivity. Qed.
Example C03_denote_accepts :
  denote (tree_of $"a = 1 << 3
return a + [2] + (a << 0)") = Ok ([1; 2; 4; 8; 12; 20], [(0, 0); (1, 1); (2, 2); (2, 3); (3, 4)]%nat).
Proof. vm_compute. reflexivity. Qed.
Example C03_class_undefined : denote (tree_of $"a = 1 + 1
return a + b") = Err ($"undefined").
Proof. vm_compute. reflexivity. Qed.
Example C03_class_redefine : denote (tree_of $"a = 1 + 1
a = a + 1
return a") = Err ($"redefine").
Proof. vm_compute. reflexivity. Qed.
Example C03_class_future : denote (tree_of $"a = 1 << 3
return a + [4]") = Err ($"future").
Proof. vm_compute. reflexivity. Qed.
(* the error class may differ between the code and the in-order reading (both reject) *)
Example C03_class_differs :
  denote (tree_of $"return [9] + 1 + zz") = Err ($"future") /\
  load_m $"return [9] + 1 + zz" = Err ($"undefined").
Proof. vm_compute. split; reflexivity. Qed.
(* `e << 0` denotes e (no element, no bounds check); a bare operand is never checked *)
Example C03_shift_zero :
  denote (tree_of $"x = 1 + 1
return x << 0") = Ok ([1; 2], [(0, 0)]%nat) /\ denote (tree_of $"return [5] << 0") = Ok ([1], []).
Proof. vm_compute. split; reflexivity. Qed.
