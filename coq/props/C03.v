(* C03 -- loading a script yields the chain defined by the grammar and semantics. (placeholder stage) *)
From Coq Require Import String.
From Coq Require Import List NArith ZArith Bool.
From AV Require Import model.Proto model.Ast model.Printer model.Peg model.Translate.
Import ListNotations.

Theorem C03_example :
  match load_m $"a = 1 + 1
return a << 2 + (a + [2])" with Ok (_, _, ch) => ch = [1; 2; 4; 8; 6; 14]%Z | _ => False end.
Proof. vm_compute. reflexivity. Qed.
Print Assumptions C03_example.
