(* C13 — target expressions evaluate by the standard rules of integer arithmetic.
   Only statements, each closed by an exact lemma, with Print Assumptions.

   Reading guide. Model: model/Calc.v (eval = calc.Eval on bytes). Specification, independent
   of the algorithm: proofs/CalcSpec.v —
     binop o x y z      "x o y = z" (Euclidean /, non-positive exponent gives 1, no value for /0)
     F, T, E            the conventional unambiguous grammar over tokens: ^ tightest and right
                        associative, then * /, then + -, both left associative
     literal oct t v    the text t is a literal of value v: decimal without superfluous leading
                        zero, 0x-hexadecimal, 0b-binary, optional leading minus (oct = false);
                        oct = true adds leading-zero digit strings read as octal, which the
                        evaluator accepts although the property does not speak about them
     renders oct s ts   the text s is the token list ts written out with optional spaces *)
From Coq Require Import String.
From Coq Require Import List NArith ZArith Bool Lia.
From AV Require Import model.Proto model.Calc proofs.CalcSpec proofs.CalcProofs.
Import ListNotations.
Open Scope Z_scope.

(* ---- the property, positive part: every expression of the property's classes whose value
   under the usual rules is v (in particular: no division by zero) evaluates to v ---- *)
Theorem C13_standard_value : forall s ts v,
  renders false s ts -> E ts v -> eval s = Ok v.
Proof. exact eval_complete_std. Qed.
Print Assumptions C13_standard_value.

(* the same for everything the evaluator accepts (octal-looking literals included) *)
Theorem C13_standard_value_ext : forall s ts v,
  renders true s ts -> E ts v -> eval s = Ok v.
Proof. exact eval_complete. Qed.
Print Assumptions C13_standard_value_ext.

(* ---- converse: a value is returned only for a well-formed expression, and it is the value
   the usual rules give ---- *)
Theorem C13_value_only_standard : forall s v,
  eval s = Ok v -> exists ts, renders true s ts /\ E ts v.
Proof. exact eval_sound. Qed.
Print Assumptions C13_value_only_standard.

(* ---- the property, negative part: anything that is not a well-formed expression with a
   value (missing operand or operator, bad literal, stray character, division by zero) yields
   an error rather than a value ---- *)
Theorem C13_malformed_err : forall s,
  (forall ts v, renders true s ts -> ~ E ts v) -> exists c, eval s = Err c.
Proof. exact malformed_err. Qed.
Print Assumptions C13_malformed_err.

Theorem C13_stray_char_err : forall s c,
  In c s -> ~ expr_char c -> exists e, eval s = Err e.
Proof. exact stray_char_err. Qed.
Print Assumptions C13_stray_char_err.

(* a well-formed alternating expression without a value divides by zero: reported as such *)
Theorem C13_divzero_err : forall s ts,
  renders true s ts -> alternates true ts -> (forall v, ~ E ts v) -> eval s = Err $"divzero".
Proof. exact eval_divzero. Qed.
Print Assumptions C13_divzero_err.

(* the evaluator always answers with a value or an error: no panic, fuel always suffices *)
Theorem C13_always_answers : forall s,
  (exists v, eval s = Ok v) \/ (exists c, eval s = Err c).
Proof. exact eval_ok_or_err. Qed.
Print Assumptions C13_always_answers.

(* ---- token level: the shunting yard with ^ * / on one precedence level and associativity
   flags is equivalent to the conventional grammar, for every operator sequence ---- *)
Theorem C13_yard_complete : forall ts v, E ts v -> yard ts = Ok v.
Proof. exact yard_complete. Qed.
Print Assumptions C13_yard_complete.

Theorem C13_yard_sound : forall ts v, yard ts = Ok v -> E ts v.
Proof. exact yard_sound. Qed.
Print Assumptions C13_yard_sound.

Theorem C13_value_unique : forall ts v v', E ts v -> E ts v' -> v = v'.
Proof. exact E_unique. Qed.
Print Assumptions C13_value_unique.

(* Eval is lexing by number() followed by the yard *)
Theorem C13_lex_eval : forall s ts, lex s = Ok ts -> eval s = yard ts.
Proof. exact eval_is_yard. Qed.
Print Assumptions C13_lex_eval.

(* ---- literals: number() (with math/big's SetString(s, 0)) reads a literal of the property's
   classes, followed by a delimiter, as its usual value; and whatever it reads is a literal ---- *)
Theorem C13_literal_value : forall t v rest,
  literal false t v -> delimited rest -> number (t ++ rest) = Ok (v, rest).
Proof. exact number_complete_std. Qed.
Print Assumptions C13_literal_value.

Theorem C13_literal_only : forall b v rest,
  number b = Ok (v, rest) -> exists t, b = t ++ rest /\ literal true t v.
Proof. exact number_sound. Qed.
Print Assumptions C13_literal_only.

(* ---- one operator: the model's apply step is the specified operator semantics; the model's
   division is Euclidean ---- *)
Theorem C13_operator_semantics : forall o x y z vs,
  apply o (y :: x :: vs) = Ok (z :: vs) <-> binop o x y z.
Proof. exact apply_binop. Qed.
Print Assumptions C13_operator_semantics.

Theorem C13_div_euclidean : forall x y, y <> 0 -> 0 <= x - ediv x y * y < Z.abs y.
Proof. exact ediv_euclid. Qed.
Print Assumptions C13_div_euclidean.

(* ---- non-vacuity ---- *)

(* "-2^0x3 * 0b11" is a rendering (property classes) of -2 ^ 3 * 3, whose value is -24 *)
Example C13_hypotheses_satisfiable :
  let s := [45;50;94;48;120;51;32;42;32;48;98;49;49]%N in
  let ts := [TNum (-2); TOp Pow; TNum 3; TOp Mul; TNum 3] in
  renders false s ts /\ E ts (-24) /\ eval s = Ok (-24).
Proof.
  cbv zeta. split; [|split].
  - apply (r_num false [45;50]%N (-2) [94;48;120;51;32;42;32;48;98;49;49]%N).
    + apply (lit_neg false [50]%N 2). apply (lit_dec false 50%N []); unfold dec_digit; try lia. constructor.
    + right. exists Pow. reflexivity.
    + apply (r_op false Pow).
      apply (r_num false [48;120;51]%N 3 [32;42;32;48;98;49;49]%N).
      * apply lit_pos. apply (lit_hex false 51%N []). constructor; [|constructor].
        left. unfold dec_digit. lia.
      * left. reflexivity.
      * apply r_space. apply (r_op false Mul). apply r_space.
        apply (r_num false [48;98;49;49]%N 3 []).
        -- apply lit_pos. apply (lit_bin false 49%N [49%N]).
           constructor; [right; reflexivity | constructor; [right; reflexivity | constructor]].
        -- exact I.
        -- apply r_nil.
  - apply E_t.
    apply (T_mul [TNum (-2); TOp Pow; TNum 3] [TNum 3] (-8) 3 Mul (-24)).
    + apply T_f. apply (F_pow (-2) [TNum 3] 3 (-8)); [apply F_num|].
      apply (b_pow_pos (-2) 3). lia.
    + apply F_num.
    + left. reflexivity.
    + apply (b_mul (-8) 3).
  - vm_compute. reflexivity.
Qed.

Definition ev (s : string) : outcome Z := eval (bytes_of_string s).

(* the readings the property spells out *)
Example C13_precedence_examples :
  ev "2*3^2" = Ok 18 /\ ev "2^3*2" = Ok 16 /\ ev "2^3^2" = Ok 512 /\ ev "8/2^2" = Ok 2 /\
  ev "7-2-3" = Ok 2 /\ ev "64/4/2" = Ok 8 /\ ev "2+3*4" = Ok 14 /\
  ev "-7/2" = Ok (-4) /\ ev "7/-2" = Ok (-3) /\ ev "-7/-2" = Ok 4 /\
  ev "2^-1" = Ok 1 /\ ev "0^0" = Ok 1 /\ ev " 0x10 * 0b11 + 7 " = Ok 55.
Proof. vm_compute. repeat split. Qed.

(* every malformed class of the design gives an error *)
Example C13_malformed_examples :
  forallb (fun s => match ev s with Err _ => true | _ => false end)
    [""; " "; "1+"; "1++2"; "1 2"; "0x"; "0b2"; "09"; "1_0"; "+5"; "--5"; "0xFF"; "1/0"; "- 5"]%string = true.
Proof. vm_compute. reflexivity. Qed.

(* outside the property: a superfluous leading zero makes a decimal digit string octal *)
Example C13_leading_zero_is_octal : ev "010" = Ok 8 /\ ev "-017+1" = Ok (-14).
Proof. vm_compute. repeat split. Qed.

(* the division-by-zero hypothesis of C13_divzero_err is satisfiable *)
Example C13_divzero_example : ev "1/0" = Err $"divzero" /\ ev "2^3/0+1" = Err $"divzero".
Proof. vm_compute. repeat split. Qed.
