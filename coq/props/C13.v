(* C13 — placeholder while the pipeline is brought up. *)
From Coq Require Import List NArith ZArith Bool.
From AV Require Import model.Proto model.Calc proofs.CalcProofs.
Open Scope Z_scope.

Theorem C13_div_euclidean : forall x y, y <> 0 -> 0 <= x - ediv x y * y < Z.abs y.
Proof. exact ediv_euclid. Qed.
Print Assumptions C13_div_euclidean.
