(* C11 — a chain of run lengths becomes a valid chain of the runs themselves.
   Only statements, each closed by an exact lemma, with Print Assumptions.
   is_chain (model/Chain.v): first element 1, no duplicates, no zero, every later element the sum of
   two (possibly equal) earlier ones — any element order.  "The input is not modified" is checked by
   the harness oracle (slice aliasing is not modelled). *)
From Coq Require Import String.
From Coq Require Import List ZArith Arith.
From AV Require Import model.Proto model.Chain model.Runs proofs.OptChainAux proofs.RunsProofs.
Import ListNotations.
Open Scope Z_scope.

(* every valid chain of lengths that fit a 64-bit word: the derived chain is returned, is a valid
   addition chain (in particular duplicate-free) and contains every run 2^l - 1 *)
Theorem C11_runs_chain_valid : forall lc, is_chain lc -> (forall l, In l lc -> l < 2 ^ 64) ->
  exists c, runs_chain lc = Ok c /\ is_chain c /\ forall l, In l lc -> In (2 ^ l - 1) c.
Proof. exact runs_chain_valid. Qed.
Print Assumptions C11_runs_chain_valid.

(* every length that does not fit a 64-bit machine word is refused with the error, none is
   mis-computed (the guard is on the sum lc[k+1] since fix 5bad32e) *)
Theorem C11_runs_chain_refuses : forall lc, is_chain lc -> (exists l, In l lc /\ 2 ^ 64 <= l) ->
  runs_chain lc = Err ($"toolarge").
Proof. exact runs_chain_refuses. Qed.
Print Assumptions C11_runs_chain_refuses.

(* a valid chain of lengths never leads to a panic or to any other error *)
Theorem C11_runs_chain_no_panic : forall lc, is_chain lc ->
  (exists c, runs_chain lc = Ok c) \/ runs_chain lc = Err ($"toolarge").
Proof. exact runs_chain_cases. Qed.
Print Assumptions C11_runs_chain_no_panic.

(* together: a chain is returned exactly when every length fits a machine word *)
Theorem C11_runs_chain_ok_iff : forall lc, is_chain lc ->
  ((exists c, runs_chain lc = Ok c) <-> forall l, In l lc -> l < 2 ^ 64).
Proof. exact runs_chain_ok_iff. Qed.
Print Assumptions C11_runs_chain_ok_iff.

(* non-vacuity: an unsorted chain of lengths meets the hypotheses; the run of the model on it *)
Definition ex_lengths : list Z := [1; 2; 4; 3; 7; 5].
Example C11_nonvacuous_hyp : is_chain ex_lengths /\ forall l, In l ex_lengths -> l < 2 ^ 64.
Proof.
  split; [eapply program_sound; vm_compute; reflexivity|].
  intros l Hl. cbn in Hl. repeat (destruct Hl as [<-|Hl]; [reflexivity|]). destruct Hl.
Qed.
Example C11_nonvacuous_run :
  runs_chain ex_lengths = Ok [1; 2; 3; 6; 12; 15; 7; 30; 60; 120; 127; 31].
Proof. vm_compute. reflexivity. Qed.

(* the refusal hypothesis is satisfiable: 1,2,4,...,2^64 is a valid chain containing 2^64 *)
Definition ex_too_large : list Z := map (fun k => 2 ^ Z.of_nat k) (seq 0 65).
Example C11_nonvacuous_refusal : is_chain ex_too_large /\ In (2 ^ 64) ex_too_large.
Proof.
  split; [eapply program_sound; vm_compute; reflexivity|].
  unfold ex_too_large. apply in_map_iff. exists 64%nat. split; [reflexivity|apply in_seq; cbn; split; [apply Nat.le_0_l|apply Nat.leb_le; reflexivity]].
Qed.
