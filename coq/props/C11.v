(* C11 — placeholder, replaced by the full statements. *)
From Coq Require Import List ZArith.
From AV Require Import model.Proto model.Chain model.Runs.
Import ListNotations.
Open Scope Z_scope.

Theorem C11_example : runs_chain [1;2;3] = Ok [1;2;3;6;7].
Proof. vm_compute. reflexivity. Qed.
Print Assumptions C11_example.
