(* C11 — a chain of run lengths becomes a valid chain of the runs themselves.
   Only statements, each closed by an exact lemma, with Print Assumptions.
   is_chain (model/Chain.v): first element 1, no duplicates, no zero, every later element the sum of
   two (possibly equal) earlier ones — any element order.  "The input is not modified" is checked by
   the harness oracle (slice aliasing is not modelled). *)
From Coq Require Import String.
From Coq Require Import List ZArith.
From AV Require Import model.Proto model.Chain model.Runs proofs.OptChainAux proofs.RunsProofs.
Import ListNotations.
Open Scope Z_scope.

(* every valid chain of lengths that fit a 64-bit word: the derived chain is returned, is a valid
   addition chain (in particular duplicate-free) and contains every run 2^l - 1 *)
Theorem C11_runs_chain_valid : forall lc, is_chain lc -> (forall l, In l lc -> l < 2 ^ 64) ->
  exists c, runs_chain lc = Ok c /\ is_chain c /\ forall l, In l lc -> In (2 ^ l - 1) c.
Proof. exact runs_chain_valid. Qed.
Print Assumptions C11_runs_chain_valid.

(* refusal: an operation with an operand that does not fit 64 bits gives the error, not a chain *)
Theorem C11_runs_chain_refuses_operand : forall lc p, is_chain lc -> program lc = Ok p ->
  Exists (fun o => 2 ^ 64 <= nz lc (fst o) \/ 2 ^ 64 <= nz lc (snd o)) p ->
  runs_chain lc = Err ($"toolarge").
Proof. exact runs_chain_refuses_op. Qed.
Print Assumptions C11_runs_chain_refuses_operand.

(* hence any length of 2^65 or more is refused *)
Theorem C11_runs_chain_refuses : forall lc, is_chain lc -> (exists l, In l lc /\ 2 ^ 65 <= l) ->
  runs_chain lc = Err ($"toolarge").
Proof. exact runs_chain_refuses. Qed.
Print Assumptions C11_runs_chain_refuses.

(* a valid chain of lengths never leads to a panic or to any other error *)
Theorem C11_runs_chain_no_panic : forall lc, is_chain lc ->
  (exists c, runs_chain lc = Ok c) \/ runs_chain lc = Err ($"toolarge").
Proof. exact runs_chain_cases. Qed.
Print Assumptions C11_runs_chain_no_panic.

(* The literal reading of the last sentence of the property — EVERY length that does not fit a
   machine word is refused — does not hold for the model: the guard tests the two operands, not their
   sum, and uint(la+lb) wraps.  For 1,2,4,...,2^63,2^64 the result is Ok c with 2^0 - 1 = 0 in c.
   Not reachable by running the Go code: the inner loop would need 2^63 iterations first. *)
Definition C11_refusal_full : Prop :=
  forall lc, is_chain lc -> (exists l, In l lc /\ 2 ^ 64 <= l) -> runs_chain lc = Err ($"toolarge").
Theorem C11_refusal_window_refuted : ~ C11_refusal_full.
Proof. exact refusal_window_refuted. Qed.
Print Assumptions C11_refusal_window_refuted.

Theorem C11_overflow_witness :
  is_chain pow_chain /\ (forall l, In l pow_chain -> l <= 2 ^ 64) /\
  exists c, runs_chain pow_chain = Ok c /\ In 0 c.
Proof. exact runs_chain_overflow_witness. Qed.
Print Assumptions C11_overflow_witness.

(* non-vacuity: an unsorted chain of lengths meets the hypotheses; the run of the model on it *)
Definition ex_lengths : list Z := [1; 2; 4; 3; 7; 5].
Example C11_nonvacuous_hyp : is_chain ex_lengths /\ forall l, In l ex_lengths -> l < 2 ^ 64.
Proof.
  split; [eapply program_sound; vm_compute; reflexivity|].
  intros l Hl. cbn in Hl. repeat (destruct Hl as [<-|Hl]; [reflexivity|]). destruct Hl.
Qed.
Example C11_nonvacuous_run :
  runs_chain ex_lengths = Ok [1; 2; 3; 6; 12; 15; 7; 30; 60; 120; 127; 31].
Proof. vm_compute. reflexivity. Qed.
