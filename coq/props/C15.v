(* C15 -- every input ends in a result or a diagnostic, never a crash or a hang.
   Only statements, each closed by an exact lemma, with Print Assumptions.

   Reading guide.  model/Cli.v composes the models of the other properties into the four commands and into the
   library entry points that take text.  Each of those models returns `Panic cls` exactly where the Go code has
   an unchecked index, slice, division, type assertion or `make`, and `OutOfFuel` where a loop of the model
   would need more fuel than its entry point passes.  `answers o` says: o is `Ok _` or `Err _`.  A theorem
   `answers (entry s)` for EVERY byte string s is therefore an argument that no such site is reachable from
   that entry point (docs/C15.md lists the sites, their guards, and the lemma that discharges each).

   The ensemble of `search` is an argument of the model: `ens n` is the list of results of exec.Execute(n, a)
   for the algorithms a of ensemble.Ensemble().  `ens_ok ens` -- never empty, every result an error or a program
   whose operands refer to existing elements -- is what C01 establishes for the real ensemble; the algorithms'
   own index/division sites (alg/dict/dict.go, alg/contfrac, alg/heuristic: sum[k] of an empty sum, ns[k-2],
   division by a zero delta ...) are discharged there, behind the `n >= 1` check that `search` performs.
   C15_cli_no_panic_ensemble instantiates the argument with the modelled ensemble (model/CliEns.v, on C01's
   model/Ensemble.v) and has no hypothesis about the algorithms left, only C01's size bound on the target.

   PARTIAL with respect to the full property text (checks/C15.json): Gallina functions terminate by
   construction, and the fuel lemmas show that the MODEL never runs out, but "the tool terminates on its own"
   in wall-clock time (2^(2^40), x << 10^12: excluded by the property's "bounded size and bounded shift
   amounts"), Go stack exhaustion on pathological nesting, and the Go runtime are outside any Coq statement.
   They are covered only by the harness (real binary under a time-out).  C15_model_statement below is the
   complete statement of everything else. *)
From Coq Require Import String.
From Coq Require Import List NArith ZArith Bool Lia.
From AV Require Import model.Proto model.Chain model.Program model.Ast model.Ir.
From AV Require Import proofs.ProgramProofs proofs.ParProofs proofs.BuildProofs.
From AV Require Import model.Printer model.Peg model.Translate model.Decompile model.Naming model.Build model.Alloc model.Gen.
From AV Require Import model.Cli proofs.CliProofs model.CliEns proofs.CliEnsemble model.Bits.
From AV Require model.Calc model.Par.
Import ListNotations.
Open Scope Z_scope.

(* ---- the library entry points: a value or an error for every byte string ---- *)
Theorem C15_no_panic_parse : forall s, answers (lib_parse s).
Proof. exact no_panic_parse. Qed.
Print Assumptions C15_no_panic_parse.

Theorem C15_no_panic_translate : forall s, answers (lib_translate s).
Proof. exact no_panic_translate. Qed.
Print Assumptions C15_no_panic_translate.

Theorem C15_no_panic_load : forall s, answers (lib_load s).
Proof. exact no_panic_load. Qed.
Print Assumptions C15_no_panic_load.

Theorem C15_no_panic_build : forall s, answers (lib_build s).
Proof. exact no_panic_build. Qed.
Print Assumptions C15_no_panic_build.

Theorem C15_no_panic_print : forall s, answers (lib_print s).
Proof. exact no_panic_print. Qed.
Print Assumptions C15_no_panic_print.

Theorem C15_no_panic_prepare : forall s, answers (lib_prepare s).
Proof. exact no_panic_prepare. Qed.
Print Assumptions C15_no_panic_prepare.

Theorem C15_no_panic_generate : forall typ s, answers (lib_generate typ s).
Proof. exact no_panic_generate. Qed.
Print Assumptions C15_no_panic_generate.

Theorem C15_no_panic_calc : forall s, answers (lib_calc s).
Proof. exact no_panic_calc. Qed.
Print Assumptions C15_no_panic_calc.

(* `answers` unfolded, for the reader *)
Theorem C15_answers_means : forall A (o : outcome A), answers o <-> (exists a, o = Ok a) \/ (exists c, o = Err c).
Proof. exact @answers_ok_or_err. Qed.
Print Assumptions C15_answers_means.

(* ---- the same on syntax trees, however they were obtained (any nesting, any names, any shift amounts) ---- *)
Theorem C15_tree_translate : forall c, answers (translate c).
Proof. exact translate_answers. Qed.
Print Assumptions C15_tree_translate.

Theorem C15_tree_load : forall c, answers (load_tree c).
Proof. exact load_tree_answers. Qed.
Print Assumptions C15_tree_load.

Theorem C15_tree_build : forall c, answers (obind (translate c) build_named).
Proof. exact translate_build_answers. Qed.
Print Assumptions C15_tree_build.

Theorem C15_tree_prepare : forall cfg c, answers (prepare cfg c).
Proof. exact prepare_answers. Qed.
Print Assumptions C15_tree_prepare.

(* Build on instruction lists: no panic as soon as no instruction is a shift by zero (Translate and Decompile
   never emit one) *)
Theorem C15_build_ir : forall P, pos_shifts P -> answers (build P) /\ answers (build_named P).
Proof. intros P H. split; [now apply build_answers|now apply build_named_answers]. Qed.
Print Assumptions C15_build_ir.

Theorem C15_translate_no_zero_shift : forall c P, translate c = Ok P -> pos_shifts P.
Proof. intros c P H. pose proof (translate_shape c) as Hs. now rewrite H in Hs. Qed.
Print Assumptions C15_translate_no_zero_shift.

(* ---- the command line ---- *)
Theorem C15_cli_no_panic : forall ens c, ens_ok ens ->
  cli ens c = Ok Exit0 \/ cli ens c = Ok Exit1 \/ cli ens c = Ok Exit2.
Proof. intros ens c H. destruct (cli_no_panic ens c H) as ([| |] & ->); auto. Qed.
Print Assumptions C15_cli_no_panic.

(* the same with the modelled ensemble of C01 (every sort oracle): no hypothesis about the algorithms; the
   target of a search must have a bit length below 2^64 (C01's bound: any number that fits in memory) *)
Theorem C15_cli_no_panic_ensemble : forall orcs c, target_fits c ->
  cli (ens_of orcs) c = Ok Exit0 \/ cli (ens_of orcs) c = Ok Exit1 \/ cli (ens_of orcs) c = Ok Exit2.
Proof. intros orcs c H. destruct (cli_no_panic_ensemble orcs c H) as ([| |] & ->); auto. Qed.
Print Assumptions C15_cli_no_panic_ensemble.

Theorem C15_ensemble_results_ok : forall orcs n, 1 <= n -> Z.of_N (bitlen n) < 2 ^ 64 ->
  ens_of orcs n <> [] /\ Forall result_ok (ens_of orcs n).
Proof. exact ens_of_ok. Qed.
Print Assumptions C15_ensemble_results_ok.

(* including the invocations that never reach a command body: flag errors, missing expression, missing file *)
Theorem C15_invocation_no_panic : forall ens i, ens_ok ens -> exists e, run_invocation ens i = Ok e.
Proof. exact invocation_no_panic. Qed.
Print Assumptions C15_invocation_no_panic.

(* eval, fmt, fmt -b and gen do not depend on the ensemble at all *)
Theorem C15_script_commands_no_panic : forall ens src b typ,
  (exists e, cli ens (Eval src) = Ok e) /\ (exists e, cli ens (Fmt b src) = Ok e) /\ (exists e, cli ens (Gen typ src) = Ok e).
Proof.
  intros ens src b typ. cbn [cli]. repeat split; apply or_fail_exits.
  - unfold eval_out. apply from_text, eval_tree_answers.
  - unfold fmt_out. apply from_text. intros t. apply fmt_tree_answers.
  - unfold gen_out. apply from_text. intros t. apply gen_tree_answers.
Qed.
Print Assumptions C15_script_commands_no_panic.

(* search: which diagnostic for which degenerate input *)
Theorem C15_search_concurrency_below_1 : forall ens expr p add dbl, p < 1 -> search ens expr p add dbl = Ok Exit2.
Proof. exact search_concurrency_usage. Qed.
Print Assumptions C15_search_concurrency_below_1.

Theorem C15_search_bad_expression : forall ens expr p add dbl c, 1 <= p -> Calc.eval expr = Err c ->
  search ens expr p add dbl = Ok Exit1.
Proof. exact search_bad_expression. Qed.
Print Assumptions C15_search_bad_expression.

Theorem C15_search_nonpositive_target : forall ens expr p add dbl n, 1 <= p -> Calc.eval expr = Ok n -> n < 1 ->
  search ens expr p add dbl = Ok Exit1.
Proof. exact search_nonpositive_target. Qed.
Print Assumptions C15_search_nonpositive_target.

(* ... and a result for every positive target (n = 1 included), any -p >= 1 and ANY cost values (NaN, infinities,
   negative), when every algorithm returns the program of a chain without repeated elements *)
Theorem C15_search_positive_target : forall ens expr p add dbl n, 1 <= p -> Calc.eval expr = Ok n -> 1 <= n ->
  ens n <> [] -> Forall result_good (ens n) -> search ens expr p add dbl = Ok Exit0.
Proof. exact search_positive_target. Qed.
Print Assumptions C15_search_positive_target.

(* ---- no deadlock: the function par_execute used in `search` against the transition system of C12 ---- *)
Theorem C15_search_no_deadlock : forall R (results : list R) (d : R) (limit : nat), (1 <= limit)%nat ->
  let k := length results in
  let res := fun i => nth i results d in
  par_execute (Z.of_nat limit) results = Ok results /\
  (forall s, reachable R k limit res s -> Par.pc s <> Par.PReturned -> exists l s', Par.step_ok R k limit res s l = Some s') /\
  (forall ls s, path R k limit res (Par.init R k) ls s -> (length ls <= 5 * k + limit + 1)%nat) /\
  (forall s, reachable R k limit res s -> Par.pc s = Par.PReturned -> Par.rs s = map Some results).
Proof. exact par_execute_all_schedules. Qed.
Print Assumptions C15_search_no_deadlock.

(* the `-p 0` hang, which the p >= 1 check excludes *)
Theorem C15_limit0_deadlocks : forall R (results : list R) (d : R), results <> [] ->
  par_execute 0 results = Panic ($"deadlock") /\
  forall l, Par.step_ok R (length results) 0 (fun i => nth i results d) (Par.init R (length results)) l = None.
Proof. exact par_execute_limit0. Qed.
Print Assumptions C15_limit0_deadlocks.

(* the huge `-p` hang (a complete execution takes exactly 5k + limit + 1 steps, C12_maximal_returns), which the
   clamp to the number of algorithms excludes: at most 6k + 1 steps whatever -p is *)
Theorem C15_search_barrier_bounded : forall R (results : list R) (d : R) p, 1 <= p -> (1 <= length results)%nat ->
  let k := length results in
  let limit := Z.to_nat (Z.min p (Z.of_nat k)) in
  (1 <= limit)%nat /\
  forall ls s, path R k limit (fun i => nth i results d) (Par.init R k) ls s -> (length ls <= 6 * k + 1)%nat.
Proof. exact search_barrier_bounded. Qed.
Print Assumptions C15_search_barrier_bounded.

(* ---- everything except wall-clock time, stack and runtime, in one statement ---- *)
Definition C15_model_statement : Prop :=
  (forall s, answers (lib_parse s) /\ answers (lib_translate s) /\ answers (lib_load s) /\ answers (lib_build s) /\
             answers (lib_print s) /\ answers (lib_prepare s) /\ answers (lib_calc s)) /\
  (forall typ s, answers (lib_generate typ s)) /\
  (forall ens i, ens_ok ens ->
     run_invocation ens i = Ok Exit0 \/ run_invocation ens i = Ok Exit1 \/ run_invocation ens i = Ok Exit2) /\
  (forall orcs c, target_fits c ->
     cli (ens_of orcs) c = Ok Exit0 \/ cli (ens_of orcs) c = Ok Exit1 \/ cli (ens_of orcs) c = Ok Exit2).

Theorem C15_all_inputs_partial : C15_model_statement.
Proof.
  split; [|split; [|split]].
  - intros s. repeat split; [apply no_panic_parse|apply no_panic_translate|apply no_panic_load|apply no_panic_build|
                              apply no_panic_print|apply no_panic_prepare|apply no_panic_calc].
  - exact no_panic_generate.
  - intros ens i H. destruct (invocation_no_panic ens i H) as ([| |] & ->); auto.
  - intros orcs c H. destruct (cli_no_panic_ensemble orcs c H) as ([| |] & ->); auto.
Qed.
Print Assumptions C15_all_inputs_partial.

(* ---- non-vacuity ---- *)

(* the hypothesis ens_ok is satisfiable, and with it concrete command lines reach all three exit classes *)
Definition ens_ex (n : Z) : list (outcome (list op)) := [Ok [(0, 0); (1, 1); (0, 2)]%nat; Err ($"algorithm")].
Definition ens_ex2 (n : Z) : list (outcome (list op)) := [Ok [(0, 0); (1, 1); (0, 2)]%nat; Ok [(0, 0); (0, 1); (1, 2)]%nat].

Example C15_ens_ok_satisfiable : ens_ok ens_ex /\ ens_ok ens_ex2.
Proof.
  split; intros n _; (split; [discriminate|]).
  - constructor; [apply wf_check_ok; reflexivity|]. constructor; [exact I|constructor].
  - constructor; [apply wf_check_ok; reflexivity|]. constructor; [apply wf_check_ok; reflexivity|constructor].
Qed.

(* the size hypothesis of the ensemble version on a concrete search command (the 255-bit target 2^255 - 19) *)
Example C15_target_fits_example : target_fits (Search $"2^255-19" 4 (FFin 1024) FNan).
Proof. intros n H. vm_compute in H. injection H as <-. vm_compute. reflexivity. Qed.

Example C15_exit_classes :
  cli ens_ex2 (Search $"5" 4 (FFin 1024) (FFin 1024)) = Ok Exit0 /\
  cli ens_ex2 (Search $"5" 9223372036854775807 FNan (FInf true)) = Ok Exit0 /\
  cli ens_ex (Search $"5" 4 (FFin 1024) (FFin 1024)) = Ok Exit1 /\        (* an algorithm failed *)
  cli ens_ex2 (Search $"1/0" 4 (FFin 1024) (FFin 1024)) = Ok Exit1 /\
  cli ens_ex2 (Search $"0" 4 (FFin 1024) (FFin 1024)) = Ok Exit1 /\
  cli ens_ex2 (Search $"2-5" 4 (FFin 1024) (FFin 1024)) = Ok Exit1 /\
  cli ens_ex2 (Search $"5" 0 (FFin 1024) (FFin 1024)) = Ok Exit2 /\
  cli ens_ex2 (Search $"5" (-1) (FFin 1024) (FFin 1024)) = Ok Exit2 /\
  cli ens_ex2 (Eval $"x = 1 + 1
return x << 3") = Ok Exit0 /\
  cli ens_ex2 (Eval $"return 1") = Ok Exit0 /\
  cli ens_ex2 (Eval $"return [1] + 1") = Ok Exit1 /\
  cli ens_ex2 (Fmt true $"return 1") = Ok Exit0 /\
  cli ens_ex2 (Fmt true $"x = 1
return x") = Ok Exit0 /\
  cli ens_ex2 (Fmt false $"return (") = Ok Exit1 /\
  cli ens_ex2 (Gen $"listing" $"return 1") = Ok Exit1 /\                  (* no instruction: the allocator refuses *)
  cli ens_ex2 (Gen $"listing" $"return 1 + 1") = Ok Exit0 /\
  cli ens_ex2 (Gen $"nosuch" $"return 1 + 1") = Ok Exit1 /\
  cli ens_ex2 (Gen $"ops" $"a = 1 << 3
return a + [2]") = Ok Exit1.                                              (* dangling input: Validate refuses *)
Proof. vm_compute. repeat split. Qed.

(* the Panic constructors are live in the composed model: each guard that the theorems rely on is needed.
   (the instruction-less program in clear_last; p.Chain[n+1] in the dump; a negative index in NameOperands;
   a shift by zero of a negative index reaches it; make(chan, -1); -p 0; rs[best] on an empty ensemble) *)
Example C15_panic_sites_are_real :
  clear_last [] = Panic ($"index") /\
  dump_ops 0 [(0, 0)%nat] [1] = Panic ($"index") /\
  name_one name_byte [1] (-5, []) = Panic ($"index") /\
  build [mkInstr (index_operand (-5)) (IShift (index_operand (-5)) 0)] = Panic ($"index") /\
  par_execute (-1) [tt] = Panic ($"makechan") /\
  par_execute 0 [tt] = Panic ($"deadlock") /\
  search (fun _ => []) $"5" 1 (FFin 1024) (FFin 1024) = Panic ($"index") /\
  evaluate [(3, 0)%nat] = Panic ($"index") /\
  Calc.arith Calc.Div 1 0 = Panic ($"divzero").
Proof. vm_compute. repeat split. Qed.

(* the degenerate inputs of the design's findings F2-F6 and F9-F11, now all answered *)
Example C15_former_crashes :
  lib_calc $"1/0" = Err ($"divzero") /\
  (exists t, lib_build $"return 1" = Ok t) /\
  (exists t, lib_build $"x = 1
return x" = Ok t) /\
  lib_prepare $"return 1" = Err ($"empty") /\
  lib_parse $"return [9223372036854775808]" = Err ($"parse") /\
  (exists t, lib_parse $"return ((((((((1))))))))" = Ok t).
Proof. vm_compute. repeat split; eexists; reflexivity. Qed.
