(* C15 -- placeholder while the correspondence is being established; replaced by the full statements. *)
From Coq Require Import String.
From Coq Require Import List NArith ZArith Bool.
From AV Require Import model.Proto model.Cli.
Import ListNotations.

Theorem C15_usage_and_nofile : forall ens,
  run_invocation ens IUsage = Ok Exit2 /\ run_invocation ens INoFile = Ok Exit1.
Proof. intros ens. split; reflexivity. Qed.
Print Assumptions C15_usage_and_nofile.
