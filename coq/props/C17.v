(* C17 placeholder while the proofs are being built. *)
From Coq Require Import String.
From Coq Require Import List NArith ZArith Bool.
From AV Require Import model.Proto model.Ir model.Alloc.
Import ListNotations.

Theorem C17_empty_refused : forall cfg, allocate cfg [] = Err ($"empty").
Proof. reflexivity. Qed.
Print Assumptions C17_empty_refused.
