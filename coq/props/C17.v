(* C17 -- allocation never needs more temporaries than values simultaneously alive.
   Only statements, each closed by an exact lemma, with Print Assumptions.

   live_count q = number of distinct elements read in the suffix q and not defined in it
                  (the values live just before the first instruction of q);
   peak p       = the largest live_count over all suffixes of p;
   no_dead p    = every instruction's output, except the last one's, is read later. *)
From Coq Require Import String.
From Coq Require Import List NArith ZArith Bool.
From AV Require Import model.Proto model.Ir model.Alloc proofs.AllocProofs.
Import ListNotations.
Open Scope Z_scope.

(* the property *)
Theorem C17_temporaries_le_peak : forall cfg p nmap q temporaries,
  wf_ir p -> no_dead p -> consistent nmap p ->
  allocate cfg p = Ok (q, temporaries) -> (length temporaries <= peak p)%nat.
Proof. exact temps_le_peak. Qed.
Print Assumptions C17_temporaries_le_peak.

(* the number of variables created by the reverse scan is bounded by the peak *)
Theorem C17_nvars_le_peak : forall p, wf p -> no_dead p -> p <> [] -> (nvars (scan p) <= peak p)%nat.
Proof. exact nvars_le_peak. Qed.
Print Assumptions C17_nvars_le_peak.

(* every variable created so far is free or held by a value that is live now *)
Theorem C17_vars_accounted : forall p, wf p -> forall v, (v < nvars (scan p))%nat <->
  In v (available (scan p)) \/ exists k, L p k /\ zlookup k (variable (scan p)) = Some v.
Proof. exact vars_accounted. Qed.
Print Assumptions C17_vars_accounted.

(* storage is reused before a new variable is introduced: the count grows only when nothing is free *)
Theorem C17_new_only_when_none_free : forall a i, nvars (allocate_index a i) <> nvars a -> available a = [].
Proof.
  intros a i. unfold allocate_index. destruct (zlookup i (variable a)); [intros H; now elim H|].
  destruct (available a); [reflexivity|intros H; now elim H].
Qed.
Print Assumptions C17_new_only_when_none_free.

(* live_count counts exactly the live elements, once each *)
Theorem C17_live_list_spec : forall p k, In k (live_list p) <-> L p k.
Proof. exact live_list_spec. Qed.
Print Assumptions C17_live_list_spec.

Theorem C17_live_list_NoDup : forall p, NoDup (live_list p).
Proof. exact live_list_NoDup. Qed.
Print Assumptions C17_live_list_NoDup.

(* ---- non-vacuity: a program without dead values on which the bound is attained (2 = 2) *)
Definition ix (k : Z) : operand := index_operand k.
Definition ex_tight : iprogram :=
  [ mkInstr (ix 1) (IAdd (ix 0) (ix 0));
    mkInstr (ix 2) (IAdd (ix 1) (ix 1));
    mkInstr (ix 46) (IShift (ix 2) 44);
    mkInstr (ix 47) (IDouble (ix 46));
    mkInstr (ix 48) (IAdd (ix 47) (ix 0));
    mkInstr (ix 49) (IAdd (ix 48) (ix 48));
    mkInstr (ix 53) (IShift (ix 49) 4);
    mkInstr (ix 54) (IAdd (ix 53) (ix 53));
    mkInstr (ix 55) (IAdd (ix 47) (ix 54));
    mkInstr (ix 56) (IDouble (ix 55)) ].
Definition ex_cfg : alloc_cfg := mkCfg ($"x") ($"z") ($"t").

Example C17_ex_hyps : wf_ir ex_tight /\ no_dead ex_tight /\ consistent (fun _ => []) ex_tight.
Proof.
  split; [|split].
  - unfold wf_ir, ex_tight. cbn. intuition (try discriminate; try reflexivity; auto).
  - unfold ex_tight, no_dead, reads, in_indexes, out_index, ix, index_operand. cbn. intuition (try discriminate; auto 20).
  - intros o Ho. left. cbn in Ho. intuition (subst; reflexivity).
Qed.

Example C17_ex_tight :
  option_map (fun r => length (snd r)) (match allocate ex_cfg ex_tight with Ok r => Some r | _ => None end) = Some 2%nat
  /\ peak ex_tight = 2%nat.
Proof. vm_compute. split; reflexivity. Qed.

(* the hypothesis no_dead is needed: with dead values (elements 22 and 26 below) the allocator
   declares 3 temporaries although at most 2 values are ever live.  Outside the property. *)
Definition ex_dead : iprogram :=
  [ mkInstr (ix 1) (IAdd (ix 0) (ix 0));
    mkInstr (ix 2) (IAdd (ix 1) (ix 0));
    mkInstr (ix 12) (IShift (ix 2) 10);
    mkInstr (ix 19) (IShift (ix 12) 7);
    mkInstr (ix 23) (IShift (ix 19) 4);
    mkInstr (ix 27) (IShift (ix 12) 4);
    mkInstr (ix 28) (IAdd (ix 12) (ix 23));
    mkInstr (ix 54) (IShift (ix 28) 26) ].

Example C17_dead_values_excluded :
  option_map (fun r => length (snd r)) (match allocate ex_cfg ex_dead with Ok r => Some r | _ => None end) = Some 3%nat
  /\ peak ex_dead = 2%nat.
Proof. vm_compute. split; reflexivity. Qed.
