(* C19 — multi-precision helper functions meet their arithmetic specifications.
   Only statements, each closed by an exact lemma, with Print Assumptions. *)
From Coq Require Import List NArith ZArith Bool.
From AV Require Import model.Proto model.Bits model.Lists proofs.BitsProofs.
Open Scope Z_scope.

(* the mask of [l,h) has exactly bits l..h-1 set *)
Theorem C19_mask_bits : forall l h i, (l <= h)%N -> 0 <= i ->
  Z.testbit (mask l h) i = (Z.of_N l <=? i) && (i <? Z.of_N h).
Proof. exact mask_bits. Qed.
Print Assumptions C19_mask_bits.

Theorem C19_ones_eq : forall n, ones n = 2 ^ Z.of_N n - 1.
Proof. exact ones_eq. Qed.
Print Assumptions C19_ones_eq.

(* extracting bits [l,h) of x equals floor(x / 2^l) mod 2^(h-l) *)
Theorem C19_extract_eq : forall x l h, 0 <= x -> (l <= h)%N ->
  extract x l h = (x / 2 ^ Z.of_N l) mod 2 ^ (Z.of_N h - Z.of_N l).
Proof. exact extract_eq. Qed.
Print Assumptions C19_extract_eq.

Example C19_nonvacuous : extract 0xABCD 4 12 = 0xBC /\ mask 4 12 = 0xFF0 /\ ones 8 = 255.
Proof. vm_compute. repeat split. Qed.
