(* C19 — multi-precision helper functions meet their arithmetic specifications.
   Only statements, each closed by an exact lemma, with Print Assumptions, and non-vacuity
   examples.  Model: model/Bits.v (internal/bigint), model/Lists.v (internal/bigints,
   internal/bigvector).  *big.Int = Z, uint = N, []*big.Int = list Z, string = list of bytes.
   Arguments are values of a functional model, so "arguments unmodified" is not a theorem here:
   it is checked on the Go code by the harness oracle. *)
From Coq Require Import String.
From Coq Require Import List NArith ZArith Bool Sorted Permutation Lia.
From AV Require Import model.Proto model.Bits model.Lists proofs.BitsProofs proofs.ListsProofs.
Import ListNotations.
Open Scope Z_scope.

(* ================================ internal/bigint ================================ *)

Theorem C19_pow2_eq : forall e, pow2 e = 2 ^ Z.of_N e.
Proof. exact pow2_eq. Qed.
Print Assumptions C19_pow2_eq.

(* the mask of [l,h) has exactly bits l..h-1 set *)
Theorem C19_mask_bits : forall l h i, (l <= h)%N -> 0 <= i ->
  Z.testbit (mask l h) i = (Z.of_N l <=? i) && (i <? Z.of_N h).
Proof. exact mask_bits. Qed.
Print Assumptions C19_mask_bits.

Theorem C19_ones_eq : forall n, ones n = 2 ^ Z.of_N n - 1.
Proof. exact ones_eq. Qed.
Print Assumptions C19_ones_eq.

(* extracting bits [l,h) of x equals floor(x / 2^l) mod 2^(h-l) *)
Theorem C19_extract_eq : forall x l h, 0 <= x -> (l <= h)%N ->
  extract x l h = (x / 2 ^ Z.of_N l) mod 2 ^ (Z.of_N h - Z.of_N l).
Proof. exact extract_eq. Qed.
Print Assumptions C19_extract_eq.

Example C19_nonvacuous : extract 0xABCD 4 12 = 0xBC /\ mask 4 12 = 0xFF0 /\ ones 8 = 255.
Proof. vm_compute. repeat split. Qed.

(* IsPow2: true exactly on 1, 2, 4, ... (false on 0 and on negatives) *)
Theorem C19_is_pow2_iff : forall x, is_pow2 x = true <-> exists e : N, x = 2 ^ Z.of_N e.
Proof. exact is_pow2_iff. Qed.
Print Assumptions C19_is_pow2_iff.

Example C19_is_pow2_ex : is_pow2 1024 = true /\ is_pow2 1023 = false /\ is_pow2 0 = false /\ is_pow2 (-4) = false.
Proof. vm_compute. repeat split. Qed.

(* Pow2UpTo: exactly the powers of two <= x, ascending: 2^0 .. 2^(k-1) where 2^e <= x <-> e < k *)
Theorem C19_pow2_upto_spec : forall x, exists k : nat,
  pow2_upto x = map (fun e => 2 ^ Z.of_nat e) (seq 0 k) /\
  forall e : nat, 2 ^ Z.of_nat e <= x <-> (e < k)%nat.
Proof. exact pow2_upto_spec. Qed.
Print Assumptions C19_pow2_upto_spec.

Theorem C19_pow2_upto_In : forall x p,
  In p (pow2_upto x) <-> (exists e : N, p = 2 ^ Z.of_N e) /\ p <= x.
Proof. exact pow2_upto_In. Qed.
Print Assumptions C19_pow2_upto_In.

Theorem C19_pow2_upto_sorted : forall x, StronglySorted Z.lt (pow2_upto x).
Proof. exact pow2_upto_sorted. Qed.
Print Assumptions C19_pow2_upto_sorted.

Example C19_pow2_upto_ex : pow2_upto 20 = [1; 2; 4; 8; 16] /\ pow2_upto 16 = [1; 2; 4; 8; 16] /\ pow2_upto 0 = [] /\ pow2_upto (-3) = [].
Proof. vm_compute. repeat split. Qed.

(* BitsSet, x >= 0: ascending list of exactly the set bit positions; the powers sum to x *)
Theorem C19_bits_set_spec : forall x, 0 <= x ->
  StronglySorted N.lt (bits_set x) /\
  (forall i, In i (bits_set x) <-> Z.testbit x (Z.of_N i) = true) /\
  fold_right (fun e a => 2 ^ Z.of_N e + a) 0 (bits_set x) = x.
Proof. exact bits_set_spec. Qed.
Print Assumptions C19_bits_set_spec.

(* BitsSet, any sign: the two's-complement bits below BitLen(|x|), as big.Int.Bit reports them *)
Theorem C19_bits_set_In : forall x i,
  In i (bits_set x) <-> (i < N.size (Z.abs_N x))%N /\ Z.testbit x (Z.of_N i) = true.
Proof. exact bits_set_In. Qed.
Print Assumptions C19_bits_set_In.

Example C19_bits_set_ex : 0 <= 0xA5 /\ bits_set 0xA5 = [0; 2; 5; 7]%N.
Proof. split; [discriminate|reflexivity]. Qed.

Theorem C19_min_max_spec : forall x y, min_max x y = (Z.min x y, Z.max x y).
Proof. exact min_max_spec. Qed.
Print Assumptions C19_min_max_spec.

(* Uint64s, x >= 0: terminates (never OutOfFuel); little-endian base-2^64 digits of x, every
   limb a uint64, no leading (most significant) zero limb *)
Theorem C19_uint64s_spec : forall x, 0 <= x ->
  exists ws, uint64s x = Ok ws /\
             fold_right (fun w a => w + 2 ^ 64 * a) 0 ws = x /\
             Forall (fun w => 0 <= w < 2 ^ 64) ws /\
             (ws <> [] -> last ws 0 <> 0).
Proof. exact uint64s_spec. Qed.
Print Assumptions C19_uint64s_spec.

(* out of range: for x < 0 the Go loop does not terminate; the model says so for any input *)
Theorem C19_uint64s_neg_diverges : forall x, x < 0 -> uint64s x = OutOfFuel.
Proof. exact uint64s_neg. Qed.
Print Assumptions C19_uint64s_neg_diverges.

Example C19_uint64s_ex : 0 <= 2 ^ 64 + 5 /\ uint64s (2 ^ 64 + 5) = Ok [5; 1] /\ uint64s (2 ^ 64 - 1) = Ok [2 ^ 64 - 1] /\
  uint64s 0 = Ok [] /\ -1 < 0 /\ uint64s (-1) = OutOfFuel.
Proof. vm_compute. repeat split; discriminate. Qed.

(* BytesLittleEndian: little-endian base-256 digits of |x|, no most-significant zero byte *)
Theorem C19_bytes_le_spec : forall x,
  fold_right (fun b a => b + 256 * a)%N 0%N (bytes_le x) = Z.abs_N x /\
  Forall (fun b => b < 256)%N (bytes_le x) /\
  (bytes_le x <> [] -> last (bytes_le x) 0%N <> 0%N).
Proof. exact bytes_le_spec. Qed.
Print Assumptions C19_bytes_le_spec.

Example C19_bytes_le_ex : bytes_le 0x010203 = [3; 2; 1]%N /\ bytes_le (-256) = [0; 1]%N /\ bytes_le 0 = [].
Proof. vm_compute. repeat split. Qed.

(* Hex / Binary: a literal is accepted exactly when, after deleting every '_', it is an optional
   sign followed by >= 1 digits of the base and nothing else; the value is the signed Horner sum.
   [wf_literal], [digit_of], [digits_value] are in proofs/BitsProofs.v. *)
Theorem C19_hex_spec : forall s v, hex s = Some v <->
  exists sg neg body ds,
    strip_underscore s = sg ++ body /\ sign_prefix sg neg /\ body <> [] /\
    Forall2 (fun c d => digitval c = Some d /\ (d < 16)%N) body ds /\
    v = if neg then - Z.of_N (fold_left (fun a d => a * 16 + d)%N ds 0%N)
        else Z.of_N (fold_left (fun a d => a * 16 + d)%N ds 0%N).
Proof. exact hex_spec. Qed.
Print Assumptions C19_hex_spec.

Theorem C19_binary_spec : forall s v, binary s = Some v <->
  exists sg neg body ds,
    strip_underscore s = sg ++ body /\ sign_prefix sg neg /\ body <> [] /\
    Forall2 (fun c d => digitval c = Some d /\ (d < 2)%N) body ds /\
    v = if neg then - Z.of_N (fold_left (fun a d => a * 2 + d)%N ds 0%N)
        else Z.of_N (fold_left (fun a d => a * 2 + d)%N ds 0%N).
Proof. exact binary_spec. Qed.
Print Assumptions C19_binary_spec.

(* which characters are digits *)
Theorem C19_digitval_char : forall c d, digitval c = Some d <->
  (48 <= c <= 57 /\ d = c - 48)%N \/ (97 <= c <= 122 /\ d = c - 87)%N \/ (65 <= c <= 90 /\ d = c - 55)%N.
Proof. exact digitval_char. Qed.
Print Assumptions C19_digitval_char.

(* strip_underscore deletes exactly the underscores *)
Theorem C19_strip_underscore : forall t, us_inserted (strip_underscore t) t /\ ~ In 95%N (strip_underscore t).
Proof. exact (fun t => conj (us_inserted_strip t) (strip_no_underscore t)). Qed.
Print Assumptions C19_strip_underscore.

(* parsing the canonical rendering of n with underscores inserted anywhere gives n *)
Theorem C19_hex_roundtrip : forall n t, us_inserted (print_hexZ n) t -> hex t = Some n.
Proof. exact hex_roundtrip. Qed.
Print Assumptions C19_hex_roundtrip.

Theorem C19_binary_roundtrip : forall n t, us_inserted (print_binZ n) t -> binary t = Some n.
Proof. exact binary_roundtrip. Qed.
Print Assumptions C19_binary_roundtrip.

Example C19_hex_roundtrip_ex :
  us_inserted (print_hexZ 0xdeadbeef) ($"_de_ad__beef_") /\ hex ($"_de_ad__beef_") = Some 0xdeadbeef /\
  us_inserted (print_hexZ (-0x1f)) ($"-1_f") /\ hex ($"-1_f") = Some (-31) /\
  us_inserted (print_binZ 10) ($"10_10") /\ binary ($"10_10") = Some 10 /\
  hex ($"DEAD_beef") = Some 0xdeadbeef /\ hex ($"+1f") = Some 31.
Proof. vm_compute. repeat split; repeat constructor. Qed.

(* non-digit characters are rejected wherever they stand *)
Theorem C19_hex_rejects : forall s c, In c s -> c <> 95%N -> c <> 43%N -> c <> 45%N ->
  ~ (48 <= c <= 57 \/ 97 <= c <= 102 \/ 65 <= c <= 70)%N -> hex s = None.
Proof. exact hex_rejects. Qed.
Print Assumptions C19_hex_rejects.

Theorem C19_binary_rejects : forall s c, In c s -> c <> 95%N -> c <> 43%N -> c <> 45%N ->
  c <> 48%N -> c <> 49%N -> binary s = None.
Proof. exact binary_rejects. Qed.
Print Assumptions C19_binary_rejects.

Example C19_rejects_ex : hex ($"12g4") = None /\ hex ($"0x1f") = None /\ hex ($"") = None /\ hex ($"_") = None /\
  hex ($"-") = None /\ hex ($"1-2") = None /\ hex ($"--1") = None /\ binary ($"102") = None /\ hex ($"1 2") = None.
Proof. vm_compute. repeat split. Qed.

(* ================================ internal/bigints ================================ *)

(* the two list predicates used below, in standard-library terms *)
Theorem C19_sorted_def : forall l, sorted l <-> StronglySorted Z.le l.
Proof. exact sorted_StronglySorted. Qed.
Print Assumptions C19_sorted_def.

Theorem C19_sorted_distinct_def : forall l, sorted_distinct l <-> StronglySorted Z.lt l.
Proof. exact sorted_distinct_StronglySorted. Qed.
Print Assumptions C19_sorted_distinct_def.

(* Sort: the sorted permutation of its input ... *)
Theorem C19_sort_spec : forall l, StronglySorted Z.le (sort l) /\ Permutation l (sort l).
Proof. exact sort_spec. Qed.
Print Assumptions C19_sort_spec.

(* ... and there is only one: whatever sort.Sort does with ties, its result is this list *)
Theorem C19_sort_unique : forall l l', Permutation l l' -> StronglySorted Z.le l' -> l' = sort l.
Proof. exact sort_unique. Qed.
Print Assumptions C19_sort_unique.

Example C19_sort_ex : sort [3; -1; 3; 0; 2] = [-1; 0; 2; 3; 3] /\
  Permutation [3; -1; 3; 0; 2] [-1; 0; 2; 3; 3] /\ StronglySorted Z.le [-1; 0; 2; 3; 3].
Proof.
  split; [reflexivity|]. split; [|apply sorted_StronglySorted, (sort_sorted [3; -1; 3; 0; 2])].
  exact (sort_perm [3; -1; 3; 0; 2]).
Qed.

(* Index: -1 when absent, else the position of the first occurrence *)
Theorem C19_index_spec : forall n xs,
  (index n xs = -1 /\ ~ In n xs) \/
  (exists k : nat, index n xs = Z.of_nat k /\ nth_error xs k = Some n /\
                   forall j, (j < k)%nat -> nth_error xs j <> Some n).
Proof. exact index_spec. Qed.
Print Assumptions C19_index_spec.

Theorem C19_contains_iff : forall n xs, contains n xs = true <-> In n xs.
Proof. exact contains_iff. Qed.
Print Assumptions C19_contains_iff.

(* ContainsSorted (sort.Search bisection) decides membership on ascending lists *)
Theorem C19_contains_sorted_iff : forall n xs, sorted xs -> (contains_sorted n xs = true <-> In n xs).
Proof. exact contains_sorted_iff. Qed.
Print Assumptions C19_contains_sorted_iff.

Example C19_contains_ex : sorted [1; 3; 3; 7; 9] /\ contains_sorted 7 [1; 3; 3; 7; 9] = true /\
  contains_sorted 4 [1; 3; 3; 7; 9] = false /\ index 3 [1; 3; 3; 7; 9] = 1 /\ index 4 [1; 3; 3; 7; 9] = -1.
Proof. split; [apply sorted_StronglySorted; repeat constructor; lia|]. vm_compute. repeat split. Qed.

(* Clone, Concat *)
Theorem C19_clone_concat : forall xs ys, clone xs = xs /\ concat xs ys = xs ++ ys.
Proof. exact (fun xs ys => conj (clone_eq xs) (concat_eq xs ys)). Qed.
Print Assumptions C19_clone_concat.

(* Unique: the first element and every element that differs from its predecessor in the input;
   no two neighbours of the result are equal; same elements *)
Theorem C19_unique_spec : forall xs,
  unique xs = match xs with
              | [] => []
              | x :: r => x :: map snd (filter (fun p => negb (snd p =? fst p)) (combine xs r))
              end /\
  (forall i a b, nth_error (unique xs) i = Some a -> nth_error (unique xs) (S i) = Some b -> a <> b) /\
  (forall z, In z (unique xs) <-> In z xs).
Proof.
  exact (fun xs => conj (unique_dedup_adjacent xs)
                        (conj (no_adjacent_dup_nth _ (unique_no_adjacent_dup xs)) (unique_In xs))).
Qed.
Print Assumptions C19_unique_spec.

(* on ascending input: strictly ascending, same elements; a strictly ascending list is unchanged *)
Theorem C19_unique_sorted : forall xs, sorted xs ->
  sorted_distinct (unique xs) /\ forall z, In z (unique xs) <-> In z xs.
Proof. exact (fun xs H => conj (unique_sorted xs H) (unique_In xs)). Qed.
Print Assumptions C19_unique_sorted.

Theorem C19_unique_sorted_distinct_id : forall xs, sorted_distinct xs -> unique xs = xs.
Proof. exact unique_sorted_distinct_id. Qed.
Print Assumptions C19_unique_sorted_distinct_id.

Example C19_unique_ex : unique [1; 1; 2; 1; 1; 3; 3] = [1; 2; 1; 3] /\
  sorted [1; 1; 2; 2; 2; 5] /\ unique [1; 1; 2; 2; 2; 5] = [1; 2; 5] /\ sorted_distinct [1; 2; 5].
Proof.
  split; [reflexivity|]. split; [apply sorted_StronglySorted; repeat constructor; lia|].
  split; [reflexivity|apply sorted_distinct_StronglySorted; repeat constructor; lia].
Qed.

(* MergeUnique on strictly ascending lists: strictly ascending union *)
Theorem C19_merge_unique_spec : forall xs ys, sorted_distinct xs -> sorted_distinct ys ->
  sorted_distinct (merge_unique xs ys) /\
  forall z, In z (merge_unique xs ys) <-> In z xs \/ In z ys.
Proof. exact merge_unique_spec. Qed.
Print Assumptions C19_merge_unique_spec.

Theorem C19_merge_unique_eq : forall xs ys, sorted_distinct xs -> sorted_distinct ys ->
  merge_unique xs ys = unique (sort (xs ++ ys)).
Proof. exact merge_unique_eq_unique_sort. Qed.
Print Assumptions C19_merge_unique_eq.

(* InsertSortedUnique *)
Theorem C19_insert_spec : forall xs x, sorted_distinct xs ->
  sorted_distinct (insert_sorted_unique xs x) /\
  forall z, In z (insert_sorted_unique xs x) <-> z = x \/ In z xs.
Proof. exact insert_spec. Qed.
Print Assumptions C19_insert_spec.

Example C19_merge_ex : sorted_distinct [1; 4; 9] /\ sorted_distinct [2; 4; 10; 11] /\
  merge_unique [1; 4; 9] [2; 4; 10; 11] = [1; 2; 4; 9; 10; 11] /\
  insert_sorted_unique [1; 4; 9] 5 = [1; 4; 5; 9] /\ insert_sorted_unique [1; 4; 9] 4 = [1; 4; 9] /\
  insert_sorted_unique [1; 4; 9] 10 = [1; 4; 9; 10] /\ insert_sorted_unique [] 3 = [3].
Proof.
  split; [apply sorted_distinct_StronglySorted; repeat constructor; lia|].
  split; [apply sorted_distinct_StronglySorted; repeat constructor; lia|].
  vm_compute. repeat split.
Qed.

(* ================================ internal/bigvector ================================ *)

(* Add: element-wise sum; panics exactly on a length mismatch *)
Theorem C19_vadd_spec : forall u v, length u = length v ->
  exists w, vadd u v = Ok w /\ length w = length u /\ forall i, nth i w 0 = nth i u 0 + nth i v 0.
Proof. exact vadd_spec. Qed.
Print Assumptions C19_vadd_spec.

Theorem C19_vadd_panic : forall u v, length u <> length v -> vadd u v = Panic ($"lenmismatch").
Proof. exact vadd_panic. Qed.
Print Assumptions C19_vadd_panic.

(* Lsh: every element multiplied by 2^s *)
Theorem C19_vlsh_spec : forall v s, vlsh v s = map (fun x => x * 2 ^ Z.of_N s) v.
Proof. exact vlsh_spec. Qed.
Print Assumptions C19_vlsh_spec.

(* NewBasis(n, i): length n, 1 at i and 0 elsewhere *)
Theorem C19_basis_spec : forall n i,
  length (basis n i) = n /\
  forall j, (j < n)%nat -> nth j (basis n i) 0 = if Nat.eqb j i then 1 else 0.
Proof. exact basis_spec. Qed.
Print Assumptions C19_basis_spec.

(* New(n): n zeros.  Idx on a basis vector panics exactly outside [0,n) *)
Theorem C19_vnew_spec : forall n, length (vnew n) = n /\ forall j, nth j (vnew n) 0 = 0.
Proof. exact vnew_spec. Qed.
Print Assumptions C19_vnew_spec.

Theorem C19_basis_idx_spec : forall n i j,
  ((j < n)%nat -> basis_idx n i j = Ok (nth j (basis n i) 0)) /\
  ((n <= j)%nat -> basis_idx n i j = Panic ($"index")).
Proof. exact basis_idx_spec. Qed.
Print Assumptions C19_basis_idx_spec.

(* call histories (correspondence stream "vhist"): the model's registers are immutable, a program
   only appends; that the Go values behave the same way is checked by the harness, not proved *)
Theorem C19_vhist_extends : forall prog regs regs',
  vhist prog regs = Ok regs' -> exists ext, regs' = regs ++ ext /\ length ext = length prog.
Proof. exact vhist_extends. Qed.
Print Assumptions C19_vhist_extends.

Example C19_vhist_ex :
  vhist [VBasis 3 2; VAdd 0 0; VAdd 1 0; VAdd 1 0; VLsh 1 4] [] =
  Ok [[0; 0; 1]; [0; 0; 2]; [0; 0; 3]; [0; 0; 3]; [0; 0; 32]].
Proof. vm_compute. reflexivity. Qed.

Example C19_vector_ex : length [1; 2; 3] = length [10; 20; -3] /\ vadd [1; 2; 3] [10; 20; -3] = Ok [11; 22; 0] /\
  length [1; 2] <> length [1] /\ vadd [1; 2] [1] = Panic ($"lenmismatch") /\
  vlsh [1; -3; 0] 4 = [16; -48; 0] /\ basis 4 2 = [0; 0; 1; 0] /\ basis 2 5 = [0; 0] /\
  vnew 3 = [0; 0; 0] /\ basis_idx 4 2 2 = Ok 1 /\ basis_idx 4 2 4 = Panic ($"index").
Proof. vm_compute. repeat split; discriminate. Qed.
