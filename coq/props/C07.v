(* C07 -- printing any syntax tree and parsing it back is the identity.
   Only statements, each closed by an exact lemma, with Print Assumptions. *)
From Coq Require Import String.
From Coq Require Import List NArith ZArith Bool.
From AV Require Import model.Proto model.Ast model.Printer model.Peg model.Translate proofs.PegProofs proofs.PegSound.
Import ListNotations.
Open Scope N_scope.

(* Every tree of add, double and shift nodes over operands (0 <= i < 2^63) and identifiers (the full
   alphabet [a-zA-Z_][a-zA-Z0-9_]*, keyword look-alikes included), however nested, with shift amounts
   below 2^64, in a script of >= 1 statements of which exactly the last is unnamed: the printed text
   (through the tabwriter) parses back to the identical tree.  Single exclusion: an identifier of the
   dbl class where a shift-expression starts (wf_expr true), see C07_dbl_refuted. *)
Theorem C07_roundtrip : forall c, wf_script c = true -> parse (print_script c) = Ok c.
Proof. exact roundtrip. Qed.
Print Assumptions C07_roundtrip.

(* hypotheses are satisfiable on a non-trivial object: nested shifts/doubles/right-nested additions,
   identifiers return/add/shl, a dbl-class identifier under a shift, extreme operands *)
Definition ex_tree : script :=
  [ mkStmt $"return" (EAdd (EOperand 0) (EAdd (EOperand 0) (EOperand 0)));
    mkStmt $"dblx" (EShift (EShift (EDouble (EDouble (EIdent $"return"))) 3) 18446744073709551615);
    mkStmt [] (EAdd (EAdd (EShift (EIdent $"dblx") 2) (EIdent $"add")) (EAdd (EIdent $"shl") (EOperand 9223372036854775807))) ].
Example C07_nonvacuous : wf_script ex_tree = true /\ parse (print_script ex_tree) = Ok ex_tree.
Proof. vm_compute. split; reflexivity. Qed.

(* The parser only ever returns well-formed trees (in particular never a dbl-class identifier where a
   shift-expression starts, never an operand outside [0, 2^63)) ... *)
Theorem C07_parse_wf : forall s c, parse s = Ok c -> wf_script c = true.
Proof. exact parse_wf. Qed.
Print Assumptions C07_parse_wf.

(* ... hence, for every source text that parses, printing the tree yields text that parses to the
   identical tree (first sentence of the property) ... *)
Theorem C07_fmt_fixpoint : forall s c, parse s = Ok c -> parse (print_script c) = Ok c.
Proof. exact fmt_fixpoint. Qed.
Print Assumptions C07_fmt_fixpoint.

(* ... formatting is idempotent ... *)
Theorem C07_fmt_idempotent : forall s c c', parse s = Ok c -> parse (print_script c) = Ok c' ->
  print_script c' = print_script c.
Proof. exact fmt_idempotent. Qed.
Print Assumptions C07_fmt_idempotent.

(* ... and never changes what the script loads to (chain, program, IR, or the rejection). *)
Theorem C07_fmt_preserves_load : forall s c, parse s = Ok c -> load_m (print_script c) = load_m s.
Proof. exact fmt_preserves_load. Qed.
Print Assumptions C07_fmt_preserves_load.

Example C07_fmt_nonvacuous :
  parse $"a = 1 add 1
return a +(a shl 0x2)+dbl(a)" = Ok [mkStmt $"a" (EAdd (EOperand 0) (EOperand 0));
                  mkStmt [] (EAdd (EAdd (EIdent $"a") (EShift (EIdent $"a") 2)) (EDouble (EIdent $"a")))].
Proof. vm_compute. reflexivity. Qed.

(* Known finding K1: the full statement -- every tree with legal identifiers, without the dbl-class
   exclusion -- is false, and no printer could make it true: `dblx + 1` is read as 2*x + 1, so the tree
   Add(Ident "dblx", Operand 0) has no text at all. *)
Fixpoint wf_expr_k1 (e : expr) : bool :=
  match e with
  | EOperand i => ((0 <=? i) && (i <? 2 ^ 63))%Z
  | EIdent s => ident_ok s
  | EAdd x y => wf_expr_k1 x && wf_expr_k1 y
  | EShift x s => wf_expr_k1 x && (s <? 2 ^ 64)
  | EDouble x => wf_expr_k1 x
  end.
Fixpoint wf_script_k1 (c : script) : bool :=
  match c with
  | [] => false
  | [s] => match sname s with [] => wf_expr_k1 (sexpr s) | _ => false end
  | s :: r => ident_ok (sname s) && wf_expr_k1 (sexpr s) && wf_script_k1 r
  end.
Definition C07_full : Prop := forall c, wf_script_k1 c = true -> parse (print_script c) = Ok c.

Definition k1_tree : script := [mkStmt [] (EAdd (EIdent $"dblx") (EOperand 0))].
Theorem C07_full_refuted : ~ C07_full.
Proof. intros H. specialize (H k1_tree eq_refl). vm_compute in H. discriminate H. Qed.
Print Assumptions C07_full_refuted.

(* the same in existential form *)
Theorem C07_dbl_refuted : exists t, wf_script_k1 t = true /\ parse (print_script t) <> Ok t.
Proof. exists k1_tree. vm_compute. split; [reflexivity|discriminate]. Qed.
Print Assumptions C07_dbl_refuted.

(* what the printed text of the witness really means *)
Example C07_k1_reading :
  parse (print_script k1_tree) = Ok [mkStmt [] (EAdd (EDouble (EIdent $"x")) (EOperand 0))].
Proof. vm_compute. reflexivity. Qed.
