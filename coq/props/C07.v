(* C07 -- printing any syntax tree and parsing it back is the identity.  (placeholder stage) *)
From Coq Require Import String.
From Coq Require Import List NArith ZArith Bool.
From AV Require Import model.Proto model.Ast model.Printer model.Peg.
Import ListNotations.
Open Scope N_scope.

(* known finding K1: an identifier of the dbl class where a shift-expression starts has no text *)
Definition k1_tree : script := [mkStmt [] (EAdd (EIdent $"dblx") (EOperand 0))].
Theorem C07_dbl_refuted : exists t, parse (print_script t) <> Ok t.
Proof. exists k1_tree. vm_compute. discriminate. Qed.
Print Assumptions C07_dbl_refuted.
