(* C10 — placeholder, replaced by the full statements. *)
From Coq Require Import List ZArith.
From AV Require Import model.Proto model.Chain model.Opt.
Import ListNotations.
Open Scope Z_scope.

Theorem C10_optimize_empty : optimize [] = Ok [].
Proof. reflexivity. Qed.
Print Assumptions C10_optimize_empty.
