(* C10 — chain optimisation only removes elements and keeps the chain valid.
   Only statements, each closed by an exact lemma, with Print Assumptions.
   is_chain (model/Chain.v) is the order-free definition of an addition chain: first element 1,
   no duplicates, no zero, every later element the sum of two (possibly equal) earlier ones.
   subseq a b (proofs/OptProofs.v): a is b with some elements deleted.
   The statement "the input chain is not modified" is about Go slice aliasing, which the model
   does not represent; it is checked on every case by the harness oracle. *)
From Coq Require Import List ZArith Sorted.
From AV Require Import model.Proto model.Chain model.Opt proofs.OptChainAux proofs.OptProofs.
Import ListNotations.
Open Scope Z_scope.

(* full statement: for every valid chain, in any element order *)
Theorem C10_optimize_valid : forall c, is_chain c ->
  exists c', optimize c = Ok c' /\ is_chain c' /\ subseq c' c /\ hd 0 c' = 1 /\
             last c' 0 = last c 0 /\ (length c' <= length c)%nat.
Proof. exact optimize_valid. Qed.
Print Assumptions C10_optimize_valid.

(* for EVERY input, chain or not: no error, no panic, only removals, first and last element stay *)
Theorem C10_optimize_only_removes : forall c,
  exists c', optimize c = Ok c' /\ subseq c' c /\ hd_error c' = hd_error c /\
             last c' 0 = last c 0 /\ (length c' <= length c)%nat.
Proof. exact optimize_shape. Qed.
Print Assumptions C10_optimize_only_removes.

(* the positions removed are strictly increasing and never the first or the last one *)
Theorem C10_removed_positions : forall c,
  StronglySorted lt (removed c) /\ Forall (fun r => 1 <= r < length c - 1)%nat (removed c).
Proof. exact removed_shape. Qed.
Print Assumptions C10_removed_positions.

(* the mechanism the code relies on: Chain.Ops(k) lists exactly the pairs i <= j < k with
   c[i] + c[j] = c[k], once each, whatever the element order (two-pointer path = quadratic path) *)
Theorem C10_ops_complete : forall c k i j, (k <= length c)%nat ->
  In (i, j) (ops c k) <-> (i <= j < k)%nat /\ nz c i + nz c j = nz c k.
Proof. exact in_ops. Qed.
Print Assumptions C10_ops_complete.

Theorem C10_optimize_empty : optimize [] = Ok [].
Proof. exact optimize_empty. Qed.
Print Assumptions C10_optimize_empty.

Theorem C10_optimize_singleton : forall x, optimize [x] = Ok [x].
Proof. exact optimize_singleton. Qed.
Print Assumptions C10_optimize_singleton.

(* non-vacuity: a 12-element chain that is not in ascending order satisfies the hypothesis,
   and optimisation really removes elements from it *)
Definition ex_chain : list Z := [1; 2; 4; 3; 6; 5; 8; 12; 7; 16; 24; 31].
Example C10_nonvacuous_hyp : is_chain ex_chain.
Proof. eapply program_sound. vm_compute. reflexivity. Qed.
Example C10_nonvacuous_run : optimize ex_chain = Ok [1; 2; 3; 6; 8; 7; 16; 24; 31].
Proof. vm_compute. reflexivity. Qed.
