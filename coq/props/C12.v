(* C12 - parallel execution equals sequential execution, in order, under every schedule.

   The statements quantify over ALL interleavings of the transition system model/Par.v
   (reachable = reflexive-transitive closure of step_ok from init; path = finite execution), over
   every number k of algorithms, every limit, every result function res (res i = Execute(n, as[i]))
   and every result type R.

   PARTIAL with respect to the full property text: the clause "executions share no mutable state:
   there are no data races, and the shared target is never written" is about the Go memory model
   and about the code inside exec.Execute / the algorithms; a Gallina transition system in which a
   worker writes slot i only cannot exhibit a data race, so that clause is not stated here (it is
   covered only by the harness oracle and, where available, the race detector; see checks/C12.json).
   C12_all_schedules_partial below is the complete statement of everything else. *)
From Coq Require Import List Arith.
From AV Require Import model.Par proofs.ParProofs.
Import ListNotations.

Section Statements.
Variable R : Type.
Variable k limit : nat.
Variable res : nat -> R.
Notation st := (st R).
Notation step_ok := (step_ok R k limit res).
Notation init := (init R k).
Notation reachable := (reachable R k limit res).
Notation path := (path R k limit res).
Notation sequential := (sequential R k res).
Notation accepts := (accepts R k limit res).

(* semaphore accounting: tokens in the channel = workers holding one + barrier acquisitions *)
Theorem C12_inv_sem : forall s, reachable s ->
  sem s = count isact (ws s) + waitc_pc limit (pc s) /\ sem s <= limit.
Proof. exact (inv_sem R k limit res). Qed.

(* never more than `limit` algorithms at once *)
Theorem C12_at_most_limit_running : forall s, reachable s ->
  count isact (ws s) <= limit /\ running s <= limit.
Proof. exact (at_most_limit_running R k limit res). Qed.

(* slot i is empty until worker i stores, and then holds the result of algorithm i *)
Theorem C12_inv_slot : forall s, reachable s ->
  length (rs s) = k /\
  forall i, i < k -> nth i (rs s) None = if hasres (wat s i) then Some (res i) else None.
Proof. exact (inv_slot R k limit res). Qed.

(* Execute returns only after every algorithm has finished, and the returned slice is the list of
   sequential results position by position, whatever the completion order *)
Theorem C12_returned_complete : forall s, reachable s -> pc s = PReturned ->
  (forall i, i < k -> wat s i = Released) /\ rs s = sequential.
Proof. exact (returned_complete R k limit res). Qed.

Theorem C12_returned_final : forall s, reachable s -> pc s = PReturned -> forall l, step_ok s l = None.
Proof. exact (returned_final R k limit res). Qed.

(* no deadlock when limit >= 1 *)
Theorem C12_progress : forall s, 1 <= limit -> reachable s -> pc s <> PReturned ->
  exists l s', step_ok s l = Some s'.
Proof. exact (progress R k limit res). Qed.

(* every step decreases the measure by one: every schedule is finite ... *)
Theorem C12_measure_step : forall s l s', reachable s -> step_ok s l = Some s' ->
  S (measure R limit s') = measure R limit s.
Proof. exact (measure_step R k limit res). Qed.

Theorem C12_termination : forall ls s, path init ls s -> length ls <= 5 * k + limit + 1.
Proof. exact (termination R k limit res). Qed.

(* ... and every execution that cannot be extended has returned (limit >= 1) *)
Theorem C12_maximal_returns : forall ls s, 1 <= limit -> path init ls s ->
  (forall l, step_ok s l = None) -> pc s = PReturned /\ length ls = 5 * k + limit + 1.
Proof. exact (maximal_returns R k limit res). Qed.

(* the `-p 0` hang *)
Theorem C12_limit0_stuck : forall l, limit = 0 -> 1 <= k -> step_ok init l = None.
Proof. exact (limit0_stuck R k limit res). Qed.

(* the executable acceptor used by the correspondence check decides exactly the observable
   behaviours of complete executions, and predicts the sequential slice for each of them *)
Theorem C12_accepts_iff : forall t,
  accepts t = true <-> exists ls s, path init ls s /\ vis ls = t /\ pc s = PReturned.
Proof. exact (accepts_iff R k limit res). Qed.

Theorem C12_slots_after_sequential : forall t,
  accepts t = true -> slots_after R k limit res t = Some sequential.
Proof. exact (slots_after_sequential R k limit res). Qed.

(* the model side of a `parallel` case (controller opening the gates in a given order) is a complete
   execution of the LTS with exactly these observables, for every order *)
Theorem C12_simulate_sound : forall order, 1 <= limit -> NoDup order -> (forall j, In j order -> j < k) ->
  let o := simulate R k limit res order in
  o_returned o = true /\ o_slots o = sequential /\ o_sat o = Nat.min k limit /\
  o_early o = false /\ o_over o = false /\ accepts (o_trace o) = true.
Proof. exact (simulate_sound R k limit res). Qed.

(* everything except the memory-model clause, in one statement *)
Definition C12_model_statement : Prop :=
  1 <= limit ->
  (forall s, reachable s -> running s <= limit) /\
  (forall s, reachable s -> pc s = PReturned ->
     (forall i, i < k -> wat s i = Released) /\ rs s = map (fun i => Some (res i)) (seq 0 k)) /\
  (forall s, reachable s -> pc s <> PReturned -> exists l s', step_ok s l = Some s') /\
  (forall ls s, path init ls s -> length ls <= 5 * k + limit + 1).

Theorem C12_all_schedules_partial : C12_model_statement.
Proof. exact (all_schedules R k limit res). Qed.
End Statements.

Print Assumptions C12_inv_sem.
Print Assumptions C12_at_most_limit_running.
Print Assumptions C12_inv_slot.
Print Assumptions C12_returned_complete.
Print Assumptions C12_returned_final.
Print Assumptions C12_progress.
Print Assumptions C12_measure_step.
Print Assumptions C12_termination.
Print Assumptions C12_maximal_returns.
Print Assumptions C12_limit0_stuck.
Print Assumptions C12_accepts_iff.
Print Assumptions C12_slots_after_sequential.
Print Assumptions C12_simulate_sound.
Print Assumptions C12_all_schedules_partial.

(* ---- non-vacuity: concrete executions with 3 algorithms, limit 2 ---- *)
Definition ex_trace : list event := [EStart 1; EStart 0; EDone 0; EStart 2; EDone 2; EDone 1; EReturn].

(* a complete execution exists (hypotheses `reachable s`, `pc s = PReturned` are satisfiable),
   completion order 0,2,1 differs from the index order, and the slice is still 0,1,2 *)
Example C12_nonvacuous_accept :
  accepts nat 3 2 (fun i => i) ex_trace = true /\
  slots_after nat 3 2 (fun i => i) ex_trace = Some [Some 0; Some 1; Some 2].
Proof. vm_compute. split; reflexivity. Qed.

(* three algorithms cannot all be running with limit 2; nothing may happen after the return *)
Example C12_nonvacuous_reject :
  accepts nat 3 2 (fun i => i) [EStart 0; EStart 1; EStart 2; EDone 0; EDone 1; EDone 2; EReturn] = false /\
  accepts nat 3 2 (fun i => i) [EStart 0; EStart 1; EDone 0; EDone 1; EReturn; EStart 2; EDone 2] = false /\
  accepts nat 1 0 (fun i => i) [EStart 0; EDone 0; EReturn] = false.
Proof. vm_compute. repeat split; reflexivity. Qed.

(* a reachable non-returned state with a worker in every phase (progress / invariants apply) *)
Example C12_nonvacuous_state :
  exists s, path nat 4 3 (fun i => i) (init nat 4)
              [main_acquire_spawn; main_acquire_spawn; w_logstart 1; w_logstart 0; w_store 0; w_logdone 0;
               w_release 0; main_acquire_spawn; w_store 1] s /\
            ws s = [Released; Stored; Spawned; NotYet] /\ sem s = 2 /\ pc s = PSpawn 3 /\
            rs s = [Some 0; Some 1; None; None].
Proof.
  eexists. split; [repeat (econstructor; [vm_compute; reflexivity|]); constructor|].
  vm_compute. repeat split; reflexivity.
Qed.

(* the controller-driven run: gates opened in the order 2,0,1 with limit 2 *)
Example C12_nonvacuous_simulate :
  o_trace (simulate nat 3 2 (fun i => i) [2; 0; 1]) =
    [EStart 0; EStart 1; EDone 0; EStart 2; EDone 2; EDone 1; EReturn] /\
  o_sat (simulate nat 3 2 (fun i => i) [2; 0; 1]) = 2.
Proof. vm_compute. split; reflexivity. Qed.
