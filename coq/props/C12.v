(* C12 placeholder *)
From Coq Require Import List Arith.
From AV Require Import model.Par proofs.ParProofs.

Theorem C12_wst_eqb_eq : forall a b, wst_eqb a b = true -> a = b.
Proof. exact wst_eqb_eq. Qed.
Print Assumptions C12_wst_eqb_eq.
