(* C20 — placeholder while the correspondence is being established. *)
From Coq Require Import List NArith Bool.
From AV Require Import model.Proto model.Metavars proofs.MetavarsProofs.

Theorem C20_str_eqb_refl : forall a, str_eqb a a = true.
Proof. exact str_eqb_refl. Qed.
Print Assumptions C20_str_eqb_refl.
