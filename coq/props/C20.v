(* C20 — release metadata files survive a write/read round trip; Get/Add/Set behave like an
   ordered map.  Only statements, each closed by an exact lemma, with Print Assumptions.

   [cls : N -> N] is the rune class table (bit 0 strconv.IsPrint, bit 1 unicode.IsLetter,
   bit 2 unicode.IsDigit, consulted for runes >= 0x80 only); every theorem holds for all tables. *)
From Coq Require Import String.
From Coq Require Import List NArith Bool.
From AV Require Import model.Proto model.Metavars proofs.MetavarsProofs.
Import ListNotations.
Open Scope N_scope.

(* The full property: within the hypotheses (identifiers that are not keywords, plain one-line
   documentation, byte-string values) reading the written text gives the file back, AND the
   written text is a fixed point of go/format.  go/format is not modelled: the second conjunct
   is checked only empirically by the harness (Write output == format.Source of it == write_m). *)
Definition C20_full (gofmt : list N -> option (list N)) : Prop :=
  forall cls f,
    valid_names cls f = true -> plain_docs cls f = true -> byte_values f = true ->
    read_m (write_m cls f) = Ok f /\ gofmt (write_m cls f) = Some (write_m cls f).

(* the part that is proved: the round trip through the modelled text *)
Theorem C20_read_write_partial : forall cls f,
  valid_names cls f = true -> plain_docs cls f = true -> byte_values f = true ->
  read_m (write_m cls f) = Ok f.
Proof. exact read_write. Qed.
Print Assumptions C20_read_write_partial.

(* gofmt's column alignment only inserts spaces before '=', which the reader skips: the round
   trip holds for every choice of padding, in particular for the one gofmt makes *)
Theorem C20_alignment_irrelevant : forall cls pds f,
  valid_names cls f = true -> plain_docs cls f = true -> byte_values f = true ->
  read_m (write_with cls pds f) = Ok f.
Proof. exact read_write_with. Qed.
Print Assumptions C20_alignment_irrelevant.

(* file level: after any history of WriteFile calls on one path (whatever the path held before),
   ReadFile returns the description written last.  Rests on the modelling assumption stated at
   write_file: WriteFile truncates, the path holds exactly the bytes of the last write. *)
Theorem C20_file_history : forall cls old fs f,
  valid_names cls f = true -> plain_docs cls f = true -> byte_values f = true ->
  read_file (write_files cls old (fs ++ [f])) = Ok f.
Proof. exact file_history. Qed.
Print Assumptions C20_file_history.

(* the padding that write_m uses puts the '=' of consecutive specs in one column unless a
   documentation line separates them (never truncating a name); one padding per property *)
Theorem C20_pads_aligned : forall ps, length (pads ps) = length ps /\ aligned ps (pads ps).
Proof. exact pads_aligned. Qed.
Print Assumptions C20_pads_aligned.

(* strconv.Unquote inverts %q on every byte string: quotes, backslashes, newlines, NUL, invalid
   UTF-8, any rune, whatever the printable table says *)
Theorem C20_unquote_quote : forall cls s,
  Forall (fun b => b < 256) s -> unquote (quote cls s) = Some s.
Proof. exact unquote_quote. Qed.
Print Assumptions C20_unquote_quote.

(* Get/Add/Set are the operations of an ordered map (association list, first match):
   Get is the lookup; Add of an existing name and Set of an unknown one are errors (the model
   returns no new file, the dispatcher keeps the old one); a successful Add appends; a successful
   Set replaces the value of the first property with that name and keeps order, names and
   documentation; lookups afterwards are as expected. *)
Theorem C20_map_refines : forall f,
  (forall n, file_get n f = alookup n (abs f)) /\
  (forall n, file_get n f = None <-> ~ In n (names f)) /\
  (forall p, In (p_name p) (names f) -> file_add p f = Err $"exists") /\
  (forall p, ~ In (p_name p) (names f) ->
     file_add p f = Ok (mkFile (f_pkg f) (f_props f ++ [p])) /\
     forall n, file_get n (mkFile (f_pkg f) (f_props f ++ [p])) =
               if str_eqb (p_name p) n then Some (p_value p) else file_get n f) /\
  (forall n v, ~ In n (names f) -> file_set n v f = Err $"unknown") /\
  (forall n v, In n (names f) -> exists l1 q l2,
     f_props f = l1 ++ q :: l2 /\ p_name q = n /\ ~ In n (map p_name l1) /\
     file_set n v f = Ok (mkFile (f_pkg f) (l1 ++ mkProp n (p_doc q) v :: l2)) /\
     forall m, file_get m (mkFile (f_pkg f) (l1 ++ mkProp n (p_doc q) v :: l2)) =
               if str_eqb n m then Some v else file_get m f).
Proof. exact map_refines. Qed.
Print Assumptions C20_map_refines.

(* ---- non-vacuity ---- *)

(* e-acute is a printable letter, U+2028 is neither *)
Definition ex_cls : N -> N := lookup [(233, 3); (8232, 0)].
Definition ex_file : file :=
  mkFile $"meta"
    [ mkProp $"a" [] [0; 255; 34; 92; 10; 226; 128; 168; 195; 169];
      mkProp [195; 169; 49] $"Doc with spaces, (punctuation) and +build inside." $"v0.4.0";
      mkProp $"longername" [] [237; 160; 128];
      mkProp $"_" $"d" [] ].

Example C20_hypotheses_satisfiable :
  valid_names ex_cls ex_file = true /\ plain_docs ex_cls ex_file = true /\ byte_values ex_file = true /\
  read_m (write_m ex_cls ex_file) = Ok ex_file /\
  pads (f_props ex_file) = [0%nat; 8%nat; 0%nat; 0%nat] /\
  pads (f_props (mkFile $"p" [mkProp $"a" [] []; mkProp $"bbbb" [] []; mkProp $"cc" $"d" []; mkProp [195; 169; 195; 169; 195; 169] [] []]))
    = [3%nat; 0%nat; 1%nat; 0%nat].
Proof. vm_compute. repeat split. Qed.

Example C20_quote_example :
  quote ex_cls [0; 255; 34; 92; 10; 226; 128; 168; 195; 169] = $"""\x00\xff\""\\\n\u2028" ++ [195; 169; 34].
Proof. vm_compute. reflexivity. Qed.

(* the hypotheses exclude what does not survive: keywords, trailing blanks, +build lines, and a
   documentation string with a line break does break the modelled round trip *)
Example C20_hypotheses_exclude :
  valid_name ex_cls $"var" = false /\ valid_name ex_cls $"1a" = false /\ valid_name ex_cls $"a b" = false /\
  plain_doc ex_cls $"x " = false /\ plain_doc ex_cls $"+build linux" = false /\
  plain_doc ex_cls [120; 13] = false /\
  read_m (write_m ex_cls (mkFile $"p" [mkProp $"a" [120; 10; 121] $"v"])) = Err $"read".
Proof. vm_compute. repeat split. Qed.

Example C20_map_example :
  let f0 := mkFile $"p" [mkProp $"a" [] $"1"] in
  file_add (mkProp $"a" [] $"2") f0 = Err $"exists" /\
  file_set $"b" $"2" f0 = Err $"unknown" /\
  file_add (mkProp $"b" $"d" $"2") f0 = Ok (mkFile $"p" [mkProp $"a" [] $"1"; mkProp $"b" $"d" $"2"]) /\
  file_set $"a" $"3" f0 = Ok (mkFile $"p" [mkProp $"a" [] $"3"]) /\
  file_get $"a" f0 = Some $"1" /\ file_get $"b" f0 = None.
Proof. vm_compute. repeat split. Qed.
