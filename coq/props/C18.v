(* C18 — program builders reject bad operands; program analyses match their definitions.
   Only statements, each closed by an exact lemma of proofs/ProgramProofs.v, with Print Assumptions.
   The model (model/Program.v, Product/Plus in model/Chain.v) mirrors /repo/program.go and /repo/chain.go.
   Vocabulary defined in ProgramProofs.v, independent of the code: [in_range p i] (0 <= i <= length p),
   [operands_ok], [shift_nonzero], [ops_of] / [shift_ops], [build_from], [evaluates_to], [nreads],
   [operand_of] / [reaches] (reflexive-transitive closure, the inductive clos_refl_trans). *)
From Coq Require Import String.
From Coq Require Import List NArith ZArith Bool Relations.
From AV Require Import model.Proto model.Chain model.Program proofs.ChainProofs proofs.ProgramProofs.
Import ListNotations.
Open Scope Z_scope.

(* an add / double / shift (by at least one) naming an element that does not exist yet (negative or
   beyond the current chain) returns an error and leaves the program unchanged *)
Theorem C18_step_reject : forall p c,
  shift_nonzero c -> ~ operands_ok p c -> step p c = (p, Err ($"bounds")).
Proof. exact step_reject. Qed.
Print Assumptions C18_step_reject.

(* an accepted call appends the corresponding operations and returns the index of the new last element *)
Theorem C18_step_accept : forall p c,
  shift_nonzero c -> operands_ok p c ->
  step p c = (p ++ ops_of (length p) c, Ok (Z.of_nat (length (p ++ ops_of (length p) c)))).
Proof. exact step_accept. Qed.
Print Assumptions C18_step_accept.

(* the operations of a shift by s: s of them; the first doubles i, the t-th doubles element n+t *)
Theorem C18_shift_ops_explicit : forall n i s t,
  length (shift_ops n i s) = s /\
  ((t < s)%nat -> nth t (shift_ops n i s) (0, 0)%nat
                  = if (t =? 0)%nat then (i, i) else ((n + t)%nat, (n + t)%nat)).
Proof. intros n i s t. split; [apply shift_ops_length|apply shift_ops_nth]. Qed.
Print Assumptions C18_shift_ops_explicit.

(* the dispatcher runs [step_go], which tries the first doubling before turning the shift amount into a
   loop counter (so that amounts like 2^63 with a missing operand are executable); it is the same
   function, and C18_step_reject / C18_step_accept hold for every amount s >= 1 without bound *)
Theorem C18_step_go_eq : forall p c, step_go p c = step p c.
Proof. exact step_go_eq. Qed.
Print Assumptions C18_step_go_eq.

Example C18_ex_reject_huge :
  step_go [(0, 0)]%nat (CShift 2 (2 ^ 63)) = ([(0, 0)]%nat, Err ($"bounds")) /\
  step_go [(0, 0)]%nat (CShift (-1) (2 ^ 64 - 1)) = ([(0, 0)]%nat, Err ($"bounds")).
Proof. vm_compute. split; reflexivity. Qed.

(* outside the property's wording, stated as the code behaves: a shift by zero checks nothing and
   returns its operand, whatever it is *)
Theorem C18_shift_zero_unchecked : forall p i, step p (CShift i 0) = (p, Ok i).
Proof. exact step_shift_zero. Qed.
Print Assumptions C18_shift_zero_unchecked.

(* every program built by any sequence of calls (accepted or rejected) is well formed ... *)
Theorem C18_built_wf : forall cs, wf_program (build_from [] cs).
Proof. exact built_wf. Qed.
Print Assumptions C18_built_wf.

(* ... and evaluates without failure to a chain one longer than the program; doubles + adds = length *)
Theorem C18_built_evaluates : forall cs,
  let p := build_from [] cs in
  exists c, evaluate p = Ok c /\ length c = S (length p) /\ (fst (count p) + snd (count p))%nat = length p.
Proof. exact built_evaluates. Qed.
Print Assumptions C18_built_evaluates.

(* Evaluate on any well-formed program: no panic, first element 1, element k+1 = sum of the operands of op k *)
Theorem C18_evaluate_wf : forall p, wf_program p ->
  exists c, evaluate p = Ok c /\ length c = S (length p) /\ nth 0 c 0 = 1 /\
    forall k i j, nth_error p k = Some (i, j) -> nth (S k) c 0 = nth i c 0 + nth j c 0.
Proof. exact evaluate_wf. Qed.
Print Assumptions C18_evaluate_wf.

Theorem C18_count_sum : forall p, (fst (count p) + snd (count p))%nat = length p.
Proof. exact count_sum. Qed.
Print Assumptions C18_count_sum.

(* read counts = number of operations that use each element, a doubling counted once *)
Theorem C18_read_counts_spec : forall p, wf_program p ->
  exists rs, read_counts p = Ok rs /\ length rs = S (length p) /\
    forall i, (i <= length p)%nat ->
      nth i rs O = length (filter (fun o => (fst o =? i)%nat || (snd o =? i)%nat) p).
Proof. exact read_counts_wf. Qed.
Print Assumptions C18_read_counts_spec.

(* dependency bitsets = reflexive-transitive closure of "element k has operand i" *)
Theorem C18_deps_spec : forall p, wf_program p ->
  exists bs, dependencies p = Ok bs /\ length bs = S (length p) /\
    forall k i, (k <= length p)%nat ->
      (N.testbit (nth k bs 0%N) (N.of_nat i) = true <-> clos_refl_trans nat (operand_of p) k i).
Proof. exact deps_spec. Qed.
Print Assumptions C18_deps_spec.

(* product / plus of valid ascending chains: valid (and ascending) chains ending at the product of the
   end values, respectively the end value plus a member *)
Theorem C18_product_valid : forall a b, is_chain a -> asc a -> is_chain b -> asc b ->
  exists c, product a b = Ok c /\ is_chain c /\ asc c /\ last c 0 = last a 0 * last b 0.
Proof. exact product_valid. Qed.
Print Assumptions C18_product_valid.

Theorem C18_plus_valid : forall a x, is_chain a -> asc a -> In x a ->
  exists c, plus a x = Ok c /\ is_chain c /\ asc c /\ last c 0 = last a 0 + x.
Proof. exact plus_valid. Qed.
Print Assumptions C18_plus_valid.

(* the only failures of Plus / Product: an empty argument (Go: index out of range) *)
Theorem C18_plus_product_panic :
  (forall x, plus [] x = Panic ($"index")) /\
  (forall b, product [] b = Panic ($"index")) /\ (forall a, product a [] = Panic ($"index")).
Proof. exact plus_product_panic. Qed.
Print Assumptions C18_plus_product_panic.

(* ---- non-vacuity ---- *)
Example C18_ex_accept :
  let p := [(0, 0); (1, 0)]%nat in
  shift_nonzero (CShift 2 3) /\ operands_ok p (CShift 2 3) /\
  step p (CShift 2 3) = ([(0, 0); (1, 0); (2, 2); (3, 3); (4, 4)]%nat, Ok 5) /\
  step p (CAdd 2 0) = ([(0, 0); (1, 0); (2, 0)]%nat, Ok 3).
Proof. cbv zeta. repeat split; try (vm_compute; congruence). Qed.
Example C18_ex_reject :
  let p := [(0, 0); (1, 0)]%nat in
  ~ operands_ok p (CAdd 3 0) /\ ~ operands_ok p (CDouble (-1)) /\ ~ operands_ok p (CShift 3 2) /\
  step p (CAdd 3 0) = (p, Err ($"bounds")) /\ step p (CShift 3 2) = (p, Err ($"bounds")) /\
  step p (CShift 3 0) = (p, Ok 3).
Proof.
  cbv zeta. unfold operands_ok, in_range. cbn [length]. repeat split; try reflexivity;
  intros H; repeat match goal with H : _ /\ _ |- _ => destruct H end; try discriminate;
  match goal with H : (_ <= _)%Z |- _ => apply H; reflexivity end.
Qed.
Example C18_ex_build :
  build_from [] [CDouble 0; CAdd 1 0; CAdd 5 0; CShift 2 2; CAdd 4 1; CShift (-1) 1]
    = [(0, 0); (1, 0); (2, 2); (3, 3); (4, 1)]%nat
  /\ evaluate [(0, 0); (1, 0); (2, 2); (3, 3); (4, 1)]%nat = Ok [1; 2; 3; 6; 12; 14]
  /\ count [(0, 0); (1, 0); (2, 2); (3, 3); (4, 1)]%nat = (3, 2)%nat
  /\ read_counts [(0, 0); (1, 0); (2, 2); (3, 3); (4, 1)]%nat = Ok [2; 2; 1; 1; 1; 0]%nat
  /\ dependencies [(0, 0); (1, 0); (2, 2); (3, 3); (4, 1)]%nat = Ok [1; 3; 7; 15; 31; 63]%N.
Proof. vm_compute. repeat split; reflexivity. Qed.
Example C18_ex_product :
  is_chain [1; 2; 3] /\ asc [1; 2; 3] /\ is_chain [1; 2; 4; 5] /\ asc [1; 2; 4; 5] /\
  product [1; 2; 3] [1; 2; 4; 5] = Ok [1; 2; 3; 6; 12; 15] /\ plus [1; 2; 3] 2 = Ok [1; 2; 3; 5].
Proof.
  repeat split; try (apply validate_iff; vm_compute; reflexivity);
  try (apply asc_iff; vm_compute; reflexivity); try (exists [2; 3]; reflexivity);
  try (exists [2; 4; 5]; reflexivity).
Qed.
