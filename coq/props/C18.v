(* C18 placeholder; replaced by the full statements *)
From Coq Require Import List ZArith Bool.
From AV Require Import model.Proto model.Chain model.Program.
Import ListNotations.
Open Scope Z_scope.
Theorem C18_example : step [] (CAdd 0 0) = ([(0,0)%nat], Ok 1).
Proof. vm_compute. reflexivity. Qed.
Print Assumptions C18_example.
