(* Line dispatch for C10: "optimize seq" -> "ok seq". *)
From Coq Require Import String.
From Coq Require Import List NArith ZArith Bool.
From AV Require Import model.Proto model.Chain model.Opt.
Import ListNotations.
Open Scope N_scope.

Definition run (line : list N) : list N :=
  match split sp line with
  | [f; a] =>
      if str_eqb f $"optimize" then
        match parse_list parse_hexZ a with
        | Some c => print_outcome (print_list print_hexZ) (optimize c)
        | None => r_badcase
        end
      else r_badcase
  | _ => r_badcase
  end.
