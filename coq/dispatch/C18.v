(* Line dispatch for C18: case line -> result line.
   build calls   (calls: A,i,j | D,i | S,i,s joined by ';', operands decimal, '-' = no call)
                 -> per call  <returned index>/<program length after>  or  E/<length>, then the final ops
   count ops | reads ops | deps ops | evaluate ops | product seq seq | plus seq x
   phist seq steps  (steps: p<src>:<seq> = Product(chain src, seq), l<src>:<x> = Plus(chain src, x), joined
                     by ';'; chain 0 is the first argument, chain k the result of step k)
                 -> all results, joined by ';'.  Lists are immutable here, so earlier results cannot
                    change: the Go side re-reads every result after the last call. *)
From Coq Require Import String.
From Coq Require Import List NArith ZArith Bool.
From AV Require Import model.Proto model.Chain model.Program.
From AV Require dispatch.C02.
Import ListNotations.
Open Scope N_scope.

Definition pseq := dispatch.C02.pseq.
Definition prseq := dispatch.C02.prseq.
Definition parse_ops := dispatch.C02.parse_ops.
Definition print_ops := dispatch.C02.print_ops.

Definition parse_call (s : list N) : option call :=
  match split comma s with
  | [[65]; a; b] => match parse_decZ a, parse_decZ b with
                    | Some i, Some j => Some (CAdd i j)
                    | _, _ => None
                    end
  | [[68]; a] => option_map CDouble (parse_decZ a)
  | [[83]; a; b] => match parse_decZ a, parse_decN b with
                    | Some i, Some sh => Some (CShift i sh)
                    | _, _ => None
                    end
  | _ => None
  end.
Definition parse_calls := parse_list_sep 59 parse_call.

(* one line item per call: returned index (or E) / length of the program after the call *)
Fixpoint run_calls (p : list op) (cs : list call) : list (list N) * list op :=
  match cs with
  | [] => ([], p)
  | c :: r =>
      let '(p', res) := step_go p c in
      let item := match res with
                  | Ok i => print_decZ i
                  | Err _ => [69]
                  | Panic _ => [80]
                  | OutOfFuel => [70]
                  end ++ [47] ++ print_nat (length p') in
      let '(items, pf) := run_calls p' r in
      (item :: items, pf)
  end.

Inductive hstep := HProduct (src : nat) (b : list Z) | HPlus (src : nat) (x : Z).

Definition parse_hstep (s : list N) : option hstep :=
  match s with
  | 112 :: r => match split 58 r with
                | [a; b] => match parse_nat a, pseq b with
                            | Some src, Some l => Some (HProduct src l)
                            | _, _ => None
                            end
                | _ => None
                end
  | 108 :: r => match split 58 r with
                | [a; b] => match parse_nat a, parse_hexZ b with
                            | Some src, Some x => Some (HPlus src x)
                            | _, _ => None
                            end
                | _ => None
                end
  | _ => None
  end.

(* chains: the first argument followed by the results so far; None = the case line is malformed *)
Fixpoint run_history (chains : list (list Z)) (steps : list hstep) : option (outcome (list (list Z))) :=
  match steps with
  | [] => Some (Ok (tl chains))
  | st :: r =>
      let src := match st with HProduct i _ => i | HPlus i _ => i end in
      match nth_error chains src with
      | None => None
      | Some lhs =>
          match (match st with HProduct _ b => product lhs b | HPlus _ x => plus lhs x end) with
          | Ok c => run_history (chains ++ [c]) r
          | Err e => Some (Err e)
          | Panic e => Some (Panic e)
          | OutOfFuel => Some OutOfFuel
          end
      end
  end.

Definition run (line : list N) : list N :=
  match split sp line with
  | [f; a] =>
      if str_eqb f $"build" then match parse_calls a with
          | Some cs => let '(items, p) := run_calls [] cs in
                       r_ok (print_list (fun x => x) items ++ [sp] ++ print_ops p)
          | None => r_badcase end
      else if str_eqb f $"count" then match parse_ops a with
          | Some p => let '(d, ad) := count p in r_ok (print_nat d ++ [sp] ++ print_nat ad)
          | None => r_badcase end
      else if str_eqb f $"reads" then match parse_ops a with
          | Some p => print_outcome (print_list print_nat) (read_counts p)
          | None => r_badcase end
      else if str_eqb f $"deps" then match parse_ops a with
          | Some p => print_outcome (print_list print_hexN) (dependencies p)
          | None => r_badcase end
      else if str_eqb f $"evaluate" then match parse_ops a with
          | Some p => print_outcome prseq (evaluate p)
          | None => r_badcase end
      else r_badcase
  | [f; a; b] =>
      if str_eqb f $"product" then match pseq a, pseq b with
          | Some x, Some y => print_outcome prseq (product x y)
          | _, _ => r_badcase end
      else if str_eqb f $"plus" then match pseq a, parse_hexZ b with
          | Some x, Some y => print_outcome prseq (plus x y)
          | _, _ => r_badcase end
      else if str_eqb f $"phist" then match pseq a, map_opt parse_hstep (split 59 b) with
          | Some x, Some steps => match run_history [x] steps with
                                  | Some o => print_outcome (fun cs => join [59] (map prseq cs)) o
                                  | None => r_badcase
                                  end
          | _, _ => r_badcase end
      else r_badcase
  | _ => r_badcase
  end.
