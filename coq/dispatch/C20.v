(* Line dispatch for C20: case line -> result line.

   Encodings: byte strings as hex pairs ("-" empty); a property is name:doc:value; a property
   list is comma separated ("-" empty); a rune class table is rune:class,... in hex ("-" empty);
   map operations are g:name | a:name:doc:value | s:name:value, comma separated.

     quote <value> <tab>            -> ok <bytes>
     unquote <bytes>                -> ok <value> | err syntax
     write <pkg> <props> <tab>      -> ok <bytes>
     read <bytes>                   -> ok <pkg> <props> | err read
     rt <pkg> <props> <tab>         -> ok 1 | ok 0      (hypotheses of the round trip hold?)
     rtclass <pkg> <props> <tab>    -> same (the harness oracle treats it as class only)
     mapops <props> <ops>           -> ok <res>=<props>;...   one entry per operation
     files <desc>|<desc>|... <tab>  -> WriteFile of each description (pkg/props) to one path, then
                                       ReadFile: ok <pkg> <props> | err read
     edit <desc> <ops> <tab>        -> WriteFile, then per operation ReadFile, Add/Set, WriteFile
                                       (skipped when the operation fails); finally ReadFile *)
From Coq Require Import String.
From Coq Require Import List NArith Bool.
From AV Require Import model.Proto model.Metavars.
Import ListNotations.
Open Scope N_scope.

Definition colon : N := 58.

Definition parse_prop (s : list N) : option property :=
  match split colon s with
  | [a; b; c] => match parse_bytes a, parse_bytes b, parse_bytes c with
                 | Some n, Some d, Some v => Some (mkProp n d v)
                 | _, _, _ => None
                 end
  | _ => None
  end.
Definition parse_props : list N -> option (list property) := parse_list parse_prop.

Definition parse_entry (s : list N) : option (N * N) :=
  match split colon s with
  | [a; b] => match parse_hexN a, parse_hexN b with
              | Some r, Some c => Some (r, c)
              | _, _ => None
              end
  | _ => None
  end.
Definition parse_tab : list N -> option (list (N * N)) := parse_list parse_entry.

Definition print_prop (p : property) : list N :=
  print_bytes (p_name p) ++ [colon] ++ print_bytes (p_doc p) ++ [colon] ++ print_bytes (p_value p).
Definition print_props : list property -> list N := print_list print_prop.

Inductive mapop :=
| OpGet (n : list N)
| OpAdd (p : property)
| OpSet (n v : list N).

Definition parse_op (s : list N) : option mapop :=
  match split colon s with
  | [k; a] => if str_eqb k $"g" then option_map OpGet (parse_bytes a) else None
  | [k; a; b] => if str_eqb k $"s" then
                   match parse_bytes a, parse_bytes b with
                   | Some n, Some v => Some (OpSet n v)
                   | _, _ => None
                   end
                 else None
  | [k; a; b; c] => if str_eqb k $"a" then
                      match parse_bytes a, parse_bytes b, parse_bytes c with
                      | Some n, Some d, Some v => Some (OpAdd (mkProp n d v))
                      | _, _, _ => None
                      end
                    else None
  | _ => None
  end.

(* apply one operation: (printed result, file afterwards) *)
Definition step (f : file) (o : mapop) : list N * file :=
  match o with
  | OpGet n => match file_get n f with
               | Some v => ($"1:" ++ print_bytes v, f)
               | None => ($"0", f)
               end
  | OpAdd p => match file_add p f with
               | Ok f' => ($"ok", f')
               | Err c => (c, f)
               | _ => ($"bug", f)
               end
  | OpSet n v => match file_set n v f with
                 | Ok f' => ($"ok", f')
                 | Err c => (c, f)
                 | _ => ($"bug", f)
                 end
  end.

Fixpoint run_ops (f : file) (ops : list mapop) : list (list N) :=
  match ops with
  | [] => []
  | o :: r => let '(res, f') := step f o in
              (res ++ $"=" ++ print_props (f_props f')) :: run_ops f' r
  end.

Definition parse_desc (s : list N) : option file :=
  match split 47 s with
  | [a; b] => match parse_bytes a, parse_props b with
              | Some pkg, Some ps => Some (mkFile pkg ps)
              | _, _ => None
              end
  | _ => None
  end.

(* ReadFile, apply the operation, WriteFile when it succeeded *)
Definition edit_step (cls : N -> N) (content : list N) (o : mapop) : list N :=
  match read_file content with
  | Ok g =>
      match o with
      | OpGet _ => content
      | OpAdd p => match file_add p g with Ok g' => write_file cls content g' | _ => content end
      | OpSet n v => match file_set n v g with Ok g' => write_file cls content g' | _ => content end
      end
  | _ => content
  end.

Definition print_file (g : file) : list N := print_bytes (f_pkg g) ++ [sp] ++ print_props (f_props g).

Definition in_domain (cls : N -> N) (f : file) : bool :=
  valid_names cls f && plain_docs cls f && byte_values f.

Definition run (line : list N) : list N :=
  match split sp line with
  | [f; a] =>
      if str_eqb f $"unquote" then
        match parse_bytes a with
        | Some s => match unquote s with Some v => r_ok (print_bytes v) | None => r_err $"syntax" end
        | None => r_badcase
        end
      else if str_eqb f $"read" then
        match parse_bytes a with
        | Some s => print_outcome print_file (read_m s)
        | None => r_badcase
        end
      else r_badcase
  | [f; a; b] =>
      if str_eqb f $"quote" then
        match parse_bytes a, parse_tab b with
        | Some s, Some t => r_ok (print_bytes (quote (lookup t) s))
        | _, _ => r_badcase
        end
      else if str_eqb f $"files" then
        match parse_list_sep 124 parse_desc a, parse_tab b with
        | Some fs, Some t => print_outcome print_file (read_file (write_files (lookup t) [] fs))
        | _, _ => r_badcase
        end
      else if str_eqb f $"mapops" then
        match parse_props a, parse_list parse_op b with
        | Some ps, Some ops => r_ok (join $";" (run_ops (mkFile $"p" ps) ops))
        | _, _ => r_badcase
        end
      else r_badcase
  | [f; a; b; c] =>
      if str_eqb f $"edit" then
        match parse_desc a, parse_list parse_op b, parse_tab c with
        | Some f0, Some ops, Some t =>
            print_outcome print_file
              (read_file (fold_left (edit_step (lookup t)) ops (write_file (lookup t) [] f0)))
        | _, _, _ => r_badcase
        end
      else
      match parse_bytes a, parse_props b, parse_tab c with
      | Some pkg, Some ps, Some t =>
          if str_eqb f $"write" then r_ok (print_bytes (write_m (lookup t) (mkFile pkg ps)))
          else if str_eqb f $"rt" || str_eqb f $"rtclass" then
            r_ok (print_bool (in_domain (lookup t) (mkFile pkg ps)))
          else r_badcase
      | _, _, _ => r_badcase
      end
  | _ => r_badcase
  end.
