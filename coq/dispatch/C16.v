(* Line dispatch for C16: the functions `build` and `names` of dispatch/C04.v
   (same model: Decompile, naming passes, Build). *)
From Coq Require Import List NArith.
From AV Require Import model.Proto.
From AV Require dispatch.C04.

Definition run (line : list N) : list N := AV.dispatch.C04.run line.
