(* Line dispatch for C09: case line -> result line.
     decompose <fixed:K|sliding:K|runlength:T|hybrid:K:T> x  ->  ok <terms> <Sum.Int> <Dictionary>
     sumint <terms>      ->  ok <hex>
     dictionary <terms>  ->  ok <hex list>
     sortexp <terms>     ->  ok <terms>          (harness only sends pairwise distinct exponents)
     dhist <program>     ->  ok <x registers> then <terms> <Sum.Int> <Dictionary> per sum register
       a call history in one process; instructions separated by ';', fields by ':':
         x:<hex>                 new integer register (owned by the caller)
         dec:<method fields>:<xi>  new sum register := Decompose(x register xi)
         scrx:<xi>:<hex>         the caller overwrites its own x register in place
         scrd:<si>:<ti>:<hex>    the caller overwrites D of term (ti mod length) of sum register si
         sort:<si>               SortByExponent on a sum register
         dict:<si>, int:<si>     call Dictionary() / Int() and drop the result
       every call is independent: a scribble changes only the register (term) it names.
   term = d@e (d hex, e decimal), lists comma separated, "-" = empty. *)
From Coq Require Import String.
From Coq Require Import List NArith ZArith Bool.
From AV Require Import model.Proto model.Decomp.
Import ListNotations.
Open Scope N_scope.

Definition colon : N := 58.
Definition at_sign : N := 64.

Definition parse_method (s : list N) : option method :=
  match split colon s with
  | [f; a] =>
      match parse_decN a with
      | Some k =>
          if str_eqb f $"fixed" then Some (Fixed k)
          else if str_eqb f $"sliding" then Some (Sliding k)
          else if str_eqb f $"runlength" then Some (RunLength k)
          else None
      | None => None
      end
  | [f; a; b] =>
      match parse_decN a, parse_decN b with
      | Some k, Some t => if str_eqb f $"hybrid" then Some (Hybrid k t) else None
      | _, _ => None
      end
  | _ => None
  end.

Definition parse_term (s : list N) : option term :=
  match split at_sign s with
  | [d; e] => match parse_hexN d, parse_decN e with
              | Some d', Some e' => Some (mkTerm d' e')
              | _, _ => None
              end
  | _ => None
  end.

Definition print_term (t : term) : list N := print_hexN (D t) ++ [at_sign] ++ print_decN (E t).
Definition print_terms (s : list term) : list N := print_list print_term s.
Definition parse_terms (s : list N) : option (list term) := parse_list parse_term s.

Definition print_decomposition (s : list term) : list N :=
  print_terms s ++ [sp] ++ print_hexN (sum_int s) ++ [sp] ++ print_list print_hexN (dictionary s).

(* ---- call histories ---- *)
Definition semi : N := 59.

Inductive instr :=
| IX (v : N)
| IDec (m : method) (xi : nat)
| IScrX (xi : nat) (v : N)
| IScrD (si ti : nat) (v : N)
| ISort (si : nat)
| ICall (si : nat).

Definition parse_instr (s : list N) : option instr :=
  match split colon s with
  | [f; a] =>
      if str_eqb f $"x" then option_map IX (parse_hexN a)
      else if str_eqb f $"sort" then option_map ISort (parse_nat a)
      else if str_eqb f $"dict" then option_map ICall (parse_nat a)
      else if str_eqb f $"int" then option_map ICall (parse_nat a)
      else None
  | [f; a; b] =>
      if str_eqb f $"scrx" then
        match parse_nat a, parse_hexN b with Some xi, Some v => Some (IScrX xi v) | _, _ => None end
      else None
  | [f; a; b; c] =>
      if str_eqb f $"scrd" then
        match parse_nat a, parse_nat b, parse_hexN c with
        | Some si, Some ti, Some v => Some (IScrD si ti v)
        | _, _, _ => None
        end
      else if str_eqb f $"dec" then
        match parse_method (a ++ [colon] ++ b), parse_nat c with
        | Some m, Some xi => Some (IDec m xi)
        | _, _ => None
        end
      else None
  | [f; a; b; c; d] =>
      if str_eqb f $"dec" then
        match parse_method (a ++ [colon] ++ b ++ [colon] ++ c), parse_nat d with
        | Some m, Some xi => Some (IDec m xi)
        | _, _ => None
        end
      else None
  | _ => None
  end.

Fixpoint set_nth {A} (n : nat) (v : A) (l : list A) : list A :=
  match l, n with
  | [], _ => []
  | _ :: r, O => v :: r
  | a :: r, S n' => a :: set_nth n' v r
  end.

(* None = malformed program (index out of range) *)
Definition step (st : list N * list (list term)) (i : instr) : option (outcome (list N * list (list term))) :=
  let '(xs, ss) := st in
  match i with
  | IX v => Some (Ok (xs ++ [v], ss))
  | IDec m xi =>
      match nth_error xs xi with
      | Some x => Some (obind (decompose m x) (fun s => Ok (xs, ss ++ [s])))
      | None => None
      end
  | IScrX xi v =>
      match nth_error xs xi with
      | Some _ => Some (Ok (set_nth xi v xs, ss))
      | None => None
      end
  | IScrD si ti v =>
      match nth_error ss si with
      | Some s =>
          match s with
          | [] => Some (Ok (xs, ss))
          | _ => let k := Nat.modulo ti (length s) in
                 match nth_error s k with
                 | Some t => Some (Ok (xs, set_nth si (set_nth k (mkTerm v (E t)) s) ss))
                 | None => None
                 end
          end
      | None => None
      end
  | ISort si =>
      match nth_error ss si with
      | Some s => Some (Ok (xs, set_nth si (sort_by_exponent s) ss))
      | None => None
      end
  | ICall si =>
      match nth_error ss si with
      | Some _ => Some (Ok (xs, ss))
      | None => None
      end
  end.

Fixpoint dhist (prog : list instr) (st : list N * list (list term))
  : option (outcome (list N * list (list term))) :=
  match prog with
  | [] => Some (Ok st)
  | i :: r =>
      match step st i with
      | Some (Ok st') => dhist r st'
      | other => other
      end
  end.

Definition print_state (st : list N * list (list term)) : list N :=
  print_list print_hexN (fst st) ++ flat_map (fun s => [sp] ++ print_decomposition s) (snd st).

Definition run (line : list N) : list N :=
  match split sp line with
  | [f; a] =>
      match parse_terms a with
      | Some s =>
          if str_eqb f $"sumint" then r_ok (print_hexN (sum_int s))
          else if str_eqb f $"dictionary" then r_ok (print_list print_hexN (dictionary s))
          else if str_eqb f $"sortexp" then r_ok (print_terms (sort_by_exponent s))
          else r_badcase
      | None =>
          if str_eqb f $"dhist" then
            match map_opt parse_instr (split semi a) with
            | Some prog => match dhist prog ([], []) with
                           | Some o => print_outcome print_state o
                           | None => r_badcase
                           end
            | None => r_badcase
            end
          else r_badcase
      end
  | [f; m; a] =>
      if str_eqb f $"decompose" then
        match parse_method m, parse_hexN a with
        | Some m', Some x => print_outcome print_decomposition (decompose m' x)
        | _, _ => r_badcase
        end
      else r_badcase
  | _ => r_badcase
  end.
