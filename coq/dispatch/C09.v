(* Line dispatch for C09: case line -> result line.
     decompose <fixed:K|sliding:K|runlength:T|hybrid:K:T> x  ->  ok <terms> <Sum.Int> <Dictionary>
     sumint <terms>      ->  ok <hex>
     dictionary <terms>  ->  ok <hex list>
     sortexp <terms>     ->  ok <terms>          (harness only sends pairwise distinct exponents)
   term = d@e (d hex, e decimal), lists comma separated, "-" = empty. *)
From Coq Require Import String.
From Coq Require Import List NArith ZArith Bool.
From AV Require Import model.Proto model.Decomp.
Import ListNotations.
Open Scope N_scope.

Definition colon : N := 58.
Definition at_sign : N := 64.

Definition parse_method (s : list N) : option method :=
  match split colon s with
  | [f; a] =>
      match parse_decN a with
      | Some k =>
          if str_eqb f $"fixed" then Some (Fixed k)
          else if str_eqb f $"sliding" then Some (Sliding k)
          else if str_eqb f $"runlength" then Some (RunLength k)
          else None
      | None => None
      end
  | [f; a; b] =>
      match parse_decN a, parse_decN b with
      | Some k, Some t => if str_eqb f $"hybrid" then Some (Hybrid k t) else None
      | _, _ => None
      end
  | _ => None
  end.

Definition parse_term (s : list N) : option term :=
  match split at_sign s with
  | [d; e] => match parse_hexN d, parse_decN e with
              | Some d', Some e' => Some (mkTerm d' e')
              | _, _ => None
              end
  | _ => None
  end.

Definition print_term (t : term) : list N := print_hexN (D t) ++ [at_sign] ++ print_decN (E t).
Definition print_terms (s : list term) : list N := print_list print_term s.
Definition parse_terms (s : list N) : option (list term) := parse_list parse_term s.

Definition print_decomposition (s : list term) : list N :=
  print_terms s ++ [sp] ++ print_hexN (sum_int s) ++ [sp] ++ print_list print_hexN (dictionary s).

Definition run (line : list N) : list N :=
  match split sp line with
  | [f; a] =>
      match parse_terms a with
      | Some s =>
          if str_eqb f $"sumint" then r_ok (print_hexN (sum_int s))
          else if str_eqb f $"dictionary" then r_ok (print_list print_hexN (dictionary s))
          else if str_eqb f $"sortexp" then r_ok (print_terms (sort_by_exponent s))
          else r_badcase
      | None => r_badcase
      end
  | [f; m; a] =>
      if str_eqb f $"decompose" then
        match parse_method m, parse_hexN a with
        | Some m', Some x => print_outcome print_decomposition (decompose m' x)
        | _, _ => r_badcase
        end
      else r_badcase
  | _ => r_badcase
  end.
