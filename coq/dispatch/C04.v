(* Line dispatch for C04 (and C16): case line -> result line.
     decompile <ops>    -> IR after acc.Decompile
     build <ops>        -> AST after acc.Build(acc.Decompile(p)), names included
     expand <ops>       -> pass.Compile(acc.Decompile(p))
     retranslate <ops>  -> Compile(Translate(Build(Decompile(p)))) " | " its chain
     rebuild <ops>      -> acc.Build / acc.String / acc.Write called repeatedly on ONE decompiled
                           program: every call must give the tree `build` gives (Build is a pure
                           function of the program in the model; the passes memoise in the code)
     cbuild <ops>|<ops>|...  -> acc.Build / acc.String of several independent programs called
                           concurrently from several goroutines, repeatedly: per program the set of
                           distinct outcomes, which must be the single sequential one (the model
                           builds each program on its own)
     cli <expr bytes> <flags>  -> the real `addchain search`: last element of the chain loaded from
                           its standard output = value of the target expression (model/Calc.v)
     longload <ops>     -> long programs: the printed script loaded through LoadString, LoadReader
                           and LoadFile; result = length and last element of the chain (the model
                           evaluates the program only: the text layer of these sizes is the oracle's)
     names <ops>        -> identifiers after the naming passes, by operand index
     dangling <ops>     -> pass.CheckDanglingInputs(acc.Decompile(p)) *)
From Coq Require Import String.
From Coq Require Import List NArith ZArith Bool.
From AV Require model.Calc.
From AV Require Import model.Proto model.Chain model.Program model.Ir model.Ast
  model.Decompile model.Naming model.Build proofs.BuildTranslateAux.
Import ListNotations.
Open Scope N_scope.

(* ---- ops: "i+j" comma separated ---- *)
Definition parse_op (s : list N) : option op :=
  match split 43 s with
  | [a; b] => match parse_nat a, parse_nat b with Some i, Some j => Some (i, j) | _, _ => None end
  | _ => None
  end.
Definition parse_ops : list N -> option (list op) := parse_list parse_op.
Definition print_op (o : op) : list N := print_nat (fst o) ++ [43] ++ print_nat (snd o).
Definition print_ops : list op -> list N := print_list print_op.

(* ---- IR: a<out>:<x>,<y> | d<out>:<x> | s<out>:<x>:<n>, joined by ';' ---- *)
Definition pidx (o : operand) : list N := print_decZ (oindex o).
Definition print_instr (i : instr) : list N :=
  match iopn i with
  | IAdd x y => [97] ++ pidx (iout i) ++ [58] ++ pidx x ++ [44] ++ pidx y
  | IDouble x => [100] ++ pidx (iout i) ++ [58] ++ pidx x
  | IShift x s => [115] ++ pidx (iout i) ++ [58] ++ pidx x ++ [58] ++ print_decN s
  end.
Definition print_ir : iprogram -> list N := print_list_sep 59 print_instr.

(* ---- AST: prefix form; statements <hexname>=<ast> joined by ';' ---- *)
Fixpoint print_expr (e : expr) : list N :=
  match e with
  | EOperand i => $"(op " ++ print_decZ i ++ $")"
  | EIdent s => $"(id " ++ print_bytes s ++ $")"
  | EAdd x y => $"(add " ++ print_expr x ++ [sp] ++ print_expr y ++ $")"
  | EShift x s => $"(shl " ++ print_expr x ++ [sp] ++ print_decN s ++ $")"
  | EDouble x => $"(dbl " ++ print_expr x ++ $")"
  end.
Definition print_stmt (s : stmt) : list N := print_bytes (sname s) ++ [61] ++ print_expr (sexpr s).
Definition print_script : script -> list N := print_list_sep 59 print_stmt.

(* ---- name table sorted by index: <idx>:<hexname> comma separated ---- *)
Fixpoint insert_by_key (e : Z * list N) (l : list (Z * list N)) : list (Z * list N) :=
  match l with
  | [] => [e]
  | x :: r => if (fst e <=? fst x)%Z then e :: l else x :: insert_by_key e r
  end.
Definition sort_table (t : list (Z * list N)) : list (Z * list N) := fold_right insert_by_key [] t.
Definition print_entry (e : Z * list N) : list N := print_decZ (fst e) ++ [58] ++ print_bytes (snd e).
Definition print_table (t : list (Z * list N)) : list N := print_list print_entry (sort_table t).

Definition print_progchain (pc : list op * list Z) : list N :=
  print_ops (fst pc) ++ $" | " ++ print_list print_hexZ (snd pc).

Definition print_build_outcome (o : outcome script) : list N :=
  match o with
  | Ok t => print_script t
  | Err c => $"!err " ++ c
  | Panic c => $"!panic " ++ c
  | OutOfFuel => $"!fuel"
  end.

Definition run_cbuild (a : list N) : list N :=
  match map_opt parse_ops (split 124 a) with
  | Some ps => r_ok (join [124] (map (fun p => print_build_outcome (build_program p)) ps))
  | None => r_badcase
  end.

Definition run (line : list N) : list N :=
  match split sp line with
  | [f; a] =>
      if str_eqb f $"cbuild" then run_cbuild a else
      match parse_ops a with
      | None => r_badcase
      | Some p =>
          if str_eqb f $"longload" then
            print_outcome (fun c => print_nat (length c) ++ [sp] ++ print_hexZ (last c 0%Z)) (evaluate p)
          else if str_eqb f $"decompile" then print_outcome print_ir (decompile p)
          else if str_eqb f $"build" then print_outcome print_script (build_program p)
          else if str_eqb f $"rebuild" then print_outcome print_script (build_program p)
          else if str_eqb f $"expand" then print_outcome print_ops (obind (decompile p) compile)
          else if str_eqb f $"retranslate" then print_outcome print_progchain (obind (build_program p) translate_eval)
          else if str_eqb f $"names" then print_outcome print_table (obind (decompile p) name_operands)
          else if str_eqb f $"dangling" then print_outcome (fun _ => $"-") (obind (decompile p) check_dangling)
          else r_badcase
      end
  | [f; a; _] =>
      if str_eqb f $"cli" then
        match parse_bytes a with
        | Some e => print_outcome print_hexZ (AV.model.Calc.eval e)
        | None => r_badcase
        end
      else r_badcase
  | _ => r_badcase
  end.
