(* Line dispatch for C17: the allocate function of the C05 dispatcher. *)
From Coq Require Import List NArith.
From AV Require dispatch.C05.

Definition run (line : list N) : list N := AV.dispatch.C05.run line.
