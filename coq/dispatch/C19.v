(* Line dispatch for C19: case line -> result line. *)
From Coq Require Import String.
From Coq Require Import List NArith ZArith Bool.
From AV Require Import model.Proto model.Bits model.Lists.
Import ListNotations.
Open Scope N_scope.

Definition pz := parse_hexZ.
Definition pl := parse_list parse_hexZ.
Definition prz := print_hexZ.
Definition prl := print_list print_hexZ.

(* ---- call histories: program = instructions separated by ';', operands by ':' ---- *)
Definition colon : N := 58.
Definition semi : N := 59.
Definition slash : N := 47.

Definition parse_vinstr (s : list N) : option vinstr :=
  match split colon s with
  | [op; a] => if str_eqb op $"new" then option_map VNew (parse_nat a) else None
  | [op; a; b] =>
      if str_eqb op $"basis" then match parse_nat a, parse_nat b with Some x, Some y => Some (VBasis x y) | _, _ => None end
      else if str_eqb op $"add" then match parse_nat a, parse_nat b with Some x, Some y => Some (VAdd x y) | _, _ => None end
      else if str_eqb op $"lsh" then match parse_nat a, parse_decN b with Some x, Some y => Some (VLsh x y) | _, _ => None end
      else if str_eqb op $"idx" then match parse_nat a, parse_nat b with Some x, Some y => Some (VIdx x y) | _, _ => None end
      else None
  | _ => None
  end.

Definition parse_linstr (s : list N) : option linstr :=
  match split colon s with
  | [op; a] =>
      if str_eqb op $"lit" then option_map LLit (pl a)
      else if str_eqb op $"clone" then option_map LClone (parse_nat a)
      else if str_eqb op $"unique" then option_map LUnique (parse_nat a)
      else if str_eqb op $"sort" then option_map LSort (parse_nat a)
      else None
  | [op; a; b] =>
      if str_eqb op $"concat" then match parse_nat a, parse_nat b with Some x, Some y => Some (LConcat x y) | _, _ => None end
      else if str_eqb op $"merge" then match parse_nat a, parse_nat b with Some x, Some y => Some (LMerge x y) | _, _ => None end
      else if str_eqb op $"insert" then match parse_nat a, pz b with Some x, Some y => Some (LInsert x y) | _, _ => None end
      else None
  | [op; a; b; c] =>
      if str_eqb op $"sub" then match parse_nat a, parse_nat b, parse_nat c with Some x, Some y, Some z => Some (LSub x y z) | _, _, _ => None end
      else if str_eqb op $"minmax" then match parse_nat a, parse_nat b, parse_nat c with Some x, Some y, Some z => Some (LMinMax x y z) | _, _, _ => None end
      else None
  | _ => None
  end.

Definition parse_binstr (s : list N) : option binstr :=
  match split colon s with
  | [op; a] =>
      if str_eqb op $"lit" then option_map BLit (pz a)
      else if str_eqb op $"pow2" then option_map BPow2 (parse_decN a)
      else if str_eqb op $"ones" then option_map BOnes (parse_decN a)
      else if str_eqb op $"unique" then option_map BUnique (parse_nat a)
      else None
  | [op; a; b] =>
      if str_eqb op $"mask" then match parse_decN a, parse_decN b with Some x, Some y => Some (BMask x y) | _, _ => None end
      else if str_eqb op $"pow2upto" then match parse_nat a, parse_nat b with Some x, Some y => Some (BPow2UpTo x y) | _, _ => None end
      else if str_eqb op $"uint64s" then match parse_nat a, parse_nat b with Some x, Some y => Some (BUint64s x y) | _, _ => None end
      else if str_eqb op $"merge" then match parse_nat a, parse_nat b with Some x, Some y => Some (BMerge x y) | _, _ => None end
      else if str_eqb op $"concat" then match parse_nat a, parse_nat b with Some x, Some y => Some (BConcat x y) | _, _ => None end
      else None
  | [op; a; b; c] =>
      if str_eqb op $"scribble" then match parse_nat a, parse_nat b, parse_decN c with Some x, Some y, Some z => Some (BScribble x y z) | _, _, _ => None end
      else None
  | [op; a; b; c; d] =>
      if str_eqb op $"extract" then match parse_nat a, parse_nat b, parse_decN c, parse_decN d with
                                    | Some x, Some y, Some z, Some w => Some (BExtract x y z w) | _, _, _, _ => None end
      else if str_eqb op $"minmax" then match parse_nat a, parse_nat b, parse_nat c, parse_nat d with
                                    | Some x, Some y, Some z, Some w => Some (BMinMax x y z w) | _, _, _, _ => None end
      else None
  | _ => None
  end.

Definition print_regs (regs : list (list Z)) : list N := join [slash] (map prl regs).

Definition run (line : list N) : list N :=
  match split sp line with
  | [f; a] =>
      if str_eqb f $"pow2" then match parse_decN a with Some e => r_ok (prz (pow2 e)) | None => r_badcase end
      else if str_eqb f $"ispow2" then match pz a with Some x => r_ok (print_bool (is_pow2 x)) | None => r_badcase end
      else if str_eqb f $"pow2upto" then match pz a with Some x => r_ok (prl (pow2_upto x)) | None => r_badcase end
      else if str_eqb f $"ones" then match parse_decN a with Some n => r_ok (prz (ones n)) | None => r_badcase end
      else if str_eqb f $"bitsset" then match pz a with Some x => r_ok (print_list print_decN (bits_set x)) | None => r_badcase end
      else if str_eqb f $"uint64s" then match pz a with Some x => print_outcome prl (uint64s x) | None => r_badcase end
      else if str_eqb f $"bytesle" then match pz a with Some x => r_ok (print_bytes (bytes_le x)) | None => r_badcase end
      else if str_eqb f $"hex" then match parse_bytes a with
                                    | Some s => match hex s with Some v => r_ok (prz v) | None => r_err $"parse" end
                                    | None => r_badcase end
      else if str_eqb f $"binary" then match parse_bytes a with
                                    | Some s => match binary s with Some v => r_ok (prz v) | None => r_err $"parse" end
                                    | None => r_badcase end
      else if str_eqb f $"sort" then match pl a with Some l => r_ok (prl (sort l)) | None => r_badcase end
      else if str_eqb f $"clone" then match pl a with Some l => r_ok (prl (clone l)) | None => r_badcase end
      else if str_eqb f $"vnew" then match parse_nat a with Some n => r_ok (prl (vnew n)) | None => r_badcase end
      else if str_eqb f $"vhist" then match map_opt parse_vinstr (split semi a) with
                                      | Some prog => print_outcome print_regs (vhist prog [])
                                      | None => r_badcase end
      else if str_eqb f $"bhist" then match map_opt parse_binstr (split semi a) with
                                      | Some prog => print_outcome print_regs (bhist prog [])
                                      | None => r_badcase end
      else if str_eqb f $"lhist" then match map_opt parse_linstr (split semi a) with
                                      | Some prog => print_outcome print_regs (lhist prog [])
                                      | None => r_badcase end
      else if str_eqb f $"unique" then match pl a with Some l => r_ok (prl (unique l)) | None => r_badcase end
      else r_badcase
  | [f; a; b] =>
      if str_eqb f $"mask" then match parse_decN a, parse_decN b with Some l, Some h => r_ok (prz (mask l h)) | _, _ => r_badcase end
      else if str_eqb f $"minmax" then match pz a, pz b with
                                       | Some x, Some y => let '(mn, mx) := min_max x y in r_ok (prz mn ++ [sp] ++ prz mx)
                                       | _, _ => r_badcase end
      else if str_eqb f $"index" then match pz a, pl b with Some x, Some l => r_ok (print_decZ (index x l)) | _, _ => r_badcase end
      else if str_eqb f $"contains" then match pz a, pl b with Some x, Some l => r_ok (print_bool (contains x l)) | _, _ => r_badcase end
      else if str_eqb f $"containssorted" then match pz a, pl b with Some x, Some l => r_ok (print_bool (contains_sorted x l)) | _, _ => r_badcase end
      else if str_eqb f $"insert" then match pl a, pz b with Some l, Some x => r_ok (prl (insert_sorted_unique l x)) | _, _ => r_badcase end
      else if str_eqb f $"merge" then match pl a, pl b with Some l, Some m => r_ok (prl (merge_unique l m)) | _, _ => r_badcase end
      else if str_eqb f $"concat" then match pl a, pl b with Some l, Some m => r_ok (prl (concat l m)) | _, _ => r_badcase end
      else if str_eqb f $"vadd" then match pl a, pl b with Some l, Some m => print_outcome prl (vadd l m) | _, _ => r_badcase end
      else if str_eqb f $"vlsh" then match pl a, parse_decN b with Some l, Some s => r_ok (prl (vlsh l s)) | _, _ => r_badcase end
      else if str_eqb f $"basis" then match parse_nat a, parse_nat b with Some n, Some i => r_ok (prl (basis n i)) | _, _ => r_badcase end
      else r_badcase
  | [f; a; b; c] =>
      (* argument identity shapes: the integer argument is the object at position a of list b;
         c says which positions share one object.  The model has value semantics: c is not used. *)
      if str_eqb f $"indexat" then match parse_nat a, pl b with
                                   | Some j, Some l => match nth_error l j with Some n => r_ok (print_decZ (index n l)) | None => r_badcase end
                                   | _, _ => r_badcase end
      else if str_eqb f $"containsat" then match parse_nat a, pl b with
                                   | Some j, Some l => match nth_error l j with Some n => r_ok (print_bool (contains n l)) | None => r_badcase end
                                   | _, _ => r_badcase end
      else if str_eqb f $"containssortedat" then match parse_nat a, pl b with
                                   | Some j, Some l => match nth_error l j with Some n => r_ok (print_bool (contains_sorted n l)) | None => r_badcase end
                                   | _, _ => r_badcase end
      else if str_eqb f $"insertat" then match parse_nat a, pl b with
                                   | Some j, Some l => match nth_error l j with Some n => r_ok (prl (insert_sorted_unique l n)) | None => r_badcase end
                                   | _, _ => r_badcase end
      else if str_eqb f $"mergeat" then match pl b with Some l => r_ok (prl (merge_unique l l)) | None => r_badcase end
      else if str_eqb f $"concatat" then match pl b with Some l => r_ok (prl (concat l l)) | None => r_badcase end
      else if str_eqb f $"basisidx" then match parse_nat a, parse_nat b, parse_nat c with
                                   | Some n, Some i, Some j => print_outcome prz (basis_idx n i j)
                                   | _, _, _ => r_badcase end
      else if str_eqb f $"extract" then match pz a, parse_decN b, parse_decN c with
                                   | Some x, Some l, Some h => r_ok (prz (extract x l h))
                                   | _, _, _ => r_badcase end
      else r_badcase
  | [f; a; b; c; d] =>
      if str_eqb f $"minmaxat" then match parse_nat a, parse_nat b, pl c with
                                    | Some i, Some j, Some l => match nth_error l i, nth_error l j with
                                                                | Some x, Some y => let '(mn, mx) := min_max x y in r_ok (prz mn ++ [sp] ++ prz mx)
                                                                | _, _ => r_badcase end
                                    | _, _, _ => r_badcase end
      else r_badcase
  | _ => r_badcase
  end.
