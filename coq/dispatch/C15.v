(* Line dispatch for C15: case line -> result line.

   Library entry points (source / expression text as hex bytes):
     parse <src>            -> ok <tree> | err parse
     translate <src>        -> ok <ir> | err <class>
     load <src>             -> ok <chain> <ops> | err <class>
     build <src>            -> ok <tree> <printed bytes> | err <class>
     print <src>            -> ok <printed bytes> | err parse
     prepare <src>          -> ok <chain> <ops> <ir> <temporaries> | err <class>
     generate <type> <src>  -> ok <output bytes> | err <class>
     calc <expr>            -> ok <hex value> | err <class>
   A script with a shift amount above 512 is not evaluated by either side (one chain element per
   doubling): every entry point after `translate` answers `ok toolarge` for it.

   The real binary:
     cli search <v> <dd> <p> <add> <double> <expr>   v, dd: 0|1 (-v given; `--` before the expression)
                                                    p, add, double, expr: hex bytes of the argument, ! = absent
     cli <eval|fmt|fmtb> <stdin|file|nofile> <src>
     cli gen <type or !> <stdin|file|nofile> <src>
                            -> ok 2 | ok 1 | ok 0 [<stdout bytes> for eval/fmt/fmtb/gen]
     cli deep <eval|fmt|fmtb|gen> <n> <kind>        a script nested n deep on standard input -> ok <exit>
   and, below the command line:
     lib <src>              every script entry point on one text: P:..|T:..|L:..|B:..|R:..|D:..|G:..
     deep <n> <kind>        the same on a script nested n deep -> ok (no entry point panics)
     parallel <limit> <k>   exec.Parallel.Execute with that limit on k algorithms -> ok <k>
   Flag syntax (Go's flag/strconv, not part of the anchored code) is classified here, for the shapes the
   harness generates: an int is [+-]?digits within int64, a float is nan | [+-]?inf(inity) |
   [+-]?digits[.digits][e[+-]digits]; anything else is a usage error.  The ensemble of `search` is
   an oracle argument of the model; the driver instantiates it with the binary method (any list of valid
   programs gives the same exit class, which is all that is compared for `search`). *)
From Coq Require Import String.
From Coq Require Import List NArith ZArith Bool.
From AV Require Import model.Proto model.Chain model.Ast model.Ir model.Printer model.Peg model.Translate
  model.AstProto model.Alloc model.Gen model.Binary model.Cli.
From AV Require model.Calc.
Import ListNotations.
Open Scope N_scope.

Definition bang : list N := [33].

(* ---- the stand-in ensemble: one algorithm, the right-to-left binary method ---- *)
Definition ens_binary (n : Z) : list (outcome (list op)) := [obind (rtl_binary n) Chain.program].

(* ---- result lines ---- *)
Definition print_exit (e : exit_class) : list N :=
  match e with Exit0 => $"0" | Exit1 => $"1" | Exit2 => $"2" end.

(* scripts with a shift amount above 512 are not evaluated by this check *)
Definition script_big (c : script) : bool := existsb (fun s => 512 <? expr_max_shift (sexpr s)) c.

Definition huge_or {A} (src : list N) (k : unit -> outcome A) (pr : A -> list N) : list N :=
  match parse src with
  | Ok c => if script_big c then r_ok $"toolarge" else print_outcome pr (k tt)
  | _ => print_outcome pr (k tt)
  end.

Definition show_temps (t : list (list N)) : list N := print_list print_bytes t.

(* ---- flag values ---- *)
Definition is_dig (c : N) : bool := (48 <=? c) && (c <=? 57).
Definition lowerc (c : N) : N := if (65 <=? c) && (c <=? 90) then c + 32 else c.

Definition strip_sign (s : list N) : bool * list N :=
  match s with
  | 45 :: r => (true, r)
  | 43 :: r => (false, r)
  | _ => (false, s)
  end.

(* -p: strconv.ParseInt(s, 0, 64) for plain decimal text *)
Definition classify_int (s : list N) : option Z :=
  let '(neg, ds) := strip_sign s in
  match ds with
  | [] => None
  | _ => if forallb is_dig ds then
           match parse_decN ds with
           | Some v => let z := if neg then (- Z.of_N v)%Z else Z.of_N v in
                       if ((- 2 ^ 63 <=? z) && (z <? 2 ^ 63))%Z then Some z else None
           | None => None
           end
         else None
  end.

Fixpoint drop_zeros (s : list N) : list N :=
  match s with
  | 48 :: r => drop_zeros r
  | _ => s
  end.

(* -add / -double: strconv.ParseFloat(s, 64) for nan, inf and plain decimal text *)
Definition classify_float (s : list N) : option fcost :=
  let low := map lowerc s in
  if str_eqb low $"nan" then Some FNan
  else
    let '(neg, body) := strip_sign low in
    if str_eqb body $"inf" || str_eqb body $"infinity" then Some (FInf neg)
    else
      (* mantissa [e exponent] *)
      let '(mant, ex) := match split 101 body with
                         | [m] => (m, Some 0%Z)
                         | [m; e] => (m, match strip_sign e with
                                         | (eneg, ed) => match ed with
                                                         | [] => None
                                                         | _ => if forallb is_dig ed then
                                                                  option_map (fun v => if eneg then (- Z.of_N v)%Z else Z.of_N v) (parse_decN ed)
                                                                else None
                                                         end
                                         end)
                         | _ => ([], None)
                         end in
      let '(ip, fp, okm) := match split 46 mant with
                            | [i] => (i, [], true)
                            | [i; f] => (i, f, true)
                            | _ => ([], [], false)
                            end in
      match ex with
      | None => None
      | Some e =>
          if okm && forallb is_dig ip && forallb is_dig fp && negb (Nat.eqb (length ip + length fp) 0) then
            let digits := ip ++ fp in
            let sig := drop_zeros digits in
            match sig with
            | [] => Some (FFin 0)
            | d0 :: _ =>
                (* scientific exponent of the value *)
                let lead := (Z.of_nat (length ip) - Z.of_nat (length digits - length sig) - 1 + e)%Z in
                if (308 <? lead)%Z then None                                  (* ErrRange *)
                else
                  let m := match parse_decN digits with Some v => Z.of_N v | None => 0%Z end in
                  let sc := (e - Z.of_nat (length fp))%Z in
                  let v := (if 0 <=? sc then m * 1024 * 10 ^ sc else m * 1024 / 10 ^ (- sc))%Z in
                  Some (FFin (if neg then - v else v)%Z)
            end
          else None
      end.

Definition opt_arg (a : list N) : option (option (list N)) :=
  if str_eqb a bang then Some None else option_map Some (parse_bytes a).

(* the invocation a `cli search` line stands for *)
Definition search_invocation (dd pa adda dbla ea : list N) : option invocation :=
  match opt_arg pa, opt_arg adda, opt_arg dbla, opt_arg ea with
  | Some p, Some ad, Some db, Some ex =>
      let pv := match p with None => Some 16%Z | Some s => classify_int s end in
      let av := match ad with None => Some (FFin 1024) | Some s => classify_float s end in
      let dv := match db with None => Some (FFin 1024) | Some s => classify_float s end in
      match pv, av, dv with
      | Some pz, Some a, Some d =>
          match ex with
          | None => Some IUsage                                  (* missing expression *)
          | Some e =>
              (* without `--` an argument that starts with '-' (and is not "-") is read as a flag *)
              match e with
              | 45 :: _ :: _ => if str_eqb dd $"1" then Some (ICmd (Search e pz a d)) else Some IUsage
              | _ => Some (ICmd (Search e pz a d))
              end
          end
      | _, _, _ => Some IUsage                                   (* flag value does not parse *)
      end
  | _, _, _, _ => None
  end.

Definition print_cli (stdout : option (outcome (list N))) (o : outcome exit_class) : list N :=
  match o with
  | Ok Exit0 => match stdout with
                | Some (Ok b) => r_ok ($"0 " ++ print_bytes b)
                | _ => r_ok $"0"
                end
  | _ => print_outcome print_exit o
  end.

(* eval / fmt / fmtb / gen on a script; guard: the command evaluates the script *)
Definition script_cli (guard : bool) (mode : list N) (src : list N) (c : cmd) (out : unit -> outcome (list N)) : list N :=
  if str_eqb mode $"nofile" then print_cli None (run_invocation ens_binary INoFile)
  else if str_eqb mode $"stdin" || str_eqb mode $"file" then
    match parse src with
    | Ok t => if guard && script_big t then r_ok $"toolarge" else print_cli (Some (out tt)) (cli ens_binary c)
    | _ => print_cli (Some (out tt)) (cli ens_binary c)
    end
  else r_badcase.

(* ---- lib <src>: every script entry point, one field each ---- *)
Definition slash (l : list N) : list N := map (fun c => if c =? 32 then 47 else c) l.
Definition field (tag : list N) (r : list N) : list N := tag ++ [58] ++ slash r.

Definition r_load (s : list N) : list N :=
  huge_or s (fun _ => lib_load s) (fun r => let '(_, p, ch) := r in enc_chain ch ++ [sp] ++ enc_ops p).
Definition r_build (s : list N) : list N :=
  huge_or s (fun _ => lib_build s) (fun t => enc_script t ++ [sp] ++ print_bytes (print_script t)).
Definition r_prepare (s : list N) : list N :=
  huge_or s (fun _ => lib_prepare s)
    (fun d => enc_chain (g_chain d) ++ [sp] ++ enc_ops (g_ops d) ++ [sp] ++ enc_ir (g_prog d) ++ [sp] ++ show_temps (g_temps d)).
Definition r_generate (typ s : list N) : list N := huge_or s (fun _ => lib_generate typ s) print_bytes.

Definition lib_fields (s : list N) : list (list N) :=
  [ field $"P" (print_outcome enc_script (lib_parse s));
    field $"T" (print_outcome enc_ir (lib_translate s));
    field $"L" (r_load s);
    field $"B" (r_build s);
    field $"R" (print_outcome print_bytes (lib_print s));
    field $"D" (r_prepare s);
    field $"G" (r_generate $"listing" s) ].
Definition run_lib (s : list N) : list N := r_ok (join [124] (lib_fields s)).

(* ---- deep <n> <kind>: nested scripts; the model parser is the un-memoised PEG (exponential in the
   depth), so it takes part up to depth 12; beyond that (to 5000) the case is an implementation-only
   check and the expected line is "ok" ---- *)
Fixpoint rep (n : nat) (s : list N) : list N := match n with O => [] | S k => s ++ rep k s end.
Definition deep_src (n : nat) (kind : list N) : option (list N) :=
  if str_eqb kind $"paren" then Some ($"return " ++ rep n $"(" ++ $"1 + 1" ++ rep n $")")
  else if str_eqb kind $"radd" then Some ($"return " ++ rep n $"1 + (" ++ $"1 + 1" ++ rep n $")")
  else if str_eqb kind $"dbl" then Some ($"return " ++ rep n $"2*(" ++ $"1" ++ rep n $")")
  else if str_eqb kind $"shl" then Some ($"return " ++ rep n $"(" ++ $"1" ++ rep n $" << 1)")
  else if str_eqb kind $"open" then Some ($"return " ++ rep n $"(" ++ $"1")
  else if str_eqb kind $"brack" then Some ($"return " ++ rep n $"[" ++ $"1" ++ rep n $"]")
  else None.

Definition answered {A} (o : outcome A) : bool := match o with Ok _ | Err _ => true | _ => false end.
Definition run_deep (n : N) (kind : list N) : list N :=
  match deep_src (N.to_nat n) kind with
  | None => r_badcase
  | Some s =>
      if n <=? 12 then
        if answered (lib_parse s) && answered (lib_translate s) && answered (lib_load s) && answered (lib_build s)
           && answered (lib_print s) && answered (lib_prepare s) && answered (lib_generate $"listing" s)
        then $"ok" else r_panic $"model"
      else if n <=? 5000 then $"ok"
      else r_badcase
  end.

(* ---- cli deep <eval|fmt|fmtb|gen> <n> <kind>: the binary on a nested script, exit class only.  Up to depth
   12 through the model parser; beyond, the model starts from the syntax tree the text denotes ---- *)
Fixpoint iter_expr (n : nat) (f : expr -> expr) (e : expr) : expr :=
  match n with O => e | S k => f (iter_expr k f e) end.
Definition one : expr := EOperand 0.
Definition deep_tree (n : nat) (kind : list N) : option (option script) :=
  let ret e := Some (Some [mkStmt [] e]) in
  if str_eqb kind $"paren" then ret (EAdd one one)
  else if str_eqb kind $"radd" then ret (iter_expr n (fun e => EAdd one e) (EAdd one one))
  else if str_eqb kind $"dbl" then ret (iter_expr n EDouble one)
  else if str_eqb kind $"shl" then ret (iter_expr n (fun e => EShift e 1) one)
  else if str_eqb kind $"open" then match n with O => ret one | _ => Some None end
  else if str_eqb kind $"brack" then match n with O => ret one | 1%nat => ret (EOperand 1) | _ => Some None end
  else None.

Definition exit_only {A} (o : outcome A) : list N := print_outcome print_exit (or_fail o (fun _ => Ok Exit0)).

Definition run_cli_deep (sub : list N) (n : N) (kind : list N) : list N :=
  let on_tree (f : script -> outcome (list N)) :=
    match deep_tree (N.to_nat n) kind with
    | Some (Some t) => exit_only (f t)
    | Some None => r_ok (print_exit Exit1)
    | None => r_badcase
    end in
  let on_src (f : list N -> outcome (list N)) :=
    match deep_src (N.to_nat n) kind with
    | Some s => exit_only (f s)
    | None => r_badcase
    end in
  if 5000 <? n then r_badcase
  else if n <=? 12 then
    if str_eqb sub $"eval" then on_src eval_out
    else if str_eqb sub $"fmt" then on_src (fmt_out false)
    else if str_eqb sub $"fmtb" then on_src (fmt_out true)
    else if str_eqb sub $"gen" then on_src (gen_out $"listing")
    else r_badcase
  else
    if str_eqb sub $"eval" then on_tree eval_tree
    else if str_eqb sub $"fmt" then on_tree (fmt_tree false)
    else if str_eqb sub $"fmtb" then on_tree (fmt_tree true)
    else if str_eqb sub $"gen" then on_tree (gen_tree $"listing")
    else r_badcase.

(* ---- parallel <limit> <k>: exec.Parallel.Execute on k algorithms ---- *)
Definition run_parallel (limit : Z) (k : N) : list N :=
  print_outcome (fun rs => print_nat (length rs)) (par_execute limit (repeat tt (N.to_nat k))).

Definition run (line : list N) : list N :=
  match split sp line with
  | [f; a] =>
      match parse_bytes a with
      | None => r_badcase
      | Some s =>
          if str_eqb f $"parse" then print_outcome enc_script (lib_parse s)
          else if str_eqb f $"translate" then print_outcome enc_ir (lib_translate s)
          else if str_eqb f $"load" then r_load s
          else if str_eqb f $"build" then r_build s
          else if str_eqb f $"print" then print_outcome print_bytes (lib_print s)
          else if str_eqb f $"prepare" then r_prepare s
          else if str_eqb f $"lib" then run_lib s
          else if str_eqb f $"calc" then print_outcome print_hexZ (lib_calc s)
          else r_badcase
      end
  | [f; a; b] =>
      if str_eqb f $"generate" then
        match parse_bytes a, parse_bytes b with
        | Some typ, Some s => r_generate typ s
        | _, _ => r_badcase
        end
      else if str_eqb f $"deep" then
        match parse_decN a with Some n => run_deep n b | None => r_badcase end
      else if str_eqb f $"parallel" then
        match parse_decZ a, parse_decN b with Some l, Some k => run_parallel l k | _, _ => r_badcase end
      else r_badcase
  | [f; sub; a; b] =>
      if str_eqb f $"cli" then
        match parse_bytes b with
        | None => r_badcase
        | Some src =>
            if str_eqb sub $"eval" then script_cli true a src (Eval src) (fun _ => eval_out src)
            else if str_eqb sub $"fmt" then script_cli false a src (Fmt false src) (fun _ => fmt_out false src)
            else if str_eqb sub $"fmtb" then script_cli true a src (Fmt true src) (fun _ => fmt_out true src)
            else r_badcase
        end
      else r_badcase
  | [f; sub; t; a; b] =>
      if str_eqb f $"cli" && str_eqb sub $"deep" then
        match parse_decN a with Some n => run_cli_deep t n b | None => r_badcase end
      else if str_eqb f $"cli" && str_eqb sub $"gen" then
        match opt_arg t, parse_bytes b with
        | Some ty, Some src =>
            let typ := match ty with None => $"listing" | Some x => x end in
            script_cli true a src (Gen typ src) (fun _ => gen_out typ src)
        | _, _ => r_badcase
        end
      else r_badcase
  | [f; sub; v; dd; p; ad; db; e] =>
      if str_eqb f $"cli" && str_eqb sub $"search" then
        match search_invocation dd p ad db e with
        | Some i => print_cli None (run_invocation ens_binary i)
        | None => r_badcase
        end
      else r_badcase
  | _ => r_badcase
  end.
