(* Line dispatch for C11: "runschain seq" -> "ok seq" | "err class". *)
From Coq Require Import String.
From Coq Require Import List NArith ZArith Bool.
From AV Require Import model.Proto model.Chain model.Runs.
Import ListNotations.
Open Scope N_scope.

Definition run (line : list N) : list N :=
  match split sp line with
  | [f; a] =>
      if str_eqb f $"runschain" then
        match parse_list parse_hexZ a with
        | Some c => print_outcome (print_list print_hexZ) (runs_chain c)
        | None => r_badcase
        end
      else r_badcase
  | _ => r_badcase
  end.
