(* Line dispatch for C11.
     runschain seq              -> result of one call
     runsshape shape seq        -> the same call, the harness holds the input in a storage shape
                                   (exact | spare | shared | prefix:K = the input is the first K elements)
     runshist tok;tok;...       -> several calls in one process, tok = seq or "=" (the same input again);
                                   every call is independent in the model: "ok r1 | r2 | ..." *)
From Coq Require Import String.
From Coq Require Import List NArith ZArith Bool.
From AV Require Import model.Proto model.Chain model.Runs.
Import ListNotations.
Open Scope N_scope.

Definition call1 (c : list Z) : list N := print_outcome (print_list print_hexZ) (runs_chain c).

Definition semi : N := 59.

(* "prefix:" ++ decimal *)
Definition shape_input (shape : list N) (c : list Z) : option (list Z) :=
  if str_eqb shape $"exact" || str_eqb shape $"spare" || str_eqb shape $"shared" then Some c
  else match split 58 shape with
       | [p; k] => if str_eqb p $"prefix" then option_map (fun n => firstn n c) (parse_nat k) else None
       | _ => None
       end.

Fixpoint hist_loop (prev : option (list Z)) (toks : list (list N)) : option (list (list N)) :=
  match toks with
  | [] => Some []
  | t :: r =>
      let oc := if str_eqb t $"=" then prev else parse_list parse_hexZ t in
      match oc with
      | Some c => option_map (cons (call1 c)) (hist_loop (Some c) r)
      | None => None
      end
  end.

Definition run (line : list N) : list N :=
  match split sp line with
  | [f; a] =>
      if str_eqb f $"runschain" then
        match parse_list parse_hexZ a with
        | Some c => call1 c
        | None => r_badcase
        end
      else if str_eqb f $"runshist" then
        match hist_loop None (split semi a) with
        | Some rs => r_ok (join $" | " rs)
        | None => r_badcase
        end
      else r_badcase
  | [f; s; a] =>
      if str_eqb f $"runsshape" then
        match parse_list parse_hexZ a with
        | Some c => match shape_input s c with Some c' => call1 c' | None => r_badcase end
        | None => r_badcase
        end
      else r_badcase
  | _ => r_badcase
  end.
