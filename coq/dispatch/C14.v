(* Line dispatch for C14: case line -> result line.

     search <expr> <p> <add> <double> <table> <best> <ops>
         the whole command (model/Search.v search_m).  <expr> hex bytes of the expression, <p> the -p flag
         (decimal, may be negative), <add> <double> decimal weights.  The ensemble is not re-run here (it is
         the subject of C01 and needs the sort oracle): <table> is the per-algorithm (doubles:adds) list and
         <ops> the program of algorithm number <best> as observed from the binary's -v log.  search_m is
         run on results that have the observed counts (a program of d doublings and a additions for every
         algorithm other than <best>, the observed program at <best>); the result at <best> gets exactly
         exec.Execute's treatment: its chain is Program.Evaluate of the program and its Err is set when that
         chain does not end in the model's own value of <expr>.
         -> ok <n hex> <selected index> <cost num/den> <stdout bytes>  |  err usage|eval|nonpos|alg|build|hint
     select <expr> <p> <add> <double> <table>
         -> ok <index> <cost> <cost of every row>   (model/Search.v select; expr and p are for the harness)
     report <expr> <p> <add> <double> <ops>
         -> ok <stdout bytes>                        (model/Search.v report)
     full <expr> <p> <add> <double>
         the whole command INCLUDING the ensemble (model/SearchEns.v search_full with the stable sort as
         oracle): generated only for targets below 2^20, where every list dict.primitive sorts has fewer
         than 12 elements, which Go's sort.Slice sorts by insertion, i.e. stably
         -> same result line as search
     evalcmd <script>   -> ok <n:i+j:value,...> <doubles>:<adds> | err reject     (model/Search.v eval_cmd)
     fmtcmd <script>    -> ok <bytes> | err reject                                (model/Search.v fmt_cmd)
     fmtbcmd <script>   -> ok <bytes> | err reject                                (model/Cli.v fmt_out true: fmt -b) *)
From Coq Require Import String.
From Coq Require Import List NArith ZArith Bool QArith.
From AV Require Import model.Proto model.Chain model.Program model.Search model.SearchEns.
From AV Require model.Cli.
Import ListNotations.
Open Scope N_scope.

Definition parse_op (s : list N) : option op :=
  match split 43 s with
  | [a; b] => match parse_nat a, parse_nat b with Some i, Some j => Some (i, j) | _, _ => None end
  | _ => None
  end.
Definition parse_ops : list N -> option (list op) := parse_list parse_op.

(* d:a *)
Definition parse_row (s : list N) : option (nat * nat) :=
  match split 58 s with
  | [a; b] => match parse_nat a, parse_nat b with Some i, Some j => Some (i, j) | _, _ => None end
  | _ => None
  end.
Definition parse_table : list N -> option (list (nat * nat)) := parse_list parse_row.

(* decimal weight: digits, optionally '.' digits *)
Definition parse_weight (s : list N) : option Q :=
  match split 46 s with
  | [a] => option_map (fun n => inject_Z (Z.of_N n)) (parse_decN a)
  | [a; b] =>
      match parse_decN a, parse_decN b with
      | Some i, Some f =>
          let den := Pos.pow 10 (Pos.of_nat (length b)) in
          Some (Qmake (Z.of_N i * Zpos den + Z.of_N f) den)
      | _, _ => None
      end
  | _ => None
  end.

Definition print_q (q : Q) : list N :=
  let r := Qred q in print_decZ (Qnum r) ++ [47] ++ print_decN (Npos (Qden r)).

(* a program with d doublings and a additions (only its Count is ever read) *)
Definition fake_prog (da : nat * nat) : list op := repeat (O, O) (fst da) ++ repeat (O, 1%nat) (snd da).

Fixpoint hinted (n : Z) (tbl : list (nat * nat)) (i best : nat) (p : list op) : outcome (list ares) :=
  match tbl with
  | [] => Ok []
  | da :: r =>
      obind (hinted n r (S i) best p) (fun t =>
        if (i =? best)%nat then
          match evaluate p with
          | Ok c => Ok (mkAres (if (last c 0 =? n)%Z then None else Some ($"end")) c p :: t)
          | Err e => Err e
          | Panic e => Panic e
          | OutOfFuel => OutOfFuel
          end
        else Ok (mkAres None [] (fake_prog da) :: t))
  end.

Definition print_sout (o : sout) : list N :=
  print_hexZ (so_n o) ++ [sp] ++ print_nat (so_best o) ++ [sp] ++ print_q (so_cost o) ++ [sp] ++ print_bytes (so_stdout o).

Definition run_search (e p a d t b o : list N) : list N :=
  match parse_bytes e, parse_decZ p, parse_weight a, parse_weight d with
  | Some expr, Some pz, Some wa, Some wd =>
      match parse_table t, parse_nat b, parse_ops o with
      | Some tbl, Some best, Some ops =>
          (* the observed program must have the observed counts *)
          if negb (match nth_error tbl best with
                   | Some da => (fst da =? fst (count ops))%nat && (snd da =? snd (count ops))%nat
                   | None => match tbl, ops with [], [] => true | _, _ => false end
                   end)
          then r_err $"hint"
          else print_outcome print_sout (search_m (fun n => hinted n tbl O best ops) expr pz (mkW wa wd))
      | _, _, _ => r_badcase
      end
  | _, _, _, _ => r_badcase
  end.

Definition print_select (w : weights) (tbl : list (nat * nat)) (r : option (nat * Q)) : list N :=
  match r with
  | None => r_err $"empty"
  | Some (i, c) => r_ok (print_nat i ++ [sp] ++ print_q c ++ [sp] ++ print_list (fun da => print_q (cost_of w da)) tbl)
  end.

Definition print_line (l : nat * op * Z) : list N :=
  let '(k, o, v) := l in
  print_nat k ++ [58] ++ print_nat (fst o) ++ [43] ++ print_nat (snd o) ++ [58] ++ print_hexZ v.

Definition print_evalcmd (r : list (nat * op * Z) * (nat * nat)) : list N :=
  print_list print_line (fst r) ++ [sp] ++ print_nat (fst (snd r)) ++ [58] ++ print_nat (snd (snd r)).

Definition reject {A} (f : A -> list N) (o : outcome A) : list N :=
  match o with
  | Ok a => r_ok (f a)
  | Err _ => r_err $"reject"
  | Panic c => r_panic c
  | OutOfFuel => r_fuel
  end.

Definition run (line : list N) : list N :=
  match split sp line with
  | [f; a] =>
      match parse_bytes a with
      | Some src =>
          if str_eqb f $"evalcmd" then reject print_evalcmd (eval_cmd src)
          else if str_eqb f $"fmtcmd" then reject print_bytes (fmt_cmd src)
          else if str_eqb f $"fmtbcmd" then reject print_bytes (Cli.fmt_out true src)
          else r_badcase
      | None => r_badcase
      end
  | [f; e; p; a; d] =>
      if str_eqb f $"full" then
        match parse_bytes e, parse_decZ p, parse_weight a, parse_weight d with
        | Some expr, Some pz, Some wa, Some wd =>
            print_outcome print_sout (search_full (fun _ => None) expr pz (mkW wa wd))
        | _, _, _, _ => r_badcase
        end
      else r_badcase
  | [f; e; p; a; d; t; b; o] =>
      if str_eqb f $"search" then run_search e p a d t b o else r_badcase
  | [f; e; p; a; d; x] =>
      match parse_weight a, parse_weight d with
      | Some wa, Some wd =>
          if str_eqb f $"select" then
            match parse_table x with
            | Some tbl => print_select (mkW wa wd) tbl (select tbl (mkW wa wd))
            | None => r_badcase
            end
          else if str_eqb f $"report" then
            match parse_ops x with
            | Some ops => print_outcome print_bytes (report ops)
            | None => r_badcase
            end
          else r_badcase
      | _, _ => r_badcase
      end
  | _ => r_badcase
  end.
