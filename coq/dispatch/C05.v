(* Line dispatch for C05 (and C17): case line -> result line.
     allocate <IR> <in> <out> <fmt>            -> ok <IR with identifiers> <temporaries>
                                                  (err badformat when the format is outside the modelled language)
     interp <IR> <in> <out> <separate|aliased> <x>
                                               -> ok <value of out|undef> <value of in|undef> <state>
     history <IR> <inA>,<outA>,<fmtA> <inB>,<outB>,<fmtB> <ops>
                                               -> ok <clone IR> <clone temporaries> <original IR> <original temporaries>
                                                     <output value, separate> <output value, aliased>
       ops (comma separated) act on an unnamed program object P and its clones: i = pass.Indexes(P),
       r = pass.ReadCounts(P), a / x = Allocator A / B on P, c = clone the latest clone (or P),
       y / b = Allocator A / B on the latest clone.  The last clone is allocated at least once.
       ir.Program.Clone copies the instructions and no pass results, and every run of the allocator
       clears all identifiers and starts the temporaries list afresh: an object's state is the
       allocation of the fresh program under the configuration LAST applied to it, whatever ran
       before on it or on the object it was cloned from.
     multi <sources> <IR1|IR2|...> <cfg1|cfg2|...> <k:c,k:c,...>
                                               -> ok <IR~temporaries~value separate~value aliased> per program, joined by '|'
       several program objects (built by the real producers from <sources>, which the model ignores;
       their instructions are the given IRs); event k:c runs the Allocator with configuration c on
       program k; every program is allocated at least once.  Programs share nothing, so each one ends
       as the allocation under the configuration last applied to it, whatever happened to the others.
     salloc <script as hex bytes> <in>,<out>,<fmt>
                                               -> ok <IR with identifiers> <temporaries> <output value, separate> <output value, aliased>
       the whole pipeline on a script: parse (model/Peg.v), acc.Translate (model/Translate.v, which
       models the sharing of operand objects between a name and its aliases), then the allocator and
       the interpreter in both modes; errors: parse, undefined, redefine, empty, conflict.
   IR: instructions joined by ';' ('-' = no instruction): a<out>:<x>,<y> | d<out>:<x> | s<out>:<x>:<n>;
   operand: decimal index, optionally followed by '@' and the identifier as hex pairs. *)
From Coq Require Import String.
From Coq Require Import List NArith ZArith Bool.
From AV Require Import model.Proto model.Ir model.Alloc model.Interp.
From AV Require model.Peg model.Translate.
Import ListNotations.
Open Scope N_scope.

Definition semi : N := 59.
Definition colon : N := 58.
Definition at_sign : N := 64.
Definition percent : N := 37.

Definition parse_operand (s : list N) : option operand :=
  match split at_sign s with
  | [i] => option_map (fun z => mkOperand [] z) (parse_decZ i)
  | [i; n] => match parse_decZ i, parse_bytes_aux n with
              | Some z, Some (c :: nm) => Some (mkOperand (c :: nm) z)
              | _, _ => None
              end
  | _ => None
  end.

Definition parse_instr (s : list N) : option instr :=
  match s with
  | k :: rest =>
      match split colon rest with
      | [o; args] =>
          match parse_operand o with
          | Some oo =>
              if k =? 97 then
                match split comma args with
                | [x; y] => match parse_operand x, parse_operand y with
                            | Some ox, Some oy => Some (mkInstr oo (IAdd ox oy))
                            | _, _ => None
                            end
                | _ => None
                end
              else if k =? 100 then
                option_map (fun ox => mkInstr oo (IDouble ox)) (parse_operand args)
              else None
          | None => None
          end
      | [o; x; n] =>
          if k =? 115 then
            match parse_operand o, parse_operand x, parse_decN n with
            | Some oo, Some ox, Some sn => Some (mkInstr oo (IShift ox sn))
            | _, _, _ => None
            end
          else None
      | _ => None
      end
  | [] => None
  end.

Definition parse_ir (s : list N) : option iprogram := parse_list_sep semi parse_instr s.

Definition print_operand (o : operand) : list N :=
  print_decZ (oindex o) ++ match oname o with [] => [] | nm => at_sign :: print_bytes nm end.

Definition print_instr (i : instr) : list N :=
  match iopn i with
  | IAdd x y => [97] ++ print_operand (iout i) ++ [colon] ++ print_operand x ++ [comma] ++ print_operand y
  | IDouble x => [100] ++ print_operand (iout i) ++ [colon] ++ print_operand x
  | IShift x s => [115] ++ print_operand (iout i) ++ [colon] ++ print_operand x ++ [colon] ++ print_decN s
  end.

Definition print_ir (p : iprogram) : list N := print_list_sep semi print_instr p.

(* The supported format language (model/Alloc.v): literal bytes, %% for a percent sign, and exactly
   one directive % [0...] [width] verb with verb in d v x X o b; width without leading zero, at
   most 64.  One pass over the bytes with a small state. *)
Inductive pstate := PLit | PSpec (zero : bool) (width : option N).

Definition verb_of (c : N) : option verb :=
  if c =? 100 then Some VDec else if c =? 118 then Some VDec
  else if c =? 120 then Some VHex else if c =? 88 then Some VHexUp
  else if c =? 111 then Some VOct else if c =? 98 then Some VBin else None.

Fixpoint parse_fmt (s : list N) (st : pstate) (pre : list N) (spec : option (verb * bool * nat)) (suf : list N)
  : option tformat :=
  match s with
  | [] => match st, spec with
          | PLit, Some (v, z, w) => Some (mkFmt (rev pre) v z w (rev suf))
          | _, _ => None
          end
  | c :: r =>
      let lit (x : N) := match spec with
                         | None => parse_fmt r PLit (x :: pre) spec suf
                         | Some _ => parse_fmt r PLit pre spec (x :: suf)
                         end in
      match st with
      | PLit => if c =? percent then parse_fmt r (PSpec false None) pre spec suf else lit c
      | PSpec z w =>
          if (c =? percent) && negb z && (match w with None => true | Some _ => false end) then lit percent
          else if (c =? 48) && (match w with None => true | Some _ => false end) then parse_fmt r (PSpec true None) pre spec suf
          else if (48 <=? c) && (c <=? 57) then
            let w' := match w with None => c - 48 | Some x => x * 10 + (c - 48) end in
            if w' <=? 64 then parse_fmt r (PSpec z (Some w')) pre spec suf else None
          else match verb_of c, spec with
               | Some v, None => parse_fmt r PLit pre (Some (v, z, match w with None => O | Some x => N.to_nat x end)) suf
               | _, _ => None
               end
      end
  end.

Definition parse_format (s : list N) : option tformat := parse_fmt s PLit [] None [].

Definition parse_mode (s : list N) : option imode :=
  if str_eqb s $"separate" then Some Separate
  else if str_eqb s $"aliased" then Some Aliased
  else None.

Definition print_optZ (o : option Z) : list N :=
  match o with Some z => print_hexZ z | None => $"undef" end.

Definition print_state (d : list (list N * option Z)) : list N :=
  print_list (fun e => print_bytes (fst e) ++ [colon] ++ print_optZ (snd e)) d.

Definition parse_cfg (s : list N) : option alloc_cfg :=
  match split comma s with
  | [i; o; fm] =>
      match parse_bytes i, parse_bytes o, option_map (fun b => parse_format b) (parse_bytes fm) with
      | Some inp, Some outp, Some (Some ft) => Some (mkCfgF inp outp ft)
      | _, _, _ => None
      end
  | _ => None
  end.

Definition unnamed_operand (o : operand) : bool := match oname o with [] => true | _ => false end.
Definition unnamed_instr (i : instr) : bool :=
  unnamed_operand (iout i) && forallb unnamed_operand (inputs (iopn i)).

(* history bookkeeping: (configuration last applied to the original, a clone exists, configuration
   last applied to the latest clone); false = A, true = B; None = not a valid history *)
Definition hist_step (st : option (option bool * bool * option bool)) (op : list N)
  : option (option bool * bool * option bool) :=
  match st with
  | None => None
  | Some (oa, hc, ca) =>
      if str_eqb op $"i" then st
      else if str_eqb op $"r" then st
      else if str_eqb op $"a" then Some (Some false, hc, ca)
      else if str_eqb op $"x" then Some (Some true, hc, ca)
      else if str_eqb op $"c" then Some (oa, true, None)
      else if str_eqb op $"b" then (if hc then Some (oa, hc, Some true) else None)
      else if str_eqb op $"y" then (if hc then Some (oa, hc, Some false) else None)
      else None
  end.

Definition print_run (outp : list N) (o : outcome machine) : list N :=
  match o with
  | Ok m => print_optZ (value_of m outp)
  | Err c => $"err:" ++ c
  | Panic c => $"panic:" ++ c
  | OutOfFuel => r_fuel
  end.

Definition run_history (p : iprogram) (ca cb : alloc_cfg) (ops : list (list N)) : list N :=
  let pick (b : bool) := if b then cb else ca in
  match fold_left hist_step ops (Some (None, false, None)) with
  | Some (oa, true, Some cl) =>
      if forallb unnamed_instr p then
        let cc := pick cl in
        match allocate cc p with
        | Ok (q, tb) =>
            let orig := match oa with Some o => allocate (pick o) p | None => Ok (p, []) end in
            match orig with
            | Ok (po, ta) =>
                r_ok (print_ir q ++ [sp] ++ print_list print_bytes tb ++ [sp]
                      ++ print_ir po ++ [sp] ++ print_list print_bytes ta ++ [sp]
                      ++ print_run (cfg_out cc) (run_interp Separate (cfg_in cc) (cfg_out cc) 1 q) ++ [sp]
                      ++ print_run (cfg_out cc) (run_interp Aliased (cfg_in cc) (cfg_out cc) 1 q))
            | e => print_outcome (fun _ => []) e
            end
        | e => print_outcome (fun _ => []) e
        end
      else r_badcase
  | _ => r_badcase
  end.

Definition bar : N := 124.
Definition tilde : N := 126.

Definition parse_event (s : list N) : option (nat * nat) :=
  match split colon s with
  | [k; c] => match parse_nat k, parse_nat c with Some a, Some b => Some (a, b) | _, _ => None end
  | _ => None
  end.

Fixpoint set_at {A} (l : list A) (k : nat) (x : A) : list A :=
  match l, k with
  | [], _ => []
  | _ :: t, O => x :: t
  | h :: t, S k' => h :: set_at t k' x
  end.

(* run the events in order; the first failing allocation is the result of the whole case *)
Fixpoint multi_events (ps : list iprogram) (cs : list alloc_cfg) (evs : list (nat * nat))
  (last : list (option alloc_cfg)) : option (outcome (list (option alloc_cfg))) :=
  match evs with
  | [] => Some (Ok last)
  | (k, c) :: r =>
      match nth_error ps k, nth_error cs c with
      | Some p, Some cfg =>
          match allocate cfg p with
          | Ok _ => multi_events ps cs r (set_at last k (Some cfg))
          | Err e => Some (Err e)
          | Panic e => Some (Panic e)
          | OutOfFuel => Some OutOfFuel
          end
      | _, _ => None
      end
  end.

Definition print_final (pc : iprogram * option alloc_cfg) : option (list N) :=
  match pc with
  | (p, Some cfg) =>
      match allocate cfg p with
      | Ok (q, t) =>
          Some (print_ir q ++ [tilde] ++ print_list print_bytes t ++ [tilde]
                ++ print_run (cfg_out cfg) (run_interp Separate (cfg_in cfg) (cfg_out cfg) 1 q) ++ [tilde]
                ++ print_run (cfg_out cfg) (run_interp Aliased (cfg_in cfg) (cfg_out cfg) 1 q))
      | _ => None
      end
  | (_, None) => None
  end.

Definition run_multi (ps : list iprogram) (cs : list alloc_cfg) (evs : list (nat * nat)) : list N :=
  match multi_events ps cs evs (map (fun _ => None) ps) with
  | Some (Ok last) =>
      match map_opt print_final (combine ps last) with
      | Some (x :: xs) => r_ok (join [bar] (x :: xs))
      | _ => r_badcase
      end
  | Some e => print_outcome (fun _ => []) e
  | None => r_badcase
  end.

Definition run_salloc (src : list N) (cfg : alloc_cfg) : list N :=
  match obind (AV.model.Peg.parse src) (fun c => obind (AV.model.Translate.translate c) (fun p => allocate cfg p)) with
  | Ok (q, t) =>
      r_ok (print_ir q ++ [sp] ++ print_list print_bytes t ++ [sp]
            ++ print_run (cfg_out cfg) (run_interp Separate (cfg_in cfg) (cfg_out cfg) 1 q) ++ [sp]
            ++ print_run (cfg_out cfg) (run_interp Aliased (cfg_in cfg) (cfg_out cfg) 1 q))
  | e => print_outcome (fun _ => []) e
  end.

Definition run (line : list N) : list N :=
  match split sp line with
  | [f; a; b] =>
      if str_eqb f $"salloc" then
        match parse_bytes a, parse_cfg b with
        | Some src, Some cfg => run_salloc src cfg
        | _, _ => r_badcase
        end
      else r_badcase
  | [f; ir; i; o; fm] =>
      if str_eqb f $"multi" then
        match map_opt parse_ir (split bar i), map_opt parse_cfg (split bar o), parse_list parse_event fm with
        | Some ps, Some cs, Some evs => run_multi ps cs evs
        | _, _, _ => r_badcase
        end
      else if str_eqb f $"history" then
        match parse_ir ir, parse_cfg i, parse_cfg o, parse_list (fun x => Some x) fm with
        | Some p, Some ca, Some cb, Some ops => run_history p ca cb ops
        | _, _, _, _ => r_badcase
        end
      else if str_eqb f $"allocate" then
        match parse_ir ir, parse_bytes i, parse_bytes o, option_map (fun b => parse_format b) (parse_bytes fm) with
        | Some p, Some inp, Some outp, Some (Some ft) =>
            print_outcome (fun r => print_ir (fst r) ++ [sp] ++ print_list print_bytes (snd r))
                          (allocate (mkCfgF inp outp ft) p)
        | Some _, Some _, Some _, Some None => r_err $"badformat"
        | _, _, _, _ => r_badcase
        end
      else r_badcase
  | [f; ir; i; o; md; x] =>
      if str_eqb f $"interp" then
        match parse_ir ir, parse_bytes i, parse_bytes o, parse_mode md, parse_hexZ x with
        | Some p, Some inp, Some outp, Some mode, Some xv =>
            print_outcome (fun m => print_optZ (value_of m outp) ++ [sp] ++ print_optZ (value_of m inp)
                                    ++ [sp] ++ print_state (dump m))
                          (run_interp mode inp outp xv p)
        | _, _, _, _, _ => r_badcase
        end
      else r_badcase
  | _ => r_badcase
  end.
