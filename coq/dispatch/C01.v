(* Line dispatch for C01: case line -> result line.
     execute <alg name> <n> <observed>    ->  ok <chain> | <program>   or  err <class> / panic <class>
     primitive <sum> <chain> <observed>   ->  ok <sum'> | <chain'>
     dictsumchain <sum>                   ->  ok <chain>
     rtl <n>                              ->  ok <chain>
     dumpconfig                           ->  ok <names of the ensemble joined by ';'>
     parallel <limit> <n> <alg;..> <observed;..> ->  ok <name> <execute result> ; <name> <execute result> ; ...
   <alg name> is the Go String() of the algorithm; it is parsed back into an alg_cfg and the parse is
   accepted only if alg_name of the result is the very same string.
   <observed> is the sum as dict.primitive returned it (the order Go's sort.Slice left): a list of
   terms d@e (d hex, e decimal), "-" = empty list, "?" = nothing observed (primitive was not reached
   or returned an error): the model then uses its stable sort. *)
From Coq Require Import String.
From Coq Require Import List NArith ZArith Bool Arith.
From AV Require Import model.Proto model.Chain model.Heuristic model.Contfrac model.Decomp
  model.Binary model.Dict model.Ensemble.
Import ListNotations.
Open Scope N_scope.

Definition at_sign : N := 64.
Definition rparen : N := 41.
Definition bar : list N := [sp; 124; sp].

Definition pseq := parse_list parse_hexZ.
Definition prseq := print_list print_hexZ.

Definition print_op (o : op) : list N := print_nat (fst o) ++ [43] ++ print_nat (snd o).
Definition print_ops := print_list print_op.

Definition parse_dterm (s : list N) : option (Z * N) :=
  match split at_sign s with
  | [d; e] => match parse_hexZ d, parse_decN e with
              | Some d', Some e' => Some (d', e')
              | _, _ => None
              end
  | _ => None
  end.
Definition print_dterm (t : Z * N) : list N := print_hexZ (fst t) ++ [at_sign] ++ print_decN (snd t).
Definition parse_dsum := parse_list parse_dterm.
Definition print_dsum := print_list print_dterm.

(* "?" = no observation *)
Definition parse_observed (s : list N) : option (option (list (Z * N))) :=
  match s with
  | [63] => Some None
  | _ => option_map Some (parse_dsum s)
  end.

(* ---- algorithm names ---- *)

Fixpoint strip_prefix (p s : list N) : option (list N) :=
  match p, s with
  | [], _ => Some s
  | a :: p', b :: s' => if a =? b then strip_prefix p' s' else None
  | _ :: _, [] => None
  end.

(* drop a final ')' *)
Definition strip_rparen (s : list N) : option (list N) :=
  match rev s with
  | c :: r => if c =? rparen then Some (rev r) else None
  | [] => None
  end.

(* "<head>)<tail>" -> (head ++ ")", tail) at the first ')' *)
Fixpoint cut_rparen (s : list N) : option (list N * list N) :=
  match s with
  | [] => None
  | c :: r => if c =? rparen then Some ([c], r)
              else match cut_rparen r with
                   | Some (h, t) => Some (c :: h, t)
                   | None => None
                   end
  end.

Definition parse_method_name (s : list N) : option method :=
  match strip_rparen s with
  | None => None
  | Some s' =>
      match strip_prefix $"fixed_window(" s' with
      | Some k => option_map Fixed (parse_decN k)
      | None =>
      match strip_prefix $"sliding_window(" s' with
      | Some k => option_map Sliding (parse_decN k)
      | None =>
      match strip_prefix $"run_length(" s' with
      | Some t => option_map RunLength (parse_decN t)
      | None =>
      match strip_prefix $"hybrid(" s' with
      | Some kt => match split comma kt with
                   | [k; t] => match parse_decN k, parse_decN t with
                               | Some k', Some t' => Some (Hybrid k' t')
                               | _, _ => None
                               end
                   | _ => None
                   end
      | None => None
      end end end end
  end.

(* sequence algorithms the harness may name: the property's list (Contfrac.seqalgs) and further
   heuristic compositions *)
Definition all_seqalgs : list seqalg :=
  seqalgs ++
  [SAHeuristic [Approximation; DeltaLargest]; SAHeuristic [Halving; Approximation; DeltaLargest];
   SAHeuristic [Halving; DeltaLargest; Approximation]; SAHeuristic [DeltaLargest; Halving];
   SAHeuristic [Approximation; Halving]; SAHeuristic [UseFirst [Halving; Approximation]; DeltaLargest];
   SAHeuristic []].

Fixpoint lookup_seqalg (name : list N) (l : list seqalg) : option seqalg :=
  match l with
  | [] => None
  | a :: r => if str_eqb name (seqalg_name a) then Some a else lookup_seqalg name r
  end.

Fixpoint parse_alg_fuel (fuel : nat) (s : list N) : option alg_cfg :=
  match fuel with
  | O => None
  | S f =>
      if str_eqb s $"binary_right_to_left" then Some ABinary
      else
      match strip_prefix $"opt(" s with
      | Some r => match strip_rparen r with
                  | Some inner => option_map AOpt (parse_alg_fuel f inner)
                  | None => None
                  end
      | None =>
      match strip_prefix $"runs(" s with
      | Some r => match strip_rparen r with
                  | Some inner => option_map ARuns (lookup_seqalg inner all_seqalgs)
                  | None => None
                  end
      | None =>
      match strip_prefix $"dictionary(" s with
      | Some r =>
          match strip_rparen r with
          | Some inner =>
              match cut_rparen inner with
              | Some (mname, c :: sname) =>
                  if c =? comma then
                    match parse_method_name mname, lookup_seqalg sname all_seqalgs with
                    | Some m, Some sa => Some (ADict m sa)
                    | _, _ => None
                    end
                  else None
              | _ => None
              end
          | None => None
          end
      | None => option_map ASeq (lookup_seqalg s all_seqalgs)
      end end end
  end.

Definition parse_alg (s : list N) : option alg_cfg :=
  match parse_alg_fuel (S (length s)) s with
  | Some a => if str_eqb (alg_name a) s then Some a else None
  | None => None
  end.

(* ---- result lines ---- *)

Definition print_result (r : result) : list N :=
  match res_err r with
  | None => r_ok (prseq (res_chain r) ++ bar ++ print_ops (res_program r))
  | Some e => r_err e
  end.

Definition print_exec (o : outcome result) : list N :=
  match o with
  | Ok r => print_result r
  | Err e => r_err e
  | Panic e => r_panic e
  | OutOfFuel => r_fuel
  end.

Definition print_prim (sc : list (Z * N) * list Z) : list N :=
  print_dsum (fst sc) ++ bar ++ prseq (snd sc).

Definition semicolon : N := 59.
Definition colon : N := 58.

Definition run (line : list N) : list N :=
  match split sp line with
  | [f] =>
      if str_eqb f $"dumpconfig" then r_ok (join [semicolon] (map alg_name ensemble))
      else r_badcase
  | [f; a] =>
      if str_eqb f $"rtl" then
        match parse_hexZ a with
        | Some n => if (n <? 0)%Z then r_badcase else print_outcome prseq (rtl_binary n)
        | None => r_badcase
        end
      else if str_eqb f $"dictsumchain" then
        match parse_dsum a with
        | Some s => print_outcome prseq (dictsumchain s)
        | None => r_badcase
        end
      else r_badcase
  | [f; a; b; c] =>
      if str_eqb f $"execute" then
        match parse_alg a, parse_hexZ b, parse_observed c with
        | Some alg, Some n, Some orc =>
            if (n <? 0)%Z then r_badcase else print_exec (execute alg n orc)
        | _, _, _ => r_badcase
        end
      else if str_eqb f $"primitive" then
        match parse_dsum a, pseq b, parse_observed c with
        | Some s, Some ch, Some orc => print_outcome print_prim (primitive s ch orc)
        | _, _, _ => r_badcase
        end
      else r_badcase
  | [f; l; b; a; c] =>
      (* parallel <limit>[:<logger mode>] <n> <alg;...> <observed;...>: the logger mode (how the harness
         feeds SetLogger) is not observable in the results; exec.Parallel returns the results in the
         order of the algorithms whatever the limit (C12_returned_complete) *)
      if str_eqb f $"parallel" then
        match parse_decN (hd [] (split colon l)), parse_hexZ b, map_opt parse_alg (split semicolon a),
              map_opt parse_observed (split semicolon c) with
        | Some lim, Some n, Some algs, Some orcs =>
            if (lim =? 0) || (n <? 0)%Z || negb (Nat.eqb (length algs) (length orcs)) then r_badcase
            else r_ok (join [sp; semicolon; sp]
                   (map (fun ao => alg_name (fst ao) ++ [sp] ++ print_exec (execute (fst ao) n (snd ao)))
                        (combine algs orcs)))
        | _, _, _, _ => r_badcase
        end
      else r_badcase
  | _ => r_badcase
  end.
