(* Line dispatch for C06: case line -> result line.
     gen <listing|chain|ops|script> <script bytes>   -> ok <output bytes> | err <class>
     runlisting <script bytes> <separate|aliased>    -> ok <value of z|undef> <x written 0|1> <registers> | err <class>
     genstdout <type> <script bytes>                 -> ok <exit status> <stdout bytes>          (real binary)
     genout <type|tmpl:type|tmpl:broken> <script bytes> ...   the binary run with -out F once per script, same F
                                                     -> ok <exit statuses> <final bytes of F | nofile>
   The generator configuration is the one of cmd/addchain/gen.go (x, z, t%d). *)
From Coq Require Import String.
From Coq Require Import List NArith ZArith Bool.
From AV Require Import model.Proto model.Peg model.AstProto model.Alloc model.Interp model.Gen.
Import ListNotations.
Open Scope N_scope.

Definition colon : N := 58.

Definition parse_mode (s : list N) : option imode :=
  if str_eqb s $"separate" then Some Separate
  else if str_eqb s $"aliased" then Some Aliased
  else None.

Definition print_optZ (o : option Z) : list N :=
  match o with Some z => print_hexZ z | None => $"undef" end.

Definition print_regs (d : list (list N * Z)) : list N :=
  print_list (fun e => print_bytes (fst e) ++ [colon] ++ print_hexZ (snd e)) d.

(* Check convention (not part of the model): a script with a shift above 4096 is not evaluated -- the
   implementation appends one chain element per doubling -- and both sides answer `err toolarge`. *)
Definition too_large (src : list N) : bool :=
  match parse src with Ok s => script_huge s | _ => false end.
(* the model call is a thunk: extraction is strict *)
Definition bounded {A} (src : list N) (o : unit -> outcome A) : outcome A :=
  if too_large src then Err ($"toolarge") else o tt.

Definition parse_sel (s : list N) : tmpl_sel :=
  if str_eqb s $"tmpl:broken" then TBroken
  else match s with
       | 116 :: 109 :: 112 :: 108 :: 58 :: name => TType name     (* tmpl:<builtin name> *)
       | _ => TType s
       end.

Definition print_file (f : option (list N)) : list N :=
  match f with Some b => print_bytes b | None => $"nofile" end.

(* genout <type> <script> ... : the scripts are generated one after the other into the same file *)
Definition run_genout (sel : list N) (args : list (list N)) : list N :=
  match map_opt parse_bytes args with
  | Some srcs =>
      if existsb too_large srcs then r_err $"toolarge"
      else let '(es, f) := gen_out_history default_cfg (parse_sel sel) None srcs in
           r_ok (print_list print_decN es ++ [sp] ++ print_file f)
  | None => r_badcase
  end.

Definition run (line : list N) : list N :=
  match split sp line with
  | f :: sel :: s1 :: s2 :: rest =>
      if str_eqb f $"genout" then run_genout sel (s1 :: s2 :: rest) else r_badcase
  | [f; a; b] =>
      if str_eqb f $"genout" then run_genout a [b]
      else if str_eqb f $"genstdout" then
        match parse_bytes b with
        | Some src => if too_large src then r_err $"toolarge"
                      else let '(e, out) := match parse_sel a with
                                            | TType name => gen_stdout default_cfg name src
                                            | TBroken => (1, [])
                                            end in r_ok (print_decN e ++ [sp] ++ print_bytes out)
        | None => r_badcase
        end
      else if str_eqb f $"gen" then
        match parse_bytes b with
        | Some src => print_outcome print_bytes (bounded src (fun _ => gen default_cfg a src))
        | None => r_badcase
        end
      else if str_eqb f $"runlisting" then
        match parse_bytes a, parse_mode b with
        | Some src, Some mode =>
            print_outcome (fun r => print_optZ (fst (fst r)) ++ [sp] ++ print_bool (snd (fst r)) ++ [sp] ++ print_regs (snd r))
                          (bounded src (fun _ => run_listing mode default_cfg src))
        | _, _ => r_badcase
        end
      else r_badcase
  | _ => r_badcase
  end.
