(* Line dispatch for C07: case line -> result line (shared dispatcher of the acc language checks). *)
From Coq Require Import List NArith.
From AV Require Import model.AstProto.
Definition run (line : list N) : list N := run_acc line.
