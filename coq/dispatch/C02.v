(* Line dispatch for C02: case line -> result line.
   validate seq | asc seq | produces seq n | superset seq list | ops seq k | op seq k |
   program seq | evaluate ops *)
From Coq Require Import String.
From Coq Require Import List NArith ZArith Bool.
From AV Require Import model.Proto model.Chain.
Import ListNotations.
Open Scope N_scope.

Definition pseq := parse_list parse_hexZ.
Definition prseq := print_list print_hexZ.

Definition print_op (o : op) : list N := print_nat (fst o) ++ [43] ++ print_nat (snd o).
Definition parse_op (s : list N) : option op :=
  match split 43 s with
  | [a; b] => match parse_nat a, parse_nat b with
              | Some i, Some j => Some (i, j)
              | _, _ => None
              end
  | _ => None
  end.
Definition parse_ops := parse_list parse_op.
Definition print_ops := print_list print_op.
Definition prunit (_ : unit) : list N := [45].

(* The position argument of Ops / Op is a Go int.  The model's positions are nat, which cannot hold
   2^63-1 in unary, so a position beyond the sequence is answered here without converting it:
   [ops_go c k] is Panic "index" for every k >= length c, k <> 0 (C02_ops_out_of_range).  A negative
   position makes Go panic in c[:k] (slice bounds out of range): same class. *)
Definition parse_pos := parse_decZ.
Definition ops_at (c : list Z) (k : Z) : outcome (list op) :=
  if (k <? 0)%Z then Panic $"index"
  else if (Z.of_nat (length c) <? k)%Z then Panic $"index"
  else ops_go c (Z.to_nat k).

Definition run (line : list N) : list N :=
  match split sp line with
  | [f; a] =>
      if str_eqb f $"validate" then match pseq a with Some c => print_outcome prunit (validate c) | None => r_badcase end
      else if str_eqb f $"asc" then match pseq a with Some c => r_ok (print_bool (is_asc c)) | None => r_badcase end
      else if str_eqb f $"program" then match pseq a with Some c => print_outcome print_ops (program c) | None => r_badcase end
      else if str_eqb f $"evaluate" then match parse_ops a with Some p => print_outcome prseq (evaluate p) | None => r_badcase end
      else r_badcase
  | [f; a; b] =>
      if str_eqb f $"produces" then match pseq a, parse_hexZ b with
                                    | Some c, Some n => print_outcome prunit (produces c n)
                                    | _, _ => r_badcase end
      else if str_eqb f $"superset" then match pseq a, pseq b with
                                    | Some c, Some ts => print_outcome prunit (superset c ts)
                                    | _, _ => r_badcase end
      else if str_eqb f $"ops" then match pseq a, parse_pos b with
                                    | Some c, Some k => print_outcome print_ops (ops_at c k)
                                    | _, _ => r_badcase end
      else if str_eqb f $"op" then match pseq a, parse_pos b with
                                    | Some c, Some k => print_outcome print_op (obind (ops_at c k) (fun l =>
                                                          match l with [] => Err $"notsum" | o :: _ => Ok o end))
                                    | _, _ => r_badcase end
      else r_badcase
  | _ => r_badcase
  end.
