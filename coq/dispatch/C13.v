(* Line dispatch for C13: case line -> result line.
     calc <bytes>       -> ok <hex value> | err <class>
     setstring <bytes>  -> ok <hex value> | err number     (math/big SetString(s, 0) alone) *)
From Coq Require Import String.
From Coq Require Import List NArith ZArith Bool.
From AV Require Import model.Proto model.Calc.
Import ListNotations.
Open Scope N_scope.

Definition run (line : list N) : list N :=
  match split sp line with
  | [f; a] =>
      if str_eqb f $"calc" then
        match parse_bytes a with
        | Some s => print_outcome print_hexZ (eval s)
        | None => r_badcase
        end
      else if str_eqb f $"setstring" then
        match parse_bytes a with
        | Some s => match set_string0 s with
                    | Some v => r_ok (print_hexZ v)
                    | None => r_err $"number"
                    end
        | None => r_badcase
        end
      else r_badcase
  | _ => r_badcase
  end.
