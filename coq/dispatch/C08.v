(* Line dispatch for C08:  findsequence <alg name> <targets>  ->  ok <chain> <targets after> | err noseq | panic <class> *)
From Coq Require Import String.
From Coq Require Import List NArith ZArith Bool.
From AV Require Import model.Proto model.Lists model.Chain model.Heuristic model.Contfrac.
Import ListNotations.
Open Scope N_scope.

Definition pl := parse_list parse_hexZ.
Definition prl := print_list print_hexZ.

(* a few configurations outside the property's list, to exercise useFirst's String() and nil handling *)
Definition extra_algs : list seqalg :=
  [SAHeuristic []; SAHeuristic [UseFirst [Halving]]; SAHeuristic [Halving; Halving];
   SAHeuristic [UseFirst [Halving; DeltaLargest]; Approximation];
   SAHeuristic [DeltaLargest; Halving]; SAHeuristic [Approximation; Halving]].

Fixpoint lookup (name : list N) (l : list seqalg) : option seqalg :=
  match l with
  | [] => None
  | a :: r => if str_eqb name (seqalg_name a) then Some a else lookup name r
  end.

(* Heuristic compositions as trees, independent of String():  t ::= H | D | A | U(t,...,t) | U()
   An algorithm token "T=<t>" is heuristic.NewAlgorithm(<t>) with U = heuristic.UseFirst. *)
Fixpoint parse_heur (fuel : nat) (s : list N) : option (heur * list N) :=
  match fuel with
  | O => None
  | S f =>
    match s with
    | 72 :: r => Some (Halving, r)
    | 68 :: r => Some (DeltaLargest, r)
    | 65 :: r => Some (Approximation, r)
    | 85 :: 40 :: 41 :: r => Some (UseFirst [], r)
    | 85 :: 40 :: r =>
        match (fix items (g : nat) (s : list N) : option (list heur * list N) :=
                 match g with
                 | O => None
                 | S g' =>
                   match parse_heur f s with
                   | Some (h, 44 :: r') =>
                       match items g' r' with
                       | Some (hs, r'') => Some (h :: hs, r'')
                       | None => None
                       end
                   | Some (h, 41 :: r') => Some ([h], r')
                   | _ => None
                   end
                 end) f r with
        | Some (hs, r') => Some (UseFirst hs, r')
        | None => None
        end
    | _ => None
    end
  end.

Definition lookup_alg (a : list N) : option seqalg :=
  match a with
  | 84 :: 61 :: t =>                       (* "T=" *)
      match parse_heur (S (length t)) t with
      | Some (h, []) => Some (SAHeuristic [h])
      | _ => None
      end
  | _ => lookup a (seqalgs ++ extra_algs)
  end.

(* ---- shist: a history of calls in one process.  Each call is independent (find_sequence_alg per
   call); the only state is the caller's own slices: "n:s:list" makes slot s a new slice, "c:alg:s"
   calls FindSequence on slot s (contfrac leaves it sorted), "st:s:i:d" is the caller adding d to its
   own target i of slot s, "sr:k:i:d" is the caller scribbling on result k (no effect on anything the
   library does later).  Result: the call results in order, the slots at the end, one flag per call
   (earlier result unchanged when re-read at the end) and the undocumented-sharing code 0. ---- *)
Definition semi : N := 59.
Definition colon : N := 58.
Definition slash : N := 47.

Fixpoint set_nth {A} (d : A) (i : nat) (v : A) (l : list A) : list A :=
  match i, l with
  | O, [] => [v]
  | O, _ :: r => v :: r
  | S j, [] => d :: set_nth d j v []
  | S j, x :: r => x :: set_nth d j v r
  end.

Fixpoint add_nth (i : nat) (d : Z) (l : list Z) : list Z :=
  match i, l with
  | _, [] => []
  | O, x :: r => (x + d)%Z :: r
  | S j, x :: r => x :: add_nth j d r
  end.

Definition call_result (alg : seqalg) (ts : list Z) : list N :=
  match find_sequence_alg alg ts with
  | Ok c => $"ok:" ++ prl c ++ [colon] ++ prl (targets_after alg ts)
  | Err e => $"err:" ++ e
  | Panic e => $"panic:" ++ e
  | OutOfFuel => $"fuel"
  end.

(* state: slots, results (most recent first) *)
Definition hstep (st : list (list Z) * list (list N)) (fields : list (list N))
  : option (list (list Z) * list (list N)) :=
  let '(slots, results) := st in
  match fields with
  | [k; a; b] =>
      if str_eqb k $"n" then
        match parse_nat a, pl b with
        | Some s, Some l => Some (set_nth [] s l slots, results)
        | _, _ => None
        end
      else if str_eqb k $"c" then
        match lookup_alg a, parse_nat b with
        | Some alg, Some s =>
            let ts := nth s slots [] in
            Some (set_nth [] s (targets_after alg ts) slots, call_result alg ts :: results)
        | _, _ => None
        end
      else None
  | [k; a; b; c] =>
      if str_eqb k $"st" then
        match parse_nat a, parse_nat b, parse_hexZ c with
        | Some s, Some i, Some d =>
            if Nat.ltb s (length slots) then Some (set_nth [] s (add_nth i d (nth s slots [])) slots, results)
            else Some st
        | _, _, _ => None
        end
      else if str_eqb k $"sr" then
        match parse_nat a, parse_nat b, parse_hexZ c with
        | Some _, Some _, Some _ => Some st
        | _, _, _ => None
        end
      else None
  | _ => None
  end.

Fixpoint hrun (st : list (list Z) * list (list N)) (steps : list (list N))
  : option (list (list Z) * list (list N)) :=
  match steps with
  | [] => Some st
  | x :: r => match hstep st (split colon x) with
              | Some st' => hrun st' r
              | None => None
              end
  end.

Definition dash : list N := [45].
Definition run_history (script : list N) : list N :=
  match hrun ([], []) (split semi script) with
  | None => r_badcase
  | Some (slots, results) =>
      let rs := rev results in
      r_ok ((match rs with [] => dash | _ => join [semi] rs end) ++ [sp] ++
            (match slots with [] => dash | _ => join [slash] (map prl slots) end) ++ [sp] ++
            (match rs with [] => dash | _ => map (fun _ => 49) rs end) ++ [sp] ++ [48])
  end.

Definition run (line : list N) : list N :=
  match split sp line with
  | [f; a] => if str_eqb f $"shist" then run_history a
              else if str_eqb f $"hname" then
                match lookup_alg a with Some alg => r_ok (seqalg_name alg) | None => r_badcase end
              else r_badcase
  | [f; a; b] =>
      if str_eqb f $"findsequence" then
        match lookup_alg a, pl b with
        | Some alg, Some ts =>
            match find_sequence_alg alg ts with
            | Ok c => r_ok (prl c ++ [sp] ++ prl (targets_after alg ts))
            | Err e => r_err e
            | Panic e => r_panic e
            | OutOfFuel => r_fuel
            end
        | _, _ => r_badcase
        end
      else r_badcase
  | _ => r_badcase
  end.
