(* Line dispatch for C08:  findsequence <alg name> <targets>  ->  ok <chain> <targets after> | err noseq | panic <class> *)
From Coq Require Import String.
From Coq Require Import List NArith ZArith Bool.
From AV Require Import model.Proto model.Lists model.Chain model.Heuristic model.Contfrac.
Import ListNotations.
Open Scope N_scope.

Definition pl := parse_list parse_hexZ.
Definition prl := print_list print_hexZ.

(* a few configurations outside the property's list, to exercise useFirst's String() and nil handling *)
Definition extra_algs : list seqalg :=
  [SAHeuristic []; SAHeuristic [UseFirst [Halving]]; SAHeuristic [Halving; Halving];
   SAHeuristic [UseFirst [Halving; DeltaLargest]; Approximation];
   SAHeuristic [DeltaLargest; Halving]; SAHeuristic [Approximation; Halving]].

Fixpoint lookup (name : list N) (l : list seqalg) : option seqalg :=
  match l with
  | [] => None
  | a :: r => if str_eqb name (seqalg_name a) then Some a else lookup name r
  end.

Definition run (line : list N) : list N :=
  match split sp line with
  | [f; a; b] =>
      if str_eqb f $"findsequence" then
        match lookup a (seqalgs ++ extra_algs), pl b with
        | Some alg, Some ts =>
            match find_sequence_alg alg ts with
            | Ok c => r_ok (prl c ++ [sp] ++ prl (targets_after alg ts))
            | Err e => r_err e
            | Panic e => r_panic e
            | OutOfFuel => r_fuel
            end
        | _, _ => r_badcase
        end
      else r_badcase
  | _ => r_badcase
  end.
