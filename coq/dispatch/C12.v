(* Line dispatch for C12: case line -> result line.
     parallel k=<n> limit=<z> strategy=<perm:i,j,..|holdout:i|saturate|free:<rep>|stuck>
         -> ok slots=<..> sat=<n|-> early=<0|1> over=<0|1> | ok stuck | panic makechan
     accepts k=<n> limit=<n> trace=<s0,d0,..,r> slots=<..>   -> ok <0|1>
     lang k=<n> limit=<n> trace=<..>                         -> ok <0|1>
     race ensemble                                           -> ok norace
     named k=<n> limit=<n> strategy=<..> algs=<name.value,..>
         -> ok slots=<values> sat=<n|-> early=<0|1> over=<0|1> calls=<value>x<count>,..
   Results are identified by the index of the algorithm that produced them (R = nat, res = id). *)
From Coq Require Import String.
From Coq Require Import List NArith ZArith Bool.
From AV Require Import model.Proto model.Par.
Import ListNotations.
Open Scope N_scope.

Fixpoint strip_prefix (p s : list N) : option (list N) :=
  match p, s with
  | [], _ => Some s
  | a :: p', b :: s' => if a =? b then strip_prefix p' s' else None
  | _ :: _, [] => None
  end.

Definition parse_event (s : list N) : option event :=
  match s with
  | [114] => Some EReturn                                            (* r *)
  | 115 :: d => option_map EStart (parse_nat d)                      (* s<i> *)
  | 100 :: d => option_map EDone (parse_nat d)                       (* d<i> *)
  | _ => None
  end.

Definition print_slot (o : option nat) : list N :=
  match o with Some i => print_nat i | None => [101] end.           (* e = empty slot *)
Definition print_slots (l : list (option nat)) : list N := print_list print_slot l.

Definition res_id (i : nat) : nat := i.

(* the order in which the controller opens the gates *)
Definition order_of (k : nat) (strategy : list N) : option (list nat) :=
  match split 58 strategy with
  | [name; arg] =>
      if str_eqb name $"perm" then parse_list parse_nat arg
      else if str_eqb name $"holdout" then
        match parse_nat arg with
        | Some i => Some (filter (fun j => negb (Nat.eqb j i)) (seq 0 k) ++ [i])
        | None => None
        end
      else if str_eqb name $"free" then match parse_nat arg with Some _ => Some [] | None => None end
      else None
  | [name] =>
      if str_eqb name $"saturate" then Some (seq 0 k)
      else if str_eqb name $"stuck" then Some []
      else None
  | _ => None
  end.

Definition is_free (strategy : list N) : bool :=
  match strip_prefix $"free:" strategy with Some _ => true | None => false end.

Definition run_parallel (k : nat) (limit : Z) (strategy : list N) : list N :=
  match order_of k strategy with
  | None => r_badcase
  | Some order =>
      if (limit <? 0)%Z then r_panic $"makechan"                      (* make(chan token, p.limit) *)
      else
        let o := simulate nat k (Z.to_nat limit) res_id order in
        if o_returned o then
          r_ok ($"slots=" ++ print_slots (o_slots o)
                ++ $" sat=" ++ (if is_free strategy then [45] else print_nat (o_sat o))
                ++ $" early=" ++ print_bool (o_early o)
                ++ $" over=" ++ print_bool (o_over o))
        else r_ok $"stuck"
  end.

Definition run_accepts (k limit : nat) (t : list event) (slots : list N) : list N :=
  match slots_after nat k limit res_id t with
  | Some sl => r_ok (print_bool (accepts nat k limit res_id t && str_eqb (print_slots sl) slots))
  | None => r_ok (print_bool false)
  end.

(* ---- named k=<n> limit=<n> strategy=<..> algs=<name.value,..> ----
   Position i of the list holds algorithm value <value> (the same value at two positions = the same
   algorithm instance listed twice) whose String() is name number <name>.  The transition system is
   parametric in `res` only: names do not occur in it, so they are parsed and ignored -- every
   listed position is spawned, run and stored, whatever the algorithms are called. *)
Definition parse_alg (s : list N) : option (nat * nat) :=
  match split 46 s with
  | [n; v] => match parse_nat n, parse_nat v with Some a, Some b => Some (a, b) | _, _ => None end
  | _ => None
  end.

Fixpoint count_occ_nat (x : nat) (l : list nat) : nat :=
  match l with [] => O | y :: r => if Nat.eqb x y then S (count_occ_nat x r) else count_occ_nat x r end.
Fixpoint dedup (seen l : list nat) : list nat :=
  match l with
  | [] => []
  | x :: r => if existsb (Nat.eqb x) seen then dedup seen r else x :: dedup (x :: seen) r
  end.

Definition run_named (k limit : nat) (strategy : list N) (algs : list (nat * nat)) : list N :=
  let vals := map snd algs in
  if negb (Nat.eqb (length vals) k) then r_badcase else
  match order_of k strategy with
  | None => r_badcase
  | Some order =>
      let o := simulate nat k limit (fun i => nth i vals O) order in
      if o_returned o then
        r_ok ($"slots=" ++ print_slots (o_slots o)
              ++ $" sat=" ++ (if is_free strategy then [45] else print_nat (o_sat o))
              ++ $" early=" ++ print_bool (o_early o)
              ++ $" over=" ++ print_bool (o_over o)
              ++ $" calls=" ++ print_list (fun v => print_nat v ++ [120] ++ print_nat (count_occ_nat v vals))
                                          (dedup [] vals))
      else r_ok $"stuck"
  end.

Definition run (line : list N) : list N :=
  match split sp line with
  | [f; a] =>
      (* supporting run under the Go race detector: nothing to model, the expected outcome is fixed *)
      if str_eqb f $"race" then r_ok $"norace" else r_badcase
  | [f; a; b; c] =>
      match strip_prefix $"k=" a, strip_prefix $"limit=" b with
      | Some ks, Some ls =>
          if str_eqb f $"parallel" then
            match parse_nat ks, parse_decZ ls, strip_prefix $"strategy=" c with
            | Some k, Some limit, Some st => run_parallel k limit st
            | _, _, _ => r_badcase
            end
          else if str_eqb f $"lang" then
            match parse_nat ks, parse_nat ls, strip_prefix $"trace=" c with
            | Some k, Some limit, Some ts =>
                match parse_list parse_event ts with
                | Some t => r_ok (print_bool (accepts nat k limit res_id t))
                | None => r_badcase
                end
            | _, _, _ => r_badcase
            end
          else r_badcase
      | _, _ => r_badcase
      end
  | [f; a; b; c; d] =>
      if str_eqb f $"accepts" then
        match strip_prefix $"k=" a, strip_prefix $"limit=" b, strip_prefix $"trace=" c, strip_prefix $"slots=" d with
        | Some ks, Some ls, Some ts, Some sl =>
            match parse_nat ks, parse_nat ls, parse_list parse_event ts with
            | Some k, Some limit, Some t => run_accepts k limit t sl
            | _, _, _ => r_badcase
            end
        | _, _, _, _ => r_badcase
        end
      else if str_eqb f $"named" then
        match strip_prefix $"k=" a, strip_prefix $"limit=" b, strip_prefix $"strategy=" c, strip_prefix $"algs=" d with
        | Some ks, Some ls, Some st, Some al =>
            match parse_nat ks, parse_nat ls, parse_list parse_alg al with
            | Some k, Some limit, Some algs => run_named k limit st algs
            | _, _, _ => r_badcase
            end
        | _, _, _, _ => r_badcase
        end
      else r_badcase
  | _ => r_badcase
  end.
