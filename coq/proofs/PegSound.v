(* Every tree the parser model returns is well formed (parse_wf): legal identifiers, operands in
   [0, 2^63), shift amounts below 2^64, no dbl-class identifier where a shift-expression starts,
   >= 1 statement and exactly the last unnamed.  Hence the formatter's fixpoint property. *)
From Coq Require Import List NArith ZArith Lia Bool Arith.
From AV Require Import model.Proto model.Ast model.Printer model.Peg model.Translate proofs.PegBasics proofs.PegExpr proofs.PegProofs.
Import ListNotations.
Open Scope N_scope.

(* ---------- inversion of the combinators ---------- *)
Lemma por_got {A} e (p : pres A) a r : por e p = PGot false a r -> e = false /\ p = PGot false a r.
Proof.
  destruct p as [f|f a' r'|]; cbn [por]; try discriminate. intros H. injection H as H <- <-.
  apply orb_false_iff in H as [-> ->]. auto.
Qed.
Lemma por_fail {A} e (p : pres A) : por e p = PFail false -> e = false /\ p = PFail false.
Proof.
  destruct p as [f|f a' r'|]; cbn [por]; try discriminate. intros H. injection H as H.
  apply orb_false_iff in H as [-> ->]. auto.
Qed.
Lemma pbind_got {A B} (p : pres A) (k : A -> list N -> pres B) b r :
  pbind p k = PGot false b r -> exists a r1, p = PGot false a r1 /\ k a r1 = PGot false b r.
Proof.
  destruct p as [f|f a r1|]; cbn [pbind]; try discriminate. intros H. apply por_got in H as [-> H]. eauto.
Qed.
Lemma palt_got {A} (p : pres A) q a r :
  palt p q = PGot false a r -> p = PGot false a r \/ (p = PFail false /\ q tt = PGot false a r).
Proof.
  destruct p as [f|f a' r'|]; cbn [palt]; try discriminate.
  - intros H. apply por_got in H as [-> H]. auto.
  - intros H. auto.
Qed.
Lemma palt_fail {A} (p : pres A) q : palt p q = PFail false -> p = PFail false /\ q tt = PFail false.
Proof.
  destruct p as [f|f a' r'|]; cbn [palt]; try discriminate. intros H. apply por_fail in H as [-> H]. auto.
Qed.

(* ---------- lexical layer ---------- *)
Lemma p_ident_spec s n r : p_ident s = Some (n, r) -> ident_ok n = true /\ s = n ++ r /\ sepr r.
Proof.
  unfold p_ident. destruct s as [|c t]; [discriminate|]. destruct (is_alpha_ c) eqn:Ec; [|discriminate].
  destruct (span is_idc t) as [a b] eqn:Es. intros H. injection H as <- <-.
  destruct (span_spec _ _ _ _ Es) as (-> & Ha & Hb). repeat split; auto. simpl. now rewrite Ec, Ha.
Qed.

Lemma digits_val_bound b ds : forall acc v, acc < 2 ^ 64 -> digits_val b acc ds = Some v -> v < 2 ^ 64.
Proof.
  induction ds as [|c ds IH]; intros acc v Ha H; cbn [digits_val] in H.
  - now injection H as <-.
  - destruct (digit_val c) as [dv|]; [|discriminate]. destruct (dv <? b); [|discriminate].
    destruct (acc * b + dv <? 2 ^ 64) eqn:E; [|discriminate]. apply N.ltb_lt in E. eapply IH; eauto.
Qed.

Lemma parse_uint_go_bound t v : parse_uint_go t = Some v -> v < 2 ^ 64.
Proof.
  assert (H0 : 0 < 2 ^ 64) by reflexivity.
  assert (Hd : forall b ds, digits_val b 0 ds = Some v -> v < 2 ^ 64) by (intros; eapply digits_val_bound; eauto).
  unfold parse_uint_go. destruct t as [|c r]; [discriminate|].
  destruct (c =? 48); [|apply Hd].
  destruct r as [|p [|q ds]]; try apply Hd.
  destruct (lower p =? 98); [apply Hd|]. destruct (lower p =? 111); [apply Hd|].
  destruct (lower p =? 120); apply Hd.
Qed.

Lemma p_uint_got s v r : p_uint s = PGot false v r -> v < 2 ^ 64.
Proof.
  unfold p_uint. destruct (lit_text s) as [[t r']|]; [|discriminate].
  destruct (parse_uint_go t) as [v'|] eqn:E; [|discriminate]. intros H. injection H as <- <-.
  eapply parse_uint_go_bound; eauto.
Qed.

Lemma wf_false_true e : wfe false e -> (forall n, e <> EIdent n) -> wfe true e.
Proof. destruct e; auto. intros _ H. exfalso. eapply H; reflexivity. Qed.

Lemma p_index_got s e r : p_index s = PGot false e r -> wfe true e /\ forall n, e <> EIdent n.
Proof.
  unfold p_index. destruct (lit [91] s) as [r1|]; [|discriminate]. intros H.
  apply pbind_got in H as (v & r2 & Hu & H). apply p_uint_got in Hu.
  destruct (lit [93] (skipws r2)) as [r3|]; [|discriminate]. injection H as Hf <- <-.
  apply N.leb_gt in Hf. split; [|discriminate]. cbn [wf_expr]. unfold to_int.
  replace (v <? 2 ^ 63) with true by (symmetry; apply N.ltb_lt; exact Hf).
  apply andb_true_iff. split; [apply Z.leb_le|apply Z.ltb_lt]; lia.
Qed.

(* an operand is well formed below a shift/double; an identifier result spells the consumed text *)
Lemma p_operand_got s e r : p_operand s = PGot false e r ->
  wfe false e /\ (wfe true e \/ exists n, e = EIdent n /\ s = n ++ r).
Proof.
  unfold p_operand. destruct (lit [49] s) as [r1|].
  - intros H. injection H as <- <-. split; [reflexivity|left; reflexivity].
  - intros H. apply palt_got in H as [H|[_ H]].
    + apply p_index_got in H as [H _]. split; [now apply wf_mono|now left].
    + destruct (p_ident s) as [[n r1]|] eqn:Ei; [|discriminate]. injection H as <- <-.
      apply p_ident_spec in Ei as (Hok & -> & _). split; [|right; eauto].
      cbn [wf_expr]. rewrite Hok. reflexivity.
Qed.

(* ---------- expressions ---------- *)
Section Sound.
Variable pe : list N -> pres expr.
Hypothesis Hpe : forall s e r, pe s = PGot false e r -> wfe true e.

Lemma p_base_got s e r : p_base pe s = PGot false e r ->
  wfe false e /\ (wfe true e \/ exists n, e = EIdent n /\ s = n ++ r).
Proof using Hpe.
  unfold p_base. intros H. apply palt_got in H as [H|[_ H]].
  - unfold p_paren in H. destruct (lit [40] s) as [r1|]; [|discriminate].
    apply pbind_got in H as (e1 & r2 & He & H). destruct (lit [41] (skipws r2)) as [r3|]; [|discriminate].
    injection H as <- <-. apply Hpe in He. split; [now apply wf_mono|now left].
  - now apply p_operand_got.
Qed.

Lemma dbl_class_spec n : dbl_class n = true ->
  exists c t, n = 100 :: 98 :: 108 :: c :: t /\ (is_alpha_ c = true \/ c = 49).
Proof using.
  unfold dbl_class. destruct n as [|c1 [|c2 [|c3 [|c t]]]]; try discriminate. intros H.
  apply andb_true_iff in H as [H H4]. apply andb_true_iff in H as [H H3]. apply andb_true_iff in H as [H1 H2].
  apply N.eqb_eq in H1, H2, H3. subst. exists c, t. split; [reflexivity|].
  apply orb_true_iff in H4 as [H|H]; [now left|right; now apply N.eqb_eq].
Qed.

(* where the doubling alternative fails, the identifier read by the third alternative is not of the dbl class *)
Lemma alt2_fail_ident n r : ident_ok n = true -> alt2 pe (n ++ r) = PFail false -> dbl_class n = false.
Proof using.
  intros Hok Hf. destruct (dbl_class n) eqn:Ed; [|reflexivity]. exfalso.
  destruct (dbl_class_spec n Ed) as (c & t & -> & Hc).
  unfold alt2 in Hf. cbn [app] in Hf. rewrite skipws_nows in Hf by reflexivity.
  change (p_dblop (100 :: 98 :: 108 :: c :: t ++ r)) with (Some (c :: t ++ r)) in Hf. cbv iota in Hf.
  destruct Hc as [Hc| ->].
  - rewrite skipws_nows in Hf by (simpl; now apply alpha_nows).
    pose proof (alpha_cases c Hc) as Hcc.
    assert (Hb : exists r', p_base pe (c :: t ++ r) = PGot false (EIdent (fst (c :: fst (span is_idc (t ++ r)), r'))) r').
    { unfold p_base, p_paren. rewrite lit1_ne by lia. cbn [palt por orb]. unfold p_operand.
      rewrite lit1_ne by lia. unfold p_index. rewrite lit1_ne by lia. cbn [palt por orb].
      unfold p_ident. rewrite Hc. destruct (span is_idc (t ++ r)) as [a b]. exists b. reflexivity. }
    destruct Hb as (r' & Hb). rewrite Hb in Hf. discriminate Hf.
  - rewrite skipws_nows in Hf by reflexivity. rewrite base_one in Hf. discriminate Hf.
Qed.

Lemma p_shift_got s e r : p_shift pe s = PGot false e r -> wfe true e.
Proof using Hpe.
  rewrite p_shift_unfold. intros H. apply palt_got in H as [H|[_ H]].
  - apply pbind_got in H as (x & r1 & Hb & H). apply p_base_got in Hb as [Hx _].
    destruct (p_shiftop (skipws r1)) as [r2|]; [|discriminate].
    apply pbind_got in H as (n & r3 & Hu & H). injection H as <- <-. apply p_uint_got in Hu.
    cbn [wf_expr]. rewrite Hx. apply N.ltb_lt. exact Hu.
  - apply palt_got in H as [H|[Hf H]].
    + unfold alt2 in H. destruct (p_dblop (skipws s)) as [r1|]; [|discriminate].
      apply pbind_got in H as (x & r2 & Hb & H). injection H as <- <-. apply p_base_got in Hb as [Hx _]. exact Hx.
    + apply p_base_got in H as [Hw [Ht|(n & -> & ->)]]; [exact Ht|].
      pose proof (wf_ident_ok _ _ Hw) as Hok.
      cbn [wf_expr]. rewrite Hok. rewrite (alt2_fail_ident n r Hok Hf). reflexivity.
Qed.

Lemma p_addrest_got n : forall e0 acc s e r, p_addrest pe n e0 acc s = PGot false e r ->
  e0 = false /\ (wfe true acc -> wfe true e).
Proof using Hpe.
  induction n as [|n IH]; intros e0 acc s e r H; [discriminate|]. cbn [p_addrest] in H.
  destruct (p_addop (skipws s)) as [r1|].
  - destruct (p_shift pe (skipws r1)) as [f|f y r2|] eqn:Es; [| |discriminate].
    + injection H as H <- <-. apply orb_false_iff in H as [-> _]. auto.
    + apply IH in H as [H Hw]. apply orb_false_iff in H as [-> ->]. split; [reflexivity|].
      intros Ha. apply Hw. cbn [wf_expr]. rewrite Ha. now rewrite (p_shift_got _ _ _ Es).
  - injection H as -> <- <-. auto.
Qed.

Lemma p_add_got s e r : p_add pe s = PGot false e r -> wfe true e.
Proof using Hpe.
  unfold p_add. intros H. apply pbind_got in H as (x & r1 & Hs & H).
  apply pbind_got in H as (e1 & r2 & Ha & H). injection H as <- <-.
  apply p_addrest_got in Ha as [_ Ha]. apply Ha. eapply p_shift_got; eauto.
Qed.
End Sound.

Lemma p_expr_got f : forall s e r, p_expr f s = PGot false e r -> wfe true e.
Proof.
  induction f as [|f IH]; intros s e r H; [discriminate|]. cbn [p_expr] in H.
  eapply p_add_got; eauto.
Qed.

(* ---------- statements ---------- *)
Lemma p_assignment_got f s st r : p_assignment (p_expr f) s = PGot false st r -> named_ok st.
Proof.
  unfold p_assignment. destruct (p_ident (skipws s)) as [[n r1]|] eqn:Ei; [|discriminate].
  destruct (lit [61] (skipws r1)) as [r2|]; [|discriminate]. intros H.
  apply pbind_got in H as (e & r3 & He & H). destruct (lit [10] (skipws r3)) as [r4|]; [|discriminate].
  injection H as <- <-. apply p_ident_spec in Ei as (Hok & _). apply p_expr_got in He. split; assumption.
Qed.

Lemma p_return_got f s st r : p_return (p_expr f) s = PGot false st r -> sname st = [] /\ wfe true (sexpr st).
Proof.
  unfold p_return. intros H. apply pbind_got in H as (e & r1 & He & H). injection H as <- <-.
  apply p_expr_got in He. auto.
Qed.

Lemma p_assignments_got f n : forall s l r, p_assignments (p_expr f) n s = PGot false l r -> Forall named_ok l.
Proof.
  induction n as [|n IH]; intros s l r H; [discriminate|]. cbn [p_assignments] in H.
  destruct (p_assignment (p_expr f) s) as [e|e a r1|] eqn:Ea; [| |discriminate].
  - injection H as _ <- _. constructor.
  - destruct (p_assignments (p_expr f) n r1) as [g|g l1 r2|] eqn:El; try discriminate.
    injection H as H <- <-. apply orb_false_iff in H as [-> ->].
    constructor; [eapply p_assignment_got; eauto|eapply IH; eauto].
Qed.

Theorem parse_wf s c : parse s = Ok c -> wf_script c = true.
Proof.
  unfold parse. destruct (p_chain (S (length s)) s) as [e|e c' r|] eqn:E; try discriminate.
  destruct e; [discriminate|]. intros H. injection H as ->.
  unfold p_chain in E. cbv zeta in E. apply pbind_got in E as (l & r1 & Hl & E).
  apply pbind_got in E as (ret & r2 & Hr & E). destruct (skipws r2); [|discriminate]. injection E as <- _.
  apply p_assignments_got in Hl. apply p_return_got in Hr as [Hn Hw]. now apply wf_script_join.
Qed.

(* formatting reaches a fixpoint at once: the text printed for a parsed tree parses to that tree ... *)
Theorem fmt_fixpoint s c : parse s = Ok c -> parse (print_script c) = Ok c.
Proof. intros H. apply roundtrip. eapply parse_wf; eauto. Qed.

(* ... so formatting twice prints the same bytes as formatting once *)
Theorem fmt_idempotent s c c' : parse s = Ok c -> parse (print_script c) = Ok c' ->
  print_script c' = print_script c.
Proof. intros H H'. rewrite (fmt_fixpoint s c H) in H'. now injection H' as <-. Qed.

Theorem fmt_preserves_load s c : parse s = Ok c -> load_m (print_script c) = load_m s.
Proof. intros H. unfold load_m. rewrite (fmt_fixpoint s c H), H. reflexivity. Qed.
