(* C10: proofs about the model of opt.Optimize (model/Opt.v).  Ported from proto_appendix/C2-C4
   to the shared Chain model; the final theorems (optimize_valid, ...) are new. *)
From Coq Require Import List ZArith Lia Bool Arith Sorted.
From AV Require Import model.Proto model.Chain model.Opt proofs.OptChainAux.
Import ListNotations.
Local Open Scope nat_scope.


(* ---------- list plumbing ---------- *)
Lemma update_length {A} l (v : A) xs : length (update l v xs) = length xs.
Proof. revert l; induction xs as [|x t IH]; intros [|l]; simpl; auto. Qed.
Lemma nth_update_eq {A} l (v d : A) xs : l < length xs -> nth l (update l v xs) d = v.
Proof. revert l; induction xs as [|x t IH]; intros [|l] H; simpl in *; try lia; auto. apply IH; lia. Qed.
Lemma nth_update_neq {A} l l' (v d : A) xs : l <> l' -> nth l' (update l v xs) d = nth l' xs d.
Proof. revert l l'; induction xs as [|x t IH]; intros [|l] [|l'] H; simpl; auto; try lia. Qed.

Lemma incr_length cs i : length (incr cs i) = length cs.
Proof. apply update_length. Qed.
Lemma incr_mono cs i j : nth j cs 0 <= nth j (incr cs i) 0.
Proof.
  unfold incr. destruct (Nat.eq_dec i j) as [->|H].
  - destruct (Nat.lt_ge_cases j (length cs)).
    + rewrite nth_update_eq by assumption. lia.
    + rewrite (nth_overflow cs) by assumption. lia.
  - rewrite nth_update_neq by assumption. lia.
Qed.
Lemma incr_pos cs i : i < length cs -> 0 < nth i (incr cs i) 0.
Proof. intros H. unfold incr. rewrite nth_update_eq by assumption. lia. Qed.
Lemma incr_other cs i j : i <> j -> nth j (incr cs i) 0 = nth j cs 0.
Proof. intros H. unfold incr. now rewrite nth_update_neq. Qed.

Lemma incr_all_length os : forall cs, length (incr_all cs os) = length cs.
Proof. induction os as [|o os IH]; intros cs; simpl; [reflexivity|]. rewrite IH. apply incr_length. Qed.
Lemma incr_all_mono os : forall cs j, nth j cs 0 <= nth j (incr_all cs os) 0.
Proof.
  induction os as [|o os IH]; intros cs j; simpl; [lia|].
  eapply Nat.le_trans; [apply (incr_mono cs o j)|apply IH].
Qed.
Lemma incr_all_pos os : forall cs i, In i os -> i < length cs -> 0 < nth i (incr_all cs os) 0.
Proof.
  induction os as [|o os IH]; intros cs i Hin Hl; simpl in *; [tauto|].
  destruct Hin as [->|Hin].
  - eapply Nat.lt_le_trans; [apply (incr_pos cs i Hl)|apply incr_all_mono].
  - apply IH; [assumption|now rewrite incr_length].
Qed.
Lemma incr_all_other os : forall cs j, ~ In j os -> nth j (incr_all cs os) 0 = nth j cs 0.
Proof.
  induction os as [|o os IH]; intros cs j Hn; simpl in *; [reflexivity|].
  rewrite IH by tauto. apply incr_other. tauto.
Qed.


(* ---------- the ops table built by the first loop ---------- *)
Lemma fold_update_length {A} (f : nat -> A) : forall ks tbl,
  length (fold_left (fun t k => update k (f k) t) ks tbl) = length tbl.
Proof. induction ks as [|k ks IH]; intros tbl; cbn [fold_left]; [reflexivity|]. now rewrite IH, update_length. Qed.
Lemma fold_update_nth {A} (f : nat -> A) (d : A) : forall ks tbl l,
  (forall k, In k ks -> k < length tbl) ->
  nth l (fold_left (fun t k => update k (f k) t) ks tbl) d = if existsb (Nat.eqb l) ks then f l else nth l tbl d.
Proof.
  induction ks as [|k ks IH]; intros tbl l Hks; cbn [fold_left existsb]; [reflexivity|].
  rewrite IH by (intros k' Hk'; rewrite update_length; apply Hks; right; exact Hk').
  destruct (existsb (Nat.eqb l) ks); [now rewrite orb_true_r|]. rewrite orb_false_r.
  destruct (l =? k) eqn:E.
  - apply Nat.eqb_eq in E. subst l. apply nth_update_eq. apply Hks. left. reflexivity.
  - apply Nat.eqb_neq in E. apply nth_update_neq. lia.
Qed.
Lemma ops_table_length c : length (ops_table c) = length c.
Proof. unfold ops_table. now rewrite fold_update_length, repeat_length. Qed.
Lemma ops_table_nth c l : l < length c -> nth l (ops_table c) [] = ops c l.
Proof.
  intros Hl. unfold ops_table. rewrite fold_update_nth.
  - destruct (existsb (Nat.eqb l) (seq 1 (length c - 1))) eqn:E; [reflexivity|].
    destruct l as [|l].
    + rewrite nth_repeat. reflexivity.
    + assert (existsb (Nat.eqb (S l)) (seq 1 (length c - 1)) = true); [|congruence].
      apply existsb_exists. exists (S l). split; [apply in_seq; lia|apply Nat.eqb_refl].
  - intros k Hk. apply in_seq in Hk. rewrite repeat_length. lia.
Qed.

Section Chain.
Variable c : list Z.
Let n := length c.
Hypothesis Hinj : forall i j, i < n -> j < n -> nz c i = nz c j -> i = j.   (* NoDup c *)
Hypothesis Hvalid : forall k, 1 <= k < n -> exists i j, i <= j < k /\ (nz c i + nz c j = nz c k)%Z.

Lemma in_opsn k i j : k <= n -> In (i, j) (ops c k) <-> i <= j < k /\ (nz c i + nz c j = nz c k)%Z.
Proof. apply in_ops. Qed.
Lemma NoDup_opsn k : k <= n -> NoDup (ops c k).
Proof. apply NoDup_ops. Qed.

Lemma uses_spec o k : uses o k = true <-> fst o = k \/ snd o = k.
Proof. unfold uses. rewrite orb_true_iff, !Nat.eqb_eq. tauto. Qed.
Lemma operands_spec o i : In i (operands o) <-> fst o = i \/ snd o = i.
Proof.
  unfold operands. destruct (fst o =? snd o) eqn:E; simpl.
  - apply Nat.eqb_eq in E. rewrite <- E. tauto.
  - tauto.
Qed.

(* at most one op for position l uses index k *)
Lemma uses_unique l k o1 o2 : l < n -> In o1 (ops c l) -> In o2 (ops c l) ->
  uses o1 k = true -> uses o2 k = true -> o1 = o2.
Proof.
  intros Hl H1 H2 U1 U2. destruct o1 as [i1 j1], o2 as [i2 j2].
  apply in_opsn in H1 as [B1 S1]; [|lia]. apply in_opsn in H2 as [B2 S2]; [|lia].
  apply uses_spec in U1. apply uses_spec in U2. simpl in *.
  destruct U1 as [->| ->], U2 as [->| ->].
  - f_equal. apply Hinj; lia.
  - assert (j1 = i2) by (apply Hinj; lia). subst. f_equal; lia.
  - assert (i1 = j2) by (apply Hinj; lia). subst. f_equal; lia.
  - f_equal. apply Hinj; lia.
Qed.

Lemma filter_nonempty {A} (P : A -> bool) (L : list A) :
  NoDup L -> (forall a b, In a L -> In b L -> P a = true -> P b = true -> a = b) ->
  (forall a, L = [a] -> P a = false) -> L <> [] -> filter (fun a => negb (P a)) L <> [].
Proof.
  intros Hnd Hu Hs Hne. destruct L as [|a [|b t]]; [congruence| |].
  - simpl. rewrite (Hs a eq_refl). simpl. congruence.
  - simpl. destruct (P a) eqn:Ea; simpl; [|congruence].
    destruct (P b) eqn:Eb; simpl; [|congruence].
    assert (a = b) by (apply Hu; simpl; auto). subst.
    inversion Hnd as [|? ? Hni _]; subst. exfalso. apply Hni. simpl; auto.
Qed.

Definition filterF (rem : list nat) (os : list op) := filter (fun o => negb (existsb (uses o) rem)) os.
Lemma filterF_snoc rem k os : filter (fun o => negb (uses o k)) (filterF rem os) = filterF (rem ++ [k]) os.
Proof.
  unfold filterF. induction os as [|o os IH]; simpl; [reflexivity|].
  rewrite existsb_app. simpl. rewrite orb_false_r.
  destruct (existsb (uses o) rem) eqn:E; simpl.
  - exact IH.
  - destruct (uses o k); simpl; [exact IH| now rewrite IH].
Qed.
Lemma filterF_nouse rem k l : l <= n -> l <= k -> filterF (rem ++ [k]) (ops c l) = filterF rem (ops c l).
Proof.
  intros Hln Hl. unfold filterF. apply filter_ext_in. intros [i j] Hin. apply in_opsn in Hin as [B _]; [|assumption].
  rewrite existsb_app. simpl. unfold uses at 2. simpl.
  replace (i =? k) with false by (symmetry; apply Nat.eqb_neq; lia).
  replace (j =? k) with false by (symmetry; apply Nat.eqb_neq; lia).
  simpl. now rewrite orb_false_r.
Qed.
Lemma in_filterF rem os o : In o (filterF rem os) <-> In o os /\ forall r, In r rem -> uses o r = false.
Proof.
  unfold filterF. rewrite filter_In, negb_true_iff. split; intros [H1 H2]; split; auto.
  - intros r Hr. destruct (uses o r) eqn:E; [|reflexivity].
    assert (existsb (uses o) rem = true) by (apply existsb_exists; eauto). congruence.
  - destruct (existsb (uses o) rem) eqn:E; [|reflexivity].
    apply existsb_exists in E as (r & Hr & U). rewrite H2 in U by assumption. discriminate.
Qed.

(* ---------- invariants ---------- *)
Definition tbl_at (tbl : list (list op)) l := nth l tbl [].
Definition cs_ok (tbl : list (list op)) (cs : list nat) :=
  length cs = n /\ forall l o, l < n -> tbl_at tbl l = [o] -> forall i, In i (operands o) -> 0 < nth i cs 0.
Definition nonempty (tbl : list (list op)) := forall l, 1 <= l < n -> tbl_at tbl l <> [].
(* inner invariant: positions in (k, m) already pruned by k *)
Definition J (rem : list nat) (k m : nat) (st : list (list op) * list nat) :=
  let '(tbl, cs) := st in
  length tbl = n /\
  (forall l, l < n -> tbl_at tbl l = if (k <? l) && (l <? m) then filterF (rem ++ [k]) (ops c l) else filterF rem (ops c l)) /\
  cs_ok tbl cs /\ nonempty tbl /\ nth k cs 0 = 0.

Lemma ops_in_range (tbl : list (list op)) rem l o i : l < n ->
  (In o (filterF rem (ops c l)) \/ In o (ops c l)) -> In i (operands o) -> i < l.
Proof.
  intros Hl Hin Hi. assert (Ho : In o (ops c l)) by (destruct Hin as [H|H]; [apply in_filterF in H; tauto|assumption]).
  destruct o as [a b]. apply in_opsn in Ho as [B _]; [|lia]. apply operands_spec in Hi. simpl in Hi. lia.
Qed.

Lemma inner_step rem k m st : k < m -> m < n -> J rem k m st -> J rem k (S m) (prune_step k st m).
Proof.
  intros Hkm Hmn. destruct st as [tbl cs]. intros (Hlen & Htbl & (Hcl & Hcs) & Hne & Hk0).
  unfold prune_step, pruneuses.
  assert (Eold : tbl_at tbl m = filterF rem (ops c m)).
  { rewrite Htbl by assumption. replace (m <? m) with false by (symmetry; apply Nat.ltb_ge; lia).
    now rewrite andb_false_r. }
  fold (tbl_at tbl m). set (ol := filter (fun o => negb (uses o k)) (tbl_at tbl m)).
  assert (Enew : ol = filterF (rem ++ [k]) (ops c m)) by (unfold ol; rewrite Eold; apply filterF_snoc).
  assert (Hol_ne : ol <> []).
  { unfold ol. apply filter_nonempty.
    - rewrite Eold. apply NoDup_filter, NoDup_opsn. lia.
    - intros a b Ha Hb. rewrite Eold in Ha, Hb. apply in_filterF in Ha as [Ha _]. apply in_filterF in Hb as [Hb _].
      now apply uses_unique with (l := m).
    - intros a Ea. destruct (uses a k) eqn:U; [|reflexivity]. exfalso.
      assert (0 < nth k cs 0); [|lia].
      apply (Hcs m a Hmn Ea). apply operands_spec. now apply uses_spec.
    - apply Hne. lia. }
  set (cs' := match ol with [o] => incr_all cs (operands o) | _ => cs end).
  assert (Hcs'len : length cs' = n).
  { unfold cs'. destruct ol as [|o [|? ?]]; auto. now rewrite incr_all_length. }
  assert (Hmono : forall j, nth j cs 0 <= nth j cs' 0).
  { intros j. unfold cs'. destruct ol as [|o [|? ?]]; auto. apply incr_all_mono. }
  assert (Hat : forall l, tbl_at (update m ol tbl) l = if l =? m then ol else tbl_at tbl l).
  { intros l. unfold tbl_at. destruct (l =? m) eqn:E.
    - apply Nat.eqb_eq in E. subst. apply nth_update_eq. lia.
    - apply Nat.eqb_neq in E. apply nth_update_neq. lia. }
  repeat split.
  - now rewrite update_length.
  - intros l Hl. rewrite Hat. destruct (l =? m) eqn:E.
    + apply Nat.eqb_eq in E. subst l.
      replace (k <? m) with true by (symmetry; apply Nat.ltb_lt; lia).
      replace (m <? S m) with true by (symmetry; apply Nat.ltb_lt; lia). exact Enew.
    + apply Nat.eqb_neq in E. rewrite Htbl by assumption.
      replace (l <? S m) with (l <? m); [reflexivity|].
      destruct (l <? m) eqn:E1; symmetry; [apply Nat.ltb_lt in E1; apply Nat.ltb_lt; lia|apply Nat.ltb_ge in E1; apply Nat.ltb_ge; lia].
  - exact Hcs'len.
  - intros l o Hl Eo i Hi. rewrite Hat in Eo. destruct (l =? m) eqn:E.
    + apply Nat.eqb_eq in E. subst l. unfold cs'. rewrite Eo. apply incr_all_pos; [assumption|].
      rewrite Hcl. assert (i < m); [|lia].
      apply (ops_in_range tbl (rem ++ [k]) m o i Hmn); [|assumption]. left. rewrite <- Enew, Eo. simpl; auto.
    + eapply Nat.lt_le_trans; [apply (Hcs l o Hl Eo i Hi)|apply Hmono].
  - intros l Hl. rewrite Hat. destruct (l =? m); [assumption|now apply Hne].
  - unfold cs'. destruct ol as [|o [|? ?]] eqn:Eol; auto.
    rewrite incr_all_other; [assumption|].
    intros Hin. apply operands_spec, uses_spec in Hin.
    assert (Ho : In o (filterF (rem ++ [k]) (ops c m))) by (rewrite <- Enew; simpl; auto).
    apply in_filterF in Ho as [_ Ho]. rewrite Ho in Hin; [discriminate|]. apply in_or_app. simpl; auto.
Qed.

Lemma inner_loop rem k : forall cnt m st, k < m -> m + cnt = n -> J rem k m st ->
  J rem k n (fold_left (prune_step k) (seq m cnt) st).
Proof.
  induction cnt as [|cnt IH]; intros m st Hkm Hsum HJ; simpl.
  - replace n with m by lia. exact HJ.
  - apply IH; [lia|lia|]. apply inner_step; auto; lia.
Qed.
End Chain.


Section Chain.
Variable c : list Z.
Let n := length c.
Hypothesis Hinj : forall i j, i < n -> j < n -> nz c i = nz c j -> i = j.
Hypothesis Hvalid : forall k, 1 <= k < n -> exists i j, i <= j < k /\ (nz c i + nz c j = nz c k)%Z.

Definition Inv (k : nat) (st : list (list op) * list nat * list nat) :=
  let '(tbl, cs, rem) := st in
  length tbl = n /\ (forall l, l < n -> tbl_at tbl l = filterF rem (ops c l)) /\
  cs_ok c tbl cs /\ nonempty c tbl /\ Forall (fun r => 1 <= r < k) rem.

Lemma outer_step_inv k st : 1 <= k -> S k < n -> Inv k st -> Inv (S k) (outer_step n st k).
Proof.
  intros Hk Hkn. destruct st as [[tbl cs] rem]. intros (Hlen & Htbl & Hcs & Hne & Hrem).
  unfold outer_step. destruct (0 <? nth k cs 0) eqn:E.
  - split; [|split; [|split; [|split]]]; auto. eapply Forall_impl; [|exact Hrem]. simpl. intros; lia.
  - apply Nat.ltb_ge in E.
    assert (HJ : J c rem k (S k) (tbl, cs)).
    { split; [|split; [|split; [|split]]]; auto; try lia.
      intros l Hl. rewrite Htbl by assumption.
      replace ((k <? l) && (l <? S k)) with false; [reflexivity|].
      symmetry. apply andb_false_iff. destruct (Nat.lt_ge_cases k l); [right; apply Nat.ltb_ge; lia|left; apply Nat.ltb_ge; lia]. }
    pose proof (inner_loop c Hinj rem k (n - S k) (S k) (tbl, cs) ltac:(lia) ltac:(fold n; lia) HJ) as HJ'.
    fold n in HJ'. destruct (fold_left (prune_step k) (seq (S k) (n - S k)) (tbl, cs)) as [tbl' cs'].
    destruct HJ' as (Hlen' & Htbl' & Hcs' & Hne' & _).
    split; [|split; [|split; [|split]]]; auto.
    + intros l Hl. rewrite Htbl' by assumption.
      destruct (k <? l) eqn:E1.
      * replace (l <? n) with true by (symmetry; apply Nat.ltb_lt; lia). reflexivity.
      * simpl. apply Nat.ltb_ge in E1. symmetry. apply filterF_nouse; [fold n; lia|assumption].
    + apply Forall_app. split.
      * eapply Forall_impl; [|exact Hrem]. simpl. intros; lia.
      * constructor; [lia|constructor].
Qed.

Lemma outer_loop : forall cnt k st, 1 <= k -> k + cnt = n - 1 -> Inv k st ->
  Inv (n - 1) (fold_left (outer_step n) (seq k cnt) st).
Proof.
  induction cnt as [|cnt IH]; intros k st Hk Hsum HI; simpl.
  - replace (n - 1) with k by lia. exact HI.
  - apply IH; [lia|lia|]. apply outer_step_inv; auto; lia.
Qed.

(* initial state *)
Let tbl0 := ops_table c.
Lemma tbl0_at l : l < n -> tbl_at tbl0 l = ops c l.
Proof. intros Hl. unfold tbl_at, tbl0. now apply ops_table_nth. Qed.
Lemma filterF_nil os : filterF [] os = os.
Proof. unfold filterF. simpl. induction os; simpl; congruence. Qed.

Definition K (m : nat) (cs : list nat) :=
  length cs = n /\ forall l o, l < m -> l < n -> tbl_at tbl0 l = [o] -> forall i, In i (operands o) -> 0 < nth i cs 0.

Lemma count_step m cs : 1 <= m -> m < n -> K m cs -> K (S m) (count_single tbl0 cs m).
Proof.
  intros Hm Hmn [Hl HK]. unfold count_single. fold (tbl_at tbl0 m).
  destruct (tbl_at tbl0 m) as [|o [|o2 ot]] eqn:E.
  - split; auto. intros l o Hl1 Hl2 Eo. destruct (Nat.eq_dec l m) as [->|]; [congruence|]. apply (HK l o); auto; lia.
  - split; [now rewrite incr_all_length|]. intros l o' Hl1 Hl2 Eo i Hi.
    destruct (Nat.eq_dec l m) as [->|Hneq].
    + rewrite E in Eo. inversion Eo; subst o'. apply incr_all_pos; auto. rewrite Hl.
      assert (i < m); [|lia]. apply (ops_in_range c tbl0 [] m o i Hmn); auto. right.
      rewrite <- tbl0_at by assumption. rewrite E. simpl; auto.
    + assert (Hlm : l < m) by lia.
      eapply Nat.lt_le_trans; [exact (HK l o' Hlm Hl2 Eo i Hi)|apply incr_all_mono].
  - split; auto. intros l o' Hl1 Hl2 Eo. destruct (Nat.eq_dec l m) as [->|]; [congruence|]. apply (HK l o'); auto; lia.
Qed.

Lemma count_loop : forall cnt m cs, 1 <= m -> m + cnt = Nat.max n 1 -> K m cs ->
  K (Nat.max n 1) (fold_left (count_single tbl0) (seq m cnt) cs).
Proof.
  induction cnt as [|cnt IH]; intros m cs Hm Hsum HK; simpl.
  - replace (Nat.max n 1) with m by lia. exact HK.
  - apply IH; [lia|lia|]. apply count_step; auto; lia.
Qed.

Theorem opt_state_ok :
  let '(tbl, cs, rem) := opt_state c in
  Forall (fun r => 1 <= r < n - 1) rem /\
  forall l, 1 <= l < n -> ~ In l rem ->
    exists i j, ~ In i rem /\ ~ In j rem /\ i <= j < l /\ (nz c i + nz c j = nz c l)%Z.
Proof.
  unfold opt_state. fold n. fold tbl0.
  set (cs0 := fold_left (count_single tbl0) (seq 1 (n - 1)) (repeat 0 n)).
  assert (HK : K (Nat.max n 1) cs0).
  { apply count_loop; [lia|lia|]. split; [apply repeat_length|].
    intros l o Hl1 Hl2 E. assert (l = 0) by lia. subst. rewrite tbl0_at in E by assumption.
    assert (Hin : In o (ops c 0)) by (rewrite E; simpl; auto). destruct o as [a b].
    apply in_opsn in Hin; lia. }
  assert (HI : Inv 1 (tbl0, cs0, [])).
  { split; [|split; [|split; [|split]]].
    - unfold tbl0. apply ops_table_length.
    - intros l Hl. now rewrite filterF_nil, tbl0_at.
    - split; [apply HK|]. intros l o Hl E. apply (proj2 HK l o); auto; lia.
    - intros l Hl. rewrite tbl0_at by lia. destruct (Hvalid l Hl) as (i & j & B & S).
      intros E. assert (Hin : In (i, j) (ops c l)) by (apply in_opsn; [lia|auto]). rewrite E in Hin. destruct Hin.
    - constructor. }
  destruct (Nat.le_gt_cases n 2) as [Hsmall|Hbig].
  - (* no removal possible *)
    replace (n - 2) with 0 by lia. simpl. split; [constructor|].
    intros l Hl _. destruct (Hvalid l Hl) as (i & j & B & S). exists i, j. repeat split; auto; lia.
  - pose proof (outer_loop (n - 2) 1 (tbl0, cs0, []) ltac:(lia) ltac:(lia) HI) as HF.
    destruct (fold_left (outer_step n) (seq 1 (n - 2)) (tbl0, cs0, [])) as [[tbl cs] rem].
    destruct HF as (Hlen & Htbl & Hcs & Hne & Hrem). split; [exact Hrem|].
    intros l Hl Hnr. specialize (Hne l Hl). rewrite Htbl in Hne by lia.
    destruct (filterF rem (ops c l)) as [|[i j] t] eqn:E; [congruence|].
    assert (Hin : In (i, j) (filterF rem (ops c l))) by (rewrite E; simpl; auto).
    apply in_filterF in Hin as [Hin Hu]. apply in_opsn in Hin as [B S]; [|lia].
    exists i, j. repeat split; auto; try lia.
    + intros Hr. specialize (Hu i Hr). unfold uses in Hu. simpl in Hu. rewrite Nat.eqb_refl in Hu. discriminate.
    + intros Hr. specialize (Hu j Hr). unfold uses in Hu. simpl in Hu. rewrite Nat.eqb_refl, orb_true_r in Hu. discriminate.
Qed.
End Chain.

(* ---------- shape of the removal list, for every input ---------- *)
Lemma outer_step_rem n st k : snd (outer_step n st k) = snd st \/ snd (outer_step n st k) = snd st ++ [k].
Proof.
  destruct st as [[tbl cs] rem]. unfold outer_step.
  destruct (0 <? nth k cs 0); [left; reflexivity|].
  destruct (fold_left (prune_step k) (seq (S k) (n - S k)) (tbl, cs)) as [tbl' cs']. right. reflexivity.
Qed.

Definition rem_ok (k : nat) (rem : list nat) := StronglySorted lt rem /\ Forall (fun r => 1 <= r < k) rem.

Lemma sorted_snoc rem k : StronglySorted lt rem -> Forall (fun r => r < k) rem -> StronglySorted lt (rem ++ [k]).
Proof.
  induction 1 as [|x rem Hs IH Hx]; intros Hk; cbn [app].
  - constructor; constructor.
  - inversion Hk as [|? ? Hxk Hk']; subst. constructor; [apply IH; assumption|].
    apply Forall_app. split; [assumption|constructor; [assumption|constructor]].
Qed.

Lemma rem_ok_step n st k : 1 <= k -> rem_ok k (snd st) -> rem_ok (S k) (snd (outer_step n st k)).
Proof.
  intros Hk [Hs Hf]. destruct (outer_step_rem n st k) as [-> | ->].
  - split; [assumption|]. eapply Forall_impl; [|exact Hf]. cbv beta. intros; lia.
  - split.
    + apply sorted_snoc; [assumption|]. eapply Forall_impl; [|exact Hf]. cbv beta. intros; lia.
    + apply Forall_app. split; [eapply Forall_impl; [|exact Hf]; cbv beta; intros; lia|].
      constructor; [lia|constructor].
Qed.

Lemma rem_ok_loop n : forall cnt k st, 1 <= k -> rem_ok k (snd st) ->
  rem_ok (k + cnt) (snd (fold_left (outer_step n) (seq k cnt) st)).
Proof.
  induction cnt as [|cnt IH]; intros k st Hk H; cbn [seq fold_left].
  - now rewrite Nat.add_0_r.
  - replace (k + S cnt) with (S k + cnt) by lia. apply IH; [lia|]. now apply rem_ok_step.
Qed.

Lemma removed_snd c : removed c = snd (opt_state c).
Proof. unfold removed. destruct (opt_state c) as [[tbl cs] rem]. reflexivity. Qed.

Theorem removed_shape c :
  StronglySorted lt (removed c) /\ Forall (fun r => 1 <= r < length c - 1) (removed c).
Proof.
  rewrite removed_snd. unfold opt_state.
  set (st0 := (ops_table c, fold_left (count_single (ops_table c)) (seq 1 (length c - 1)) (repeat 0 (length c)), @nil nat)).
  pose proof (rem_ok_loop (length c) (length c - 2) 1 st0 (le_n 1)) as H.
  destruct H as [Hs Hf]; [split; constructor|].
  split; [exact Hs|]. eapply Forall_impl; [|exact Hf]. cbv beta. intros; lia.
Qed.

(* ---------- the removal loop keeps exactly the positions not listed ---------- *)
Inductive subseq {A} : list A -> list A -> Prop :=
| sub_nil : subseq [] []
| sub_keep x a b : subseq a b -> subseq (x :: a) (x :: b)
| sub_drop x a b : subseq a b -> subseq a (x :: b).

Lemma subseq_In {A} (a b : list A) : subseq a b -> forall x, In x a -> In x b.
Proof.
  induction 1 as [|x a b H IH|x a b H IH]; intros y Hy.
  - exact Hy.
  - destruct Hy as [->|Hy]; [left; reflexivity|right; apply IH; exact Hy].
  - right. apply IH. exact Hy.
Qed.
Lemma subseq_NoDup {A} (a b : list A) : subseq a b -> NoDup b -> NoDup a.
Proof.
  induction 1 as [|x a b H IH|x a b H IH]; intros Hb.
  - constructor.
  - inversion Hb as [|? ? Hx Hb']; subst. constructor; [|apply IH; assumption].
    intros Hin. apply Hx. eapply subseq_In; eassumption.
  - inversion Hb; subst. apply IH. assumption.
Qed.
Lemma subseq_length {A} (a b : list A) : subseq a b -> length a <= length b.
Proof. induction 1; cbn [length]; lia. Qed.

Lemma remove_loop_subseq : forall c i rem, subseq (remove_loop i c rem) c.
Proof.
  induction c as [|x r IH]; intros i rem; cbn [remove_loop]; [constructor|].
  destruct rem as [|k rem']; [apply sub_keep, IH|].
  destruct (k =? i); [apply sub_drop, IH|apply sub_keep, IH].
Qed.

Definition memb (i : nat) (rem : list nat) : bool := existsb (Nat.eqb i) rem.

Lemma memb_false_lt i rem : Forall (fun r => i < r) rem -> memb i rem = false.
Proof.
  intros H. unfold memb. destruct (existsb (Nat.eqb i) rem) eqn:E; [|reflexivity].
  apply existsb_exists in E as (r & Hr & Er). apply Nat.eqb_eq in Er. subst r.
  rewrite Forall_forall in H. specialize (H i Hr). lia.
Qed.

Lemma map_tail (x : Z) r i L : (forall p, In p L -> S i <= p) ->
  map (fun p => nth (p - i) (x :: r) 0%Z) L = map (fun p => nth (p - S i) r 0%Z) L.
Proof.
  intros H. apply map_ext_in. intros p Hp. specialize (H p Hp).
  replace (p - i) with (S (p - S i)) by lia. reflexivity.
Qed.

Lemma remove_loop_spec : forall c i rem, StronglySorted lt rem -> Forall (fun r => i <= r) rem ->
  remove_loop i c rem =
  map (fun p => nth (p - i) c 0%Z) (filter (fun p => negb (memb p rem)) (seq i (length c))).
Proof.
  induction c as [|x r IH]; intros i rem Hs Hf; [reflexivity|].
  cbn [remove_loop length seq filter].
  assert (Htail : forall g, forall p, In p (filter g (seq (S i) (length r))) -> S i <= p).
  { intros g p Hp. apply filter_In in Hp as [Hp _]. apply in_seq in Hp. lia. }
  destruct rem as [|k rem'].
  - change (memb i []) with false. cbn [negb map]. rewrite Nat.sub_diag. cbn [nth]. f_equal.
    rewrite IH by (try assumption; constructor). symmetry. apply map_tail, Htail.
  - inversion Hs as [|? ? Hs' Hk]; subst. inversion Hf as [|? ? Hik Hf']; subst.
    destruct (k =? i) eqn:E.
    + apply Nat.eqb_eq in E. subst k.
      assert (Em : memb i (i :: rem') = true) by (unfold memb; cbn [existsb]; now rewrite Nat.eqb_refl).
      rewrite Em. cbn [negb].
      rewrite IH; [|assumption|eapply Forall_impl; [|exact Hk]; cbv beta; intros; lia].
      rewrite <- (map_tail x r i) by apply Htail. f_equal.
      apply filter_ext_in. intros p Hp. apply in_seq in Hp. unfold memb. cbn [existsb].
      replace (p =? i) with false by (symmetry; apply Nat.eqb_neq; lia). reflexivity.
    + apply Nat.eqb_neq in E.
      assert (Em : memb i (k :: rem') = false).
      { apply memb_false_lt. constructor; [lia|]. eapply Forall_impl; [|exact Hk]. cbv beta. intros; lia. }
      rewrite Em. cbn [negb map]. rewrite Nat.sub_diag. cbn [nth]. f_equal.
      rewrite IH; [|assumption|].
      * symmetry. apply map_tail, Htail.
      * constructor; [lia|]. eapply Forall_impl; [|exact Hk]. cbv beta. intros; lia.
Qed.

Definition kept_idx (rem : list nat) (n : nat) : list nat := filter (fun p => negb (memb p rem)) (seq 0 n).

Lemma remove_loop_0 c rem : StronglySorted lt rem ->
  remove_loop 0 c rem = map (nz c) (kept_idx rem (length c)).
Proof.
  intros Hs. rewrite remove_loop_spec; [|assumption|apply Forall_forall; intros; lia].
  apply map_ext. intros p. now rewrite Nat.sub_0_r.
Qed.

Lemma in_kept_idx rem n p : In p (kept_idx rem n) <-> p < n /\ ~ In p rem.
Proof.
  unfold kept_idx. rewrite filter_In, in_seq, negb_true_iff. unfold memb. split.
  - intros [H1 H2]. split; [lia|]. intros Hin.
    assert (existsb (Nat.eqb p) rem = true); [|congruence].
    apply existsb_exists. exists p. split; [assumption|apply Nat.eqb_refl].
  - intros [H1 H2]. split; [lia|]. destruct (existsb (Nat.eqb p) rem) eqn:E; [|reflexivity].
    apply existsb_exists in E as (r & Hr & Er). apply Nat.eqb_eq in Er. subst r. contradiction.
Qed.

Lemma sorted_seq : forall n a, StronglySorted lt (seq a n).
Proof.
  induction n as [|n IH]; intros a; cbn [seq]; constructor; [apply IH|].
  apply Forall_forall. intros x Hx. apply in_seq in Hx. lia.
Qed.
Lemma sorted_filter (f : nat -> bool) l : StronglySorted lt l -> StronglySorted lt (filter f l).
Proof.
  induction 1 as [|x l Hs IH Hx]; cbn [filter]; [constructor|].
  destruct (f x); [|exact IH]. constructor; [exact IH|].
  apply Forall_forall. intros y Hy. apply filter_In in Hy as [Hy _].
  rewrite Forall_forall in Hx. now apply Hx.
Qed.
Lemma sorted_kept_idx rem n : StronglySorted lt (kept_idx rem n).
Proof. apply sorted_filter, sorted_seq. Qed.

Lemma sorted_nth_lt l : StronglySorted lt l -> forall a b, a < b -> b < length l -> nth a l 0 < nth b l 0.
Proof.
  induction 1 as [|x l Hs IH Hx]; intros a b Hab Hb; cbn [length] in Hb; [lia|].
  destruct b as [|b]; [lia|]. cbn [nth]. destruct a as [|a].
  - rewrite Forall_forall in Hx. apply Hx. apply nth_In. lia.
  - apply IH; lia.
Qed.
Lemma sorted_nth_le l : StronglySorted lt l -> forall a b, a <= b -> b < length l -> nth a l 0 <= nth b l 0.
Proof.
  intros Hs a b Hab Hb. destruct (Nat.eq_dec a b) as [->|]; [lia|].
  pose proof (sorted_nth_lt l Hs a b ltac:(lia) Hb). lia.
Qed.

Lemma last_nth (l : list Z) : last l 0%Z = nth (length l - 1) l 0%Z.
Proof.
  induction l as [|x l IH]; [reflexivity|]. destruct l as [|y l']; [reflexivity|].
  change (last (x :: y :: l') 0%Z) with (last (y :: l') 0%Z). rewrite IH.
  cbn [length]. replace (S (S (length l')) - 1) with (S (S (length l') - 1)) by lia. reflexivity.
Qed.

Lemma kept_idx_first rem n : Forall (fun r => 1 <= r) rem -> kept_idx rem (S n) = 0 :: filter (fun p => negb (memb p rem)) (seq 1 n).
Proof.
  intros H. unfold kept_idx. cbn [seq filter]. rewrite memb_false_lt; [reflexivity|].
  eapply Forall_impl; [|exact H]. cbv beta. intros; lia.
Qed.
Lemma kept_idx_last rem n : Forall (fun r => r < n) rem -> kept_idx rem (S n) = kept_idx rem n ++ [n].
Proof.
  intros H. unfold kept_idx. rewrite seq_S, filter_app. cbn [filter]. rewrite Nat.add_0_l.
  replace (memb n rem) with false; [reflexivity|].
  symmetry. unfold memb. destruct (existsb (Nat.eqb n) rem) eqn:E; [|reflexivity].
  apply existsb_exists in E as (r & Hr & Er). apply Nat.eqb_eq in Er. subst r.
  rewrite Forall_forall in H. specialize (H n Hr). lia.
Qed.

(* ---------- every input: only removals, never of the first or the last element ---------- *)
Theorem optimize_shape c : exists c', optimize c = Ok c' /\ subseq c' c /\
  hd_error c' = hd_error c /\ last c' 0%Z = last c 0%Z /\ length c' <= length c.
Proof.
  unfold optimize. eexists. split; [reflexivity|].
  destruct (removed_shape c) as [Hs Hf].
  split; [apply remove_loop_subseq|]. split; [|split; [|apply subseq_length, remove_loop_subseq]].
  - rewrite remove_loop_0 by assumption. destruct c as [|x r]; [reflexivity|].
    cbn [length]. rewrite kept_idx_first by (eapply Forall_impl; [|exact Hf]; cbv beta; intros; lia).
    reflexivity.
  - rewrite remove_loop_0 by assumption. destruct c as [|x r] eqn:Ec; [reflexivity|]. rewrite <- Ec in *.
    assert (Hn : length c = S (length r)) by (rewrite Ec; reflexivity).
    rewrite Hn in *. rewrite kept_idx_last by (eapply Forall_impl; [|exact Hf]; cbv beta; intros; lia).
    rewrite map_app. cbn [map]. rewrite last_last, last_nth, Hn. unfold nz. f_equal. lia.
Qed.

(* ---------- valid chains stay valid ---------- *)
Lemma nz_map c ks k : k < length ks -> nz (map (nz c) ks) k = nz c (nth k ks 0).
Proof.
  intros Hk. unfold nz at 1. rewrite nth_indep with (d' := nz c 0) by (now rewrite map_length).
  apply map_nth.
Qed.

Theorem optimize_valid c : is_chain c ->
  exists c', optimize c = Ok c' /\ is_chain c' /\ subseq c' c /\ hd 0%Z c' = 1%Z /\
             last c' 0%Z = last c 0%Z /\ length c' <= length c.
Proof.
  intros Hc. destruct (optimize_shape c) as (c' & Eo & Hsub & Hhd & Hlast & Hlen).
  exists c'. split; [exact Eo|].
  pose proof Hc as ((r & Er) & Hnd & Hz & Hsum).
  assert (Hhd1 : hd 0%Z c' = 1%Z).
  { rewrite Er in Hhd. destruct c' as [|y t]; [discriminate|]. cbn [hd_error] in Hhd. injection Hhd as ->. reflexivity. }
  split; [|tauto].
  split; [|split; [|split]].
  - destruct c' as [|y t]; [rewrite Er in Hhd; discriminate|]. cbn [hd] in Hhd1. subst y. now exists t.
  - eapply subseq_NoDup; eassumption.
  - intros H0. apply Hz. eapply subseq_In; eassumption.
  - (* every kept element is the sum of two kept earlier ones *)
    unfold optimize in Eo. injection Eo as <-.
    destruct (removed_shape c) as [Hs Hf].
    assert (Hinj : forall i j, i < length c -> j < length c -> nz c i = nz c j -> i = j).
    { intros i j Hi Hj E. apply (proj1 (NoDup_nth c 0%Z) Hnd i j Hi Hj E). }
    pose proof (opt_state_ok c Hinj Hsum) as Hok.
    rewrite removed_snd in *. destruct (opt_state c) as [[tbl cs] rem]. cbn [snd] in *.
    destruct Hok as [_ Hok].
    rewrite remove_loop_0 by assumption. set (ks := kept_idx rem (length c)).
    rewrite map_length. intros k Hk.
    pose proof (sorted_kept_idx rem (length c)) as Hsk. fold ks in Hsk.
    assert (Hl : In (nth k ks 0) ks) by (apply nth_In; lia).
    apply in_kept_idx in Hl as [Hln Hlr].
    assert (H0 : nth 0 ks 0 = 0).
    { unfold ks. rewrite Er. cbn [length]. rewrite kept_idx_first; [reflexivity|].
      eapply Forall_impl; [|exact Hf]. cbv beta. intros; lia. }
    assert (Hl1 : 1 <= nth k ks 0).
    { pose proof (sorted_nth_lt ks Hsk 0 k ltac:(lia) ltac:(lia)). lia. }
    destruct (Hok (nth k ks 0) ltac:(lia) Hlr) as (i & j & Hi & Hj & B & E).
    assert (Hik : In i ks) by (apply in_kept_idx; split; [lia|assumption]).
    assert (Hjk : In j ks) by (apply in_kept_idx; split; [lia|assumption]).
    destruct (In_nth ks i 0 Hik) as (i' & Hi' & Ei). destruct (In_nth ks j 0 Hjk) as (j' & Hj' & Ej).
    exists i', j'. split.
    + split.
      * destruct (Nat.le_gt_cases i' j') as [|Hgt]; [assumption|].
        pose proof (sorted_nth_lt ks Hsk j' i' Hgt Hi'). lia.
      * destruct (Nat.lt_ge_cases j' k) as [|Hge]; [assumption|].
        pose proof (sorted_nth_le ks Hsk k j' Hge Hj'). lia.
    + rewrite !nz_map by lia. rewrite Ei, Ej. exact E.
Qed.

Theorem optimize_empty : optimize [] = Ok [].
Proof. reflexivity. Qed.
Theorem optimize_singleton x : optimize [x] = Ok [x].
Proof. reflexivity. Qed.
Theorem optimize_pair x y : optimize [x; y] = Ok [x; y].
Proof. reflexivity. Qed.

(* Optimize never fails and never panics: the model has no error or panic branch at all *)
Theorem optimize_total c : exists c', optimize c = Ok c'.
Proof. eexists. reflexivity. Qed.
