(* C11: proofs about the model of dict.RunsChain (model/Runs.v).
   The invariant (ported from proto_appendix/H2.v and extended by NoDup and an exact description
   of the members): after m operations the output is built from [1] by sums of two members, has no
   repetition, and its members are exactly the runs 2^lc[i]-1 for i <= m and the shifted runs
   (2^b-1)*2^t for 1 <= t <= s[b]. *)
From Coq Require Import String.
From Coq Require Import List NArith ZArith Lia Bool Arith.
From AV Require Import model.Proto model.Chain model.Bits model.Runs proofs.BitsProofs proofs.OptChainAux.
Import ListNotations.
Local Open Scope Z_scope.

(* ---------- arithmetic of runs ---------- *)
Definition pw (n : N) : Z := 2 ^ Z.of_N n.
Lemma pw_pos n : 0 < pw n.
Proof. unfold pw. apply Z.pow_pos_nonneg; lia. Qed.
Lemma pw_add a b : pw (a + b) = pw a * pw b.
Proof. unfold pw. rewrite N2Z.inj_add, Z.pow_add_r by lia. reflexivity. Qed.
Lemma pw_even n : (1 <= n)%N -> exists q, pw n = 2 * q /\ 0 < q.
Proof.
  intros H. exists (pw (n - 1)). split; [|apply pw_pos].
  replace n with (1 + (n - 1))%N at 1 by lia. rewrite pw_add. reflexivity.
Qed.
Lemma pw_inj a b : pw a = pw b -> a = b.
Proof. unfold pw. intros H. apply Z.pow_inj_r in H; lia. Qed.

Lemma ones_pw n : ones n = pw n - 1.
Proof. apply ones_eq. Qed.

Definition sh (b t : N) : Z := Z.shiftl (ones b) (Z.of_N t).
Lemma sh_eq b t : sh b t = (pw b - 1) * pw t.
Proof. unfold sh. rewrite Z.shiftl_mul_pow2 by lia. now rewrite ones_pw. Qed.
Lemma sh_0 b : sh b 0 = ones b.
Proof. rewrite sh_eq, ones_pw. unfold pw at 2. cbn. lia. Qed.
Lemma sh_succ b t : sh b (t + 1) = sh b t + sh b t.
Proof. rewrite !sh_eq, pw_add. change (pw 1) with 2. lia. Qed.
Lemma ones_add a b : ones (a + b) = sh b a + ones a.
Proof. rewrite sh_eq, !ones_pw, pw_add. lia. Qed.

Lemma ones_odd n : (1 <= n)%N -> Z.odd (ones n) = true.
Proof.
  intros H. destruct (pw_even n H) as (q & E & _). rewrite ones_pw, E.
  replace (2 * q - 1) with (1 + 2 * (q - 1)) by lia. now rewrite Z.odd_add_mul_2.
Qed.
Lemma sh_even b t : (1 <= t)%N -> Z.odd (sh b t) = false.
Proof.
  intros H. destruct (pw_even t H) as (q & E & _). rewrite sh_eq, E.
  replace ((pw b - 1) * (2 * q)) with (0 + 2 * ((pw b - 1) * q)) by lia. now rewrite Z.odd_add_mul_2.
Qed.
Lemma ones_ge1 n : (1 <= n)%N -> 1 <= ones n.
Proof. intros H. destruct (pw_even n H) as (q & E & Hq). rewrite ones_pw. lia. Qed.
Lemma sh_pos b t : (1 <= b)%N -> 0 < sh b t.
Proof. intros H. rewrite sh_eq. pose proof (ones_ge1 b H). rewrite ones_pw in *. pose proof (pw_pos t). nia. Qed.
Lemma ones_inj a b : ones a = ones b -> a = b.
Proof. rewrite !ones_pw. intros H. apply pw_inj. lia. Qed.

Lemma sh_lt_absurd b t b' t' : (1 <= b)%N -> (t < t')%N -> sh b t = sh b' t' -> False.
Proof.
  intros Hb Ht E. replace t' with (t + (t' - t))%N in E by lia.
  rewrite !sh_eq, pw_add in E.
  assert (E2 : ones b = sh b' (t' - t)).
  { rewrite ones_pw, sh_eq. pose proof (pw_pos t). nia. }
  pose proof (ones_odd b Hb) as O1. rewrite E2, sh_even in O1 by lia. discriminate.
Qed.
Lemma sh_inj b t b' t' : (1 <= b)%N -> (1 <= b')%N -> sh b t = sh b' t' -> b = b' /\ t = t'.
Proof.
  intros Hb Hb' E. destruct (N.lt_trichotomy t t') as [H|[H|H]].
  - exfalso. exact (sh_lt_absurd b t b' t' Hb H E).
  - subst t'. split; [|reflexivity]. rewrite !sh_eq in E. apply pw_inj.
    pose proof (pw_pos t). nia.
  - exfalso. symmetry in E. exact (sh_lt_absurd b' t' b t Hb' H E).
Qed.

(* ---------- lists built from [1] by appending sums of two members ---------- *)
Inductive built : list Z -> Prop :=
| b_one : built [1]
| b_app c x u v : built c -> In u c -> In v c -> u + v = x -> built (c ++ [x]).

Lemma built_hd c : built c -> exists r, c = 1 :: r.
Proof.
  induction 1 as [|c x u v Hb (r & ->) Hu Hv E]; [now exists []|]. now exists (r ++ [x]).
Qed.

Lemma built_sums c : built c -> forall k, (1 <= k < length c)%nat ->
  exists i j, (i <= j < k)%nat /\ nz c i + nz c j = nz c k.
Proof.
  induction 1 as [|c x u v Hb IH Hu Hv E]; intros k Hk; [cbn [length] in Hk; lia|].
  rewrite app_length in Hk. cbn [length] in Hk.
  assert (Hnz : forall i, (i < length c)%nat -> nz (c ++ [x]) i = nz c i).
  { intros i Hi. unfold nz. now rewrite app_nth1. }
  destruct (Nat.eq_dec k (length c)) as [->|Hne].
  - assert (Ex : nz (c ++ [x]) (length c) = x).
    { unfold nz. rewrite app_nth2 by lia. now rewrite Nat.sub_diag. }
    destruct (In_nth c u 0 Hu) as (iu & Hiu & Eu). destruct (In_nth c v 0 Hv) as (iv & Hiv & Ev).
    destruct (Nat.le_gt_cases iu iv).
    + exists iu, iv. split; [lia|]. rewrite !Hnz, Ex by assumption. unfold nz. lia.
    + exists iv, iu. split; [lia|]. rewrite !Hnz, Ex by assumption. unfold nz. lia.
  - destruct (IH k ltac:(lia)) as (i & j & B & S). exists i, j. split; [exact B|].
    rewrite !Hnz by lia. exact S.
Qed.

(* ---------- state map ---------- *)
Definition upd (g : N -> N) (b v : N) : N -> N := fun b' => if (b' =? b)%N then v else g b'.

Lemma sget_sset s b v b' : sget (sset s b v) b' = upd (sget s) b v b'.
Proof. unfold sset, upd. cbn [sget]. now rewrite N.eqb_sym. Qed.

Lemma shift_loop_S cnt rb t : shift_loop (S cnt) rb t = Z.shiftl rb (Z.of_N (t + 1)) :: shift_loop cnt rb (t + 1).
Proof. reflexivity. Qed.

Definition w64 : Z := 18446744073709551616.
Lemma w64_eq : 2 ^ 64 = w64.
Proof. reflexivity. Qed.
Lemma w64N_eq : (2 ^ 64)%N = 18446744073709551616%N.
Proof. reflexivity. Qed.

Lemma is_uint64_true z : 0 <= z < w64 -> is_uint64 z = true.
Proof. intros H. unfold is_uint64. rewrite w64_eq. apply andb_true_iff. split; [apply Z.leb_le|apply Z.ltb_lt]; lia. Qed.
Lemma is_uint64_false z : w64 <= z -> is_uint64 z = false.
Proof. intros H. unfold is_uint64. rewrite w64_eq. apply andb_false_iff. right. apply Z.ltb_ge. lia. Qed.

Section Lengths.
Variable lc : list Z.
Let n := length lc.
Hypothesis Hc : is_chain lc.

Definition L (i : nat) : N := Z.to_N (nz lc i).

Lemma nz_pos i : (i < n)%nat -> 1 <= nz lc i.
Proof. apply chain_pos. exact Hc. Qed.
Lemma L_ge1 i : (i < n)%nat -> (1 <= L i)%N.
Proof. intros H. pose proof (nz_pos i H). unfold L. lia. Qed.
Lemma L_inj i j : (i < n)%nat -> (j < n)%nat -> L i = L j -> i = j.
Proof.
  intros Hi Hj E. destruct Hc as (_ & Hnd & _). apply (proj1 (NoDup_nth lc 0) Hnd i j Hi Hj).
  pose proof (nz_pos i Hi). pose proof (nz_pos j Hj). unfold L, nz in *. lia.
Qed.
Lemma L_0 : L 0 = 1%N.
Proof. destruct Hc as ((r & E) & _). unfold L, nz. rewrite E. reflexivity. Qed.
Lemma n_pos : (1 <= n)%nat.
Proof. destruct Hc as ((r & E) & _). unfold n. rewrite E. cbn [length]. lia. Qed.

(* ---------- the invariant ---------- *)
Definition Inv (m : nat) (c : list Z) (g : N -> N) : Prop :=
  built c /\ NoDup c /\
  (forall x, In x c <-> (exists i, (i <= m)%nat /\ x = ones (L i)) \/
                        (exists b t, (1 <= t <= g b)%N /\ x = sh b t)) /\
  (forall b, (0 < g b)%N -> exists i, (i <= m)%nat /\ b = L i).

Lemma Inv_ext m c g g' : (forall b, g b = g' b) -> Inv m c g -> Inv m c g'.
Proof.
  intros E (Hb & Hnd & H3 & H4). split; [exact Hb|]. split; [exact Hnd|]. split.
  - intros x. rewrite (H3 x). split; (intros [H|(b & t & Ht & Ex)]; [left; exact H|right; exists b, t]).
    + rewrite <- E. auto.
    + rewrite E. auto.
  - intros b Hg. apply H4. now rewrite E.
Qed.

Lemma Inv_init : Inv 0 [1] (sget []).
Proof.
  split; [constructor|]. split; [constructor; [intros []|constructor]|]. split.
  - intros x. split.
    + intros [<-|[]]. left. exists 0%nat. split; [lia|]. now rewrite L_0.
    + intros [(i & Hi & ->)|(b & t & Ht & _)].
      * assert (i = 0)%nat by lia. subst i. rewrite L_0. left. reflexivity.
      * cbn [sget] in Ht. lia.
  - intros b Hb. cbn [sget] in Hb. lia.
Qed.

(* one more shift of the run b *)
Lemma inv_shift m c g b : (m < n)%nat -> Inv m c g -> (exists i, (i <= m)%nat /\ b = L i) ->
  Inv m (c ++ [sh b (g b + 1)]) (upd g b (g b + 1)).
Proof.
  intros Hm (Hb & Hnd & H3 & H4) (ib & Hib & Eb).
  assert (Hb1 : (1 <= b)%N) by (rewrite Eb; apply L_ge1; lia).
  assert (Hsrc : In (sh b (g b)) c).
  { apply H3. destruct (N.eq_dec (g b) 0) as [E0|Hne].
    - left. exists ib. split; [assumption|]. now rewrite E0, sh_0, Eb.
    - right. exists b, (g b). split; [lia|reflexivity]. }
  assert (Hnew : ~ In (sh b (g b + 1)) c).
  { intros Hin. apply H3 in Hin as [(i & Hi & E)|(b' & t' & Ht' & E)].
    - pose proof (sh_even b (g b + 1) ltac:(lia)) as O. rewrite E, ones_odd in O; [discriminate|].
      apply L_ge1. lia.
    - destruct (H4 b' ltac:(lia)) as (i' & Hi' & Eb').
      apply sh_inj in E as [<- <-]; [lia|assumption|]. rewrite Eb'. apply L_ge1. lia. }
  split; [|split; [|split]].
  - eapply b_app; [exact Hb|exact Hsrc|exact Hsrc|]. symmetry. apply sh_succ.
  - apply NoDup_app_intro; [assumption|constructor; [intros []|constructor]|].
    intros x Hx [<-|[]]. contradiction.
  - intros x. rewrite in_app_iff, (H3 x). cbn [In]. unfold upd. split.
    + intros [[H|(b' & t' & Ht' & E)]|[<-|[]]].
      * left. exact H.
      * right. exists b', t'. split; [|exact E]. destruct (b' =? b)%N eqn:Eq; [apply N.eqb_eq in Eq; subst b'|]; lia.
      * right. exists b, (g b + 1)%N. rewrite N.eqb_refl. split; [lia|reflexivity].
    + intros [H|(b' & t' & Ht' & E)]; [left; left; exact H|].
      destruct (b' =? b)%N eqn:Eq.
      * apply N.eqb_eq in Eq. subst b'. destruct (N.eq_dec t' (g b + 1)) as [->|Hne].
        -- right. left. symmetry. exact E.
        -- left. right. exists b, t'. split; [lia|exact E].
      * left. right. exists b', t'. split; [lia|exact E].
  - intros b' Hg. unfold upd in Hg. destruct (b' =? b)%N eqn:Eq.
    + apply N.eqb_eq in Eq. subst b'. exists ib. auto.
    + apply H4. exact Hg.
Qed.

Lemma upd_upd g b v w b' : upd (upd g b v) b w b' = upd g b w b'.
Proof. unfold upd. destruct (b' =? b)%N; reflexivity. Qed.
Lemma upd_same g b b' : upd g b (g b) b' = g b'.
Proof. unfold upd. destruct (b' =? b)%N eqn:E; [apply N.eqb_eq in E; now subst|reflexivity]. Qed.

(* the whole inner loop *)
Lemma inv_shifts m b : (m < n)%nat -> (exists i, (i <= m)%nat /\ b = L i) ->
  forall cnt c g, Inv m c g ->
  Inv m (c ++ shift_loop cnt (ones b) (g b)) (upd g b (g b + N.of_nat cnt)).
Proof.
  intros Hm Hb. induction cnt as [|cnt IH]; intros c g HI.
  - cbn [shift_loop]. rewrite app_nil_r. eapply Inv_ext; [|exact HI].
    intros b'. change (N.of_nat 0) with 0%N. rewrite N.add_0_r. symmetry. apply upd_same.
  - rewrite shift_loop_S. change (Z.shiftl (ones b) (Z.of_N (g b + 1))) with (sh b (g b + 1)).
    pose proof (inv_shift m c g b Hm HI Hb) as H1.
    specialize (IH _ _ H1).
    assert (Eg : upd g b (g b + 1) b = (g b + 1)%N) by (unfold upd; now rewrite N.eqb_refl).
    rewrite Eg in IH. rewrite <- app_assoc in IH. cbn [app] in IH.
    eapply Inv_ext; [|exact IH]. intros b'. rewrite upd_upd. f_equal. lia.
Qed.

(* appending the run of the new length *)
Lemma inv_ones m c g ia ib : (S m < n)%nat -> Inv m c g -> (ia <= m)%nat -> (ib <= m)%nat ->
  (L ia + L ib = L (S m))%N -> (L ia <= g (L ib))%N ->
  Inv (S m) (c ++ [ones (L ia + L ib)]) g.
Proof.
  intros Hm (Hb & Hnd & H3 & H4) Hia Hib Esum Hg.
  assert (Ha1 : (1 <= L ia)%N) by (apply L_ge1; lia).
  assert (Hb1 : (1 <= L ib)%N) by (apply L_ge1; lia).
  assert (Hsh : In (sh (L ib) (L ia)) c).
  { apply H3. right. exists (L ib), (L ia). split; [lia|reflexivity]. }
  assert (Hon : In (ones (L ia)) c).
  { apply H3. left. exists ia. auto. }
  assert (Hnew : ~ In (ones (L (S m))) c).
  { intros Hin. apply H3 in Hin as [(i & Hi & E)|(b' & t' & Ht' & E)].
    - apply ones_inj, L_inj in E; lia.
    - pose proof (sh_even b' t' ltac:(lia)) as O. rewrite <- E, ones_odd in O; [discriminate|].
      apply L_ge1. lia. }
  rewrite Esum. split; [|split; [|split]].
  - eapply b_app; [exact Hb|exact Hsh|exact Hon|]. rewrite <- Esum. symmetry. apply ones_add.
  - apply NoDup_app_intro; [assumption|constructor; [intros []|constructor]|].
    intros x Hx [<-|[]]. contradiction.
  - intros x. rewrite in_app_iff, (H3 x). cbn [In]. split.
    + intros [[(i & Hi & E)|H]|[<-|[]]].
      * left. exists i. split; [lia|exact E].
      * right. exact H.
      * left. exists (S m). split; [lia|reflexivity].
    + intros [(i & Hi & E)|H]; [|left; right; exact H].
      destruct (Nat.eq_dec i (S m)) as [->|Hne]; [right; left; symmetry; exact E|].
      left. left. exists i. split; [lia|exact E].
  - intros b' Hg'. destruct (H4 b' Hg') as (i & Hi & E). exists i. split; [lia|exact E].
Qed.

Lemma nth_error_nz i : (i < n)%nat -> nth_error lc i = Some (nz lc i).
Proof. intros H. unfold nz. now apply nth_error_nth'. Qed.

(* ---------- one operation of the model, all lengths below 2^64 ---------- *)
Section Small.
Hypothesis Hsmall : forall l, In l lc -> l < w64.

Lemma nz_small i : (i < n)%nat -> nz lc i < w64.
Proof. intros H. apply Hsmall. unfold nz. now apply nth_In. Qed.

Lemma step_core m c s ia ib : (S m < n)%nat -> Inv m c (sget s) -> (ia <= m)%nat -> (ib <= m)%nat ->
  nz lc ia + nz lc ib = nz lc (S m) -> nz lc ia <= nz lc ib ->
  let la := L ia in let lb := L ib in let sb := sget s lb in
  let s' := if (sb <? la)%N then sset s lb la else s in
  Inv (S m) (c ++ shift_loop (N.to_nat (la - sb)) (ones lb) sb ++ [ones (wrap64 (la + lb))]) (sget s').
Proof.
  intros Hm HI Hia Hib Esum Hle la lb sb s'.
  pose proof (nz_pos ia ltac:(lia)) as Pa. pose proof (nz_pos ib ltac:(lia)) as Pb.
  pose proof (nz_small (S m) Hm) as Sm.
  assert (EL : (la + lb = L (S m))%N) by (unfold la, lb, L; lia).
  assert (Ew : wrap64 (la + lb) = (la + lb)%N).
  { unfold wrap64. rewrite w64N_eq. apply N.mod_small. rewrite EL. unfold L. unfold w64 in Sm. lia. }
  rewrite Ew, app_assoc.
  pose proof (inv_shifts m lb ltac:(lia) (ex_intro _ ib (conj Hib eq_refl)) (N.to_nat (la - sb)) c (sget s) HI) as H1.
  fold sb in H1. rewrite N2Nat.id in H1.
  assert (H2 : Inv m (c ++ shift_loop (N.to_nat (la - sb)) (ones lb) sb) (sget s')).
  { eapply Inv_ext; [|exact H1]. intros b'. unfold s'. destruct (sb <? la)%N eqn:E.
    - apply N.ltb_lt in E. rewrite sget_sset. f_equal. lia.
    - apply N.ltb_ge in E. replace (sb + (la - sb))%N with sb by lia. apply upd_same. }
  apply inv_ones; try assumption.
  unfold s'. destruct (sb <? la)%N eqn:E.
  - rewrite sget_sset. unfold upd. rewrite N.eqb_refl. lia.
  - apply N.ltb_ge in E. exact E.
Qed.

Lemma step_ok m c s o : (S m < n)%nat -> Inv m c (sget s) -> op_ok lc (S m) o ->
  exists c' s', runs_step lc (c, s) m o = Ok (c', s') /\ Inv (S m) c' (sget s').
Proof.
  intros Hm HI [Hb Es]. destruct o as [i j]. cbn [fst snd] in Hb, Es.
  unfold runs_step. cbn [fst snd]. rewrite !nth_error_nz by lia.
  pose proof (nz_pos (S m) Hm) as Pm. pose proof (nz_small (S m) Hm) as Sm.
  rewrite (is_uint64_true (nz lc (S m))) by lia. cbn [negb].
  unfold min_max. destruct (nz lc i <? nz lc j) eqn:E.
  - apply Z.ltb_lt in E.
    eexists _, _. split; [reflexivity|]. apply step_core; try assumption; lia.
  - apply Z.ltb_ge in E.
    eexists _, _. split; [reflexivity|]. apply step_core; try assumption; lia.
Qed.

Lemma loop_ok : forall cnt m p c s, Forall2 (op_ok lc) (seq (S m) cnt) p -> (S m + cnt = n)%nat ->
  Inv m c (sget s) -> exists c' g, runs_loop lc p m (c, s) = Ok c' /\ Inv (n - 1) c' g.
Proof.
  induction cnt as [|cnt IH]; intros m p c s HF Hn HI.
  - inversion HF; subst. exists c, (sget s). split; [reflexivity|]. replace (n - 1)%nat with m by lia. exact HI.
  - cbn [seq] in HF. inversion HF as [|k o ks p' Ho HF']; subst.
    destruct (step_ok m c s o ltac:(lia) HI Ho) as (c' & s' & Estep & HI').
    cbn [runs_loop]. rewrite Estep. cbn [obind]. apply (IH (S m) p' c' s' HF' ltac:(lia) HI').
Qed.

Theorem runs_chain_valid_aux :
  exists c, runs_chain lc = Ok c /\ is_chain c /\ forall l, In l lc -> In (2 ^ l - 1) c.
Proof.
  destruct (program_ok lc Hc) as (p & Ep & HF). pose proof n_pos as Hn.
  destruct (loop_ok (n - 1) 0 p [1] [] HF ltac:(lia) Inv_init) as (c & g & Eloop & Hb & Hnd & H3 & H4).
  exists c. split; [unfold runs_chain; rewrite Ep; exact Eloop|]. split.
  - split; [apply built_hd; exact Hb|]. split; [exact Hnd|]. split; [|apply built_sums; exact Hb].
    intros H0. apply H3 in H0 as [(i & Hi & E)|(b & t & Ht & E)].
    + pose proof (ones_ge1 (L i) (L_ge1 i ltac:(lia))). lia.
    + destruct (H4 b ltac:(lia)) as (i & Hi & ->). pose proof (sh_pos (L i) t (L_ge1 i ltac:(lia))). lia.
  - intros l Hl. destruct (In_nth lc l 0 Hl) as (i & Hi & Ei). apply H3. left. exists i. split; [fold n in Hi; lia|].
    rewrite ones_pw. unfold pw, L, nz. rewrite Ei. pose proof (nz_pos i Hi) as P. unfold nz in P. rewrite Ei in P.
    rewrite Z2N.id by lia. reflexivity.
Qed.
End Small.

(* ---------- refusal: the guard on the sum lc[k+1] ---------- *)
Definition guard_ok (k : nat) : bool := is_uint64 (nz lc (S k)).

Lemma runs_step_guard c s k o : (fst o < n)%nat -> (snd o < n)%nat -> (S k < n)%nat ->
  (guard_ok k = true /\ exists st', runs_step lc (c, s) k o = Ok st') \/
  (guard_ok k = false /\ runs_step lc (c, s) k o = Err ($"toolarge")).
Proof.
  intros Hi Hj Hk. unfold runs_step, guard_ok. rewrite !nth_error_nz by assumption.
  unfold min_max. destruct (nz lc (fst o) <? nz lc (snd o));
    destruct (is_uint64 (nz lc (S k))); cbn [negb];
    (left; split; [reflexivity|eexists; reflexivity]) || (right; split; reflexivity).
Qed.

Lemma runs_loop_guard : forall p k st, Forall (fun o => (fst o < n)%nat /\ (snd o < n)%nat) p ->
  (k + length p < n)%nat ->
  (forallb guard_ok (seq k (length p)) = true /\ exists c, runs_loop lc p k st = Ok c) \/
  (forallb guard_ok (seq k (length p)) = false /\ runs_loop lc p k st = Err ($"toolarge")).
Proof.
  induction p as [|o p IH]; intros k [c s] HF Hk.
  - left. split; [reflexivity|]. eexists. reflexivity.
  - inversion HF as [|? ? [Hi Hj] HF']; subst. cbn [length] in Hk. cbn [length seq forallb runs_loop].
    destruct (runs_step_guard c s k o Hi Hj ltac:(lia)) as [[-> (st' & ->)]|[-> ->]].
    + cbn [andb obind]. apply IH; [exact HF'|lia].
    + right. split; reflexivity.
Qed.

Lemma forall2_range ks p : Forall2 (op_ok lc) ks p -> (forall k, In k ks -> (k < n)%nat) ->
  Forall (fun o => (fst o < n)%nat /\ (snd o < n)%nat) p.
Proof.
  induction 1 as [|k o ks p [Hb _] HF IH]; intros Hks; constructor.
  - pose proof (Hks k (or_introl eq_refl)). lia.
  - apply IH. intros k' Hk'. apply Hks. right. exact Hk'.
Qed.

Lemma forall2_len {A B} (R : A -> B -> Prop) xs ys : Forall2 R xs ys -> length xs = length ys.
Proof. induction 1; cbn [length]; congruence. Qed.

Lemma program_range p : program lc = Ok p ->
  Forall (fun o => (fst o < n)%nat /\ (snd o < n)%nat) p /\ length p = (n - 1)%nat.
Proof.
  intros Ep. destruct (program_ok lc Hc) as (p' & Ep' & HF). rewrite Ep in Ep'. injection Ep' as <-.
  split.
  - apply (forall2_range _ _ HF). intros k Hk. apply in_seq in Hk. fold n in Hk. lia.
  - apply forall2_len in HF. rewrite seq_length in HF. fold n in HF. lia.
Qed.

(* a valid chain of lengths gives a chain or the "too large" refusal, never a panic or another error *)
Theorem runs_chain_cases_aux :
  (exists c, runs_chain lc = Ok c) \/ runs_chain lc = Err ($"toolarge").
Proof.
  destruct (program_ok lc Hc) as (p & Ep & _). destruct (program_range p Ep) as [HR HL].
  assert (Hlt : (0 + length p < n)%nat) by (pose proof n_pos; unfold n in *; lia).
  unfold runs_chain. rewrite Ep. cbn [obind].
  destruct (runs_loop_guard p 0 ([1], []) HR Hlt) as [[_ H]|[_ H]]; [left; exact H|right; exact H].
Qed.

(* every length that does not fit 64 bits is refused *)
Theorem runs_chain_refuses_aux : (exists l, In l lc /\ w64 <= l) ->
  runs_chain lc = Err ($"toolarge").
Proof.
  intros (l & Hl & Hbig). destruct (program_ok lc Hc) as (p & Ep & _).
  destruct (program_range p Ep) as [HR HL].
  assert (Hlt : (0 + length p < n)%nat) by (pose proof n_pos; unfold n in *; lia).
  unfold runs_chain. rewrite Ep. cbn [obind].
  destruct (runs_loop_guard p 0 ([1], []) HR Hlt) as [[Hall _]|[_ H]]; [|exact H].
  exfalso. destruct (In_nth lc l 0 Hl) as (k & Hk & Ek). fold n in Hk.
  destruct k as [|k].
  { pose proof L_0 as E0. unfold L, nz in E0. rewrite Ek in E0. unfold w64 in Hbig. lia. }
  assert (Hks : In k (seq 0 (length p))) by (apply in_seq; unfold n in *; lia).
  rewrite forallb_forall in Hall. specialize (Hall k Hks).
  unfold guard_ok, nz in Hall. rewrite Ek, is_uint64_false in Hall by exact Hbig. discriminate.
Qed.
End Lengths.

(* ---------- final statements ---------- *)
Theorem runs_chain_valid lc : is_chain lc -> (forall l, In l lc -> l < 2 ^ 64) ->
  exists c, runs_chain lc = Ok c /\ is_chain c /\ forall l, In l lc -> In (2 ^ l - 1) c.
Proof. intros Hc Hs. apply runs_chain_valid_aux; assumption. Qed.

Theorem runs_chain_cases lc : is_chain lc ->
  (exists c, runs_chain lc = Ok c) \/ runs_chain lc = Err ($"toolarge").
Proof. apply runs_chain_cases_aux. Qed.

Theorem runs_chain_refuses lc : is_chain lc -> (exists l, In l lc /\ 2 ^ 64 <= l) ->
  runs_chain lc = Err ($"toolarge").
Proof. apply runs_chain_refuses_aux. Qed.

(* the two cases are exclusive and exhaustive: Ok exactly when every length fits a machine word *)
Theorem runs_chain_ok_iff lc : is_chain lc ->
  ((exists c, runs_chain lc = Ok c) <-> forall l, In l lc -> l < 2 ^ 64).
Proof.
  intros Hc. split.
  - intros (c & E) l Hl. destruct (Z.lt_ge_cases l (2 ^ 64)) as [|Hge]; [assumption|].
    rewrite (runs_chain_refuses lc Hc (ex_intro _ l (conj Hl Hge))) in E. discriminate.
  - intros Hs. destruct (runs_chain_valid lc Hc Hs) as (c & E & _). now exists c.
Qed.
