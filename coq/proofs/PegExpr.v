(* Expression level of C07: parsing the printed form of any well-formed expression tree gives the tree
   back.  Port of the design-round prototype (appendix B) to the shared models: sticky-error flag,
   Go-int operands, the three literal bases, the exact dbl-class exclusion. *)
From Coq Require Import List NArith ZArith Lia Bool Arith.
From AV Require Import model.Proto model.Ast model.Printer model.Peg proofs.PegBasics.
Import ListNotations.
Open Scope N_scope.

Notation wfe sh e := (wf_expr sh e = true).

(* what may follow a printed shift-expression / add-expression *)
Definition fol (r : list N) := match skipws r with [] => True | c :: _ => c = 43 \/ c = 41 \/ c = 10 end.
Definition fola (r : list N) := match skipws r with [] => True | c :: _ => c = 41 \/ c = 10 end.

Lemma fola_fol r : fola r -> fol r.
Proof. unfold fola, fol. destruct (skipws r); intuition. Qed.

Lemma fol_head r (p : N -> bool) :
  (forall c, is_ws c = true -> p c = false) -> p 43 = false -> p 41 = false -> p 10 = false ->
  fol r -> nohead p r.
Proof.
  intros Hws H1 H2 H3 Hf. destruct (skipws_cases r) as [(c & t & -> & Hc)|E].
  - simpl. now apply Hws.
  - unfold fol in Hf. rewrite E in Hf. destruct r as [|c t]; [exact I|]. simpl.
    destruct Hf as [->|[->| ->]]; assumption.
Qed.

Lemma fol_sepr r : fol r -> sepr r.
Proof. apply fol_head; try reflexivity. intros c H. destruct (ws_cases c H) as [->|[->| ->]]; reflexivity. Qed.

(* ---------- well-formedness ---------- *)
Lemma wf_mono e : wfe true e -> wfe false e.
Proof.
  destruct e; cbn [wf_expr]; auto. intros H. apply andb_true_iff in H as [H _]. rewrite H. reflexivity.
Qed.
Lemma wf_op_sh e a b : is_op e = true -> wfe a e -> wfe b e.
Proof. destruct e; try discriminate; auto. Qed.
Lemma wf_ident_ok sh s : wfe sh (EIdent s) -> ident_ok s = true.
Proof. cbn [wf_expr]. intros H. now apply andb_true_iff in H as [H _]. Qed.
Lemma wf_ident_dbl s : wfe true (EIdent s) -> dbl_class s = false.
Proof. cbn [wf_expr]. intros H. apply andb_true_iff in H as [_ H]. simpl in H. now apply negb_true_iff in H. Qed.

Lemma ident_ok_cons s : ident_ok s = true -> exists c t, s = c :: t /\ is_alpha_ c = true /\ forallb is_idc t = true.
Proof. destruct s as [|c t]; [discriminate|]. simpl. intros H. apply andb_true_iff in H as [H1 H2]. eauto. Qed.

(* ---------- atoms ---------- *)
Section WithPE.
Variable pe : list N -> pres expr.

Lemma base_one r : p_base pe (49 :: r) = PGot false (EOperand 0) r.
Proof. reflexivity. Qed.

Lemma to_int_small p : (Z.pos p < 2 ^ 63)%Z -> (2 ^ 63 <=? N.pos p) = false /\ to_int (N.pos p) = Z.pos p.
Proof.
  intros H. assert (Hn : N.pos p < 2 ^ 63) by lia.
  split; [apply N.leb_gt; exact Hn|]. unfold to_int.
  replace (N.pos p <? 2 ^ 63) with true by (symmetry; apply N.ltb_lt; exact Hn). reflexivity.
Qed.

Lemma base_index p r : (Z.pos p < 2 ^ 63)%Z ->
  p_base pe (pr_expr (EOperand (Z.pos p)) ++ r) = PGot false (EOperand (Z.pos p)) r.
Proof.
  intros Hp. destruct (to_int_small p Hp) as [Hflag Hint].
  cbn [pr_expr]. change (Z.pos p =? 0)%Z with false. cbv iota.
  change (dec_strZ (Z.pos p)) with (dec_str (N.pos p)).
  rewrite <- !app_assoc. cbn [app].
  unfold p_base, p_paren. rewrite lit1_ne by lia. cbn [palt por orb].
  unfold p_operand. rewrite lit1_ne by lia. unfold p_index. rewrite lit1_eq.
  destruct (dec_str_head (N.pos p) (93 :: r)) as (c & t & E & Hc).
  rewrite skipws_nows by (rewrite E; simpl; now apply digit_nows).
  rewrite p_uint_dec; [|lia|reflexivity].
  cbn [pbind por orb]. rewrite skipws_nows by reflexivity. rewrite lit1_eq.
  rewrite Hflag, Hint. reflexivity.
Qed.

Lemma base_ident s r : ident_ok s = true -> sepr r -> p_base pe (s ++ r) = PGot false (EIdent s) r.
Proof.
  intros Hs Hr. destruct (ident_ok_cons s Hs) as (c & t & -> & Hc & Ht). cbn [app].
  pose proof (alpha_cases c Hc) as Hcc.
  unfold p_base, p_paren. rewrite lit1_ne by lia. cbn [palt por orb]. unfold p_operand.
  rewrite lit1_ne by lia. unfold p_index. rewrite lit1_ne by lia. cbn [palt por orb].
  unfold p_ident. rewrite Hc. rewrite (span_app _ _ _ Ht Hr). reflexivity.
Qed.

(* a base expression cannot start at an operator, a closing parenthesis, a newline or the end *)
Lemma base_fail_fol r : fol r -> p_base pe (skipws r) = PFail false.
Proof.
  unfold fol. destruct (skipws r) as [|c t]; [reflexivity|].
  intros [->|[->| ->]]; reflexivity.
Qed.

Lemma base_fail_digit c t : is_digit c = true -> c <> 49 -> p_base pe (c :: t) = PFail false.
Proof.
  intros Hd Hc. pose proof (digit_cases c Hd) as Hcc.
  unfold p_base, p_paren. rewrite lit1_ne by lia. cbn [palt por orb]. unfold p_operand.
  rewrite lit1_ne by lia. unfold p_index. rewrite lit1_ne by lia. cbn [palt por orb].
  unfold p_ident.
  assert (Ha : is_alpha_ c = false).
  { destruct (is_alpha_ c) eqn:E; [|reflexivity]. apply alpha_nodigit in E. congruence. }
  rewrite Ha. reflexivity.
Qed.
End WithPE.

(* ---------- measures ---------- *)
Fixpoint d (e : expr) : nat :=
  match e with
  | EAdd x y => Nat.max (d x) (if is_add y then S (d y) else d y)
  | EShift x _ | EDouble x => if is_op x then S (d x) else d x
  | _ => 0%nat
  end.
Definition sp e := paren (is_add e) (pr_expr e).
Definition bp e := paren (is_op e) (pr_expr e).
Definition dsp e := if is_add e then S (d e) else d e.
Definition dbp e := if is_op e then S (d e) else d e.

Fixpoint size (e : expr) : nat :=
  match e with
  | EAdd x y => S (size x + size y)
  | EShift x _ | EDouble x => S (size x)
  | _ => 1%nat
  end.

Definition CA e := forall f r, (d e < f)%nat -> fola r -> p_expr f (pr_expr e ++ r) = PGot false e (skipws r).
Definition CS e := forall f r, (dsp e <= f)%nat -> fol r ->
  exists r', p_shift (p_expr f) (sp e ++ r) = PGot false e r' /\ skipws r' = skipws r.
Definition CB e := forall f r, (dbp e <= f)%nat -> sepr r -> p_base (p_expr f) (bp e ++ r) = PGot false e r.

(* first character of a printed expression *)
Lemma pr_head e : wfe false e -> forall r, exists c t, pr_expr e ++ r = c :: t /\
  (c = 49 \/ c = 91 \/ c = 40 \/ c = 50 \/ is_alpha_ c = true).
Proof.
  induction e as [i|s|x IHx y IHy|x IHx s|x IHx]; intros Hw r.
  - cbn [pr_expr]. destruct (i =? 0)%Z; [exists 49, r; auto|]. exists 91, (dec_strZ i ++ [93] ++ r).
    split; [|auto]. cbn [app]. now rewrite <- app_assoc.
  - apply wf_ident_ok in Hw. destruct (ident_ok_cons s Hw) as (c & t & -> & Hc & _). exists c, (t ++ r). auto 6.
  - cbn [wf_expr] in Hw. apply andb_true_iff in Hw as [Hx _]. cbn [pr_expr]. rewrite <- app_assoc.
    apply IHx. now apply wf_mono.
  - cbn [wf_expr] in Hw. apply andb_true_iff in Hw as [Hx _]. cbn [pr_expr]. rewrite <- app_assoc.
    unfold paren. destruct (is_op x); [|now apply IHx]. eexists 40, _. split; [reflexivity|auto].
  - cbn [pr_expr]. eexists 50, _. split; [reflexivity|auto 6].
Qed.

Lemma head_nows c : (c = 49 \/ c = 91 \/ c = 40 \/ c = 50 \/ is_alpha_ c = true) -> is_ws c = false.
Proof. intros [->|[->|[->|[->|H]]]]; try reflexivity. now apply alpha_nows. Qed.

Lemma pr_nows e : wfe false e -> forall r, nohead is_ws (pr_expr e ++ r).
Proof. intros Hw r. destruct (pr_head e Hw r) as (c & t & -> & Hc). simpl. now apply head_nows. Qed.
Lemma sp_nows e : wfe false e -> forall r, nohead is_ws (sp e ++ r).
Proof. intros Hw r. unfold sp, paren. destruct (is_add e); [reflexivity|]. now apply pr_nows. Qed.
Lemma bp_nows e : wfe false e -> forall r, nohead is_ws (bp e ++ r).
Proof. intros Hw r. unfold bp, paren. destruct (is_op e); [reflexivity|]. now apply pr_nows. Qed.

(* parenthesised form, given CA *)
Lemma base_paren e : wfe false e -> CA e -> forall f r, (S (d e) <= f)%nat ->
  p_base (p_expr f) ([40] ++ pr_expr e ++ [41] ++ r) = PGot false e r.
Proof.
  intros Hw HA f r Hf. cbn [app]. unfold p_base, p_paren. rewrite lit1_eq.
  rewrite skipws_nows by (now apply pr_nows).
  rewrite (HA f (41 :: r)) by (try lia; unfold fola; simpl; auto).
  cbn [pbind por orb]. rewrite !(skipws_nows (41 :: r)) by reflexivity. rewrite lit1_eq. reflexivity.
Qed.

Lemma shiftop_none r : fol r -> p_shiftop (skipws r) = None.
Proof.
  unfold fol. destruct (skipws r) as [|c t]; [reflexivity|].
  intros [->|[->| ->]]; reflexivity.
Qed.
Lemma addop_none r : fola r -> p_addop (skipws r) = None.
Proof.
  unfold fola. destruct (skipws r) as [|c t]; [reflexivity|].
  intros [->| ->]; reflexivity.
Qed.

(* CB from CA (operators) or directly (atoms) *)
Lemma CB_of e : wfe false e -> (is_op e = true -> CA e) -> CB e.
Proof.
  intros Hw HA f r Hf Hr. unfold bp, dbp in *. destruct (is_op e) eqn:Eop.
  - unfold paren. rewrite <- !app_assoc. apply base_paren; auto.
  - unfold paren. destruct e as [i|s| | |]; try discriminate.
    + cbn [wf_expr] in Hw. apply andb_true_iff in Hw as [H0 H1]. apply Z.leb_le in H0. apply Z.ltb_lt in H1.
      destruct i as [|p|p]; [apply base_one|now apply base_index|lia].
    + apply base_ident; [eapply wf_ident_ok; eauto|exact Hr].
Qed.

(* the doubling alternative of ShiftExpr fails on an atom that may stand where a shift-expression starts *)
Definition alt2 (pe : list N -> pres expr) (s : list N) : pres expr :=
  match p_dblop (skipws s) with
  | Some r => pbind (p_base pe (skipws r)) (fun x r2 => PGot false (EDouble x) r2)
  | None => PFail false
  end.

Lemma alt2_fail_atom pe e r : wfe true e -> is_op e = false -> fol r -> alt2 pe (pr_expr e ++ r) = PFail false.
Proof.
  intros Hw Hop Hr. unfold alt2. rewrite skipws_nows by (apply pr_nows; now apply wf_mono).
  destruct e as [i|s| | |]; try discriminate.
  - cbn [pr_expr]. destruct (i =? 0)%Z; reflexivity.
  - pose proof (wf_ident_ok _ _ Hw) as Hok. pose proof (wf_ident_dbl _ Hw) as Hdbl.
    destruct (ident_ok_cons s Hok) as (c & t & -> & Hc & Ht). cbn [pr_expr app].
    pose proof (alpha_cases c Hc) as Hcc.
    unfold p_dblop. rewrite lit1_ne by lia. cbn [oalt].
    destruct (lit [100; 98; 108] (c :: t ++ r)) as [r1|] eqn:El; [|reflexivity].
    apply lit_spec in El. pose proof (fol_sepr r Hr) as Hsep.
    destruct t as [|c2 t].
    { cbn [app] in El. injection El as -> El. rewrite El in Hsep. discriminate Hsep. }
    destruct t as [|c3 t].
    { cbn [app] in El. injection El as -> -> El. rewrite El in Hsep. discriminate Hsep. }
    cbn [app] in El. injection El as -> -> -> El. subst r1.
    destruct t as [|c4 t].
    + cbn [app]. rewrite base_fail_fol by assumption. reflexivity.
    + cbn [app]. simpl in Hdbl. apply orb_false_iff in Hdbl as [Ha H1]. apply N.eqb_neq in H1.
      cbn [forallb] in Ht. apply andb_true_iff in Ht as [_ Ht]. apply andb_true_iff in Ht as [_ Ht].
      apply andb_true_iff in Ht as [H4 _]. unfold is_idc in H4. rewrite Ha in H4. cbn [orb] in H4.
      rewrite skipws_nows by (simpl; now apply digit_nows).
      rewrite base_fail_digit by assumption. reflexivity.
Qed.

Lemma p_shift_unfold pe s : p_shift pe s =
  palt (pbind (p_base pe (skipws s)) (fun x r =>
          match p_shiftop (skipws r) with
          | Some r2 => pbind (p_uint (skipws r2)) (fun n r3 => PGot false (EShift x n) (skipws r3))
          | None => PFail false
          end))
  (fun _ => palt (alt2 pe s) (fun _ => p_base pe s)).
Proof. reflexivity. Qed.

(* CS for non-add expressions from CB of children *)
Lemma CS_nonadd e : wfe true e -> is_add e = false ->
  (forall x, (size x < size e)%nat -> wfe false x -> CB x) -> (is_op e = false -> CB e) -> CS e.
Proof.
  intros Hw Hna IH HBe f r Hf Hr. unfold sp, dsp in *. rewrite Hna in *. unfold paren.
  pose proof (wf_mono _ Hw) as Hwf.
  destruct e as [i|s|x y|x s|x]; try discriminate.
  - (* operand *)
    exists r. split; [|reflexivity]. rewrite p_shift_unfold.
    rewrite skipws_nows by (now apply pr_nows).
    assert (HB : p_base (p_expr f) (pr_expr (EOperand i) ++ r) = PGot false (EOperand i) r).
    { apply (HBe eq_refl f r); [unfold dbp; cbn [is_op d]; lia| now apply fol_sepr]. }
    rewrite HB. cbn [pbind]. rewrite shiftop_none by assumption. cbn [por orb palt].
    rewrite alt2_fail_atom by auto. cbn [por orb palt]. rewrite ?HB. reflexivity.
  - (* ident *)
    exists r. split; [|reflexivity]. rewrite p_shift_unfold.
    rewrite skipws_nows by (now apply pr_nows).
    assert (HB : p_base (p_expr f) (pr_expr (EIdent s) ++ r) = PGot false (EIdent s) r).
    { apply (HBe eq_refl f r); [unfold dbp; cbn [is_op d]; lia| now apply fol_sepr]. }
    rewrite HB. cbn [pbind]. rewrite shiftop_none by assumption. cbn [por orb palt].
    rewrite alt2_fail_atom by auto. cbn [por orb palt]. rewrite ?HB. reflexivity.
  - (* shift *)
    cbn [wf_expr] in Hw. apply andb_true_iff in Hw as [Hwx Hs]. apply N.ltb_lt in Hs.
    exists (skipws r). split; [|apply skipws_idem]. rewrite p_shift_unfold.
    cbn [pr_expr]. rewrite <- !app_assoc.
    change (paren (is_op x) (pr_expr x)) with (bp x).
    rewrite skipws_nows by (now apply bp_nows).
    rewrite (IH x ltac:(simpl; lia) Hwx f) by (first [exact Hf | reflexivity]).
    cbn [pbind app]. rewrite skipws_sp. rewrite skipws_nows by reflexivity.
    change (p_shiftop (60 :: 60 :: 32 :: dec_str s ++ r)) with (Some (32 :: dec_str s ++ r)).
    cbv iota. rewrite skipws_sp.
    destruct (dec_str_head s r) as (c & t & E & Hc).
    rewrite skipws_nows by (rewrite E; simpl; now apply digit_nows).
    rewrite p_uint_dec by (first [exact Hs | now apply fol_sepr]). reflexivity.
  - (* double *)
    cbn [wf_expr] in Hw.
    exists r. split; [|reflexivity]. rewrite p_shift_unfold. cbn [pr_expr]. rewrite <- !app_assoc. cbn [app].
    rewrite skipws_nows by reflexivity.
    assert (Hb1 : p_base (p_expr f) (50 :: 42 :: paren (is_op x) (pr_expr x) ++ r) = PFail false) by reflexivity.
    rewrite Hb1. cbn [pbind palt por orb].
    unfold alt2. rewrite skipws_nows by reflexivity.
    change (p_dblop (50 :: 42 :: paren (is_op x) (pr_expr x) ++ r)) with (Some (paren (is_op x) (pr_expr x) ++ r)).
    cbv iota.
    change (paren (is_op x) (pr_expr x)) with (bp x).
    rewrite skipws_nows by (now apply bp_nows).
    rewrite (IH x ltac:(simpl; lia) Hw f r) by (first [exact Hf | now apply fol_sepr]).
    reflexivity.
Qed.

(* ---------- additions: the spine ---------- *)
Fixpoint spine (e : expr) : expr * list expr :=
  match e with
  | EAdd x y => let '(h, ys) := spine x in (h, ys ++ [y])
  | _ => (e, [])
  end.

Definition item (y : expr) : list N := [32; 43; 32] ++ sp y.
Definition items (ys : list expr) : list N := concat (map item ys).

Lemma items_app a b : items (a ++ b) = items a ++ items b.
Proof. unfold items. now rewrite map_app, concat_app. Qed.

Lemma spine_spec e : let '(h, ys) := spine e in
  e = fold_left EAdd ys h /\ pr_expr e = pr_expr h ++ items ys /\ is_add h = false /\
  (size h <= size e)%nat /\ Forall (fun y => size y < size e)%nat ys /\
  (d h <= d e)%nat /\ Forall (fun y => dsp y <= d e)%nat ys /\
  (wfe true e -> wfe true h /\ Forall (fun y => wfe true y) ys) /\ (ys = [] -> h = e).
Proof.
  assert (Hatom : forall e, is_add e = false -> let '(h, ys) := spine e in
  e = fold_left EAdd ys h /\ pr_expr e = pr_expr h ++ items ys /\ is_add h = false /\
  (size h <= size e)%nat /\ Forall (fun y => size y < size e)%nat ys /\
  (d h <= d e)%nat /\ Forall (fun y => dsp y <= d e)%nat ys /\
  (wfe true e -> wfe true h /\ Forall (fun y => wfe true y) ys) /\ (ys = [] -> h = e)).
  { intros e0 H0. destruct e0; try discriminate; cbn [spine]; unfold items; cbn [map concat];
    rewrite ?app_nil_r; repeat split; auto. }
  induction e as [i|s|x IHx y _|x _ s|x _]; try (apply Hatom; reflexivity).
  cbn [spine]. destruct (spine x) as [h ys].
  destruct IHx as (E & Hp & Hh & Hs & Hys & Hd & Hdy & Hw & _).
  repeat split.
  - rewrite fold_left_app. cbn [fold_left]. now rewrite <- E.
  - cbn [pr_expr]. rewrite Hp, items_app, <- app_assoc. f_equal. unfold items. cbn [map concat].
    rewrite app_nil_r. reflexivity.
  - exact Hh.
  - cbn [size]. lia.
  - apply Forall_app. split.
    + eapply Forall_impl; [|exact Hys]. cbn [size]. intros; lia.
    + constructor; [cbn [size]; lia|constructor].
  - cbn [d]. lia.
  - apply Forall_app. split.
    + eapply Forall_impl; [|exact Hdy]. cbn [d]. intros; lia.
    + constructor; [|constructor]. unfold dsp. cbn [d]. lia.
  - cbn [wf_expr] in H. apply andb_true_iff in H as [H1 H2]. destruct (Hw H1) as [? ?]. assumption.
  - cbn [wf_expr] in H. apply andb_true_iff in H as [H1 H2]. destruct (Hw H1) as [? ?].
    apply Forall_app. split; [assumption|]. constructor; [exact H2|constructor].
  - intros Hnil. destruct ys; discriminate.
Qed.

Lemma items_len ys : (length ys <= length (items ys))%nat.
Proof.
  induction ys as [|y ys IH]; [simpl; lia|].
  unfold items in *. cbn [map concat]. rewrite app_length. unfold item at 1. rewrite app_length. simpl. lia.
Qed.

Lemma fol_items ys r : fola r -> fol (items ys ++ r).
Proof.
  intros Hr. destruct ys as [|y ys]; [now apply fola_fol|].
  unfold items, item. cbn [map concat app]. unfold fol. simpl. auto.
Qed.

Section ADD.
Variable f : nat.
Lemma addrest_items ys : Forall (fun y => wfe true y /\ CS y /\ (dsp y <= f)%nat) ys ->
  forall n acc s r, (length ys < n)%nat -> skipws s = skipws (items ys ++ r) -> fola r ->
  exists r', p_addrest (p_expr f) n false acc s = PGot false (fold_left EAdd ys acc) r' /\ skipws r' = skipws r.
Proof.
  induction 1 as [|y ys (Hwy & HSy & Hdy) Hys IH]; intros n acc s r Hfu Hs Hr.
  - exists s. split; [|exact Hs]. destruct n as [|n]; [simpl in Hfu; lia|]. cbn [p_addrest].
    cbn [items map concat app] in Hs. rewrite Hs, addop_none by assumption. reflexivity.
  - destruct n as [|n]; [simpl in Hfu; lia|]. cbn [p_addrest].
    unfold items in Hs. cbn [map concat] in Hs. fold (items ys) in Hs.
    unfold item in Hs. rewrite <- !app_assoc in Hs. cbn [app] in Hs.
    rewrite skipws_sp in Hs. rewrite (skipws_nows (43 :: _)) in Hs by reflexivity.
    rewrite Hs.
    change (p_addop (43 :: 32 :: sp y ++ items ys ++ r)) with (Some (32 :: sp y ++ items ys ++ r)).
    cbv beta iota. rewrite skipws_sp. rewrite skipws_nows by (apply sp_nows; now apply wf_mono).
    destruct (HSy f (items ys ++ r) Hdy (fol_items ys r Hr)) as (r1 & E1 & Hr1).
    rewrite E1. cbn [orb].
    destruct (IH n (EAdd acc y) r1 r ltac:(simpl in Hfu; lia) Hr1 Hr) as (r' & E' & Hr').
    exists r'. split; [exact E'|exact Hr'].
Qed.
End ADD.

Lemma CA_of e : wfe true e ->
  (let '(h, ys) := spine e in CS h /\ Forall CS ys) -> CA e.
Proof.
  intros Hw. pose proof (spine_spec e) as Hsp. destruct (spine e) as [h ys].
  destruct Hsp as (E & Hp & Hh & _ & _ & Hd & Hdy & Hwf & _). destruct (Hwf Hw) as [Hwh Hwys].
  intros [HSh HSys] f r Hf Hr. destruct f as [|f]; [lia|]. cbn [p_expr]. unfold p_add.
  rewrite skipws_nows by (apply pr_nows; now apply wf_mono). rewrite Hp, <- app_assoc.
  assert (Esp : sp h = pr_expr h) by (unfold sp; now rewrite Hh). rewrite <- Esp.
  destruct (HSh f (items ys ++ r)) as (r1 & E1 & Hr1).
  { unfold dsp. rewrite Hh. lia. }
  { now apply fol_items. }
  rewrite E1. cbn [pbind].
  destruct (addrest_items f ys) with (n := S (length r1)) (acc := h) (s := r1) (r := r)
    as (r' & E' & Hr'); auto.
  - rewrite Forall_forall in *. intros y Hy. repeat split; auto. specialize (Hdy y Hy). lia.
  - (* the loop counter covers the number of addends *)
    pose proof (skipws_length r1) as Hl1.
    destruct ys as [|y ys']; [simpl; lia|].
    assert (Hsk : skipws (items (y :: ys') ++ r) = 43 :: 32 :: sp y ++ items ys' ++ r).
    { unfold items. cbn [map concat]. fold (items ys'). unfold item. rewrite <- !app_assoc. cbn [app].
      rewrite skipws_sp. now rewrite skipws_nows by reflexivity. }
    rewrite Hsk in Hr1. rewrite Hr1 in Hl1. cbn [length] in Hl1. rewrite !app_length in Hl1.
    pose proof (items_len ys') as Hil. cbn [length]. lia.
  - rewrite E'. cbn [pbind por orb]. rewrite <- E. now rewrite Hr'.
Qed.

Lemma CS_add e : wfe true e -> is_add e = true -> CA e -> CS e.
Proof.
  intros Hw Ha HA f r Hf Hr. exists r. split; [|reflexivity].
  unfold sp, dsp in *. rewrite Ha in *. unfold paren. rewrite <- !app_assoc.
  assert (HB : p_base (p_expr f) ([40] ++ pr_expr e ++ [41] ++ r) = PGot false e r)
    by (apply base_paren; auto using wf_mono).
  rewrite p_shift_unfold. rewrite skipws_nows by reflexivity. rewrite HB. cbn [pbind].
  rewrite shiftop_none by assumption. cbn [por orb palt].
  assert (Hd : alt2 (p_expr f) ([40] ++ pr_expr e ++ [41] ++ r) = PFail false) by reflexivity.
  rewrite Hd. cbn [por orb palt]. rewrite ?HB. reflexivity.
Qed.

Theorem roundtrip_all : forall n e, (size e < n)%nat ->
  (wfe false e -> CB e) /\ (wfe true e -> CA e /\ CS e).
Proof.
  induction n as [|n IHn]; intros e Hs; [lia|].
  assert (IH : forall x, (size x < size e)%nat -> (wfe false x -> CB x) /\ (wfe true x -> CA x /\ CS x)).
  { intros x Hx. apply IHn. lia. }
  assert (Htrue : wfe true e -> CA e /\ CS e).
  { intros Hw. destruct (is_add e) eqn:Ea.
    - (* addition: CA first *)
      assert (HA : CA e).
      { apply CA_of; [assumption|]. pose proof (spine_spec e) as Hsp. destruct (spine e) as [h ys].
        destruct Hsp as (E & _ & Hh & Hsh & Hsys & _ & _ & Hwf & Hnil). destruct (Hwf Hw) as [Hwh Hwys].
        assert (Hne : ys <> []).
        { intros ->. specialize (Hnil eq_refl). subst h. congruence. }
        assert (Hlt : (size h < size e)%nat).
        { rewrite E. clear -Hne. revert h. induction ys as [|y ys IHy]; [congruence|]. intros h. cbn [fold_left].
          destruct ys as [|y' ys']; [cbn [fold_left size]; lia|].
          eapply Nat.lt_trans; [|apply IHy; discriminate]. cbn [size]. lia. }
        split; [apply (IH h Hlt); assumption|].
        rewrite Forall_forall in *. intros y Hy. apply (IH y (Hsys y Hy)). auto. }
      split; [exact HA|]. now apply CS_add.
    - (* non-addition: CB of children -> CS -> CA *)
      assert (HBc : forall x, (size x < size e)%nat -> wfe false x -> CB x) by (intros x Hx; now apply IH).
      assert (HBatom : is_op e = false -> CB e).
      { intros Hop. apply CB_of; [now apply wf_mono|]. rewrite Hop. discriminate. }
      assert (HS : CS e) by (apply CS_nonadd; auto).
      split; [|exact HS].
      apply CA_of; [assumption|]. destruct e; try discriminate; cbn [spine]; split; auto. }
  split; [|exact Htrue].
  intros Hw. apply CB_of; [assumption|]. intros Hop. apply Htrue. eapply wf_op_sh; eauto.
Qed.

Corollary roundtrip_expr e r f : wfe true e -> (d e < f)%nat -> fola r ->
  p_expr f (pr_expr e ++ r) = PGot false e (skipws r).
Proof.
  intros Hw. destruct (roundtrip_all (S (size e)) e ltac:(lia)) as [_ H]. destruct (H Hw) as [HA _]. apply HA.
Qed.

(* the nesting depth never exceeds the length of the printed text *)
Lemma d_le_length e : (d e <= length (pr_expr e))%nat.
Proof.
  induction e as [i|s|x IHx y IHy|x IHx s|x IHx]; cbn [d pr_expr]; try lia.
  - rewrite !app_length. unfold paren. destruct (is_add y); rewrite ?app_length; simpl; lia.
  - rewrite !app_length. unfold paren. destruct (is_op x); rewrite ?app_length; simpl; lia.
  - rewrite !app_length. unfold paren. destruct (is_op x); rewrite ?app_length; simpl; lia.
Qed.
