(* Proofs about model/Gen.v: the listing round trip (render, then read as documented), validation
   and compilation make an accepted program well-formed in the sense of C05, the literal execution
   of the listing simulates the name-keyed interpreter on the allocated program, chain/ops/script
   outputs. *)
From Coq Require Import String.
From Coq Require Import List NArith ZArith Bool Arith Lia.
From AV Require Import model.Proto model.Chain model.Ast model.Ir model.Peg model.Printer model.Translate
  model.AstProto model.Alloc model.Interp model.Gen proofs.AllocProofs proofs.InterpProofs proofs.TranslateBasics proofs.PegProofs proofs.PegSound.
From AV Require model.Program.
Import ListNotations.
Open Scope Z_scope.

(* ------------------------------------------------------------------ split / join *)
Lemma split_nosep sep a : ~ In sep a -> split sep a = [a].
Proof.
  induction a as [|c a IH]; intros H; cbn [split]; [reflexivity|].
  destruct (N.eqb_spec c sep) as [->|Hne]; [exfalso; apply H; now left|].
  rewrite IH by (intros Hin; apply H; now right). reflexivity.
Qed.

Lemma split_app sep a b : ~ In sep a -> split sep (a ++ sep :: b) = a :: split sep b.
Proof.
  induction a as [|c a IH]; intros H; cbn [split app].
  - now rewrite N.eqb_refl.
  - destruct (N.eqb_spec c sep) as [->|Hne]; [exfalso; apply H; now left|].
    rewrite IH by (intros Hin; apply H; now right). reflexivity.
Qed.

Lemma split_join sep l : l <> [] -> (forall x, In x l -> ~ In sep x) -> split sep (join [sep] l) = l.
Proof.
  induction l as [|x l IH]; intros Hne H; [congruence|].
  destruct l as [|y l].
  - cbn [join]. apply split_nosep, H. now left.
  - change (join [sep] (x :: y :: l)) with (x ++ [sep] ++ join [sep] (y :: l)).
    cbn [app]. rewrite split_app by (apply H; now left).
    rewrite IH; [reflexivity|discriminate|]. intros z Hz. apply H. now right.
Qed.

Lemma join_nosep sep c l : c <> sep -> (forall x, In x l -> ~ In c x) -> ~ In c (join [sep] l).
Proof.
  intros Hc. induction l as [|x l IH]; intros H; [intros []|].
  destruct l as [|y l].
  - cbn [join]. apply H. now left.
  - change (join [sep] (x :: y :: l)) with (x ++ [sep] ++ join [sep] (y :: l)).
    intros Hin. apply in_app_or in Hin as [Hin|Hin]; [apply (H x); [now left|exact Hin]|].
    cbn [app] in Hin. destruct Hin as [E|Hin]; [congruence|].
    revert Hin. apply IH. intros z Hz. apply H. now right.
Qed.

Lemma drop_last_empty_app l : drop_last_empty (l ++ [[]]) = Some l.
Proof.
  induction l as [|x l IH]; [reflexivity|].
  cbn [app]. destruct l as [|y l].
  - cbn [app]. destruct x; reflexivity.
  - cbn [app] in *. cbn [drop_last_empty]. destruct x; cbn [drop_last_empty] in IH |- *; rewrite IH; reflexivity.
Qed.

(* ------------------------------------------------------------------ decimal digits *)
Lemma print_base_digits f : forall n l c, (forall d, In d l -> (48 <= d <= 57)%N) ->
  In c (print_base_fuel 10 f n l) -> (48 <= c <= 57)%N.
Proof.
  induction f as [|f IH]; intros n l c Hl Hc; cbn [print_base_fuel] in Hc; [auto|].
  assert (Hd : (48 <= hexchar (n mod 10) <= 57)%N).
  { assert (Hr : (n mod 10 < 10)%N) by (apply N.mod_lt; discriminate). unfold hexchar.
    generalize dependent (n mod 10)%N. intros r Hr. destruct (N.ltb_spec r 10); lia. }
  destruct (n / 10 =? 0)%N.
  - destruct Hc as [<-|Hc]; auto.
  - apply (IH (n / 10)%N (hexchar (n mod 10) :: l) c); [|exact Hc]. intros d [<-|Hin]; auto.
Qed.

Lemma print_decN_digits n c : In c (print_decN n) -> (48 <= c <= 57)%N.
Proof. apply print_base_digits. intros d []. Qed.

Lemma print_base_keeps f : forall n l, l <> [] -> print_base_fuel 10 f n l <> [].
Proof.
  induction f as [|f IH]; intros n l Hl; cbn [print_base_fuel]; [exact Hl|].
  destruct (n / 10 =? 0)%N; [discriminate|]. apply IH. discriminate.
Qed.

Lemma print_decN_nonempty n : print_decN n <> [].
Proof.
  unfold print_decN. cbn [print_base_fuel].
  destruct (n / 10 =? 0)%N; [discriminate|]. apply print_base_keeps. discriminate.
Qed.

Lemma parse_print_decN n : parse_decN (print_decN n) = Some n.
Proof.
  pose proof (print_decN_nonempty n) as Hne. revert Hne. unfold print_decN.
  destruct (print_dec_parse (S (N.to_nat (N.size n))) n []) as (ds & k & Ed & Hp); [lia| |].
  - rewrite Nat2N.inj_succ, N2Nat.id, N.pow_succ_r'. pose proof (N.size_gt n). lia.
  - rewrite Ed, app_nil_r. intros Hne. unfold parse_decN.
    destruct ds as [|d ds]; [congruence|].
    rewrite Hp. f_equal.
Qed.

(* ------------------------------------------------------------------ listing round trip *)
(* a name that can stand in a tab-separated, newline-terminated field *)
Definition clean (n : list N) : Prop := n <> [] /\ ~ In tab n /\ ~ In nl n.

Definition names_clean (q : list (list N) * iprogram) : Prop :=
  (forall n, In n (fst q) -> clean n) /\
  (forall i o, In i (snd q) -> In o (operands i) -> clean (operand_str o)).

Lemma kw_tmp : $"tmp" = [116; 109; 112]%N. Proof. reflexivity. Qed.
Lemma kw_add : $"add" = [97; 100; 100]%N. Proof. reflexivity. Qed.
Lemma kw_double : $"double" = [100; 111; 117; 98; 108; 101]%N. Proof. reflexivity. Qed.
Lemma kw_shift : $"shift" = [115; 104; 105; 102; 116]%N. Proof. reflexivity. Qed.

Definition listing_body (i : instr) : list N :=
  match iopn i with
  | IAdd x y => $"add" ++ tab :: operand_str (iout i) ++ tab :: operand_str x ++ tab :: operand_str y
  | IDouble x => $"double" ++ tab :: operand_str (iout i) ++ tab :: operand_str x
  | IShift x s => $"shift" ++ tab :: operand_str (iout i) ++ tab :: operand_str x ++ tab :: print_decN s
  end.

Lemma listing_line_body i : listing_line i = listing_body i ++ [nl].
Proof.
  unfold listing_line, listing_body. destruct (iopn i); repeat rewrite <- app_assoc; cbn [app];
    repeat (rewrite <- app_assoc; cbn [app]); reflexivity.
Qed.

Lemma digits_no c n : (c < 48)%N -> ~ In c (print_decN n).
Proof. intros Hc Hin. apply print_decN_digits in Hin. lia. Qed.

Lemma operands_clean q i : names_clean q -> In i (snd q) ->
  clean (operand_str (iout i)) /\ forall o, In o (inputs (iopn i)) -> clean (operand_str o).
Proof.
  intros [_ H] Hi. split; [apply (H i); [exact Hi|unfold operands; apply in_or_app; right; now left]|].
  intros o Ho. apply (H i); [exact Hi|unfold operands; apply in_or_app; now left].
Qed.

Ltac inapp := rewrite ?in_app_iff; cbn [In]; rewrite ?in_app_iff; cbn [In]; rewrite ?in_app_iff; cbn [In]; rewrite ?in_app_iff; cbn [In].

Lemma listing_body_nonl q i : names_clean q -> In i (snd q) -> ~ In nl (listing_body i).
Proof.
  intros Hq Hi. destruct (operands_clean q i Hq Hi) as [(_ & _ & Ho) Hin].
  unfold listing_body. destruct (iopn i) as [x y|x|x s]; cbn [inputs] in Hin.
  - destruct (Hin x (or_introl eq_refl)) as (_ & _ & Hx). destruct (Hin y (or_intror (or_introl eq_refl))) as (_ & _ & Hy).
    rewrite kw_add. inapp. unfold nl, tab in *.
    intuition congruence.
  - destruct (Hin x (or_introl eq_refl)) as (_ & _ & Hx).
    rewrite kw_double. inapp. unfold nl, tab in *.
    intuition congruence.
  - destruct (Hin x (or_introl eq_refl)) as (_ & _ & Hx).
    assert (Hs : ~ In nl (print_decN s)) by (apply digits_no; reflexivity).
    rewrite kw_shift. inapp. unfold nl, tab in *.
    intuition congruence.
Qed.

Lemma split4 k a b c : ~ In tab k -> ~ In tab a -> ~ In tab b -> ~ In tab c ->
  split tab (k ++ tab :: a ++ tab :: b ++ tab :: c) = [k; a; b; c].
Proof. intros Hk Ha Hb Hc. rewrite !split_app by assumption. now rewrite split_nosep. Qed.

Lemma split3 k a b : ~ In tab k -> ~ In tab a -> ~ In tab b ->
  split tab (k ++ tab :: a ++ tab :: b) = [k; a; b].
Proof. intros Hk Ha Hb. rewrite !split_app by assumption. now rewrite split_nosep. Qed.

Lemma read_line_body q i : names_clean q -> In i (snd q) -> read_line (listing_body i) = Some (linstr_of i).
Proof.
  intros Hq Hi. destruct (operands_clean q i Hq Hi) as [(_ & Ho & _) Hin].
  unfold read_line, listing_body, linstr_of. destruct (iopn i) as [x y|x|x s]; cbn [inputs] in Hin.
  - destruct (Hin x (or_introl eq_refl)) as (_ & Hx & _). destruct (Hin y (or_intror (or_introl eq_refl))) as (_ & Hy & _).
    rewrite split4; auto. rewrite kw_add. unfold tab. cbn [In]. intuition congruence.
  - destruct (Hin x (or_introl eq_refl)) as (_ & Hx & _).
    rewrite split3; auto. rewrite kw_double. unfold tab. cbn [In]. intuition congruence.
  - destruct (Hin x (or_introl eq_refl)) as (_ & Hx & _).
    rewrite split4; auto.
    + change (str_eqb $"shift" $"add") with false. change (str_eqb $"shift" $"shift") with true. cbv iota.
      rewrite parse_print_decN. reflexivity.
    + rewrite kw_shift. unfold tab. cbn [In]. intuition congruence.
    + apply digits_no. reflexivity.
Qed.

Lemma split_lines q : names_clean q ->
  split nl (flat_map listing_line (snd q)) = map listing_body (snd q) ++ [[]].
Proof.
  intros Hq. assert (H : forall i, In i (snd q) -> ~ In nl (listing_body i)) by (intros i; apply (listing_body_nonl q i Hq)).
  induction (snd q) as [|i r IH]; [reflexivity|].
  cbn [flat_map map app]. rewrite listing_line_body, <- app_assoc. cbn [app].
  rewrite split_app by (apply H; now left). rewrite IH; [reflexivity|]. intros j Hj. apply H. now right.
Qed.

Lemma read_lines q : names_clean q -> map_opt read_line (map listing_body (snd q)) = Some (map linstr_of (snd q)).
Proof.
  intros Hq. assert (H : forall i, In i (snd q) -> read_line (listing_body i) = Some (linstr_of i)) by (intros i; apply (read_line_body q i Hq)).
  induction (snd q) as [|i r IH]; [reflexivity|].
  cbn [map map_opt]. rewrite H by now left. rewrite IH; [reflexivity|]. intros j Hj. apply H. now right.
Qed.

Lemma read_tmp_line temps : (forall n, In n temps -> clean n) ->
  read_tmp ($"tmp" ++ tab :: join [tab] temps) = Some temps.
Proof.
  intros H. unfold read_tmp. rewrite split_app by (rewrite kw_tmp; unfold tab; cbn [In]; intuition congruence).
  rewrite str_eqb_refl. f_equal.
  destruct temps as [|t ts]; [reflexivity|].
  rewrite split_join; [|discriminate|intros x Hx; apply (H x Hx)].
  destruct (H t (or_introl eq_refl)) as (Hne & _). destruct t; [congruence|reflexivity].
Qed.

(* rendering an allocated program and reading the text as documented gives back the declared
   temporaries and the instructions *)
Theorem listing_roundtrip q : names_clean q ->
  read_listing (render_listing q) = Some (fst q, map linstr_of (snd q)).
Proof.
  intros Hq. unfold render_listing, read_listing.
  assert (E : $"tmp" ++ [tab] ++ join [tab] (fst q) ++ [nl] ++ flat_map listing_line (snd q)
              = ($"tmp" ++ tab :: join [tab] (fst q)) ++ nl :: flat_map listing_line (snd q)).
  { repeat (rewrite <- app_assoc; cbn [app]). reflexivity. }
  rewrite E. rewrite split_app.
  - rewrite (split_lines q Hq).
    change (($"tmp" ++ tab :: join [tab] (fst q)) :: map listing_body (snd q) ++ [[]])
      with ((($"tmp" ++ tab :: join [tab] (fst q)) :: map listing_body (snd q)) ++ [[]]).
    rewrite drop_last_empty_app. rewrite read_tmp_line by apply Hq. rewrite (read_lines q Hq). reflexivity.
  - rewrite in_app_iff. cbn [In]. rewrite kw_tmp. intros [Hin|[Hin|Hin]].
    + unfold nl in Hin. cbn [In] in Hin. intuition congruence.
    + discriminate Hin.
    + revert Hin. apply join_nosep; [discriminate|]. intros x Hx. apply (proj1 Hq x Hx).
Qed.

(* ------------------------------------------------------------------ Translate never emits a shift by zero *)
Definition tnz (ti : tinstr) : Prop := match topn ti with TShift _ s => s <> 0%N | _ => True end.
Definition tnzs (is : list tinstr) : Prop := forall ti, In ti is -> tnz ti.

Lemma tnzs_snoc is ti : tnzs is -> tnz ti -> tnzs (is ++ [ti]).
Proof. intros H Ht x Hx. apply in_app_or in Hx as [Hx|[<-|[]]]; auto. Qed.

Lemma t_expr_tnzs e : forall st r, t_expr e st = Ok r -> tnzs (tinstrs st) -> tnzs (tinstrs (snd r)).
Proof.
  induction e as [i|name|x IHx y IHy|x IHx s|x IHx]; intros st r H Hst; cbn [t_expr] in H.
  - injection H as <-. exact Hst.
  - destruct (lookup name (tvars st)); [|discriminate]. injection H as <-. exact Hst.
  - destruct (t_expr x st) as [[ix st1]| | |] eqn:E1; cbn [obind] in H; try discriminate.
    destruct (t_expr y st1) as [[iy st2]| | |] eqn:E2; cbn [obind] in H; try discriminate.
    destruct (obj_index st2 ix) as [vx| | |]; cbn [obind] in H; try discriminate.
    destruct (obj_index st2 iy) as [vy| | |]; cbn [obind] in H; try discriminate.
    pose proof (IHy _ _ E2 (IHx _ _ E1 Hst)) as H2. cbn [snd] in H2.
    destruct (vx >? vy); injection H as <-; cbn [emit snd tinstrs]; apply tnzs_snoc; auto; exact I.
  - destruct (t_expr x st) as [[ix st1]| | |] eqn:E1; cbn [obind] in H; try discriminate.
    pose proof (IHx _ _ E1 Hst) as H1. cbn [snd] in H1.
    destruct (s =? 0)%N eqn:Es.
    + injection H as <-. exact H1.
    + injection H as <-. cbn [emit snd tinstrs]. apply tnzs_snoc; [exact H1|].
      unfold tnz. cbn [topn]. now apply N.eqb_neq.
  - destruct (t_expr x st) as [[ix st1]| | |] eqn:E1; cbn [obind] in H; try discriminate.
    pose proof (IHx _ _ E1 Hst) as H1. cbn [snd] in H1.
    injection H as <-. cbn [emit snd tinstrs]. apply tnzs_snoc; [exact H1|exact I].
Qed.

Lemma t_stmts_tnzs ss : forall st st', t_stmts ss st = Ok st' -> tnzs (tinstrs st) -> tnzs (tinstrs st').
Proof.
  induction ss as [|s ss IH]; intros st st' H Hst; cbn [t_stmts] in H.
  - injection H as <-. exact Hst.
  - unfold t_stmt in H. destruct (t_expr (sexpr s) st) as [[out st1]| | |] eqn:E1; cbn [obind] in H; try discriminate.
    pose proof (t_expr_tnzs _ _ _ E1 Hst) as H1. cbn [snd] in H1.
    unfold define in H. destruct (lookup (sname s) (tvars st1)); cbn [obind] in H; [discriminate|].
    apply (IH _ _ H). exact H1.
Qed.

Definition nz_shifts (p : iprogram) : Prop :=
  forall i, In i p -> match iopn i with IShift _ s => s <> 0%N | _ => True end.

Lemma map_opt_In {A B} (f : A -> option B) l : forall l' y, map_opt f l = Some l' -> In y l' -> exists x, In x l /\ f x = Some y.
Proof.
  induction l as [|x l IH]; intros l' y H Hy; cbn [map_opt] in H.
  - injection H as <-. destruct Hy.
  - destruct (f x) as [b|] eqn:Ef; [|discriminate]. destruct (map_opt f l) as [bs|] eqn:Em; [|discriminate].
    injection H as <-. destruct Hy as [<-|Hy].
    + exists x. split; [now left|exact Ef].
    + destruct (IH _ _ eq_refl Hy) as (x' & Hx' & E). exists x'. split; [now right|exact E].
Qed.

Lemma translate_nz_shifts s p : translate s = Ok p -> nz_shifts p.
Proof.
  unfold translate. destruct (t_stmts s tinit) as [st| | |] eqn:E; cbn [obind]; try discriminate.
  destruct (map_opt (resolve_instr (tobjs st)) (tinstrs st)) as [p'|] eqn:Em; [|discriminate].
  intros H. injection H as <-. intros i Hi.
  destruct (map_opt_In _ _ _ _ Em Hi) as (ti & Hti & Er).
  assert (Hnz : tnz ti) by (apply (t_stmts_tnzs _ _ _ E); [intros x []|exact Hti]).
  unfold resolve_instr in Er. destruct (nth_error (tobjs st) (tout ti)) as [oo|]; [|discriminate].
  destruct (resolve_op (tobjs st) (topn ti)) as [rop|] eqn:Eo; [|discriminate]. injection Er as <-. cbn [iopn].
  unfold tnz in Hnz. unfold resolve_op in Eo. destruct (topn ti) as [a b|a|a sh].
  - destruct (nth_error (tobjs st) a); [|discriminate]. destruct (nth_error (tobjs st) b); [|discriminate]. injection Eo as <-. exact I.
  - destruct (nth_error (tobjs st) a); [|discriminate]. injection Eo as <-. exact I.
  - destruct (nth_error (tobjs st) a); [|discriminate]. injection Eo as <-. exact Hnz.
Qed.

(* ------------------------------------------------------------------ compile fixes the output indexes *)
Lemma add_out p i j p' out : Program.add p i j = (p', Ok out) ->
  length p' = S (length p) /\ out = Z.of_nat (length p').
Proof.
  unfold Program.add. destruct (Program.boundscheck p i) as [[]| | |]; cbn [obind]; try (intros H; discriminate H).
  destruct (Program.boundscheck p j) as [[]| | |]; cbn [obind]; try (intros H; discriminate H).
  intros H. injection H as <- <-. rewrite app_length. cbn [length]. split; [lia|reflexivity].
Qed.

Lemma shift_loop_out s : forall p i p' out, Program.shift_loop s p i = (p', Ok out) -> s <> O ->
  (length p' = length p + s)%nat /\ out = Z.of_nat (length p').
Proof.
  induction s as [|s IH]; intros p i p' out H Hs; [congruence|].
  cbn [Program.shift_loop] in H. unfold Program.double in H.
  destruct (Program.add p i i) as [p1 r1] eqn:Ea. destruct r1 as [next| | |]; try discriminate H.
  destruct (add_out _ _ _ _ _ Ea) as [L1 E1].
  destruct s as [|s'].
  - cbn [Program.shift_loop] in H. injection H as <- <-. split; [lia|exact E1].
  - destruct (IH _ _ _ _ H ltac:(discriminate)) as [L2 E2]. split; [lia|exact E2].
Qed.

Lemma compile_step_out ops0 i p' out : compile_step ops0 i = (p', Ok out) ->
  match iopn i with IShift _ s => s <> 0%N | _ => True end ->
  (length ops0 < length p')%nat /\ out = Z.of_nat (length p').
Proof.
  unfold compile_step. destruct (iopn i) as [x y|x|x s]; intros H Hnz.
  - destruct (add_out _ _ _ _ _ H). split; [lia|assumption].
  - unfold Program.double in H. destruct (add_out _ _ _ _ _ H). split; [lia|assumption].
  - unfold Program.shift in H. destruct (shift_loop_out _ _ _ _ _ H) as [L E]; [lia|]. split; [lia|exact E].
Qed.

Lemma forallb_existsb_In (l d : list Z) : forallb (fun x => existsb (Z.eqb x) d) l = true -> forall x, In x l -> In x d.
Proof. intros H x Hx. rewrite forallb_forall in H. apply existsb_eqb_In, H, Hx. Qed.

(* inputs defined (Validate) + output indexes as compiled (Eval) = well-formed in the sense of C05 *)
Lemma wf_from_of_compile : forall p d ops0 ops, nz_shifts p -> validate_from d p = Ok tt ->
  compile_loop ops0 p = Ok ops -> wf_from d (Z.of_nat (length ops0)) p.
Proof.
  induction p as [|i r IH]; intros d ops0 ops Hnz Hv Hc; [exact I|].
  cbn [validate_from] in Hv. destruct (forallb _ (in_indexes i)) eqn:Ef; [|discriminate].
  cbn [compile_loop] in Hc. destruct (compile_step ops0 i) as [p' res] eqn:Es.
  destruct res as [out| | |]; cbn [obind] in Hc; try discriminate.
  destruct (out =? oindex (iout i)) eqn:Eo; [|discriminate]. apply Z.eqb_eq in Eo.
  destruct (compile_step_out _ _ _ _ Es (Hnz i (or_introl eq_refl))) as [Hlt Eout].
  cbn [wf_from]. unfold out_index in *. split; [lia|]. split.
  - apply (forallb_existsb_In _ _ Ef).
  - assert (E2 : oindex (iout i) = Z.of_nat (length p')) by congruence. rewrite E2 in Hv |- *.
    apply (IH _ _ ops); [intros j Hj; apply Hnz; now right|exact Hv|exact Hc].
Qed.

(* ------------------------------------------------------------------ the allocator only changes identifiers *)
Lemma canonicalize_len : forall p m mf, canonicalize m p = Ok mf -> length (snd mf) = length p.
Proof.
  induction p as [|i r IH]; intros m mf H; cbn [canonicalize] in H.
  - injection H as <-. reflexivity.
  - destruct (canon_operands m (inputs (iopn i))) as [m1| | |]; cbn [obind] in H; try discriminate.
    destruct (canon_operand m1 (iout i)) as [m2| | |]; cbn [obind] in H; try discriminate.
    destruct (canonicalize m2 r) as [mf2| | |] eqn:E; cbn [obind] in H; try discriminate.
    injection H as <-. cbn [snd length]. f_equal. apply (IH _ _ E).
Qed.

Lemma rename_strip names : forall p cs, length cs = length p -> map strip (rename names p cs) = map strip p.
Proof.
  induction p as [|i r IH]; intros cs H; destruct cs as [|c cs]; try discriminate H; [reflexivity|].
  cbn [rename map]. rewrite IH by (cbn [length] in H; lia). f_equal.
  unfold strip. cbn [iout iopn]. f_equal.
  - destruct c; reflexivity.
  - destruct (iopn i); reflexivity.
Qed.

Lemma allocate_strip cfg p q ts : allocate cfg p = Ok (q, ts) -> map strip q = map strip p.
Proof.
  unfold allocate. destruct (last_instr p); [|discriminate].
  destruct (canonicalize [] p) as [mf| | |] eqn:E; cbn [obind]; try discriminate.
  intros H. injection H as <- _. apply rename_strip, (canonicalize_len _ _ _ E).
Qed.

Lemma allocate_last cfg p r : allocate cfg p = Ok r -> exists lst, last_instr p = Some lst.
Proof. unfold allocate. destruct (last_instr p) as [l|]; [eauto|discriminate]. Qed.

(* ------------------------------------------------------------------ a canonicalised program is consistently named *)
Definition CInv (P : operand -> Prop) (m : list (Z * list N)) : Prop :=
  forall o, P o -> exists n, zlookup (oindex o) m = Some n /\ (oname o = [] \/ oname o = n).

Lemma is_empty_spec (s : list N) : is_empty s = true <-> s = [].
Proof. destruct s; cbn; split; congruence. Qed.

Lemma canon_operand_cinv P m o m' : CInv P m -> canon_operand m o = Ok m' -> CInv (fun x => P x \/ x = o) m'.
Proof.
  intros HP H. unfold canon_operand in H. destruct (zlookup (oindex o) m) as [ex|] eqn:El.
  - destruct (negb (is_empty ex) && negb (is_empty (oname o)) && negb (str_eqb ex (oname o))) eqn:Ec; [discriminate|].
    destruct (negb (is_empty (oname o))) eqn:En.
    + injection H as <-. intros x [Hx| ->].
      * destruct (Z.eq_dec (oindex x) (oindex o)) as [E|Hne].
        -- rewrite E, zlookup_zset_eq. eexists. split; [reflexivity|].
           destruct (HP x Hx) as (n & Ln & Hn). rewrite E, El in Ln. injection Ln as <-.
           destruct Hn as [Hn|Hn]; [now left|]. rewrite andb_true_r in Ec.
           destruct (is_empty ex) eqn:Ee; [apply is_empty_spec in Ee; left; congruence|].
           cbn [negb andb] in Ec. apply negb_false_iff, str_eqb_eq in Ec. right. congruence.
        -- rewrite zlookup_zset_neq by exact Hne. apply HP, Hx.
      * rewrite zlookup_zset_eq. eexists. split; [reflexivity|now right].
    + injection H as <-. apply negb_false_iff, is_empty_spec in En. intros x [Hx| ->]; [apply HP, Hx|].
      exists ex. split; [exact El|now left].
  - injection H as <-. intros x [Hx| ->].
    + destruct (HP x Hx) as (n & Ln & Hn). destruct (Z.eq_dec (oindex o) (oindex x)) as [E|Hne]; [congruence|].
      rewrite zlookup_cons_neq by exact Hne. eauto.
    + rewrite zlookup_cons_eq. eexists. split; [reflexivity|now right].
Qed.

Lemma canon_operands_cinv os : forall P m m', CInv P m -> canon_operands m os = Ok m' -> CInv (fun x => P x \/ In x os) m'.
Proof.
  induction os as [|o r IH]; intros P m m' HP H; cbn [canon_operands] in H.
  - injection H as <-. intros x [Hx|[]]. apply HP, Hx.
  - destruct (canon_operand m o) as [m1| | |] eqn:E1; cbn [obind] in H; try discriminate.
    pose proof (IH _ _ _ (canon_operand_cinv _ _ _ _ HP E1) H) as H2.
    intros x Hx. apply H2. cbn [In] in Hx. intuition.
Qed.

Lemma canonicalize_cinv p : forall P m mf, CInv P m -> canonicalize m p = Ok mf ->
  CInv (fun x => P x \/ In x (all_operands p)) (fst mf).
Proof.
  induction p as [|i r IH]; intros P m mf HP H; cbn [canonicalize] in H.
  - injection H as <-. intros x [Hx|[]]. apply HP, Hx.
  - destruct (canon_operands m (inputs (iopn i))) as [m1| | |] eqn:E1; cbn [obind] in H; try discriminate.
    destruct (canon_operand m1 (iout i)) as [m2| | |] eqn:E2; cbn [obind] in H; try discriminate.
    destruct (canonicalize m2 r) as [mf2| | |] eqn:E3; cbn [obind] in H; try discriminate.
    injection H as <-. cbn [fst].
    pose proof (IH _ _ _ (canon_operand_cinv _ _ _ _ (canon_operands_cinv _ _ _ _ HP E1) E2) E3) as H3.
    intros x Hx. apply H3. unfold all_operands in Hx. cbn [flat_map] in Hx. unfold operands in Hx at 1.
    rewrite !in_app_iff in Hx. cbn [In] in Hx. unfold all_operands. intuition.
Qed.

Lemma allocate_consistent cfg p r : allocate cfg p = Ok r -> exists nmap, consistent nmap p.
Proof.
  unfold allocate. destruct (last_instr p); [|discriminate].
  destruct (canonicalize [] p) as [mf| | |] eqn:E; cbn [obind]; try discriminate. intros _.
  exists (fun k => ident (fst mf) k). intros o Ho.
  destruct (canonicalize_cinv p (fun _ => False) [] mf) with (o := o) as (n & Ln & Hn); [intros x []|exact E|now right|].
  unfold ident. rewrite Ln. exact Hn.
Qed.

(* ------------------------------------------------------------------ register file vs interpreter machine *)
Lemma rget_rset n v r n' : rget (rset n v r) n' = if str_eqb n n' then Some v else rget r n'.
Proof.
  unfold rget. induction r as [|[k w] t IH]; cbn [rset lookup].
  - destruct (str_eqb n n'); reflexivity.
  - destruct (str_eqb k n) eqn:Ekn; cbn [lookup].
    + apply str_eqb_eq in Ekn. subst k. destruct (str_eqb n n'); reflexivity.
    + rewrite IH. destruct (str_eqb k n') eqn:Ek; [|reflexivity].
      destruct (str_eqb n n') eqn:En; [|reflexivity].
      apply str_eqb_eq in Ek, En. subst. rewrite str_eqb_refl in Ekn. discriminate.
Qed.

Lemma operand_str_named o : oname o <> [] -> operand_str o = oname o.
Proof. unfold operand_str. destruct (oname o); [congruence|reflexivity]. Qed.

Lemma name_dec (a b : list N) : {a = b} + {a <> b}.
Proof. apply list_eq_dec, N.eq_dec. Qed.

Section Refine.
Variable cn : list N -> list N.

(* names and cells: a name and its canonical name share the cell; two names share a cell only
   when they have the same canonical name; a name that is not canonical is bound *)
Definition SInv (m : machine) : Prop :=
  heap_ok m /\ (forall n, load m n = load m (cn n)) /\
  (forall n1 n2 c, load m n1 = Some c -> load m n2 = Some c -> cn n1 = cn n2) /\
  (forall n, cn n <> n -> load m n <> None).
(* the register file holds, under the canonical name, what the machine holds under the name *)
Definition RInv (m : machine) (r : regfile) : Prop := SInv m /\ forall n, rget r (cn n) = value_of m n.

Lemma output_cell_sinv m o : SInv m ->
  let m1 := fst (output_cell m o) in let c := snd (output_cell m o) in
  SInv m1 /\ load m1 (oname o) = Some c /\ (c < length (mheap m1))%nat /\
  (forall n, load m n <> None \/ n <> oname o -> value_of m1 n = value_of m n) /\
  (forall n, load m n <> None -> load m1 n = load m n).
Proof using Type.
  intros (Hh & H2 & H3 & H5). unfold output_cell. destruct (load m (oname o)) as [c0|] eqn:El; cbn [fst snd].
  - split; [repeat split; auto|]. split; [exact El|]. split; [apply (Hh _ _ El)|]. split; auto.
  - unfold new_cell. cbn [fst snd]. set (z := oname o) in *.
    set (m1 := store {| mstate := mstate m; mheap := mheap m ++ [0] |} z (length (mheap m))).
    assert (Hl : forall n, load m1 n = if str_eqb z n then Some (length (mheap m)) else load m n).
    { intros n. unfold m1. rewrite load_store. reflexivity. }
    assert (Hhp : mheap m1 = mheap m ++ [0]) by reflexivity.
    assert (Hcz : cn z = z).
    { destruct (name_dec (cn z) z) as [E|Hne]; [exact E|]. exfalso. apply (H5 z Hne El). }
    split; [split; [|split; [|split]]|split; [|split; [|split]]].
    + intros n c. rewrite Hl, Hhp, app_length. cbn [length]. destruct (str_eqb z n); [intros E; injection E as <-; lia|].
      intros H. specialize (Hh _ _ H). lia.
    + intros n. rewrite !Hl. destruct (str_eqb z n) eqn:E1.
      * apply str_eqb_eq in E1. subst n. rewrite Hcz, str_eqb_refl. reflexivity.
      * destruct (str_eqb z (cn n)) eqn:E2; [|apply H2].
        apply str_eqb_eq in E2. exfalso.
        assert (Hne : cn n <> n) by (intros E; rewrite E in E2; subst; rewrite str_eqb_refl in E1; discriminate).
        apply (H5 n Hne). rewrite H2, <- E2. exact El.
    + intros n1 n2 c. rewrite !Hl. destruct (str_eqb z n1) eqn:E1; destruct (str_eqb z n2) eqn:E2.
      * apply str_eqb_eq in E1, E2. congruence.
      * intros A B. injection A as <-. apply Hh in B. lia.
      * intros A B. injection B as <-. apply Hh in A. lia.
      * apply H3.
    + intros n Hn. rewrite Hl. destruct (str_eqb z n); [discriminate|apply H5, Hn].
    + rewrite Hl, str_eqb_refl. reflexivity.
    + rewrite Hhp, app_length. cbn [length]. lia.
    + intros n Hn. unfold value_of. rewrite Hl. destruct (str_eqb z n) eqn:E.
      * apply str_eqb_eq in E. subst n. destruct Hn as [Hn|Hn]; congruence.
      * destruct (load m n) as [cn0|] eqn:Eln; [|reflexivity]. rewrite Hhp. apply nth_error_app_old, (Hh _ _ Eln).
    + intros n Hn. rewrite Hl. destruct (str_eqb z n) eqn:E; [|reflexivity].
      apply str_eqb_eq in E. subst n. congruence.
Qed.

Lemma write_rinv m1 c z v r : SInv m1 -> load m1 z = Some c -> (c < length (mheap m1))%nat ->
  (forall n, load m1 n <> Some c -> rget r (cn n) = value_of m1 n) ->
  RInv (heap_set m1 c v) (rset (cn z) v r).
Proof using Type.
  intros (Hh & H2 & H3 & H5) Hz Hc Hr.
  assert (Hl : forall n, load (heap_set m1 c v) n = load m1 n) by reflexivity.
  split; [split; [|split; [|split]]|].
  - intros n c'. rewrite Hl. unfold heap_set. cbn [mheap]. rewrite set_nth_length. apply Hh.
  - intros n. rewrite !Hl. apply H2.
  - intros n1 n2 c'. rewrite !Hl. apply H3.
  - intros n. rewrite Hl. apply H5.
  - intros n. rewrite rget_rset. unfold value_of at 1. rewrite Hl. unfold heap_set. cbn [mheap].
    destruct (str_eqb (cn z) (cn n)) eqn:E.
    + apply str_eqb_eq in E. rewrite (H2 n), <- E, <- (H2 z), Hz. rewrite nth_error_set_nth by exact Hc.
      now rewrite Nat.eqb_refl.
    + assert (Hne : load m1 n <> Some c).
      { intros A. rewrite (H3 _ _ _ Hz A), str_eqb_refl in E. discriminate. }
      rewrite (Hr n Hne). unfold value_of. destruct (load m1 n) as [c'|]; [|reflexivity].
      rewrite nth_error_set_nth by exact Hc. destruct (Nat.eqb c c') eqn:Ec; [|reflexivity].
      apply Nat.eqb_eq in Ec. congruence.
Qed.

Lemma operand_read m1 o v : oname o <> [] -> value_of m1 (oname o) = Some v ->
  exists cx, operand_cell m1 o = Ok cx /\ heap_get m1 cx = Ok v.
Proof using Type.
  unfold operand_cell, value_of, heap_get. intros Hn. destruct (oname o) as [|ch t] eqn:En; [congruence|].
  destruct (load m1 (ch :: t)) as [cx|]; [|discriminate]. intros H. exists cx. split; [reflexivity|]. now rewrite H.
Qed.

Lemma loaded_value m n : heap_ok m -> load m n <> None -> exists v, value_of m n = Some v.
Proof using Type.
  intros Hh Hn. unfold value_of. destruct (load m n) as [c|] eqn:E; [|congruence].
  destruct (nth_error (mheap m) c) as [v|] eqn:Ev; [eauto|]. apply nth_error_None in Ev. specialize (Hh _ _ E). lia.
Qed.

(* one instruction whose inputs are bound: both machines succeed and stay related *)
Lemma refine_step m r i : RInv m r ->
  (forall o, In o (inputs (iopn i)) -> load m (oname o) <> None) ->
  (forall o, In o (operands i) -> oname o <> []) ->
  exists m2 r2, exec_instr m i = Ok m2 /\ lstep cn r (linstr_of i) = Ok r2 /\ RInv m2 r2 /\
    load m2 (oname (iout i)) <> None /\ (forall n, load m n <> None -> load m2 n <> None).
Proof using Type.
  intros [HS Hr] Hin Hne.
  destruct (output_cell_sinv m (iout i) HS) as (HS1 & Hz & Hc & Hval & Hld).
  set (m1 := fst (output_cell m (iout i))) in *. set (c := snd (output_cell m (iout i))) in *.
  assert (Hh : heap_ok m) by apply HS.
  (* what an input operand holds, on both sides *)
  assert (Hop : forall o, In o (inputs (iopn i)) -> exists v cx,
            operand_cell m1 o = Ok cx /\ heap_get m1 cx = Ok v /\ rget r (cn (operand_str o)) = Some v).
  { intros o Ho. destruct (loaded_value m (oname o) Hh (Hin o Ho)) as (v & Ev).
    assert (Hno : oname o <> []) by (apply Hne; unfold operands; apply in_or_app; now left).
    destruct (operand_read m1 o v Hno) as (cx & E1 & E2); [rewrite Hval; [exact Ev|left; apply Hin, Ho]|].
    exists v, cx. split; [exact E1|]. split; [exact E2|]. rewrite operand_str_named by exact Hno. rewrite Hr. exact Ev. }
  assert (Hzo : operand_str (iout i) = oname (iout i)).
  { apply operand_str_named, Hne. unfold operands. apply in_or_app. right. now left. }
  assert (Hfin : forall v, RInv (heap_set m1 c v) (rset (cn (operand_str (iout i))) v r) /\
            load (heap_set m1 c v) (oname (iout i)) <> None /\
            (forall n, load m n <> None -> load (heap_set m1 c v) n <> None)).
  { intros v. split; [|split].
    - rewrite Hzo. apply write_rinv; auto. intros n Hn. rewrite Hr. symmetry. apply Hval. right. intros ->. contradiction.
    - change (load m1 (oname (iout i)) <> None). rewrite Hz. discriminate.
    - intros n Hn. change (load m1 n <> None). rewrite Hld by exact Hn. exact Hn. }
  unfold exec_instr, linstr_of. fold m1. fold c. destruct (iopn i) as [x y|x|x sh]; cbn [inputs] in Hop; cbn [lstep].
  - destruct (Hop x (or_introl eq_refl)) as (vx & cx & Ex & Gx & Rx).
    destruct (Hop y (or_intror (or_introl eq_refl))) as (vy & cy & Ey & Gy & Ry).
    rewrite Ex. cbn [obind]. rewrite Ey. cbn [obind]. rewrite Gx. cbn [obind]. rewrite Gy. cbn [obind]. rewrite Rx, Ry.
    eexists. eexists. split; [reflexivity|]. split; [reflexivity|]. apply Hfin.
  - destruct (Hop x (or_introl eq_refl)) as (vx & cx & Ex & Gx & Rx).
    rewrite Ex. cbn [obind]. rewrite Gx. cbn [obind]. rewrite Rx.
    eexists. eexists. split; [reflexivity|]. split; [reflexivity|]. apply Hfin.
  - destruct (Hop x (or_introl eq_refl)) as (vx & cx & Ex & Gx & Rx).
    rewrite Ex. cbn [obind]. rewrite Gx. cbn [obind]. rewrite Rx.
    eexists. eexists. split; [reflexivity|]. split; [reflexivity|]. apply Hfin.
Qed.

End Refine.

(* ------------------------------------------------------------------ a whole allocated program *)
Lemma inputs_rename n i o : In o (inputs (iopn (rename_instr n i))) ->
  exists o0, In o0 (inputs (iopn i)) /\ o = rename_operand n o0.
Proof.
  unfold rename_instr. cbn [iopn]. destruct (iopn i) as [x y|x|x sh]; cbn [rename_op inputs In]; intros H.
  - destruct H as [<-|[<-|[]]]; [exists x|exists y]; auto.
  - destruct H as [<-|[]]. exists x. auto.
  - destruct H as [<-|[]]. exists x. auto.
Qed.

Lemma refine_exec cn names : forall todo d l m r, wf_from d l todo -> RInv cn m r ->
  (forall k, In k d -> load m (ident names k) <> None) ->
  (forall i o, In i todo -> In o (operands (rename_instr names i)) -> oname o <> []) ->
  exists m' r', exec m (map (rename_instr names) todo) = Ok m' /\
                lexec cn r (map linstr_of (map (rename_instr names) todo)) = Ok r' /\ RInv cn m' r'.
Proof.
  induction todo as [|i rest IH]; intros d l m r Hwf HR Hd Hne.
  - exists m, r. repeat split; auto; apply HR.
  - destruct Hwf as (_ & Hin & Hrest).
    destruct (refine_step cn m r (rename_instr names i) HR) as (m2 & r2 & E1 & E2 & HR2 & Hout & Hkeep).
    + intros o Ho. destruct (inputs_rename _ _ _ Ho) as (o0 & Ho0 & ->). cbn [rename_operand oname].
      apply Hd, Hin. unfold in_indexes. now apply in_map.
    + intros o Ho. apply (Hne i o); [now left|exact Ho].
    + destruct (IH (out_index i :: d) (out_index i) m2 r2 Hrest HR2) as (m' & r' & E3 & E4 & HR').
      * intros k [<-|Hk]; [exact Hout|apply Hkeep, Hd, Hk].
      * intros j o Hj Ho. apply (Hne j o); [now right|exact Ho].
      * exists m', r'. cbn [map exec lexec]. rewrite E1, E2. cbn [obind]. auto.
Qed.

Lemma init_load_eq mode inp outp x n : load (init_machine mode inp outp x) n =
  match mode with
  | Separate => if str_eqb inp n then Some O else None
  | Aliased => if str_eqb outp n then Some O else if str_eqb inp n then Some O else None
  end.
Proof.
  unfold init_machine, new_cell, new_machine. cbn [fst snd mheap mstate length].
  destruct mode; rewrite !load_store; unfold load; cbn [mstate slookup]; reflexivity.
Qed.

Lemma init_heap mode inp outp x : mheap (init_machine mode inp outp x) = [x].
Proof. destruct mode; reflexivity. Qed.

Lemma init_rinv mode cfg x : cfg_in cfg <> cfg_out cfg ->
  RInv (canon mode cfg) (init_machine mode (cfg_in cfg) (cfg_out cfg) x) [(cfg_in cfg, x)].
Proof.
  intros Hio. set (inp := cfg_in cfg) in *. set (outp := cfg_out cfg) in *.
  assert (Eio : str_eqb inp outp = false) by now apply str_eqb_neq.
  assert (Eoi : str_eqb outp inp = false) by (apply str_eqb_neq; congruence).
  assert (Hcn : forall n, canon mode cfg n = match mode with Separate => n | Aliased => if str_eqb n outp then inp else n end) by reflexivity.
  assert (Hsym : forall a b, str_eqb a b = str_eqb b a).
  { intros a b. destruct (str_eqb a b) eqn:E; [apply str_eqb_eq in E; subst; now rewrite str_eqb_refl|].
    destruct (str_eqb b a) eqn:E2; [apply str_eqb_eq in E2; subst; rewrite str_eqb_refl in E; discriminate|reflexivity]. }
  split; [split; [|split; [|split]]|].
  - intros n c H. apply init_load in H as [-> _]. rewrite init_heap. cbn. lia.
  - intros n. rewrite !init_load_eq, Hcn. destruct mode; [reflexivity|].
    rewrite (Hsym n outp). destruct (str_eqb outp n) eqn:E; [now rewrite Eoi, str_eqb_refl|now rewrite E].
  - intros n1 n2 c H1 H2. apply init_load in H1 as [_ H1]. apply init_load in H2 as [_ H2]. rewrite !Hcn.
    destruct mode.
    + destruct H1 as [->|[Em _]]; [|discriminate]. destruct H2 as [->|[Em _]]; [reflexivity|discriminate].
    + destruct H1 as [->|[_ ->]]; destruct H2 as [->|[_ ->]]; rewrite ?Eio, ?str_eqb_refl; reflexivity.
  - intros n. rewrite Hcn, init_load_eq. destruct mode; [congruence|].
    rewrite (Hsym n outp). destruct (str_eqb outp n); [discriminate|congruence].
  - intros n. unfold value_of. rewrite init_load_eq, init_heap, Hcn. unfold rget. cbn [lookup]. destruct mode.
    + destruct (str_eqb inp n); reflexivity.
    + rewrite (Hsym n outp). destruct (str_eqb outp n) eqn:E; [now rewrite str_eqb_refl|]. destruct (str_eqb inp n); reflexivity.
Qed.

Lemma wf_ir_reads_zero p : wf_ir p -> p <> [] -> In 0 (reads p).
Proof.
  destruct p as [|i r]; [congruence|]. intros (_ & Hin & _) _. unfold reads. cbn [flat_map]. apply in_or_app. left.
  pose proof (in_indexes_nonempty i) as Hne. destruct (in_indexes i) as [|k t] eqn:E; [congruence|].
  destruct (Hin k (or_introl eq_refl)) as [<-|[]]. now left.
Qed.

(* The listing of an allocated program, executed literally on a register file: every register is
   written before it is read (no "unwritten" error), the output register ends with the last chain
   element in both aliasing modes, the input register is intact in separate mode. *)
Theorem allocated_listing cfg p lst nmap x q ts : cfg_ok cfg -> wf_ir p -> last_instr p = Some lst ->
  consistent nmap p -> allocate cfg p = Ok (q, ts) ->
  forall mode, exists r, lexec (canon mode cfg) [(cfg_in cfg, x)] (map linstr_of q) = Ok r /\
    reg_value mode cfg r (cfg_out cfg) = Some (chain_values x p (out_index lst)) /\
    (mode = Separate -> reg_value mode cfg r (cfg_in cfg) = Some x).
Proof.
  intros Hcfg Hwf El Hc Ea mode.
  destruct (allocate_shape cfg p lst nmap Hwf El Hc) as (idx & Hidx & E).
  destruct (last_instr_split p lst El) as (front & Ep).
  destruct (allocated_exec cfg p lst nmap x Hcfg Hwf El Hc) as (q' & ts' & E' & Hnamed & _ & Hrun & _).
  rewrite Ea in E, E'. injection E' as <- <-. injection E as Eq _.
  destruct (Hrun mode) as (mi & Erun & Hout & Hinp).
  set (names := opname (run_naming cfg p idx lst)) in *.
  destruct (refine_exec (canon mode cfg) names p [0] 0 (init_machine mode (cfg_in cfg) (cfg_out cfg) x) [(cfg_in cfg, x)] Hwf)
    as (m' & r' & E1 & E2 & HR).
  - apply init_rinv, (ck_io cfg Hcfg).
  - intros k [<-|[]]. unfold names.
    rewrite (ident_nm cfg p lst front idx Hwf Ep Hidx 0) by (left; apply wf_ir_reads_zero; [exact Hwf|apply (last_instr_nonempty p lst El)]).
    change (nm_of cfg (lastinputread p) (V (scan p) (out_index lst)) (scan p) (vname (run_naming cfg p idx lst)) 0) with (cfg_in cfg).
    rewrite init_load_eq. destruct mode; rewrite ?str_eqb_refl; [discriminate|]. destruct (str_eqb (cfg_out cfg) (cfg_in cfg)); discriminate.
  - intros i o Hi Ho. apply (Hnamed (rename_instr names i) o); [rewrite Eq; now apply in_map|exact Ho].
  - rewrite <- Eq in E1, E2. unfold run_interp in Erun. rewrite Erun in E1. injection E1 as <-.
    exists r'. split; [exact E2|]. destruct HR as [_ HR]. unfold reg_value. rewrite !HR. auto.
Qed.

(* ------------------------------------------------------------------ the chain of C05 is the evaluated chain *)
Lemma exists_at_append ds v o k : exists_at ds k = true -> exists_at (append ds v o) k = true.
Proof.
  intros H. apply exists_at_spec in H. unfold exists_at. cbn [append dvals]. rewrite app_length. cbn [length].
  apply andb_true_iff. split; [apply Z.leb_le|apply Z.ltb_lt]; lia.
Qed.
Lemma val_at_append ds v o k : exists_at ds k = true -> val_at (append ds v o) k = val_at ds k.
Proof.
  intros H. apply exists_at_spec in H. unfold val_at. cbn [append dvals]. apply app_nth1. lia.
Qed.
Lemma newest_append ds v o : newest (append ds v o) = Z.of_nat (length (dvals ds)).
Proof. unfold newest. cbn [append dvals]. rewrite app_length. cbn [length]. lia. Qed.
Lemma exists_newest_append ds v o : exists_at (append ds v o) (newest (append ds v o)) = true.
Proof.
  rewrite newest_append. unfold exists_at. cbn [append dvals]. rewrite app_length. cbn [length].
  apply andb_true_iff. split; [apply Z.leb_le|apply Z.ltb_lt]; lia.
Qed.
Lemma val_newest_append ds v o : val_at (append ds v o) (newest (append ds v o)) = v.
Proof.
  rewrite newest_append. unfold val_at. cbn [append dvals]. rewrite Nat2Z.id, app_nth2 by lia.
  now rewrite Nat.sub_diag.
Qed.

Lemma doublings_spec s : forall ds i, exists_at ds i = true ->
  (forall k, exists_at ds k = true -> exists_at (doublings s ds i) k = true /\ val_at (doublings s ds i) k = val_at ds k) /\
  (s <> O -> exists_at (doublings s ds i) (newest (doublings s ds i)) = true /\
             val_at (doublings s ds i) (newest (doublings s ds i)) = val_at ds i * 2 ^ Z.of_nat s).
Proof.
  induction s as [|s IH]; intros ds i Hi; cbn [doublings].
  - split; [auto|congruence].
  - set (ds1 := append ds (2 * val_at ds i) (Z.to_nat i, Z.to_nat i)).
    destruct (IH ds1 (newest ds1) (exists_newest_append _ _ _)) as [Hold Hnew]. split.
    + intros k Hk. destruct (Hold k (exists_at_append _ _ _ _ Hk)) as [A B]. split; [exact A|].
      rewrite B. apply val_at_append, Hk.
    + intros _. destruct s as [|s'].
      * cbn [doublings]. split; [apply exists_newest_append|]. unfold ds1. rewrite val_newest_append. change (Z.of_nat 1) with 1. ring.
      * destruct (Hnew ltac:(discriminate)) as [A B]. split; [exact A|]. rewrite B. unfold ds1 at 1. rewrite val_newest_append.
        rewrite (Nat2Z.inj_succ (S s')), Z.pow_succ_r by lia. ring.
Qed.

Lemma compile_chain : forall todo d l ds env ops, sane ds ->
  (forall k, In k d -> exists_at ds k = true /\ val_at ds k = env k) ->
  wf_from d l todo -> nz_shifts todo -> compile_loop (dops ds) todo = Ok ops ->
  exists ds', dops ds' = ops /\ sane ds' /\
    (forall k, In k d \/ In k (outs todo) -> exists_at ds' k = true /\ val_at ds' k = fold_left chain_step todo env k) /\
    (forall lst, last_instr todo = Some lst -> out_index lst = Z.of_nat (length ops)).
Proof.
  induction todo as [|i rest IH]; intros d l ds env ops Hs Hd Hwf Hnz Hc.
  - cbn [compile_loop] in Hc. injection Hc as <-. exists ds. split; [reflexivity|]. split; [exact Hs|]. split.
    + intros k [Hk|[]]. cbn [fold_left]. apply Hd, Hk.
    + intros lst H. discriminate H.
  - destruct Hwf as (Hlt & Hin & Hrest). cbn [compile_loop] in Hc.
    destruct (compile_step (dops ds) i) as [p' res] eqn:Es. destruct res as [out| | |]; cbn [obind] in Hc; try discriminate.
    destruct (out =? oindex (iout i)) eqn:Eo; [|discriminate]. apply Z.eqb_eq in Eo.
    destruct (compile_step_out _ _ _ _ Es (Hnz i (or_introl eq_refl))) as [Hgt Eout].
    pose proof (proj2 Hs) as Hlen.
    (* the state after the instruction *)
    assert (Hstep : exists ds1, p' = dops ds1 /\ sane ds1 /\ exists_at ds1 out = true /\
              val_at ds1 out = op_value env (iopn i) /\
              (forall k, exists_at ds k = true -> exists_at ds1 k = true /\ val_at ds1 k = val_at ds k)).
    { unfold compile_step in Es. specialize (Hnz i (or_introl eq_refl)). unfold in_indexes in Hin. clear Hc Eout Hgt.
      destruct (iopn i) as [x y|x|x s]; cbn [inputs map In op_value] in *.
      - destruct (Hd _ (Hin _ (or_introl eq_refl))) as [Ex Vx]. destruct (Hd _ (Hin _ (or_intror (or_introl eq_refl)))) as [Ey Vy].
        rewrite (add_ok ds _ _ Hs Ex Ey) in Es. injection Es as <- <-.
        exists (append ds (val_at ds (oindex x) + val_at ds (oindex y)) (Z.to_nat (oindex x), Z.to_nat (oindex y))).
        split; [reflexivity|]. split; [now apply sane_append|].
        rewrite <- newest_append with (v := val_at ds (oindex x) + val_at ds (oindex y)) (o := (Z.to_nat (oindex x), Z.to_nat (oindex y))).
        split; [apply exists_newest_append|]. split; [rewrite val_newest_append; congruence|].
        intros k Hk. split; [now apply exists_at_append|now apply val_at_append].
      - destruct (Hd _ (Hin _ (or_introl eq_refl))) as [Ex Vx].
        unfold Program.double in Es. rewrite (add_ok ds _ _ Hs Ex Ex) in Es. injection Es as <- <-.
        exists (append ds (val_at ds (oindex x) + val_at ds (oindex x)) (Z.to_nat (oindex x), Z.to_nat (oindex x))).
        split; [reflexivity|]. split; [now apply sane_append|].
        rewrite <- newest_append with (v := val_at ds (oindex x) + val_at ds (oindex x)) (o := (Z.to_nat (oindex x), Z.to_nat (oindex x))).
        split; [apply exists_newest_append|]. split; [rewrite val_newest_append; congruence|].
        intros k Hk. split; [now apply exists_at_append|now apply val_at_append].
      - destruct (Hd _ (Hin _ (or_introl eq_refl))) as [Ex Vx].
        unfold Program.shift in Es. destruct (shift_loop_ok (N.to_nat s) ds (oindex x) Hs Ex) as (E & Hs' & _ & _).
        rewrite E in Es. assert (Hsn : N.to_nat s <> O) by lia.
        destruct (N.to_nat s =? 0)%nat eqn:E0; [apply Nat.eqb_eq in E0; congruence|].
        injection Es as <- <-. destruct (doublings_spec (N.to_nat s) ds (oindex x) Ex) as [Hold Hnew].
        destruct (Hnew Hsn) as [A B].
        exists (doublings (N.to_nat s) ds (oindex x)). split; [reflexivity|]. split; [exact Hs'|].
        split; [exact A|]. split; [|exact Hold].
        rewrite B, Vx, Z.shiftl_mul_pow2 by lia. now rewrite N_nat_Z. }
    destruct Hstep as (ds1 & Ep' & Hs1 & Hex & Hval & Hkeep).
    assert (Hout : out = out_index i) by exact Eo.
    rewrite Ep' in Hc.
    destruct (IH (out_index i :: d) (out_index i) ds1 (chain_step env i) ops Hs1) as (ds' & Eops & Hs' & Hall & Hlast); auto.
    + intros k [<-|Hk].
      * rewrite <- Hout. split; [exact Hex|]. unfold chain_step, upd. rewrite <- Hout, Z.eqb_refl. exact Hval.
      * destruct (Hd k Hk) as [A B]. destruct (Hkeep k A) as [A1 B1]. split; [exact A1|].
        unfold chain_step, upd. destruct (k =? out_index i) eqn:Ek; [|congruence].
        apply Z.eqb_eq in Ek. apply exists_at_spec in A. lia.
    + intros j Hj. apply Hnz. now right.
    + exists ds'. split; [exact Eops|]. split; [exact Hs'|]. split.
      * intros k Hk. cbn [fold_left]. apply Hall. cbn [outs map In] in Hk |- *. fold (outs rest) in *. tauto.
      * intros lst Hl. destruct rest as [|j rest'].
        -- cbn [last_instr] in Hl. injection Hl as <-. cbn [compile_loop] in Hc. injection Hc as <-.
           rewrite <- Hout, Eout, Ep'. reflexivity.
        -- apply Hlast. exact Hl.
Qed.

Lemma last_nth {A} (l : list A) d : last l d = nth (length l - 1) l d.
Proof.
  induction l as [|x l IH]; [reflexivity|]. destruct l as [|y l]; [reflexivity|].
  change (last (x :: y :: l) d) with (last (y :: l) d). rewrite IH. cbn [length]. rewrite !Nat.sub_succ, !Nat.sub_0_r. reflexivity.
Qed.

Lemma last_instr_In p lst : last_instr p = Some lst -> In lst p.
Proof. intros H. destruct (last_instr_split p lst H) as (front & ->). apply in_or_app. right. now left. Qed.

(* the value C05 speaks about (chain_values at the last output) is the last element of the chain
   that Eval computes *)
Lemma chain_values_evaluate p ops ch lst : wf_ir p -> nz_shifts p -> compile p = Ok ops -> evaluate ops = Ok ch ->
  last_instr p = Some lst -> last ch 0 = chain_values 1 p (out_index lst) /\ length ch = S (length ops).
Proof.
  intros Hwf Hnz Hc He Hl.
  destruct (compile_chain p [0] 0 dinit (fun k => if k =? 0 then 1 else 0) ops) as (ds' & Eops & [Hev Hlen] & Hall & Hlast); auto.
  - split; reflexivity.
  - intros k [<-|[]]. split; reflexivity.
  - rewrite Eops, He in Hev. injection Hev as ->. rewrite Eops in Hlen. split; [|exact Hlen].
    destruct (Hall (out_index lst)) as [_ Hv]; [right; apply in_map, last_instr_In, Hl|].
    unfold chain_values. rewrite <- Hv. unfold val_at. rewrite (Hlast lst Hl), Nat2Z.id, last_nth, Hlen.
    f_equal. lia.
Qed.

(* ------------------------------------------------------------------ names the allocator gives are clean *)
Definition cfg_clean (cfg : alloc_cfg) : Prop :=
  clean (cfg_in cfg) /\ clean (cfg_out cfg) /\ ~ In tab (cfg_prefix cfg) /\ ~ In nl (cfg_prefix cfg)
  /\ ~ In tab (f_suffix (cfg_fmt cfg)) /\ ~ In nl (f_suffix (cfg_fmt cfg)).

(* edited by the C05 agent when Allocator.Format was generalised from prefix ++ "%d" to the format
   language of model/Alloc.v: the literal text after the verb must be free of tab / newline too *)
Lemma tmpname_clean cfg t : cfg_clean cfg -> clean (tmpname cfg t).
Proof.
  intros (_ & _ & Ht & Hn & Hts & Hns). split; [apply tmpname_nonempty|split]; intros H;
    apply tmpname_chars in H as [H|[H|H]]; auto; unfold tab, nl in H; revert H; apply N.lt_nge; reflexivity.
Qed.

Definition tmps_named (cfg : alloc_cfg) (s : naming) : Prop := forall n, In n (temps s) -> exists t, n = tmpname cfg t.

Lemma name_step_tmps cfg lir outv s k : tmps_named cfg s -> tmps_named cfg (name_step cfg lir outv s k).
Proof.
  intros H. unfold name_step. destruct (k =? 0); [exact H|].
  destruct ((snd (variable_of (nalloc s) k) =? outv)%nat && (lir <=? k)); [exact H|].
  destruct (nlookup (snd (variable_of (nalloc s) k)) (vname s)); [exact H|].
  intros n Hn. cbn [temps] in Hn. apply in_app_or in Hn as [Hn|[<-|[]]]; [apply H, Hn|eauto].
Qed.

Lemma fold_name_step_tmps cfg lir outv idx : forall s, tmps_named cfg s -> tmps_named cfg (fold_left (name_step cfg lir outv) idx s).
Proof. induction idx as [|k idx IH]; intros s H; cbn [fold_left]; [exact H|]. apply IH, name_step_tmps, H. Qed.

Lemma allocate_tmps cfg p q ts : allocate cfg p = Ok (q, ts) -> forall n, In n ts -> exists t, n = tmpname cfg t.
Proof.
  unfold allocate. destruct (last_instr p); [|discriminate].
  destruct (canonicalize [] p) as [mf| | |]; cbn [obind]; try discriminate.
  intros H. injection H as _ <-. unfold run_naming. apply fold_name_step_tmps. intros n [].
Qed.

Lemma allocated_names_clean cfg p lst nmap q ts : cfg_ok cfg -> cfg_clean cfg -> wf_ir p -> last_instr p = Some lst ->
  consistent nmap p -> allocate cfg p = Ok (q, ts) -> names_clean (ts, q).
Proof.
  intros Hcfg Hcl Hwf El Hc Ea.
  destruct (allocated_exec cfg p lst nmap 1 Hcfg Hwf El Hc) as (q' & ts' & E' & Hnamed & _ & _ & Htemps & _).
  rewrite Ea in E'. injection E' as <- <-.
  assert (Ht : forall n, In n ts -> clean n).
  { intros n Hn. destruct (allocate_tmps _ _ _ _ Ea n Hn) as (t & ->). now apply tmpname_clean. }
  split; [exact Ht|]. cbn [snd]. intros i o Hi Ho.
  rewrite operand_str_named by (apply (Hnamed i o Hi Ho)).
  destruct (name_dec (oname o) (cfg_in cfg)) as [->|Hni]; [apply Hcl|].
  destruct (name_dec (oname o) (cfg_out cfg)) as [->|Hno]; [apply Hcl|].
  apply Ht, Htemps. split; [exists i, o; auto|auto].
Qed.

(* ------------------------------------------------------------------ PrepareData *)
Lemma prepare_inv cfg s d : prepare cfg s = Ok d ->
  exists p, translate s = Ok p /\ validate_ir p = Ok tt /\ allocate cfg p = Ok (g_prog d, g_temps d) /\
            compile (g_prog d) = Ok (g_ops d) /\ evaluate (g_ops d) = Ok (g_chain d) /\ g_script d = s.
Proof.
  unfold prepare. destruct (translate s) as [p| | |]; cbn [obind]; try discriminate.
  destruct (validate_ir p) as [[]| | |] eqn:Ev; cbn [obind]; try discriminate.
  destruct (allocate cfg p) as [[q ts]| | |] eqn:Ea; cbn [obind fst snd]; try discriminate.
  destruct (compile q) as [ops| | |] eqn:Ec; cbn [obind]; try discriminate.
  destruct (evaluate ops) as [ch| | |] eqn:Ee; cbn [obind]; try discriminate.
  intros H. injection H as <-. cbn. exists p. auto 10.
Qed.

(* an accepted script: its IR is well-formed in the sense of C05, consistently named, and the
   allocator's compiled program is the compiled IR *)
Theorem prepare_ok_wf cfg s d : prepare cfg s = Ok d ->
  exists p lst nmap, translate s = Ok p /\ wf_ir p /\ nz_shifts p /\ last_instr p = Some lst /\ consistent nmap p /\
    allocate cfg p = Ok (g_prog d, g_temps d) /\ compile p = Ok (g_ops d) /\ evaluate (g_ops d) = Ok (g_chain d).
Proof.
  intros H. destruct (prepare_inv _ _ _ H) as (p & Et & Ev & Ea & Ec & Ee & _).
  destruct (allocate_last _ _ _ Ea) as (lst & El). destruct (allocate_consistent _ _ _ Ea) as (nmap & Hc).
  assert (Ecp : compile p = Ok (g_ops d)).
  { unfold compile in *. rewrite compile_loop_strip in Ec |- *. now rewrite <- (allocate_strip _ _ _ _ Ea). }
  assert (Hnz : nz_shifts p) by apply (translate_nz_shifts _ _ Et).
  exists p, lst, nmap. repeat split; auto.
  apply (wf_from_of_compile p [0] [] (g_ops d) Hnz Ev Ecp).
Qed.

(* dangling inputs: a program that reads an index no earlier instruction outputs is refused *)
Definition dangling (p : iprogram) : Prop :=
  exists pre i post x, p = pre ++ i :: post /\ In x (in_indexes i) /\ x <> 0 /\ ~ In x (outs pre).

Lemma validate_from_defined : forall p d, validate_from d p = Ok tt ->
  forall pre i post x, p = pre ++ i :: post -> In x (in_indexes i) -> In x d \/ In x (outs pre).
Proof.
  induction p as [|j r IH]; intros d Hv pre i post x Ep Hx; [destruct pre; discriminate|].
  cbn [validate_from] in Hv. destruct (forallb _ (in_indexes j)) eqn:Ef; [|discriminate].
  destruct pre as [|j' pre]; cbn [app] in Ep; injection Ep as -> ->.
  - left. apply (forallb_existsb_In _ _ Ef), Hx.
  - destruct (IH _ Hv pre i post x eq_refl Hx) as [[<-|Hd]|Ho]; [right; now left|now left|right; now right].
Qed.

Lemma validate_from_class : forall p d, validate_from d p = Ok tt \/ validate_from d p = Err ($"dangling").
Proof.
  induction p as [|j r IH]; intros d; cbn [validate_from]; [now left|].
  destruct (forallb _ (in_indexes j)); [apply IH|now right].
Qed.

Theorem gen_refuses_dangling cfg s p : translate s = Ok p -> dangling p -> prepare cfg s = Err ($"dangling").
Proof.
  intros Et (pre & i & post & x & Ep & Hx & Hx0 & Hno). unfold prepare. rewrite Et. cbn [obind].
  unfold validate_ir. destruct (validate_from_class p [0]) as [Ev|Ev]; rewrite Ev; cbn [obind]; [|reflexivity].
  exfalso. destruct (validate_from_defined p [0] Ev pre i post x Ep Hx) as [[E|[]]|Ho]; [congruence|contradiction].
Qed.

(* ------------------------------------------------------------------ C06: the listing *)
Lemma ldst_linstr_of i : ldst (linstr_of i) = operand_str (iout i).
Proof. unfold linstr_of. destruct (iopn i); reflexivity. Qed.
Lemma lsrcs_linstr_of i : lsrcs (linstr_of i) = map operand_str (inputs (iopn i)).
Proof. unfold linstr_of. destruct (iopn i); reflexivity. Qed.

(* names a listing may use: the input (read only), the output, the declared temporaries *)
Definition uses_only (cfg : alloc_cfg) (l : list (list N) * list linstr) : Prop :=
  forall i, In i (snd l) ->
    ldst i <> cfg_in cfg /\ (ldst i = cfg_out cfg \/ In (ldst i) (fst l)) /\
    forall n, In n (lsrcs i) -> n = cfg_in cfg \/ n = cfg_out cfg \/ In n (fst l).

Theorem listing_correct cfg s d : cfg_ok cfg -> cfg_clean cfg -> prepare cfg s = Ok d ->
  let l := (g_temps d, map linstr_of (g_prog d)) in
  read_listing (render_listing (g_temps d, g_prog d)) = Some l /\
  g_prog d <> [] /\ uses_only cfg l /\ NoDup (g_temps d) /\
  forall mode, exists r,
    exec_listing mode cfg 1 (read_listing (render_listing (g_temps d, g_prog d))) = Ok r /\
    reg_value mode cfg r (cfg_out cfg) = Some (last (g_chain d) 0) /\
    (mode = Separate -> reg_value mode cfg r (cfg_in cfg) = Some 1).
Proof.
  intros Hcfg Hcl H l.
  destruct (prepare_ok_wf _ _ _ H) as (p & lst & nmap & Et & Hwf & Hnz & El & Hc & Ea & Ecp & Ee).
  pose proof (allocated_names_clean cfg p lst nmap _ _ Hcfg Hcl Hwf El Hc Ea) as Hclean.
  pose proof (listing_roundtrip (g_temps d, g_prog d) Hclean) as Hrt. cbn [fst snd] in Hrt.
  destruct (allocated_exec cfg p lst nmap 1 Hcfg Hwf El Hc) as (q' & ts' & E' & Hnamed & Hnotin & _ & Htemps & Hnd).
  rewrite Ea in E'. injection E' as Eq Ets. rewrite <- Eq in Hnamed, Hnotin, Htemps. rewrite <- Ets in Htemps, Hnd.
  destruct (chain_values_evaluate p _ _ lst Hwf Hnz Ecp Ee El) as [Hlast _].
  assert (Hname : forall i o, In i (g_prog d) -> In o (operands i) ->
            operand_str o = cfg_in cfg \/ operand_str o = cfg_out cfg \/ In (operand_str o) (g_temps d)).
  { intros i o Hi Ho. rewrite operand_str_named by (apply (Hnamed i o Hi Ho)).
    destruct (name_dec (oname o) (cfg_in cfg)) as [E|Hni]; [now left|]. right.
    destruct (name_dec (oname o) (cfg_out cfg)) as [E|Hno]; [now left|]. right.
    apply Htemps. split; [exists i, o; auto|auto]. }
  split; [exact Hrt|]. split.
  { intros E. unfold allocate in Ea. rewrite El in Ea.
    destruct (canonicalize [] p) as [mf| | |] eqn:Ecan; cbn [obind] in Ea; try discriminate.
    injection Ea as Ea _. pose proof (canonicalize_len _ _ _ Ecan) as Hlen.
    pose proof (last_instr_nonempty p lst El) as Hne. destruct p as [|i0 p0]; [congruence|].
    destruct (snd mf) as [|c cs]; [discriminate Hlen|]. cbn [rename] in Ea. rewrite E in Ea. discriminate Ea. }
  split.
  { intros li Hli. unfold l in Hli. cbn [snd fst] in *. apply in_map_iff in Hli as (i & <- & Hi).
    assert (Hio : In (iout i) (operands i)) by (unfold operands; apply in_or_app; right; now left).
    rewrite ldst_linstr_of, lsrcs_linstr_of. split; [|split].
    - rewrite operand_str_named by (apply (Hnamed i _ Hi Hio)). apply Hnotin, Hi.
    - destruct (Hname i (iout i) Hi Hio) as [E|[E|E]]; auto.
      exfalso. rewrite operand_str_named in E by (apply (Hnamed i _ Hi Hio)). revert E. apply Hnotin, Hi.
    - intros n Hn. apply in_map_iff in Hn as (o & <- & Ho). apply (Hname i o Hi). unfold operands. apply in_or_app. now left. }
  split; [exact Hnd|].
  intros mode. rewrite Hrt. cbn [exec_listing].
  destruct (allocated_listing cfg p lst nmap 1 _ _ Hcfg Hwf El Hc Ea mode) as (r & Er & Hout & Hin).
  exists r. split; [exact Er|]. split; [|exact Hin]. rewrite Hout. f_equal. symmetry. exact Hlast.
Qed.

(* ------------------------------------------------------------------ what the data of an accepted script is *)
(* Data.Chain and Data.Ops are the chain and program the loader computes for the script *)
Theorem prepare_loads cfg s d : prepare cfg s = Ok d ->
  exists p, load_tree s = Ok (p, g_ops d, g_chain d) /\ g_script d = s.
Proof.
  intros H. destruct (prepare_ok_wf _ _ _ H) as (p & _ & _ & Et & _ & _ & _ & _ & _ & Ecp & Ee).
  destruct (prepare_inv _ _ _ H) as (_ & _ & _ & _ & _ & _ & Es).
  exists p. split; [|exact Es]. unfold load_tree. rewrite Et. cbn [obind]. rewrite Ecp. cbn [obind]. rewrite Ee. reflexivity.
Qed.

(* the script template prints the tree with the printer, and that text loads to the same chain *)
Theorem script_reloads cfg s d : wf_script s = true -> prepare cfg s = Ok d ->
  render_script (g_script d) = print_script s /\
  exists p, load_m (render_script (g_script d)) = Ok (p, g_ops d, g_chain d).
Proof.
  intros Hwf H. destruct (prepare_loads _ _ _ H) as (p & El & Es). rewrite Es. split; [reflexivity|].
  exists p. unfold render_script, load_m. rewrite (roundtrip s Hwf). exact El.
Qed.

(* ------------------------------------------------------------------ `addchain gen` on a source text *)
Lemma gen_inv cfg tmpl src out : gen cfg tmpl src = Ok out ->
  exists s d, parse src = Ok s /\ prepare cfg s = Ok d /\ render tmpl d = Ok out.
Proof.
  unfold gen. destruct (parse src) as [s| | |]; cbn [obind]; try discriminate.
  destruct (prepare cfg s) as [d| | |] eqn:E; cbn [obind]; try discriminate. eauto.
Qed.

Lemma render_listing_inv d out : render ($"listing") d = Ok out -> out = render_listing (g_temps d, g_prog d).
Proof. unfold render. change (str_eqb $"listing" $"listing") with true. cbv iota. congruence. Qed.
Lemma render_chain_inv d out : render ($"chain") d = Ok out -> out = render_chain (g_chain d).
Proof. unfold render. change (str_eqb $"chain" $"listing") with false. change (str_eqb $"chain" $"chain") with true. cbv iota. congruence. Qed.
Lemma render_ops_inv d out : render ($"ops") d = Ok out -> render_ops (g_chain d) (g_ops d) = Ok out.
Proof.
  unfold render. change (str_eqb $"ops" $"listing") with false. change (str_eqb $"ops" $"chain") with false.
  change (str_eqb $"ops" $"ops") with true. cbv iota. auto.
Qed.
Lemma render_script_inv d out : render ($"script") d = Ok out -> out = render_script (g_script d).
Proof.
  unfold render. change (str_eqb $"script" $"listing") with false. change (str_eqb $"script" $"chain") with false.
  change (str_eqb $"script" $"ops") with false. change (str_eqb $"script" $"script") with true. cbv iota. congruence.
Qed.

(* C06, listing: for every source text the generator accepts, the listing read as documented
   declares distinct temporaries, uses only the input (never written), the output and declared
   temporaries, and executed literally (every register written before it is read) leaves the last
   element of the chain the script loads to in the output register, in both aliasing modes. *)
Theorem gen_listing_correct cfg src text : cfg_ok cfg -> cfg_clean cfg -> gen cfg ($"listing") src = Ok text ->
  exists p ops ch temps prog,
    load_m src = Ok (p, ops, ch) /\
    read_listing text = Some (temps, prog) /\ prog <> [] /\ uses_only cfg (temps, prog) /\ NoDup temps /\
    forall mode, exists r,
      exec_listing mode cfg 1 (read_listing text) = Ok r /\
      reg_value mode cfg r (cfg_out cfg) = Some (last ch 0) /\
      (mode = Separate -> reg_value mode cfg r (cfg_in cfg) = Some 1).
Proof.
  intros Hcfg Hcl H. destruct (gen_inv _ _ _ _ H) as (s & d & Ep & Ed & Er). apply render_listing_inv in Er. subst text.
  destruct (prepare_loads _ _ _ Ed) as (p & El & _).
  destruct (listing_correct cfg s d Hcfg Hcl Ed) as (Hrt & Hne & Hu & Hnd & Hex).
  exists p, (g_ops d), (g_chain d), (g_temps d), (map linstr_of (g_prog d)).
  split; [unfold load_m; rewrite Ep; exact El|]. split; [exact Hrt|]. split.
  { intros E. apply map_eq_nil in E. contradiction. }
  split; [exact Hu|]. split; [exact Hnd|exact Hex].
Qed.

(* C06, script: the script output is the printed tree and loads to the chain of the source *)
Theorem gen_script_reloads cfg src text : gen cfg ($"script") src = Ok text ->
  exists s p ops ch, parse src = Ok s /\ text = print_script s /\ load_m src = Ok (p, ops, ch) /\ load_m text = Ok (p, ops, ch).
Proof.
  intros H. destruct (gen_inv _ _ _ _ H) as (s & d & Ep & Ed & Er). apply render_script_inv in Er. subst text.
  destruct (script_reloads cfg s d (parse_wf _ _ Ep) Ed) as (E1 & p & E2).
  destruct (prepare_loads _ _ _ Ed) as (p' & El & Es).
  exists s, p, (g_ops d), (g_chain d). split; [exact Ep|]. split; [exact E1|]. split; [|exact E2].
  rewrite <- (fmt_preserves_load src s Ep). rewrite <- Es at 1. exact E2.
Qed.

(* C06, refusal: a text whose IR has a dangling input yields no output for any template *)
Theorem gen_refuses_dangling_src cfg tmpl src s p : parse src = Ok s -> translate s = Ok p -> dangling p ->
  exists cls, gen cfg tmpl src = Err cls.
Proof.
  intros Ep Et Hd. unfold gen. rewrite Ep. cbn [obind].
  rewrite (gen_refuses_dangling cfg s p Et Hd). cbn [obind]. eauto.
Qed.

(* ------------------------------------------------------------------ hexadecimal *)
Definition is_hexch (c : N) : Prop := (48 <= c <= 57 \/ 97 <= c <= 102)%N.

Lemma hexchar_class r : (r < 16)%N -> is_hexch (hexchar r).
Proof. intros Hr. unfold hexchar, is_hexch. destruct (N.ltb_spec r 10); lia. Qed.

Lemma print_hex_digits f : forall n l c, (forall d, In d l -> is_hexch d) ->
  In c (print_base_fuel 16 f n l) -> is_hexch c.
Proof.
  induction f as [|f IH]; intros n l c Hl Hc; cbn [print_base_fuel] in Hc; [auto|].
  assert (Hd : is_hexch (hexchar (n mod 16))) by (apply hexchar_class, N.mod_lt; discriminate).
  destruct (n / 16 =? 0)%N.
  - destruct Hc as [<-|Hc]; auto.
  - apply (IH (n / 16)%N (hexchar (n mod 16) :: l) c); [|exact Hc]. intros d [<-|Hin]; auto.
Qed.

Lemma print_hexN_digits n c : In c (print_hexN n) -> is_hexch c.
Proof. apply print_hex_digits. intros d []. Qed.

Lemma parse_hex_acc_app s1 : forall a s2,
  parse_hex_acc a (s1 ++ s2) = match parse_hex_acc a s1 with Some a' => parse_hex_acc a' s2 | None => None end.
Proof.
  induction s1 as [|c s1 IH]; intros a s2; cbn [app parse_hex_acc]; [reflexivity|].
  destruct (hexval c); [apply IH|reflexivity].
Qed.

Lemma hexval_hexchar r : (r < 16)%N -> hexval (hexchar r) = Some r.
Proof.
  intros Hr. unfold hexchar, hexval. destruct (N.ltb_spec r 10).
  - assert (E1 : (48 <=? 48 + r)%N = true) by (apply N.leb_le; lia).
    assert (E2 : (48 + r <=? 57)%N = true) by (apply N.leb_le; lia).
    rewrite E1, E2. cbn [andb]. f_equal. lia.
  - assert (E1 : (87 + r <=? 57)%N = false) by (apply N.leb_gt; lia).
    assert (E2 : (97 <=? 87 + r)%N = true) by (apply N.leb_le; lia).
    assert (E3 : (87 + r <=? 102)%N = true) by (apply N.leb_le; lia).
    rewrite E1, E2, E3, andb_false_r. cbn [andb]. f_equal. lia.
Qed.

Lemma print_hex_parse f : forall n l, (0 < f)%nat -> (n < 2 ^ N.of_nat f)%N ->
  exists ds k, print_base_fuel 16 f n l = ds ++ l /\ ds <> [] /\ forall a, parse_hex_acc a ds = Some (a * k + n)%N.
Proof.
  induction f as [|f IH]; intros n l Hf Hn; [lia|]. cbn [print_base_fuel].
  assert (Hr : (n mod 16 < 16)%N) by (apply N.mod_lt; discriminate).
  pose proof (N.div_mod n 16 ltac:(discriminate)) as Hdm.
  destruct (n / 16 =? 0)%N eqn:Eq.
  - apply N.eqb_eq in Eq. exists [hexchar (n mod 16)], 16%N. split; [reflexivity|]. split; [discriminate|].
    intros a. cbn [parse_hex_acc]. rewrite (hexval_hexchar _ Hr). f_equal. lia.
  - apply N.eqb_neq in Eq.
    assert (Hq : (n / 16 < 2 ^ N.of_nat f)%N).
    { apply N.div_lt_upper_bound; [discriminate|]. rewrite Nat2N.inj_succ, N.pow_succ_r' in Hn. lia. }
    assert (Hf' : (0 < f)%nat).
    { destruct f; [|lia]. cbn in Hq. lia. }
    destruct (IH (n / 16)%N (hexchar (n mod 16) :: l) Hf' Hq) as (ds & k & E & Hne & Hp).
    exists (ds ++ [hexchar (n mod 16)]), (k * 16)%N. split; [rewrite E, <- app_assoc; reflexivity|].
    split; [intros E0; apply app_eq_nil in E0 as [_ E0]; discriminate|].
    intros a. rewrite parse_hex_acc_app, Hp. cbn [parse_hex_acc]. rewrite (hexval_hexchar _ Hr). f_equal. lia.
Qed.

Lemma parse_print_hexN n : parse_hexN (print_hexN n) = Some n /\ print_hexN n <> [].
Proof.
  unfold print_hexN.
  destruct (print_hex_parse (S (N.to_nat (N.size n))) n []) as (ds & k & Ed & Hne & Hp); [lia| |].
  - rewrite Nat2N.inj_succ, N2Nat.id, N.pow_succ_r'. pose proof (N.size_gt n). lia.
  - rewrite Ed, app_nil_r. split; [|exact Hne]. unfold parse_hexN. destruct ds as [|d ds]; [congruence|].
    rewrite Hp. f_equal.
Qed.

Lemma kw_0x : $"0x" = [48; 120]%N. Proof. reflexivity. Qed.
Lemma kw_m0x : $"-0x" = [45; 48; 120]%N. Proof. reflexivity. Qed.

Lemma read_hex0x_hex0x z : read_hex0x (hex0x z) = Some z.
Proof.
  unfold hex0x. destruct z as [|p|p].
  - reflexivity.
  - rewrite kw_0x. cbn [app]. destruct (parse_print_hexN (Z.to_N (Z.pos p))) as [E Hne].
    destruct (print_hexN (Z.to_N (Z.pos p))) as [|c r] eqn:Eh; [congruence|].
    unfold read_hex0x. change ((48 =? 45)%N) with false. cbn [andb]. change ((48 =? 48)%N && (120 =? 120)%N) with true. cbv iota.
    rewrite E. reflexivity.
  - rewrite kw_m0x. cbn [app]. destruct (parse_print_hexN (N.pos p)) as [E Hne].
    destruct (print_hexN (N.pos p)) as [|c r] eqn:Eh; [congruence|].
    unfold read_hex0x. change ((45 =? 45)%N && (48 =? 48)%N && (120 =? 120)%N) with true. cbv iota.
    rewrite E. reflexivity.
Qed.

(* characters of a rendered value: never a separator of the line formats *)
Lemma hex0x_chars z c : In c (hex0x z) -> c = 45%N \/ c = 120%N \/ is_hexch c.
Proof.
  unfold hex0x. destruct z as [|p|p].
  - rewrite kw_0x. cbn [app]. intros [<-|[<-|H]]; [right; right; left; lia|auto|]. right. right. now apply print_hexN_digits in H.
  - rewrite kw_0x. cbn [app]. intros [<-|[<-|H]]; [right; right; left; lia|auto|]. right. right. now apply print_hexN_digits in H.
  - rewrite kw_m0x. cbn [app]. intros [<-|[<-|[<-|H]]]; [auto|right; right; left; lia|auto|]. right. right. now apply print_hexN_digits in H.
Qed.

Lemma hex0x_no z c : c <> 45%N -> c <> 120%N -> ~ is_hexch c -> ~ In c (hex0x z).
Proof. intros H1 H2 H3 Hin. apply hex0x_chars in Hin. tauto. Qed.

Lemma hex0x_nonempty z : hex0x z <> [].
Proof. unfold hex0x. destruct z; rewrite ?kw_0x, ?kw_m0x; discriminate. Qed.

(* ------------------------------------------------------------------ padded decimals *)
Lemma print_nat_digits n c : In c (print_nat n) -> (48 <= c <= 57)%N.
Proof. apply print_decN_digits. Qed.
Lemma print_nat_no n c : (c < 48 \/ 57 < c)%N -> ~ In c (print_nat n).
Proof. intros Hc Hin. apply print_nat_digits in Hin. lia. Qed.
Lemma parse_print_nat n : parse_nat (print_nat n) = Some n.
Proof. unfold parse_nat, print_nat. rewrite parse_print_decN. cbn [option_map]. now rewrite Nat2N.id. Qed.

Lemma drop_spaces_repeat k s : drop_spaces (repeat 32%N k ++ s) = drop_spaces s.
Proof. induction k as [|k IH]; [reflexivity|]. cbn [repeat app drop_spaces]. exact IH. Qed.

Lemma drop_spaces_digits n s : drop_spaces (print_nat n ++ s) = print_nat n ++ s.
Proof.
  pose proof (print_decN_nonempty (N.of_nat n)) as Hne. pose proof (print_nat_digits n) as Hd. unfold print_nat in *.
  destruct (print_decN (N.of_nat n)) as [|c r]; [congruence|]. cbn [app drop_spaces].
  specialize (Hd c (or_introl eq_refl)). destruct (N.eqb_spec c 32); [lia|reflexivity].
Qed.

Lemma drop_spaces_padl w n s : drop_spaces (padl w (print_nat n) ++ s) = print_nat n ++ s.
Proof. unfold padl. rewrite <- app_assoc, drop_spaces_repeat. apply drop_spaces_digits. Qed.

Lemma split_spaces k s : ~ In 32%N s -> split 32%N (repeat 32%N k ++ s) = repeat [] k ++ [s].
Proof.
  intros Hs. induction k as [|k IH]; cbn [repeat app]; [now apply split_nosep|].
  cbn [split]. change ((32 =? 32)%N) with true. cbv iota. now rewrite IH.
Qed.

Lemma filter_nonempty_repeat k (l : list (list N)) : filter nonempty (repeat [] k ++ l) = filter nonempty l.
Proof. induction k as [|k IH]; [reflexivity|]. cbn [repeat app filter nonempty]. exact IH. Qed.

(* ------------------------------------------------------------------ chain output *)
Definition chain_body (n : nat) (v : Z) : list N := padl 3 (print_nat (S n)) ++ $": " ++ hex0x v.

Lemma kw_colon_sp : $": " = [58; 32]%N. Proof. reflexivity. Qed.

Lemma notin_padl c w s : c <> 32%N -> ~ In c s -> ~ In c (padl w s).
Proof.
  intros Hc Hs. unfold padl. rewrite in_app_iff. intros [H|H]; [|auto]. apply repeat_spec in H. congruence.
Qed.
Lemma notin_padr c w s : c <> 32%N -> ~ In c s -> ~ In c (padr w s).
Proof.
  intros Hc Hs. unfold padr. rewrite in_app_iff. intros [H|H]; [auto|]. apply repeat_spec in H. congruence.
Qed.

Lemma chain_body_nonl n v : ~ In nl (chain_body n v).
Proof.
  unfold chain_body. rewrite kw_colon_sp. rewrite !in_app_iff. cbn [In]. unfold nl. intros [H|[[H|[H|[]]]|H]]; try discriminate H.
  - revert H. apply notin_padl; [discriminate|]. apply print_nat_no. lia.
  - revert H. apply hex0x_no; try discriminate. unfold is_hexch. lia.
Qed.

Lemma read_chain_body n v : read_chain_line (chain_body n v) = Some (S n, v).
Proof.
  unfold read_chain_line, chain_body. rewrite drop_spaces_padl, kw_colon_sp. cbn [app].
  rewrite split_app by (apply print_nat_no; lia).
  rewrite split_nosep.
  - change ((32 =? 32)%N) with true. cbv iota. rewrite parse_print_nat, read_hex0x_hex0x. reflexivity.
  - cbn [In]. intros [H|H]; [discriminate H|]. revert H. apply hex0x_no; try discriminate. unfold is_hexch. lia.
Qed.

Lemma render_chain_from_lines c : forall n,
  split nl (render_chain_from n c) = map (fun kv => chain_body (fst kv) (snd kv)) (combine (seq n (length c)) c) ++ [[]].
Proof.
  induction c as [|v c IH]; intros n; [reflexivity|].
  assert (E : render_chain_from n (v :: c) = chain_body n v ++ nl :: render_chain_from (S n) c).
  { cbn [render_chain_from]. unfold chain_body. repeat (rewrite <- app_assoc; cbn [app]). reflexivity. }
  rewrite E, split_app by apply chain_body_nonl. rewrite IH. reflexivity.
Qed.

Lemma check_numbered_seq {A} (c : list A) : forall n, check_numbered (S n) (combine (seq (S n) (length c)) c) = Some c.
Proof.
  induction c as [|v c IH]; intros n; [reflexivity|].
  cbn [length seq combine check_numbered]. rewrite Nat.eqb_refl, IH. reflexivity.
Qed.

(* the chain output can be read back: it lists exactly the chain, element by element, numbered from 1 *)
Theorem chain_roundtrip c : read_chain (render_chain c) = Some c.
Proof.
  unfold read_chain, render_chain. rewrite render_chain_from_lines, drop_last_empty_app.
  assert (E : map_opt read_chain_line (map (fun kv => chain_body (fst kv) (snd kv)) (combine (seq 0 (length c)) c))
              = Some (combine (seq 1 (length c)) c)).
  { generalize 0%nat. induction c as [|v c IH]; intros n; [reflexivity|].
    cbn [length seq combine map map_opt fst snd]. rewrite read_chain_body, IH. reflexivity. }
  rewrite E. apply check_numbered_seq.
Qed.

(* ------------------------------------------------------------------ ops output *)
Definition ops_body (n : nat) (o : op) (v : Z) : list N :=
  91%N :: padl 3 (print_nat n) ++ 93%N :: 32%N :: padl 4 (print_nat (fst o)) ++ 43%N :: padr 4 (print_nat (snd o)) ++ 32%N :: hex0x v.

Lemma ops_line_body n o v rest :
  $"[" ++ padl 3 (print_nat n) ++ $"] " ++ padl 4 (print_nat (fst o)) ++ $"+" ++ padr 4 (print_nat (snd o)) ++ $" " ++ hex0x v ++ [nl] ++ rest
  = ops_body n o v ++ nl :: rest.
Proof.
  change $"[" with [91%N]. change $"] " with [93%N; 32%N]. change $"+" with [43%N]. change $" " with [32%N].
  unfold ops_body. cbn [app]. repeat (rewrite <- app_assoc; cbn [app]). reflexivity.
Qed.

Lemma repeat_snoc {A} (x : A) k l : repeat x k ++ x :: l = x :: repeat x k ++ l.
Proof. induction k as [|k IH]; [reflexivity|]. cbn [repeat app]. now rewrite IH. Qed.

Lemma hex_sep c : (c = 93 \/ c = 43 \/ c = 32 \/ c = 10)%N -> forall v, ~ In c (hex0x v).
Proof. intros Hc v. apply hex0x_no; unfold is_hexch; lia. Qed.
Lemma nat_sep c : (c = 93 \/ c = 43 \/ c = 32 \/ c = 10)%N -> forall n, ~ In c (print_nat n).
Proof. intros Hc n. apply print_nat_no. lia. Qed.

Lemma ops_body_nonl n o v : ~ In nl (ops_body n o v).
Proof.
  unfold ops_body, nl. cbn [In]. rewrite !in_app_iff. cbn [In]. rewrite !in_app_iff. cbn [In]. rewrite !in_app_iff. cbn [In].
  pose proof (notin_padl 10%N 3 (print_nat n) ltac:(discriminate) (nat_sep 10%N ltac:(lia) n)).
  pose proof (notin_padl 10%N 4 (print_nat (fst o)) ltac:(discriminate) (nat_sep 10%N ltac:(lia) _)).
  pose proof (notin_padr 10%N 4 (print_nat (snd o)) ltac:(discriminate) (nat_sep 10%N ltac:(lia) _)).
  pose proof (hex_sep 10%N ltac:(lia) v).
  intuition congruence.
Qed.

Lemma read_ops_body n o v : read_ops_line (ops_body n o v) = Some (n, (o, v)).
Proof.
  destruct o as [i j]. unfold read_ops_line, ops_body. cbn [fst snd]. change ((91 =? 91)%N) with true. cbv iota.
  (* "]" *)
  rewrite split_app by (apply notin_padl; [discriminate|apply nat_sep; lia]).
  rewrite split_nosep.
  2:{ cbn [In]. rewrite !in_app_iff. cbn [In]. rewrite !in_app_iff. cbn [In].
      pose proof (notin_padl 93%N 4 (print_nat i) ltac:(discriminate) (nat_sep 93%N ltac:(lia) _)).
      pose proof (notin_padr 93%N 4 (print_nat j) ltac:(discriminate) (nat_sep 93%N ltac:(lia) _)).
      pose proof (hex_sep 93%N ltac:(lia) v). intuition congruence. }
  cbn [drop_spaces]. change ((32 =? 32)%N) with true. cbv iota. rewrite drop_spaces_padl.
  (* "+" *)
  rewrite split_app by (apply nat_sep; lia).
  rewrite split_nosep.
  2:{ rewrite !in_app_iff. cbn [In].
      pose proof (notin_padr 43%N 4 (print_nat j) ltac:(discriminate) (nat_sep 43%N ltac:(lia) _)).
      pose proof (hex_sep 43%N ltac:(lia) v). intuition congruence. }
  (* spaces between j and the value *)
  unfold padr. rewrite <- app_assoc, repeat_snoc.
  rewrite split_app by (apply nat_sep; lia).
  rewrite split_spaces by (apply hex_sep; lia).
  assert (Hj : nonempty (print_nat j) = true).
  { pose proof (print_decN_nonempty (N.of_nat j)). unfold print_nat. destruct (print_decN (N.of_nat j)); [congruence|reflexivity]. }
  assert (Hv : nonempty (hex0x v) = true).
  { pose proof (hex0x_nonempty v). destruct (hex0x v); [congruence|reflexivity]. }
  cbn [filter]. rewrite Hj, filter_nonempty_repeat. cbn [filter]. rewrite Hv.
  replace (padl 3 (print_nat n)) with (padl 3 (print_nat n) ++ []) by apply app_nil_r.
  rewrite drop_spaces_padl, app_nil_r, !parse_print_nat, read_hex0x_hex0x. reflexivity.
Qed.

Lemma render_ops_from_lines : forall p n c text, render_ops_from n c p = Ok text ->
  exists vs, map Some vs = map (fun k => nth_error c (S k)) (seq n (length p)) /\
    split nl text = map (fun e => ops_body (fst e) (fst (snd e)) (snd (snd e))) (combine (seq n (length p)) (combine p vs)) ++ [[]].
Proof.
  induction p as [|o p IH]; intros n c text H; cbn [render_ops_from] in H.
  - injection H as <-. exists []. split; reflexivity.
  - destruct (nth_error c (S n)) as [v|] eqn:Ev; [|discriminate].
    destruct (render_ops_from (S n) c p) as [rest| | |] eqn:Er; cbn [obind] in H; try discriminate.
    injection H as <-. destruct (IH _ _ _ Er) as (vs & Hvs & Hsp).
    exists (v :: vs). cbn [length seq map combine fst snd]. split; [now rewrite Ev, Hvs|].
    match goal with |- split nl ?t = _ => assert (E : t = ops_body n o v ++ nl :: rest) end.
    { unfold ops_body. cbn [app]. repeat (rewrite <- app_assoc; cbn [app]). reflexivity. }
    rewrite E, split_app by apply ops_body_nonl. rewrite Hsp. reflexivity.
Qed.

Lemma nth_error_seq {A} (c : list A) : map (nth_error c) (seq 0 (length c)) = map Some c.
Proof.
  induction c as [|x c IH]; [reflexivity|]. cbn [length seq map nth_error]. f_equal.
  rewrite <- seq_shift, map_map. exact IH.
Qed.

Lemma map_Some_inj {A} (a b : list A) : map Some a = map Some b -> a = b.
Proof.
  revert b. induction a as [|x a IH]; intros [|y b] H; try discriminate H; [reflexivity|].
  cbn [map] in H. injection H as -> H. f_equal. now apply IH.
Qed.

(* the ops output can be read back: it lists exactly the operations, numbered from 0, each with the
   chain element it produces *)
Theorem ops_roundtrip c p text : render_ops c p = Ok text -> length c = S (length p) ->
  read_ops text = Some (combine p (tl c)).
Proof.
  intros H Hlen. destruct (render_ops_from_lines _ _ _ _ H) as (vs & Hvs & Hsp).
  assert (Evs : vs = tl c).
  { destruct c as [|x c']; [discriminate Hlen|]. cbn [tl]. apply map_Some_inj. rewrite Hvs.
    cbn [length] in Hlen. injection Hlen as Hlen. rewrite <- Hlen. cbn [nth_error]. apply nth_error_seq. }
  unfold read_ops. rewrite Hsp, drop_last_empty_app.
  assert (E : forall (l : list (op * Z)) n,
            map_opt read_ops_line (map (fun e => ops_body (fst e) (fst (snd e)) (snd (snd e))) (combine (seq n (length l)) l))
            = Some (combine (seq n (length l)) l)).
  { induction l as [|[o v] l IHl]; intros n; [reflexivity|].
    cbn [length seq combine map map_opt fst snd]. rewrite read_ops_body, IHl. reflexivity. }
  assert (Hl : length (combine p vs) = length p).
  { rewrite combine_length. assert (length vs = length p); [|lia].
    apply (f_equal (@length _)) in Hvs. rewrite !map_length, seq_length in Hvs. exact Hvs. }
  rewrite <- Hl, E. rewrite <- Evs.
  generalize (combine p vs). clear. intros l.
  assert (G : forall n, check_numbered n (combine (seq n (length l)) l) = Some l).
  { induction l as [|e l IH]; intros n; [reflexivity|]. cbn [length seq combine check_numbered]. now rewrite Nat.eqb_refl, IH. }
  apply G.
Qed.

(* ------------------------------------------------------------------ chain and ops outputs of `addchain gen` *)
Lemma evaluate_from_length p : forall c ch, evaluate_from c p = Ok ch -> length ch = (length c + length p)%nat.
Proof.
  induction p as [|[i j] p IH]; intros c ch H; cbn [evaluate_from] in H.
  - injection H as <-. cbn [length]. lia.
  - destruct (nth_error c i); [|discriminate]. destruct (nth_error c j); [|discriminate].
    rewrite (IH _ _ H), app_length. cbn [length]. lia.
Qed.

Lemma prepare_lengths cfg s d : prepare cfg s = Ok d -> length (g_chain d) = S (length (g_ops d)).
Proof.
  intros H. destruct (prepare_inv _ _ _ H) as (_ & _ & _ & _ & _ & Ee & _).
  unfold evaluate in Ee. now rewrite (evaluate_from_length _ _ _ Ee).
Qed.

Lemma render_ops_from_total p : forall n c, (n + length p < length c)%nat -> exists t, render_ops_from n c p = Ok t.
Proof.
  induction p as [|o p IH]; intros n c H; cbn [render_ops_from]; [eauto|].
  cbn [length] in H. destruct (nth_error c (S n)) as [v|] eqn:E; [|apply nth_error_None in E; lia].
  destruct (IH (S n) c ltac:(lia)) as (t & ->). cbn [obind]. eauto.
Qed.

(* every builtin template renders the data of an accepted script *)
Theorem render_total cfg s d : prepare cfg s = Ok d ->
  forall tmpl, In tmpl [$"listing"; $"chain"; $"ops"; $"script"] -> exists out, render tmpl d = Ok out.
Proof.
  intros H tmpl [<-|[<-|[<-|[<-|[]]]]].
  - eexists. reflexivity.
  - eexists. reflexivity.
  - destruct (render_ops_from_total (g_ops d) 0 (g_chain d)) as (t & E); [rewrite (prepare_lengths _ _ _ H); lia|].
    exists t. exact E.
  - eexists. reflexivity.
Qed.

(* C06, chain and ops: the outputs list exactly the chain and the program the script loads to *)
Theorem gen_chain_exact cfg src text : gen cfg ($"chain") src = Ok text ->
  exists p ops ch, load_m src = Ok (p, ops, ch) /\ read_chain text = Some ch.
Proof.
  intros H. destruct (gen_inv _ _ _ _ H) as (s & d & Ep & Ed & Er). apply render_chain_inv in Er. subst text.
  destruct (prepare_loads _ _ _ Ed) as (p & El & _). exists p, (g_ops d), (g_chain d).
  split; [unfold load_m; rewrite Ep; exact El|apply chain_roundtrip].
Qed.

Theorem gen_ops_exact cfg src text : gen cfg ($"ops") src = Ok text ->
  exists p ops ch, load_m src = Ok (p, ops, ch) /\ length ch = S (length ops) /\ read_ops text = Some (combine ops (tl ch)).
Proof.
  intros H. destruct (gen_inv _ _ _ _ H) as (s & d & Ep & Ed & Er). apply render_ops_inv in Er.
  destruct (prepare_loads _ _ _ Ed) as (p & El & _). exists p, (g_ops d), (g_chain d).
  split; [unfold load_m; rewrite Ep; exact El|]. split; [apply (prepare_lengths _ _ _ Ed)|].
  apply ops_roundtrip; [exact Er|apply (prepare_lengths _ _ _ Ed)].
Qed.

(* the configuration of cmd/addchain/gen.go meets the hypotheses *)
Lemma default_cfg_ok : cfg_ok default_cfg /\ cfg_clean default_cfg.
Proof.
  split.
  - apply cfg_ok_intro; try discriminate; reflexivity.
  - unfold cfg_clean, clean, default_cfg, tab, nl. cbn. intuition congruence.
Qed.

(* an instruction-less program never reaches the templates *)
Lemma prepare_empty_refused cfg s : translate s = Ok [] -> prepare cfg s = Err ($"empty").
Proof. intros E. unfold prepare. rewrite E. reflexivity. Qed.

(* ------------------------------------------------------------------ gen -out FILE *)
(* the file after a history of invocations holds exactly the output for the last accepted script
   (or is what it was before, when no script was accepted) *)
Lemma gen_out_step_spec cfg name file src :
  (forall out, gen cfg name src = Ok out -> gen_out_step cfg (TType name) file src = (0%N, Some out)) /\
  ((forall out, gen cfg name src <> Ok out) -> gen_out_step cfg (TType name) file src = (1%N, file)).
Proof.
  unfold gen_out_step. split.
  - intros out E. now rewrite E.
  - intros H. destruct (gen cfg name src) as [o| | |]; try reflexivity. exfalso. apply (H o). reflexivity.
Qed.

Fixpoint last_accepted (cfg : alloc_cfg) (name : list N) (srcs : list (list N)) (acc : option (list N)) : option (list N) :=
  match srcs with
  | [] => acc
  | s :: r => last_accepted cfg name r (match gen cfg name s with Ok out => Some out | _ => acc end)
  end.

Theorem gen_out_history_last cfg name : forall srcs file,
  snd (gen_out_history cfg (TType name) file srcs) = last_accepted cfg name srcs file /\
  fst (gen_out_history cfg (TType name) file srcs) = map (fun s => match gen cfg name s with Ok _ => 0%N | _ => 1%N end) srcs.
Proof.
  induction srcs as [|s r IH]; intros file; [split; reflexivity|].
  cbn [gen_out_history last_accepted map]. unfold gen_out_step.
  destruct (gen cfg name s) as [out| | |];
    match goal with |- context [gen_out_history cfg (TType name) ?f r] =>
      destruct (IH f) as [A B]; destruct (gen_out_history cfg (TType name) f r) as [es fin]; cbn [fst snd] in *; now rewrite A, B end.
Qed.
