(* Proofs about model/Gen.v: the listing round trip (render, then read as documented), validation
   and compilation make an accepted program well-formed in the sense of C05, the literal execution
   of the listing simulates the name-keyed interpreter on the allocated program, chain/ops/script
   outputs. *)
From Coq Require Import String.
From Coq Require Import List NArith ZArith Bool Arith Lia.
From AV Require Import model.Proto model.Chain model.Ast model.Ir model.Peg model.Printer model.Translate
  model.AstProto model.Alloc model.Interp model.Gen proofs.AllocProofs proofs.InterpProofs proofs.TranslateBasics.
From AV Require model.Program.
Import ListNotations.
Open Scope Z_scope.

(* ------------------------------------------------------------------ split / join *)
Lemma split_nosep sep a : ~ In sep a -> split sep a = [a].
Proof.
  induction a as [|c a IH]; intros H; cbn [split]; [reflexivity|].
  destruct (N.eqb_spec c sep) as [->|Hne]; [exfalso; apply H; now left|].
  rewrite IH by (intros Hin; apply H; now right). reflexivity.
Qed.

Lemma split_app sep a b : ~ In sep a -> split sep (a ++ sep :: b) = a :: split sep b.
Proof.
  induction a as [|c a IH]; intros H; cbn [split app].
  - now rewrite N.eqb_refl.
  - destruct (N.eqb_spec c sep) as [->|Hne]; [exfalso; apply H; now left|].
    rewrite IH by (intros Hin; apply H; now right). reflexivity.
Qed.

Lemma split_join sep l : l <> [] -> (forall x, In x l -> ~ In sep x) -> split sep (join [sep] l) = l.
Proof.
  induction l as [|x l IH]; intros Hne H; [congruence|].
  destruct l as [|y l].
  - cbn [join]. apply split_nosep, H. now left.
  - change (join [sep] (x :: y :: l)) with (x ++ [sep] ++ join [sep] (y :: l)).
    cbn [app]. rewrite split_app by (apply H; now left).
    rewrite IH; [reflexivity|discriminate|]. intros z Hz. apply H. now right.
Qed.

Lemma join_nosep sep c l : c <> sep -> (forall x, In x l -> ~ In c x) -> ~ In c (join [sep] l).
Proof.
  intros Hc. induction l as [|x l IH]; intros H; [intros []|].
  destruct l as [|y l].
  - cbn [join]. apply H. now left.
  - change (join [sep] (x :: y :: l)) with (x ++ [sep] ++ join [sep] (y :: l)).
    intros Hin. apply in_app_or in Hin as [Hin|Hin]; [apply (H x); [now left|exact Hin]|].
    cbn [app] in Hin. destruct Hin as [E|Hin]; [congruence|].
    revert Hin. apply IH. intros z Hz. apply H. now right.
Qed.

Lemma drop_last_empty_app l : drop_last_empty (l ++ [[]]) = Some l.
Proof.
  induction l as [|x l IH]; [reflexivity|].
  cbn [app]. destruct l as [|y l].
  - cbn [app]. destruct x; reflexivity.
  - cbn [app] in *. cbn [drop_last_empty]. destruct x; cbn [drop_last_empty] in IH |- *; rewrite IH; reflexivity.
Qed.

(* ------------------------------------------------------------------ decimal digits *)
Lemma print_base_digits f : forall n l c, (forall d, In d l -> (48 <= d <= 57)%N) ->
  In c (print_base_fuel 10 f n l) -> (48 <= c <= 57)%N.
Proof.
  induction f as [|f IH]; intros n l c Hl Hc; cbn [print_base_fuel] in Hc; [auto|].
  assert (Hd : (48 <= hexchar (n mod 10) <= 57)%N).
  { assert (Hr : (n mod 10 < 10)%N) by (apply N.mod_lt; discriminate). unfold hexchar.
    generalize dependent (n mod 10)%N. intros r Hr. destruct (N.ltb_spec r 10); lia. }
  destruct (n / 10 =? 0)%N.
  - destruct Hc as [<-|Hc]; auto.
  - apply (IH (n / 10)%N (hexchar (n mod 10) :: l) c); [|exact Hc]. intros d [<-|Hin]; auto.
Qed.

Lemma print_decN_digits n c : In c (print_decN n) -> (48 <= c <= 57)%N.
Proof. apply print_base_digits. intros d []. Qed.

Lemma print_base_keeps f : forall n l, l <> [] -> print_base_fuel 10 f n l <> [].
Proof.
  induction f as [|f IH]; intros n l Hl; cbn [print_base_fuel]; [exact Hl|].
  destruct (n / 10 =? 0)%N; [discriminate|]. apply IH. discriminate.
Qed.

Lemma print_decN_nonempty n : print_decN n <> [].
Proof.
  unfold print_decN. cbn [print_base_fuel].
  destruct (n / 10 =? 0)%N; [discriminate|]. apply print_base_keeps. discriminate.
Qed.

Lemma parse_print_decN n : parse_decN (print_decN n) = Some n.
Proof.
  pose proof (print_decN_nonempty n) as Hne. revert Hne. unfold print_decN.
  destruct (print_dec_parse (S (N.to_nat (N.size n))) n []) as (ds & k & Ed & Hp); [lia| |].
  - rewrite Nat2N.inj_succ, N2Nat.id, N.pow_succ_r'. pose proof (N.size_gt n). lia.
  - rewrite Ed, app_nil_r. intros Hne. unfold parse_decN.
    destruct ds as [|d ds]; [congruence|].
    rewrite Hp. f_equal.
Qed.

(* ------------------------------------------------------------------ listing round trip *)
(* a name that can stand in a tab-separated, newline-terminated field *)
Definition clean (n : list N) : Prop := n <> [] /\ ~ In tab n /\ ~ In nl n.

Definition names_clean (q : list (list N) * iprogram) : Prop :=
  (forall n, In n (fst q) -> clean n) /\
  (forall i o, In i (snd q) -> In o (operands i) -> clean (operand_str o)).

Lemma kw_tmp : $"tmp" = [116; 109; 112]%N. Proof. reflexivity. Qed.
Lemma kw_add : $"add" = [97; 100; 100]%N. Proof. reflexivity. Qed.
Lemma kw_double : $"double" = [100; 111; 117; 98; 108; 101]%N. Proof. reflexivity. Qed.
Lemma kw_shift : $"shift" = [115; 104; 105; 102; 116]%N. Proof. reflexivity. Qed.

Definition listing_body (i : instr) : list N :=
  match iopn i with
  | IAdd x y => $"add" ++ tab :: operand_str (iout i) ++ tab :: operand_str x ++ tab :: operand_str y
  | IDouble x => $"double" ++ tab :: operand_str (iout i) ++ tab :: operand_str x
  | IShift x s => $"shift" ++ tab :: operand_str (iout i) ++ tab :: operand_str x ++ tab :: print_decN s
  end.

Lemma listing_line_body i : listing_line i = listing_body i ++ [nl].
Proof.
  unfold listing_line, listing_body. destruct (iopn i); repeat rewrite <- app_assoc; cbn [app];
    repeat (rewrite <- app_assoc; cbn [app]); reflexivity.
Qed.

Lemma digits_no c n : (c < 48)%N -> ~ In c (print_decN n).
Proof. intros Hc Hin. apply print_decN_digits in Hin. lia. Qed.

Lemma operands_clean q i : names_clean q -> In i (snd q) ->
  clean (operand_str (iout i)) /\ forall o, In o (inputs (iopn i)) -> clean (operand_str o).
Proof.
  intros [_ H] Hi. split; [apply (H i); [exact Hi|unfold operands; apply in_or_app; right; now left]|].
  intros o Ho. apply (H i); [exact Hi|unfold operands; apply in_or_app; now left].
Qed.

Ltac inapp := rewrite ?in_app_iff; cbn [In]; rewrite ?in_app_iff; cbn [In]; rewrite ?in_app_iff; cbn [In]; rewrite ?in_app_iff; cbn [In].

Lemma listing_body_nonl q i : names_clean q -> In i (snd q) -> ~ In nl (listing_body i).
Proof.
  intros Hq Hi. destruct (operands_clean q i Hq Hi) as [(_ & _ & Ho) Hin].
  unfold listing_body. destruct (iopn i) as [x y|x|x s]; cbn [inputs] in Hin.
  - destruct (Hin x (or_introl eq_refl)) as (_ & _ & Hx). destruct (Hin y (or_intror (or_introl eq_refl))) as (_ & _ & Hy).
    rewrite kw_add. inapp. unfold nl, tab in *.
    intuition congruence.
  - destruct (Hin x (or_introl eq_refl)) as (_ & _ & Hx).
    rewrite kw_double. inapp. unfold nl, tab in *.
    intuition congruence.
  - destruct (Hin x (or_introl eq_refl)) as (_ & _ & Hx).
    assert (Hs : ~ In nl (print_decN s)) by (apply digits_no; reflexivity).
    rewrite kw_shift. inapp. unfold nl, tab in *.
    intuition congruence.
Qed.

Lemma split4 k a b c : ~ In tab k -> ~ In tab a -> ~ In tab b -> ~ In tab c ->
  split tab (k ++ tab :: a ++ tab :: b ++ tab :: c) = [k; a; b; c].
Proof. intros Hk Ha Hb Hc. rewrite !split_app by assumption. now rewrite split_nosep. Qed.

Lemma split3 k a b : ~ In tab k -> ~ In tab a -> ~ In tab b ->
  split tab (k ++ tab :: a ++ tab :: b) = [k; a; b].
Proof. intros Hk Ha Hb. rewrite !split_app by assumption. now rewrite split_nosep. Qed.

Lemma read_line_body q i : names_clean q -> In i (snd q) -> read_line (listing_body i) = Some (linstr_of i).
Proof.
  intros Hq Hi. destruct (operands_clean q i Hq Hi) as [(_ & Ho & _) Hin].
  unfold read_line, listing_body, linstr_of. destruct (iopn i) as [x y|x|x s]; cbn [inputs] in Hin.
  - destruct (Hin x (or_introl eq_refl)) as (_ & Hx & _). destruct (Hin y (or_intror (or_introl eq_refl))) as (_ & Hy & _).
    rewrite split4; auto. rewrite kw_add. unfold tab. cbn [In]. intuition congruence.
  - destruct (Hin x (or_introl eq_refl)) as (_ & Hx & _).
    rewrite split3; auto. rewrite kw_double. unfold tab. cbn [In]. intuition congruence.
  - destruct (Hin x (or_introl eq_refl)) as (_ & Hx & _).
    rewrite split4; auto.
    + change (str_eqb $"shift" $"add") with false. change (str_eqb $"shift" $"shift") with true. cbv iota.
      rewrite parse_print_decN. reflexivity.
    + rewrite kw_shift. unfold tab. cbn [In]. intuition congruence.
    + apply digits_no. reflexivity.
Qed.

Lemma split_lines q : names_clean q ->
  split nl (flat_map listing_line (snd q)) = map listing_body (snd q) ++ [[]].
Proof.
  intros Hq. assert (H : forall i, In i (snd q) -> ~ In nl (listing_body i)) by (intros i; apply (listing_body_nonl q i Hq)).
  induction (snd q) as [|i r IH]; [reflexivity|].
  cbn [flat_map map app]. rewrite listing_line_body, <- app_assoc. cbn [app].
  rewrite split_app by (apply H; now left). rewrite IH; [reflexivity|]. intros j Hj. apply H. now right.
Qed.

Lemma read_lines q : names_clean q -> map_opt read_line (map listing_body (snd q)) = Some (map linstr_of (snd q)).
Proof.
  intros Hq. assert (H : forall i, In i (snd q) -> read_line (listing_body i) = Some (linstr_of i)) by (intros i; apply (read_line_body q i Hq)).
  induction (snd q) as [|i r IH]; [reflexivity|].
  cbn [map map_opt]. rewrite H by now left. rewrite IH; [reflexivity|]. intros j Hj. apply H. now right.
Qed.

Lemma read_tmp_line temps : (forall n, In n temps -> clean n) ->
  read_tmp ($"tmp" ++ tab :: join [tab] temps) = Some temps.
Proof.
  intros H. unfold read_tmp. rewrite split_app by (rewrite kw_tmp; unfold tab; cbn [In]; intuition congruence).
  rewrite str_eqb_refl. f_equal.
  destruct temps as [|t ts]; [reflexivity|].
  rewrite split_join; [|discriminate|intros x Hx; apply (H x Hx)].
  destruct (H t (or_introl eq_refl)) as (Hne & _). destruct t; [congruence|reflexivity].
Qed.

(* rendering an allocated program and reading the text as documented gives back the declared
   temporaries and the instructions *)
Theorem listing_roundtrip q : names_clean q ->
  read_listing (render_listing q) = Some (fst q, map linstr_of (snd q)).
Proof.
  intros Hq. unfold render_listing, read_listing.
  assert (E : $"tmp" ++ [tab] ++ join [tab] (fst q) ++ [nl] ++ flat_map listing_line (snd q)
              = ($"tmp" ++ tab :: join [tab] (fst q)) ++ nl :: flat_map listing_line (snd q)).
  { repeat (rewrite <- app_assoc; cbn [app]). reflexivity. }
  rewrite E. rewrite split_app.
  - rewrite (split_lines q Hq).
    change (($"tmp" ++ tab :: join [tab] (fst q)) :: map listing_body (snd q) ++ [[]])
      with ((($"tmp" ++ tab :: join [tab] (fst q)) :: map listing_body (snd q)) ++ [[]]).
    rewrite drop_last_empty_app. rewrite read_tmp_line by apply Hq. rewrite (read_lines q Hq). reflexivity.
  - rewrite in_app_iff. cbn [In]. rewrite kw_tmp. intros [Hin|[Hin|Hin]].
    + unfold nl in Hin. cbn [In] in Hin. intuition congruence.
    + discriminate Hin.
    + revert Hin. apply join_nosep; [discriminate|]. intros x Hx. apply (proj1 Hq x Hx).
Qed.

(* ------------------------------------------------------------------ Translate never emits a shift by zero *)
Definition tnz (ti : tinstr) : Prop := match topn ti with TShift _ s => s <> 0%N | _ => True end.
Definition tnzs (is : list tinstr) : Prop := forall ti, In ti is -> tnz ti.

Lemma tnzs_snoc is ti : tnzs is -> tnz ti -> tnzs (is ++ [ti]).
Proof. intros H Ht x Hx. apply in_app_or in Hx as [Hx|[<-|[]]]; auto. Qed.

Lemma t_expr_tnzs e : forall st r, t_expr e st = Ok r -> tnzs (tinstrs st) -> tnzs (tinstrs (snd r)).
Proof.
  induction e as [i|name|x IHx y IHy|x IHx s|x IHx]; intros st r H Hst; cbn [t_expr] in H.
  - injection H as <-. exact Hst.
  - destruct (lookup name (tvars st)); [|discriminate]. injection H as <-. exact Hst.
  - destruct (t_expr x st) as [[ix st1]| | |] eqn:E1; cbn [obind] in H; try discriminate.
    destruct (t_expr y st1) as [[iy st2]| | |] eqn:E2; cbn [obind] in H; try discriminate.
    destruct (obj_index st2 ix) as [vx| | |]; cbn [obind] in H; try discriminate.
    destruct (obj_index st2 iy) as [vy| | |]; cbn [obind] in H; try discriminate.
    pose proof (IHy _ _ E2 (IHx _ _ E1 Hst)) as H2. cbn [snd] in H2.
    destruct (vx >? vy); injection H as <-; cbn [emit snd tinstrs]; apply tnzs_snoc; auto; exact I.
  - destruct (t_expr x st) as [[ix st1]| | |] eqn:E1; cbn [obind] in H; try discriminate.
    pose proof (IHx _ _ E1 Hst) as H1. cbn [snd] in H1.
    destruct (s =? 0)%N eqn:Es.
    + injection H as <-. exact H1.
    + injection H as <-. cbn [emit snd tinstrs]. apply tnzs_snoc; [exact H1|].
      unfold tnz. cbn [topn]. now apply N.eqb_neq.
  - destruct (t_expr x st) as [[ix st1]| | |] eqn:E1; cbn [obind] in H; try discriminate.
    pose proof (IHx _ _ E1 Hst) as H1. cbn [snd] in H1.
    injection H as <-. cbn [emit snd tinstrs]. apply tnzs_snoc; [exact H1|exact I].
Qed.

Lemma t_stmts_tnzs ss : forall st st', t_stmts ss st = Ok st' -> tnzs (tinstrs st) -> tnzs (tinstrs st').
Proof.
  induction ss as [|s ss IH]; intros st st' H Hst; cbn [t_stmts] in H.
  - injection H as <-. exact Hst.
  - unfold t_stmt in H. destruct (t_expr (sexpr s) st) as [[out st1]| | |] eqn:E1; cbn [obind] in H; try discriminate.
    pose proof (t_expr_tnzs _ _ _ E1 Hst) as H1. cbn [snd] in H1.
    unfold define in H. destruct (lookup (sname s) (tvars st1)); cbn [obind] in H; [discriminate|].
    apply (IH _ _ H). exact H1.
Qed.

Definition nz_shifts (p : iprogram) : Prop :=
  forall i, In i p -> match iopn i with IShift _ s => s <> 0%N | _ => True end.

Lemma map_opt_In {A B} (f : A -> option B) l : forall l' y, map_opt f l = Some l' -> In y l' -> exists x, In x l /\ f x = Some y.
Proof.
  induction l as [|x l IH]; intros l' y H Hy; cbn [map_opt] in H.
  - injection H as <-. destruct Hy.
  - destruct (f x) as [b|] eqn:Ef; [|discriminate]. destruct (map_opt f l) as [bs|] eqn:Em; [|discriminate].
    injection H as <-. destruct Hy as [<-|Hy].
    + exists x. split; [now left|exact Ef].
    + destruct (IH _ _ eq_refl Hy) as (x' & Hx' & E). exists x'. split; [now right|exact E].
Qed.

Lemma translate_nz_shifts s p : translate s = Ok p -> nz_shifts p.
Proof.
  unfold translate. destruct (t_stmts s tinit) as [st| | |] eqn:E; cbn [obind]; try discriminate.
  destruct (map_opt (resolve_instr (tobjs st)) (tinstrs st)) as [p'|] eqn:Em; [|discriminate].
  intros H. injection H as <-. intros i Hi.
  destruct (map_opt_In _ _ _ _ Em Hi) as (ti & Hti & Er).
  assert (Hnz : tnz ti) by (apply (t_stmts_tnzs _ _ _ E); [intros x []|exact Hti]).
  unfold resolve_instr in Er. destruct (nth_error (tobjs st) (tout ti)) as [oo|]; [|discriminate].
  destruct (resolve_op (tobjs st) (topn ti)) as [rop|] eqn:Eo; [|discriminate]. injection Er as <-. cbn [iopn].
  unfold tnz in Hnz. unfold resolve_op in Eo. destruct (topn ti) as [a b|a|a sh].
  - destruct (nth_error (tobjs st) a); [|discriminate]. destruct (nth_error (tobjs st) b); [|discriminate]. injection Eo as <-. exact I.
  - destruct (nth_error (tobjs st) a); [|discriminate]. injection Eo as <-. exact I.
  - destruct (nth_error (tobjs st) a); [|discriminate]. injection Eo as <-. exact Hnz.
Qed.

(* ------------------------------------------------------------------ compile fixes the output indexes *)
Lemma add_out p i j p' out : Program.add p i j = (p', Ok out) ->
  length p' = S (length p) /\ out = Z.of_nat (length p').
Proof.
  unfold Program.add. destruct (Program.boundscheck p i) as [[]| | |]; cbn [obind]; try (intros H; discriminate H).
  destruct (Program.boundscheck p j) as [[]| | |]; cbn [obind]; try (intros H; discriminate H).
  intros H. injection H as <- <-. rewrite app_length. cbn [length]. split; [lia|reflexivity].
Qed.

Lemma shift_loop_out s : forall p i p' out, Program.shift_loop s p i = (p', Ok out) -> s <> O ->
  (length p' = length p + s)%nat /\ out = Z.of_nat (length p').
Proof.
  induction s as [|s IH]; intros p i p' out H Hs; [congruence|].
  cbn [Program.shift_loop] in H. unfold Program.double in H.
  destruct (Program.add p i i) as [p1 r1] eqn:Ea. destruct r1 as [next| | |]; try discriminate H.
  destruct (add_out _ _ _ _ _ Ea) as [L1 E1].
  destruct s as [|s'].
  - cbn [Program.shift_loop] in H. injection H as <- <-. split; [lia|exact E1].
  - destruct (IH _ _ _ _ H ltac:(discriminate)) as [L2 E2]. split; [lia|exact E2].
Qed.

Lemma compile_step_out ops0 i p' out : compile_step ops0 i = (p', Ok out) ->
  match iopn i with IShift _ s => s <> 0%N | _ => True end ->
  (length ops0 < length p')%nat /\ out = Z.of_nat (length p').
Proof.
  unfold compile_step. destruct (iopn i) as [x y|x|x s]; intros H Hnz.
  - destruct (add_out _ _ _ _ _ H). split; [lia|assumption].
  - unfold Program.double in H. destruct (add_out _ _ _ _ _ H). split; [lia|assumption].
  - unfold Program.shift in H. destruct (shift_loop_out _ _ _ _ _ H) as [L E]; [lia|]. split; [lia|exact E].
Qed.

Lemma forallb_existsb_In (l d : list Z) : forallb (fun x => existsb (Z.eqb x) d) l = true -> forall x, In x l -> In x d.
Proof. intros H x Hx. rewrite forallb_forall in H. apply existsb_eqb_In, H, Hx. Qed.

(* inputs defined (Validate) + output indexes as compiled (Eval) = well-formed in the sense of C05 *)
Lemma wf_from_of_compile : forall p d ops0 ops, nz_shifts p -> validate_from d p = Ok tt ->
  compile_loop ops0 p = Ok ops -> wf_from d (Z.of_nat (length ops0)) p.
Proof.
  induction p as [|i r IH]; intros d ops0 ops Hnz Hv Hc; [exact I|].
  cbn [validate_from] in Hv. destruct (forallb _ (in_indexes i)) eqn:Ef; [|discriminate].
  cbn [compile_loop] in Hc. destruct (compile_step ops0 i) as [p' res] eqn:Es.
  destruct res as [out| | |]; cbn [obind] in Hc; try discriminate.
  destruct (out =? oindex (iout i)) eqn:Eo; [|discriminate]. apply Z.eqb_eq in Eo.
  destruct (compile_step_out _ _ _ _ Es (Hnz i (or_introl eq_refl))) as [Hlt Eout].
  cbn [wf_from]. unfold out_index in *. split; [lia|]. split.
  - apply (forallb_existsb_In _ _ Ef).
  - assert (E2 : oindex (iout i) = Z.of_nat (length p')) by congruence. rewrite E2 in Hv |- *.
    apply (IH _ _ ops); [intros j Hj; apply Hnz; now right|exact Hv|exact Hc].
Qed.

(* ------------------------------------------------------------------ the allocator only changes identifiers *)
Lemma canonicalize_len : forall p m mf, canonicalize m p = Ok mf -> length (snd mf) = length p.
Proof.
  induction p as [|i r IH]; intros m mf H; cbn [canonicalize] in H.
  - injection H as <-. reflexivity.
  - destruct (canon_operands m (inputs (iopn i))) as [m1| | |]; cbn [obind] in H; try discriminate.
    destruct (canon_operand m1 (iout i)) as [m2| | |]; cbn [obind] in H; try discriminate.
    destruct (canonicalize m2 r) as [mf2| | |] eqn:E; cbn [obind] in H; try discriminate.
    injection H as <-. cbn [snd length]. f_equal. apply (IH _ _ E).
Qed.

Lemma rename_strip names : forall p cs, length cs = length p -> map strip (rename names p cs) = map strip p.
Proof.
  induction p as [|i r IH]; intros cs H; destruct cs as [|c cs]; try discriminate H; [reflexivity|].
  cbn [rename map]. rewrite IH by (cbn [length] in H; lia). f_equal.
  unfold strip. cbn [iout iopn]. f_equal.
  - destruct c; reflexivity.
  - destruct (iopn i); reflexivity.
Qed.

Lemma allocate_strip cfg p q ts : allocate cfg p = Ok (q, ts) -> map strip q = map strip p.
Proof.
  unfold allocate. destruct (last_instr p); [|discriminate].
  destruct (canonicalize [] p) as [mf| | |] eqn:E; cbn [obind]; try discriminate.
  intros H. injection H as <- _. apply rename_strip, (canonicalize_len _ _ _ E).
Qed.

Lemma allocate_last cfg p r : allocate cfg p = Ok r -> exists lst, last_instr p = Some lst.
Proof. unfold allocate. destruct (last_instr p) as [l|]; [eauto|discriminate]. Qed.

(* ------------------------------------------------------------------ a canonicalised program is consistently named *)
Definition CInv (P : operand -> Prop) (m : list (Z * list N)) : Prop :=
  forall o, P o -> exists n, zlookup (oindex o) m = Some n /\ (oname o = [] \/ oname o = n).

Lemma is_empty_spec (s : list N) : is_empty s = true <-> s = [].
Proof. destruct s; cbn; split; congruence. Qed.

Lemma canon_operand_cinv P m o m' : CInv P m -> canon_operand m o = Ok m' -> CInv (fun x => P x \/ x = o) m'.
Proof.
  intros HP H. unfold canon_operand in H. destruct (zlookup (oindex o) m) as [ex|] eqn:El.
  - destruct (negb (is_empty ex) && negb (is_empty (oname o)) && negb (str_eqb ex (oname o))) eqn:Ec; [discriminate|].
    destruct (negb (is_empty (oname o))) eqn:En.
    + injection H as <-. intros x [Hx| ->].
      * destruct (Z.eq_dec (oindex x) (oindex o)) as [E|Hne].
        -- rewrite E, zlookup_zset_eq. eexists. split; [reflexivity|].
           destruct (HP x Hx) as (n & Ln & Hn). rewrite E, El in Ln. injection Ln as <-.
           destruct Hn as [Hn|Hn]; [now left|]. rewrite andb_true_r in Ec.
           destruct (is_empty ex) eqn:Ee; [apply is_empty_spec in Ee; left; congruence|].
           cbn [negb andb] in Ec. apply negb_false_iff, str_eqb_eq in Ec. right. congruence.
        -- rewrite zlookup_zset_neq by exact Hne. apply HP, Hx.
      * rewrite zlookup_zset_eq. eexists. split; [reflexivity|now right].
    + injection H as <-. apply negb_false_iff, is_empty_spec in En. intros x [Hx| ->]; [apply HP, Hx|].
      exists ex. split; [exact El|now left].
  - injection H as <-. intros x [Hx| ->].
    + destruct (HP x Hx) as (n & Ln & Hn). destruct (Z.eq_dec (oindex o) (oindex x)) as [E|Hne]; [congruence|].
      rewrite zlookup_cons_neq by exact Hne. eauto.
    + rewrite zlookup_cons_eq. eexists. split; [reflexivity|now right].
Qed.

Lemma canon_operands_cinv os : forall P m m', CInv P m -> canon_operands m os = Ok m' -> CInv (fun x => P x \/ In x os) m'.
Proof.
  induction os as [|o r IH]; intros P m m' HP H; cbn [canon_operands] in H.
  - injection H as <-. intros x [Hx|[]]. apply HP, Hx.
  - destruct (canon_operand m o) as [m1| | |] eqn:E1; cbn [obind] in H; try discriminate.
    pose proof (IH _ _ _ (canon_operand_cinv _ _ _ _ HP E1) H) as H2.
    intros x Hx. apply H2. cbn [In] in Hx. intuition.
Qed.

Lemma canonicalize_cinv p : forall P m mf, CInv P m -> canonicalize m p = Ok mf ->
  CInv (fun x => P x \/ In x (all_operands p)) (fst mf).
Proof.
  induction p as [|i r IH]; intros P m mf HP H; cbn [canonicalize] in H.
  - injection H as <-. intros x [Hx|[]]. apply HP, Hx.
  - destruct (canon_operands m (inputs (iopn i))) as [m1| | |] eqn:E1; cbn [obind] in H; try discriminate.
    destruct (canon_operand m1 (iout i)) as [m2| | |] eqn:E2; cbn [obind] in H; try discriminate.
    destruct (canonicalize m2 r) as [mf2| | |] eqn:E3; cbn [obind] in H; try discriminate.
    injection H as <-. cbn [fst].
    pose proof (IH _ _ _ (canon_operand_cinv _ _ _ _ (canon_operands_cinv _ _ _ _ HP E1) E2) E3) as H3.
    intros x Hx. apply H3. unfold all_operands in Hx. cbn [flat_map] in Hx. unfold operands in Hx at 1.
    rewrite !in_app_iff in Hx. cbn [In] in Hx. unfold all_operands. intuition.
Qed.

Lemma allocate_consistent cfg p r : allocate cfg p = Ok r -> exists nmap, consistent nmap p.
Proof.
  unfold allocate. destruct (last_instr p); [|discriminate].
  destruct (canonicalize [] p) as [mf| | |] eqn:E; cbn [obind]; try discriminate. intros _.
  exists (fun k => ident (fst mf) k). intros o Ho.
  destruct (canonicalize_cinv p (fun _ => False) [] mf) with (o := o) as (n & Ln & Hn); [intros x []|exact E|now right|].
  unfold ident. rewrite Ln. exact Hn.
Qed.

(* ------------------------------------------------------------------ register file vs interpreter machine *)
Lemma rget_rset n v r n' : rget (rset n v r) n' = if str_eqb n n' then Some v else rget r n'.
Proof.
  unfold rget. induction r as [|[k w] t IH]; cbn [rset lookup].
  - destruct (str_eqb n n'); reflexivity.
  - destruct (str_eqb k n) eqn:Ekn; cbn [lookup].
    + apply str_eqb_eq in Ekn. subst k. destruct (str_eqb n n'); reflexivity.
    + rewrite IH. destruct (str_eqb k n') eqn:Ek; [|reflexivity].
      destruct (str_eqb n n') eqn:En; [|reflexivity].
      apply str_eqb_eq in Ek, En. subst. rewrite str_eqb_refl in Ekn. discriminate.
Qed.

Lemma operand_str_named o : oname o <> [] -> operand_str o = oname o.
Proof. unfold operand_str. destruct (oname o); [congruence|reflexivity]. Qed.

Lemma name_dec (a b : list N) : {a = b} + {a <> b}.
Proof. apply list_eq_dec, N.eq_dec. Qed.

Section Refine.
Variable cn : list N -> list N.

(* names and cells: a name and its canonical name share the cell; two names share a cell only
   when they have the same canonical name; a name that is not canonical is bound *)
Definition SInv (m : machine) : Prop :=
  heap_ok m /\ (forall n, load m n = load m (cn n)) /\
  (forall n1 n2 c, load m n1 = Some c -> load m n2 = Some c -> cn n1 = cn n2) /\
  (forall n, cn n <> n -> load m n <> None).
(* the register file holds, under the canonical name, what the machine holds under the name *)
Definition RInv (m : machine) (r : regfile) : Prop := SInv m /\ forall n, rget r (cn n) = value_of m n.

Lemma output_cell_sinv m o : SInv m ->
  let m1 := fst (output_cell m o) in let c := snd (output_cell m o) in
  SInv m1 /\ load m1 (oname o) = Some c /\ (c < length (mheap m1))%nat /\
  (forall n, load m n <> None \/ n <> oname o -> value_of m1 n = value_of m n) /\
  (forall n, load m n <> None -> load m1 n = load m n).
Proof using Type.
  intros (Hh & H2 & H3 & H5). unfold output_cell. destruct (load m (oname o)) as [c0|] eqn:El; cbn [fst snd].
  - split; [repeat split; auto|]. split; [exact El|]. split; [apply (Hh _ _ El)|]. split; auto.
  - unfold new_cell. cbn [fst snd]. set (z := oname o) in *.
    set (m1 := store {| mstate := mstate m; mheap := mheap m ++ [0] |} z (length (mheap m))).
    assert (Hl : forall n, load m1 n = if str_eqb z n then Some (length (mheap m)) else load m n).
    { intros n. unfold m1. rewrite load_store. reflexivity. }
    assert (Hhp : mheap m1 = mheap m ++ [0]) by reflexivity.
    assert (Hcz : cn z = z).
    { destruct (name_dec (cn z) z) as [E|Hne]; [exact E|]. exfalso. apply (H5 z Hne El). }
    split; [split; [|split; [|split]]|split; [|split; [|split]]].
    + intros n c. rewrite Hl, Hhp, app_length. cbn [length]. destruct (str_eqb z n); [intros E; injection E as <-; lia|].
      intros H. specialize (Hh _ _ H). lia.
    + intros n. rewrite !Hl. destruct (str_eqb z n) eqn:E1.
      * apply str_eqb_eq in E1. subst n. rewrite Hcz, str_eqb_refl. reflexivity.
      * destruct (str_eqb z (cn n)) eqn:E2; [|apply H2].
        apply str_eqb_eq in E2. exfalso.
        assert (Hne : cn n <> n) by (intros E; rewrite E in E2; subst; rewrite str_eqb_refl in E1; discriminate).
        apply (H5 n Hne). rewrite H2, <- E2. exact El.
    + intros n1 n2 c. rewrite !Hl. destruct (str_eqb z n1) eqn:E1; destruct (str_eqb z n2) eqn:E2.
      * apply str_eqb_eq in E1, E2. congruence.
      * intros A B. injection A as <-. apply Hh in B. lia.
      * intros A B. injection B as <-. apply Hh in A. lia.
      * apply H3.
    + intros n Hn. rewrite Hl. destruct (str_eqb z n); [discriminate|apply H5, Hn].
    + rewrite Hl, str_eqb_refl. reflexivity.
    + rewrite Hhp, app_length. cbn [length]. lia.
    + intros n Hn. unfold value_of. rewrite Hl. destruct (str_eqb z n) eqn:E.
      * apply str_eqb_eq in E. subst n. destruct Hn as [Hn|Hn]; congruence.
      * destruct (load m n) as [cn0|] eqn:Eln; [|reflexivity]. rewrite Hhp. apply nth_error_app_old, (Hh _ _ Eln).
    + intros n Hn. rewrite Hl. destruct (str_eqb z n) eqn:E; [|reflexivity].
      apply str_eqb_eq in E. subst n. congruence.
Qed.

Lemma write_rinv m1 c z v r : SInv m1 -> load m1 z = Some c -> (c < length (mheap m1))%nat ->
  (forall n, load m1 n <> Some c -> rget r (cn n) = value_of m1 n) ->
  RInv (heap_set m1 c v) (rset (cn z) v r).
Proof using Type.
  intros (Hh & H2 & H3 & H5) Hz Hc Hr.
  assert (Hl : forall n, load (heap_set m1 c v) n = load m1 n) by reflexivity.
  split; [split; [|split; [|split]]|].
  - intros n c'. rewrite Hl. unfold heap_set. cbn [mheap]. rewrite set_nth_length. apply Hh.
  - intros n. rewrite !Hl. apply H2.
  - intros n1 n2 c'. rewrite !Hl. apply H3.
  - intros n. rewrite Hl. apply H5.
  - intros n. rewrite rget_rset. unfold value_of at 1. rewrite Hl. unfold heap_set. cbn [mheap].
    destruct (str_eqb (cn z) (cn n)) eqn:E.
    + apply str_eqb_eq in E. rewrite (H2 n), <- E, <- (H2 z), Hz. rewrite nth_error_set_nth by exact Hc.
      now rewrite Nat.eqb_refl.
    + assert (Hne : load m1 n <> Some c).
      { intros A. rewrite (H3 _ _ _ Hz A), str_eqb_refl in E. discriminate. }
      rewrite (Hr n Hne). unfold value_of. destruct (load m1 n) as [c'|]; [|reflexivity].
      rewrite nth_error_set_nth by exact Hc. destruct (Nat.eqb c c') eqn:Ec; [|reflexivity].
      apply Nat.eqb_eq in Ec. congruence.
Qed.

Lemma operand_read m1 o v : oname o <> [] -> value_of m1 (oname o) = Some v ->
  exists cx, operand_cell m1 o = Ok cx /\ heap_get m1 cx = Ok v.
Proof using Type.
  unfold operand_cell, value_of, heap_get. intros Hn. destruct (oname o) as [|ch t] eqn:En; [congruence|].
  destruct (load m1 (ch :: t)) as [cx|]; [|discriminate]. intros H. exists cx. split; [reflexivity|]. now rewrite H.
Qed.

Lemma loaded_value m n : heap_ok m -> load m n <> None -> exists v, value_of m n = Some v.
Proof using Type.
  intros Hh Hn. unfold value_of. destruct (load m n) as [c|] eqn:E; [|congruence].
  destruct (nth_error (mheap m) c) as [v|] eqn:Ev; [eauto|]. apply nth_error_None in Ev. specialize (Hh _ _ E). lia.
Qed.

(* one instruction whose inputs are bound: both machines succeed and stay related *)
Lemma refine_step m r i : RInv m r ->
  (forall o, In o (inputs (iopn i)) -> load m (oname o) <> None) ->
  (forall o, In o (operands i) -> oname o <> []) ->
  exists m2 r2, exec_instr m i = Ok m2 /\ lstep cn r (linstr_of i) = Ok r2 /\ RInv m2 r2 /\
    load m2 (oname (iout i)) <> None /\ (forall n, load m n <> None -> load m2 n <> None).
Proof using Type.
  intros [HS Hr] Hin Hne.
  destruct (output_cell_sinv m (iout i) HS) as (HS1 & Hz & Hc & Hval & Hld).
  set (m1 := fst (output_cell m (iout i))) in *. set (c := snd (output_cell m (iout i))) in *.
  assert (Hh : heap_ok m) by apply HS.
  (* what an input operand holds, on both sides *)
  assert (Hop : forall o, In o (inputs (iopn i)) -> exists v cx,
            operand_cell m1 o = Ok cx /\ heap_get m1 cx = Ok v /\ rget r (cn (operand_str o)) = Some v).
  { intros o Ho. destruct (loaded_value m (oname o) Hh (Hin o Ho)) as (v & Ev).
    assert (Hno : oname o <> []) by (apply Hne; unfold operands; apply in_or_app; now left).
    destruct (operand_read m1 o v Hno) as (cx & E1 & E2); [rewrite Hval; [exact Ev|left; apply Hin, Ho]|].
    exists v, cx. split; [exact E1|]. split; [exact E2|]. rewrite operand_str_named by exact Hno. rewrite Hr. exact Ev. }
  assert (Hzo : operand_str (iout i) = oname (iout i)).
  { apply operand_str_named, Hne. unfold operands. apply in_or_app. right. now left. }
  assert (Hfin : forall v, RInv (heap_set m1 c v) (rset (cn (operand_str (iout i))) v r) /\
            load (heap_set m1 c v) (oname (iout i)) <> None /\
            (forall n, load m n <> None -> load (heap_set m1 c v) n <> None)).
  { intros v. split; [|split].
    - rewrite Hzo. apply write_rinv; auto. intros n Hn. rewrite Hr. symmetry. apply Hval. right. intros ->. contradiction.
    - change (load m1 (oname (iout i)) <> None). rewrite Hz. discriminate.
    - intros n Hn. change (load m1 n <> None). rewrite Hld by exact Hn. exact Hn. }
  unfold exec_instr, linstr_of. fold m1. fold c. destruct (iopn i) as [x y|x|x sh]; cbn [inputs] in Hop; cbn [lstep].
  - destruct (Hop x (or_introl eq_refl)) as (vx & cx & Ex & Gx & Rx).
    destruct (Hop y (or_intror (or_introl eq_refl))) as (vy & cy & Ey & Gy & Ry).
    rewrite Ex. cbn [obind]. rewrite Ey. cbn [obind]. rewrite Gx. cbn [obind]. rewrite Gy. cbn [obind]. rewrite Rx, Ry.
    eexists. eexists. split; [reflexivity|]. split; [reflexivity|]. apply Hfin.
  - destruct (Hop x (or_introl eq_refl)) as (vx & cx & Ex & Gx & Rx).
    rewrite Ex. cbn [obind]. rewrite Gx. cbn [obind]. rewrite Rx.
    eexists. eexists. split; [reflexivity|]. split; [reflexivity|]. apply Hfin.
  - destruct (Hop x (or_introl eq_refl)) as (vx & cx & Ex & Gx & Rx).
    rewrite Ex. cbn [obind]. rewrite Gx. cbn [obind]. rewrite Rx.
    eexists. eexists. split; [reflexivity|]. split; [reflexivity|]. apply Hfin.
Qed.

End Refine.

(* ------------------------------------------------------------------ a whole allocated program *)
Lemma inputs_rename n i o : In o (inputs (iopn (rename_instr n i))) ->
  exists o0, In o0 (inputs (iopn i)) /\ o = rename_operand n o0.
Proof.
  unfold rename_instr. cbn [iopn]. destruct (iopn i) as [x y|x|x sh]; cbn [rename_op inputs In]; intros H.
  - destruct H as [<-|[<-|[]]]; [exists x|exists y]; auto.
  - destruct H as [<-|[]]. exists x. auto.
  - destruct H as [<-|[]]. exists x. auto.
Qed.

Lemma refine_exec cn names : forall todo d l m r, wf_from d l todo -> RInv cn m r ->
  (forall k, In k d -> load m (ident names k) <> None) ->
  (forall i o, In i todo -> In o (operands (rename_instr names i)) -> oname o <> []) ->
  exists m' r', exec m (map (rename_instr names) todo) = Ok m' /\
                lexec cn r (map linstr_of (map (rename_instr names) todo)) = Ok r' /\ RInv cn m' r'.
Proof.
  induction todo as [|i rest IH]; intros d l m r Hwf HR Hd Hne.
  - exists m, r. repeat split; auto; apply HR.
  - destruct Hwf as (_ & Hin & Hrest).
    destruct (refine_step cn m r (rename_instr names i) HR) as (m2 & r2 & E1 & E2 & HR2 & Hout & Hkeep).
    + intros o Ho. destruct (inputs_rename _ _ _ Ho) as (o0 & Ho0 & ->). cbn [rename_operand oname].
      apply Hd, Hin. unfold in_indexes. now apply in_map.
    + intros o Ho. apply (Hne i o); [now left|exact Ho].
    + destruct (IH (out_index i :: d) (out_index i) m2 r2 Hrest HR2) as (m' & r' & E3 & E4 & HR').
      * intros k [<-|Hk]; [exact Hout|apply Hkeep, Hd, Hk].
      * intros j o Hj Ho. apply (Hne j o); [now right|exact Ho].
      * exists m', r'. cbn [map exec lexec]. rewrite E1, E2. cbn [obind]. auto.
Qed.

Lemma init_load_eq mode inp outp x n : load (init_machine mode inp outp x) n =
  match mode with
  | Separate => if str_eqb inp n then Some O else None
  | Aliased => if str_eqb outp n then Some O else if str_eqb inp n then Some O else None
  end.
Proof.
  unfold init_machine, new_cell, new_machine. cbn [fst snd mheap mstate length].
  destruct mode; rewrite !load_store; unfold load; cbn [mstate slookup]; reflexivity.
Qed.

Lemma init_heap mode inp outp x : mheap (init_machine mode inp outp x) = [x].
Proof. destruct mode; reflexivity. Qed.

Lemma init_rinv mode cfg x : cfg_in cfg <> cfg_out cfg ->
  RInv (canon mode cfg) (init_machine mode (cfg_in cfg) (cfg_out cfg) x) [(cfg_in cfg, x)].
Proof.
  intros Hio. set (inp := cfg_in cfg) in *. set (outp := cfg_out cfg) in *.
  assert (Eio : str_eqb inp outp = false) by now apply str_eqb_neq.
  assert (Eoi : str_eqb outp inp = false) by (apply str_eqb_neq; congruence).
  assert (Hcn : forall n, canon mode cfg n = match mode with Separate => n | Aliased => if str_eqb n outp then inp else n end) by reflexivity.
  assert (Hsym : forall a b, str_eqb a b = str_eqb b a).
  { intros a b. destruct (str_eqb a b) eqn:E; [apply str_eqb_eq in E; subst; now rewrite str_eqb_refl|].
    destruct (str_eqb b a) eqn:E2; [apply str_eqb_eq in E2; subst; rewrite str_eqb_refl in E; discriminate|reflexivity]. }
  split; [split; [|split; [|split]]|].
  - intros n c H. apply init_load in H as [-> _]. rewrite init_heap. cbn. lia.
  - intros n. rewrite !init_load_eq, Hcn. destruct mode; [reflexivity|].
    rewrite (Hsym n outp). destruct (str_eqb outp n) eqn:E; [now rewrite Eoi, str_eqb_refl|now rewrite E].
  - intros n1 n2 c H1 H2. apply init_load in H1 as [_ H1]. apply init_load in H2 as [_ H2]. rewrite !Hcn.
    destruct mode.
    + destruct H1 as [->|[Em _]]; [|discriminate]. destruct H2 as [->|[Em _]]; [reflexivity|discriminate].
    + destruct H1 as [->|[_ ->]]; destruct H2 as [->|[_ ->]]; rewrite ?Eio, ?str_eqb_refl; reflexivity.
  - intros n. rewrite Hcn, init_load_eq. destruct mode; [congruence|].
    rewrite (Hsym n outp). destruct (str_eqb outp n); [discriminate|congruence].
  - intros n. unfold value_of. rewrite init_load_eq, init_heap, Hcn. unfold rget. cbn [lookup]. destruct mode.
    + destruct (str_eqb inp n); reflexivity.
    + rewrite (Hsym n outp). destruct (str_eqb outp n) eqn:E; [now rewrite str_eqb_refl|]. destruct (str_eqb inp n); reflexivity.
Qed.

Lemma wf_ir_reads_zero p : wf_ir p -> p <> [] -> In 0 (reads p).
Proof.
  destruct p as [|i r]; [congruence|]. intros (_ & Hin & _) _. unfold reads. cbn [flat_map]. apply in_or_app. left.
  pose proof (in_indexes_nonempty i) as Hne. destruct (in_indexes i) as [|k t] eqn:E; [congruence|].
  destruct (Hin k (or_introl eq_refl)) as [<-|[]]. now left.
Qed.

(* The listing of an allocated program, executed literally on a register file: every register is
   written before it is read (no "unwritten" error), the output register ends with the last chain
   element in both aliasing modes, the input register is intact in separate mode. *)
Theorem allocated_listing cfg p lst nmap x q ts : cfg_ok cfg -> wf_ir p -> last_instr p = Some lst ->
  consistent nmap p -> allocate cfg p = Ok (q, ts) ->
  forall mode, exists r, lexec (canon mode cfg) [(cfg_in cfg, x)] (map linstr_of q) = Ok r /\
    reg_value mode cfg r (cfg_out cfg) = Some (chain_values x p (out_index lst)) /\
    (mode = Separate -> reg_value mode cfg r (cfg_in cfg) = Some x).
Proof.
  intros Hcfg Hwf El Hc Ea mode.
  destruct (allocate_shape cfg p lst nmap Hwf El Hc) as (idx & Hidx & E).
  destruct (last_instr_split p lst El) as (front & Ep).
  destruct (allocated_exec cfg p lst nmap x Hcfg Hwf El Hc) as (q' & ts' & E' & Hnamed & _ & Hrun & _).
  rewrite Ea in E, E'. injection E' as <- <-. injection E as Eq _.
  destruct (Hrun mode) as (mi & Erun & Hout & Hinp).
  set (names := opname (run_naming cfg p idx lst)) in *.
  destruct (refine_exec (canon mode cfg) names p [0] 0 (init_machine mode (cfg_in cfg) (cfg_out cfg) x) [(cfg_in cfg, x)] Hwf)
    as (m' & r' & E1 & E2 & HR).
  - apply init_rinv, (ck_io cfg Hcfg).
  - intros k [<-|[]]. unfold names.
    rewrite (ident_nm cfg p lst front idx Hwf Ep Hidx 0) by (left; apply wf_ir_reads_zero; [exact Hwf|apply (last_instr_nonempty p lst El)]).
    change (nm_of cfg (lastinputread p) (V (scan p) (out_index lst)) (scan p) (vname (run_naming cfg p idx lst)) 0) with (cfg_in cfg).
    rewrite init_load_eq. destruct mode; rewrite ?str_eqb_refl; [discriminate|]. destruct (str_eqb (cfg_out cfg) (cfg_in cfg)); discriminate.
  - intros i o Hi Ho. apply (Hnamed (rename_instr names i) o); [rewrite Eq; now apply in_map|exact Ho].
  - rewrite <- Eq in E1, E2. unfold run_interp in Erun. rewrite Erun in E1. injection E1 as <-.
    exists r'. split; [exact E2|]. destruct HR as [_ HR]. unfold reg_value. rewrite !HR. auto.
Qed.
