(* Proofs about model/Gen.v. *)
From Coq Require Import String.
From Coq Require Import List NArith ZArith Bool Arith Lia.
From AV Require Import model.Proto model.Chain model.Ast model.Ir model.Peg model.Printer model.Translate
  model.AstProto model.Alloc model.Interp model.Gen proofs.AllocProofs proofs.InterpProofs.
Import ListNotations.
Open Scope Z_scope.

(* an instruction-less program never reaches the templates *)
Lemma prepare_empty_refused cfg s : translate s = Ok [] -> prepare cfg s = Err ($"empty").
Proof. intros E. unfold prepare. rewrite E. reflexivity. Qed.
