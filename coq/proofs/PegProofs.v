(* Statement level of C07: parse (print_script c) = Ok c for every well-formed script, through the
   model of the tabwriter layer. *)
From Coq Require Import List NArith ZArith Lia Bool Arith.
From AV Require Import model.Proto model.Ast model.Printer model.Peg proofs.PegBasics proofs.PegExpr.
Import ListNotations.
Open Scope N_scope.

Definition named_ok (s : stmt) : Prop := ident_ok (sname s) = true /\ wfe true (sexpr s).

Lemma wf_script_split c : wf_script c = true ->
  exists init last, c = init ++ [last] /\ Forall named_ok init /\ sname last = [] /\ wfe true (sexpr last).
Proof.
  induction c as [|s c IH]; [discriminate|]. cbn [wf_script].
  destruct c as [|s2 c'].
  - destruct (sname s) eqn:En; [|discriminate]. intros H. exists [], s. repeat split; auto.
  - intros H. apply andb_true_iff in H as [H H3]. apply andb_true_iff in H as [H1 H2].
    destruct (IH H3) as (init & last & E & Hi & Hn & Hl). exists (s :: init), last. rewrite E.
    repeat split; auto. constructor; [split; assumption|assumption].
Qed.

Lemma wf_script_join init last : Forall named_ok init -> sname last = [] -> wfe true (sexpr last) ->
  wf_script (init ++ [last]) = true.
Proof.
  intros Hi Hn Hl. induction Hi as [|s init [H1 H2] Hi IH]; cbn [app].
  - cbn [wf_script]. now rewrite Hn.
  - destruct (init ++ [last]) as [|s0 l] eqn:E; [destruct init; discriminate|].
    change (ident_ok (sname s) && wf_expr true (sexpr s) && wf_script (s0 :: l) = true).
    rewrite H1, H2. exact IH.
Qed.

(* ---------- column widths ---------- *)
Lemma colwidth_gt f c s : In s c -> (length (f s) < colwidth f c)%nat.
Proof.
  unfold colwidth. induction c as [|a c IH]; intros H; [destruct H|].
  cbn [fold_right]. destruct H as [->|H]; [lia|]. specialize (IH H). lia.
Qed.

Lemma pad_eq w t : pad w t = t ++ repeat 32 (w - length t).
Proof. reflexivity. Qed.

(* a printed expression does not start with '=' *)
Lemma pr_no_eq e r : wfe false e -> lit [61] (pr_expr e ++ r) = None.
Proof.
  intros Hw. destruct (pr_head e Hw r) as (c & t & -> & Hc). apply lit1_ne.
  destruct Hc as [->|[->|[->|[->|H]]]]; try lia. apply alpha_cases in H. lia.
Qed.

Lemma p_ident_app s r : ident_ok s = true -> sepr r -> p_ident (s ++ r) = Some (s, r).
Proof.
  intros Hs Hr. destruct (ident_ok_cons s Hs) as (c & t & -> & Hc & Ht). cbn [app].
  unfold p_ident. rewrite Hc. now rewrite (span_app _ _ _ Ht Hr).
Qed.

Lemma ident_nows s r : ident_ok s = true -> nohead is_ws (s ++ r).
Proof. intros Hs. destruct (ident_ok_cons s Hs) as (c & t & -> & Hc & _). simpl. now apply alpha_nows. Qed.

Lemma kw_return_ok : ident_ok kw_return = true.
Proof. reflexivity. Qed.

Lemma spaces_sepr n x t : is_idc x = false -> sepr (repeat 32 n ++ x :: t).
Proof. intros Hx. destruct n; simpl; [exact Hx|reflexivity]. Qed.

(* ---------- one named statement ---------- *)
Lemma stmt_assign f w0 w1 s rest : named_ok s -> (d (sexpr s) < f)%nat ->
  p_assignment (p_expr f) (pr_stmt w0 w1 s ++ rest) = PGot false s rest.
Proof.
  intros [Hn He] Hf. destruct s as [name e]. cbn [sname sexpr] in *.
  destruct name as [|c0 t0]; [discriminate|].
  unfold pr_stmt, label, eqcell. cbn [sname sexpr]. cbv iota.
  set (name := c0 :: t0) in *.
  rewrite !pad_eq. rewrite <- !app_assoc. cbn [app].
  unfold p_assignment.
  rewrite skipws_nows by (now apply ident_nows).
  rewrite p_ident_app; [|exact Hn|apply spaces_sepr; reflexivity].
  rewrite skipws_spaces. rewrite skipws_nows by reflexivity. rewrite lit1_eq.
  rewrite skipws_spaces. rewrite skipws_nows by (apply pr_nows; now apply wf_mono).
  rewrite (roundtrip_expr e (10 :: rest) f He Hf) by (unfold fola; simpl; auto).
  cbn [pbind por orb]. rewrite !skipws_nows by reflexivity. rewrite lit1_eq. reflexivity.
Qed.

(* ---------- the return statement ---------- *)
Lemma return_text w0 w1 e rest : (6 < w0)%nat ->
  exists k, pr_stmt w0 w1 (mkStmt [] e) ++ rest = kw_return ++ 32 :: repeat 32 k ++ pr_expr e ++ 10 :: rest.
Proof.
  intros Hw. unfold pr_stmt, label, eqcell. cbn [sname sexpr]. rewrite !pad_eq.
  change (length kw_return) with 6%nat. change (length (@nil N)) with 0%nat.
  destruct (w0 - 6)%nat as [|k0] eqn:Ek; [lia|].
  exists (k0 + (w1 - 0))%nat. rewrite <- !app_assoc. cbn [repeat app]. rewrite repeat_app, <- !app_assoc. reflexivity.
Qed.

Lemma stmt_assign_fail pe w0 w1 e rest : (6 < w0)%nat -> wfe false e ->
  p_assignment pe (pr_stmt w0 w1 (mkStmt [] e) ++ rest) = PFail false.
Proof.
  intros Hw He. destruct (return_text w0 w1 e rest Hw) as (k & ->).
  unfold p_assignment. rewrite skipws_nows by reflexivity.
  rewrite p_ident_app; [|reflexivity|reflexivity].
  rewrite skipws_sp, skipws_spaces. rewrite skipws_nows by (now apply pr_nows).
  now rewrite pr_no_eq.
Qed.

Lemma stmt_return f w0 w1 e : (6 < w0)%nat -> wfe true e -> (d e < f)%nat ->
  p_return (p_expr f) (pr_stmt w0 w1 (mkStmt [] e)) = PGot false (mkStmt [] e) [].
Proof.
  intros Hw He Hf. rewrite <- (app_nil_r (pr_stmt w0 w1 (mkStmt [] e))).
  destruct (return_text w0 w1 e [] Hw) as (k & ->).
  unfold p_return. rewrite skipws_nows by reflexivity. rewrite lit_app.
  change (is_ws 32) with true. cbv iota.
  rewrite skipws_spaces. rewrite skipws_nows by (apply pr_nows; now apply wf_mono).
  rewrite (roundtrip_expr e [10] f He Hf) by (unfold fola; simpl; auto).
  reflexivity.
Qed.

(* ---------- Assignment* ---------- *)
Lemma assignments_ok f w0 w1 last : (6 < w0)%nat -> sname last = [] -> wfe true (sexpr last) ->
  forall init n, Forall (fun s => named_ok s /\ (d (sexpr s) < f)%nat) init -> (length init < n)%nat ->
  p_assignments (p_expr f) n (flat_map (pr_stmt w0 w1) init ++ pr_stmt w0 w1 last) = PGot false init (pr_stmt w0 w1 last).
Proof.
  intros Hw Hn Hl. destruct last as [ln le]. cbn [sname sexpr] in *. subst ln.
  induction init as [|s init IH]; intros n Hi Hlen.
  - destruct n as [|n]; [simpl in Hlen; lia|]. cbn [flat_map app p_assignments].
    rewrite <- (app_nil_r (pr_stmt w0 w1 (mkStmt [] le))) at 1.
    rewrite stmt_assign_fail by (auto using wf_mono). reflexivity.
  - destruct n as [|n]; [simpl in Hlen; lia|]. cbn [flat_map p_assignments]. rewrite <- app_assoc.
    inversion Hi as [|? ? [Hs Hd] Hi']. subst.
    rewrite stmt_assign by assumption.
    rewrite IH by (first [assumption | simpl in Hlen; lia]). reflexivity.
Qed.

Lemma pr_stmt_length w0 w1 s : (length (pr_expr (sexpr s)) < length (pr_stmt w0 w1 s))%nat.
Proof. unfold pr_stmt. rewrite !app_length. simpl. lia. Qed.

Lemma flat_map_length_ge {A} (f : A -> list N) l : (forall x, 1 <= length (f x))%nat -> (length l <= length (flat_map f l))%nat.
Proof.
  intros H. induction l as [|a l IH]; simpl; [lia|]. rewrite app_length. specialize (H a). lia.
Qed.

Lemma in_flat_map_length {A} (f : A -> list N) l x : In x l -> (length (f x) <= length (flat_map f l))%nat.
Proof.
  induction l as [|a l IH]; intros H; [destruct H|]. simpl. rewrite app_length.
  destruct H as [->|H]; [lia|]. specialize (IH H). lia.
Qed.

(* ---------- the theorem ---------- *)
Theorem roundtrip c : wf_script c = true -> parse (print_script c) = Ok c.
Proof.
  intros Hwf. destruct (wf_script_split c Hwf) as (init & last & -> & Hi & Hn & Hl).
  unfold parse, p_chain, print_script.
  set (c := init ++ [last]).
  set (w0 := colwidth label c). set (w1 := colwidth eqcell c).
  set (txt := flat_map (pr_stmt w0 w1) c).
  assert (Hw0 : (6 < w0)%nat).
  { pose proof (colwidth_gt label c last ltac:(unfold c; apply in_or_app; right; left; reflexivity)) as H.
    unfold label in H. rewrite Hn in H. exact H. }
  assert (Hdepth : forall s, In s c -> (d (sexpr s) < S (length txt))%nat).
  { intros s Hs. pose proof (in_flat_map_length (pr_stmt w0 w1) c s Hs) as H1.
    pose proof (pr_stmt_length w0 w1 s) as H2. pose proof (d_le_length (sexpr s)) as H3. fold txt in H1. lia. }
  assert (Etxt : txt = flat_map (pr_stmt w0 w1) init ++ pr_stmt w0 w1 last).
  { unfold txt, c. rewrite flat_map_app. cbn [flat_map]. now rewrite app_nil_r. }
  assert (HA : forall t, t = flat_map (pr_stmt w0 w1) init ++ pr_stmt w0 w1 last ->
    p_assignments (p_expr (S (length txt))) (S (length txt)) t = PGot false init (pr_stmt w0 w1 last)).
  { intros t ->. apply assignments_ok; auto.
    - rewrite Forall_forall in *. intros s Hs. split; [now apply Hi|].
      apply Hdepth. unfold c. apply in_or_app. now left.
    - pose proof (flat_map_length_ge (pr_stmt w0 w1) c) as H.
      assert (forall x, (1 <= length (pr_stmt w0 w1 x))%nat) as H1.
      { intros x. pose proof (pr_stmt_length w0 w1 x). lia. }
      specialize (H H1). fold txt in H. unfold c in H. rewrite app_length in H. simpl in H. lia. }
  cbv zeta. rewrite (HA txt Etxt).
  cbn [pbind]. destruct last as [ln le]. cbn [sname sexpr] in *. subst ln.
  rewrite stmt_return; [| exact Hw0 | exact Hl |].
  - reflexivity.
  - apply (Hdepth (mkStmt [] le)). unfold c. apply in_or_app. right. left. reflexivity.
Qed.
