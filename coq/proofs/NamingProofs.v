(* Proofs about the naming passes (C16): renderings are injective and say the number,
   the three naming schemes cannot collide, every name is a legal identifier. *)
From Coq Require Import String.
From Coq Require Import List NArith ZArith Bool Arith Lia ZifyBool ZifyNat ZifyN.
From AV Require Import proofs.BitsProofs.
From AV Require Import model.Proto model.Chain model.Program model.Ir model.Ast model.Bits
  model.Decompile model.Naming model.Build proofs.BuildTranslateAux.
Import ListNotations.

(* ------------------------------------------------------------------ *)
(* positional renderings (fmt verbs %b and %d)                          *)
(* ------------------------------------------------------------------ *)
Section Render.
Open Scope N_scope.

Lemma hexchar_small d : d < 10 -> hexchar d = 48 + d.
Proof. intros H. unfold hexchar. apply N.ltb_lt in H. now rewrite H. Qed.

Lemma print_base_spec base : 2 <= base -> base <= 10 -> forall f n, n < 2 ^ N.of_nat (S f) ->
  exists D, (forall acc, print_base_fuel base (S f) n acc = D ++ acc) /\ D <> [] /\
    Forall (digit_of base) D /\
    forall a, fold_left (dstep base) D a = a * base ^ N.of_nat (length D) + n.
Proof.
  intros Hb2 Hb10. assert (Hb0 : base <> 0) by lia.
  assert (Hone : forall n, n < base -> exists D, (forall acc, hexchar (n mod base) :: acc = D ++ acc) /\ D <> [] /\
            Forall (digit_of base) D /\ forall a, fold_left (dstep base) D a = a * base ^ N.of_nat (length D) + n).
  { intros n Hn. exists [hexchar (n mod base)]. rewrite N.mod_small by assumption.
    rewrite hexchar_small by lia. split; [reflexivity|]. split; [discriminate|]. split.
    - constructor; [unfold digit_of; lia|constructor].
    - intros a. cbn [fold_left length]. unfold dstep. change (N.of_nat 1) with 1. rewrite N.pow_1_r. lia. }
  induction f as [|f IH]; intros n Hn.
  - assert (Hlt : n < base) by (change (2 ^ N.of_nat 1) with 2 in Hn; lia).
    destruct (Hone n Hlt) as (D & HD & Hrest). exists D. split; [|exact Hrest].
    intros acc. cbn [print_base_fuel]. rewrite (N.div_small n base Hlt). cbn. apply HD.
  - destruct (N.eq_dec (n / base) 0) as [Hq|Hq].
    + assert (Hlt : n < base) by (apply N.div_small_iff; assumption).
      destruct (Hone n Hlt) as (D & HD & Hrest). exists D. split; [|exact Hrest].
      intros acc. change (print_base_fuel base (S (S f)) n acc) with
        (if n / base =? 0 then hexchar (n mod base) :: acc
         else print_base_fuel base (S f) (n / base) (hexchar (n mod base) :: acc)).
      rewrite Hq. cbn. apply HD.
    + assert (Hqlt : n / base < 2 ^ N.of_nat (S f)).
      { apply N.div_lt_upper_bound; [assumption|].
        rewrite (Nat2N.inj_succ (S f)), N.pow_succ_r' in Hn.
        assert (2 * 2 ^ N.of_nat (S f) <= base * 2 ^ N.of_nat (S f)) by (apply N.mul_le_mono_r; assumption). lia. }
      destruct (IH _ Hqlt) as (D' & HD' & Hne & Hdig & Hval).
      assert (Hm : n mod base < base) by (apply N.mod_lt; assumption).
      exists (D' ++ [hexchar (n mod base)]). split; [|split; [|split]].
      * intros acc. change (print_base_fuel base (S (S f)) n acc) with
          (if n / base =? 0 then hexchar (n mod base) :: acc
           else print_base_fuel base (S f) (n / base) (hexchar (n mod base) :: acc)).
        apply N.eqb_neq in Hq. rewrite Hq. rewrite HD', <- app_assoc. reflexivity.
      * destruct D'; discriminate.
      * apply Forall_app. split; [assumption|]. constructor; [|constructor].
        rewrite hexchar_small by lia. unfold digit_of. lia.
      * intros a. rewrite fold_left_app, Hval. cbn [fold_left]. unfold dstep.
        rewrite hexchar_small by lia. rewrite app_length. cbn [length].
        replace (length D' + 1)%nat with (S (length D')) by lia.
        rewrite Nat2N.inj_succ, N.pow_succ_r'.
        pose proof (N.div_mod n base Hb0) as Hdm. lia.
Qed.

Lemma size_bound n : n < 2 ^ N.of_nat (S (N.to_nat (N.size n))).
Proof.
  rewrite Nat2N.inj_succ, N2Nat.id, N.pow_succ_r'. pose proof (N.size_gt n). lia.
Qed.

Lemma print_decN_spec n : print_decN n <> [] /\ Forall (digit_of 10) (print_decN n) /\ digits_val 10 (print_decN n) = n.
Proof.
  destruct (print_base_spec 10 ltac:(lia) ltac:(lia) _ n (size_bound n)) as (D & HD & Hne & Hdig & Hval).
  unfold print_decN. rewrite HD, app_nil_r. repeat split; auto. unfold digits_val. rewrite Hval. lia.
Qed.

Lemma print_binN_spec n : print_binN n <> [] /\ Forall (digit_of 2) (print_binN n) /\ digits_val 2 (print_binN n) = n.
Proof.
  destruct (print_base_spec 2 ltac:(lia) ltac:(lia) _ n (size_bound n)) as (D & HD & Hne & Hdig & Hval).
  unfold print_binN. rewrite HD, app_nil_r. repeat split; auto. unfold digits_val. rewrite Hval. lia.
Qed.

Lemma print_decN_inj a b : print_decN a = print_decN b -> a = b.
Proof.
  intros H. rewrite <- (proj2 (proj2 (print_decN_spec a))), <- (proj2 (proj2 (print_decN_spec b))). now rewrite H.
Qed.

Lemma print_binN_inj a b : print_binN a = print_binN b -> a = b.
Proof.
  intros H. rewrite <- (proj2 (proj2 (print_binN_spec a))), <- (proj2 (proj2 (print_binN_spec b))). now rewrite H.
Qed.
End Render.

Open Scope Z_scope.

Lemma print_decZ_nonneg z : 0 <= z -> print_decZ z = print_decN (Z.to_N z).
Proof. intros H. destruct z; [reflexivity|reflexivity|lia]. Qed.

Lemma print_binZ_nonneg z : 0 <= z -> print_binZ z = print_binN (Z.to_N z).
Proof. intros H. destruct z; [reflexivity|reflexivity|lia]. Qed.

(* ------------------------------------------------------------------ *)
(* the three naming schemes                                            *)
(* ------------------------------------------------------------------ *)

(* identifier after both passes: "_%b" first, "x%d" only if still unnamed *)
Definition final_name (x : Z) : list N :=
  match name_byte x with [] => name_xrun x | s => s end.

(* builder.name on top of it *)
Definition stmt_name (x idx : Z) : list N := b_name (final_name x) idx.

Lemma name_byte_cases x : 0 <= x ->
  name_byte x = [] \/ exists b, name_byte x = 95%N :: b /\ b <> [] /\ Forall (digit_of 2) b /\ x = Z.of_N (digits_val 2 b).
Proof.
  intros Hx. unfold name_byte. destruct (8 <? bitlen x)%N; [now left|right].
  rewrite print_binZ_nonneg by assumption.
  destruct (print_binN_spec (Z.to_N x)) as (H1 & H2 & H3).
  eexists. split; [reflexivity|]. repeat split; auto. rewrite H3. lia.
Qed.

Lemma name_xrun_cases x :
  name_xrun x = [] \/ exists d, name_xrun x = 120%N :: d /\ d <> [] /\ Forall (digit_of 10) d /\ x = 2 ^ Z.of_N (digits_val 10 d) - 1.
Proof.
  unfold name_xrun. destruct (x =? ones (bitlen x)) eqn:E; [right|now left].
  apply Z.eqb_eq in E. destruct (print_decN_spec (bitlen x)) as (H1 & H2 & H3).
  eexists. split; [reflexivity|]. repeat split; auto. rewrite H3. rewrite <- ones_eq. exact E.
Qed.

Lemma stmt_name_shape x idx : 0 <= x -> 0 <= idx ->
  name_shape (stmt_name x idx) /\ describes (stmt_name x idx) x idx.
Proof.
  intros Hx Hi. unfold stmt_name, final_name.
  destruct (name_byte_cases x Hx) as [Eb|(b & Eb & Hb1 & Hb2 & Hb3)]; rewrite Eb.
  - destruct (name_xrun_cases x) as [Ex|(d & Ex & Hd1 & Hd2 & Hd3)]; rewrite Ex.
    + cbn [b_name]. rewrite print_decZ_nonneg by assumption.
      destruct (print_decN_spec (Z.to_N idx)) as (H1 & H2 & H3).
      split; [now constructor|]. cbn [describes]. rewrite H3. lia.
    + cbn [b_name]. split; [now constructor|exact Hd3].
  - cbn [b_name]. split; [now constructor|exact Hb3].
Qed.

(* distinct values (or, for the fallback, distinct indexes) never share a name *)
Lemma stmt_name_inj x1 i1 x2 i2 : 0 <= x1 -> 0 <= x2 -> 0 <= i1 -> 0 <= i2 ->
  stmt_name x1 i1 = stmt_name x2 i2 -> x1 = x2 \/ i1 = i2.
Proof.
  intros Hx1 Hx2 Hi1 Hi2 E.
  destruct (stmt_name_shape x1 i1 Hx1 Hi1) as [_ D1].
  destruct (stmt_name_shape x2 i2 Hx2 Hi2) as [S2 D2].
  rewrite E in D1. destruct S2 as [b|d|d]; cbn [describes] in D1, D2.
  - left. congruence.
  - left. congruence.
  - right. congruence.
Qed.

(* ------------------------------------------------------------------ *)
(* legality: [a-zA-Z_][a-zA-Z0-9_]* and not "dbl" followed by a letter, '_' or '1' *)
(* ------------------------------------------------------------------ *)

Lemma digits_idc base d : (base <= 10)%N -> Forall (digit_of base) d -> forallb is_idc d = true.
Proof.
  intros Hb H. apply forallb_forall. intros c Hc. rewrite Forall_forall in H. specialize (H c Hc).
  unfold digit_of in H. unfold is_idc, is_digit.
  assert ((48 <=? c)%N = true) by (apply N.leb_le; lia).
  assert ((c <=? 57)%N = true) by (apply N.leb_le; lia).
  rewrite H0, H1. now rewrite orb_true_r.
Qed.

Lemma dbl_class_first c s : c <> 100%N -> dbl_class (c :: s) = false.
Proof.
  intros H. destruct s as [|c2 [|c3 [|c4 r]]]; try reflexivity. cbn [dbl_class].
  apply N.eqb_neq in H. now rewrite H.
Qed.

Lemma name_shape_legal nm : name_shape nm -> ident_ok nm = true /\ dbl_class nm = false.
Proof.
  intros [b Hb1 Hb2|d Hd1 Hd2|d Hd1 Hd2]; (split; [cbn [ident_ok]|apply dbl_class_first; discriminate]).
  - now rewrite (digits_idc 2 b) by (assumption || lia).
  - now rewrite (digits_idc 10 d) by (assumption || lia).
  - now rewrite (digits_idc 10 d) by (assumption || lia).
Qed.

Lemma name_shape_nonempty nm : name_shape nm -> nm <> [].
Proof. intros [b _ _|d _ _|d _ _]; discriminate. Qed.

(* ------------------------------------------------------------------ *)
(* the identifier table after the passes                               *)
(* ------------------------------------------------------------------ *)

Lemma zlookup_map_nil (l : list Z) x : zlookup x (map (fun y => (y, @nil N)) l) = if existsb (Z.eqb x) l then Some [] else None.
Proof.
  induction l as [|y l IH]; [reflexivity|]. cbn [map zlookup existsb]. rewrite (Z.eqb_sym x y).
  destruct (y =? x); [reflexivity|exact IH].
Qed.

(* one pass: names exactly the unnamed entries, by the value at their index *)
Lemma name_pass_spec f chain : forall tbl,
  (forall idx s, In (idx, s) tbl -> 0 <= idx < Z.of_nat (length chain)) ->
  exists tbl', name_pass f chain tbl = Ok tbl' /\
    map fst tbl' = map fst tbl /\
    forall idx, zlookup idx tbl' =
      match zlookup idx tbl with
      | Some [] => Some (f (nth (Z.to_nat idx) chain 0))
      | o => o
      end.
Proof.
  induction tbl as [|[k s] tbl IH]; intros Hr.
  - exists []. repeat split; auto.
  - destruct IH as (tbl' & E & Hk & Hl). { intros idx s' H. apply (Hr idx s'). now right. }
    assert (Hk0 : 0 <= k < Z.of_nat (length chain)) by (apply (Hr k s); now left).
    cbn [name_pass]. destruct s as [|c s].
    + unfold name_one. cbn [fst snd]. assert (E0 : (k <? 0) = false) by (apply Z.ltb_ge; lia). rewrite E0.
      destruct (nth_error chain (Z.to_nat k)) as [v|] eqn:En.
      * cbn [obind]. rewrite E. cbn [obind]. eexists. split; [reflexivity|]. split; [cbn [map fst]; now rewrite Hk|].
        intros idx. cbn [zlookup]. destruct (k =? idx) eqn:Ek; [|apply Hl].
        apply Z.eqb_eq in Ek. subst idx. f_equal. f_equal. symmetry. now apply nth_error_nth.
      * exfalso. apply nth_error_None in En. lia.
    + unfold name_one. cbn [fst snd obind]. rewrite E. cbn [obind]. eexists. split; [reflexivity|].
      split; [cbn [map fst]; now rewrite Hk|]. intros idx. cbn [zlookup]. destruct (k =? idx); [reflexivity|apply Hl].
Qed.

Lemma in_dedup seen l x : In x (dedup seen l) -> In x l.
Proof.
  revert seen. induction l as [|y l IH]; intros seen H; [contradiction|].
  cbn [dedup] in H. destruct (existsb (Z.eqb y) seen).
  - right. eapply IH; eauto.
  - destruct H as [->|H]; [now left|right; eapply IH; eauto].
Qed.

Lemma dedup_complete l x : forall seen, In x l -> In x seen \/ In x (dedup seen l).
Proof.
  induction l as [|y l IH]; intros seen H; [contradiction|]. cbn [dedup].
  destruct (existsb (Z.eqb y) seen) eqn:E.
  - destruct H as [->|H]; [|now apply IH]. left. apply existsb_exists in E as (z & Hz & Ez).
    apply Z.eqb_eq in Ez. now subst.
  - destruct H as [->|H]; [right; now left|]. destruct (IH (y :: seen) H) as [[->|H']|H']; auto.
    + right. now left.
    + right. now right.
Qed.

(* the passes succeed when Eval does and every operand index lies in the chain; each
   operand then carries final_name of the value at its index *)
Lemma name_operands_spec P chain : eval_ir P = Ok chain ->
  (forall x, In x (operand_indexes P) -> 0 <= x < Z.of_nat (length chain)) ->
  exists tbl, name_operands P = Ok tbl /\
    forall x, In x (operand_indexes P) -> ident_of tbl x = final_name (nth (Z.to_nat x) chain 0).
Proof.
  intros Ee Hr. unfold name_operands. rewrite Ee. cbn [obind].
  assert (Hr0 : forall idx s, In (idx, s) (operand_table P) -> 0 <= idx < Z.of_nat (length chain)).
  { intros idx s H. unfold operand_table in H. apply in_map_iff in H as (y & Ey & Hy). injection Ey as <- _.
    apply Hr. eapply in_dedup; eauto. }
  destruct (name_pass_spec name_byte chain (operand_table P) Hr0) as (t1 & E1 & Hk1 & Hl1).
  rewrite E1. cbn [obind].
  assert (Hr1 : forall idx s, In (idx, s) t1 -> 0 <= idx < Z.of_nat (length chain)).
  { intros idx s H. assert (Hi : In idx (map fst t1)) by (apply in_map_iff; exists (idx, s); auto).
    rewrite Hk1 in Hi. apply in_map_iff in Hi as ([i' s'] & Ei & Hi). cbn in Ei. subst i'. eapply Hr0; eauto. }
  destruct (name_pass_spec name_xrun chain t1 Hr1) as (t2 & E2 & Hk2 & Hl2).
  exists t2. split; [exact E2|]. intros x Hx. unfold ident_of. rewrite Hl2, Hl1.
  unfold operand_table. rewrite zlookup_map_nil.
  assert (Hex : existsb (Z.eqb x) (dedup [] (operand_indexes P)) = true).
  { apply existsb_exists. exists x. split; [|apply Z.eqb_refl].
    destruct (dedup_complete (operand_indexes P) x [] Hx) as [[]|H]; exact H. }
  rewrite Hex. unfold final_name. destruct (name_byte (nth (Z.to_nat x) chain 0)); reflexivity.
Qed.
