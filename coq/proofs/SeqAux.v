(* C08: list and chain lemmas shared by HeuristicProofs.v and ContfracProofs.v
   (sorted-distinct lists, MergeUnique, Sort, Unique, "chain-like" sets, Product, Plus, powers of two). *)
From Coq Require Import List ZArith NArith Lia Bool Arith Sorted.
From AV Require Import model.Proto model.Bits model.Lists model.Chain.
Import ListNotations.
Open Scope Z_scope.

(* ---------- sorted distinct / non-decreasing lists ---------- *)
Fixpoint sd (l : list Z) : Prop :=
  match l with [] => True | x :: t => (forall y, In y t -> x < y) /\ sd t end.
Fixpoint nd (l : list Z) : Prop :=
  match l with [] => True | x :: t => (forall y, In y t -> x <= y) /\ nd t end.

Lemma sd_nd l : sd l -> nd l.
Proof.
  induction l as [|x l IH]; simpl; [auto|]. intros [H1 H2]. split; [|auto].
  intros y Hy. specialize (H1 y Hy). lia.
Qed.

Lemma nd_StronglySorted l : nd l <-> StronglySorted Z.le l.
Proof.
  induction l as [|x l IH]; simpl; split; intros H.
  - constructor.
  - exact I.
  - destruct H as [H1 H2]. constructor; [now apply IH|]. apply Forall_forall. exact H1.
  - inversion H as [|? ? Hs Hf]; subst. split; [|now apply IH]. apply Forall_forall. exact Hf.
Qed.

Lemma sd_app a b : sd a -> sd b -> (forall x y, In x a -> In y b -> x < y) -> sd (a ++ b).
Proof.
  induction a as [|x a IH]; intros Ha Hb Hab; simpl; [assumption|]. destruct Ha as [H1 H2]. split.
  - intros y Hy. apply in_app_or in Hy as [Hy|Hy]; [now apply H1|apply Hab; simpl; auto].
  - apply IH; auto. intros; apply Hab; simpl; auto.
Qed.

Lemma sd_app_last l t : sd (l ++ [t]) -> sd l /\ forall y, In y l -> y < t.
Proof.
  induction l as [|x l IH]; simpl; [tauto|]. intros [H1 H2]. destruct (IH H2) as [H3 H4]. split.
  - split; [|assumption]. intros y Hy. apply H1. apply in_or_app; auto.
  - intros y [<-|Hy]; [apply H1; apply in_or_app; simpl; auto|auto].
Qed.

Lemma nd_app_inv a b : nd (a ++ b) -> nd a /\ nd b /\ forall x y, In x a -> In y b -> x <= y.
Proof.
  induction a as [|x a IH]; simpl; intros H; [repeat split; auto; intros ? ? []|].
  destruct H as [H1 H2]. destruct (IH H2) as (Ha & Hb & Hab). repeat split; auto.
  - intros y Hy. apply H1, in_or_app; auto.
  - intros u v [<-|Hu] Hv; [apply H1, in_or_app; auto|auto].
Qed.

(* a sorted distinct list all of whose members lie in [lo, lo+n) has at most n members *)
Lemma sd_count : forall l lo n, sd l -> (forall y, In y l -> lo <= y < lo + Z.of_nat n) -> (length l <= n)%nat.
Proof.
  induction l as [|x l IH]; intros lo n Hs Hb; simpl; [lia|].
  destruct Hs as [H1 H2]. destruct n as [|n].
  - specialize (Hb x (or_introl eq_refl)). lia.
  - assert (length l <= n)%nat; [|lia]. apply (IH (x + 1) n H2).
    intros y Hy. specialize (H1 y Hy). pose proof (Hb y (or_intror Hy)) as Hby.
    pose proof (Hb x (or_introl eq_refl)) as Hbx. lia.
Qed.

(* ---------- last ---------- *)
Lemma last_cons2 (x y : Z) l d : last (x :: y :: l) d = last (y :: l) d.
Proof. reflexivity. Qed.

Lemma last_in (l : list Z) d : l <> [] -> In (last l d) l.
Proof.
  induction l as [|y l IH]; [congruence|]. intros _. destruct l as [|z l']; [simpl; auto|].
  rewrite last_cons2. right. apply IH. discriminate.
Qed.

Lemma last_app_ne (a b : list Z) d : b <> [] -> last (a ++ b) d = last b d.
Proof.
  induction a as [|x a IH]; intros Hb; [reflexivity|].
  change ((x :: a) ++ b) with (x :: (a ++ b)).
  destruct (a ++ b) as [|y r] eqn:E; [apply app_eq_nil in E as [_ ->]; congruence|].
  rewrite last_cons2. now apply IH.
Qed.

Lemma nd_last_max l : nd l -> forall x, In x l -> x <= last l 0.
Proof.
  induction l as [|y l IH]; intros Hs x Hx; [destruct Hx|]. destruct Hs as [H1 H2].
  destruct l as [|z l']; [simpl in Hx; destruct Hx as [<-|[]]; simpl; lia|].
  rewrite last_cons2. destruct Hx as [<-|Hx].
  - specialize (IH H2 z (or_introl eq_refl)). specialize (H1 z (or_introl eq_refl)). lia.
  - now apply IH.
Qed.

Lemma last_default_irrel (l : list Z) d d' : l <> [] -> last l d = last l d'.
Proof.
  induction l as [|y l IH]; [congruence|]. intros _. destruct l as [|z l']; [reflexivity|].
  rewrite !last_cons2. apply IH. discriminate.
Qed.

(* ---------- MergeUnique ---------- *)
Lemma merge_unique_nil_l ys : merge_unique [] ys = ys.
Proof. destruct ys; reflexivity. Qed.
Lemma merge_unique_nil_r xs : merge_unique xs [] = xs.
Proof. destruct xs; reflexivity. Qed.
Lemma merge_unique_cons x xs y ys :
  merge_unique (x :: xs) (y :: ys) =
  match x ?= y with
  | Lt => x :: merge_unique xs (y :: ys)
  | Eq => x :: merge_unique xs ys
  | Gt => y :: merge_unique (x :: xs) ys
  end.
Proof. reflexivity. Qed.

Lemma merge_in xs : forall ys z, In z (merge_unique xs ys) <-> In z xs \/ In z ys.
Proof.
  induction xs as [|x xs IHx]; intros ys z; [rewrite merge_unique_nil_l; simpl; tauto|].
  induction ys as [|y ys IHy]; [rewrite merge_unique_nil_r; simpl; tauto|].
  rewrite merge_unique_cons. destruct (x ?= y) eqn:E.
  - apply Z.compare_eq in E. subst. simpl. rewrite IHx. tauto.
  - simpl. rewrite IHx. simpl. tauto.
  - simpl. rewrite IHy. simpl. tauto.
Qed.

Lemma merge_sd xs : forall ys, sd xs -> sd ys -> sd (merge_unique xs ys).
Proof.
  induction xs as [|x xs IHx]; intros ys Hx Hy; [rewrite merge_unique_nil_l; exact Hy|].
  induction ys as [|y ys IHy]; [rewrite merge_unique_nil_r; exact Hx|].
  destruct Hx as [Hx1 Hx2]. destruct Hy as [Hy1 Hy2].
  rewrite merge_unique_cons. destruct (x ?= y) eqn:E.
  - apply Z.compare_eq in E. subst. split; [|apply IHx; assumption].
    intros z Hz. apply merge_in in Hz as [Hz|Hz]; auto.
  - assert (Elt : x < y) by exact E. split; [|apply IHx; [assumption|split; assumption]].
    intros z Hz. apply merge_in in Hz as [Hz|[Hz|Hz]].
    + now apply Hx1.
    + subst z. exact Elt.
    + specialize (Hy1 z Hz). lia.
  - assert (Egt : y < x) by (apply Z.compare_gt_iff; exact E).
    split; [|apply IHy; assumption].
    intros z Hz. apply merge_in in Hz as [[Hz|Hz]|Hz].
    + subst z. exact Egt.
    + specialize (Hx1 z Hz). lia.
    + now apply Hy1.
Qed.

Lemma insert_in xs x z : In z (insert_sorted_unique xs x) <-> z = x \/ In z xs.
Proof. unfold insert_sorted_unique. rewrite merge_in. simpl. intuition. Qed.

Lemma sd_single x : sd [x].
Proof. simpl. split; [intros y []|exact I]. Qed.

Lemma insert_sd xs x : sd xs -> sd (insert_sorted_unique xs x).
Proof. intros H. apply merge_sd; [apply sd_single|exact H]. Qed.

(* InsertSortedUnique keeps non-decreasing lists non-decreasing (targets with repeats) *)
Lemma insert_nd xs x : nd xs -> nd (insert_sorted_unique xs x).
Proof.
  unfold insert_sorted_unique. induction xs as [|y t IH]; intros H.
  - rewrite merge_unique_nil_r. simpl. split; [intros ? []|exact I].
  - destruct H as [H1 H2]. rewrite merge_unique_cons. destruct (x ?= y) eqn:E.
    + apply Z.compare_eq in E. subst. rewrite merge_unique_nil_l. split; assumption.
    + assert (x < y) by exact E. rewrite merge_unique_nil_l. split; [|split; assumption].
      intros z [<-|Hz]; [lia|specialize (H1 z Hz); lia].
    + assert (y < x) by (apply Z.compare_gt_iff; exact E). split; [|now apply IH].
      intros z Hz. apply merge_in in Hz as [[<-|[]]|Hz]; [lia|auto].
Qed.

Lemma last_insert x : forall l, nd l -> l <> [] -> x <= last l 0 ->
  last (insert_sorted_unique l x) 0 = last l 0.
Proof.
  unfold insert_sorted_unique. induction l as [|y t IH]; intros Hn Hne Hx; [congruence|].
  destruct Hn as [H1 H2]. rewrite merge_unique_cons.
  destruct (x ?= y) eqn:E.
  - rewrite merge_unique_nil_l. apply Z.compare_eq in E. subst. reflexivity.
  - rewrite merge_unique_nil_l. reflexivity.
  - assert (Hyx : y < x) by (apply Z.compare_gt_iff; exact E).
    destruct t as [|z t']; [simpl in Hx; lia|].
    rewrite last_cons2 in *.
    specialize (IH H2 ltac:(discriminate) Hx).
    destruct (merge_unique [x] (z :: t')) as [|w l'] eqn:Ei.
    + exfalso. assert (Hin : In x (merge_unique [x] (z :: t'))) by (apply merge_in; simpl; auto).
      rewrite Ei in Hin. destruct Hin.
    + rewrite last_cons2. exact IH.
Qed.

(* ---------- Sort and Unique ---------- *)
Lemma insert_sorted_in x l z : In z (insert_sorted x l) <-> z = x \/ In z l.
Proof.
  induction l as [|y r IH]; simpl; [intuition|].
  destruct (x <=? y); simpl; [intuition|]. rewrite IH. intuition.
Qed.

Lemma insert_sorted_nd x l : nd l -> nd (insert_sorted x l).
Proof.
  induction l as [|y r IH]; simpl; intros H; [split; [intros ? []|exact I]|].
  destruct H as [H1 H2]. destruct (x <=? y) eqn:E.
  - apply Z.leb_le in E. split; [|split; assumption].
    intros z [<-|Hz]; [lia|specialize (H1 z Hz); lia].
  - apply Z.leb_gt in E. split; [|now apply IH].
    intros z Hz. apply insert_sorted_in in Hz as [->|Hz]; [lia|auto].
Qed.

Lemma sort_in l z : In z (sort l) <-> In z l.
Proof.
  unfold sort. induction l as [|x l IH]; simpl; [tauto|]. rewrite insert_sorted_in, IH. intuition.
Qed.

Lemma sort_nd l : nd (sort l).
Proof. unfold sort. induction l as [|x l IH]; simpl; [exact I|]. now apply insert_sorted_nd. Qed.

Lemma sort_length l : length (sort l) = length l.
Proof.
  assert (H : forall x m, length (insert_sorted x m) = S (length m)).
  { intros x m. induction m as [|y r IH]; simpl; [reflexivity|]. destruct (x <=? y); simpl; [reflexivity|]. now rewrite IH. }
  unfold sort. induction l as [|x l IH]; simpl; [reflexivity|]. now rewrite H, IH.
Qed.

Lemma unique_from_spec : forall xs x, nd (x :: xs) ->
  sd (x :: unique_from x xs) /\ forall z, In z (x :: unique_from x xs) <-> In z (x :: xs).
Proof.
  induction xs as [|y r IH]; intros x H.
  - simpl. split; [split; [intros ? []|exact I]|tauto].
  - destruct H as [H1 H2]. cbn [unique_from]. destruct (y =? x) eqn:E.
    + apply Z.eqb_eq in E. subst y.
      assert (Hn : nd (x :: r)).
      { split; [|apply H2]. intros z Hz. apply H1. simpl; auto. }
      destruct (IH x Hn) as [Hs Hi]. split; [exact Hs|].
      intros z. rewrite Hi. simpl. tauto.
    + apply Z.eqb_neq in E. destruct (IH y H2) as [Hs Hi]. split.
      * split; [|exact Hs]. intros z Hz. apply Hi in Hz.
        assert (x <= y) by (apply H1; simpl; auto).
        destruct Hz as [<-|Hz]; [lia|]. destruct H2 as [H2 _]. specialize (H2 z Hz). lia.
      * intros z. specialize (Hi z). cbn [In] in Hi |- *. intuition.
Qed.

Lemma unique_spec l : nd l -> sd (unique l) /\ forall z, In z (unique l) <-> In z l.
Proof.
  destruct l as [|x xs]; intros H; [simpl; tauto|]. apply unique_from_spec. exact H.
Qed.

(* ---------- chain-like sets and the specification predicates of Chain.v ---------- *)
Definition CL (c : list Z) : Prop :=
  sd c /\ In 1 c /\ (forall x, In x c -> 1 <= x) /\
  (forall x, In x c -> x = 1 \/ exists u v, In u c /\ In v c /\ u + v = x).

Lemma CL_nonempty c : CL c -> c <> [].
Proof. intros (_ & H1 & _). destruct c; [destruct H1|discriminate]. Qed.

Lemma sd_nth_lt : forall c i j, sd c -> (i < j < length c)%nat -> nz c i < nz c j.
Proof.
  unfold nz. induction c as [|x c IH]; intros i j Hs Hij; [simpl in Hij; lia|].
  destruct Hs as [H1 H2]. destruct j as [|j]; [lia|]. destruct i as [|i].
  - cbn [nth]. apply H1. apply nth_In. simpl in Hij. lia.
  - cbn [nth]. apply IH; [assumption|simpl in Hij; lia].
Qed.

Lemma sd_NoDup c : sd c -> NoDup c.
Proof.
  induction c as [|x c IH]; intros Hs; [constructor|]. destruct Hs as [H1 H2].
  constructor; [|now apply IH]. intros Hx. specialize (H1 x Hx). lia.
Qed.

Lemma CL_head c : CL c -> exists r, c = 1 :: r.
Proof.
  intros (Hs & H1 & Hge & _). destruct c as [|x r]; [destruct H1|]. exists r. f_equal.
  destruct H1 as [E|Hin]; [assumption|]. destruct Hs as [Hs _]. specialize (Hs 1 Hin).
  specialize (Hge x (or_introl eq_refl)). lia.
Qed.

Lemma in_nz (c : list Z) x : In x c -> exists i, (i < length c)%nat /\ nz c i = x.
Proof. intros H. apply (In_nth c x 0) in H. exact H. Qed.

Theorem CL_is_chain c : CL c -> is_chain c /\ asc c.
Proof.
  intros HCL. pose proof (CL_head c HCL) as Hhd. destruct HCL as (Hs & H1 & Hge & Hex).
  assert (Hlt : forall i j, (i < j < length c)%nat -> nz c i < nz c j) by (intros; now apply sd_nth_lt).
  split; [|split; assumption].
  split; [assumption|]. split; [now apply sd_NoDup|]. split.
  - intros H0. specialize (Hge 0 H0). lia.
  - intros k Hk.
    assert (Hin : In (nz c k) c) by (apply nth_In; lia).
    assert (H0 : nz c 0 = 1) by (destruct Hhd as [r ->]; reflexivity).
    assert (Hk1 : 1 < nz c k) by (rewrite <- H0; apply Hlt; lia).
    destruct (Hex _ Hin) as [E|(u & v & Hu & Hv & E)]; [lia|].
    pose proof (Hge u Hu) as Hu1. pose proof (Hge v Hv) as Hv1.
    destruct (in_nz c u Hu) as (i & Hi & Ei). destruct (in_nz c v Hv) as (j & Hj & Ej).
    assert (Hik : (i < k)%nat).
    { destruct (Nat.lt_ge_cases i k) as [|Hge']; [assumption|]. exfalso.
      destruct (Nat.eq_dec i k) as [->|Hne]; [lia|]. assert (nz c k < nz c i) by (apply Hlt; lia). lia. }
    assert (Hjk : (j < k)%nat).
    { destruct (Nat.lt_ge_cases j k) as [|Hge']; [assumption|]. exfalso.
      destruct (Nat.eq_dec j k) as [->|Hne]; [lia|]. assert (nz c k < nz c j) by (apply Hlt; lia). lia. }
    destruct (Nat.le_ge_cases i j) as [Hij|Hij].
    + exists i, j. split; [lia|]. lia.
    + exists j, i. split; [lia|]. lia.
Qed.

Lemma CL_12 : CL [1; 2].
Proof.
  split; [|split; [|split]].
  - simpl. repeat split; intros y Hy; simpl in Hy; intuition; subst; lia.
  - simpl; auto.
  - intros x Hx. simpl in Hx. intuition; subst; lia.
  - intros x Hx. simpl in Hx. destruct Hx as [<-|[<-|[]]]; [left; reflexivity|right].
    exists 1, 1. simpl. intuition.
Qed.

Lemma CL_123 : CL [1; 2; 3].
Proof.
  split; [|split; [|split]].
  - simpl. repeat split; intros y Hy; simpl in Hy; intuition; subst; lia.
  - simpl; auto.
  - intros x Hx. simpl in Hx. intuition; subst; lia.
  - intros x Hx. simpl in Hx. destruct Hx as [<-|[<-|[<-|[]]]]; [left; reflexivity| |]; right.
    + exists 1, 1. simpl. intuition.
    + exists 1, 2. simpl. intuition.
Qed.

(* ---------- Plus and Product ---------- *)
Lemma plus_ok a x : CL a -> In x a ->
  exists c, plus a x = Ok c /\ CL c /\ last c 0 = last a 0 + x /\ (forall y, In y a -> In y c).
Proof.
  intros (Hs & H1 & Hge & Hex) Hx.
  assert (Hne : a <> []) by (destruct a; [destruct H1|discriminate]).
  exists (a ++ [last a 0 + x]). split; [unfold plus; destruct a; [congruence|reflexivity]|].
  assert (Hmax := nd_last_max a (sd_nd a Hs)). assert (Hx1 := Hge x Hx).
  split; [|split; [apply last_last|intros; apply in_or_app; auto]].
  split; [|split; [|split]].
  - apply sd_app; [assumption|apply sd_single|]. intros u v Hu [<-|[]]. specialize (Hmax u Hu). lia.
  - apply in_or_app; auto.
  - intros y Hy. apply in_app_or in Hy as [Hy|[<-|[]]]; [auto|]. specialize (Hge _ (last_in a 0 Hne)). lia.
  - intros y Hy. apply in_app_or in Hy as [Hy|[<-|[]]].
    + destruct (Hex y Hy) as [->|(u & v & Hu & Hv & E)]; [auto|]. right. exists u, v.
      repeat split; auto; apply in_or_app; auto.
    + right. exists (last a 0), x. repeat split; auto; apply in_or_app; left; [now apply last_in|assumption].
Qed.

Lemma last_map_mul la : forall (t : Z) (tb : list Z),
  last (map (fun x => la * x) (t :: tb)) 0 = la * last (t :: tb) 0.
Proof.
  intros t tb. revert t. induction tb as [|t2 tb IH]; intros t; [reflexivity|].
  change (map (fun x => la * x) (t :: t2 :: tb)) with (la * t :: map (fun x => la * x) (t2 :: tb)).
  change (map (fun x => la * x) (t2 :: tb)) with (la * t2 :: map (fun x => la * x) tb).
  rewrite !last_cons2. apply IH.
Qed.

Lemma product_ok a b : CL a -> CL b ->
  exists c, product a b = Ok c /\ CL c /\ last c 0 = last a 0 * last b 0 /\ (forall y, In y a -> In y c).
Proof.
  intros (Hsa & H1a & Hga & Hxa) (Hsb & H1b & Hgb & Hxb).
  assert (Hnea : a <> []) by (destruct a; [destruct H1a|discriminate]).
  set (la := last a 0). assert (Hla : 1 <= la) by (apply Hga, last_in; assumption).
  assert (Hmaxa := nd_last_max a (sd_nd a Hsa)). fold la in Hmaxa.
  destruct b as [|b0 tb]; [destruct H1b|]. destruct Hsb as [Hb0 Hstb].
  assert (Eb0 : b0 = 1).
  { destruct H1b as [E|Hin]; [assumption|]. specialize (Hb0 1 Hin). specialize (Hgb b0 (or_introl eq_refl)). lia. }
  subst b0.
  exists (a ++ map (fun x => la * x) tb).
  split; [unfold product; destruct a; [congruence|reflexivity]|].
  assert (Hin_tb : forall z, In z (map (fun x => la * x) tb) <-> exists x, In x tb /\ z = la * x).
  { intros z. rewrite in_map_iff. split; intros (x & A & B); exists x; auto. }
  assert (Hsd_map : sd (map (fun x => la * x) tb)).
  { clear -Hstb Hla. induction tb as [|x tb IH]; [exact I|]. destruct Hstb as [H1 H2].
    change (map (fun x0 => la * x0) (x :: tb)) with (la * x :: map (fun x0 => la * x0) tb).
    split; [|now apply IH].
    intros y Hy. apply in_map_iff in Hy as (z & <- & Hz). specialize (H1 z Hz). nia. }
  assert (Hall : forall z, In z (a ++ map (fun x => la * x) tb) <-> In z a \/ exists x, In x tb /\ z = la * x).
  { intros z. rewrite in_app_iff, Hin_tb. tauto. }
  split; [|split].
  - split; [|split; [|split]].
    + apply sd_app; auto. intros u v Hu Hv. apply Hin_tb in Hv as (x & Hx & ->).
      specialize (Hb0 x Hx). specialize (Hmaxa u Hu). nia.
    + apply in_or_app; auto.
    + intros z Hz. apply Hall in Hz as [Hz|(x & Hx & ->)]; [auto|]. specialize (Hb0 x Hx). nia.
    + intros z Hz. apply Hall in Hz as [Hz|(x & Hx & ->)].
      * destruct (Hxa z Hz) as [->|(u & v & Hu & Hv & E)]; [auto|]. right. exists u, v.
        repeat split; auto; apply Hall; auto.
      * right. destruct (Hxb x (or_intror Hx)) as [->|(u & v & Hu & Hv & E)]; [specialize (Hb0 1 Hx); lia|].
        assert (Hlift : forall w, In w (1 :: tb) -> In (la * w) (a ++ map (fun x => la * x) tb)).
        { intros w [<-|Hw]; apply Hall; [left; rewrite Z.mul_1_r; now apply last_in|right; eauto]. }
        exists (la * u), (la * v). repeat split; auto. nia.
  - destruct tb as [|t1 tb'].
    + cbn [map]. rewrite app_nil_r. fold la. cbn [last]. lia.
    + rewrite last_app_ne by discriminate. rewrite last_map_mul. rewrite last_cons2. reflexivity.
  - intros y Hy. apply in_or_app; auto.
Qed.

(* ---------- powers of two: IsPow2 and Pow2UpTo ---------- *)
Lemma shiftl1 p : 0 <= p -> Z.shiftl p 1 = 2 * p.
Proof. intros. rewrite Z.shiftl_mul_pow2 by lia. lia. Qed.

Lemma pow2_upto_loop_spec e : forall f j, (j <= e)%nat -> (e - j < f)%nat ->
  pow2_upto_loop f (2 ^ Z.of_nat j) (2 ^ Z.of_nat e) = map (fun i => 2 ^ Z.of_nat i) (seq j (S (e - j))).
Proof.
  induction f as [|f IH]; intros j Hj Hf; [lia|]. cbn [pow2_upto_loop].
  replace (2 ^ Z.of_nat j <=? 2 ^ Z.of_nat e) with true by (symmetry; apply Z.leb_le, Z.pow_le_mono_r; lia).
  assert (Hsh : Z.shiftl (2 ^ Z.of_nat j) 1 = 2 ^ Z.of_nat (S j)).
  { rewrite shiftl1 by (apply Z.pow_nonneg; lia). rewrite Nat2Z.inj_succ, Z.pow_succ_r by lia. reflexivity. }
  rewrite Hsh.
  destruct (Nat.eq_dec j e) as [->|Hne].
  - rewrite Nat.sub_diag. cbn [seq map]. f_equal. destruct f; [reflexivity|]. cbn [pow2_upto_loop].
    replace (2 ^ Z.of_nat (S e) <=? 2 ^ Z.of_nat e) with false; [reflexivity|].
    symmetry. apply Z.leb_gt. apply Z.pow_lt_mono_r; lia.
  - replace (S (e - j)) with (S (S (e - S j))) by lia. cbn [seq map]. f_equal.
    rewrite IH by lia. reflexivity.
Qed.

Definition pows (e : nat) : list Z := map (fun i => 2 ^ Z.of_nat i) (seq 0 (S e)).

Lemma pows_CL e : CL (pows e) /\ last (pows e) 0 = 2 ^ Z.of_nat e.
Proof.
  unfold pows.
  assert (Hin : forall z, In z (map (fun i => 2 ^ Z.of_nat i) (seq 0 (S e))) <-> exists i, (i <= e)%nat /\ z = 2 ^ Z.of_nat i).
  { intros z. rewrite in_map_iff. split.
    - intros (i & <- & Hi). apply in_seq in Hi. exists i. split; [lia|reflexivity].
    - intros (i & Hi & ->). exists i. split; [reflexivity|apply in_seq; lia]. }
  split; [split; [|split; [|split]]|].
  - assert (G : forall n s, sd (map (fun i => 2 ^ Z.of_nat i) (seq s n))).
    { induction n as [|n IH]; intros s; [exact I|]. cbn [seq map]. split; [|apply IH].
      intros y Hy. apply in_map_iff in Hy as (i & <- & Hi). apply in_seq in Hi. apply Z.pow_lt_mono_r; lia. }
    apply G.
  - apply Hin. exists 0%nat. split; [lia|reflexivity].
  - intros x Hx. apply Hin in Hx as (i & _ & ->). assert (0 < 2 ^ Z.of_nat i) by (apply Z.pow_pos_nonneg; lia). lia.
  - intros x Hx. apply Hin in Hx as (i & Hi & ->). destruct i as [|i]; [left; reflexivity|right].
    exists (2 ^ Z.of_nat i), (2 ^ Z.of_nat i). repeat split; try (apply Hin; exists i; split; [lia|reflexivity]).
    rewrite Nat2Z.inj_succ, Z.pow_succ_r by lia. lia.
  - rewrite seq_S, map_app. cbn [map]. rewrite Nat.add_0_l. apply last_last.
Qed.

(* bit length *)
Lemma bitlen_pos x : 0 < x -> 2 ^ (Z.of_N (bitlen x) - 1) <= x < 2 ^ Z.of_N (bitlen x).
Proof.
  intros Hx. unfold bitlen. destruct x as [|p|p]; try lia.
  change (Z.abs_N (Z.pos p)) with (N.pos p).
  rewrite N.size_log2 by discriminate. rewrite N2Z.inj_succ.
  replace (Z.succ (Z.of_N (N.log2 (N.pos p))) - 1) with (Z.of_N (N.log2 (N.pos p))) by lia.
  pose proof (N.log2_spec (N.pos p) ltac:(lia)) as [H1 H2].
  apply N2Z.inj_le in H1. apply N2Z.inj_lt in H2.
  rewrite N2Z.inj_pow in H1, H2. rewrite N2Z.inj_succ in H2.
  change (Z.of_N 2) with 2 in *. change (Z.of_N (N.pos p)) with (Z.pos p) in *. split; assumption.
Qed.

Lemma bitlen_ge1 x : 0 < x -> (1 <= bitlen x)%N.
Proof.
  intros Hx. unfold bitlen. destruct x as [|p|p]; try lia.
  change (Z.abs_N (Z.pos p)) with (N.pos p). rewrite N.size_log2 by discriminate. lia.
Qed.

Lemma is_pow2_spec n : 0 < n -> is_pow2 n = true -> exists e : nat, n = 2 ^ Z.of_nat e /\ N.to_nat (bitlen n) = S e.
Proof.
  intros Hn H. unfold is_pow2 in H. pose proof (bitlen_ge1 n Hn) as Hb.
  destruct (bitlen n =? 0)%N eqn:E0; [discriminate|]. apply Z.eqb_eq in H.
  unfold pow2 in H. rewrite Z.shiftl_1_l in H.
  exists (N.to_nat (bitlen n - 1)). split; [|lia].
  rewrite N_nat_Z. exact H.
Qed.

Lemma pow2_upto_pow e : pow2_upto (2 ^ Z.of_nat e) = pows e.
Proof.
  unfold pow2_upto, pows.
  pose proof (pow2_upto_loop_spec e (S (N.to_nat (bitlen (2 ^ Z.of_nat e)))) 0) as H.
  rewrite Nat.sub_0_r in H. change (2 ^ Z.of_nat 0) with 1 in H. apply H; [lia|].
  assert (Hp : 0 < 2 ^ Z.of_nat e) by (apply Z.pow_pos_nonneg; lia).
  pose proof (bitlen_pos _ Hp) as [_ Hlt].
  apply Z.pow_lt_mono_r_iff in Hlt; lia.
Qed.

(* Sort only re-orders *)
From Coq Require Import Permutation.
Lemma insert_sorted_perm x l : Permutation (insert_sorted x l) (x :: l).
Proof.
  induction l as [|y r IH]; [apply Permutation_refl|]. cbn [insert_sorted].
  destruct (x <=? y); [apply Permutation_refl|].
  eapply perm_trans; [apply perm_skip; exact IH|apply perm_swap].
Qed.
Lemma sort_perm l : Permutation (sort l) l.
Proof.
  unfold sort. induction l as [|x l IH]; [apply perm_nil|]. cbn [fold_right].
  eapply perm_trans; [apply insert_sorted_perm|apply perm_skip; exact IH].
Qed.
