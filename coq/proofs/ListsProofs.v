(* Proofs about model/Lists.v (C19): sort, index, contains, bisection, unique, merge, insert,
   vectors.  The predicates [sorted] / [sorted_distinct] and the sort / unique / merge lemmas
   are stated for re-use (C08, C01 import them). *)
From Coq Require Import String.
From Coq Require Import List NArith ZArith Bool Arith Lia Sorted Permutation.
From AV Require Import model.Proto model.Lists.
Import ListNotations.
Open Scope Z_scope.

(* ------------------------------------------------------------------------------------ *)
(* sorted (ascending, duplicates allowed) and sorted distinct (strictly ascending) lists  *)
(* ------------------------------------------------------------------------------------ *)

Fixpoint sorted (l : list Z) : Prop :=
  match l with [] => True | x :: t => (forall y, In y t -> x <= y) /\ sorted t end.

Fixpoint sorted_distinct (l : list Z) : Prop :=
  match l with [] => True | x :: t => (forall y, In y t -> x < y) /\ sorted_distinct t end.

Lemma sorted_StronglySorted l : sorted l <-> StronglySorted Z.le l.
Proof.
  induction l as [|x l IH]; cbn [sorted].
  - split; [constructor|trivial].
  - split.
    + intros [H1 H2]. constructor; [apply IH; exact H2|apply Forall_forall; exact H1].
    + intros H. apply StronglySorted_inv in H as [H1 H2]. split; [|apply IH; exact H1].
      apply Forall_forall. exact H2.
Qed.

Lemma sorted_distinct_StronglySorted l : sorted_distinct l <-> StronglySorted Z.lt l.
Proof.
  induction l as [|x l IH]; cbn [sorted_distinct].
  - split; [constructor|trivial].
  - split.
    + intros [H1 H2]. constructor; [apply IH; exact H2|apply Forall_forall; exact H1].
    + intros H. apply StronglySorted_inv in H as [H1 H2]. split; [|apply IH; exact H1].
      apply Forall_forall. exact H2.
Qed.

Lemma sorted_distinct_sorted l : sorted_distinct l -> sorted l.
Proof.
  induction l as [|x l IH]; cbn [sorted sorted_distinct]; [trivial|].
  intros [H1 H2]. split; [|apply IH; exact H2]. intros y Hy. specialize (H1 y Hy). lia.
Qed.

Lemma sorted_distinct_NoDup l : sorted_distinct l -> NoDup l.
Proof.
  induction l as [|x l IH]; cbn [sorted_distinct]; [constructor|].
  intros [H1 H2]. constructor; [|apply IH; exact H2]. intros Hx. specialize (H1 x Hx). lia.
Qed.

Lemma sorted_distinct_iff l : sorted_distinct l <-> sorted l /\ NoDup l.
Proof.
  split; [intros H; split; [apply sorted_distinct_sorted|apply sorted_distinct_NoDup]; exact H|].
  induction l as [|x l IH]; cbn [sorted sorted_distinct]; [trivial|].
  intros [[H1 H2] H3]. apply NoDup_cons_iff in H3 as [H3 H4]. split; [|apply IH; split; assumption].
  intros y Hy. specialize (H1 y Hy). assert (x <> y) by (intros ->; contradiction). lia.
Qed.

Lemma sorted_tail x l : sorted (x :: l) -> sorted l.
Proof. cbn [sorted]. tauto. Qed.

Lemma sorted_distinct_tail x l : sorted_distinct (x :: l) -> sorted_distinct l.
Proof. cbn [sorted_distinct]. tauto. Qed.

Lemma sorted_app l : forall r, sorted (l ++ r) <-> sorted l /\ sorted r /\ forall a b, In a l -> In b r -> a <= b.
Proof.
  induction l as [|x l IH]; intros r; cbn [app sorted].
  - split; [intros H; repeat split; [exact H|intros a b []]|tauto].
  - rewrite IH. split.
    + intros [H1 [H2 [H3 H4]]]. repeat split; try assumption.
      * intros y Hy. apply H1, in_or_app. now left.
      * intros a b [<-|Ha] Hb; [apply H1, in_or_app; now right|now apply H4].
    + intros [[H1 H2] [H3 H4]]. repeat split; try assumption.
      * intros y Hy. apply in_app_or in Hy as [Hy|Hy]; [now apply H1|apply H4; [now left|exact Hy]].
      * intros a b Ha Hb. apply H4; [now right|exact Hb].
Qed.

Lemma sorted_distinct_app l : forall r,
  sorted_distinct (l ++ r) <-> sorted_distinct l /\ sorted_distinct r /\ forall a b, In a l -> In b r -> a < b.
Proof.
  induction l as [|x l IH]; intros r; cbn [app sorted_distinct].
  - split; [intros H; repeat split; [exact H|intros a b []]|tauto].
  - rewrite IH. split.
    + intros [H1 [H2 [H3 H4]]]. repeat split; try assumption.
      * intros y Hy. apply H1, in_or_app. now left.
      * intros a b [<-|Ha] Hb; [apply H1, in_or_app; now right|now apply H4].
    + intros [[H1 H2] [H3 H4]]. repeat split; try assumption.
      * intros y Hy. apply in_app_or in Hy as [Hy|Hy]; [now apply H1|apply H4; [now left|exact Hy]].
      * intros a b Ha Hb. apply H4; [now right|exact Hb].
Qed.

(* positions of a sorted list are ordered *)
Lemma sorted_nth l : sorted l -> forall a b x y, (a <= b)%nat ->
  nth_error l a = Some x -> nth_error l b = Some y -> x <= y.
Proof.
  induction l as [|z l IH]; intros Hs a b x y Hab Ha Hb.
  - destruct a; discriminate.
  - destruct Hs as [H1 H2]. destruct a as [|a]; destruct b as [|b]; cbn [nth_error] in Ha, Hb.
    + injection Ha as <-. injection Hb as <-. lia.
    + injection Ha as <-. apply H1. eapply nth_error_In; exact Hb.
    + lia.
    + apply (IH H2 a b); [lia|assumption|assumption].
Qed.

Lemma sorted_distinct_nth l : sorted_distinct l -> forall a b x y, (a < b)%nat ->
  nth_error l a = Some x -> nth_error l b = Some y -> x < y.
Proof.
  induction l as [|z l IH]; intros Hs a b x y Hab Ha Hb.
  - destruct a; discriminate.
  - destruct Hs as [H1 H2]. destruct a as [|a]; destruct b as [|b]; cbn [nth_error] in Ha, Hb.
    + lia.
    + injection Ha as <-. apply H1. eapply nth_error_In; exact Hb.
    + lia.
    + apply (IH H2 a b); [lia|assumption|assumption].
Qed.

(* a sorted list is determined by its multiset of elements *)
Lemma sorted_perm_eq a : forall b, sorted a -> sorted b -> Permutation a b -> a = b.
Proof.
  induction a as [|x a IH]; intros b Ha Hb P.
  - apply Permutation_nil in P. now subst.
  - destruct b as [|y b]; [apply Permutation_sym, Permutation_nil in P; discriminate|].
    destruct Ha as [Ha1 Ha2]. destruct Hb as [Hb1 Hb2].
    assert (x = y) as <-.
    { assert (Hx : In x (y :: b)) by (eapply Permutation_in; [exact P|now left]).
      assert (Hy : In y (x :: a)) by (eapply Permutation_in; [apply Permutation_sym; exact P|now left]).
      destruct Hx as [->|Hx]; [reflexivity|]. destruct Hy as [->|Hy]; [reflexivity|].
      specialize (Ha1 y Hy). specialize (Hb1 x Hx). lia. }
    f_equal. apply IH; try assumption. eapply Permutation_cons_inv; exact P.
Qed.

(* a sorted distinct list is determined by its set of elements *)
Lemma sorted_distinct_ext a : forall b, sorted_distinct a -> sorted_distinct b ->
  (forall z, In z a <-> In z b) -> a = b.
Proof.
  induction a as [|x a IH]; intros b Ha Hb E.
  - destruct b as [|y b]; [reflexivity|]. exfalso. apply (E y). now left.
  - destruct b as [|y b]; [exfalso; apply (E x); now left|].
    destruct Ha as [Ha1 Ha2]. destruct Hb as [Hb1 Hb2].
    assert (x = y) as <-.
    { assert (Hx : In x (y :: b)) by (apply E; now left).
      assert (Hy : In y (x :: a)) by (apply E; now left).
      destruct Hx as [->|Hx]; [reflexivity|]. destruct Hy as [->|Hy]; [reflexivity|].
      specialize (Ha1 y Hy). specialize (Hb1 x Hx). lia. }
    f_equal. apply IH; try assumption. intros z. split; intros Hz.
    + assert (H : In z (x :: b)) by (apply E; now right). destruct H as [<-|H]; [|exact H].
      specialize (Ha1 x Hz). lia.
    + assert (H : In z (x :: a)) by (apply E; now right). destruct H as [<-|H]; [|exact H].
      specialize (Hb1 x Hz). lia.
Qed.

(* ------------------------------------------------------------------------------------ *)
(* Sort                                                                                   *)
(* ------------------------------------------------------------------------------------ *)

Lemma insert_sorted_perm x l : Permutation (x :: l) (insert_sorted x l).
Proof.
  induction l as [|y l IH]; cbn [insert_sorted]; [apply Permutation_refl|].
  destruct (x <=? y); [apply Permutation_refl|].
  eapply Permutation_trans; [apply perm_swap|]. apply perm_skip. exact IH.
Qed.

Lemma insert_sorted_In x l z : In z (insert_sorted x l) <-> z = x \/ In z l.
Proof.
  split; intros H.
  - apply (Permutation_in _ (Permutation_sym (insert_sorted_perm x l))) in H.
    destruct H as [<-|H]; auto.
  - apply (Permutation_in _ (insert_sorted_perm x l)). destruct H as [->|H]; [now left|now right].
Qed.

Lemma insert_sorted_sorted x l : sorted l -> sorted (insert_sorted x l).
Proof.
  induction l as [|y l IH]; intros Hs; cbn [insert_sorted].
  - split; [intros ? []|exact I].
  - destruct Hs as [H1 H2]. destruct (Z.leb_spec x y) as [Hxy|Hxy].
    + split; [|split; assumption]. intros z [<-|Hz]; [exact Hxy|]. specialize (H1 z Hz). lia.
    + split; [|apply IH; exact H2]. intros z Hz. apply insert_sorted_In in Hz as [->|Hz]; [lia|now apply H1].
Qed.

Lemma sort_perm l : Permutation l (sort l).
Proof.
  induction l as [|x l IH]; [apply Permutation_refl|].
  change (sort (x :: l)) with (insert_sorted x (sort l)).
  eapply Permutation_trans; [apply perm_skip; exact IH|apply insert_sorted_perm].
Qed.

Lemma sort_sorted l : sorted (sort l).
Proof.
  induction l as [|x l IH]; [exact I|].
  change (sort (x :: l)) with (insert_sorted x (sort l)). apply insert_sorted_sorted. exact IH.
Qed.

Lemma sort_In l z : In z (sort l) <-> In z l.
Proof.
  split; intros H; [apply (Permutation_in _ (Permutation_sym (sort_perm l)))|apply (Permutation_in _ (sort_perm l))]; exact H.
Qed.

Lemma sort_length l : length (sort l) = length l.
Proof. symmetry. apply Permutation_length, sort_perm. Qed.

Lemma sort_spec l : StronglySorted Z.le (sort l) /\ Permutation l (sort l).
Proof. split; [apply sorted_StronglySorted, sort_sorted|apply sort_perm]. Qed.

(* the result of any correct sort (whatever it does with ties) is this list *)
Lemma sort_unique l l' : Permutation l l' -> StronglySorted Z.le l' -> l' = sort l.
Proof.
  intros P S. apply sorted_perm_eq; [apply sorted_StronglySorted; exact S|apply sort_sorted|].
  eapply Permutation_trans; [apply Permutation_sym; exact P|apply sort_perm].
Qed.

Lemma sort_sorted_id l : sorted l -> sort l = l.
Proof.
  intros H. symmetry. apply sort_unique; [apply Permutation_refl|apply sorted_StronglySorted; exact H].
Qed.

(* ------------------------------------------------------------------------------------ *)
(* Index, Contains                                                                        *)
(* ------------------------------------------------------------------------------------ *)

Lemma index_from_spec n xs : forall i, 0 <= i ->
  (index_from i n xs = -1 /\ ~ In n xs) \/
  (exists k : nat, index_from i n xs = i + Z.of_nat k /\ nth_error xs k = Some n /\
                   forall j, (j < k)%nat -> nth_error xs j <> Some n).
Proof.
  induction xs as [|x xs IH]; intros i Hi; cbn [index_from].
  - left. split; [reflexivity|intros []].
  - destruct (Z.eqb_spec n x) as [->|Hne].
    + right. exists 0%nat. split; [lia|]. split; [reflexivity|]. intros j Hj. lia.
    + destruct (IH (i + 1) ltac:(lia)) as [[H1 H2]|[k [H1 [H2 H3]]]].
      * left. split; [exact H1|]. intros [E|E]; [congruence|contradiction].
      * right. exists (S k). split; [lia|]. split; [exact H2|].
        intros [|j] Hj; cbn [nth_error]; [congruence|apply H3; lia].
Qed.

Lemma index_spec n xs :
  (index n xs = -1 /\ ~ In n xs) \/
  (exists k : nat, index n xs = Z.of_nat k /\ nth_error xs k = Some n /\
                   forall j, (j < k)%nat -> nth_error xs j <> Some n).
Proof.
  unfold index. destruct (index_from_spec n xs 0 ltac:(lia)) as [H|[k [H1 H2]]]; [left; exact H|].
  right. exists k. split; [lia|exact H2].
Qed.

Lemma index_range n xs : -1 <= index n xs < Z.of_nat (length xs).
Proof.
  destruct (index_spec n xs) as [[H _]|[k [H1 [H2 _]]]]; [lia|].
  assert (k < length xs)%nat by (apply nth_error_Some; congruence). lia.
Qed.

Lemma contains_iff n xs : contains n xs = true <-> In n xs.
Proof.
  unfold contains. destruct (index_spec n xs) as [[H1 H2]|[k [H1 [H2 _]]]]; rewrite H1.
  - split; [discriminate|contradiction].
  - split; [intros _; eapply nth_error_In; exact H2|intros _; apply Z.leb_le; lia].
Qed.

(* ------------------------------------------------------------------------------------ *)
(* sort.Search bisection and ContainsSorted                                               *)
(* ------------------------------------------------------------------------------------ *)

Lemma div2_mid i j : (i < j)%nat -> (i <= Nat.div2 (i + j) < j)%nat.
Proof.
  intros H. pose proof (Nat.div2_odd (i + j)) as E.
  destruct (Nat.odd (i + j)); cbn [Nat.b2n] in E; lia.
Qed.

(* For a monotone predicate that holds at j and fails below i, the loop returns the least
   index in [i, j] where it holds; fuel j - i + 1 is enough. *)
Lemma search_loop_spec (f : nat -> bool) :
  (forall a b, (a <= b)%nat -> f a = true -> f b = true) ->
  forall fuel i j, (j - i < fuel)%nat -> (i <= j)%nat ->
    (forall k, (k < i)%nat -> f k = false) -> f j = true ->
    let r := search_loop fuel f i j in
    (i <= r <= j)%nat /\ (forall k, (k < r)%nat -> f k = false) /\ f r = true.
Proof.
  intros Hmono. induction fuel as [|fu IH]; intros i j Hf Hij Hlo Hhi; [lia|].
  cbn [search_loop]. destruct (Nat.ltb_spec i j) as [Hlt|Hge].
  - pose proof (div2_mid i j Hlt) as Hmid. set (h := Nat.div2 (i + j)) in *.
    cbv zeta. destruct (f h) eqn:Efh.
    + destruct (IH i h ltac:(lia) ltac:(lia) Hlo Efh) as [H1 [H2 H3]].
      cbv zeta in H1, H2, H3. split; [lia|]. split; assumption.
    + assert (Hlo' : forall k, (k < S h)%nat -> f k = false).
      { intros k Hk. destruct (f k) eqn:Efk; [|reflexivity].
        rewrite (Hmono k h ltac:(lia) Efk) in Efh. discriminate. }
      destruct (IH (S h) j ltac:(lia) ltac:(lia) Hlo' Hhi) as [H1 [H2 H3]].
      cbv zeta in H1, H2, H3. split; [lia|]. split; assumption.
  - cbv zeta. assert (i = j) as -> by lia. split; [lia|]. split; assumption.
Qed.

Definition ge_pred (n : Z) (xs : list Z) (h : nat) : bool :=
  match nth_error xs h with Some x => n <=? x | None => true end.

Lemma ge_pred_mono n xs : sorted xs ->
  forall a b, (a <= b)%nat -> ge_pred n xs a = true -> ge_pred n xs b = true.
Proof.
  intros Hs a b Hab. unfold ge_pred. destruct (nth_error xs b) as [y|] eqn:Eb; [|reflexivity].
  destruct (nth_error xs a) as [x|] eqn:Ea.
  - intros H. apply Z.leb_le in H. apply Z.leb_le. pose proof (sorted_nth xs Hs a b x y Hab Ea Eb). lia.
  - apply nth_error_None in Ea. assert (b < length xs)%nat by (apply nth_error_Some; congruence). lia.
Qed.

(* index returned by the bisection in ContainsSorted: the number of elements < n *)
Definition search_pos (n : Z) (xs : list Z) : nat :=
  search_loop (S (length xs)) (ge_pred n xs) 0 (length xs).

Lemma search_pos_spec n xs : sorted xs ->
  let r := search_pos n xs in
  (r <= length xs)%nat /\
  (forall k x, (k < r)%nat -> nth_error xs k = Some x -> x < n) /\
  (forall k x, (r <= k)%nat -> nth_error xs k = Some x -> n <= x).
Proof.
  intros Hs. unfold search_pos.
  assert (Hend : ge_pred n xs (length xs) = true).
  { unfold ge_pred. replace (nth_error xs (length xs)) with (@None Z); [reflexivity|].
    symmetry. apply nth_error_None. lia. }
  destruct (search_loop_spec (ge_pred n xs) (ge_pred_mono n xs Hs) (S (length xs)) 0 (length xs)
              ltac:(lia) ltac:(lia) ltac:(intros; lia) Hend) as [H1 [H2 H3]].
  cbv zeta in *. split; [lia|]. split.
  - intros k x Hk Ek. specialize (H2 k Hk). unfold ge_pred in H2. rewrite Ek in H2.
    apply Z.leb_gt in H2. exact H2.
  - intros k x Hk Ek. pose proof (ge_pred_mono n xs Hs _ k Hk H3) as H. unfold ge_pred in H.
    rewrite Ek in H. apply Z.leb_le. exact H.
Qed.

Lemma contains_sorted_iff n xs : sorted xs -> (contains_sorted n xs = true <-> In n xs).
Proof.
  intros Hs. unfold contains_sorted. cbv zeta.
  change (search_loop (S (length xs)) (fun h => match nth_error xs h with Some x => n <=? x | None => true end) 0 (length xs))
    with (search_pos n xs).
  destruct (search_pos_spec n xs Hs) as [H1 [H2 H3]]. cbv zeta in *.
  set (r := search_pos n xs) in *. split.
  - destruct (nth_error xs r) as [x|] eqn:Er; [|discriminate]. intros H. apply Z.eqb_eq in H. subst x.
    eapply nth_error_In; exact Er.
  - intros Hin. apply In_nth_error in Hin as [p Hp].
    assert (Hrp : (r <= p)%nat).
    { destruct (le_lt_dec r p) as [L|L]; [exact L|]. specialize (H2 p n L Hp). lia. }
    assert (Hpl : (p < length xs)%nat) by (apply nth_error_Some; congruence).
    destruct (nth_error xs r) as [x|] eqn:Er.
    + apply Z.eqb_eq. pose proof (H3 r x (le_n r) Er). pose proof (sorted_nth xs Hs r p x n Hrp Er Hp). lia.
    + apply nth_error_None in Er. lia.
Qed.

(* ------------------------------------------------------------------------------------ *)
(* Unique: consecutive de-duplication                                                     *)
(* ------------------------------------------------------------------------------------ *)

Fixpoint no_adjacent_dup (l : list Z) : Prop :=
  match l with
  | x :: ((y :: _) as t) => x <> y /\ no_adjacent_dup t
  | _ => True
  end.

(* the mathematical definition: the first element, then every element that differs from its
   immediate predecessor in the input *)
Definition dedup_adjacent (xs : list Z) : list Z :=
  match xs with
  | [] => []
  | x :: r => x :: map snd (filter (fun p => negb (snd p =? fst p)) (combine xs r))
  end.

Lemma unique_from_dedup r : forall x,
  unique_from x r = map snd (filter (fun p => negb (snd p =? fst p)) (combine (x :: r) r)).
Proof.
  induction r as [|y r IH]; intros x; [reflexivity|].
  cbn [unique_from combine filter fst snd]. destruct (Z.eqb_spec y x) as [->|Hne]; cbn [negb map snd].
  - apply IH.
  - f_equal. apply IH.
Qed.

Lemma unique_dedup_adjacent xs : unique xs = dedup_adjacent xs.
Proof. destruct xs as [|x r]; [reflexivity|]. cbn [unique dedup_adjacent]. f_equal. apply unique_from_dedup. Qed.

Lemma unique_from_In_1 xs : forall last z, In z (unique_from last xs) -> In z xs.
Proof.
  induction xs as [|x xs IH]; intros last z; cbn [unique_from]; [tauto|].
  destruct (x =? last).
  - intros H. right. eapply IH; exact H.
  - intros [<-|H]; [now left|right; eapply IH; exact H].
Qed.

Lemma unique_from_In_2 xs : forall last z, In z xs -> z = last \/ In z (unique_from last xs).
Proof.
  induction xs as [|x xs IH]; intros last z; cbn [unique_from]; [intros []|].
  destruct (Z.eqb_spec x last) as [->|Hne].
  - intros [<-|H]; [now left|apply IH; exact H].
  - intros [<-|H]; [right; now left|]. destruct (IH x z H) as [->|H']; right; [now left|now right].
Qed.

Lemma unique_In xs z : In z (unique xs) <-> In z xs.
Proof.
  destruct xs as [|x xs]; [tauto|]. cbn [unique]. split.
  - intros [<-|H]; [now left|right; eapply unique_from_In_1; exact H].
  - intros [<-|H]; [now left|]. destruct (unique_from_In_2 xs x z H) as [->|H']; [now left|now right].
Qed.

Lemma unique_from_no_adjacent_dup xs : forall last, no_adjacent_dup (last :: unique_from last xs).
Proof.
  induction xs as [|x xs IH]; intros last; cbn [unique_from]; [exact I|].
  destruct (Z.eqb_spec x last) as [->|Hne]; [apply IH|].
  change (last <> x /\ no_adjacent_dup (x :: unique_from x xs)). split; [congruence|apply IH].
Qed.

Lemma unique_no_adjacent_dup xs : no_adjacent_dup (unique xs).
Proof. destruct xs as [|x xs]; [exact I|]. apply unique_from_no_adjacent_dup. Qed.

Lemma no_adjacent_dup_nth l : no_adjacent_dup l ->
  forall i a b, nth_error l i = Some a -> nth_error l (S i) = Some b -> a <> b.
Proof.
  induction l as [|x l IH]; intros H i a b Ha Hb; [destruct i; discriminate|].
  destruct l as [|y l]; [destruct i; discriminate|]. destruct H as [H1 H2].
  destruct i as [|i]; cbn [nth_error] in Ha, Hb.
  - injection Ha as <-. injection Hb as <-. exact H1.
  - apply (IH H2 i a b); assumption.
Qed.

Lemma unique_from_fixed xs : forall last, no_adjacent_dup (last :: xs) -> unique_from last xs = xs.
Proof.
  induction xs as [|x xs IH]; intros last H; [reflexivity|].
  destruct H as [H1 H2]. cbn [unique_from]. destruct (Z.eqb_spec x last) as [->|Hne]; [congruence|].
  f_equal. apply IH. exact H2.
Qed.

Lemma unique_fixed xs : no_adjacent_dup xs -> unique xs = xs.
Proof. destruct xs as [|x xs]; [reflexivity|]. intros H. cbn [unique]. f_equal. apply unique_from_fixed. exact H. Qed.

Lemma unique_idempotent xs : unique (unique xs) = unique xs.
Proof. apply unique_fixed, unique_no_adjacent_dup. Qed.

Lemma sorted_distinct_no_adjacent_dup l : sorted_distinct l -> no_adjacent_dup l.
Proof.
  induction l as [|x l IH]; [trivial|]. intros [H1 H2]. destruct l as [|y l]; [exact I|].
  split; [|apply IH; exact H2]. specialize (H1 y (or_introl eq_refl)). lia.
Qed.

Lemma unique_sorted_distinct_id xs : sorted_distinct xs -> unique xs = xs.
Proof. intros H. apply unique_fixed, sorted_distinct_no_adjacent_dup, H. Qed.

Lemma unique_from_sorted xs : forall last, sorted (last :: xs) -> sorted_distinct (last :: unique_from last xs).
Proof.
  induction xs as [|x xs IH]; intros last Hs; cbn [unique_from].
  - split; [intros ? []|exact I].
  - destruct Hs as [H1 [H2 H3]]. destruct (Z.eqb_spec x last) as [->|Hne].
    + apply IH. split; assumption.
    + assert (Hlt : last < x) by (specialize (H1 x (or_introl eq_refl)); lia).
      assert (IHx : sorted_distinct (x :: unique_from x xs)) by (apply IH; split; assumption).
      split; [|exact IHx]. intros y [<-|Hy]; [exact Hlt|]. destruct IHx as [Hx _]. specialize (Hx y Hy). lia.
Qed.

Lemma unique_sorted xs : sorted xs -> sorted_distinct (unique xs).
Proof. destruct xs as [|x xs]; [trivial|]. apply unique_from_sorted. Qed.

(* Unique after Sort: the sorted list of distinct elements, same element set *)
Lemma unique_sort_spec xs :
  sorted_distinct (unique (sort xs)) /\ forall z, In z (unique (sort xs)) <-> In z xs.
Proof.
  split; [apply unique_sorted, sort_sorted|]. intros z. rewrite unique_In. apply sort_In.
Qed.

(* ------------------------------------------------------------------------------------ *)
(* MergeUnique, InsertSortedUnique                                                        *)
(* ------------------------------------------------------------------------------------ *)

Lemma merge_unique_nil_l ys : merge_unique [] ys = ys.
Proof. destruct ys; reflexivity. Qed.

Lemma merge_unique_nil_r xs : merge_unique xs [] = xs.
Proof. destruct xs; reflexivity. Qed.

Lemma merge_unique_cons x xs y ys :
  merge_unique (x :: xs) (y :: ys) =
  match x ?= y with
  | Lt => x :: merge_unique xs (y :: ys)
  | Eq => x :: merge_unique xs ys
  | Gt => y :: merge_unique (x :: xs) ys
  end.
Proof. reflexivity. Qed.

Lemma merge_unique_In xs : forall ys z, In z (merge_unique xs ys) <-> In z xs \/ In z ys.
Proof.
  induction xs as [|x xs IHx]; intros ys z; [rewrite merge_unique_nil_l; cbn [In]; tauto|].
  induction ys as [|y ys IHy]; [rewrite merge_unique_nil_r; cbn [In]; tauto|].
  rewrite merge_unique_cons. destruct (x ?= y) eqn:E.
  - apply Z.compare_eq in E. subst y. cbn [In]. rewrite IHx. tauto.
  - cbn [In]. rewrite IHx. cbn [In]. tauto.
  - cbn [In]. rewrite IHy. cbn [In]. tauto.
Qed.

Lemma merge_unique_sorted_distinct xs : forall ys,
  sorted_distinct xs -> sorted_distinct ys -> sorted_distinct (merge_unique xs ys).
Proof.
  induction xs as [|x xs IHx]; intros ys Hx Hy; [rewrite merge_unique_nil_l; exact Hy|].
  induction ys as [|y ys IHy]; [rewrite merge_unique_nil_r; exact Hx|].
  destruct Hx as [Hx1 Hx2]. destruct Hy as [Hy1 Hy2].
  rewrite merge_unique_cons. destruct (x ?= y) eqn:E.
  - apply Z.compare_eq in E. subst y. split; [|apply IHx; assumption].
    intros z Hz. apply merge_unique_In in Hz as [Hz|Hz]; auto.
  - assert (Elt : x < y) by exact E. split; [|apply IHx; [assumption|split; assumption]].
    intros z Hz. apply merge_unique_In in Hz as [Hz|[Hz|Hz]].
    + now apply Hx1.
    + subst z. exact Elt.
    + specialize (Hy1 z Hz). lia.
  - assert (Egt : y < x) by (apply Z.compare_gt_iff; exact E).
    split; [|apply IHy; assumption].
    intros z Hz. apply merge_unique_In in Hz as [[Hz|Hz]|Hz].
    + subst z. exact Egt.
    + specialize (Hx1 z Hz). lia.
    + now apply Hy1.
Qed.

Lemma merge_unique_spec xs ys : sorted_distinct xs -> sorted_distinct ys ->
  sorted_distinct (merge_unique xs ys) /\ forall z, In z (merge_unique xs ys) <-> In z xs \/ In z ys.
Proof.
  intros Hx Hy. split; [apply merge_unique_sorted_distinct; assumption|intros z; apply merge_unique_In].
Qed.

(* the merge is the sorted de-duplicated concatenation *)
Lemma merge_unique_eq_unique_sort xs ys : sorted_distinct xs -> sorted_distinct ys ->
  merge_unique xs ys = unique (sort (xs ++ ys)).
Proof.
  intros Hx Hy. apply sorted_distinct_ext.
  - apply merge_unique_sorted_distinct; assumption.
  - apply unique_sorted, sort_sorted.
  - intros z. rewrite merge_unique_In, unique_In, sort_In, in_app_iff. tauto.
Qed.

Lemma merge_unique_comm xs ys : sorted_distinct xs -> sorted_distinct ys ->
  merge_unique xs ys = merge_unique ys xs.
Proof.
  intros Hx Hy. apply sorted_distinct_ext; try (apply merge_unique_sorted_distinct; assumption).
  intros z. rewrite !merge_unique_In. tauto.
Qed.

Lemma insert_spec xs x : sorted_distinct xs ->
  sorted_distinct (insert_sorted_unique xs x) /\
  forall z, In z (insert_sorted_unique xs x) <-> z = x \/ In z xs.
Proof.
  intros Hx. unfold insert_sorted_unique. split.
  - apply merge_unique_sorted_distinct; [split; [intros ? []|exact I]|exact Hx].
  - intros z. rewrite merge_unique_In. cbn [In]. intuition congruence.
Qed.

Lemma insert_present xs x : sorted_distinct xs -> In x xs -> insert_sorted_unique xs x = xs.
Proof.
  intros Hx Hin. apply sorted_distinct_ext; [apply insert_spec; exact Hx|exact Hx|].
  intros z. rewrite (proj2 (insert_spec xs x Hx)). split; [intros [->|H]; assumption|auto].
Qed.

(* ------------------------------------------------------------------------------------ *)
(* bigvector                                                                              *)
(* ------------------------------------------------------------------------------------ *)

Lemma vadd_aux_length u : forall v, length u = length v -> length (vadd_aux u v) = length u.
Proof.
  induction u as [|a u IH]; intros [|b v] H; cbn [vadd_aux length] in *; try reflexivity; try discriminate.
  f_equal. apply IH. lia.
Qed.

Lemma vadd_aux_nth u : forall v i, length u = length v ->
  nth i (vadd_aux u v) 0 = nth i u 0 + nth i v 0.
Proof.
  induction u as [|a u IH]; intros [|b v] i H; cbn [vadd_aux length] in *; try discriminate.
  - destruct i; reflexivity.
  - destruct i as [|i]; cbn [nth]; [reflexivity|]. apply IH. lia.
Qed.

Lemma vadd_spec u v : length u = length v ->
  exists w, vadd u v = Ok w /\ length w = length u /\ forall i, nth i w 0 = nth i u 0 + nth i v 0.
Proof.
  intros H. unfold vadd. rewrite (proj2 (Nat.eqb_eq _ _) H). exists (vadd_aux u v).
  split; [reflexivity|]. split; [apply vadd_aux_length; exact H|]. intros i. apply vadd_aux_nth. exact H.
Qed.

Lemma vadd_panic u v : length u <> length v -> vadd u v = Panic ($"lenmismatch").
Proof. intros H. unfold vadd. rewrite (proj2 (Nat.eqb_neq _ _) H). reflexivity. Qed.

Lemma vadd_ok_iff u v : (exists w, vadd u v = Ok w) <-> length u = length v.
Proof.
  split.
  - intros [w Hw]. destruct (Nat.eq_dec (length u) (length v)) as [E|E]; [exact E|].
    rewrite (vadd_panic u v E) in Hw. discriminate.
  - intros H. destruct (vadd_spec u v H) as [w [Hw _]]. exists w. exact Hw.
Qed.

Lemma vlsh_spec v s : vlsh v s = map (fun x => x * 2 ^ Z.of_N s) v.
Proof. unfold vlsh. apply map_ext. intros x. apply Z.shiftl_mul_pow2. lia. Qed.

Lemma vlsh_nth v s i : length (vlsh v s) = length v /\ nth i (vlsh v s) 0 = nth i v 0 * 2 ^ Z.of_N s.
Proof.
  rewrite vlsh_spec. split; [apply map_length|].
  change 0 with ((fun x => x * 2 ^ Z.of_N s) 0) at 1. apply map_nth.
Qed.

Lemma basis_spec n i :
  length (basis n i) = n /\
  forall j, (j < n)%nat -> nth j (basis n i) 0 = if Nat.eqb j i then 1 else 0.
Proof.
  unfold basis. set (f := fun j : nat => if Nat.eqb j i then 1 else 0).
  split; [rewrite map_length; apply seq_length|].
  intros j Hj. rewrite (nth_indep _ 0 (f 0%nat)) by (rewrite map_length, seq_length; exact Hj).
  rewrite map_nth, seq_nth by exact Hj. reflexivity.
Qed.

Lemma clone_eq xs : clone xs = xs.
Proof. reflexivity. Qed.

Lemma concat_eq xs ys : concat xs ys = xs ++ ys.
Proof. reflexivity. Qed.

Lemma vnew_spec n : length (vnew n) = n /\ forall j, nth j (vnew n) 0 = 0.
Proof.
  unfold vnew. split; [apply repeat_length|]. intros j. revert j.
  induction n as [|n IH]; intros [|j]; cbn [repeat nth]; try reflexivity. apply IH.
Qed.

Lemma basis_idx_spec n i j :
  ((j < n)%nat -> basis_idx n i j = Ok (nth j (basis n i) 0)) /\
  ((n <= j)%nat -> basis_idx n i j = Panic ($"index")).
Proof.
  unfold basis_idx. split; intros H.
  - replace (Nat.leb n j) with false by (symmetry; apply Nat.leb_gt; exact H).
    rewrite (proj2 (basis_spec n i) j H). reflexivity.
  - replace (Nat.leb n j) with true by (symmetry; apply Nat.leb_le; exact H). reflexivity.
Qed.

(* call histories: in the model a later call cannot disturb an earlier register *)
Lemma vhist_extends prog : forall regs regs',
  vhist prog regs = Ok regs' -> exists ext, regs' = regs ++ ext /\ length ext = length prog.
Proof.
  induction prog as [|ins prog IH]; intros regs regs' H; cbn [vhist] in H.
  - injection H as <-. exists []. split; [symmetry; apply app_nil_r|reflexivity].
  - destruct (vstep regs ins) as [v| | |] eqn:E; cbn [obind] in H; try discriminate.
    apply IH in H as [ext [-> L]]. exists (v :: ext). split; [rewrite <- app_assoc; reflexivity|].
    cbn [length]. now rewrite L.
Qed.
