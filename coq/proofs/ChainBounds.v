(* Growth bound for addition chains (extends the C02 development; re-usable by C01/C14):
   the k-th element of a valid chain is at most 2^k, hence a chain ending at n has at least
   log2 n + 1 elements -- no search result accepted by the validator can be shorter than that.
   Stated over the specification predicate [is_chain] and, through [validate_iff], over the
   executable validator model that the correspondence check runs against chain.go. *)
From Coq Require Import List NArith ZArith Bool Arith Lia.
From AV Require Import model.Proto model.Chain proofs.ChainProofs.
Import ListNotations.
Open Scope Z_scope.

Lemma pow2_mono (i k : nat) : (i <= k)%nat -> 2 ^ Z.of_nat i <= 2 ^ Z.of_nat k.
Proof. intros H. apply Z.pow_le_mono_r; lia. Qed.

Theorem chain_nz_le_pow2 c : is_chain c -> forall k, (k < length c)%nat -> nz c k <= 2 ^ Z.of_nat k.
Proof.
  intros ([r Er] & _ & _ & Hs) k. induction k as [k IH] using lt_wf_ind. intros Hk.
  destruct k as [|k]; [rewrite Er; cbn; lia|].
  destruct (Hs (S k) ltac:(lia)) as (i & j & Hij & E).
  pose proof (IH i ltac:(lia) ltac:(lia)) as Hi. pose proof (IH j ltac:(lia) ltac:(lia)) as Hj.
  pose proof (pow2_mono i k ltac:(lia)) as Pi. pose proof (pow2_mono j k ltac:(lia)) as Pj.
  replace (Z.of_nat (S k)) with (Z.of_nat k + 1) by lia.
  rewrite Z.pow_add_r by lia. change (2 ^ 1) with 2. lia.
Qed.

Theorem chain_last_le_pow2 c : is_chain c -> last c 0 <= 2 ^ Z.of_nat (length c - 1).
Proof.
  intros Hc. assert (Hne : c <> []) by (destruct Hc as ([r ->] & _); discriminate).
  rewrite <- (nz_last c Hne). apply chain_nz_le_pow2; [exact Hc|].
  destruct c; [congruence|cbn [length]; lia].
Qed.

(* lower bound on the length of any chain for n: log2 n <= length - 1 *)
Theorem chain_length_lower_bound c n :
  is_chain c -> last c 0 = n -> Z.log2_up n <= Z.of_nat (length c - 1).
Proof.
  intros Hc <-. pose proof (chain_last_le_pow2 c Hc) as H.
  destruct (Z.le_gt_cases (last c 0) 1) as [H1|H1].
  - rewrite Z.log2_up_eqn0 by exact H1. lia.
  - apply Z.log2_up_le_pow2; lia.
Qed.

(* the same through the executable validator (what chain.go's Produces accepts) *)
Corollary produces_length_lower_bound c n :
  produces c n = Ok tt -> Z.log2_up n <= Z.of_nat (length c - 1).
Proof. intros H. apply produces_iff in H as [Hc Hl]. now apply chain_length_lower_bound. Qed.

(* every member of a chain, wherever it stands, is bounded by 2^(length - 1) *)
Theorem chain_member_le_pow2 c x : is_chain c -> In x c -> x <= 2 ^ Z.of_nat (length c - 1).
Proof.
  intros Hc Hx. destruct (In_nz c x Hx) as (i & Hi & <-).
  pose proof (chain_nz_le_pow2 c Hc i Hi) as H. pose proof (pow2_mono i (length c - 1) ltac:(lia)). lia.
Qed.

(* addition sequences: a chain the validator accepts as containing the targets ts is at least
   log2_up t + 1 long for every target t *)
Corollary superset_length_lower_bound c ts :
  superset c ts = Ok tt -> forall t, In t ts -> Z.log2_up t <= Z.of_nat (length c - 1).
Proof.
  intros H t Ht. apply superset_iff in H as [Hc Hs]. pose proof (chain_member_le_pow2 c t Hc (Hs t Ht)) as B.
  destruct (Z.le_gt_cases t 1) as [H1|H1].
  - rewrite Z.log2_up_eqn0 by exact H1. lia.
  - apply Z.log2_up_le_pow2; lia.
Qed.

(* non-vacuity: the doubling chain meets the bound with equality *)
Example bound_tight : produces [1; 2; 4; 8; 16] 16 = Ok tt /\ Z.log2_up 16 = Z.of_nat (length [1; 2; 4; 8; 16] - 1).
Proof. split; vm_compute; reflexivity. Qed.



