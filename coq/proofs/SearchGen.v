(* C14, part 5: `addchain gen` accepts the script that search prints for a target >= 2.

   gen = parse, Translate, Validate (no dangling inputs), Allocator, Eval, template.  For the script built
   from a non-empty valid program p:
     - parse: C07 round trip;
     - Translate: simulated by C04's index-only translator (SearchBridge), whose instruction list is the
       decompiled program with canonical operand order (strengthened copy of BuildProofs.build_facts);
     - Validate: C04's decompile_no_dangling, transported along the index skeleton;
     - Allocator: C05's allocated_exec; its hypotheses wf_ir (C06 wf_from_of_compile) and `consistent`
       (every identifier in the translated program is the name the statement of that index got, and
       those names are a function of the index);
     - Eval: the allocator only renames (C06 allocate_strip). *)
From Coq Require Import String.
From Coq Require Import List NArith ZArith Lia Bool Arith.
From AV Require Import model.Proto model.Chain model.Ir model.Ast.
From AV Require model.Program model.Naming proofs.BuildTranslateAux proofs.SearchMain.
From AV Require Import model.Decompile model.Build proofs.NamingProofs proofs.DecompileProofs proofs.BuildProofs.
From AV Require Import model.Alloc proofs.AllocProofs.
From AV Require Import model.Printer model.Peg model.Translate model.AstProto model.Gen
  proofs.InterpProofs proofs.TranslateBasics proofs.TranslateProofs proofs.PegProofs proofs.GenProofs proofs.SearchBridge.
Import ListNotations.
Open Scope Z_scope.

Module A := AV.proofs.BuildTranslateAux.

(* ---- 1. objects are only appended (unnamed) by t_expr; names come from define ---- *)
Lemma t_expr_objs : forall e st id st', t_expr e st = Ok (id, st') ->
  tvars st' = tvars st /\ exists extra, tobjs st' = tobjs st ++ extra /\ Forall (fun o => oname o = []) extra.
Proof.
  induction e as [i0|s|x IHx y IHy|x IHx s|x IHx]; intros st id st' H; cbn [t_expr] in H.
  - injection H as <- <-. cbn [new_obj snd tvars tobjs]. split; [reflexivity|]. eexists. split; [reflexivity|].
    constructor; [reflexivity|constructor].
  - destruct (lookup s (tvars st)); [|discriminate]. injection H as <- <-. split; [reflexivity|].
    exists []. rewrite app_nil_r. split; [reflexivity|constructor].
  - destruct (t_expr x st) as [[ix s1]| | |] eqn:Ex; cbn [obind] in H; try discriminate.
    destruct (t_expr y s1) as [[iy s2]| | |] eqn:Ey; cbn [obind] in H; try discriminate.
    destruct (obj_index s2 ix) as [vx| | |]; cbn [obind] in H; try discriminate.
    destruct (obj_index s2 iy) as [vy| | |]; cbn [obind] in H; try discriminate.
    destruct (IHx _ _ _ Ex) as (V1 & e1 & O1 & F1). destruct (IHy _ _ _ Ey) as (V2 & e2 & O2 & F2).
    destruct (vx >? vy); injection H as <- <-; cbn [emit snd tvars tobjs]; (split; [congruence|]);
      exists (e1 ++ e2 ++ [index_operand (tn s2)]); (split; [rewrite O2, O1, <- !app_assoc; reflexivity|]);
      apply Forall_app; (split; [exact F1|]); apply Forall_app; (split; [exact F2|]); constructor; [reflexivity|constructor|reflexivity|constructor].
  - destruct (t_expr x st) as [[ix s1]| | |] eqn:Ex; cbn [obind] in H; try discriminate.
    destruct (IHx _ _ _ Ex) as (V1 & e1 & O1 & F1).
    destruct (s =? 0)%N.
    + injection H as <- <-. split; [exact V1|]. exists e1. split; [exact O1|exact F1].
    + injection H as <- <-. cbn [emit snd tvars tobjs]. split; [exact V1|].
      eexists (e1 ++ [_]). split; [rewrite O1, <- app_assoc; reflexivity|].
      apply Forall_app. split; [exact F1|]. constructor; [reflexivity|constructor].
  - destruct (t_expr x st) as [[ix s1]| | |] eqn:Ex; cbn [obind] in H; try discriminate.
    destruct (IHx _ _ _ Ex) as (V1 & e1 & O1 & F1).
    injection H as <- <-. cbn [emit snd tvars tobjs]. split; [exact V1|].
    eexists (e1 ++ [_]). split; [rewrite O1, <- app_assoc; reflexivity|].
    apply Forall_app. split; [exact F1|]. constructor; [reflexivity|constructor].
Qed.

(* every object is unnamed or carries a name that the table binds to it *)
Definition named (st : tstate) : Prop :=
  forall id o, nth_error (tobjs st) id = Some o -> oname o = [] \/ In (oname o, id) (tvars st).

Lemma named_expr : forall e st id st', named st -> t_expr e st = Ok (id, st') -> named st'.
Proof.
  intros e st id st' Hn H. destruct (t_expr_objs _ _ _ _ H) as (V & extra & O & F).
  intros k o Hk. rewrite O in Hk. rewrite V.
  destruct (Nat.lt_ge_cases k (length (tobjs st))) as [L|L].
  - rewrite nth_error_app1 in Hk by exact L. exact (Hn k o Hk).
  - rewrite nth_error_app2 in Hk by exact L. left. rewrite Forall_forall in F. apply F. eapply nth_error_In. exact Hk.
Qed.

Lemma named_stmt : forall s st st', named st -> t_stmt st s = Ok st' -> named st'.
Proof.
  intros s st st' Hn H. unfold t_stmt in H.
  destruct (t_expr (sexpr s) st) as [[out s1]| | |] eqn:Ex; cbn [obind] in H; try discriminate.
  pose proof (named_expr _ _ _ _ Hn Ex) as N1. unfold define in H.
  destruct (lookup (sname s) (tvars s1)); [discriminate|]. injection H as <-.
  intros k o Hk. cbn [tobjs tvars] in Hk |- *. unfold set_name in Hk.
  destruct (nth_error (tobjs s1) out) as [oo|] eqn:Eo.
  - assert (Lo : (out < length (tobjs s1))%nat) by (apply nth_error_Some; congruence).
    rewrite nth_error_replace in Hk by exact Lo. destruct (k =? out)%nat eqn:Ek.
    + apply Nat.eqb_eq in Ek. subst k. injection Hk as <-. cbn [oname]. right. left. reflexivity.
    + destruct (N1 k o Hk) as [E|I]; [left; exact E|right; right; exact I].
  - destruct (N1 k o Hk) as [E|I]; [left; exact E|right; right; exact I].
Qed.

Lemma named_stmts : forall ss st st', named st -> t_stmts ss st = Ok st' -> named st'.
Proof.
  induction ss as [|s ss IH]; intros st st' Hn H; cbn [t_stmts] in H.
  - injection H as <-. exact Hn.
  - destruct (t_stmt st s) as [s1| | |] eqn:E1; cbn [obind] in H; try discriminate.
    exact (IH _ _ (named_stmt _ _ _ Hn E1) H).
Qed.

Lemma named_init : named tinit.
Proof. intros id o H. destruct id; discriminate H. Qed.

(* the operands of the resolved program are heap objects *)
Lemma resolve_operands : forall objs is p, map_opt (resolve_instr objs) is = Some p ->
  forall o, In o (all_operands p) -> exists id, nth_error objs id = Some o.
Proof.
  intros objs is. induction is as [|i is IH]; intros p H o Ho; cbn [map_opt] in H.
  - injection H as <-. destruct Ho.
  - destruct (resolve_instr objs i) as [r|] eqn:Er; [|discriminate].
    destruct (map_opt (resolve_instr objs) is) as [rs|] eqn:Es; [|discriminate]. injection H as <-.
    unfold all_operands in Ho. cbn [flat_map] in Ho. apply in_app_or in Ho. destruct Ho as [Ho|Ho].
    + unfold resolve_instr in Er. destruct (nth_error objs (tout i)) as [oo|] eqn:Eo; [|discriminate].
      destruct (resolve_op objs (topn i)) as [rp|] eqn:Ep; [|discriminate]. injection Er as <-.
      unfold operands in Ho. cbn [iopn iout] in Ho. apply in_app_or in Ho. destruct Ho as [Ho|[<-|[]]]; [|eauto].
      destruct (topn i) as [x y|x|x s]; cbn [resolve_op] in Ep.
      * destruct (nth_error objs x) eqn:E1; [|discriminate]. destruct (nth_error objs y) eqn:E2; [|discriminate].
        injection Ep as <-. cbn [inputs] in Ho. destruct Ho as [<-|[<-|[]]]; eauto.
      * destruct (nth_error objs x) eqn:E1; [|discriminate]. injection Ep as <-. cbn [inputs] in Ho.
        destruct Ho as [<-|[]]; eauto.
      * destruct (nth_error objs x) eqn:E1; [|discriminate]. injection Ep as <-. cbn [inputs] in Ho.
        destruct Ho as [<-|[]]; eauto.
    + exact (IH rs eq_refl o Ho).
Qed.

(* ---- 2. Validate only reads the index skeleton ---- *)
Lemma strip_indexes : forall i j, strip i = strip j -> out_index i = out_index j /\ in_indexes i = in_indexes j.
Proof.
  intros i j H. unfold strip in H. injection H as Ho Hp. split; [exact Ho|].
  unfold in_indexes. destruct (iopn i), (iopn j); try discriminate Hp; injection Hp as ?; cbn [inputs map]; congruence.
Qed.

Lemma validate_strip : forall p p' d, map strip p = map strip p' -> validate_from d p = validate_from d p'.
Proof.
  induction p as [|i r IH]; intros p' d H; destruct p' as [|j r']; try discriminate H; [reflexivity|].
  cbn [map] in H. assert (Hi : strip i = strip j) by exact (f_equal (hd (strip i)) H).
  assert (Hr : map strip r = map strip r') by exact (f_equal (@tl _) H).
  destruct (strip_indexes _ _ Hi) as (Eo & Ei).
  cbn [validate_from]. rewrite Ei, Eo. destruct (forallb _ _); [apply IH; exact Hr|reflexivity].
Qed.

Lemma check_dangling_validate : forall P d, Naming.check_dangling_loop d P = validate_from d P.
Proof.
  induction P as [|i r IH]; intros d; [reflexivity|].
  cbn [Naming.check_dangling_loop validate_from].
  change (Naming.input_indexes i) with (in_indexes i). change (oindex (iout i)) with (out_index i).
  destruct (forallb _ _); [apply IH|reflexivity].
Qed.

Lemma validate_canon : forall P d, validate_from d (map canon_inst P) = validate_from d P.
Proof.
  induction P as [|i r IH]; intros d; [reflexivity|].
  cbn [map validate_from].
  assert (Eo : out_index (canon_inst i) = out_index i) by reflexivity.
  assert (Ei : forall f, forallb f (in_indexes (canon_inst i)) = forallb f (in_indexes i)).
  { intros f. unfold in_indexes, canon_inst. cbn [iopn]. destruct (iopn i) as [x y|x|x s]; cbn [canon_op].
    - destruct (oindex y <? oindex x); cbn [inputs map forallb io index_operand oindex]; [|reflexivity].
      rewrite !andb_true_r. apply andb_comm.
    - reflexivity.
    - reflexivity. }
  rewrite Ei, Eo. destruct (forallb _ _); [apply IH|reflexivity].
Qed.

(* ---- 3. what Build's statements translate to: the decompiled program in canonical operand order
   (BuildProofs.build_facts with its instruction list exposed; same proof) ---- *)
Lemma build_emitted : forall p c, Program.wf_program p -> evaluate p = Ok c -> NoDup c -> p <> [] ->
  exists q t ts, decompile p = Ok q /\ build_program p = Ok t /\ A.tr_stmts t A.t_init = Ok ts /\
    A.t_emitted ts = map canon_inst q /\
    (forall nm idx, In (nm, idx) (A.t_vars ts) -> nm <> [] -> nm = stmt_name (nth (Z.to_nat idx) c 0) idx).
Proof.
  intros p c Hwf Hev Hnd Hpne.
  destruct (decompile_expand p Hwf) as (q & Eq & Ec).
  destruct (evaluate_spec p Hwf) as (c' & Ec' & Hlen & Hpos). rewrite Hev in Ec'. injection Ec' as <-.
  exists q. unfold build_program. rewrite Eq. cbn [obind]. unfold build.
  assert (Hps : pos_shifts q) by (destruct (decompile_inv _ _ Eq) as (nr & ->); apply pos_shifts_dec_loop).
  destruct (compile_facts q [] p Ec Hps) as (Hwfq & Hnaf & _ & Hidx & Hcc).
  change (Z.of_nat (length (@nil op)) + 1) with 1 in Hwfq, Hnaf. change (map cop []) with (@nil op) in Hcc.
  assert (Heval : Naming.eval_ir q = Ok c) by (unfold Naming.eval_ir; rewrite Ec; exact Hev).
  destruct (name_operands_spec q c Heval) as (tbl & Etbl & Hid).
  { intros x Hx. specialize (Hidx x Hx). lia. }
  rewrite Etbl. cbn [obind].
  assert (Hname : forall k, In k (map out q) ->
            0 <= k < Z.of_nat (length c) /\ nameof tbl k = stmt_name (nth (Z.to_nat k) c 0) k).
  { intros k Hk. apply out_in_operand_indexes in Hk. specialize (Hidx k Hk). split; [lia|].
    unfold nameof, stmt_name. now rewrite (Hid k Hk). }
  assert (Hval : forall k, 0 <= k < Z.of_nat (length c) -> 1 <= nth (Z.to_nat k) c 0).
  { intros k Hk. apply Hpos. apply nth_In. lia. }
  assert (Hinj : forall i j, In i (map out q) -> In j (map out q) -> nameof tbl i = nameof tbl j -> i = j).
  { intros i j Hi Hj E. destruct (Hname i Hi) as [Ri Ei]. destruct (Hname j Hj) as [Rj Ej].
    rewrite Ei, Ej in E. pose proof (Hval i Ri) as Vi. pose proof (Hval j Rj) as Vj.
    assert (Pi : 0 <= nth (Z.to_nat i) c 0) by lia. assert (Pj : 0 <= nth (Z.to_nat j) c 0) by lia.
    destruct (stmt_name_inj _ _ _ _ Pi Pj (proj1 Ri) (proj1 Rj) E) as [Ev|Ev]; [|exact Ev].
    assert (Z.to_nat i = Z.to_nat j); [|lia].
    apply (proj1 (NoDup_nth c 0) Hnd); [lia|lia|exact Ev]. }
  destruct q as [|i0 q'] eqn:Eqq.
  - cbn in Ec. injection Ec as <-. contradiction.
  - rewrite <- Eqq in *. assert (Hqne : q <> []) by (rewrite Eqq; discriminate).
    destruct (build_translate_loop tbl (Naming.read_counts_ir q) q Hinj Hwfq (read_counts_ir_reads q))
      as (b & ts0 & Eb & Etr0 & Eem0 & En0 & Hvars0 & Hst0).
    assert (Hproc : process tbl (Naming.read_counts_ir q) q = obind (b_loop tbl (Naming.read_counts_ir q) b_init q) (fun b => clear_last (b_stmts b))).
    { rewrite Eqq. reflexivity. }
    rewrite Hproc, Eb. cbn [obind].
    assert (Hsne : b_stmts b <> []).
    { intros E. rewrite E in Etr0. cbn in Etr0. injection Etr0 as <-. cbn in Eem0.
      destruct q; [contradiction|discriminate]. }
    destruct (tr_clear_last _ _ Hsne Etr0) as (init & s & ts' & Es & Ecl & Etr' & Eem' & Hv').
    { intros v Hv. destruct (Hvars0 _ _ Hv) as [E _]. symmetry in E. exact (nameof_nonempty tbl v E). }
    rewrite Ecl. exists (init ++ [mkStmt [] (sexpr s)]), ts'.
    split; [reflexivity|]. split; [reflexivity|]. split; [exact Etr'|]. split; [rewrite Eem'; exact Eem0|].
    intros nm idx Hin Hnm. destruct (Hvars0 _ _ (Hv' _ _ Hin Hnm)) as [E Hk].
    destruct (Hname idx Hk) as [Rk Enk]. now rewrite E.
Qed.

(* ---- 4. the translated program of a built script: everything the later passes need ---- *)
Definition built_nmap (c : list Z) (idx : Z) : list N := stmt_name (nth (Z.to_nat idx) c 0) idx.

Lemma built_ir : forall p c,
  evaluate p = Ok c -> NoDup c -> p <> [] -> Z.of_nat (length p) + 1 < 2 ^ 63 ->
  exists t ir, build_program p = Ok t /\ wf_script t = true /\ translate t = Ok ir /\
    compile ir = Ok (map cop p) /\ validate_ir ir = Ok tt /\ nz_shifts ir /\ wf_ir ir /\ ir <> [] /\
    consistent (built_nmap c) ir.
Proof.
  intros p c He Hnd Hpne Hlen.
  assert (Hwf : Program.wf_program p) by exact (proj1 (SearchMain.evaluate_ok_wf p c He)).
  destruct (build_emitted p c Hwf He Hnd Hpne) as (q & t & ts & Eq & Eb & Etr & Eem & Hnames).
  (* the same t as build_translate's *)
  destruct (build_translate p c Hwf He Hnd ltac:(lia)) as (t' & Eb' & Hw & _ & Ete).
  rewrite Eb in Eb'. injection Eb' as <-.
  (* the index-only translation, compiled *)
  unfold A.translate_eval, A.translate_compile, A.translate in Ete. rewrite Etr in Ete. cbn [obind] in Ete.
  destruct (Naming.compile (A.t_emitted ts)) as [ops'| | |] eqn:Ec; cbn [obind] in Ete; try discriminate.
  destruct (evaluate ops') as [c'| | |] eqn:Ev; cbn [obind] in Ete; try discriminate.
  injection Ete as -> ->.
  destruct (aux_stmts_cost _ _ _ Etr) as (Nn & Ln). cbn [A.t_init A.t_n A.t_emitted ir_len fold_right] in Nn, Ln.
  pose proof (compile_len _ _ _ Ec) as Lc. cbn [length] in Lc. rewrite map_length in Lc.
  destruct (sim_stmts t A.t_init tinit ts R_init ltac:(cbn; lia) ltac:(cbn [A.t_init A.t_n]; lia) Etr) as (sc & Ts & (_ & Henv & Hz)).
  pose proof (named_stmts _ _ _ named_init Ts) as Hnamed.
  pose proof (resolve_zview (tobjs sc) (tinstrs sc)) as Hr.
  destruct (map_opt (resolve_instr (tobjs sc)) (tinstrs sc)) as [ir|] eqn:Emo; [|rewrite Hz in Hr; discriminate Hr].
  rewrite Hz in Hr. injection Hr as Hr.
  assert (Etrans : translate t = Ok ir) by (unfold translate; rewrite Ts; cbn [obind]; rewrite Emo; reflexivity).
  assert (Ecomp : compile ir = Ok (map cop p)).
  { unfold compile. rewrite compile_loop_strip, <- Hr. unfold Naming.compile in Ec. exact (naming_compile_z _ _ _ Ec). }
  assert (Eval : validate_ir ir = Ok tt).
  { unfold validate_ir. rewrite (validate_strip ir (A.t_emitted ts) [0]) by (symmetry; exact Hr).
    rewrite Eem, validate_canon, <- check_dangling_validate.
    destruct (decompile_no_dangling p Hwf) as (q' & Eq' & Hd). rewrite Eq in Eq'. injection Eq' as <-. exact Hd. }
  assert (Hnz : nz_shifts ir) by exact (translate_nz_shifts t ir Etrans).
  assert (Hwfir : wf_ir ir) by exact (wf_from_of_compile ir [0] [] (map cop p) Hnz Eval Ecomp).
  assert (Hirne : ir <> []).
  { intros ->. cbn in Ecomp. injection Ecomp as E. destruct p; [contradiction|discriminate E]. }
  assert (Hcons : consistent (built_nmap c) ir).
  { intros o Ho. destruct (resolve_operands _ _ _ Emo o Ho) as (id & Hid).
    destruct (Hnamed id o Hid) as [E|Hin]; [left; exact E|].
    destruct (list_eq_dec N.eq_dec (oname o) []) as [E|Hne]; [left; exact E|right].
    (* the table of the index-only translator binds the same name to the object's index *)
    assert (Hb : In (oname o, oindex o) (A.t_vars ts)).
    { clear - Henv Hin Hid. induction Henv as [|a b va ve [H1 H2] _ IH]; [destruct Hin|].
      destruct Hin as [->|Hin]; [|right; exact (IH Hin)].
      left. cbn [fst snd] in H1, H2. unfold idx in H2. rewrite Hid in H2. cbn in H2. injection H2 as H2.
      destruct b as [bn bi]. cbn [fst snd] in *. congruence. }
    exact (Hnames _ _ Hb Hne). }
  exists t, ir. rewrite wf_script_eq in Hw. repeat (split; [assumption|]). exact Hcons.
Qed.

(* ---- 4b. gen accepts ---- *)
Theorem gen_accepts : forall p c tmpl,
  evaluate p = Ok c -> NoDup c -> p <> [] -> Z.of_nat (length p) + 1 < 2 ^ 63 ->
  In tmpl [$"listing"; $"chain"; $"ops"; $"script"] ->
  exists t out, build_program p = Ok t /\ gen default_cfg tmpl (print_script t) = Ok out.
Proof.
  intros p c tmpl He Hnd Hpne Hlen Htmpl.
  destruct (built_ir p c He Hnd Hpne Hlen) as (t & ir & Eb & Hw & Etrans & Ecomp & Eval & Hnz & Hwfir & Hirne & Hcons).
  cut (exists out, gen default_cfg tmpl (print_script t) = Ok out).
  { intros (out & Hout). exists t, out. split; [exact Eb|exact Hout]. }
  assert (Ev : evaluate (map cop p) = Ok c).
  { unfold evaluate. rewrite evaluate_from_cop. exact He. }
  destruct (last_instr_some ir Hirne) as (lst & Elst).
  destruct (allocated_exec default_cfg ir lst _ 1 (proj1 default_cfg_ok) Hwfir Elst Hcons) as (qa & temps & Ealloc & _).
  unfold gen. rewrite (roundtrip t Hw). cbn [obind].
  assert (Eprep : exists d, prepare default_cfg t = Ok d).
  { unfold prepare. rewrite Etrans. cbn [obind]. rewrite Eval. cbn [obind]. rewrite Ealloc. cbn [obind fst snd].
    assert (Ecq : compile qa = Ok (map cop p)).
    { unfold compile. rewrite compile_loop_strip, (allocate_strip _ _ _ _ Ealloc), <- compile_loop_strip. exact Ecomp. }
    rewrite Ecq. cbn [obind]. rewrite Ev. cbn [obind]. eexists. reflexivity. }
  destruct Eprep as (d & Ed). rewrite Ed. cbn [obind].
  destruct (render_total default_cfg t d Ed tmpl Htmpl) as (out & Eout). exists out. exact Eout.
Qed.

(* ---- 5. in terms of search's report ---- *)
From AV Require Import model.Search.

Lemma report_gen : forall p c tmpl text,
  evaluate p = Ok c -> NoDup c -> p <> [] -> Z.of_nat (length p) + 1 < 2 ^ 63 ->
  In tmpl [$"listing"; $"chain"; $"ops"; $"script"] -> report p = Ok text ->
  exists out, gen default_cfg tmpl text = Ok out.
Proof.
  intros p c tmpl text He Hnd Hpne Hlen Htmpl Hr.
  destruct (gen_accepts p c tmpl He Hnd Hpne Hlen Htmpl) as (t & out & Eb & Hg).
  unfold report in Hr. rewrite Eb in Hr. cbn [obind] in Hr. injection Hr as <-.
  exists out. exact Hg.
Qed.

(* a result for a target >= 2 has at least one operation *)
Lemma good_two_nonempty : forall n r, 2 <= n -> SearchMain.good_ares n r -> ar_prog r <> [].
Proof.
  intros n r Hn (_ & Hch & Hlast & Hlen & _) E. rewrite E in Hlen. cbn [length] in Hlen.
  destruct Hch as ((t & Et) & _). rewrite Et in *. destruct t as [|x t]; [cbn in Hlast; lia|cbn [length] in Hlen; lia].
Qed.

(* For a target >= 2, gen (every builtin template) accepts what search printed. *)
Theorem consistent_gen : forall w n rs o tmpl,
  2 <= n -> Forall (SearchMain.good_ares n) rs -> Forall SearchMain.fits_slice rs ->
  SearchMain.consistent_report w n rs o -> In tmpl [$"listing"; $"chain"; $"ops"; $"script"] ->
  exists out, gen default_cfg tmpl (so_stdout o) = Ok out.
Proof.
  intros w n rs o tmpl Hn Hg Hs (_ & (b & Hb & _ & Hr) & _) Htmpl.
  rewrite Forall_forall in Hg, Hs. pose proof (nth_error_In _ _ Hb) as Hin.
  pose proof (Hg b Hin) as G. pose proof G as G'. destruct G' as (G0 & Hch & G2 & G3 & Hev).
  assert (Hnd : NoDup (ar_chain b)) by apply Hch.
  assert (Hne : ar_prog b <> []) by exact (good_two_nonempty n b Hn G).
  exact (report_gen (ar_prog b) (ar_chain b) tmpl (so_stdout o) Hev Hnd Hne (Hs b Hin) Htmpl Hr).
Qed.
