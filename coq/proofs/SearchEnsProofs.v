(* C14, part 4: search_consistent instantiated with the ensemble model and C01's theorem. *)
From Coq Require Import String.
From Coq Require Import List NArith ZArith Lia Bool Arith QArith.
From AV Require Import model.Proto model.Bits model.Chain model.Program model.Ensemble proofs.EnsembleProofs.
From AV Require Import model.Calc model.Search model.SearchEns proofs.SearchProofs proofs.SearchMain.
Import ListNotations.
Open Scope Z_scope.

(* the model's refusal of an observed sort order (never with the stable sort) *)
Definition refused (r : ares) : Prop := ar_err r = Some ($"sortoracle").

Lemma run_all_ok : forall n orcs algs i,
  1 <= n -> Z.of_N (bitlen n) < 2 ^ 64 -> (forall a, In a algs -> at_u a) ->
  exists rs, run_all n orcs i algs = Ok rs /\ length rs = length algs /\
    forall j r, nth_error rs j = Some r -> good_ares n r \/ (refused r /\ orcs (i + j)%nat <> None).
Proof.
  intros n orcs algs. induction algs as [|a t IH]; intros i Hn Hb Hall.
  - exists []. cbn [run_all]. split; [reflexivity|]. split; [reflexivity|]. intros j r Hj. destruct j; discriminate Hj.
  - destruct (IH (S i) Hn Hb (fun a' H => Hall a' (or_intror H))) as (rs & Er & Lr & Fr).
    cbn [run_all]. destruct (Hall a (or_introl eq_refl) n (orcs i) Hn Hb) as [(r & Ee & Hg)|(Ho & Ee)];
      rewrite Ee; cbn [obind]; rewrite Er; cbn [obind]; eexists; (split; [reflexivity|]);
      (split; [cbn [length]; lia|]); intros j r' Hj; destruct j as [|j]; cbn [nth_error] in Hj.
    + injection Hj as <-. left. exact Hg.
    + replace (i + S j)%nat with (S i + j)%nat by lia. exact (Fr j r' Hj).
    + injection Hj as <-. right. split; [reflexivity|]. rewrite Nat.add_0_r. exact Ho.
    + replace (i + S j)%nat with (S i + j)%nat by lia. exact (Fr j r' Hj).
Qed.

Lemma err_dec : forall r : ares, {ar_err r = None} + {ar_err r <> None}.
Proof. intros r. destruct (ar_err r); [right; discriminate|left; reflexivity]. Qed.

(* For every expression of value n >= 1 (bit length within a machine word), every -p >= 1, every
   weights, every sort oracle: either the model refuses an observed sort order (then search reports
   "algorithm error"; impossible with the stable sort), or search succeeds with a consistent report.
   fits: no returned program reaches Go's bound on slice lengths. *)
Theorem search_full_consistent : forall orcs expr p w n,
  eval expr = Ok n -> 1 <= n -> Z.of_N (bitlen n) < 2 ^ 64 -> 1 <= p ->
  (forall rs, ens_model orcs n = Ok rs -> Forall fits_slice rs) ->
  (exists rs o, ens_model orcs n = Ok rs /\ search_full orcs expr p w = Ok o /\ consistent_report w n rs o /\
                Forall (good_ares n) rs /\ Forall fits_slice rs) \/
  (search_full orcs expr p w = Err ($"alg") /\ exists j, orcs j <> None).
Proof.
  intros orcs expr p w n He Hn Hb Hp Hfit.
  destruct (run_all_ok n orcs ensemble O Hn Hb ensemble_ok) as (rs & Er & Lr & Fr).
  fold (ens_model orcs n) in Er. specialize (Hfit rs Er).
  assert (Hne : rs <> []).
  { intros ->. rewrite (proj1 ensemble_shape) in Lr. discriminate Lr. }
  unfold search_full, search_m. rewrite (proj2 (Z.ltb_ge p 1)) by lia. rewrite He.
  rewrite (proj2 (Z.ltb_ge n 1)) by lia. rewrite Er. cbn [obind].
  destruct (Forall_Exists_dec (fun r => ar_err r = None) err_dec rs) as [Hall|Hex].
  - left. assert (Hg : Forall (good_ares n) rs).
    { rewrite Forall_forall in *. intros r Hr. destruct (In_nth_error _ _ Hr) as (j & Hj).
      destruct (Fr j r Hj) as [G|[Rf _]]; [exact G|].
      unfold refused in Rf. rewrite (Hall r Hr) in Rf. discriminate Rf. }
    destruct (search_results_consistent w n rs Hne Hg Hfit) as (o & Eo & Ho). exists rs, o. auto.
  - right. apply Exists_exists in Hex. destruct Hex as (r & Hr & Hne'). split.
    + unfold search_results. rewrite scan_err; [reflexivity|]. exists r. auto.
    + destruct (In_nth_error _ _ Hr) as (j & Hj). destruct (Fr j r Hj) as [(E0 & _)|[_ Ho]]; [contradiction|].
      exists j. exact Ho.
Qed.

(* with the stable sort as oracle everywhere there is no alternative *)
Corollary search_full_stable : forall expr p w n,
  eval expr = Ok n -> 1 <= n -> Z.of_N (bitlen n) < 2 ^ 64 -> 1 <= p ->
  (forall rs, ens_model (fun _ => None) n = Ok rs -> Forall fits_slice rs) ->
  exists rs o, ens_model (fun _ => None) n = Ok rs /\ search_full (fun _ => None) expr p w = Ok o /\
               consistent_report w n rs o /\ Forall (good_ares n) rs /\ Forall fits_slice rs.
Proof.
  intros expr p w n He Hn Hb Hp Hfit.
  destruct (search_full_consistent (fun _ => None) expr p w n He Hn Hb Hp Hfit) as [H|[_ (j & Hj)]]; [exact H|].
  exfalso. apply Hj. reflexivity.
Qed.
