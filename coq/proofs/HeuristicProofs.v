(* C08, heuristic family: what a heuristic must guarantee (good_suggest), the four heuristics meet it,
   and the Bos-Coster loop returns a chain containing every target for any such heuristic,
   within the fuel the entry point provides. *)
From Coq Require Import String.
From Coq Require Import List ZArith NArith Lia Bool Arith.
From AV Require Import model.Proto model.Bits model.Lists model.Chain model.Heuristic proofs.SeqAux.
Import ListNotations.
Open Scope Z_scope.

(* the protosequence handed to Suggest: sorted distinct, contains 1 and 2, positive, all below the target *)
Definition good_pre (f : list Z) (t : Z) : Prop :=
  sd f /\ In 1 f /\ In 2 f /\ (forall y, In y f -> 0 < y < t).

(* any suggestion is a sorted distinct list of values in (0,t) making t a sum of two members of f + ins *)
Definition good_suggest (h : heur) : Prop := forall f t, good_pre f t ->
  match suggest h f t with
  | Ok None => True
  | Ok (Some ins) =>
      sd ins /\ (forall x, In x ins -> 0 < x < t) /\
      exists a b, (In a f \/ In a ins) /\ (In b f \/ In b ins) /\ a + b = t
  | _ => False
  end.

Definition total (h : heur) : Prop := forall f t, good_pre f t -> suggest h f t <> Ok None.

Lemma good_pre_head f t : good_pre f t -> exists r, f = 1 :: r.
Proof.
  intros (Hs & H1 & _ & Hb). destruct f as [|x r]; [destruct H1|]. exists r. f_equal.
  destruct H1 as [E|Hin]; [assumption|]. destruct Hs as [Hs _]. specialize (Hs 1 Hin).
  specialize (Hb x (or_introl eq_refl)). lia.
Qed.

Lemma good_pre_last f t : good_pre f t -> f <> [] /\ In (last f 0) f /\ 0 < last f 0 < t.
Proof.
  intros H. pose proof H as (Hs & H1 & _ & Hb).
  assert (Hne : f <> []) by (destruct f; [destruct H1|discriminate]).
  split; [assumption|]. split; [now apply last_in|]. apply Hb. now apply last_in.
Qed.

(* ---------- DeltaLargest ---------- *)
Lemma delta_run f t : good_pre f t -> delta_largest f t = Ok (Some [t - last f 0]).
Proof.
  intros H. destruct (good_pre_last f t H) as (Hne & _ & Hl). unfold delta_largest.
  destruct f as [|x r]; [congruence|]. destruct (t - last (x :: r) 0 <=? 0) eqn:E; [|reflexivity].
  apply Z.leb_le in E. lia.
Qed.

Theorem delta_good : good_suggest DeltaLargest.
Proof.
  intros f t H. cbn [suggest]. rewrite (delta_run f t H).
  destruct (good_pre_last f t H) as (Hne & Hin & Hl).
  split; [apply sd_single|]. split.
  - intros x [<-|[]]. lia.
  - exists (last f 0), (t - last f 0). split; [left; assumption|]. split; [right; simpl; auto|lia].
Qed.

Theorem delta_total : total DeltaLargest.
Proof. intros f t H. cbn [suggest]. rewrite (delta_run f t H). discriminate. Qed.

(* ---------- Halving ---------- *)
Definition shifts (k : Z) (s n : nat) : list Z := map (fun e => Z.shiftl k (Z.of_nat e)) (seq s n).

Lemma shifts_in k s n z : In z (shifts k s n) <-> exists e, (s <= e < s + n)%nat /\ z = k * 2 ^ Z.of_nat e.
Proof.
  unfold shifts. rewrite in_map_iff. split.
  - intros (e & <- & He). apply in_seq in He. exists e. split; [lia|]. apply Z.shiftl_mul_pow2. lia.
  - intros (e & He & ->). exists e. split; [apply Z.shiftl_mul_pow2; lia|apply in_seq; lia].
Qed.

Lemma shifts_sd k : 0 < k -> forall n s, sd (shifts k s n).
Proof.
  intros Hk. induction n as [|n IH]; intros s; [exact I|].
  change (shifts k s (S n)) with (Z.shiftl k (Z.of_nat s) :: shifts k (S s) n). split; [|apply IH].
  intros y Hy. apply shifts_in in Hy as (e & He & ->). rewrite Z.shiftl_mul_pow2 by lia.
  apply Z.mul_lt_mono_pos_l; [assumption|]. apply Z.pow_lt_mono_r; lia.
Qed.

Lemma shifts_S k n : shifts k 0 (S n) = shifts k 0 n ++ [k * 2 ^ Z.of_nat n].
Proof.
  unfold shifts. rewrite seq_S, map_app. cbn [map]. rewrite Nat.add_0_l.
  rewrite Z.shiftl_mul_pow2 by lia. reflexivity.
Qed.

Lemma shifts_len k s n : length (shifts k s n) = n.
Proof. unfold shifts. now rewrite map_length, seq_length. Qed.

Theorem halving_good : good_suggest Halving.
Proof.
  intros f t H. cbn [suggest]. unfold halving.
  destruct (good_pre_last f t H) as (Hne & Hin & Hl).
  destruct f as [|x0 r0]; [congruence|]. set (f := x0 :: r0) in *. set (next := last f 0) in *.
  assert (Ediv : go_div t next = Ok (t / next)).
  { unfold go_div. replace (next =? 0) with false by (symmetry; apply Z.eqb_neq; lia).
    replace (0 <? next) with true by (symmetry; apply Z.ltb_lt; lia). reflexivity. }
  rewrite Ediv. cbn [obind]. set (q := t / next).
  destruct (bitlen q <? 2)%N eqn:Eb; [exact I|]. apply N.ltb_ge in Eb.
  assert (Hq1 : 1 <= q) by (apply Z.div_le_lower_bound; lia).
  pose proof (bitlen_pos q ltac:(lia)) as [Hlo _].
  set (u := (N.to_nat (bitlen q) - 1)%nat).
  assert (Hu1 : (1 <= u)%nat) by (unfold u; lia).
  assert (EuZ : Z.of_nat u = Z.of_N (bitlen q) - 1) by (unfold u; lia).
  rewrite <- EuZ in Hlo.
  set (P := 2 ^ Z.of_nat u) in *.
  assert (HP : 0 < P) by (apply Z.pow_pos_nonneg; lia).
  assert (Hk : Z.shiftr t (Z.of_nat u) = t / P) by (apply Z.shiftr_div_pow2; lia).
  rewrite Hk. set (k := t / P).
  assert (Hnq : next * q <= t) by (apply Z.mul_div_le; lia).
  assert (Hknext : next <= k).
  { apply Z.div_le_lower_bound; [assumption|]. nia. }
  assert (Hk0 : 0 < k) by lia.
  fold (shifts k 0 (S u)). rewrite shifts_S. fold P.
  assert (Enz : nz (shifts k 0 u ++ [k * P]) u = k * P).
  { unfold nz. rewrite app_nth2 by (rewrite shifts_len; lia). rewrite shifts_len, Nat.sub_diag. reflexivity. }
  rewrite Enz.
  assert (Hdm : t = P * k + t mod P) by (apply Z.div_mod; lia).
  pose proof (Z.mod_pos_bound t P HP) as Hmod.
  set (d := t - k * P).
  assert (Hin_s : forall z, In z (shifts k 0 u) -> 0 < z < k * P).
  { intros z Hz. apply shifts_in in Hz as (e & He & ->). split; [apply Z.mul_pos_pos; [assumption|apply Z.pow_pos_nonneg; lia]|].
    apply Z.mul_lt_mono_pos_l; [assumption|]. apply Z.pow_lt_mono_r; lia. }
  destruct (d =? 0) eqn:Ed.
  - apply Z.eqb_eq in Ed. rewrite firstn_app, shifts_len, Nat.sub_diag. cbn [firstn]. rewrite app_nil_r.
    rewrite firstn_all2 by (rewrite shifts_len; lia).
    split; [apply shifts_sd; assumption|]. split.
    + intros z Hz. specialize (Hin_s z Hz). lia.
    + exists (k * 2 ^ Z.of_nat (u - 1)), (k * 2 ^ Z.of_nat (u - 1)).
      assert (Hm : In (k * 2 ^ Z.of_nat (u - 1)) (shifts k 0 u)) by (apply shifts_in; exists (u - 1)%nat; split; [lia|reflexivity]).
      split; [right; assumption|]. split; [right; assumption|].
      assert (EP : P = 2 * 2 ^ Z.of_nat (u - 1)).
      { unfold P. replace (Z.of_nat u) with (Z.succ (Z.of_nat (u - 1))) by lia. rewrite Z.pow_succ_r by lia. reflexivity. }
      nia.
  - apply Z.eqb_neq in Ed.
    assert (Hsd : sd (shifts k 0 u ++ [k * P])).
    { apply sd_app; [apply shifts_sd; assumption|apply sd_single|]. intros a b Ha [<-|[]]. apply Hin_s. assumption. }
    assert (Hd : 0 < d < t) by (unfold d in *; nia).
    split; [apply insert_sd; assumption|]. split.
    + intros z Hz. apply insert_in in Hz as [->|Hz]; [assumption|].
      apply in_app_or in Hz as [Hz|[<-|[]]]; [specialize (Hin_s z Hz); unfold d in *; lia|unfold d in *; nia].
    + exists (k * P), d. split; [right; apply insert_in; right; apply in_or_app; simpl; auto|].
      split; [right; apply insert_in; auto|unfold d; lia].
Qed.

(* ---------- Approximation ---------- *)
Lemma approx_loop_ok f t : good_pre f t -> forall fuel l hi first mindelta best,
  (hi <= length f)%nat -> (hi - l < fuel)%nat ->
  (first = true -> l = 0%nat /\ (1 <= hi)%nat) ->
  (first = false -> exists b, In b f /\ best = t - b) ->
  exists x, approx_loop fuel f t l hi first mindelta best = Ok [x] /\ exists b, In b f /\ x = t - b.
Proof.
  intros H. pose proof (good_pre_head f t H) as [r0 Ef]. pose proof H as (Hs & H1 & H2 & Hb).
  assert (Ht2 : 2 < t) by (apply Hb; assumption).
  induction fuel as [|fuel IH]; intros l hi first mindelta best Hhi Hfuel Hfirst Hbest; [lia|].
  cbn [approx_loop]. destruct (l <? hi)%nat eqn:Elh.
  - apply Nat.ltb_lt in Elh.
    assert (Hb_in : In (nz f (hi - 1)) f) by (apply nth_In; lia).
    set (a := nz f l). set (b := nz f (hi - 1)) in *.
    destruct (t - (a + b) <? 0) eqn:Ed.
    + apply Z.ltb_lt in Ed. apply IH; [lia|lia| |assumption].
      intros Ft. destruct (Hfirst Ft) as [-> Hh]. split; [reflexivity|].
      destruct (Nat.eq_dec hi 1) as [->|]; [|lia]. exfalso.
      unfold a, b in Ed. rewrite Ef in Ed. unfold nz in Ed. cbn [Nat.sub nth] in Ed. lia.
    + apply Z.ltb_ge in Ed. replace (a + (t - (a + b))) with (t - b) by lia.
      destruct (contains_sorted (t - b) f).
      * exists (t - b). split; [reflexivity|]. exists b. split; [assumption|reflexivity].
      * destruct (first || (t - (a + b) <? mindelta)) eqn:Eu.
        -- apply IH; [lia|lia|discriminate|]. intros _. exists b. split; [assumption|reflexivity].
        -- apply orb_false_iff in Eu as [Ff _]. apply IH; [lia|lia|intros Ft; congruence|assumption].
  - apply Nat.ltb_ge in Elh. exists best. split; [reflexivity|].
    destruct first; [destruct (Hfirst eq_refl); lia|]. destruct (Hbest eq_refl) as (b & Hb' & ->).
    exists b. split; [assumption|reflexivity].
Qed.

Lemma approx_run f t : good_pre f t -> exists b, In b f /\ approximation f t = Ok (Some [t - b]).
Proof.
  intros H. pose proof H as (Hs & H1 & H2 & Hb).
  assert (Hlen : (1 <= length f)%nat) by (destruct f; [destruct H1|simpl; lia]).
  assert (A1 : (length f <= length f)%nat) by lia.
  assert (A2 : (length f - 0 < S (length f))%nat) by lia.
  assert (A3 : true = true -> 0%nat = 0%nat /\ (1 <= length f)%nat) by (intros _; split; [reflexivity|assumption]).
  assert (A4 : true = false -> exists b, In b f /\ 0 = t - b) by discriminate.
  destruct (approx_loop_ok f t H (S (length f)) 0 (length f) true 0 0 A1 A2 A3 A4) as (x & Ex & b & Hbin & ->).
  exists b. split; [assumption|]. unfold approximation. rewrite Ex. reflexivity.
Qed.

Theorem approx_good : good_suggest Approximation.
Proof.
  intros f t H. cbn [suggest]. destruct (approx_run f t H) as (b & Hbin & ->).
  pose proof H as (_ & _ & _ & Hb). specialize (Hb b Hbin).
  split; [apply sd_single|]. split.
  - intros x [<-|[]]. lia.
  - exists b, (t - b). split; [left; assumption|]. split; [right; simpl; auto|lia].
Qed.

Theorem approx_total : total Approximation.
Proof. intros f t H. cbn [suggest]. destruct (approx_run f t H) as (b & _ & ->). discriminate. Qed.

(* ---------- UseFirst ---------- *)
Lemma suggest_usefirst_nil f t : suggest (UseFirst []) f t = Ok None.
Proof. reflexivity. Qed.
Lemma suggest_usefirst_cons h hs f t :
  suggest (UseFirst (h :: hs)) f t =
  match suggest h f t with Ok None => suggest (UseFirst hs) f t | o => o end.
Proof. reflexivity. Qed.

Theorem usefirst_good hs : Forall good_suggest hs -> good_suggest (UseFirst hs).
Proof.
  induction 1 as [|h hs Hh _ IH]; intros f t Hp; [rewrite suggest_usefirst_nil; exact I|].
  rewrite suggest_usefirst_cons. specialize (Hh f t Hp). specialize (IH f t Hp).
  destruct (suggest h f t) as [[ins|]| | |]; auto.
Qed.

Theorem usefirst_total hs : Exists total hs -> total (UseFirst hs).
Proof.
  induction 1 as [h hs Hh|h hs _ IH]; intros f t Hp; rewrite suggest_usefirst_cons.
  - specialize (Hh f t Hp). destruct (suggest h f t) as [[ins|]| | |]; try discriminate. congruence.
  - specialize (IH f t Hp). destruct (suggest h f t) as [[ins|]| | |]; try discriminate. assumption.
Qed.

(* ---------- the Bos-Coster loop ---------- *)
Definition U (proto c : list Z) (z : Z) := In z proto \/ In z c.

Section Framework.
Variable h : heur.
Hypothesis Hgood : good_suggest h.
Variable T : list Z.    (* the caller's targets *)
Variable B : Z.         (* a bound on the targets, at least 2 *)

Definition Inv (proto c : list Z) : Prop :=
  sd proto /\ In 1 proto /\ In 2 proto /\ (forall y, In y proto -> 1 <= y) /\
  sd c /\ (forall x y, In x c -> In y proto -> y < x) /\
  (forall x, In x c -> exists u v, U proto c u /\ U proto c v /\ u + v = x) /\
  (forall z, In z T -> U proto c z) /\
  2 <= B /\ (forall z, U proto c z -> z <= B).

Lemma short_proto proto : sd proto -> In 1 proto -> In 2 proto -> (length proto <= 2)%nat -> proto = [1; 2].
Proof.
  intros Hs H1 H2 Hl. destruct proto as [|a [|b [|? ?]]]; simpl in Hl; try lia.
  - destruct H1.
  - simpl in H1, H2. destruct H1 as [->|[]]. destruct H2 as [E|[]]. discriminate E.
  - simpl in Hs, H1, H2. destruct Hs as [Hab _]. specialize (Hab b (or_introl eq_refl)).
    destruct H1 as [E1|[E1|[]]]; destruct H2 as [E2|[E2|[]]]; subst; try reflexivity; try lia.
Qed.

Definition result_ok (c : list Z) : Prop :=
  CL c /\ (forall z, In z T -> In z c) /\ forall z, In z c -> z <= B.

Theorem loop_spec : forall fuel proto c, Inv proto c ->
  match loop h fuel proto c with
  | Ok cf => result_ok cf
  | Err e => e = noseq /\ ~ total h
  | Panic _ => False
  | OutOfFuel => Z.of_nat fuel <= last proto 0 - 2
  end.
Proof using Hgood.
  induction fuel as [|fuel IH]; intros proto c HI.
  - destruct HI as (Hsp & H1 & H2 & _). cbn [loop].
    pose proof (nd_last_max proto (sd_nd _ Hsp) 2 H2). lia.
  - cbn [loop]. unfold loop_body. destruct HI as (Hsp & H1 & H2 & Hge & Hsc & Hlt & Hex & HT & HB2 & HB).
    destruct (length proto <=? 2)%nat eqn:El.
    + (* only {1,2} left *)
      apply Nat.leb_le in El. rewrite (short_proto proto Hsp H1 H2 El) in *.
      assert (Hin : forall z, In z (merge_unique [1; 2] c) <-> U [1; 2] c z) by (intros z; apply merge_in).
      split; [|split; [intros z Hz; apply Hin; now apply HT|intros z Hz; apply HB, Hin, Hz]].
      split; [apply merge_sd; [apply CL_12|assumption]|].
      split; [apply Hin; left; simpl; auto|]. split.
      * intros x Hx. apply Hin in Hx as [Hx|Hx]; [apply Hge; assumption|].
        specialize (Hlt x 1 Hx (or_introl eq_refl)). lia.
      * intros x Hx. apply Hin in Hx as [[<-|[<-|[]]]|Hx].
        -- left; reflexivity.
        -- right. exists 1, 1. repeat split; try (apply Hin; left; simpl; auto).
        -- right. destruct (Hex x Hx) as (u & v & Hu & Hv & E). exists u, v. repeat split; auto; now apply Hin.
    + apply Nat.leb_gt in El.
      assert (Hne : proto <> []) by (destruct proto; simpl in *; [lia|discriminate]).
      set (t := last proto 0) in *. set (proto' := removelast proto) in *.
      assert (Esplit : proto = proto' ++ [t]) by (apply app_removelast_last; assumption).
      assert (Hsp' : sd proto' /\ forall y, In y proto' -> y < t) by (apply sd_app_last; rewrite <- Esplit; assumption).
      destruct Hsp' as [Hsp' Hmax].
      assert (Hint : In t proto) by (rewrite Esplit; apply in_or_app; simpl; auto).
      assert (Hsub : forall y, In y proto' -> In y proto) by (intros y Hy; rewrite Esplit; apply in_or_app; auto).
      assert (Ht3 : 2 < t).
      { destruct (Z.lt_ge_cases 2 t) as [|Hle]; [assumption|]. exfalso.
        assert (length proto <= 2)%nat; [|lia]. apply (sd_count proto 1 2 Hsp).
        intros y Hy. split; [now apply Hge|]. rewrite Esplit in Hy. apply in_app_or in Hy as [Hy|[<-|[]]].
        - specialize (Hmax y Hy). lia.
        - lia. }
      assert (H1' : In 1 proto').
      { rewrite Esplit in H1. apply in_app_or in H1 as [?|[E|[]]]; [assumption|lia]. }
      assert (H2' : In 2 proto').
      { rewrite Esplit in H2. apply in_app_or in H2 as [?|[E|[]]]; [assumption|lia]. }
      assert (Hpre : good_pre proto' t).
      { split; [assumption|]. split; [assumption|]. split; [assumption|].
        intros y Hy. specialize (Hmax y Hy). specialize (Hge y (Hsub y Hy)). lia. }
      pose proof (Hgood proto' t Hpre) as Hg.
      destruct (suggest h proto' t) as [[ins|]| | |] eqn:Es; try (exfalso; exact Hg).
      * destruct Hg as (Hsi & Hbi & u & v & Hu & Hv & Euv).
        assert (Hp'' : forall z, In z (merge_unique proto' ins) <-> In z proto' \/ In z ins) by (intros; apply merge_in).
        assert (Hc' : forall z, In z (insert_sorted_unique c t) <-> z = t \/ In z c) by (intros; apply insert_in).
        assert (Hmove : forall z, U proto c z -> U (merge_unique proto' ins) (insert_sorted_unique c t) z).
        { intros z [Hz|Hz].
          - rewrite Esplit in Hz. apply in_app_or in Hz as [Hz|[<-|[]]].
            + left. apply Hp''. auto.
            + right. apply Hc'. auto.
          - right. apply Hc'. auto. }
        assert (HI' : Inv (merge_unique proto' ins) (insert_sorted_unique c t)).
        { split; [apply merge_sd; assumption|]. split; [apply Hp''; auto|]. split; [apply Hp''; auto|].
          split; [|split; [|split; [|split; [|split; [|split]]]]].
          + intros y Hy. apply Hp'' in Hy as [Hy|Hy]; [apply Hge, Hsub, Hy|specialize (Hbi y Hy); lia].
          + apply insert_sd; assumption.
          + intros x y Hx Hy. apply Hc' in Hx. apply Hp'' in Hy.
            destruct Hx as [->|Hx].
            * destruct Hy as [Hy|Hy]; [now apply Hmax|now apply Hbi].
            * destruct Hy as [Hy|Hy]; [apply Hlt; auto|]. specialize (Hlt x t Hx Hint). specialize (Hbi y Hy). lia.
          + intros x Hx. apply Hc' in Hx as [->|Hx].
            * exists u, v. repeat split; auto; left; apply Hp''; assumption.
            * destruct (Hex x Hx) as (a & b & Ha & Hb & E). exists a, b. repeat split; auto.
          + intros z Hz. apply Hmove. now apply HT.
          + exact HB2.
          + assert (HtB : t <= B) by (apply HB; left; exact Hint).
            intros z [Hz|Hz].
            * apply Hp'' in Hz as [Hz|Hz]; [apply HB; left; apply Hsub, Hz|specialize (Hbi z Hz); lia].
            * apply Hc' in Hz as [->|Hz]; [exact HtB|apply HB; right; exact Hz]. }
        specialize (IH _ _ HI').
        destruct (loop h fuel (merge_unique proto' ins) (insert_sorted_unique c t)) as [cf|e|e|]; try exact IH.
        (* out of fuel: the new maximum is below t *)
        assert (Hlast : last (merge_unique proto' ins) 0 < t).
        { assert (Hne' : merge_unique proto' ins <> []).
          { intros E. assert (Hx : In 1 (merge_unique proto' ins)) by (apply Hp''; auto). rewrite E in Hx. destruct Hx. }
          pose proof (last_in _ 0 Hne') as Hl. apply Hp'' in Hl as [Hl|Hl]; [now apply Hmax|now apply Hbi]. }
        lia.
      * split; [reflexivity|]. intros Htot. exact (Htot proto' t Hpre Es).
Qed.

Lemma init_inv : (forall z, In z T -> 0 < z) -> 2 <= B -> (forall z, In z T -> z <= B) -> Inv (init_proto T) [].
Proof.
  intros Hpos HB2 HTB. unfold init_proto.
  destruct (unique_spec (sort ([1; 2] ++ T)) (sort_nd _)) as [Hs Hi].
  assert (Hin : forall z, In z (unique (sort ([1; 2] ++ T))) <-> z = 1 \/ z = 2 \/ In z T).
  { intros z. rewrite Hi, sort_in. simpl. intuition. }
  split; [assumption|]. split; [apply Hin; auto|]. split; [apply Hin; auto|].
  split; [|split; [|split; [|split; [|split; [|split]]]]].
  - intros y Hy. apply Hin in Hy as [->|[->|Hy]]; try lia. specialize (Hpos y Hy). lia.
  - exact I.
  - intros x y [].
  - intros x [].
  - intros z Hz. left. apply Hin. auto.
  - exact HB2.
  - intros z [Hz|[]]. apply Hin in Hz as [->|[->|Hz]]; [lia|lia|auto].
Qed.
End Framework.

Lemma init_proto_spec T : sd (init_proto T) /\ forall z, In z (init_proto T) <-> z = 1 \/ z = 2 \/ In z T.
Proof.
  unfold init_proto. destruct (unique_spec (sort ([1; 2] ++ T)) (sort_nd _)) as [Hs Hi].
  split; [assumption|]. intros z. rewrite Hi, sort_in. simpl. intuition.
Qed.

Lemma init_proto_last T : let B := last (init_proto T) 0 in
  2 <= B /\ (forall z, In z T -> z <= B) /\ (B = 1 \/ B = 2 \/ In B T).
Proof.
  destruct (init_proto_spec T) as [Hs Hi]. cbn zeta.
  assert (Hne : init_proto T <> []).
  { intros E. assert (Hx : In 1 (init_proto T)) by (apply Hi; auto). rewrite E in Hx. destruct Hx. }
  pose proof (nd_last_max _ (sd_nd _ Hs)) as Hmax.
  split; [apply Hmax, Hi; auto|]. split; [intros z Hz; apply Hmax, Hi; auto|].
  apply Hi. now apply last_in.
Qed.

Lemma is_just_one_spec ts : is_just_one ts = true -> ts = [1].
Proof.
  destruct ts as [|x [|? ?]]; simpl; try discriminate. intros E. apply Z.eqb_eq in E. now subst.
Qed.

Lemma chain_one : is_chain [1] /\ asc [1].
Proof.
  split.
  - split; [exists []; reflexivity|]. split; [constructor; [intros []|constructor]|]. split.
    + intros [E|[]]. discriminate.
    + intros k Hk. simpl in Hk. lia.
  - split; [exists []; reflexivity|]. intros i j Hij. simpl in Hij. lia.
Qed.

(* FindSequence for any heuristic meeting good_suggest, any fuel *)
Theorem find_sequence_ok h : good_suggest h -> forall ts, (forall t, In t ts -> 0 < t) -> forall fuel,
  match find_sequence h fuel ts with
  | Ok c => is_chain c /\ asc c /\ (forall t, In t ts -> In t c) /\
            (forall x, In x c -> x <= 2 \/ exists t, In t ts /\ x <= t)
  | Err e => e = noseq /\ ~ total h
  | Panic _ => False
  | OutOfFuel => Z.of_nat fuel <= last (init_proto ts) 0 - 2
  end.
Proof.
  intros Hg ts Hpos fuel. unfold find_sequence. destruct (is_just_one ts) eqn:E1.
  - apply is_just_one_spec in E1. subst ts. destruct chain_one as [A B]. split; [assumption|]. split; [assumption|].
    split; [auto|]. intros x [<-|[]]. left. lia.
  - destruct (init_proto_last ts) as (HB2 & HTB & HBin). set (B := last (init_proto ts) 0) in *.
    pose proof (loop_spec h Hg ts B fuel (init_proto ts) [] (init_inv ts B Hpos HB2 HTB)) as H.
    destruct (loop h fuel (init_proto ts) []) as [c|e|e|]; try exact H.
    destruct H as (HCL & HT & HBd). destruct (CL_is_chain c HCL) as [A A']. split; [assumption|]. split; [assumption|].
    split; [assumption|]. intros x Hx. specialize (HBd x Hx).
    destruct HBin as [E|[E|Hin]]; [left; lia|left; lia|right; exists B; auto].
Qed.

(* fuel adequacy: the popped maxima strictly decrease *)
Theorem find_sequence_terminates h : good_suggest h -> forall ts, (forall t, In t ts -> 0 < t) ->
  exists f0, forall fuel, (f0 <= fuel)%nat -> find_sequence h fuel ts <> OutOfFuel.
Proof.
  intros Hg ts Hpos. exists (Z.to_nat (last (init_proto ts) 0)). intros fuel Hf E.
  pose proof (find_sequence_ok h Hg ts Hpos fuel) as H. rewrite E in H. lia.
Qed.

(* ---------- the entry point's fuel ---------- *)
Lemma iter_plus {A} (f : A -> A) : forall a b x, Nat.iter (a + b) f x = Nat.iter a f (Nat.iter b f x).
Proof. induction a as [|a IH]; intros b x; [reflexivity|]. cbn [Nat.add Nat.iter nat_rect]. f_equal. apply IH. Qed.

Lemma loop_iter h : forall fuel, loop h fuel = Nat.iter fuel (loop_body h) (fun _ _ => OutOfFuel).
Proof. induction fuel as [|f IH]; [reflexivity|]. cbn [loop]. rewrite IH. reflexivity. Qed.

Lemma loop_deep_iter h : forall n rec, loop_deep h n rec = Nat.iter (2 ^ n) (loop_body h) rec.
Proof.
  induction n as [|m IH]; intros rec; [reflexivity|].
  change (loop_deep h (S m) rec) with (loop_deep h m (loop_deep h m rec)).
  rewrite (IH (loop_deep h m rec)), (IH rec), <- iter_plus. f_equal. cbn [Nat.pow]. lia.
Qed.

Lemma find_sequence_go_eq h ts : find_sequence_go h ts = find_sequence h (2 ^ iter_bits ts) ts.
Proof.
  unfold find_sequence_go, find_sequence. destruct (is_just_one ts); [reflexivity|].
  rewrite loop_deep_iter, loop_iter. reflexivity.
Qed.

Theorem find_sequence_go_ok h : good_suggest h -> forall ts, (forall t, In t ts -> 0 < t) ->
  match find_sequence_go h ts with
  | Ok c => is_chain c /\ asc c /\ (forall t, In t ts -> In t c) /\
            (forall x, In x c -> x <= 2 \/ exists t, In t ts /\ x <= t)
  | Err e => e = noseq /\ ~ total h
  | _ => False
  end.
Proof.
  intros Hg ts Hpos. rewrite find_sequence_go_eq.
  pose proof (find_sequence_ok h Hg ts Hpos (2 ^ iter_bits ts)) as H.
  destruct (find_sequence h (2 ^ iter_bits ts) ts) as [c|e|e|]; try exact H.
  (* OutOfFuel is impossible: 2^bitlen(max) > max *)
  destruct (init_proto_last ts) as (Hl2 & _ & _).
  pose proof (bitlen_pos (last (init_proto ts) 0) ltac:(lia)) as [_ Hlt].
  rewrite Nat2Z.inj_pow in H. unfold iter_bits in H. rewrite N_nat_Z in H.
  change (Z.of_nat 2) with 2 in H. lia.
Qed.

(* ---------- every heuristic value is good; which ones are total ---------- *)
Fixpoint heur_good (h : heur) : good_suggest h :=
  match h with
  | Halving => halving_good
  | DeltaLargest => delta_good
  | Approximation => approx_good
  | UseFirst hs =>
      usefirst_good hs
        ((fix all (l : list heur) : Forall good_suggest l :=
            match l with
            | [] => Forall_nil _
            | x :: r => Forall_cons x (heur_good x) (all r)
            end) hs)
  end.

Fixpoint is_total (h : heur) : bool :=
  match h with
  | Halving => false
  | DeltaLargest | Approximation => true
  | UseFirst hs => existsb is_total hs
  end.

Fixpoint is_total_sound (h : heur) : is_total h = true -> total h :=
  match h return is_total h = true -> total h with
  | Halving => fun E => False_ind _ (Bool.diff_false_true E)
  | DeltaLargest => fun _ => delta_total
  | Approximation => fun _ => approx_total
  | UseFirst hs => fun E =>
      usefirst_total hs
        ((fix ex (l : list heur) : existsb is_total l = true -> Exists total l :=
            match l return existsb is_total l = true -> Exists total l with
            | [] => fun E0 => False_ind _ (Bool.diff_false_true E0)
            | x :: r => fun E0 =>
                match is_total x as b return is_total x = b -> b || existsb is_total r = true -> Exists total (x :: r) with
                | true => fun Ex _ => Exists_cons_hd _ x r (is_total_sound x Ex)
                | false => fun _ Er => Exists_cons_tl x (ex r Er)
                end eq_refl E0
            end) hs E)
  end.

Lemma halving_not_total : ~ total Halving.
Proof.
  intros Ht. apply (Ht [1; 2] 3); [|reflexivity].
  split; [simpl; repeat split; intros y Hy; simpl in Hy; intuition; subst; lia|].
  split; [simpl; auto|]. split; [simpl; auto|]. intros y Hy. simpl in Hy. intuition; subst; lia.
Qed.

(* FindSequence of heuristic.NewAlgorithm(h), as the entry point runs it, for every heuristic value *)
Theorem heuristic_find_sequence_ok h ts : (forall t, In t ts -> 0 < t) ->
  match find_sequence_go h ts with
  | Ok c => is_chain c /\ asc c /\ (forall t, In t ts -> In t c) /\
            (forall x, In x c -> x <= 2 \/ exists t, In t ts /\ x <= t)
  | Err e => e = noseq /\ is_total h = false
  | _ => False
  end.
Proof.
  intros Hpos. pose proof (find_sequence_go_ok h (heur_good h) ts Hpos) as H.
  destruct (find_sequence_go h ts) as [c|e|e|]; try exact H.
  destruct H as [E Hn]. split; [assumption|]. destruct (is_total h) eqn:Et; [|reflexivity].
  exfalso. apply Hn. now apply is_total_sound.
Qed.

(* ---------- nested use_first = use_first of the leaves in order ---------- *)
Fixpoint leaves (h : heur) : list heur :=
  match h with
  | UseFirst hs => flat_map leaves hs
  | _ => [h]
  end.

Lemma suggest_usefirst_app a : forall b f t,
  suggest (UseFirst (a ++ b)) f t =
  match suggest (UseFirst a) f t with Ok None => suggest (UseFirst b) f t | o => o end.
Proof.
  induction a as [|h a IH]; intros b f t; [reflexivity|].
  change ((h :: a) ++ b) with (h :: (a ++ b)). rewrite !suggest_usefirst_cons, IH.
  destruct (suggest h f t) as [[ins|]| | |]; reflexivity.
Qed.

Lemma suggest_single h f t : suggest (UseFirst [h]) f t = suggest h f t.
Proof. rewrite suggest_usefirst_cons, suggest_usefirst_nil. destruct (suggest h f t) as [[ins|]| | |]; reflexivity. Qed.

Lemma usefirst_cons_leaves x r f t :
  suggest x f t = suggest (UseFirst (leaves x)) f t ->
  suggest (UseFirst r) f t = suggest (UseFirst (flat_map leaves r)) f t ->
  suggest (UseFirst (x :: r)) f t = suggest (UseFirst (flat_map leaves (x :: r))) f t.
Proof.
  intros Hx Hr. cbn [flat_map]. rewrite suggest_usefirst_app, suggest_usefirst_cons, <- Hx, <- Hr. reflexivity.
Qed.

Fixpoint suggest_leaves (h : heur) : forall f t, suggest h f t = suggest (UseFirst (leaves h)) f t :=
  match h return forall f t, suggest h f t = suggest (UseFirst (leaves h)) f t with
  | Halving => fun f t => eq_sym (suggest_single Halving f t)
  | DeltaLargest => fun f t => eq_sym (suggest_single DeltaLargest f t)
  | Approximation => fun f t => eq_sym (suggest_single Approximation f t)
  | UseFirst hs => fun f t =>
      (fix go (l : list heur) : suggest (UseFirst l) f t = suggest (UseFirst (flat_map leaves l)) f t :=
         match l return suggest (UseFirst l) f t = suggest (UseFirst (flat_map leaves l)) f t with
         | [] => eq_refl
         | x :: r => usefirst_cons_leaves x r f t (suggest_leaves x f t) (go r)
         end) hs
  end.

(* so a nested composition and its spliced form give the same FindSequence *)
Lemma loop_body_ext h h' : (forall f t, suggest h f t = suggest h' f t) ->
  forall rec proto c, loop_body h rec proto c = loop_body h' rec proto c.
Proof. intros E rec proto c. unfold loop_body. rewrite E. reflexivity. Qed.

Theorem find_sequence_flatten h fuel ts :
  find_sequence h fuel ts = find_sequence (UseFirst (leaves h)) fuel ts.
Proof.
  unfold find_sequence. destruct (is_just_one ts); [reflexivity|].
  generalize (init_proto ts) (@nil Z). induction fuel as [|n IH]; intros proto c; [reflexivity|].
  cbn [loop]. rewrite (loop_body_ext h (UseFirst (leaves h)) (suggest_leaves h)).
  unfold loop_body. destruct (length proto <=? 2)%nat; [reflexivity|].
  destruct (suggest (UseFirst (leaves h)) (removelast proto) (last proto 0)) as [[ins|]| | |]; try reflexivity.
  apply IH.
Qed.
