(* Proofs about acc.Build (C04, C16), ported from proto_appendix/J2-J4 to the shared types:
   the builder never hits its assertion, and re-translating the statements it writes emits
   exactly the instruction list (operands of additions in canonical order). *)
From Coq Require Import String.
From Coq Require Import List NArith ZArith Bool Arith Lia ZifyBool ZifyNat ZifyN.
From AV Require Import model.Proto model.Chain model.Program model.Ir model.Ast model.Bits
  model.Decompile model.Naming model.Build proofs.BuildTranslateAux proofs.DecompileProofs proofs.NamingProofs.
Import ListNotations.
Open Scope Z_scope.

(* ------------------------------------------------------------------ *)
(* generalities                                                        *)
(* ------------------------------------------------------------------ *)

Lemma str_eqb_eq a : forall b, str_eqb a b = true <-> a = b.
Proof.
  induction a as [|x a IH]; intros [|y b]; cbn [str_eqb]; try (split; congruence).
  rewrite andb_true_iff, N.eqb_eq, IH. split; [intros [-> ->]; reflexivity|intros H; injection H; auto].
Qed.

Lemma str_eqb_refl a : str_eqb a a = true.
Proof. now apply str_eqb_eq. Qed.

Lemma str_eqb_neq a b : a <> b -> str_eqb a b = false.
Proof. intros H. destruct (str_eqb a b) eqn:E; [|reflexivity]. apply str_eqb_eq in E. contradiction. Qed.

Lemma slookup_cons_eq k v m : slookup k ((k, v) :: m) = Some v.
Proof. cbn [slookup]. now rewrite str_eqb_refl. Qed.

Lemma slookup_cons_neq k k' v m : k <> k' -> slookup k' ((k, v) :: m) = slookup k' m.
Proof. intros H. cbn [slookup]. now rewrite (str_eqb_neq k k' H). Qed.

Lemma slookup_in k m v : slookup k m = Some v -> In (k, v) m.
Proof.
  induction m as [|[k' v'] m IH]; [discriminate|]. cbn [slookup]. destruct (str_eqb k' k) eqn:E.
  - apply str_eqb_eq in E. subst. intros H. injection H as ->. now left.
  - intros H. right. now apply IH.
Qed.

Lemma slookup_none k m : slookup k m = None -> forall v, ~ In (k, v) m.
Proof.
  induction m as [|[k' v'] m IH]; [intros _ v []|]. cbn [slookup]. destruct (str_eqb k' k) eqn:E; [discriminate|].
  intros H v [Hin|Hin].
  - injection Hin as -> _. rewrite str_eqb_refl in E. discriminate.
  - eapply IH; eauto.
Qed.

Lemma zlookup_cons_eq {A} k (v : A) m : zlookup k ((k, v) :: m) = Some v.
Proof. cbn [zlookup]. now rewrite Z.eqb_refl. Qed.

Lemma zlookup_cons_neq {A} k k' (v : A) m : k <> k' -> zlookup k' ((k, v) :: m) = zlookup k' m.
Proof. intros H. cbn [zlookup]. apply Z.eqb_neq in H. now rewrite H. Qed.

(* ------------------------------------------------------------------ *)
(* shape of an instruction list whose outputs follow Translate's counter *)
(* ------------------------------------------------------------------ *)

Definition out (i : instr) : Z := oindex (iout i).
Definition width (o : iop) : Z := match o with IShift _ s => Z.of_N s | _ => 1 end.

Fixpoint wfrom (m : Z) (P : iprogram) : Prop :=
  match P with
  | [] => True
  | i :: r => 1 <= width (iopn i) /\ out i = m + width (iopn i) - 1 /\ wfrom (m + width (iopn i)) r
  end.
Fixpoint nafter (m : Z) (P : iprogram) : Z :=
  match P with [] => m | i :: r => nafter (m + width (iopn i)) r end.

Lemma nafter_app m a b : nafter m (a ++ b) = nafter (nafter m a) b.
Proof. revert m; induction a as [|i a IH]; intros m; cbn [app nafter]; auto. Qed.

Lemma wfrom_app m a b : wfrom m (a ++ b) <-> wfrom m a /\ wfrom (nafter m a) b.
Proof. revert m; induction a as [|i a IH]; intros m; cbn [app wfrom nafter]; [tauto|]. rewrite IH. tauto. Qed.

Lemma nafter_mono : forall l m, wfrom m l -> m <= nafter m l.
Proof.
  induction l as [|q l IH]; intros m H; cbn [nafter]; [lia|].
  destruct H as (H1 & _ & H2). specialize (IH _ H2). lia.
Qed.

Lemma wfrom_outs m a : wfrom m a -> forall i, In i a -> m <= out i < nafter m a.
Proof.
  revert m; induction a as [|j a IH]; intros m Hw i Hi; [destruct Hi|].
  cbn [wfrom nafter] in *. destruct Hw as (Hw1 & Hout & Hw2).
  pose proof (nafter_mono _ _ Hw2) as Hm.
  destruct Hi as [<-|Hi]; [lia|]. specialize (IH _ Hw2 i Hi). lia.
Qed.

(* operands stripped of identifiers, additions ordered as Translate orders them *)
Definition io := index_operand.
Definition canon_op (o : iop) : iop :=
  match o with
  | IAdd x y => if oindex y <? oindex x then IAdd (io (oindex y)) (io (oindex x)) else IAdd (io (oindex x)) (io (oindex y))
  | IDouble x => IDouble (io (oindex x))
  | IShift x s => IShift (io (oindex x)) s
  end.
Definition canon_inst (i : instr) : instr := mkInstr (io (out i)) (canon_op (iopn i)).

Lemma canon_add_comm x y : canon_op (IAdd (io x) (io y)) = canon_op (IAdd (io y) (io x)).
Proof.
  unfold canon_op, io, index_operand. cbn [oindex].
  destruct (y <? x) eqn:E1; destruct (x <? y) eqn:E2; auto.
  - apply Z.ltb_lt in E1, E2. lia.
  - apply Z.ltb_ge in E1, E2. assert (x = y) by lia. now subst.
Qed.

Lemma canon_add_io x y : canon_op (IAdd x y) = canon_op (IAdd (io (oindex x)) (io (oindex y))).
Proof. reflexivity. Qed.

(* ------------------------------------------------------------------ *)
(* Translate: expressions only append instructions                      *)
(* ------------------------------------------------------------------ *)

Definition atom_ok (vs : list (list N * Z)) (x : Z) (e : expr) : Prop :=
  match e with EOperand i => i = x | EIdent s => slookup s vs = Some x | _ => False end.

Lemma tr_atom e x st : atom_ok (t_vars st) x e -> tr_expr e st = Ok (x, st) /\ is_op e = false.
Proof. destruct e; cbn [atom_ok tr_expr is_op]; intros H; try contradiction; [subst; auto|rewrite H; auto]. Qed.

Lemma tr_stmts_app a b st :
  tr_stmts (a ++ b) st = obind (tr_stmts a st) (fun st1 => tr_stmts b st1).
Proof.
  revert st; induction a as [|s a IH]; intros st; cbn [app tr_stmts obind]; [reflexivity|].
  destruct (tr_stmt st s); cbn [obind]; auto.
Qed.

Lemma tr_expr_vars e : forall st x st', tr_expr e st = Ok (x, st') -> t_vars st' = t_vars st.
Proof.
  induction e as [i|s|a IHa b IHb|a IHa s|a IHa]; intros st x st' H; cbn [tr_expr] in H.
  - now inversion H.
  - destruct (slookup s (t_vars st)); inversion H; auto.
  - destruct (tr_expr a st) as [[ia st1]| | |] eqn:Ea; try discriminate. cbn [obind] in H.
    destruct (tr_expr b st1) as [[ib st2]| | |] eqn:Eb; try discriminate. cbn [obind] in H.
    destruct (ib <? ia); inversion H; subst; cbn [t_vars];
      rewrite (IHb _ _ _ Eb); apply (IHa _ _ _ Ea).
  - destruct (tr_expr a st) as [[ia st1]| | |] eqn:Ea; try discriminate. cbn [obind] in H.
    destruct (s =? 0)%N; inversion H; subst; cbn [t_vars]; apply (IHa _ _ _ Ea).
  - destruct (tr_expr a st) as [[ia st1]| | |] eqn:Ea; try discriminate. cbn [obind] in H.
    inversion H; subst; cbn [t_vars]; apply (IHa _ _ _ Ea).
Qed.

Lemma tr_add ex ey st ix st1 iy st2 : tr_expr ex st = Ok (ix, st1) -> tr_expr ey st1 = Ok (iy, st2) ->
  tr_expr (EAdd ex ey) st =
    Ok (t_n st2, mkT (t_n st2 + 1) (t_vars st2)
                     (t_emitted st2 ++ [mkInstr (io (t_n st2)) (canon_op (IAdd (io ix) (io iy)))])).
Proof.
  intros E1 E2. cbn [tr_expr]. rewrite E1. cbn [obind]. rewrite E2. cbn [obind].
  unfold canon_op, io, index_operand; cbn [oindex]. destruct (iy <? ix); reflexivity.
Qed.

Lemma tr_double ex st ix st1 : tr_expr ex st = Ok (ix, st1) ->
  tr_expr (EDouble ex) st =
    Ok (t_n st1, mkT (t_n st1 + 1) (t_vars st1) (t_emitted st1 ++ [mkInstr (io (t_n st1)) (IDouble (io ix))])).
Proof. intros E1. cbn [tr_expr]. rewrite E1. reflexivity. Qed.

Lemma tr_shift ex s st ix st1 : tr_expr ex st = Ok (ix, st1) -> (s <> 0)%N ->
  tr_expr (EShift ex s) st =
    Ok (t_n st1 + Z.of_N s - 1,
        mkT (t_n st1 + Z.of_N s) (t_vars st1)
            (t_emitted st1 ++ [mkInstr (io (t_n st1 + Z.of_N s - 1)) (IShift (io ix) s)])).
Proof. intros E1 Hs. cbn [tr_expr]. rewrite E1. cbn [obind]. apply N.eqb_neq in Hs. rewrite Hs. reflexivity. Qed.

(* ------------------------------------------------------------------ *)
(* the builder                                                          *)
(* ------------------------------------------------------------------ *)

Definition plast (pend : list instr) : option Z :=
  match rev pend with [] => None | i :: _ => Some (out i) end.

Lemma plast_snoc pend k : plast (pend ++ [k]) = Some (out k).
Proof. unfold plast. rewrite rev_app_distr. reflexivity. Qed.

Lemma plast_nil_inv pend : plast pend = None -> pend = [].
Proof.
  unfold plast. destruct (rev pend) eqn:E; [|discriminate]. intros _.
  apply (f_equal (@rev _)) in E. now rewrite rev_involutive in E.
Qed.

Lemma b_operand_cons_neq stm c b k e x : k <> x ->
  b_operand (mkB stm ((k, e) :: b_expr b) c) x = b_operand b x.
Proof. intros H. unfold b_operand. cbn [b_expr]. now rewrite zlookup_cons_neq. Qed.

Lemma b_operand_cons_eq stm c b k e : b_operand (mkB stm ((k, e) :: b_expr b) c) k = e.
Proof. unfold b_operand. cbn [b_expr]. now rewrite zlookup_cons_eq. Qed.

Lemma b_name_nonempty ident idx : b_name ident idx <> [].
Proof. destruct ident; cbn [b_name]; discriminate. Qed.

Lemma has_input_in o x : has_input o x = true <-> In x (map oindex (inputs o)).
Proof.
  unfold has_input. rewrite existsb_exists, in_map_iff. split.
  - intros (i & Hi & E). apply Z.eqb_eq in E. eauto.
  - intros (i & E & Hi). exists i. split; [assumption|now apply Z.eqb_eq].
Qed.

(* classification of an operand of the next instruction that is still an inlined expression *)
Definition pending_at (b : bstate) (ts : tstate) (pend : list instr) (a : Z) : Prop :=
  plast pend = Some a /\ is_op (b_operand b a) = true /\
  exists ts', tr_expr (b_operand b a) ts = Ok (a, ts') /\ t_vars ts' = t_vars ts /\
              t_emitted ts' = t_emitted ts ++ map canon_inst pend /\ t_n ts' = nafter (t_n ts) pend.

(* the expression built for instruction k translates to exactly the pending instructions followed by k *)
Lemma op_translate b ts pend k :
  1 <= width (iopn k) -> out k = nafter (t_n ts) pend + width (iopn k) - 1 ->
  (forall x, In x (input_indexes k) -> plast pend <> Some x -> atom_ok (t_vars ts) x (b_operand b x)) ->
  match plast pend with
  | None => pend = []
  | Some x => In x (input_indexes k) /\ count_occ Z.eq_dec (input_indexes k) x = 1%nat /\ pending_at b ts pend x
  end ->
  exists e ts2, b_operator b (iopn k) = Ok e /\ is_op e = true /\ tr_expr e ts = Ok (out k, ts2) /\
    t_vars ts2 = t_vars ts /\ t_emitted ts2 = t_emitted ts ++ map canon_inst (pend ++ [k]) /\
    t_n ts2 = nafter (t_n ts) (pend ++ [k]).
Proof.
  intros Hw Hout Hat Hp. rewrite map_app, nafter_app. cbn [map nafter].
  destruct k as [ok opk]. unfold out in Hout |- *. cbn [iout iopn] in *. unfold canon_inst, out; cbn [iout iopn].
  destruct (plast pend) as [x|] eqn:Epl.
  - destruct Hp as (Hin & Hcnt & _ & Hop & ts' & Etr & Evars & Eem & En).
    rewrite <- En in Hout |- *.
    destruct opk as [a c|a|a s]; unfold input_indexes in *; cbn [inputs width iopn map] in *.
    + (* add: exactly one operand is the pending one *)
      assert (Eok : oindex ok = t_n ts') by lia.
      cbn [count_occ] in Hcnt.
      destruct (Z.eq_dec (oindex a) x) as [Eax|Hax]; destruct (Z.eq_dec (oindex c) x) as [Ecx|Hcx]; try lia.
      * (* a pending, c atom *)
        destruct (tr_atom (b_operand b (oindex c)) (oindex c) ts') as [Ec Hopc];
          [rewrite Evars; apply Hat; [right; left; reflexivity|congruence]|].
        eexists. eexists. split; [|split; [|split; [|split; [|split]]]].
        -- unfold b_operator, b_add. rewrite Eax, Hop, Hopc. reflexivity.
        -- reflexivity.
        -- rewrite (tr_add _ _ _ _ _ _ _ Etr Ec), Eok. reflexivity.
        -- exact Evars.
        -- cbn [t_emitted]. rewrite Eem, <- app_assoc, (canon_add_io a c), Eax, Eok. reflexivity.
        -- cbn [t_n]. reflexivity.
      * (* c pending, a atom *)
        destruct (tr_atom (b_operand b (oindex a)) (oindex a) ts') as [Ea Hopa];
          [rewrite Evars; apply Hat; [left; reflexivity|congruence]|].
        eexists. eexists. split; [|split; [|split; [|split; [|split]]]].
        -- unfold b_operator, b_add. rewrite Ecx, Hop, Hopa. reflexivity.
        -- reflexivity.
        -- rewrite (tr_add _ _ _ _ _ _ _ Etr Ea), Eok. reflexivity.
        -- exact Evars.
        -- cbn [t_emitted]. rewrite Eem, <- app_assoc, (canon_add_io a c), Ecx, Eok, (canon_add_comm (oindex a) x). reflexivity.
        -- cbn [t_n]. reflexivity.
    + assert (Eok : oindex ok = t_n ts') by lia.
      destruct Hin as [Eax|[]].
      eexists. eexists. split; [|split; [|split; [|split; [|split]]]].
      -- unfold b_operator. rewrite Eax. reflexivity.
      -- reflexivity.
      -- rewrite (tr_double _ _ _ _ Etr), Eok. reflexivity.
      -- exact Evars.
      -- cbn [t_emitted canon_op]. rewrite Eem, <- app_assoc, Eax, Eok. reflexivity.
      -- cbn [t_n]. reflexivity.
    + assert (Eok : oindex ok = t_n ts' + Z.of_N s - 1) by lia.
      destruct Hin as [Eax|[]].
      eexists. eexists. split; [|split; [|split; [|split; [|split]]]].
      -- unfold b_operator. rewrite Eax. reflexivity.
      -- reflexivity.
      -- rewrite (tr_shift _ s _ _ _ Etr) by lia. rewrite Eok. reflexivity.
      -- exact Evars.
      -- cbn [t_emitted canon_op]. rewrite Eem, <- app_assoc, Eax, Eok. reflexivity.
      -- cbn [t_n]. reflexivity.
  - subst pend. cbn [nafter map app] in *.
    destruct opk as [a c|a|a s]; unfold input_indexes in *; cbn [inputs width iopn map] in *.
    + assert (Eok : oindex ok = t_n ts) by lia.
      destruct (tr_atom (b_operand b (oindex a)) (oindex a) ts) as [Ea Hopa]; [apply Hat; [left; reflexivity|congruence]|].
      destruct (tr_atom (b_operand b (oindex c)) (oindex c) ts) as [Ec Hopc]; [apply Hat; [right; left; reflexivity|congruence]|].
      eexists. eexists. split; [|split; [|split; [|split; [|split]]]].
      -- unfold b_operator, b_add. rewrite Hopa, Hopc. reflexivity.
      -- reflexivity.
      -- rewrite (tr_add _ _ _ _ _ _ _ Ea Ec), Eok. reflexivity.
      -- reflexivity.
      -- cbn [t_emitted]. rewrite (canon_add_io a c), Eok. reflexivity.
      -- cbn [t_n]. reflexivity.
    + assert (Eok : oindex ok = t_n ts) by lia.
      destruct (tr_atom (b_operand b (oindex a)) (oindex a) ts) as [Ea Hopa]; [apply Hat; [left; reflexivity|congruence]|].
      eexists. eexists. split; [|split; [|split; [|split; [|split]]]].
      -- unfold b_operator. reflexivity.
      -- reflexivity.
      -- rewrite (tr_double _ _ _ _ Ea), Eok. reflexivity.
      -- reflexivity.
      -- cbn [t_emitted]. rewrite Eok. reflexivity.
      -- cbn [t_n]. reflexivity.
    + assert (Eok : oindex ok = t_n ts + Z.of_N s - 1) by lia.
      destruct (tr_atom (b_operand b (oindex a)) (oindex a) ts) as [Ea Hopa]; [apply Hat; [left; reflexivity|congruence]|].
      eexists. eexists. split; [|split; [|split; [|split; [|split]]]].
      -- unfold b_operator. reflexivity.
      -- reflexivity.
      -- rewrite (tr_shift _ s _ _ _ Ea) by lia. rewrite Eok. reflexivity.
      -- reflexivity.
      -- cbn [t_emitted]. rewrite Eok. reflexivity.
      -- cbn [t_n]. reflexivity.
Qed.

Section BT.
Variable tbl : list (Z * list N).
Variable rc : list (Z * nat).
Variable P : iprogram.

Definition nameof (k : Z) : list N := b_name (ident_of tbl k) k.

Hypothesis Hinj : forall i j, In i (map out P) -> In j (map out P) -> nameof i = nameof j -> i = j.
Hypothesis Hwf : wfrom 1 P.
(* consequence of rc = pass.ReadCounts: the number of occurrences among all inputs *)
Hypothesis Hreads : forall x pre k post, P = pre ++ k :: post -> rc_get rc x = 1%nat -> In x (input_indexes k) ->
  count_occ Z.eq_dec (input_indexes k) x = 1%nat /\ forall i, In i (pre ++ post) -> ~ In x (input_indexes i).

Notation b_step := (b_step tbl rc).
Notation b_loop := (b_loop tbl rc).

Definition Inv (done todo : list instr) (b : bstate) : Prop := exists ts d1 pend,
  done = d1 ++ pend /\ length pend = b_cx b /\
  tr_stmts (b_stmts b) t_init = Ok ts /\ t_emitted ts = map canon_inst d1 /\ t_n ts = nafter 1 d1 /\
  (forall nm idx, In (nm, idx) (t_vars ts) -> nm = nameof idx /\ In idx (map out d1)) /\
  (forall s, In s (b_stmts b) -> exists k, In k (map out d1) /\ sname s = nameof k) /\
  (forall x, (exists i, In i todo /\ In x (input_indexes i)) -> plast pend <> Some x ->
             atom_ok (t_vars ts) x (b_operand b x)) /\
  match plast pend with
  | None => True
  | Some x => is_op (b_operand b x) = true /\ rc_get rc x = 1%nat /\
              (exists k todo', todo = k :: todo' /\ In x (input_indexes k)) /\
              exists ts', tr_expr (b_operand b x) ts = Ok (x, ts') /\
                          t_emitted ts' = t_emitted ts ++ map canon_inst pend /\ t_n ts' = nafter (t_n ts) pend
  end.

Lemma nameof_nonempty k : nameof k <> [].
Proof using. apply b_name_nonempty. Qed.

Lemma inv_step done k todo' b : P = done ++ k :: todo' -> Inv done (k :: todo') b ->
  exists b', b_step b k (hd_error todo') = Ok b' /\ Inv (done ++ [k]) todo' b'.
Proof using Hinj Hwf Hreads.
  intros EP (ts & d1 & pend & Ed & Hcx & Etr & Eem & En & Hvars & Hst & Hatoms & Hpl).
  assert (Hwk : wfrom (nafter 1 done) (k :: todo')) by (rewrite EP in Hwf; apply wfrom_app in Hwf; tauto).
  destruct Hwk as (Hw1 & Hout & _).
  assert (Enaf : nafter 1 done = nafter (t_n ts) pend) by (rewrite Ed, nafter_app, En; reflexivity).
  rewrite Enaf in Hout.
  (* a pending value is consumed by k and read by nobody else *)
  assert (Hcons : forall x, plast pend = Some x -> rc_get rc x = 1%nat /\ In x (input_indexes k) /\
            count_occ Z.eq_dec (input_indexes k) x = 1%nat /\
            forall i, In i (done ++ todo') -> ~ In x (input_indexes i)).
  { intros x Ex. rewrite Ex in Hpl. destruct Hpl as (_ & Hr & (k0 & t0 & E0 & Hin) & _).
    injection E0 as <- <-. destruct (Hreads x done k todo' EP Hr Hin). auto. }
  destruct (op_translate b ts pend k Hw1 Hout) as (e & ts2 & Ebo & Hope & Etr2 & Evars2 & Eem2 & En2).
  { intros x Hx Hnp. apply Hatoms; [exists k; split; [left; reflexivity|exact Hx]|assumption]. }
  { destruct (plast pend) as [x|] eqn:Epl; [|now apply plast_nil_inv].
    destruct (Hcons x eq_refl) as (Hr & Hin & Hcnt & _). split; [exact Hin|]. split; [exact Hcnt|].
    split; [exact Epl|]. split; [apply Hpl|].
    destruct Hpl as (_ & _ & _ & ts' & E1 & E2 & E3). exists ts'. repeat split; auto. eapply tr_expr_vars; eauto. }
  assert (Hsub : forall i, In i (map out done) -> In i (map out P)).
  { intros i Hi. rewrite EP, map_app. apply in_or_app. now left. }
  assert (Hsub1 : forall i, In i (map out d1) -> In i (map out done)).
  { intros i Hi. rewrite Ed, map_app. apply in_or_app. now left. }
  assert (Hkin : In (out k) (map out P)).
  { rewrite EP, map_app. apply in_or_app. right. left. reflexivity. }
  assert (Hfresh : ~ In (out k) (map out done)).
  { intros Hin. apply in_map_iff in Hin as (i & Ei & Hi). rewrite EP in Hwf. apply wfrom_app in Hwf as [Hwd _].
    pose proof (wfrom_outs 1 done Hwd i Hi). rewrite Enaf in H. lia. }
  (* atoms still readable by the remaining instructions, other than out k *)
  assert (Hold : forall x, (exists i, In i todo' /\ In x (input_indexes i)) -> out k <> x ->
            atom_ok (t_vars ts) x (b_operand b x)).
  { intros x (i & Hi & Hx) Hne. apply Hatoms; [exists i; split; [right; exact Hi|exact Hx]|].
    intros Epl. destruct (Hcons x Epl) as (_ & _ & _ & Hno). apply (Hno i); [apply in_or_app; auto|assumption]. }
  (* a name already bound belongs to an earlier output *)
  assert (Hbound : forall v, ~ In (nameof (out k), v) (t_vars ts)).
  { intros v Hv. destruct (Hvars _ _ Hv) as [En' Hv1]. apply Hfresh.
    rewrite (Hinj (out k) v Hkin (Hsub _ (Hsub1 _ Hv1)) En'). now apply Hsub1. }
  unfold Build.b_step. rewrite Ebo. cbn [obind].
  fold (out k). fold (nameof (out k)).
  match goal with |- context [if ?c then _ else _] => destruct c eqn:Econd end.
  - (* inlined *)
    eexists. split; [reflexivity|].
    apply andb_true_iff in Econd as [Econd _]. apply andb_true_iff in Econd as [Econd Hun].
    apply andb_true_iff in Econd as [_ Hr1]. apply Nat.eqb_eq in Hr1.
    exists ts, d1, (pend ++ [k]). rewrite plast_snoc.
    split; [rewrite Ed, app_assoc; reflexivity|].
    split; [rewrite app_length; cbn [length b_cx]; lia|].
    split; [exact Etr|]. split; [exact Eem|]. split; [exact En|]. split; [exact Hvars|]. split; [exact Hst|]. split.
    + intros x Hx Hne. rewrite b_operand_cons_neq by congruence. apply Hold; [assumption|congruence].
    + rewrite b_operand_cons_eq. split; [exact Hope|]. split; [exact Hr1|]. split.
      * destruct todo' as [|j t]; [discriminate|]. exists j, t. split; [reflexivity|].
        cbn [hd_error] in Hun. now apply has_input_in in Hun.
      * exists ts2. auto.
  - (* committed *)
    eexists. split; [reflexivity|].
    set (ts3 := mkT (t_n ts2) ((nameof (out k), out k) :: t_vars ts2) (t_emitted ts2)).
    assert (Hnone : slookup (nameof (out k)) (t_vars ts2) = None).
    { rewrite Evars2. destruct (slookup (nameof (out k)) (t_vars ts)) eqn:E; [|reflexivity]. exfalso.
      apply slookup_in in E. exact (Hbound _ E). }
    exists ts3, (done ++ [k]), []. cbn [plast rev].
    split; [now rewrite app_nil_r|]. split; [reflexivity|]. split.
    { cbn [b_stmts]. rewrite tr_stmts_app, Etr. cbn [obind tr_stmts]. unfold tr_stmt. cbn [sname sexpr].
      rewrite Etr2. cbn [obind]. rewrite Hnone. reflexivity. }
    split; [unfold ts3; cbn [t_emitted]; rewrite Eem2, Eem, Ed, <- map_app, app_assoc; reflexivity|].
    split; [unfold ts3; cbn [t_n]; rewrite En2, En, <- nafter_app, Ed, app_assoc; reflexivity|].
    split.
    { intros nm idx Hin. unfold ts3 in Hin. cbn [t_vars] in Hin. rewrite map_app. destruct Hin as [Hin|Hin].
      - injection Hin as <- <-. split; [reflexivity|]. apply in_or_app. right. left. reflexivity.
      - rewrite Evars2 in Hin. destruct (Hvars _ _ Hin) as [H1 H2]. split; [exact H1|].
        apply in_or_app. left. now apply Hsub1. }
    split.
    { intros s Hs. cbn [b_stmts] in Hs. apply in_app_or in Hs as [Hs|[<-|[]]].
      - destruct (Hst s Hs) as (k0 & Hk0 & Ek0). exists k0. split; [|exact Ek0].
        rewrite map_app. apply in_or_app. left. now apply Hsub1.
      - exists (out k). split; [|reflexivity]. rewrite map_app. apply in_or_app. right. left. reflexivity. }
    split; [|exact I].
    intros x Hx _. destruct (Z.eq_dec (out k) x) as [<-|Hne].
    + rewrite b_operand_cons_eq. unfold atom_ok, ts3. cbn [t_vars]. apply slookup_cons_eq.
    + rewrite b_operand_cons_neq by assumption. specialize (Hold x Hx Hne).
      unfold ts3. cbn [t_vars]. rewrite Evars2.
      destruct (b_operand b x) as [i|s| | |]; cbn [atom_ok] in Hold |- *; try contradiction; [assumption|].
      destruct (list_eq_dec N.eq_dec (nameof (out k)) s) as [<-|Hns]; [|now rewrite slookup_cons_neq].
      exfalso. apply slookup_in in Hold. exact (Hbound _ Hold).
Qed.

Lemma loop_inv : forall todo done b, P = done ++ todo -> Inv done todo b ->
  exists b', b_loop b todo = Ok b' /\ Inv P [] b'.
Proof using Hinj Hwf Hreads.
  induction todo as [|k todo IH]; intros done b EP HI.
  - exists b. split; [reflexivity|]. rewrite app_nil_r in EP. now subst.
  - destruct (inv_step done k todo b EP HI) as (b1 & E1 & HI1). cbn [Build.b_loop]. rewrite E1. cbn [obind].
    apply (IH (done ++ [k]) b1); [rewrite <- app_assoc; exact EP|exact HI1].
Qed.

(* Build never hits its assertion failure, and re-translating the statements it writes emits
   exactly P, operands of additions in canonical order; every statement is named after the
   output it defines, and Translate binds that name to that output *)
Theorem build_translate_loop : exists b ts, b_loop b_init P = Ok b /\
  tr_stmts (b_stmts b) t_init = Ok ts /\ t_emitted ts = map canon_inst P /\ t_n ts = nafter 1 P /\
  (forall nm idx, In (nm, idx) (t_vars ts) -> nm = nameof idx /\ In idx (map out P)) /\
  (forall s, In s (b_stmts b) -> exists k, In k (map out P) /\ sname s = nameof k).
Proof using Hinj Hwf Hreads.
  assert (HI : Inv [] P b_init).
  { exists t_init, [], []. cbn [plast rev].
    split; [reflexivity|]. split; [reflexivity|]. split; [reflexivity|]. split; [reflexivity|].
    split; [reflexivity|]. split; [intros nm idx []|]. split; [intros s []|]. split; [|exact I].
    intros x _ _. reflexivity. }
  destruct (loop_inv P [] b_init eq_refl HI) as (b & Eb & (ts & d1 & pend & Ed & Hcx & Etr & Eem & En & Hvars & Hst & _ & Hpl)).
  exists b, ts. split; [exact Eb|]. split; [exact Etr|].
  assert (pend = []).
  { destruct (plast pend) as [x|] eqn:E; [|now apply plast_nil_inv].
    destruct Hpl as (_ & _ & (k0 & t0 & E0 & _) & _). discriminate. }
  subst pend. rewrite app_nil_r in Ed. subst d1. auto.
Qed.

End BT.

(* ------------------------------------------------------------------ *)
(* pass.ReadCounts is the number of occurrences among all inputs        *)
(* ------------------------------------------------------------------ *)

Lemma rc_get_bump m y x : rc_get (rc_bump m y) x = (rc_get m x + (if Z.eq_dec y x then 1 else 0))%nat.
Proof.
  unfold rc_bump, rc_get at 1. cbn [zlookup]. destruct (Z.eq_dec y x) as [->|Hne].
  - rewrite Z.eqb_refl. lia.
  - apply Z.eqb_neq in Hne. rewrite Hne. fold (rc_get m x). lia.
Qed.

Lemma rc_fold_inputs : forall l m x,
  rc_get (fold_left rc_bump l m) x = (rc_get m x + count_occ Z.eq_dec l x)%nat.
Proof.
  induction l as [|y l IH]; intros m x; cbn [fold_left count_occ]; [lia|].
  rewrite IH, rc_get_bump. destruct (Z.eq_dec y x); lia.
Qed.

Lemma rc_fold_prog : forall P m x,
  rc_get (fold_left (fun m i => fold_left rc_bump (input_indexes i) m) P m) x =
  (rc_get m x + count_occ Z.eq_dec (flat_map input_indexes P) x)%nat.
Proof.
  induction P as [|i P IH]; intros m x; cbn [fold_left flat_map]; [cbn; lia|].
  rewrite IH, rc_fold_inputs, count_occ_app. lia.
Qed.

Lemma read_counts_ir_reads P : forall x pre k post, P = pre ++ k :: post ->
  rc_get (read_counts_ir P) x = 1%nat -> In x (input_indexes k) ->
  count_occ Z.eq_dec (input_indexes k) x = 1%nat /\ forall i, In i (pre ++ post) -> ~ In x (input_indexes i).
Proof.
  intros x pre k post EP H1 Hin. unfold read_counts_ir in H1. rewrite rc_fold_prog in H1.
  change (rc_get [] x) with O in H1. rewrite EP, flat_map_app in H1. cbn [flat_map] in H1.
  rewrite !count_occ_app in H1.
  assert (Hk : (count_occ Z.eq_dec (input_indexes k) x > 0)%nat) by (now apply count_occ_In).
  split; [lia|]. intros i Hi Hx. apply in_app_or in Hi as [Hi|Hi].
  - assert (Hc : In x (flat_map input_indexes pre)) by (apply in_flat_map; eauto).
    apply (count_occ_In Z.eq_dec) in Hc. lia.
  - assert (Hc : In x (flat_map input_indexes post)) by (apply in_flat_map; eauto).
    apply (count_occ_In Z.eq_dec) in Hc. lia.
Qed.

(* ------------------------------------------------------------------ *)
(* what a successful pass.Compile says about the instruction list       *)
(* ------------------------------------------------------------------ *)

(* an operation with its operands in ascending order *)
Definition cop (o : op) : op := if (snd o <? fst o)%nat then (snd o, fst o) else o.

Definition pos_shifts (P : iprogram) : Prop := forall i, In i P -> 1 <= width (iopn i).

Lemma add_ok_inv (p : list op) i j p' o : add p i j = (p', Ok o) ->
  0 <= i <= Z.of_nat (length p) /\ 0 <= j <= Z.of_nat (length p).
Proof.
  unfold add, boundscheck.
  destruct (i <? 0) eqn:E1; [cbn; congruence|]. destruct (i >? Z.of_nat (length p)) eqn:E2; [cbn; congruence|].
  destruct (j <? 0) eqn:E3; [cbn; congruence|]. destruct (j >? Z.of_nat (length p)) eqn:E4; [cbn; congruence|].
  intros _. rewrite Z.gtb_ltb in E2, E4. apply Z.ltb_ge in E1, E2, E3, E4. lia.
Qed.

Lemma add_Z_ok (p : list op) i j : 0 <= i <= Z.of_nat (length p) -> 0 <= j <= Z.of_nat (length p) ->
  add p i j = (p ++ [(Z.to_nat i, Z.to_nat j)], Ok (Z.of_nat (S (length p)))).
Proof.
  intros Hi Hj. rewrite <- (Z2Nat.id i) at 1 by lia. rewrite <- (Z2Nat.id j) at 1 by lia.
  apply DecompileProofs.add_ok; lia.
Qed.

Lemma cop_run j m : map cop (DecompileProofs.dbl_run j m) = DecompileProofs.dbl_run j m.
Proof.
  unfold DecompileProofs.dbl_run. rewrite map_map. apply map_ext. intros t. unfold cop. cbn [fst snd].
  now rewrite Nat.ltb_irrefl.
Qed.

Lemma cop_pair i j : 0 <= i -> 0 <= j ->
  cop (Z.to_nat i, Z.to_nat j) = if j <? i then (Z.to_nat j, Z.to_nat i) else (Z.to_nat i, Z.to_nat j).
Proof.
  intros Hi Hj. unfold cop. cbn [fst snd]. destruct (j <? i) eqn:E.
  - apply Z.ltb_lt in E. assert (H : (Z.to_nat j <? Z.to_nat i)%nat = true) by (apply Nat.ltb_lt; lia). now rewrite H.
  - apply Z.ltb_ge in E. assert (H : (Z.to_nat j <? Z.to_nat i)%nat = false) by (apply Nat.ltb_ge; lia). now rewrite H.
Qed.

Lemma step_ok_inv pre o prog' res : 1 <= width o -> step pre (call_of o) = (prog', Ok res) ->
  res = Z.of_nat (length pre) + width o /\
  (forall x, In x (map oindex (inputs o)) -> 0 <= x <= Z.of_nat (length pre)) /\
  Z.of_nat (length prog') = Z.of_nat (length pre) + width o /\
  (exists q, prog' = pre ++ q) /\
  step (map cop pre) (call_of (canon_op o)) = (map cop prog', Ok res).
Proof.
  intros Hw H. destruct o as [x y|x|x s]; cbn [call_of step width inputs map canon_op] in *.
  - destruct (add_ok_inv _ _ _ _ _ H) as [Hx Hy]. rewrite add_Z_ok in H by assumption.
    injection H as <- <-. split; [lia|]. split; [intros z [<-|[<-|[]]]; assumption|].
    split; [rewrite app_length; cbn [length]; lia|]. split; [eauto|].
    rewrite map_app. cbn [map]. rewrite cop_pair by lia.
    destruct (oindex y <? oindex x); cbn [call_of step io index_operand oindex];
      rewrite add_Z_ok by (rewrite map_length; assumption); rewrite map_length; reflexivity.
  - unfold double in *. destruct (add_ok_inv _ _ _ _ _ H) as [Hx _]. rewrite add_Z_ok in H by assumption.
    injection H as <- <-. split; [lia|]. split; [intros z [<-|[]]; assumption|].
    split; [rewrite app_length; cbn [length]; lia|]. split; [eauto|].
    rewrite map_app. cbn [map]. rewrite cop_pair by lia. rewrite Z.ltb_irrefl.
    cbn [io index_operand oindex]. rewrite add_Z_ok by (rewrite map_length; assumption). rewrite map_length. reflexivity.
  - unfold shift in *. destruct (N.to_nat s) as [|s'] eqn:Es; [lia|].
    assert (Hx : 0 <= oindex x <= Z.of_nat (length pre)).
    { cbn [shift_loop] in H. unfold double in H. destruct (add pre (oindex x) (oindex x)) as [p1 [n1| | |]] eqn:Ea;
        try (injection H as _ H; discriminate). now destruct (add_ok_inv _ _ _ _ _ Ea). }
    rewrite <- (Z2Nat.id (oindex x)) in H by lia. rewrite DecompileProofs.shift_loop_spec in H by lia.
    injection H as <- <-. split; [lia|]. split; [intros z [<-|[]]; assumption|].
    split; [rewrite app_length; cbn [length]; rewrite DecompileProofs.dbl_run_length; lia|]. split; [eauto|].
    cbn [io index_operand oindex].
    rewrite <- (Z2Nat.id (oindex x)) at 1 by lia. rewrite DecompileProofs.shift_loop_spec by (rewrite map_length; lia).
    rewrite map_length, map_app. cbn [map]. rewrite cop_run. unfold cop. cbn [fst snd]. now rewrite Nat.ltb_irrefl.
Qed.

Lemma compile_facts : forall P pre prog, compile_loop pre P = Ok prog -> pos_shifts P ->
  wfrom (Z.of_nat (length pre) + 1) P /\
  nafter (Z.of_nat (length pre) + 1) P = Z.of_nat (length prog) + 1 /\
  (length pre <= length prog)%nat /\
  (forall x, In x (operand_indexes P) -> 0 <= x <= Z.of_nat (length prog)) /\
  compile_loop (map cop pre) (map canon_inst P) = Ok (map cop prog).
Proof.
  induction P as [|i P IH]; intros pre prog H Hpos.
  - cbn [compile_loop] in H. injection H as <-. cbn [wfrom nafter map compile_loop].
    split; [exact I|]. split; [reflexivity|]. split; [lia|]. split; [intros x0 []|reflexivity].
  - cbn [compile_loop] in H. destruct (step pre (call_of (iopn i))) as [prog' o] eqn:Es.
    destruct o as [res| | |]; try discriminate.
    destruct (res =? oindex (iout i)) eqn:Eres; [|discriminate]. apply Z.eqb_eq in Eres.
    assert (Hw : 1 <= width (iopn i)) by (apply Hpos; now left).
    destruct (step_ok_inv _ _ _ _ Hw Es) as (Hres & Hin & Hlen & _ & Hc).
    destruct (IH prog' prog H) as (IH1 & IH2 & IH3 & IH4 & IH5). { intros j Hj. apply Hpos. now right. }
    replace (Z.of_nat (length prog') + 1) with (Z.of_nat (length pre) + 1 + width (iopn i)) in IH1, IH2 by lia.
    split; [cbn [wfrom]; unfold out; repeat split; [exact Hw|lia|exact IH1]|].
    split; [cbn [nafter]; exact IH2|]. split; [lia|]. split.
    + intros x Hx. unfold operand_indexes in Hx. cbn [flat_map] in Hx. apply in_app_or in Hx as [Hx|Hx]; [|now apply IH4].
      apply in_app_or in Hx as [Hx|[<-|[]]].
      * specialize (Hin x Hx). lia.
      * lia.
    + cbn [map compile_loop canon_inst iopn iout]. rewrite Hc. unfold out, io, index_operand. cbn [oindex].
      rewrite Eres, Z.eqb_refl. exact IH5.
Qed.

Lemma pos_shifts_dec_loop nr : forall p i skip, pos_shifts (dec_loop nr i skip p).
Proof.
  induction p as [|[a b] p IH]; intros i skip j Hj; [destruct Hj|].
  cbn [dec_loop] in Hj. destruct skip as [|k]; [|eapply IH; eauto].
  destruct (negb (a =? b)%nat); [destruct Hj as [<-|Hj]; [cbn; lia|eapply IH; eauto]|].
  destruct (S (run_len nr (S i) p) =? 1)%nat; (destruct Hj as [<-|Hj]; [cbn [iopn width]; lia|eapply IH; eauto]).
Qed.

(* ------------------------------------------------------------------ *)
(* Program.Evaluate                                                     *)
(* ------------------------------------------------------------------ *)

Lemma evaluate_from_spec : forall p c, c <> [] -> DecompileProofs.wf_from (length c - 1) p ->
  (forall v, In v c -> 1 <= v) ->
  exists c', evaluate_from c p = Ok c' /\ length c' = (length c + length p)%nat /\ forall v, In v c' -> 1 <= v.
Proof.
  induction p as [|[a b] p IH]; intros c Hc Hwf Hpos.
  - exists c. cbn. repeat split; auto.
  - destruct (Hwf O a b eq_refl) as [Ha Hb].
    assert (Hl : (0 < length c)%nat) by (destruct c; [contradiction|cbn; lia]).
    destruct (nth_error c a) as [va|] eqn:Ea; [|apply nth_error_None in Ea; lia].
    destruct (nth_error c b) as [vb|] eqn:Eb; [|apply nth_error_None in Eb; lia].
    cbn [evaluate_from]. rewrite Ea, Eb.
    destruct (IH (c ++ [va + vb])) as (c' & E & Hlen & Hp').
    + destruct c; discriminate.
    + rewrite app_length. cbn [length]. replace (length c + 1 - 1)%nat with (S (length c - 1)) by lia.
      eapply DecompileProofs.wf_from_tail; eauto.
    + intros v Hv. apply in_app_or in Hv as [Hv|[<-|[]]]; [now apply Hpos|].
      apply nth_error_In in Ea, Eb. pose proof (Hpos _ Ea). pose proof (Hpos _ Eb). lia.
    + exists c'. split; [exact E|]. split; [|exact Hp']. rewrite Hlen, app_length. cbn [length]. lia.
Qed.

Lemma evaluate_spec p : wf_program p ->
  exists c, evaluate p = Ok c /\ length c = S (length p) /\ forall v, In v c -> 1 <= v.
Proof.
  intros Hwf. destruct (evaluate_from_spec p [1]) as (c & E & Hl & Hp).
  - discriminate.
  - cbn [length]. now apply DecompileProofs.wf_program_from.
  - intros v [<-|[]]. lia.
  - exists c. auto.
Qed.

(* ------------------------------------------------------------------ *)
(* every expression the builder writes is well formed                   *)
(* ------------------------------------------------------------------ *)

(* B bounds operand indexes and shift amounts (the program length) *)
Fixpoint good_expr (B : Z) (e : expr) : Prop :=
  match e with
  | EOperand i => 0 <= i <= B
  | EIdent s => ident_ok s = true /\ dbl_class s = false
  | EAdd x y => good_expr B x /\ good_expr B y
  | EShift x s => good_expr B x /\ Z.of_N s <= B
  | EDouble x => good_expr B x
  end.

Lemma good_wf B e : B < 2 ^ 63 -> good_expr B e -> forall sh, wf_expr sh e = true.
Proof.
  intros HB. induction e as [i|s|a IHa b IHb|a IHa s|a IHa]; cbn [good_expr wf_expr]; intros H sh.
  - apply andb_true_iff. split; [apply Z.leb_le; lia|apply Z.ltb_lt; lia].
  - destruct H as [H1 H2]. rewrite H1, H2. now rewrite andb_false_r.
  - destruct H as [H1 H2]. now rewrite IHa, IHb.
  - destruct H as [H1 H2]. rewrite IHa by assumption. apply N.ltb_lt.
    assert (Z.of_N s < 2 ^ 64) by lia. change (2 ^ 64) with (Z.of_N (2 ^ 64)%N) in H. lia.
  - now apply IHa.
Qed.

Definition good_state (B : Z) (b : bstate) : Prop :=
  (forall k e, zlookup k (b_expr b) = Some e -> good_expr B e) /\
  (forall s, In s (b_stmts b) -> good_expr B (sexpr s)).

Definition good_instr (tbl : list (Z * list N)) (B : Z) (i : instr) : Prop :=
  (forall x, In x (input_indexes i) -> 0 <= x <= B) /\ width (iopn i) <= B /\
  ident_ok (nameof tbl (out i)) = true /\ dbl_class (nameof tbl (out i)) = false.

Lemma good_operand B b x : good_state B b -> 0 <= x <= B -> good_expr B (b_operand b x).
Proof.
  intros [H _] Hx. unfold b_operand. destruct (zlookup x (b_expr b)) eqn:E; [eapply H; eauto|exact Hx].
Qed.

Lemma b_step_good tbl rc B b i nxt b' : good_state B b -> good_instr tbl B i ->
  b_step tbl rc b i nxt = Ok b' -> good_state B b'.
Proof.
  intros Hg (Hin & Hw & Hn1 & Hn2) H. unfold b_step in H.
  destruct (b_operator b (iopn i)) as [e| | |] eqn:Eo; try discriminate. cbn [obind] in H.
  assert (He : good_expr B e).
  { destruct (iopn i) as [x y|x|x s] eqn:Ei; unfold input_indexes in Hin; rewrite Ei in Hin; cbn [inputs map] in Hin;
      cbn [b_operator] in Eo.
    - unfold b_add in Eo.
      assert (Gx : good_expr B (b_operand b (oindex x))) by (apply good_operand; [assumption|apply Hin; now left]).
      assert (Gy : good_expr B (b_operand b (oindex y))) by (apply good_operand; [assumption|apply Hin; right; now left]).
      destruct (is_op (b_operand b (oindex x)) && is_op (b_operand b (oindex y))); [discriminate|].
      destruct (is_op (b_operand b (oindex y))); injection Eo as <-; cbn [good_expr]; auto.
    - injection Eo as <-. cbn [good_expr]. apply good_operand; [assumption|apply Hin; now left].
    - injection Eo as <-. cbn [good_expr]. split; [apply good_operand; [assumption|apply Hin; now left]|].
      cbn [width] in Hw. exact Hw. }
  destruct Hg as [G1 G2].
  match type of H with (if ?c then _ else _) = _ => destruct c end; injection H as <-; split; cbn [b_expr b_stmts].
  - intros k e0 Hk. cbn [zlookup] in Hk. destruct (oindex (iout i) =? k); [injection Hk as <-; exact He|eapply G1; eauto].
  - exact G2.
  - intros k e0 Hk. cbn [zlookup] in Hk. destruct (oindex (iout i) =? k); [|eapply G1; eauto].
    injection Hk as <-. cbn [good_expr]. split; assumption.
  - intros s Hs. apply in_app_or in Hs as [Hs|[<-|[]]]; [now apply G2|exact He].
Qed.

Lemma b_loop_good tbl rc B : forall P b b', good_state B b -> (forall i, In i P -> good_instr tbl B i) ->
  b_loop tbl rc b P = Ok b' -> good_state B b'.
Proof.
  induction P as [|i P IH]; intros b b' Hg Hi H; cbn [b_loop] in H.
  - injection H as <-. exact Hg.
  - destruct (b_step tbl rc b i (hd_error P)) as [b1| | |] eqn:E1; try discriminate. cbn [obind] in H.
    apply (IH b1 b'); [eapply b_step_good; eauto; apply Hi; now left|intros j Hj; apply Hi; now right|exact H].
Qed.

(* ------------------------------------------------------------------ *)
(* clearing the last name; names that Translate accepts are distinct     *)
(* ------------------------------------------------------------------ *)

Lemma clear_last_snoc : forall init s, clear_last (init ++ [s]) = Ok (init ++ [mkStmt [] (sexpr s)]).
Proof.
  induction init as [|x init IH]; intros s; [reflexivity|].
  cbn [app]. change (clear_last (x :: init ++ [s])) with
    (match init ++ [s] with [] => Ok [mkStmt [] (sexpr x)] | _ :: _ => obind (clear_last (init ++ [s])) (fun r' => Ok (x :: r')) end).
  rewrite IH. destruct (init ++ [s]) eqn:E; [destruct init; discriminate|reflexivity].
Qed.

Lemma tr_stmt_inv st s st' : tr_stmt st s = Ok st' ->
  exists i st1, tr_expr (sexpr s) st = Ok (i, st1) /\ slookup (sname s) (t_vars st1) = None /\
    st' = mkT (t_n st1) ((sname s, i) :: t_vars st1) (t_emitted st1).
Proof.
  unfold tr_stmt. destruct (tr_expr (sexpr s) st) as [[i st1]| | |]; try discriminate. cbn [obind].
  destruct (slookup (sname s) (t_vars st1)) eqn:E; [discriminate|]. intros H. injection H as <-. eauto.
Qed.

Lemma tr_stmts_names : forall ss st st', tr_stmts ss st = Ok st' ->
  map fst (t_vars st') = rev (map sname ss) ++ map fst (t_vars st) /\
  (NoDup (map fst (t_vars st)) -> NoDup (map fst (t_vars st'))).
Proof.
  induction ss as [|s ss IH]; intros st st' H; cbn [tr_stmts] in H.
  - injection H as <-. split; [reflexivity|auto].
  - destruct (tr_stmt st s) as [st1| | |] eqn:E1; try discriminate. cbn [obind] in H.
    destruct (tr_stmt_inv _ _ _ E1) as (i & st2 & Ee & Hnone & ->).
    destruct (IH _ _ H) as [Hn Hd]. cbn [t_vars map fst] in Hn, Hd.
    rewrite (tr_expr_vars _ _ _ _ Ee) in *. split.
    + rewrite Hn. cbn [map rev]. now rewrite <- app_assoc.
    + intros Hnd. apply Hd. constructor; [|exact Hnd].
      intros Hin. apply in_map_iff in Hin as ([k v] & Ek & Hin). cbn [fst] in Ek. subst k.
      exact (slookup_none _ _ Hnone v Hin).
Qed.

Lemma tr_clear_last ss ts0 : ss <> [] -> tr_stmts ss t_init = Ok ts0 -> (forall v, ~ In ([], v) (t_vars ts0)) ->
  exists init s ts', ss = init ++ [s] /\ clear_last ss = Ok (init ++ [mkStmt [] (sexpr s)]) /\
    tr_stmts (init ++ [mkStmt [] (sexpr s)]) t_init = Ok ts' /\ t_emitted ts' = t_emitted ts0 /\
    (forall nm idx, In (nm, idx) (t_vars ts') -> nm <> [] -> In (nm, idx) (t_vars ts0)).
Proof.
  intros Hne Htr Hnil. destruct (exists_last Hne) as (init & s & ->).
  rewrite tr_stmts_app in Htr. destruct (tr_stmts init t_init) as [st1| | |] eqn:E1; try discriminate.
  cbn [obind tr_stmts] in Htr. destruct (tr_stmt st1 s) as [st2| | |] eqn:E2; try discriminate.
  cbn [obind] in Htr. injection Htr as <-.
  destruct (tr_stmt_inv _ _ _ E2) as (i & st3 & Ee & Hnone & ->). cbn [t_vars] in Hnil.
  assert (Hn0 : slookup [] (t_vars st3) = None).
  { destruct (slookup [] (t_vars st3)) eqn:E; [|reflexivity]. exfalso. apply slookup_in in E.
    apply (Hnil z). now right. }
  exists init, s, (mkT (t_n st3) (([], i) :: t_vars st3) (t_emitted st3)).
  split; [reflexivity|]. split; [apply clear_last_snoc|]. split.
  - rewrite tr_stmts_app, E1. cbn [obind tr_stmts]. unfold tr_stmt. cbn [sname sexpr]. rewrite Ee. cbn [obind].
    rewrite Hn0. reflexivity.
  - split; [reflexivity|]. cbn [t_vars]. intros nm idx [Hin|Hin] Hnm; [injection Hin as <- _; contradiction|now right].
Qed.

Lemma wf_script_intro : forall init e,
  (forall s, In s init -> ident_ok (sname s) = true /\ wf_expr true (sexpr s) = true) ->
  wf_expr true e = true -> wf_script (init ++ [mkStmt [] e]) = true.
Proof.
  induction init as [|x init IH]; intros e Hi He; [exact He|].
  cbn [app]. change (wf_script (x :: init ++ [mkStmt [] e])) with
    (match init ++ [mkStmt [] e] with
     | [] => match sname x with [] => wf_expr true (sexpr x) | _ => false end
     | _ :: _ => ident_ok (sname x) && wf_expr true (sexpr x) && wf_script (init ++ [mkStmt [] e])
     end).
  destruct (init ++ [mkStmt [] e]) eqn:E; [destruct init; discriminate|]. rewrite <- E.
  destruct (Hi x (or_introl eq_refl)) as [H1 H2]. rewrite H1, H2, IH; auto. intros s0 Hs0. apply Hi. now right.
Qed.

(* ------------------------------------------------------------------ *)
(* Decompile, naming passes and Build together                          *)
(* ------------------------------------------------------------------ *)

Lemma decompile_inv p q : decompile p = Ok q -> exists nr, q = dec_loop nr O O p.
Proof.
  unfold decompile. destruct (read_counts p) as [nr| | |]; try discriminate. cbn [obind].
  intros H. injection H as <-. eauto.
Qed.

Lemma out_in_operand_indexes P i : In i (map out P) -> In i (operand_indexes P).
Proof.
  intros H. apply in_map_iff in H as (k & <- & Hk). unfold operand_indexes. apply in_flat_map.
  exists k. split; [assumption|]. apply in_or_app. right. left. reflexivity.
Qed.

Lemma input_in_operand_indexes P k x : In k P -> In x (input_indexes k) -> In x (operand_indexes P).
Proof.
  intros Hk Hx. unfold operand_indexes. apply in_flat_map. exists k. split; [assumption|]. apply in_or_app. now left.
Qed.

Lemma wfrom_width : forall P m, wfrom m P -> 1 <= m -> forall i, In i P -> width (iopn i) <= out i.
Proof.
  induction P as [|j P IH]; intros m Hw Hm i Hi; [destruct Hi|].
  cbn [wfrom] in Hw. destruct Hw as (H1 & H2 & H3). destruct Hi as [<-|Hi]; [lia|].
  apply (IH (m + width (iopn j))); [assumption|lia|assumption].
Qed.

Theorem build_facts p c : wf_program p -> evaluate p = Ok c -> NoDup c ->
  exists t ts, build_program p = Ok t /\ tr_stmts t t_init = Ok ts /\
    compile (t_emitted ts) = Ok (map cop p) /\
    (exists init last, t = init ++ [last] /\ sname last = [] /\
       forall s, In s init -> exists k, 0 <= k < Z.of_nat (length c) /\
                                       sname s = stmt_name (nth (Z.to_nat k) c 0) k) /\
    (forall nm idx, In (nm, idx) (t_vars ts) -> nm <> [] ->
       0 <= idx < Z.of_nat (length c) /\ nm = stmt_name (nth (Z.to_nat idx) c 0) idx) /\
    (forall s, In s t -> good_expr (Z.of_nat (length p)) (sexpr s)).
Proof.
  intros Hwf Hev Hnd.
  destruct (decompile_expand p Hwf) as (q & Eq & Ec).
  destruct (evaluate_spec p Hwf) as (c' & Ec' & Hlen & Hpos). rewrite Hev in Ec'. injection Ec' as <-.
  unfold build_program. rewrite Eq. cbn [obind]. unfold build.
  assert (Hps : pos_shifts q) by (destruct (decompile_inv _ _ Eq) as (nr & ->); apply pos_shifts_dec_loop).
  destruct (compile_facts q [] p Ec Hps) as (Hwfq & Hnaf & _ & Hidx & Hcc).
  change (Z.of_nat (length (@nil op)) + 1) with 1 in Hwfq, Hnaf. change (map cop []) with (@nil op) in Hcc.
  assert (Heval : eval_ir q = Ok c) by (unfold eval_ir; rewrite Ec; exact Hev).
  destruct (name_operands_spec q c Heval) as (tbl & Etbl & Hid).
  { intros x Hx. specialize (Hidx x Hx). lia. }
  rewrite Etbl. cbn [obind].
  (* the name of every output *)
  assert (Hname : forall k, In k (map out q) ->
            0 <= k < Z.of_nat (length c) /\ nameof tbl k = stmt_name (nth (Z.to_nat k) c 0) k).
  { intros k Hk. apply out_in_operand_indexes in Hk. specialize (Hidx k Hk). split; [lia|].
    unfold nameof, stmt_name. now rewrite (Hid k Hk). }
  assert (Hval : forall k, 0 <= k < Z.of_nat (length c) -> 1 <= nth (Z.to_nat k) c 0).
  { intros k Hk. apply Hpos. apply nth_In. lia. }
  assert (Hinj : forall i j, In i (map out q) -> In j (map out q) -> nameof tbl i = nameof tbl j -> i = j).
  { intros i j Hi Hj E. destruct (Hname i Hi) as [Ri Ei]. destruct (Hname j Hj) as [Rj Ej].
    rewrite Ei, Ej in E. pose proof (Hval i Ri) as Vi. pose proof (Hval j Rj) as Vj.
    assert (Pi : 0 <= nth (Z.to_nat i) c 0) by lia. assert (Pj : 0 <= nth (Z.to_nat j) c 0) by lia.
    destruct (stmt_name_inj _ _ _ _ Pi Pj (proj1 Ri) (proj1 Rj) E) as [Ev|Ev]; [|exact Ev].
    assert (Z.to_nat i = Z.to_nat j); [|lia].
    apply (proj1 (NoDup_nth c 0) Hnd); [lia|lia|exact Ev]. }
  destruct q as [|i0 q'] eqn:Eqq.
  - (* the one-element chain *)
    cbn in Ec. injection Ec as <-. cbn [process].
    exists [mkStmt [] (EOperand 0)], (mkT 1 [([], 0)] []).
    split; [reflexivity|]. split; [reflexivity|]. split; [reflexivity|]. split.
    { exists [], (mkStmt [] (EOperand 0)). split; [reflexivity|]. split; [reflexivity|]. intros s []. }
    split.
    { intros nm idx [Hin|[]] Hnm. injection Hin as <- _. contradiction. }
    intros s [<-|[]]. cbn. lia.
  - rewrite <- Eqq in *. assert (Hqne : q <> []) by (rewrite Eqq; discriminate).
    destruct (build_translate_loop tbl (read_counts_ir q) q Hinj Hwfq (read_counts_ir_reads q))
      as (b & ts0 & Eb & Etr0 & Eem0 & En0 & Hvars0 & Hst0).
    assert (Hproc : process tbl (read_counts_ir q) q = obind (b_loop tbl (read_counts_ir q) b_init q) (fun b => clear_last (b_stmts b))).
    { rewrite Eqq. reflexivity. }
    rewrite Hproc, Eb. cbn [obind].
    assert (Hsne : b_stmts b <> []).
    { intros E. rewrite E in Etr0. cbn in Etr0. injection Etr0 as <-. cbn in Eem0.
      destruct q; [contradiction|discriminate]. }
    destruct (tr_clear_last _ _ Hsne Etr0) as (init & s & ts' & Es & Ecl & Etr' & Eem' & Hv').
    { intros v Hv. destruct (Hvars0 _ _ Hv) as [E _]. symmetry in E. exact (nameof_nonempty tbl v E). }
    rewrite Ecl. exists (init ++ [mkStmt [] (sexpr s)]), ts'.
    split; [reflexivity|]. split; [exact Etr'|]. split; [rewrite Eem', Eem0; exact Hcc|]. split.
    { exists init, (mkStmt [] (sexpr s)). split; [reflexivity|]. split; [reflexivity|].
      intros s0 Hs0. destruct (Hst0 s0) as (k & Hk & Ek); [rewrite Es; apply in_or_app; now left|].
      destruct (Hname k Hk) as [Rk Enk]. exists k. split; [exact Rk|]. now rewrite Ek. }
    split.
    { intros nm idx Hin Hnm. destruct (Hvars0 _ _ (Hv' _ _ Hin Hnm)) as [E Hk].
      destruct (Hname idx Hk) as [Rk Enk]. split; [exact Rk|]. now rewrite E. }
    (* expressions *)
    assert (Hgood : good_state (Z.of_nat (length p)) b).
    { apply (b_loop_good tbl (read_counts_ir q) (Z.of_nat (length p)) q b_init b); [|intros i Hi|exact Eb].
      - split; [intros k e Hk; discriminate|intros s1 []].
      - assert (Hio : In (out i) (map out q)) by (apply in_map; exact Hi).
        destruct (Hname _ Hio) as [Rk Enk]. pose proof (Hval _ Rk) as Hv1.
        assert (Pv : 0 <= nth (Z.to_nat (out i)) c 0) by lia.
        destruct (stmt_name_shape (nth (Z.to_nat (out i)) c 0) (out i) Pv (proj1 Rk)) as [Hsh _].
        rewrite <- Enk in Hsh. destruct (name_shape_legal _ Hsh) as [L1 L2].
        split; [|split; [|split; [exact L1|exact L2]]].
        + intros x Hx. apply Hidx. eapply input_in_operand_indexes; eauto.
        + assert (H1 : 1 <= 1) by lia. pose proof (wfrom_width q 1 Hwfq H1 i Hi). lia. }
    intros s0 Hs0. destruct Hgood as [_ G2]. apply in_app_or in Hs0 as [Hs0|[<-|[]]].
    + apply G2. rewrite Es. apply in_or_app. now left.
    + cbn [sexpr]. apply G2. rewrite Es. apply in_or_app. right. now left.
Qed.

(* ------------------------------------------------------------------ *)
(* statements of C04 and C16 on the model                               *)
(* ------------------------------------------------------------------ *)

(* ordering the operands of every addition does not change the chain *)
Lemma evaluate_from_cop : forall p c, evaluate_from c (map cop p) = evaluate_from c p.
Proof.
  induction p as [|[a b] p IH]; intros c; [reflexivity|]. cbn [map]. unfold cop at 1. cbn [fst snd].
  destruct (b <? a)%nat; cbn [evaluate_from];
    destruct (nth_error c a) as [va|]; destruct (nth_error c b) as [vb|]; try reflexivity.
  - rewrite (Z.add_comm vb va). apply IH.
  - apply IH.
Qed.

Lemma statement_names_legal p c : wf_program p -> evaluate p = Ok c -> forall k nm,
  0 <= k < Z.of_nat (length c) -> nm = stmt_name (nth (Z.to_nat k) c 0) k ->
  name_shape nm /\ describes nm (nth (Z.to_nat k) c 0) k /\ ident_ok nm = true /\ dbl_class nm = false.
Proof.
  intros Hwf Hev k nm Hk ->. destruct (evaluate_spec p Hwf) as (c' & Ec' & _ & Hpos).
  rewrite Hev in Ec'. injection Ec' as <-.
  assert (Hv : 0 <= nth (Z.to_nat k) c 0) by (assert (1 <= nth (Z.to_nat k) c 0) by (apply Hpos, nth_In; lia); lia).
  destruct (stmt_name_shape _ k Hv (proj1 Hk)) as [Hs Hd]. destruct (name_shape_legal _ Hs) as [L1 L2]. auto.
Qed.

Theorem build_translate p c : wf_program p -> evaluate p = Ok c -> NoDup c -> Z.of_nat (length p) < 2 ^ 63 ->
  exists t, build_program p = Ok t /\ wf_script t = true /\
            translate_compile t = Ok (map cop p) /\ translate_eval t = Ok (map cop p, c).
Proof.
  intros Hwf Hev Hnd Hlen.
  destruct (build_facts p c Hwf Hev Hnd) as (t & ts & Eb & Etr & Ecomp & (init & last & Et & Elast & Hinit) & _ & Hgood).
  assert (Etc : translate_compile t = Ok (map cop p)).
  { unfold translate_compile, translate. rewrite Etr. cbn [obind]. exact Ecomp. }
  exists t. split; [exact Eb|]. split; [|split; [exact Etc|]].
  - rewrite Et. destruct last as [ln le]. cbn [sname] in Elast. subst ln. apply wf_script_intro.
    + intros s Hs. destruct (Hinit s Hs) as (k & Hk & Ek).
      destruct (statement_names_legal p c Hwf Hev k _ Hk Ek) as (_ & _ & L1 & _). split; [exact L1|].
      apply (good_wf (Z.of_nat (length p))); [exact Hlen|]. apply Hgood. rewrite Et. apply in_or_app. now left.
    + apply (good_wf (Z.of_nat (length p))); [exact Hlen|].
      apply (Hgood (mkStmt [] le)). rewrite Et. apply in_or_app. right. now left.
  - unfold translate_eval. rewrite Etc. cbn [obind]. unfold evaluate. rewrite evaluate_from_cop.
    fold (evaluate p). rewrite Hev. reflexivity.
Qed.

Theorem names_unique p c t : wf_program p -> evaluate p = Ok c -> NoDup c -> build_program p = Ok t ->
  NoDup (map sname t).
Proof.
  intros Hwf Hev Hnd Eb. destruct (build_facts p c Hwf Hev Hnd) as (t' & ts & Eb' & Etr & _).
  rewrite Eb in Eb'. injection Eb' as <-.
  destruct (tr_stmts_names _ _ _ Etr) as [Hn Hd]. cbn [t_init t_vars map] in Hn, Hd. rewrite app_nil_r in Hn.
  specialize (Hd (NoDup_nil _)). rewrite Hn in Hd. apply NoDup_rev in Hd. now rewrite rev_involutive in Hd.
Qed.

Theorem only_last_unnamed p c t : wf_program p -> evaluate p = Ok c -> NoDup c -> build_program p = Ok t ->
  exists init last, t = init ++ [last] /\ sname last = [] /\ forall s, In s init -> sname s <> [].
Proof.
  intros Hwf Hev Hnd Eb. destruct (build_facts p c Hwf Hev Hnd) as (t' & ts & Eb' & _ & _ & (init & last & Et & El & Hi) & _).
  rewrite Eb in Eb'. injection Eb' as <-. exists init, last. split; [exact Et|]. split; [exact El|].
  intros s Hs. destruct (Hi s Hs) as (k & Hk & Ek).
  destruct (statement_names_legal p c Hwf Hev k _ Hk Ek) as (Hsh & _). now apply name_shape_nonempty.
Qed.

Theorem names_legal p c t : wf_program p -> evaluate p = Ok c -> NoDup c -> build_program p = Ok t ->
  forall s, In s t -> sname s <> [] ->
    name_shape (sname s) /\ ident_ok (sname s) = true /\ dbl_class (sname s) = false.
Proof.
  intros Hwf Hev Hnd Eb s Hs Hne.
  destruct (build_facts p c Hwf Hev Hnd) as (t' & ts & Eb' & _ & _ & (init & last & Et & El & Hi) & _).
  rewrite Eb in Eb'. injection Eb' as <-. rewrite Et in Hs. apply in_app_or in Hs as [Hs|[<-|[]]]; [|contradiction].
  destruct (Hi s Hs) as (k & Hk & Ek).
  destruct (statement_names_legal p c Hwf Hev k _ Hk Ek) as (H1 & _ & H2 & H3). auto.
Qed.

Theorem names_faithful p c t : wf_program p -> evaluate p = Ok c -> NoDup c -> build_program p = Ok t ->
  exists bs, stmt_bindings t = Ok bs /\ map fst bs = map sname t /\
    forall nm idx, In (nm, idx) bs -> nm <> [] ->
      0 <= idx < Z.of_nat (length c) /\ describes nm (nth (Z.to_nat idx) c 0) idx.
Proof.
  intros Hwf Hev Hnd Eb. destruct (build_facts p c Hwf Hev Hnd) as (t' & ts & Eb' & Etr & _ & _ & Hv & _).
  rewrite Eb in Eb'. injection Eb' as <-.
  exists (rev (t_vars ts)). split; [unfold stmt_bindings; rewrite Etr; reflexivity|]. split.
  - destruct (tr_stmts_names _ _ _ Etr) as [Hn _]. cbn [t_init t_vars map] in Hn. rewrite app_nil_r in Hn.
    rewrite map_rev, Hn. apply rev_involutive.
  - intros nm idx Hin Hnm. apply in_rev in Hin. destruct (Hv nm idx Hin Hnm) as [Hk Ek]. split; [exact Hk|].
    now destruct (statement_names_legal p c Hwf Hev idx _ Hk Ek) as (_ & Hd & _).
Qed.

(* ---- decidable checks for the non-vacuity examples ---- *)
Fixpoint wf_check (i : nat) (p : list op) : bool :=
  match p with
  | [] => true
  | (a, b) :: r => (a <=? i)%nat && (b <=? i)%nat && wf_check (S i) r
  end.

Lemma wf_check_from : forall p i, wf_check i p = true -> wf_from i p.
Proof.
  induction p as [|[a b] p IH]; intros i H t x y Ht; [destruct t; discriminate|].
  cbn [wf_check] in H. apply andb_true_iff in H as [H H3]. apply andb_true_iff in H as [H1 H2].
  apply Nat.leb_le in H1, H2. destruct t as [|t]; cbn [nth_error] in Ht.
  - injection Ht as <- <-. lia.
  - specialize (IH _ H3 t x y Ht). lia.
Qed.

Lemma wf_check_ok p : wf_check 0 p = true -> wf_program p.
Proof. intros H. apply wf_program_from. now apply wf_check_from. Qed.

Lemma has_dup_NoDup : forall c, has_dup c = false -> NoDup c.
Proof.
  induction c as [|x c IH]; intros H; [constructor|]. cbn [has_dup] in H. apply orb_false_iff in H as [H1 H2].
  constructor; [|now apply IH]. intros Hin.
  assert (existsb (Z.eqb x) c = true) by (apply existsb_exists; exists x; split; [assumption|apply Z.eqb_refl]). congruence.
Qed.
