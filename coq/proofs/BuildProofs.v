(* Proofs about acc.Build (C04, C16), ported from proto_appendix/J2-J4 to the shared types:
   the builder never hits its assertion, and re-translating the statements it writes emits
   exactly the instruction list (operands of additions in canonical order). *)
From Coq Require Import String.
From Coq Require Import List NArith ZArith Bool Arith Lia ZifyBool ZifyNat ZifyN.
From AV Require Import model.Proto model.Chain model.Program model.Ir model.Ast model.Bits
  model.Decompile model.Naming model.Build proofs.BuildTranslateAux.
Import ListNotations.
Open Scope Z_scope.

(* ------------------------------------------------------------------ *)
(* generalities                                                        *)
(* ------------------------------------------------------------------ *)

Lemma str_eqb_eq a : forall b, str_eqb a b = true <-> a = b.
Proof.
  induction a as [|x a IH]; intros [|y b]; cbn [str_eqb]; try (split; congruence).
  rewrite andb_true_iff, N.eqb_eq, IH. split; [intros [-> ->]; reflexivity|intros H; injection H; auto].
Qed.

Lemma str_eqb_refl a : str_eqb a a = true.
Proof. now apply str_eqb_eq. Qed.

Lemma str_eqb_neq a b : a <> b -> str_eqb a b = false.
Proof. intros H. destruct (str_eqb a b) eqn:E; [|reflexivity]. apply str_eqb_eq in E. contradiction. Qed.

Lemma slookup_cons_eq k v m : slookup k ((k, v) :: m) = Some v.
Proof. cbn [slookup]. now rewrite str_eqb_refl. Qed.

Lemma slookup_cons_neq k k' v m : k <> k' -> slookup k' ((k, v) :: m) = slookup k' m.
Proof. intros H. cbn [slookup]. now rewrite (str_eqb_neq k k' H). Qed.

Lemma slookup_in k m v : slookup k m = Some v -> In (k, v) m.
Proof.
  induction m as [|[k' v'] m IH]; [discriminate|]. cbn [slookup]. destruct (str_eqb k' k) eqn:E.
  - apply str_eqb_eq in E. subst. intros H. injection H as ->. now left.
  - intros H. right. now apply IH.
Qed.

Lemma slookup_none k m : slookup k m = None -> forall v, ~ In (k, v) m.
Proof.
  induction m as [|[k' v'] m IH]; [intros _ v []|]. cbn [slookup]. destruct (str_eqb k' k) eqn:E; [discriminate|].
  intros H v [Hin|Hin].
  - injection Hin as -> _. rewrite str_eqb_refl in E. discriminate.
  - eapply IH; eauto.
Qed.

Lemma zlookup_cons_eq {A} k (v : A) m : zlookup k ((k, v) :: m) = Some v.
Proof. cbn [zlookup]. now rewrite Z.eqb_refl. Qed.

Lemma zlookup_cons_neq {A} k k' (v : A) m : k <> k' -> zlookup k' ((k, v) :: m) = zlookup k' m.
Proof. intros H. cbn [zlookup]. apply Z.eqb_neq in H. now rewrite H. Qed.

(* ------------------------------------------------------------------ *)
(* shape of an instruction list whose outputs follow Translate's counter *)
(* ------------------------------------------------------------------ *)

Definition out (i : instr) : Z := oindex (iout i).
Definition width (o : iop) : Z := match o with IShift _ s => Z.of_N s | _ => 1 end.

Fixpoint wfrom (m : Z) (P : iprogram) : Prop :=
  match P with
  | [] => True
  | i :: r => 1 <= width (iopn i) /\ out i = m + width (iopn i) - 1 /\ wfrom (m + width (iopn i)) r
  end.
Fixpoint nafter (m : Z) (P : iprogram) : Z :=
  match P with [] => m | i :: r => nafter (m + width (iopn i)) r end.

Lemma nafter_app m a b : nafter m (a ++ b) = nafter (nafter m a) b.
Proof. revert m; induction a as [|i a IH]; intros m; cbn [app nafter]; auto. Qed.

Lemma wfrom_app m a b : wfrom m (a ++ b) <-> wfrom m a /\ wfrom (nafter m a) b.
Proof. revert m; induction a as [|i a IH]; intros m; cbn [app wfrom nafter]; [tauto|]. rewrite IH. tauto. Qed.

Lemma nafter_mono : forall l m, wfrom m l -> m <= nafter m l.
Proof.
  induction l as [|q l IH]; intros m H; cbn [nafter]; [lia|].
  destruct H as (H1 & _ & H2). specialize (IH _ H2). lia.
Qed.

Lemma wfrom_outs m a : wfrom m a -> forall i, In i a -> m <= out i < nafter m a.
Proof.
  revert m; induction a as [|j a IH]; intros m Hw i Hi; [destruct Hi|].
  cbn [wfrom nafter] in *. destruct Hw as (Hw1 & Hout & Hw2).
  pose proof (nafter_mono _ _ Hw2) as Hm.
  destruct Hi as [<-|Hi]; [lia|]. specialize (IH _ Hw2 i Hi). lia.
Qed.

(* operands stripped of identifiers, additions ordered as Translate orders them *)
Definition io := index_operand.
Definition canon_op (o : iop) : iop :=
  match o with
  | IAdd x y => if oindex y <? oindex x then IAdd (io (oindex y)) (io (oindex x)) else IAdd (io (oindex x)) (io (oindex y))
  | IDouble x => IDouble (io (oindex x))
  | IShift x s => IShift (io (oindex x)) s
  end.
Definition canon_inst (i : instr) : instr := mkInstr (io (out i)) (canon_op (iopn i)).

Lemma canon_add_comm x y : canon_op (IAdd (io x) (io y)) = canon_op (IAdd (io y) (io x)).
Proof.
  unfold canon_op, io, index_operand. cbn [oindex].
  destruct (y <? x) eqn:E1; destruct (x <? y) eqn:E2; auto.
  - apply Z.ltb_lt in E1, E2. lia.
  - apply Z.ltb_ge in E1, E2. assert (x = y) by lia. now subst.
Qed.

Lemma canon_add_io x y : canon_op (IAdd x y) = canon_op (IAdd (io (oindex x)) (io (oindex y))).
Proof. reflexivity. Qed.

(* ------------------------------------------------------------------ *)
(* Translate: expressions only append instructions                      *)
(* ------------------------------------------------------------------ *)

Definition atom_ok (vs : list (list N * Z)) (x : Z) (e : expr) : Prop :=
  match e with EOperand i => i = x | EIdent s => slookup s vs = Some x | _ => False end.

Lemma tr_atom e x st : atom_ok (t_vars st) x e -> tr_expr e st = Ok (x, st) /\ is_op e = false.
Proof. destruct e; cbn [atom_ok tr_expr is_op]; intros H; try contradiction; [subst; auto|rewrite H; auto]. Qed.

Lemma tr_stmts_app a b st :
  tr_stmts (a ++ b) st = obind (tr_stmts a st) (fun st1 => tr_stmts b st1).
Proof.
  revert st; induction a as [|s a IH]; intros st; cbn [app tr_stmts obind]; [reflexivity|].
  destruct (tr_stmt st s); cbn [obind]; auto.
Qed.

Lemma tr_expr_vars e : forall st x st', tr_expr e st = Ok (x, st') -> t_vars st' = t_vars st.
Proof.
  induction e as [i|s|a IHa b IHb|a IHa s|a IHa]; intros st x st' H; cbn [tr_expr] in H.
  - now inversion H.
  - destruct (slookup s (t_vars st)); inversion H; auto.
  - destruct (tr_expr a st) as [[ia st1]| | |] eqn:Ea; try discriminate. cbn [obind] in H.
    destruct (tr_expr b st1) as [[ib st2]| | |] eqn:Eb; try discriminate. cbn [obind] in H.
    destruct (ib <? ia); inversion H; subst; cbn [t_vars];
      rewrite (IHb _ _ _ Eb); apply (IHa _ _ _ Ea).
  - destruct (tr_expr a st) as [[ia st1]| | |] eqn:Ea; try discriminate. cbn [obind] in H.
    destruct (s =? 0)%N; inversion H; subst; cbn [t_vars]; apply (IHa _ _ _ Ea).
  - destruct (tr_expr a st) as [[ia st1]| | |] eqn:Ea; try discriminate. cbn [obind] in H.
    inversion H; subst; cbn [t_vars]; apply (IHa _ _ _ Ea).
Qed.

Lemma tr_add ex ey st ix st1 iy st2 : tr_expr ex st = Ok (ix, st1) -> tr_expr ey st1 = Ok (iy, st2) ->
  tr_expr (EAdd ex ey) st =
    Ok (t_n st2, mkT (t_n st2 + 1) (t_vars st2)
                     (t_emitted st2 ++ [mkInstr (io (t_n st2)) (canon_op (IAdd (io ix) (io iy)))])).
Proof.
  intros E1 E2. cbn [tr_expr]. rewrite E1. cbn [obind]. rewrite E2. cbn [obind].
  unfold canon_op, io, index_operand; cbn [oindex]. destruct (iy <? ix); reflexivity.
Qed.

Lemma tr_double ex st ix st1 : tr_expr ex st = Ok (ix, st1) ->
  tr_expr (EDouble ex) st =
    Ok (t_n st1, mkT (t_n st1 + 1) (t_vars st1) (t_emitted st1 ++ [mkInstr (io (t_n st1)) (IDouble (io ix))])).
Proof. intros E1. cbn [tr_expr]. rewrite E1. reflexivity. Qed.

Lemma tr_shift ex s st ix st1 : tr_expr ex st = Ok (ix, st1) -> (s <> 0)%N ->
  tr_expr (EShift ex s) st =
    Ok (t_n st1 + Z.of_N s - 1,
        mkT (t_n st1 + Z.of_N s) (t_vars st1)
            (t_emitted st1 ++ [mkInstr (io (t_n st1 + Z.of_N s - 1)) (IShift (io ix) s)])).
Proof. intros E1 Hs. cbn [tr_expr]. rewrite E1. cbn [obind]. apply N.eqb_neq in Hs. rewrite Hs. reflexivity. Qed.

(* ------------------------------------------------------------------ *)
(* the builder                                                          *)
(* ------------------------------------------------------------------ *)

Definition plast (pend : list instr) : option Z :=
  match rev pend with [] => None | i :: _ => Some (out i) end.

Lemma plast_snoc pend k : plast (pend ++ [k]) = Some (out k).
Proof. unfold plast. rewrite rev_app_distr. reflexivity. Qed.

Lemma plast_nil_inv pend : plast pend = None -> pend = [].
Proof.
  unfold plast. destruct (rev pend) eqn:E; [|discriminate]. intros _.
  apply (f_equal (@rev _)) in E. now rewrite rev_involutive in E.
Qed.

Lemma b_operand_cons_neq stm c b k e x : k <> x ->
  b_operand (mkB stm ((k, e) :: b_expr b) c) x = b_operand b x.
Proof. intros H. unfold b_operand. cbn [b_expr]. now rewrite zlookup_cons_neq. Qed.

Lemma b_operand_cons_eq stm c b k e : b_operand (mkB stm ((k, e) :: b_expr b) c) k = e.
Proof. unfold b_operand. cbn [b_expr]. now rewrite zlookup_cons_eq. Qed.

Lemma b_name_nonempty ident idx : b_name ident idx <> [].
Proof. destruct ident; cbn [b_name]; discriminate. Qed.

Lemma has_input_in o x : has_input o x = true <-> In x (map oindex (inputs o)).
Proof.
  unfold has_input. rewrite existsb_exists, in_map_iff. split.
  - intros (i & Hi & E). apply Z.eqb_eq in E. eauto.
  - intros (i & E & Hi). exists i. split; [assumption|now apply Z.eqb_eq].
Qed.

(* classification of an operand of the next instruction that is still an inlined expression *)
Definition pending_at (b : bstate) (ts : tstate) (pend : list instr) (a : Z) : Prop :=
  plast pend = Some a /\ is_op (b_operand b a) = true /\
  exists ts', tr_expr (b_operand b a) ts = Ok (a, ts') /\ t_vars ts' = t_vars ts /\
              t_emitted ts' = t_emitted ts ++ map canon_inst pend /\ t_n ts' = nafter (t_n ts) pend.

(* the expression built for instruction k translates to exactly the pending instructions followed by k *)
Lemma op_translate b ts pend k :
  1 <= width (iopn k) -> out k = nafter (t_n ts) pend + width (iopn k) - 1 ->
  (forall x, In x (input_indexes k) -> plast pend <> Some x -> atom_ok (t_vars ts) x (b_operand b x)) ->
  match plast pend with
  | None => pend = []
  | Some x => In x (input_indexes k) /\ count_occ Z.eq_dec (input_indexes k) x = 1%nat /\ pending_at b ts pend x
  end ->
  exists e ts2, b_operator b (iopn k) = Ok e /\ is_op e = true /\ tr_expr e ts = Ok (out k, ts2) /\
    t_vars ts2 = t_vars ts /\ t_emitted ts2 = t_emitted ts ++ map canon_inst (pend ++ [k]) /\
    t_n ts2 = nafter (t_n ts) (pend ++ [k]).
Proof.
  intros Hw Hout Hat Hp. rewrite map_app, nafter_app. cbn [map nafter].
  destruct k as [ok opk]. unfold out in Hout |- *. cbn [iout iopn] in *. unfold canon_inst, out; cbn [iout iopn].
  destruct (plast pend) as [x|] eqn:Epl.
  - destruct Hp as (Hin & Hcnt & _ & Hop & ts' & Etr & Evars & Eem & En).
    rewrite <- En in Hout |- *.
    destruct opk as [a c|a|a s]; unfold input_indexes in *; cbn [inputs width iopn map] in *.
    + (* add: exactly one operand is the pending one *)
      assert (Eok : oindex ok = t_n ts') by lia.
      cbn [count_occ] in Hcnt.
      destruct (Z.eq_dec (oindex a) x) as [Eax|Hax]; destruct (Z.eq_dec (oindex c) x) as [Ecx|Hcx]; try lia.
      * (* a pending, c atom *)
        destruct (tr_atom (b_operand b (oindex c)) (oindex c) ts') as [Ec Hopc];
          [rewrite Evars; apply Hat; [right; left; reflexivity|congruence]|].
        eexists. eexists. split; [|split; [|split; [|split; [|split]]]].
        -- unfold b_operator, b_add. rewrite Eax, Hop, Hopc. reflexivity.
        -- reflexivity.
        -- rewrite (tr_add _ _ _ _ _ _ _ Etr Ec), Eok. reflexivity.
        -- exact Evars.
        -- cbn [t_emitted]. rewrite Eem, <- app_assoc, (canon_add_io a c), Eax, Eok. reflexivity.
        -- cbn [t_n]. reflexivity.
      * (* c pending, a atom *)
        destruct (tr_atom (b_operand b (oindex a)) (oindex a) ts') as [Ea Hopa];
          [rewrite Evars; apply Hat; [left; reflexivity|congruence]|].
        eexists. eexists. split; [|split; [|split; [|split; [|split]]]].
        -- unfold b_operator, b_add. rewrite Ecx, Hop, Hopa. reflexivity.
        -- reflexivity.
        -- rewrite (tr_add _ _ _ _ _ _ _ Etr Ea), Eok. reflexivity.
        -- exact Evars.
        -- cbn [t_emitted]. rewrite Eem, <- app_assoc, (canon_add_io a c), Ecx, Eok, (canon_add_comm (oindex a) x). reflexivity.
        -- cbn [t_n]. reflexivity.
    + assert (Eok : oindex ok = t_n ts') by lia.
      destruct Hin as [Eax|[]].
      eexists. eexists. split; [|split; [|split; [|split; [|split]]]].
      -- unfold b_operator. rewrite Eax. reflexivity.
      -- reflexivity.
      -- rewrite (tr_double _ _ _ _ Etr), Eok. reflexivity.
      -- exact Evars.
      -- cbn [t_emitted canon_op]. rewrite Eem, <- app_assoc, Eax, Eok. reflexivity.
      -- cbn [t_n]. reflexivity.
    + assert (Eok : oindex ok = t_n ts' + Z.of_N s - 1) by lia.
      destruct Hin as [Eax|[]].
      eexists. eexists. split; [|split; [|split; [|split; [|split]]]].
      -- unfold b_operator. rewrite Eax. reflexivity.
      -- reflexivity.
      -- rewrite (tr_shift _ s _ _ _ Etr) by lia. rewrite Eok. reflexivity.
      -- exact Evars.
      -- cbn [t_emitted canon_op]. rewrite Eem, <- app_assoc, Eax, Eok. reflexivity.
      -- cbn [t_n]. reflexivity.
  - subst pend. cbn [nafter map app] in *.
    destruct opk as [a c|a|a s]; unfold input_indexes in *; cbn [inputs width iopn map] in *.
    + assert (Eok : oindex ok = t_n ts) by lia.
      destruct (tr_atom (b_operand b (oindex a)) (oindex a) ts) as [Ea Hopa]; [apply Hat; [left; reflexivity|congruence]|].
      destruct (tr_atom (b_operand b (oindex c)) (oindex c) ts) as [Ec Hopc]; [apply Hat; [right; left; reflexivity|congruence]|].
      eexists. eexists. split; [|split; [|split; [|split; [|split]]]].
      -- unfold b_operator, b_add. rewrite Hopa, Hopc. reflexivity.
      -- reflexivity.
      -- rewrite (tr_add _ _ _ _ _ _ _ Ea Ec), Eok. reflexivity.
      -- reflexivity.
      -- cbn [t_emitted]. rewrite (canon_add_io a c), Eok. reflexivity.
      -- cbn [t_n]. reflexivity.
    + assert (Eok : oindex ok = t_n ts) by lia.
      destruct (tr_atom (b_operand b (oindex a)) (oindex a) ts) as [Ea Hopa]; [apply Hat; [left; reflexivity|congruence]|].
      eexists. eexists. split; [|split; [|split; [|split; [|split]]]].
      -- unfold b_operator. reflexivity.
      -- reflexivity.
      -- rewrite (tr_double _ _ _ _ Ea), Eok. reflexivity.
      -- reflexivity.
      -- cbn [t_emitted]. rewrite Eok. reflexivity.
      -- cbn [t_n]. reflexivity.
    + assert (Eok : oindex ok = t_n ts + Z.of_N s - 1) by lia.
      destruct (tr_atom (b_operand b (oindex a)) (oindex a) ts) as [Ea Hopa]; [apply Hat; [left; reflexivity|congruence]|].
      eexists. eexists. split; [|split; [|split; [|split; [|split]]]].
      -- unfold b_operator. reflexivity.
      -- reflexivity.
      -- rewrite (tr_shift _ s _ _ _ Ea) by lia. rewrite Eok. reflexivity.
      -- reflexivity.
      -- cbn [t_emitted]. rewrite Eok. reflexivity.
      -- cbn [t_n]. reflexivity.
Qed.

Section BT.
Variable tbl : list (Z * list N).
Variable rc : list (Z * nat).
Variable P : iprogram.

Definition nameof (k : Z) : list N := b_name (ident_of tbl k) k.

Hypothesis Hinj : forall i j, In i (map out P) -> In j (map out P) -> nameof i = nameof j -> i = j.
Hypothesis Hwf : wfrom 1 P.
(* consequence of rc = pass.ReadCounts: the number of occurrences among all inputs *)
Hypothesis Hreads : forall x pre k post, P = pre ++ k :: post -> rc_get rc x = 1%nat -> In x (input_indexes k) ->
  count_occ Z.eq_dec (input_indexes k) x = 1%nat /\ forall i, In i (pre ++ post) -> ~ In x (input_indexes i).

Notation b_step := (b_step tbl rc).
Notation b_loop := (b_loop tbl rc).

Definition Inv (done todo : list instr) (b : bstate) : Prop := exists ts d1 pend,
  done = d1 ++ pend /\ length pend = b_cx b /\
  tr_stmts (b_stmts b) t_init = Ok ts /\ t_emitted ts = map canon_inst d1 /\ t_n ts = nafter 1 d1 /\
  (forall nm idx, In (nm, idx) (t_vars ts) -> nm = nameof idx /\ In idx (map out d1)) /\
  (forall s, In s (b_stmts b) -> exists k, In k (map out d1) /\ sname s = nameof k) /\
  (forall x, (exists i, In i todo /\ In x (input_indexes i)) -> plast pend <> Some x ->
             atom_ok (t_vars ts) x (b_operand b x)) /\
  match plast pend with
  | None => True
  | Some x => is_op (b_operand b x) = true /\ rc_get rc x = 1%nat /\
              (exists k todo', todo = k :: todo' /\ In x (input_indexes k)) /\
              exists ts', tr_expr (b_operand b x) ts = Ok (x, ts') /\
                          t_emitted ts' = t_emitted ts ++ map canon_inst pend /\ t_n ts' = nafter (t_n ts) pend
  end.

Lemma nameof_nonempty k : nameof k <> [].
Proof using. apply b_name_nonempty. Qed.

Lemma step done k todo' b : P = done ++ k :: todo' -> Inv done (k :: todo') b ->
  exists b', b_step b k (hd_error todo') = Ok b' /\ Inv (done ++ [k]) todo' b'.
Proof using Hinj Hwf Hreads.
  intros EP (ts & d1 & pend & Ed & Hcx & Etr & Eem & En & Hvars & Hst & Hatoms & Hpl).
  assert (Hwk : wfrom (nafter 1 done) (k :: todo')) by (rewrite EP in Hwf; apply wfrom_app in Hwf; tauto).
  destruct Hwk as (Hw1 & Hout & _).
  assert (Enaf : nafter 1 done = nafter (t_n ts) pend) by (rewrite Ed, nafter_app, En; reflexivity).
  rewrite Enaf in Hout.
  (* a pending value is consumed by k and read by nobody else *)
  assert (Hcons : forall x, plast pend = Some x -> rc_get rc x = 1%nat /\ In x (input_indexes k) /\
            count_occ Z.eq_dec (input_indexes k) x = 1%nat /\
            forall i, In i (done ++ todo') -> ~ In x (input_indexes i)).
  { intros x Ex. rewrite Ex in Hpl. destruct Hpl as (_ & Hr & (k0 & t0 & E0 & Hin) & _).
    injection E0 as <- <-. destruct (Hreads x done k todo' EP Hr Hin). auto. }
  destruct (op_translate b ts pend k Hw1 Hout) as (e & ts2 & Ebo & Hope & Etr2 & Evars2 & Eem2 & En2).
  { intros x Hx Hnp. apply Hatoms; [exists k; split; [left; reflexivity|exact Hx]|assumption]. }
  { destruct (plast pend) as [x|] eqn:Epl; [|now apply plast_nil_inv].
    destruct (Hcons x eq_refl) as (Hr & Hin & Hcnt & _). split; [exact Hin|]. split; [exact Hcnt|].
    split; [exact Epl|]. split; [apply Hpl|].
    destruct Hpl as (_ & _ & _ & ts' & E1 & E2 & E3). exists ts'. repeat split; auto. eapply tr_expr_vars; eauto. }
  assert (Hsub : forall i, In i (map out done) -> In i (map out P)).
  { intros i Hi. rewrite EP, map_app. apply in_or_app. now left. }
  assert (Hsub1 : forall i, In i (map out d1) -> In i (map out done)).
  { intros i Hi. rewrite Ed, map_app. apply in_or_app. now left. }
  assert (Hkin : In (out k) (map out P)).
  { rewrite EP, map_app. apply in_or_app. right. left. reflexivity. }
  assert (Hfresh : ~ In (out k) (map out done)).
  { intros Hin. apply in_map_iff in Hin as (i & Ei & Hi). rewrite EP in Hwf. apply wfrom_app in Hwf as [Hwd _].
    pose proof (wfrom_outs 1 done Hwd i Hi). rewrite Enaf in H. lia. }
  (* atoms still readable by the remaining instructions, other than out k *)
  assert (Hold : forall x, (exists i, In i todo' /\ In x (input_indexes i)) -> out k <> x ->
            atom_ok (t_vars ts) x (b_operand b x)).
  { intros x (i & Hi & Hx) Hne. apply Hatoms; [exists i; split; [right; exact Hi|exact Hx]|].
    intros Epl. destruct (Hcons x Epl) as (_ & _ & _ & Hno). apply (Hno i); [apply in_or_app; auto|assumption]. }
  (* a name already bound belongs to an earlier output *)
  assert (Hbound : forall v, ~ In (nameof (out k), v) (t_vars ts)).
  { intros v Hv. destruct (Hvars _ _ Hv) as [En' Hv1]. apply Hfresh.
    rewrite (Hinj (out k) v Hkin (Hsub _ (Hsub1 _ Hv1)) En'). now apply Hsub1. }
  unfold Build.b_step. rewrite Ebo. cbn [obind].
  fold (out k). fold (nameof (out k)).
  match goal with |- context [if ?c then _ else _] => destruct c eqn:Econd end.
  - (* inlined *)
    eexists. split; [reflexivity|].
    apply andb_true_iff in Econd as [Econd _]. apply andb_true_iff in Econd as [Econd Hun].
    apply andb_true_iff in Econd as [_ Hr1]. apply Nat.eqb_eq in Hr1.
    exists ts, d1, (pend ++ [k]). rewrite plast_snoc.
    split; [rewrite Ed, app_assoc; reflexivity|].
    split; [rewrite app_length; cbn [length b_cx]; lia|].
    split; [exact Etr|]. split; [exact Eem|]. split; [exact En|]. split; [exact Hvars|]. split; [exact Hst|]. split.
    + intros x Hx Hne. rewrite b_operand_cons_neq by congruence. apply Hold; [assumption|congruence].
    + rewrite b_operand_cons_eq. split; [exact Hope|]. split; [exact Hr1|]. split.
      * destruct todo' as [|j t]; [discriminate|]. exists j, t. split; [reflexivity|].
        cbn [hd_error] in Hun. now apply has_input_in in Hun.
      * exists ts2. auto.
  - (* committed *)
    eexists. split; [reflexivity|].
    set (ts3 := mkT (t_n ts2) ((nameof (out k), out k) :: t_vars ts2) (t_emitted ts2)).
    assert (Hnone : slookup (nameof (out k)) (t_vars ts2) = None).
    { rewrite Evars2. destruct (slookup (nameof (out k)) (t_vars ts)) eqn:E; [|reflexivity]. exfalso.
      apply slookup_in in E. exact (Hbound _ E). }
    exists ts3, (done ++ [k]), []. cbn [plast rev].
    split; [now rewrite app_nil_r|]. split; [reflexivity|]. split.
    { cbn [b_stmts]. rewrite tr_stmts_app, Etr. cbn [obind tr_stmts]. unfold tr_stmt. cbn [sname sexpr].
      rewrite Etr2. cbn [obind]. rewrite Hnone. reflexivity. }
    split; [unfold ts3; cbn [t_emitted]; rewrite Eem2, Eem, Ed, <- map_app, app_assoc; reflexivity|].
    split; [unfold ts3; cbn [t_n]; rewrite En2, En, <- nafter_app, Ed, app_assoc; reflexivity|].
    split.
    { intros nm idx Hin. unfold ts3 in Hin. cbn [t_vars] in Hin. rewrite map_app. destruct Hin as [Hin|Hin].
      - injection Hin as <- <-. split; [reflexivity|]. apply in_or_app. right. left. reflexivity.
      - rewrite Evars2 in Hin. destruct (Hvars _ _ Hin) as [H1 H2]. split; [exact H1|].
        apply in_or_app. left. now apply Hsub1. }
    split.
    { intros s Hs. cbn [b_stmts] in Hs. apply in_app_or in Hs as [Hs|[<-|[]]].
      - destruct (Hst s Hs) as (k0 & Hk0 & Ek0). exists k0. split; [|exact Ek0].
        rewrite map_app. apply in_or_app. left. now apply Hsub1.
      - exists (out k). split; [|reflexivity]. rewrite map_app. apply in_or_app. right. left. reflexivity. }
    split; [|exact I].
    intros x Hx _. destruct (Z.eq_dec (out k) x) as [<-|Hne].
    + rewrite b_operand_cons_eq. unfold atom_ok, ts3. cbn [t_vars]. apply slookup_cons_eq.
    + rewrite b_operand_cons_neq by assumption. specialize (Hold x Hx Hne).
      unfold ts3. cbn [t_vars]. rewrite Evars2.
      destruct (b_operand b x) as [i|s| | |]; cbn [atom_ok] in Hold |- *; try contradiction; [assumption|].
      destruct (list_eq_dec N.eq_dec (nameof (out k)) s) as [<-|Hns]; [|now rewrite slookup_cons_neq].
      exfalso. apply slookup_in in Hold. exact (Hbound _ Hold).
Qed.

Lemma loop_inv : forall todo done b, P = done ++ todo -> Inv done todo b ->
  exists b', b_loop b todo = Ok b' /\ Inv P [] b'.
Proof using Hinj Hwf Hreads.
  induction todo as [|k todo IH]; intros done b EP HI.
  - exists b. split; [reflexivity|]. rewrite app_nil_r in EP. now subst.
  - destruct (step done k todo b EP HI) as (b1 & E1 & HI1). cbn [Build.b_loop]. rewrite E1. cbn [obind].
    apply (IH (done ++ [k]) b1); [rewrite <- app_assoc; exact EP|exact HI1].
Qed.

(* Build never hits its assertion failure, and re-translating the statements it writes emits
   exactly P, operands of additions in canonical order; every statement is named after the
   output it defines, and Translate binds that name to that output *)
Theorem build_translate_loop : exists b ts, b_loop b_init P = Ok b /\
  tr_stmts (b_stmts b) t_init = Ok ts /\ t_emitted ts = map canon_inst P /\ t_n ts = nafter 1 P /\
  (forall nm idx, In (nm, idx) (t_vars ts) -> nm = nameof idx /\ In idx (map out P)) /\
  (forall s, In s (b_stmts b) -> exists k, In k (map out P) /\ sname s = nameof k).
Proof using Hinj Hwf Hreads.
  assert (HI : Inv [] P b_init).
  { exists t_init, [], []. cbn [plast rev].
    split; [reflexivity|]. split; [reflexivity|]. split; [reflexivity|]. split; [reflexivity|].
    split; [reflexivity|]. split; [intros nm idx []|]. split; [intros s []|]. split; [|exact I].
    intros x _ _. reflexivity. }
  destruct (loop_inv P [] b_init eq_refl HI) as (b & Eb & (ts & d1 & pend & Ed & Hcx & Etr & Eem & En & Hvars & Hst & _ & Hpl)).
  exists b, ts. split; [exact Eb|]. split; [exact Etr|].
  assert (pend = []).
  { destruct (plast pend) as [x|] eqn:E; [|now apply plast_nil_inv].
    destruct Hpl as (_ & _ & (k0 & t0 & E0 & _) & _). discriminate. }
  subst pend. rewrite app_nil_r in Ed. subst d1. auto.
Qed.

End BT.
