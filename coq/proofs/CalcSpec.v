(* Specification for C13, independent of the evaluation algorithm: what an expression text is,
   what its tokens are, and what value the usual rules of integer arithmetic give it.
   Definitions only; nothing here refers to the shunting yard, to number() or to SetString. *)
From Coq Require Import String.
From Coq Require Import List NArith ZArith Bool.
From AV Require Import model.Proto model.Calc.
Import ListNotations.

(* tokens: an integer literal (already valued) or one of the five operators *)
Inductive tok := TNum (n : Z) | TOp (o : bop).

(* ---- arithmetic of one operator ---- *)
Open Scope Z_scope.

(* q is the Euclidean quotient of x by y: the remainder lies in [0, |y|) *)
Definition is_equot (x y q : Z) : Prop := exists r, x = q * y + r /\ 0 <= r < Z.abs y.

(* binop o x y z: "x o y" has the value z. No value for a division by zero. *)
Inductive binop : bop -> Z -> Z -> Z -> Prop :=
| b_pow_pos x y : 0 < y -> binop Pow x y (x ^ y)
| b_pow_nonpos x y : y <= 0 -> binop Pow x y 1          (* a negative exponent yields 1 *)
| b_mul x y : binop Mul x y (x * y)
| b_div x y q : y <> 0 -> is_equot x y q -> binop Div x y q
| b_add x y : binop Add x y (x + y)
| b_sub x y : binop Sub x y (x - y).

(* ---- the conventional grammar, unambiguous, over token lists ----
   factor:     n | n ^ factor                 (binds tightest, associates to the right)
   term:       factor | term ( * or / ) factor   (associates to the left)
   expression: term | expression ( + or - ) term  (associates to the left) *)
Inductive F : list tok -> Z -> Prop :=
| F_num n : F [TNum n] n
| F_pow n ts v z : F ts v -> binop Pow n v z -> F (TNum n :: TOp Pow :: ts) z.

Inductive T : list tok -> Z -> Prop :=
| T_f ts v : F ts v -> T ts v
| T_mul ts1 ts2 v1 v2 o z :
    T ts1 v1 -> F ts2 v2 -> (o = Mul \/ o = Div) -> binop o v1 v2 z ->
    T (ts1 ++ TOp o :: ts2) z.

Inductive E : list tok -> Z -> Prop :=
| E_t ts v : T ts v -> E ts v
| E_add ts1 ts2 v1 v2 o z :
    E ts1 v1 -> T ts2 v2 -> (o = Add \/ o = Sub) -> binop o v1 v2 z ->
    E (ts1 ++ TOp o :: ts2) z.

(* ---- literals as text ---- *)
Open Scope N_scope.

Definition dec_digit (c : N) : Prop := 48 <= c <= 57.                 (* 0-9 *)
Definition oct_digit (c : N) : Prop := 48 <= c <= 55.                 (* 0-7 *)
Definition bin_digit (c : N) : Prop := c = 48 \/ c = 49.              (* 0-1 *)
Definition hex_digit (c : N) : Prop := dec_digit c \/ 97 <= c <= 102. (* 0-9 a-f *)

(* value of a digit character: '0'..'9' -> 0..9, 'a'..'f' -> 10..15 *)
Definition digit_val (c : N) : Z :=
  if c <=? 57 then (Z.of_N c - 48)%Z else (Z.of_N c - 87)%Z.

(* positional value, most significant digit first *)
Fixpoint value_from (base acc : Z) (ds : list N) : Z :=
  match ds with
  | [] => acc
  | c :: r => value_from base (acc * base + digit_val c)%Z r
  end.
Definition value_of (base : Z) (ds : list N) : Z := value_from base 0 ds.

(* Unsigned literal texts. The flag oct = false gives the literal classes named by the property
   (decimal without superfluous leading zero, 0x-hexadecimal, 0b-binary). With oct = true the
   class also holds what the evaluator accepts beyond them: decimal digit strings with a
   leading zero, read as octal (Go's base-0 convention). *)
Inductive unsigned_lit (oct : bool) : list N -> Z -> Prop :=
| lit_zero : unsigned_lit oct [48] 0%Z
| lit_dec d ds : dec_digit d -> d <> 48 -> Forall dec_digit ds ->
    unsigned_lit oct (d :: ds) (value_of 10 (d :: ds))
| lit_hex d ds : Forall hex_digit (d :: ds) ->
    unsigned_lit oct (48 :: 120 :: d :: ds) (value_of 16 (d :: ds))
| lit_bin d ds : Forall bin_digit (d :: ds) ->
    unsigned_lit oct (48 :: 98 :: d :: ds) (value_of 2 (d :: ds))
| lit_oct d ds : oct = true -> Forall oct_digit (d :: ds) ->
    unsigned_lit oct (48 :: d :: ds) (value_of 8 (d :: ds)).

(* optional leading minus *)
Inductive literal (oct : bool) : list N -> Z -> Prop :=
| lit_pos t v : unsigned_lit oct t v -> literal oct t v
| lit_neg t v : unsigned_lit oct t v -> literal oct (45 :: t) (- v)%Z.

(* ---- expression texts ---- *)
Definition op_char (o : bop) : N :=
  match o with Pow => 94 | Mul => 42 | Div => 47 | Add => 43 | Sub => 45 end.

(* what may follow a literal: end of text, a space or an operator *)
Definition delimited (s : list N) : Prop :=
  match s with
  | [] => True
  | c :: _ => c = 32 \/ exists o, c = op_char o
  end.

(* renders oct s ts: the text s is the token list ts written out, with optional spaces between
   tokens (and at both ends); literals of the class selected by oct. *)
Inductive renders (oct : bool) : list N -> list tok -> Prop :=
| r_nil : renders oct [] []
| r_space s ts : renders oct s ts -> renders oct (32 :: s) ts
| r_num txt v s ts : literal oct txt v -> delimited s -> renders oct s ts ->
    renders oct (txt ++ s) (TNum v :: ts)
| r_op o s ts : renders oct s ts -> renders oct (op_char o :: s) (TOp o :: ts).

(* the bytes that can occur in an expression at all *)
Definition expr_char (c : N) : Prop :=
  c = 32 \/ (exists o, c = op_char o) \/ hex_digit c \/ c = 120.

(* strict operand/operator alternation, starting with what is expected and ending in an operand *)
Fixpoint alternates (operand : bool) (ts : list tok) : Prop :=
  match ts, operand with
  | TNum _ :: r, true => alternates false r
  | TOp _ :: r, false => alternates true r
  | [], false => True
  | _, _ => False
  end.
