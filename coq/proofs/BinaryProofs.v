(* C01 layer L1: the right-to-left binary method returns an ascending addition chain ending at n. *)
From Coq Require Import String.
From Coq Require Import List NArith ZArith Bool Arith Lia.
From AV Require Import model.Proto model.Bits model.Lists model.Chain model.Binary
  proofs.ChainProofs proofs.ListsProofs proofs.BitsProofs proofs.C01Aux.
Import ListNotations.
Open Scope Z_scope.

Definition xval (x : option Z) : Z := match x with None => 0 | Some v => v end.

Lemma rtl_loop_zero f d x : rtl_loop f 0 d x = Ok [].
Proof. destruct f; reflexivity. Qed.

(* Loop invariant.  S is what has been appended so far; d is the current power of two (the double
   of a member of S unless it is 1); x, when set, is a member of S below d.  The rest of the output
   is strictly increasing, starts at d, every member other than 1 is the sum of two members of
   S ++ r, and its last element is x + b*d. *)
Lemma rtl_loop_inv : forall f b d x S,
  0 < d -> 0 <= b < 2 ^ Z.of_nat f ->
  (d = 1 \/ exists h, In h S /\ h + h = d) ->
  (forall v, x = Some v -> 0 < v < d /\ In v S) ->
  exists r, rtl_loop f b d x = Ok r /\ sorted_distinct r /\ (forall y, In y r -> d <= y) /\
    (forall y, In y r -> y <> 1 -> exists a c, In a (S ++ r) /\ In c (S ++ r) /\ a + c = y) /\
    (0 < b -> (exists r', r = d :: r') /\ last r 0 = xval x + b * d).
Proof.
  induction f as [|f IH]; intros b d x S Hd Hb Hdd Hx.
  - change (2 ^ Z.of_nat 0) with 1 in Hb. assert (b = 0) by lia. subst b.
    exists []. split; [reflexivity|]. split; [exact I|]. split; [intros ? []|]. split; [intros ? []|]. lia.
  - cbn [rtl_loop]. destruct (b =? 0) eqn:Eb0.
    { apply Z.eqb_eq in Eb0. subst b. exists []. split; [reflexivity|]. split; [exact I|]. split; [intros ? []|]. split; [intros ? []|]. lia. }
    apply Z.eqb_neq in Eb0. assert (Hbpos : 0 < b) by lia.
    rewrite Z.shiftr_div_pow2, Z.shiftl_mul_pow2 by lia. change (2 ^ 1) with 2.
    assert (Hb' : 0 <= b / 2 < 2 ^ Z.of_nat f).
    { rewrite Nat2Z.inj_succ, Z.pow_succ_r in Hb by lia. split; [apply Z.div_pos; lia|].
      apply Z.div_lt_upper_bound; lia. }
    pose proof (Zmod_odd b) as Hodd. pose proof (Z.div_mod b 2 ltac:(lia)) as Hdm.
    set (xe := if Z.odd b then match x with None => (Some d, []) | Some xv => (Some (xv + d), [xv + d]) end
               else (x, [])).
    assert (Hxe : exists x' emit, xe = (x', emit) /\
      (forall v, x' = Some v -> 0 < v < d * 2 /\ In v (S ++ d :: emit)) /\
      xval x' + b / 2 * (d * 2) = xval x + b * d /\
      (emit = [] \/ exists xv, x = Some xv /\ emit = [xv + d]) /\
      (b / 2 = 0 -> last (d :: emit) 0 = xval x + b * d)).
    { unfold xe. destruct (Z.odd b).
      - destruct x as [xv|].
        + destruct (Hx xv eq_refl) as [Hv Hin]. exists (Some (xv + d)), [xv + d]. split; [reflexivity|].
          split; [intros v E; injection E as <-; split; [lia|]; apply in_app_iff; right; right; now left|].
          split; [cbn [xval]; nia|]. split; [right; now exists xv|].
          intros E0. cbn [last xval]. nia.
        + exists (Some d), []. split; [reflexivity|].
          split; [intros v E; injection E as <-; split; [lia|]; apply in_app_iff; right; now left|].
          split; [cbn [xval]; nia|]. split; [now left|]. intros E0. cbn [last xval]. nia.
      - exists x, []. split; [reflexivity|].
        split; [intros v E; destruct (Hx v E) as [Hv Hin]; split; [lia|]; apply in_app_iff; now left|].
        split; [nia|]. split; [now left|]. intros E0. lia. }
    destruct Hxe as (x' & emit & Exe & Hx' & Hval & Hemit & Hlast0). rewrite Exe.
    destruct (IH (b / 2) (d * 2) x' (S ++ d :: emit) ltac:(lia) Hb') as (r' & Er' & Hsd & Hge & Hcl & Hl).
    + right. exists d. split; [apply in_app_iff; right; now left|lia].
    + exact Hx'.
    + rewrite Er'. cbn [obind]. exists (d :: emit ++ r').
      assert (Hemit_bounds : forall y, In y emit -> d < y < d * 2 /\ exists xv, x = Some xv /\ y = xv + d).
      { intros y Hy. destruct Hemit as [->|(xv & Ex & ->)]; [destruct Hy|].
        destruct Hy as [<-|[]]. destruct (Hx xv Ex) as [Hv _]. split; [lia|now exists xv]. }
      split; [reflexivity|]. split; [|split; [|split]].
      * cbn [sorted_distinct]. split.
        -- intros y Hy. apply in_app_iff in Hy. destruct Hy as [Hy|Hy].
           ++ apply Hemit_bounds in Hy. lia.
           ++ apply Hge in Hy. lia.
        -- apply sorted_distinct_app. split; [|split; [exact Hsd|]].
           ++ destruct Hemit as [->|(xv & _ & ->)]; cbn [sorted_distinct]; [exact I|]. split; [intros ? []|exact I].
           ++ intros a c Ha Hc. apply Hemit_bounds in Ha. apply Hge in Hc. lia.
      * intros y [<-|Hy]; [lia|]. apply in_app_iff in Hy. destruct Hy as [Hy|Hy].
        -- apply Hemit_bounds in Hy. lia.
        -- apply Hge in Hy. lia.
      * intros y [<-|Hy] Hy1.
        -- destruct Hdd as [->|(h & Hh & Eh)]; [congruence|]. exists h, h.
           split; [apply in_app_iff; now left|]. split; [apply in_app_iff; now left|exact Eh].
        -- apply in_app_iff in Hy. destruct Hy as [Hy|Hy].
           ++ destruct (Hemit_bounds y Hy) as [_ (xv & Ex & ->)]. destruct (Hx xv Ex) as [_ Hin].
              exists xv, d. split; [apply in_app_iff; now left|]. split; [apply in_app_iff; right; now left|reflexivity].
           ++ destruct (Hcl y Hy Hy1) as (a & c & Ha & Hc & E). exists a, c.
              replace (S ++ d :: emit ++ r') with ((S ++ d :: emit) ++ r') by (rewrite <- app_assoc; reflexivity).
              auto.
      * intros _. split; [now exists (emit ++ r')|].
        destruct (Z.eq_dec (b / 2) 0) as [E0|Hn0].
        -- rewrite E0, rtl_loop_zero in Er'. injection Er' as <-. rewrite app_nil_r. now apply Hlast0.
        -- destruct (Hl ltac:(lia)) as [[r'' Er''] Hlast]. subst r'.
           change (d :: emit ++ d * 2 :: r'') with ((d :: emit) ++ d * 2 :: r'').
           rewrite ProgramProofs.last_app_ne by discriminate. rewrite Hlast. exact Hval.
Qed.

(* L1 *)
Theorem rtl_ok n : 1 <= n -> exists c, rtl_binary n = Ok c /\ is_chain c /\ asc c /\ last c 0 = n.
Proof.
  intros Hn. unfold rtl_binary.
  destruct (rtl_loop_inv (S (N.to_nat (N.size (Z.abs_N n)))) n 1 None [] ltac:(lia)) as (r & Er & Hsd & _ & Hcl & Hl).
  - split; [lia|]. pose proof (bitlen_upper n ltac:(lia)) as Hu. unfold bitlen in Hu.
    rewrite Nat2Z.inj_succ, N_nat_Z, Z.pow_succ_r by lia. lia.
  - now left.
  - intros v E. discriminate.
  - destruct (Hl ltac:(lia)) as [[r' Er'] Hlast]. exists r. split; [exact Er|].
    assert (Hinc : inc r) by now apply sorted_distinct_inc.
    split; [|split].
    + apply inc_closed_is_chain; [now exists r'|exact Hinc|]. intros x Hx Hx1. exact (Hcl x Hx Hx1).
    + split; [now exists r'|exact Hinc].
    + rewrite Hlast. cbn [xval]. lia.
Qed.

(* the method never fails or panics, even outside the property's domain: 0 gives the empty chain
   (which Execute then refuses) *)
Lemma rtl_zero : rtl_binary 0 = Ok [].
Proof. reflexivity. Qed.
