(* Proofs about model/Interp.v: forward simulation of the name-keyed interpreter on an
   allocated program (ported from prototype M1), and the combination with AllocProofs into the
   statements of C05. *)
From Coq Require Import String.
From Coq Require Import List NArith ZArith Bool Arith Lia.
From AV Require Import model.Proto model.Ir model.Alloc model.Interp proofs.AllocProofs.
Import ListNotations.
Open Scope Z_scope.

(* ------------------------------------------------------------------ chain values of an IR program *)
Definition op_value (get : Z -> Z) (o : iop) : Z :=
  match o with
  | IAdd x y => get (oindex x) + get (oindex y)
  | IDouble x => get (oindex x) + get (oindex x)
  | IShift x s => Z.shiftl (get (oindex x)) (Z.of_N s)
  end.
Definition upd (env : Z -> Z) (k v : Z) : Z -> Z := fun j => if j =? k then v else env j.
Definition chain_step (env : Z -> Z) (i : instr) : Z -> Z := upd env (out_index i) (op_value env (iopn i)).
(* element 0 is x; every instruction defines the element of its output index *)
Definition chain_values (x : Z) (p : iprogram) : Z -> Z :=
  fold_left chain_step p (fun k => if k =? 0 then x else 0).

Lemma op_value_ext g1 g2 i : (forall k, In k (in_indexes i) -> g1 k = g2 k) -> op_value g1 (iopn i) = op_value g2 (iopn i).
Proof.
  unfold in_indexes. destruct (iopn i) as [a b|a|a n]; cbn [inputs map In op_value]; intros H.
  - rewrite (H (oindex a)), (H (oindex b)); auto.
  - rewrite (H (oindex a)); auto.
  - rewrite (H (oindex a)); auto.
Qed.

Lemma chain_fold_frame q : forall env k, ~ In k (outs q) -> fold_left chain_step q env k = env k.
Proof.
  induction q as [|i r IH]; intros env k Hk; cbn [fold_left]; [reflexivity|].
  cbn [outs map In] in Hk. rewrite IH by tauto. unfold chain_step, upd.
  destruct (k =? out_index i) eqn:E; [apply Z.eqb_eq in E; subst; tauto|reflexivity].
Qed.

Lemma chain_values_def x pre i q : wf (pre ++ i :: q) ->
  chain_values x (pre ++ i :: q) (out_index i) = op_value (chain_values x (pre ++ i :: q)) (iopn i).
Proof.
  intros Hw. apply wf_app in Hw. destruct Hw as (Hno & Hins & _).
  unfold chain_values. rewrite fold_left_app. cbn [fold_left].
  set (env1 := fold_left chain_step pre _).
  rewrite chain_fold_frame by exact Hno.
  unfold chain_step at 1. unfold upd. rewrite Z.eqb_refl.
  apply op_value_ext. intros k Hk. specialize (Hins k Hk). cbn [outs map In] in Hins.
  rewrite chain_fold_frame by tauto. unfold chain_step, upd.
  destruct (k =? out_index i) eqn:E; [apply Z.eqb_eq in E; subst; tauto|reflexivity].
Qed.

Lemma chain_values_zero x p : ~ In 0 (outs p) -> chain_values x p 0 = x.
Proof. intros H. unfold chain_values. rewrite chain_fold_frame by exact H. reflexivity. Qed.

(* ------------------------------------------------------------------ the machine *)
Definition heap_ok (m : machine) : Prop := forall n c, load m n = Some c -> (c < length (mheap m))%nat.

Lemma slookup_sset v c st v' : slookup v' (sset v c st) = if str_eqb v v' then Some c else slookup v' st.
Proof.
  induction st as [|[k c'] t IH]; cbn [sset slookup]; [reflexivity|].
  destruct (str_eqb k v) eqn:Ekv; cbn [slookup].
  - apply str_eqb_eq in Ekv. subst k. destruct (str_eqb v v'); reflexivity.
  - rewrite IH. destruct (str_eqb k v') eqn:Ek; [|reflexivity].
    destruct (str_eqb v v') eqn:Ev; [|reflexivity].
    apply str_eqb_eq in Ek, Ev. subst. assert (str_eqb v' v' = true) by now apply str_eqb_eq. congruence.
Qed.

Lemma load_store m v c v' : load (store m v c) v' = if str_eqb v v' then Some c else load m v'.
Proof. unfold load, store. cbn [mstate]. apply slookup_sset. Qed.

Lemma str_eqb_refl v : str_eqb v v = true.
Proof. now apply str_eqb_eq. Qed.
Lemma str_eqb_neq v w : v <> w -> str_eqb v w = false.
Proof. intros H. destruct (str_eqb v w) eqn:E; [apply str_eqb_eq in E; contradiction|reflexivity]. Qed.

Lemma nth_error_app_old {A} (l : list A) x c : (c < length l)%nat -> nth_error (l ++ [x]) c = nth_error l c.
Proof. intros H. now rewrite nth_error_app1. Qed.

Lemma output_cell_spec m o : heap_ok m ->
  let m1 := fst (output_cell m o) in let c := snd (output_cell m o) in
  load m1 (oname o) = Some c /\
  (forall n, n <> oname o -> load m1 n = load m n) /\
  (forall n c', load m n = Some c' -> load m1 n = Some c') /\
  (forall c', (c' < length (mheap m))%nat -> nth_error (mheap m1) c' = nth_error (mheap m) c') /\
  heap_ok m1 /\
  (forall n c', load m1 n = Some c' -> load m n = Some c' \/ (n = oname o /\ c' = c /\ c = length (mheap m))).
Proof.
  intros Hh. unfold output_cell. destruct (load m (oname o)) as [c0|] eqn:El; cbn [fst snd].
  - repeat split; auto.
  - unfold new_cell. cbn [fst snd]. repeat split.
    + rewrite load_store, str_eqb_refl. reflexivity.
    + intros n Hn. rewrite load_store, str_eqb_neq by congruence. reflexivity.
    + intros n c' H. rewrite load_store. destruct (str_eqb (oname o) n) eqn:E; [|exact H].
      apply str_eqb_eq in E. subst n. congruence.
    + intros c' Hc. cbn [store mheap]. now apply nth_error_app_old.
    + intros n c'. rewrite load_store. cbn [store mheap]. rewrite app_length. cbn [length].
      destruct (str_eqb (oname o) n); [intros E; injection E as <-; lia|]. intros H. specialize (Hh _ _ H). lia.
    + intros n c'. rewrite load_store. destruct (str_eqb (oname o) n) eqn:E; [|auto].
      apply str_eqb_eq in E. intros Ec. injection Ec as <-. right. auto.
Qed.

Lemma nth_error_set_nth l : forall c z c', (c < length l)%nat ->
  nth_error (set_nth l c z) c' = if Nat.eqb c c' then Some z else nth_error l c'.
Proof.
  induction l as [|h t IH]; intros c z c' Hc; cbn [length] in Hc; [lia|].
  destruct c as [|c]; cbn [set_nth].
  - destruct c'; reflexivity.
  - destruct c' as [|c']; cbn [nth_error Nat.eqb]; [reflexivity|]. apply IH. lia.
Qed.

Lemma set_nth_length l : forall c z, length (set_nth l c z) = length l.
Proof. induction l as [|h t IH]; intros [|c] z; cbn [set_nth length]; auto. Qed.

Lemma value_of_load m n z : value_of m n = Some z -> exists c, load m n = Some c /\ nth_error (mheap m) c = Some z.
Proof. unfold value_of. destruct (load m n) as [c|]; [eauto|discriminate]. Qed.

(* ------------------------------------------------------------------ simulation *)
Section Sim.
Variable same : list N -> list N -> Prop.
Hypothesis same_refl : forall n, same n n.
Variable nm : Z -> list N.
Variable Q : iprogram.
Variable cv : Z -> Z.
Hypothesis HwQ : wf Q.
Hypothesis Hnamed : forall i o, In i Q -> In o (operands i) -> oname o = nm (oindex o).
Hypothesis Hnonempty : forall i o, In i Q -> In o (inputs (iopn i)) -> nm (oindex o) <> [].
Hypothesis Hsep : forall pre i q, Q = pre ++ i :: q -> forall j, L q j -> j <> out_index i ->
  ~ same (nm j) (nm (out_index i)).
Hypothesis Hcv : forall i, In i Q -> cv (out_index i) = op_value cv (iopn i).

Definition regs_ok (m : machine) : Prop :=
  forall n1 n2 c, load m n1 = Some c -> load m n2 = Some c -> same n1 n2.

Definition MInv (m : machine) (q : iprogram) : Prop :=
  heap_ok m /\ regs_ok m /\ forall k, L q k -> value_of m (nm k) = Some (cv k).

Lemma step_ok pre i q m : Q = pre ++ i :: q -> MInv m (i :: q) ->
  exists m2, exec_instr m i = Ok m2 /\ MInv m2 q /\
             value_of m2 (nm (out_index i)) = Some (cv (out_index i)) /\
             (forall n, ~ same n (nm (out_index i)) -> value_of m2 n = value_of m n).
Proof using same_refl HwQ Hnamed Hnonempty Hsep Hcv.
  intros EQ (Hh & Hr & Hv).
  assert (HiQ : In i Q) by (rewrite EQ; apply in_or_app; right; now left).
  assert (Hwq : wf (i :: q)) by (rewrite EQ in HwQ; eapply wf_app; eauto).
  destruct Hwq as (Hno & Hins & Hwq').
  assert (Hon : oname (iout i) = nm (out_index i)).
  { apply (Hnamed i); [exact HiQ|]. unfold operands. apply in_or_app. right. now left. }
  destruct (output_cell_spec m (iout i) Hh) as (Hl1 & Hother & Hold & Hheap & Hh1 & Hnew).
  set (m1 := fst (output_cell m (iout i))) in *. set (c := snd (output_cell m (iout i))) in *.
  rewrite Hon in Hl1, Hother, Hnew.
  assert (Hc : (c < length (mheap m1))%nat) by (apply (Hh1 _ _ Hl1)).
  (* registers of m1 *)
  assert (Hr1 : regs_ok m1).
  { intros n1 n2 c' H1 H2. destruct (Hnew _ _ H1) as [O1|(E1 & C1 & F1)]; destruct (Hnew _ _ H2) as [O2|(E2 & C2 & F2)].
    - apply (Hr _ _ _ O1 O2).
    - specialize (Hh _ _ O1). lia.
    - specialize (Hh _ _ O2). lia.
    - subst. apply same_refl. }
  (* operands are defined and hold their chain values *)
  assert (Hop : forall o, In o (inputs (iopn i)) ->
            operand_cell m1 o = Ok (match load m1 (oname o) with Some cx => cx | None => O end) /\
            exists cx, load m1 (oname o) = Some cx /\ heap_get m1 cx = Ok (cv (oindex o))).
  { intros o Ho.
    assert (Eo : oname o = nm (oindex o)) by (apply (Hnamed i); [exact HiQ|unfold operands; apply in_or_app; now left]).
    assert (HL : L (i :: q) (oindex o)).
    { assert (Hin : In (oindex o) (in_indexes i)) by (unfold in_indexes; now apply in_map).
      split; [unfold reads; cbn [flat_map]; apply in_or_app; now left|apply Hins, Hin]. }
    destruct (value_of_load _ _ _ (Hv _ HL)) as (cx & Elx & Enx).
    assert (El1 : load m1 (oname o) = Some cx) by (rewrite Eo; apply Hold, Elx).
    unfold operand_cell. rewrite El1.
    destruct (oname o) eqn:En; [exfalso; apply (Hnonempty i o HiQ Ho); congruence|].
    split; [reflexivity|]. exists cx. split; [reflexivity|]. unfold heap_get.
    rewrite Hheap by (apply (Hh _ _ Elx)). rewrite Enx. reflexivity. }
  (* the state after writing z into the output register *)
  assert (Hfin : forall z, z = cv (out_index i) ->
            let m2 := heap_set m1 c z in
            MInv m2 q /\ value_of m2 (nm (out_index i)) = Some (cv (out_index i)) /\
            (forall n, ~ same n (nm (out_index i)) -> value_of m2 n = value_of m n)).
  { intros z Ez m2.
    assert (Hval2 : forall n, value_of m2 n = match load m1 n with
                                               | Some cn => if Nat.eqb c cn then Some z else nth_error (mheap m1) cn
                                               | None => None end).
    { intros n. unfold value_of, m2, heap_set, load. cbn [mstate mheap].
      destruct (slookup n (mstate m1)); [|reflexivity]. now apply nth_error_set_nth. }
    assert (Hpres : forall n, (forall cn, load m1 n = Some cn -> cn <> c) -> load m n <> None \/ n <> nm (out_index i) ->
                       value_of m2 n = value_of m n).
    { intros n Hcn Hd. rewrite Hval2. unfold value_of.
      destruct (load m n) as [c0|] eqn:E0.
      - rewrite (Hold _ _ E0). specialize (Hcn _ (Hold _ _ E0)).
        destruct (Nat.eqb c c0) eqn:Ec; [apply Nat.eqb_eq in Ec; congruence|]. apply Hheap, (Hh _ _ E0).
      - destruct Hd as [Hd|Hd]; [congruence|]. rewrite (Hother n Hd), E0. reflexivity. }
    split; [split; [|split]|split].
    - intros n cn H. unfold m2, heap_set. cbn [mheap]. rewrite set_nth_length. apply (Hh1 n cn H).
    - exact Hr1.
    - intros k Hk. destruct (Z.eq_dec k (out_index i)) as [->|Hne].
      + rewrite Hval2, Hl1, Nat.eqb_refl. congruence.
      + assert (HL : L (i :: q) k).
        { destruct Hk as [Hk1 Hk2]. split; [unfold reads; cbn [flat_map]; apply in_or_app; now right|].
          cbn [outs map In]. intros [E|E]; [congruence|contradiction]. }
        rewrite Hpres; [apply Hv, HL| |left; destruct (value_of_load _ _ _ (Hv _ HL)) as (c0 & E0 & _); congruence].
        intros cn Hcn ->. apply (Hsep pre i q EQ k Hk Hne). apply (Hr1 _ _ _ Hcn Hl1).
    - rewrite Hval2, Hl1, Nat.eqb_refl. congruence.
    - intros n Hn. apply Hpres; [|right; intros ->; apply Hn, same_refl].
      intros cn Hcn ->. apply Hn. apply (Hr1 _ _ _ Hcn Hl1). }
  unfold exec_instr. fold m1. fold c.
  pose proof (Hcv i HiQ) as Hcvi. unfold operands in Hnamed.
  destruct (iopn i) as [x y|x|x sh] eqn:Eop; cbn [inputs] in Hop; cbn [op_value] in Hcvi.
  - destruct (Hop x (or_introl eq_refl)) as (Ex & cx & Lx & Gx).
    destruct (Hop y (or_intror (or_introl eq_refl))) as (Ey & cy & Ly & Gy).
    rewrite Ex, Lx. cbn [obind]. rewrite Ey, Ly. cbn [obind]. rewrite Gx. cbn [obind]. rewrite Gy. cbn [obind].
    eexists. split; [reflexivity|]. apply Hfin. congruence.
  - destruct (Hop x (or_introl eq_refl)) as (Ex & cx & Lx & Gx).
    rewrite Ex, Lx. cbn [obind]. rewrite Gx. cbn [obind].
    eexists. split; [reflexivity|]. apply Hfin. congruence.
  - destruct (Hop x (or_introl eq_refl)) as (Ex & cx & Lx & Gx).
    rewrite Ex, Lx. cbn [obind]. rewrite Gx. cbn [obind].
    eexists. split; [reflexivity|]. apply Hfin. congruence.
Qed.

Lemma exec_inv : forall q pre m, Q = pre ++ q -> MInv m q ->
  exists m', exec m q = Ok m' /\
    (forall lst, last_instr q = Some lst -> value_of m' (nm (out_index lst)) = Some (cv (out_index lst))) /\
    (forall n, (forall i, In i q -> ~ same n (nm (out_index i))) -> value_of m' n = value_of m n).
Proof using same_refl HwQ Hnamed Hnonempty Hsep Hcv.
  induction q as [|i q IH]; intros pre m EQ HM.
  - exists m. split; [reflexivity|]. split; [intros lst H; discriminate H|reflexivity].
  - destruct (step_ok pre i q m EQ HM) as (m2 & E2 & HM2 & Hout & Hframe).
    cbn [exec]. rewrite E2. cbn [obind].
    destruct (IH (pre ++ [i]) m2) as (m' & E' & Hlast & Hfr'); [rewrite <- app_assoc; exact EQ|exact HM2|].
    exists m'. split; [exact E'|]. split.
    + intros lst Hl. destruct q as [|i2 q2].
      * cbn [last_instr] in Hl. injection Hl as <-. cbn [exec] in E'. injection E' as <-. exact Hout.
      * apply Hlast. exact Hl.
    + intros n Hn. rewrite Hfr'; [apply Hframe, Hn; now left|]. intros j Hj. apply Hn. now right.
Qed.

End Sim.

(* ------------------------------------------------------------------ renaming keeps the indexes *)
Lemma rename_out_index n i : out_index (rename_instr n i) = out_index i.
Proof. reflexivity. Qed.
Lemma rename_in_indexes n i : in_indexes (rename_instr n i) = in_indexes i.
Proof. unfold in_indexes, rename_instr. cbn [iopn]. destruct (iopn i); reflexivity. Qed.
Lemma outs_rename n p : outs (map (rename_instr n) p) = outs p.
Proof. unfold outs. rewrite map_map. reflexivity. Qed.
Lemma reads_rename n p : reads (map (rename_instr n) p) = reads p.
Proof.
  unfold reads. induction p as [|i r IH]; cbn [map flat_map]; [reflexivity|]. now rewrite IH, rename_in_indexes.
Qed.
Lemma wf_rename n p : wf p -> wf (map (rename_instr n) p).
Proof.
  induction p as [|i r IH]; cbn [map wf]; [auto|]. intros (H1 & H2 & H3).
  rewrite rename_out_index, rename_in_indexes, outs_rename. split; [exact H1|]. split; [|apply IH, H3].
  intros x Hx. specialize (H2 x Hx). cbn [outs map] in *. rewrite rename_out_index. fold (outs (map (rename_instr n) r)).
  rewrite outs_rename. exact H2.
Qed.
Lemma L_rename n q k : L (map (rename_instr n) q) k <-> L q k.
Proof. unfold L. now rewrite reads_rename, outs_rename. Qed.
Lemma op_value_rename g n i : op_value g (iopn (rename_instr n i)) = op_value g (iopn i).
Proof. unfold rename_instr. cbn [iopn]. destruct (iopn i); reflexivity. Qed.

Lemma operands_rename n i o : In o (operands (rename_instr n i)) ->
  exists o0, In o0 (operands i) /\ o = rename_operand n o0.
Proof.
  unfold operands, rename_instr. cbn [iopn iout]. intros H. apply in_app_or in H as [H|[H|[]]].
  - destruct (iopn i) as [x y|x|x sh]; cbn [rename_op inputs In] in *.
    + destruct H as [<-|[<-|[]]]; [exists x|exists y]; (split; [apply in_or_app; left; cbn [In]; auto|reflexivity]).
    + destruct H as [<-|[]]. exists x. split; [apply in_or_app; left; cbn [In]; auto|reflexivity].
    + destruct H as [<-|[]]. exists x. split; [apply in_or_app; left; cbn [In]; auto|reflexivity].
  - exists (iout i). split; [apply in_or_app; right; now left|now symmetry].
Qed.

Lemma operand_index_in p i o : In i p -> In o (operands i) -> In (oindex o) (reads p) \/ In (oindex o) (outs p).
Proof.
  intros Hi Ho. unfold operands in Ho. apply in_app_or in Ho as [Ho|[<-|[]]].
  - left. unfold reads. apply in_flat_map. exists i. split; [exact Hi|]. unfold in_indexes. now apply in_map.
  - right. unfold outs. apply in_map_iff. exists i. auto.
Qed.

Lemma wf_from_reads p : forall d l, wf_from d l p -> forall k, In k (reads p) -> In k d \/ In k (outs p).
Proof.
  induction p as [|i r IH]; intros d l H k Hk; [destruct Hk|].
  destruct H as (_ & Hin & Hr). unfold reads in Hk. cbn [flat_map] in Hk. apply in_app_or in Hk as [Hk|Hk].
  - left. auto.
  - destruct (IH _ _ Hr k Hk) as [[<-|Hd]|Ho]; [right; now left|now left|right; now right].
Qed.

Lemma wf_ir_live_start p k : wf_ir p -> L p k -> k = 0.
Proof.
  intros Hw [Hr Ho]. destruct (wf_from_reads p _ _ Hw k Hr) as [[E|[]]|H]; [congruence|contradiction].
Qed.

(* ------------------------------------------------------------------ the initial machine *)
Lemma init_load mode inp outp x n c : load (init_machine mode inp outp x) n = Some c ->
  c = O /\ (n = inp \/ (mode = Aliased /\ n = outp)).
Proof.
  unfold init_machine, new_cell, new_machine. cbn [fst snd mheap mstate length].
  destruct mode; rewrite !load_store; unfold load; cbn [mstate slookup].
  - destruct (str_eqb inp n) eqn:E; [|discriminate]. apply str_eqb_eq in E. intros H. injection H as <-. auto.
  - destruct (str_eqb outp n) eqn:E2.
    + apply str_eqb_eq in E2. intros H. injection H as <-. auto.
    + destruct (str_eqb inp n) eqn:E; [|discriminate]. apply str_eqb_eq in E. intros H. injection H as <-. auto.
Qed.

Lemma init_value_in mode inp outp x : value_of (init_machine mode inp outp x) inp = Some x.
Proof.
  unfold value_of, init_machine, new_cell, new_machine. cbn [fst snd mheap mstate length].
  destruct mode; rewrite !load_store; unfold load, store; cbn [mstate mheap slookup]; rewrite ?str_eqb_refl.
  - reflexivity.
  - destruct (str_eqb outp inp); reflexivity.
Qed.

Lemma same_reg_refl al cfg n : same_reg al cfg n n.
Proof. now left. Qed.

(* ------------------------------------------------------------------ C05 *)
Theorem allocated_exec cfg p lst nmap x : cfg_ok cfg -> wf_ir p -> last_instr p = Some lst -> consistent nmap p ->
  exists q temporaries, allocate cfg p = Ok (q, temporaries) /\
    (forall i o, In i q -> In o (operands i) -> oname o <> []) /\
    (forall i, In i q -> oname (iout i) <> cfg_in cfg) /\
    (forall mode, exists m, run_interp mode (cfg_in cfg) (cfg_out cfg) x q = Ok m /\
        value_of m (cfg_out cfg) = Some (chain_values x p (out_index lst)) /\
        (mode = Separate -> value_of m (cfg_in cfg) = Some x)) /\
    (forall n, In n temporaries <->
        (exists i o, In i q /\ In o (operands i) /\ oname o = n) /\ n <> cfg_in cfg /\ n <> cfg_out cfg) /\
    NoDup temporaries.
Proof.
  intros Hcfg Hwf El Hc.
  destruct (allocate_shape cfg p lst nmap Hwf El Hc) as (idx & Hidx & E).
  destruct (last_instr_split p lst El) as (front & Ep).
  set (s := run_naming cfg p idx lst) in *.
  set (nm := nm_of cfg (lastinputread p) (V (scan p) (out_index lst)) (scan p) (vname s)).
  pose proof (alloc_NInv cfg p lst front idx Hwf Ep Hidx) as HN. fold s in HN.
  assert (Hw : wf p) by (apply wf_ir_wf, Hwf).
  set (Q := map (rename_instr (opname s)) p).
  (* identifiers of the renamed program *)
  assert (Hnamed : forall i o, In i Q -> In o (operands i) -> oname o = nm (oindex o) /\ In (oindex o) (rev idx)).
  { intros i o Hi Ho. unfold Q in Hi. apply in_map_iff in Hi as (i0 & <- & Hi0).
    destruct (operands_rename _ _ _ Ho) as (o0 & Ho0 & ->). cbn [rename_operand oname oindex].
    pose proof (operand_index_in p i0 o0 Hi0 Ho0) as Hin.
    split; [apply (ident_nm cfg p lst front idx Hwf Ep Hidx _ Hin)|apply (idx_done p idx Hidx _ Hin)]. }
  exists Q, (temps s). split; [exact E|]. split; [|split; [|split; [|split]]].
  - intros i o Hi Ho. destruct (Hnamed i o Hi Ho) as [-> Hd].
    apply (nm_nonempty cfg Hcfg _ _ _ _ _ HN _ Hd).
  - intros i Hi. unfold Q in Hi. apply in_map_iff in Hi as (i0 & <- & Hi0). cbn [rename_instr iout rename_operand oname].
    rewrite (ident_nm cfg p lst front idx Hwf Ep Hidx) by (right; change (oindex (iout i0)) with (out_index i0); apply (in_map out_index p i0 Hi0)).
    apply (out_not_input cfg Hcfg p lst front idx Hwf Ep Hidx _ Hi0).
  - intros mode.
    set (al := match mode with Aliased => true | Separate => false end).
    set (m0 := init_machine mode (cfg_in cfg) (cfg_out cfg) x).
    assert (HM : MInv (same_reg al cfg) nm (chain_values x p) m0 Q).
    { split; [|split].
      - intros n c H. apply init_load in H as [-> _]. unfold m0, init_machine, new_cell, new_machine. cbn.
        destruct mode; cbn; lia.
      - intros n1 n2 c H1 H2. apply init_load in H1 as [_ H1]. apply init_load in H2 as [_ H2].
        destruct H1 as [->|[Em ->]]; destruct H2 as [->|[Em2 ->]]; try (now left); right; unfold al; rewrite ?Em, ?Em2; auto.
      - intros k Hk. apply L_rename in Hk. apply (wf_ir_live_start p k Hwf) in Hk. subst k.
        assert (nm 0 = cfg_in cfg) as -> by reflexivity.
        unfold m0. rewrite init_value_in. f_equal. symmetry. apply chain_values_zero.
        intros H0. pose proof (wf_ir_outs_pos p 0 Hwf H0). lia. }
    destruct (exec_inv (same_reg al cfg) (same_reg_refl al cfg) nm Q (chain_values x p)) with (q := Q) (pre := @nil instr) (m := m0)
      as (m' & Em' & Hlast & Hframe); auto.
    + apply wf_rename, Hw.
    + intros i o Hi Ho. apply (Hnamed i o Hi Ho).
    + intros i o Hi Ho. assert (Ho' : In o (operands i)) by (unfold operands; apply in_or_app; now left).
      destruct (Hnamed i o Hi Ho') as [_ Hd]. apply (nm_nonempty cfg Hcfg _ _ _ _ _ HN _ Hd).
    + intros pre i q EQ j Hj Hne. unfold Q in EQ. apply map_eq_app in EQ as (pre0 & q0 & Ep0 & <- & Eq0).
      destruct q0 as [|i0 q0]; [discriminate Eq0|]. cbn [map] in Eq0. injection Eq0 as <- <-.
      apply L_rename in Hj. rewrite rename_out_index in *.
      apply (out_separate cfg Hcfg p lst front idx Hwf Ep Hidx al pre0 i0 q0 j Ep0 Hj Hne).
    + intros i Hi. unfold Q in Hi. apply in_map_iff in Hi as (i0 & <- & Hi0).
      rewrite rename_out_index, op_value_rename.
      apply in_split in Hi0 as (l1 & l2 & Esp). rewrite Esp. apply chain_values_def. rewrite <- Esp. exact Hw.
    + exists m'. split; [exact Em'|]. split.
      * assert (HlQ : last_instr Q = Some (rename_instr (opname s) lst)).
        { unfold Q. rewrite Ep, map_app. cbn [map]. clear. induction (map (rename_instr (opname s)) front) as [|h t IH]; [reflexivity|].
          cbn [app last_instr]. destruct (t ++ [rename_instr (opname s) lst]) eqn:Et; [destruct t; discriminate Et|]. exact IH. }
        specialize (Hlast _ HlQ). rewrite rename_out_index in Hlast.
        assert (Enl : nm (out_index lst) = cfg_out cfg) by apply (nm_last cfg p lst front idx Hwf Ep Hidx).
        rewrite Enl in Hlast. exact Hlast.
      * intros ->. rewrite Hframe; [apply init_value_in|].
        intros i Hi [Hs|[Hal _]]; [|discriminate Hal].
        unfold Q in Hi. apply in_map_iff in Hi as (i0 & <- & Hi0). rewrite rename_out_index in Hs.
        symmetry in Hs. revert Hs. apply (out_not_input cfg Hcfg p lst front idx Hwf Ep Hidx _ Hi0).
  - intros n. rewrite (temporaries_exact cfg Hcfg _ _ _ _ _ HN). fold nm. split.
    + intros [(k & Hk & Enk) Hne]. split; [|exact Hne].
      apply in_rev in Hk. apply Hidx in Hk.
      assert (Hex : exists i0 o0, In i0 p /\ In o0 (operands i0) /\ oindex o0 = k).
      { destruct Hk as [Hk|Hk].
        - unfold reads in Hk. apply in_flat_map in Hk as (i0 & Hi0 & Hx). unfold in_indexes in Hx. apply in_map_iff in Hx as (o0 & Eo & Ho0).
          exists i0, o0. split; [exact Hi0|]. split; [unfold operands; apply in_or_app; now left|exact Eo].
        - unfold outs in Hk. apply in_map_iff in Hk as (i0 & Eo & Hi0). exists i0, (iout i0).
          split; [exact Hi0|]. split; [unfold operands; apply in_or_app; right; now left|exact Eo]. }
      destruct Hex as (i0 & o0 & Hi0 & Ho0 & Eo). exists (rename_instr (opname s) i0), (rename_operand (opname s) o0).
      split; [unfold Q; now apply in_map|]. split.
      * unfold operands in *. cbn [rename_instr iopn iout]. apply in_app_or in Ho0 as [Ho0|[<-|[]]]; apply in_or_app.
        -- left. destruct (iopn i0) as [a b|a|a sh]; cbn [inputs rename_op In] in *; intuition (subst; auto).
        -- right. now left.
      * cbn [rename_operand oname]. rewrite Eo.
        rewrite (ident_nm cfg p lst front idx Hwf Ep Hidx) by (apply Hidx, Hidx; exact Hk). exact Enk.
    + intros [(i & o & Hi & Ho & En) Hne]. split; [|exact Hne].
      destruct (Hnamed i o Hi Ho) as [Eo Hd]. exists (oindex o). split; [exact Hd|congruence].
  - apply (temps_NoDup cfg Hcfg _ _ _ _ _ HN).
Qed.

(* ------------------------------------------------------------------ allocating an already allocated copy *)
(* ir.Program.Clone copies the instructions (identifiers included) and no pass results: a clone of
   a program that was allocated under configuration A is the value [qA] below.  Allocating it under
   B satisfies the whole property again, with the chain of the original program. *)
Lemma wf_from_rename n p : forall d l, wf_from d l p -> wf_from d l (map (rename_instr n) p).
Proof.
  induction p as [|i r IH]; intros d l H; cbn [map wf_from]; [exact I|].
  destruct H as (H1 & H2 & H3). rewrite rename_in_indexes. cbn [rename_instr out_index iout rename_operand oindex].
  split; [exact H1|]. split; [exact H2|]. apply (IH _ _ H3).
Qed.

Lemma last_instr_map (f : instr -> instr) p : last_instr (map f p) = option_map f (last_instr p).
Proof.
  induction p as [|i r IH]; [reflexivity|]. destruct r as [|i2 r2]; [reflexivity|].
  cbn [map last_instr] in *. exact IH.
Qed.

Lemma chain_values_rename x n p : forall k, chain_values x (map (rename_instr n) p) k = chain_values x p k.
Proof.
  unfold chain_values. generalize (fun k : Z => if k =? 0 then x else 0).
  induction p as [|i r IH]; intros env k; cbn [map fold_left]; [reflexivity|].
  assert (E : chain_step env (rename_instr n i) = chain_step env i).
  { unfold chain_step. now rewrite op_value_rename. }
  rewrite E. apply IH.
Qed.

Theorem allocated_again cfgA cfgB p lst nmap x qA tA :
  cfg_ok cfgB -> wf_ir p -> last_instr p = Some lst -> consistent nmap p ->
  allocate cfgA p = Ok (qA, tA) ->
  exists q temporaries, allocate cfgB qA = Ok (q, temporaries) /\
    (forall i o, In i q -> In o (operands i) -> oname o <> []) /\
    (forall i, In i q -> oname (iout i) <> cfg_in cfgB) /\
    (forall mode, exists m, run_interp mode (cfg_in cfgB) (cfg_out cfgB) x q = Ok m /\
        value_of m (cfg_out cfgB) = Some (chain_values x p (out_index lst)) /\
        (mode = Separate -> value_of m (cfg_in cfgB) = Some x)) /\
    (forall n, In n temporaries <->
        (exists i o, In i q /\ In o (operands i) /\ oname o = n) /\ n <> cfg_in cfgB /\ n <> cfg_out cfgB) /\
    NoDup temporaries.
Proof.
  intros Hcfg Hwf El Hc HA.
  destruct (allocate_shape cfgA p lst nmap Hwf El Hc) as (idx & _ & E). rewrite E in HA. injection HA as <- _.
  set (names := opname (run_naming cfgA p idx lst)).
  assert (Hwf' : wf_ir (map (rename_instr names) p)) by (apply wf_from_rename, Hwf).
  assert (El' : last_instr (map (rename_instr names) p) = Some (rename_instr names lst)) by (rewrite last_instr_map, El; reflexivity).
  assert (Hc' : consistent (ident names) (map (rename_instr names) p)).
  { intros o Ho. right. unfold all_operands in Ho. apply in_flat_map in Ho as (i & Hi & Ho).
    apply in_map_iff in Hi as (i0 & <- & _). destruct (operands_rename _ _ _ Ho) as (o0 & _ & ->). reflexivity. }
  destruct (allocated_exec cfgB _ _ _ x Hcfg Hwf' El' Hc') as (q & t & H1 & H2 & H3 & H4 & H5).
  exists q, t. split; [exact H1|]. split; [exact H2|]. split; [exact H3|]. split; [|exact H5].
  intros mode. destruct (H4 mode) as (m & R1 & R2 & R3). exists m. split; [exact R1|]. split; [|exact R3].
  rewrite R2, chain_values_rename. reflexivity.
Qed.
