(* C14, part 3: the report of `addchain search` is consistent (report_consistent) and the whole command
   is self-consistent, minimal and a function of its inputs (search_consistent and corollaries). *)
From Coq Require Import String.
From Coq Require Import List NArith ZArith Lia Bool Arith QArith.
From AV Require Import model.Par proofs.ParProofs.
From AV Require Import model.Proto model.Chain model.Program model.Ir model.Ast.
From AV Require Import proofs.BuildTranslateAux proofs.DecompileProofs proofs.BuildProofs.
From AV Require Import model.Decompile model.Naming model.Build model.Printer model.Peg model.Translate model.Calc
  model.Search.
From AV Require Import proofs.PegProofs proofs.SearchProofs proofs.SearchBridge.
Import ListNotations.
Open Scope Z_scope.

(* ---- Program.Evaluate succeeds only on programs whose operands exist ---- *)
Lemma evaluate_from_ok : forall p c0 c, evaluate_from c0 p = Ok c ->
  length c = (length c0 + length p)%nat /\
  forall t a b, nth_error p t = Some (a, b) -> (a < length c0 + t /\ b < length c0 + t)%nat.
Proof.
  induction p as [|[i j] r IH]; intros c0 c H; cbn [evaluate_from] in H.
  - injection H as <-. split; [cbn [length]; lia|]. intros t a b Ht. destruct t; discriminate Ht.
  - destruct (nth_error c0 i) as [x|] eqn:Ei; [|discriminate]. destruct (nth_error c0 j) as [y|] eqn:Ej; [|discriminate].
    destruct (IH _ _ H) as (L & W). rewrite app_length in L, W. cbn [length] in L, W. split; [cbn [length]; lia|].
    intros t a b Ht. destruct t as [|t].
    + cbn in Ht. injection Ht as <- <-.
      assert (i < length c0)%nat by (apply nth_error_Some; congruence).
      assert (j < length c0)%nat by (apply nth_error_Some; congruence). lia.
    + cbn in Ht. specialize (W t a b Ht). lia.
Qed.

Lemma evaluate_ok_wf : forall p c, evaluate p = Ok c -> wf_program p /\ length c = S (length p).
Proof.
  intros p c H. destruct (evaluate_from_ok p [1] c H) as (L & W). cbn [length] in L, W. split; [|lia].
  intros k i j Hk. specialize (W k i j Hk). lia.
Qed.

(* ---- the canonical operand order does not change what Count counts ---- *)
Lemma count_cop : forall p, count (map cop p) = count p.
Proof.
  intros p. unfold count.
  assert (E : forall o, is_double (cop o) = is_double o).
  { intros [a b]. unfold cop, is_double. cbn [fst snd]. destruct (b <? a)%nat eqn:L; cbn [fst snd]; [|reflexivity].
    apply Nat.ltb_lt in L. rewrite (proj2 (Nat.eqb_neq b a)) by lia. rewrite (proj2 (Nat.eqb_neq a b)) by lia. reflexivity. }
  induction p as [|o r IH]; [reflexivity|]. cbn [map filter]. rewrite E.
  injection IH as I1 I2. destruct (is_double o); cbn [negb length]; rewrite ?I1, ?I2; reflexivity.
Qed.

(* ---- report_consistent ----
   For every valid program (operands exist, pairwise distinct values, length within Go's slice bound):
   Decompile, Build and Print succeed, and the printed bytes load -- printer, tabwriter, parser,
   Translate, Compile, Evaluate -- to exactly the chain of the program, with the same operations up to
   the order of an addition's operands; in particular with the same number of doublings and additions. *)
Theorem report_consistent : forall p c,
  evaluate p = Ok c -> NoDup c -> Z.of_nat (length p) + 1 < 2 ^ 63 ->
  exists text t ir,
    report p = Ok text /\ text = print_script t /\ parse text = Ok t /\
    load_m text = Ok (ir, map cop p, c) /\ count (map cop p) = count p.
Proof.
  intros p c He Hnd Hlen. destruct (evaluate_ok_wf p c He) as (Hwf & _).
  destruct (build_translate p c Hwf He Hnd ltac:(lia)) as (t & Eb & Hw & _ & Ete).
  destruct (aux_load t (map cop p) c Hw Ete ltac:(rewrite map_length; lia)) as (ir & Hl).
  exists (print_script t), t, ir. unfold report. rewrite Eb. cbn [obind].
  split; [reflexivity|]. split; [reflexivity|]. split.
  - apply roundtrip. rewrite <- wf_script_eq. exact Hw.
  - split; [exact Hl|apply count_cop].
Qed.

(* ---- the detail lines never index out of range on an exec.Execute result ---- *)
Lemma detail_lines_ok : forall p k c, (k + length p < length c)%nat ->
  exists l, detail_lines k p c = Ok l /\ length l = length p.
Proof.
  induction p as [|o r IH]; intros k c H; cbn [detail_lines].
  - exists []. split; reflexivity.
  - cbn [length] in H. destruct (nth_error c (S k)) as [v|] eqn:E.
    + destruct (IH (S k) c ltac:(lia)) as (l & -> & Ll). cbn [obind]. eexists. split; [reflexivity|]. cbn [length]. lia.
    + apply nth_error_None in E. lia.
Qed.

(* ---- what C01 establishes about every exec.Execute result of the ensemble (C01 good_result) ---- *)
Definition good_ares (n : Z) (r : ares) : Prop :=
  ar_err r = None /\ is_chain (ar_chain r) /\ last (ar_chain r) 0 = n /\
  length (ar_prog r) = (length (ar_chain r) - 1)%nat /\ evaluate (ar_prog r) = Ok (ar_chain r).

(* Go's bound on slice lengths: a chain has at most 2^63 - 1 elements *)
Definition fits_slice (r : ares) : Prop := Z.of_nat (length (ar_prog r)) + 1 < 2 ^ 63.

(* the statement about one run of search on results rs for target n *)
Definition consistent_report (w : weights) (n : Z) (rs : list ares) (o : sout) : Prop :=
  so_n o = n /\
  (* the selected result exists; the table lists cost, doubles, adds of every result *)
  (exists b, nth_error rs (so_best o) = Some b /\ so_cost o = cost_of w (count (ar_prog b)) /\
             report (ar_prog b) = Ok (so_stdout o)) /\
  so_table o = map (fun r => (cost_of w (count (ar_prog r)), count (ar_prog r))) rs /\
  (* minimal over all algorithm results, and the first such *)
  (forall j r, nth_error rs j = Some r -> (so_cost o <= cost_of w (count (ar_prog r)))%Q) /\
  (forall j r, (j < so_best o)%nat -> nth_error rs j = Some r -> (so_cost o < cost_of w (count (ar_prog r)))%Q) /\
  (* the printed script: eval evaluates it to a chain ending in n, whose weighted operation count is the
     reported cost; fmt accepts it (and leaves it unchanged) *)
  (exists lines d a c,
     eval_cmd (so_stdout o) = Ok (lines, (d, a)) /\
     so_cost o = cost_of w (d, a) /\
     is_chain c /\ last c 0 = n /\
     (exists ir ops, load_m (so_stdout o) = Ok (ir, ops, c) /\ length lines = length ops /\ count ops = (d, a))) /\
  fmt_cmd (so_stdout o) = Ok (so_stdout o).

Lemma search_results_consistent : forall w n rs,
  rs <> [] -> Forall (good_ares n) rs -> Forall fits_slice rs ->
  exists o, search_results w n rs = Ok o /\ consistent_report w n rs o.
Proof.
  intros w n rs Hne Hg Hs. unfold search_results.
  rewrite scan_select by (intros r Hr; rewrite Forall_forall in Hg; apply (Hg r Hr)).
  cbn [obind]. pose proof (select_min (map (fun r => count (ar_prog r)) rs) w) as M. unfold select in M.
  destruct (select_loop w (map (fun r => count (ar_prog r)) rs) 0 0 None) as [best [c|]].
  2:{ destruct rs; [congruence|discriminate M]. }
  destruct M as (da & Hnth & Hc & Hmin & Hfirst).
  rewrite nth_error_map in Hnth. destruct (nth_error rs best) as [b|] eqn:Eb; [|discriminate Hnth].
  cbn [option_map] in Hnth. injection Hnth as <-.
  assert (Hin : In b rs) by (eapply nth_error_In; eauto).
  rewrite Forall_forall in Hg, Hs. destruct (Hg b Hin) as (_ & Hch & Hlast & Hlen & Hev). specialize (Hs b Hin).
  assert (Hnd : NoDup (ar_chain b)) by apply Hch.
  destruct (evaluate_ok_wf _ _ Hev) as (_ & Lc).
  destruct (detail_lines_ok (ar_prog b) O (ar_chain b) ltac:(lia)) as (det & -> & Ldet). cbn [obind].
  destruct (report_consistent (ar_prog b) (ar_chain b) Hev Hnd Hs) as (text & t & ir & Erp & Et & Ep & El & Ec).
  rewrite Erp.
  eexists. split; [reflexivity|]. unfold consistent_report. cbn [so_n so_best so_cost so_table so_stdout].
  split; [reflexivity|]. split; [exists b; split; [exact Eb|split; [exact Hc|exact Erp]]|]. split; [reflexivity|]. split; [|split; [|split]].
  - intros j r Hj. apply (Hmin j (count (ar_prog r))). rewrite nth_error_map, Hj. reflexivity.
  - intros j r Lj Hj. apply (Hfirst j (count (ar_prog r)) Lj). rewrite nth_error_map, Hj. reflexivity.
  - destruct (detail_lines_ok (map cop (ar_prog b)) O (ar_chain b) ltac:(rewrite map_length; lia)) as (lines & Hd & Ll).
    exists lines, (fst (count (ar_prog b))), (snd (count (ar_prog b))), (ar_chain b).
    split; [unfold eval_cmd; rewrite El; cbn [obind]; rewrite Hd; cbn [obind]; rewrite Ec; destruct (count (ar_prog b)); reflexivity|].
    split; [rewrite Hc; destruct (count (ar_prog b)); reflexivity|]. split; [exact Hch|]. split; [exact Hlast|].
    exists ir, (map cop (ar_prog b)). split; [exact El|]. split; [exact Ll|]. rewrite Ec. destruct (count (ar_prog b)); reflexivity.
  - unfold fmt_cmd. rewrite Ep. cbn [obind]. rewrite Et. reflexivity.
Qed.

(* ---- the target 1: the only chain is [1], the program is empty, the script is "return 1" ---- *)
Lemma good_one_empty : forall r, good_ares 1 r -> ar_prog r = [].
Proof.
  intros r (_ & Hch & Hlast & Hlen & _). destruct Hch as ((t & Et) & Hnd & _).
  rewrite Et in *. destruct t as [|x t]; [destruct (ar_prog r); [reflexivity|discriminate Hlen]|].
  exfalso. inversion Hnd as [|? ? Hnot _]. apply Hnot. rewrite <- Hlast.
  clear. revert x. induction t as [|y t IH]; intros x; [left; reflexivity|].
  right. change (last (1 :: x :: y :: t) 0) with (last (1 :: y :: t) 0). apply (IH y).
Qed.

Lemma report_nil : report [] = Ok ($"return  1" ++ [10%N]).
Proof. vm_compute. reflexivity. Qed.

Lemma consistent_one : forall w rs o, Forall (good_ares 1) rs -> consistent_report w 1 rs o ->
  so_stdout o = $"return  1" ++ [10%N] /\ so_cost o == 0.
Proof.
  intros w rs o Hg (_ & (b & Hb & Hc & Hr) & _). rewrite Forall_forall in Hg.
  rewrite (good_one_empty b (Hg b (nth_error_In _ _ Hb))) in Hr, Hc. rewrite report_nil in Hr.
  injection Hr as <-. split; [reflexivity|]. rewrite Hc. unfold cost_of, count. cbn [filter length fst snd]. ring.
Qed.

(* ---- search_consistent: the property, given what C01 proves about the ensemble ----
   ens n is the sequential list [exec.Execute(n, a) | a in ensemble.Ensemble()]. *)
Section Consistent.
Variable ens : Z -> outcome (list ares).
Hypothesis ens_ok : forall n, 1 <= n ->
  exists rs, ens n = Ok rs /\ rs <> [] /\ Forall (good_ares n) rs /\ Forall fits_slice rs.

Theorem search_consistent : forall expr p w n,
  eval expr = Ok n -> 1 <= n -> 1 <= p ->
  exists rs o, ens n = Ok rs /\ search_m ens expr p w = Ok o /\ consistent_report w n rs o.
Proof using ens_ok.
  intros expr p w n He Hn Hp. destruct (ens_ok n Hn) as (rs & Er & Hne & Hg & Hs).
  destruct (search_results_consistent w n rs Hne Hg Hs) as (o & Eo & Ho).
  exists rs, o. split; [exact Er|]. split; [|exact Ho].
  unfold search_m. rewrite (proj2 (Z.ltb_ge p 1)) by lia. rewrite He.
  rewrite (proj2 (Z.ltb_ge n 1)) by lia. rewrite Er. cbn [obind]. exact Eo.
Qed.

(* conventional exit statuses: success exactly for p >= 1 and an expression of value >= 1 *)
Theorem search_exit_status : forall expr p w,
  exit_status (search_m ens expr p w) =
    if p <? 1 then Some 2
    else match eval expr with
         | Ok n => if n <? 1 then Some 1 else Some 0
         | Err _ => Some 1
         | _ => None
         end.
Proof using ens_ok.
  intros expr p w. unfold search_m. destruct (p <? 1) eqn:Ep; [reflexivity|].
  destruct (eval expr) as [n| | |] eqn:Ee; try reflexivity.
  destruct (n <? 1) eqn:En; [reflexivity|].
  apply Z.ltb_ge in Ep, En.
  destruct (search_consistent expr p w n Ee En Ep) as (rs & o & _ & Es & _).
  unfold search_m in Es. rewrite (proj2 (Z.ltb_ge p 1)), Ee, (proj2 (Z.ltb_ge n 1)) in Es by lia.
  rewrite Es. reflexivity.
Qed.
End Consistent.

(* ---- reproducibility: -p and the schedule do not matter ----
   The -p flag reaches the model only through the p >= 1 test ... *)
Theorem search_p_irrelevant : forall ens expr p p' w, 1 <= p -> 1 <= p' ->
  search_m ens expr p w = search_m ens expr p' w.
Proof.
  intros ens expr p p' w Hp Hp'. unfold search_m.
  rewrite (proj2 (Z.ltb_ge p 1)), (proj2 (Z.ltb_ge p' 1)) by lia. reflexivity.
Qed.

(* ... because (C12 returned_complete) whatever the limit >= 0 and the interleaving, the slice that
   Parallel.Execute returns is, position by position, the sequential list of results: search's input
   `ens n` is a function of n alone. *)
Theorem search_schedule_irrelevant : forall (rs : list ares) (d : ares) limit s,
  reachable ares (length rs) limit (fun i => nth i rs d) s -> pc s = PReturned ->
  Par.rs s = map Some rs.
Proof.
  intros rs d limit s Hr Hp.
  destruct (returned_complete ares (length rs) limit (fun i => nth i rs d) s Hr Hp) as (_ & ->).
  unfold sequential. rewrite <- (map_map (fun i => nth i rs d) Some). f_equal.
  clear. induction rs as [|r t IH]; [reflexivity|].
  cbn [length seq map nth]. f_equal. rewrite <- seq_shift, map_map. exact IH.
Qed.
