(* C01 layer L3: dict.primitive keeps the value of the sum and returns a valid chain that contains
   every dictionary entry of the new sum; its "reconstruction does not match" check never fires. *)
From Coq Require Import String.
From Coq Require Import List NArith ZArith Bool Arith Lia Permutation Relations.
From AV Require Import model.Proto model.Bits model.Lists model.Chain model.Program model.Dict
  proofs.ChainProofs proofs.ListsProofs proofs.BitsProofs proofs.ProgramProofs proofs.C01Aux
  proofs.DictProofs.
Import ListNotations.
Open Scope Z_scope.

(* ------------------------------------------------------------------------------------------ *)
(* what Program() says about its result, position by position *)

Lemma Forall2_nth_error_r {A B} (R : A -> B -> Prop) l l' : Forall2 R l l' ->
  forall k y, nth_error l' k = Some y -> exists x, nth_error l k = Some x /\ R x y.
Proof.
  induction 1 as [|a b l l' Hab H IH]; intros k y Hk; [destruct k; discriminate|].
  destruct k as [|k]; cbn [nth_error] in *; [injection Hk as <-; eauto|eauto].
Qed.

Lemma program_ops c p : program c = Ok p ->
  length c = S (length p) /\
  forall k i j, nth_error p k = Some (i, j) ->
    (i <= j /\ j <= k)%nat /\ nz c i + nz c j = nz c (S k).
Proof.
  intros Hp. destruct (program_evaluate c p Hp) as [_ Hl].
  apply program_ok_iff in Hp. destruct Hp as [([r Er] & _ & _) Hloop].
  assert (Hc : length c = S (length p)) by (rewrite Hl, Er; cbn [length]; lia).
  split; [exact Hc|]. intros k i j Hk. apply program_loop_ok in Hloop.
  destruct (Forall2_nth_error_r _ _ _ Hloop k (i, j) Hk) as (x & Hx & t & Et).
  assert (Hklt : (k < length p)%nat) by (apply nth_error_Some; congruence).
  assert (x = S k).
  { assert (Hx' : nth_error (seq 1 (length c - 1)) k = Some (1 + k)%nat).
    { rewrite (nth_error_nth' _ 0%nat) by (rewrite seq_length; lia). rewrite seq_nth by lia. reflexivity. }
    rewrite Hx in Hx'. injection Hx' as ->. reflexivity. }
  subst x. assert (Hin : In (i, j) (ops c (S k))) by (rewrite Et; now left).
  apply in_ops in Hin; [|lia]. destruct Hin as [Hij Hs]. split; [lia|exact Hs].
Qed.

Lemma program_wf c p : program c = Ok p -> wf_program p.
Proof.
  intros Hp k i j Hk. destruct (program_ops c p Hp) as [_ H]. destruct (H k i j Hk) as [Hij _]. lia.
Qed.

(* ------------------------------------------------------------------------------------------ *)
(* idx: the position of a value in the chain *)

Lemma last_index_from_spec x : forall c i found,
  (In x c -> (i <= last_index_from i x c found < i + length c)%nat /\
             nth (last_index_from i x c found - i) c 0 = x) /\
  (~ In x c -> last_index_from i x c found = found).
Proof.
  induction c as [|y c IH]; intros i found; cbn [last_index_from].
  - split; [intros []|reflexivity].
  - destruct (in_dec Z.eq_dec x c) as [Hin|Hnin].
    + destruct (IH (S i) (if x =? y then i else found)) as [H _]. destruct (H Hin) as [Hr Hn].
      set (r := last_index_from (S i) x c (if x =? y then i else found)) in *.
      split; [|intros Hc; exfalso; apply Hc; now right]. intros _. cbn [length]. split; [lia|].
      replace (r - i)%nat with (S (r - S i)) by lia. exact Hn.
    + destruct (IH (S i) (if x =? y then i else found)) as [_ H]. rewrite (H Hnin).
      destruct (x =? y) eqn:E.
      * apply Z.eqb_eq in E. subst y. split; [|intros Hc; exfalso; apply Hc; now left].
        intros _. cbn [length]. split; [lia|]. rewrite Nat.sub_diag. reflexivity.
      * apply Z.eqb_neq in E. split; [intros [Hc|Hc]; [congruence|contradiction]|reflexivity].
Qed.

Lemma idx_of_spec c x : In x c -> (idx_of c x < length c)%nat /\ nz c (idx_of c x) = x.
Proof.
  intros Hin. unfold idx_of, nz. destruct (last_index_from_spec x c 0%nat 0%nat) as [H _].
  destruct (H Hin) as [Hr Hn]. rewrite Nat.sub_0_r in Hn. split; [lia|exact Hn].
Qed.

(* ------------------------------------------------------------------------------------------ *)
(* read counts: only their total matters (pigeon-hole) *)

Definition total (l : list nat) : nat := fold_right Nat.add 0%nat l.

Lemma total_app a b : total (a ++ b) = (total a + total b)%nat.
Proof. unfold total. induction a as [|x a IH]; cbn [app fold_right]; [reflexivity|]. rewrite IH. lia. Qed.

Lemma total_bumped : forall i l, (i < length l)%nat -> total (bumped l i) = S (total l).
Proof.
  unfold bumped. induction i as [|i IH]; intros l Hi; (destruct l as [|x l]; [cbn [length] in Hi; lia|]).
  - reflexivity.
  - cbn [length] in Hi. specialize (IH l ltac:(lia)).
    change (skipn (S (S i)) (x :: l)) with (skipn (S i) l).
    change (firstn (S i) (x :: l)) with (x :: firstn i l).
    change (nth (S i) (x :: l) O) with (nth i l O).
    rewrite <- app_comm_cons. unfold total in *. cbn [fold_right]. rewrite IH. lia.
Qed.

Lemma bump_total l i l' : bump l i = Ok l' -> length l' = length l /\ total l' = S (total l).
Proof.
  unfold bump. destruct (i <? length l)%nat eqn:E; [|discriminate]. apply Nat.ltb_lt in E.
  intros H. injection H as <-. split; [apply (bumped_spec i l E)|apply (total_bumped i l E)].
Qed.

Lemma read_counts_loop_total : forall p reads rs, read_counts_loop reads p = Ok rs ->
  length rs = length reads /\ (total reads + length p <= total rs)%nat.
Proof.
  induction p as [|[i j] p IH]; intros reads rs H; cbn [read_counts_loop] in H.
  - injection H as <-. cbn [length]. lia.
  - destruct (i =? j)%nat.
    + destruct (bump reads i) as [r1| | |] eqn:E1; try discriminate. cbn [obind] in H.
      destruct (bump_total _ _ _ E1) as [L1 T1]. destruct (IH _ _ H) as [L T]. cbn [length]. lia.
    + destruct (bump reads i) as [r1| | |] eqn:E1; try discriminate. cbn [obind] in H.
      destruct (bump r1 j) as [r2| | |] eqn:E2; try discriminate. cbn [obind] in H.
      destruct (bump_total _ _ _ E1) as [L1 T1]. destruct (bump_total _ _ _ E2) as [L2 T2].
      destruct (IH _ _ H) as [L T]. cbn [length]. lia.
Qed.

Lemma bump_terms_total (f : Z * N -> nat) : forall sum reads,
  (forall t, In t sum -> (f t < length reads)%nat) ->
  exists rs, fold_left (fun acc t => obind acc (fun rs => bump rs (f t))) sum (Ok reads) = Ok rs /\
             length rs = length reads /\ total rs = (total reads + length sum)%nat.
Proof.
  induction sum as [|t sum IH]; intros reads H; cbn [fold_left].
  - exists reads. cbn [length]. split; [reflexivity|lia].
  - cbn [obind]. rewrite bump_ok by (apply H; now left).
    destruct (bumped_spec (f t) reads (H t (or_introl eq_refl))) as [L _].
    destruct (IH (bumped reads (f t))) as (rs & E & L' & T').
    + intros u Hu. rewrite L. apply H. now right.
    + exists rs. split; [exact E|]. rewrite L', L, T', total_bumped by (apply H; now left). cbn [length]. lia.
Qed.

Lemma pigeon : forall l, (length l < total l)%nat -> exists i, (i < length l)%nat /\ (2 <= nth i l 0)%nat.
Proof.
  induction l as [|x l IH]; cbn [length total fold_right]; intros H; [lia|].
  destruct (le_lt_dec 2 x) as [Hx|Hx].
  - exists 0%nat. cbn [nth]. lia.
  - destruct IH as (i & Hi & Hn); [unfold total; lia|]. exists (S i). cbn [nth]. lia.
Qed.

(* ------------------------------------------------------------------------------------------ *)
(* the primitive marks *)

Lemma nth_map_seq {A} (f : nat -> A) n j d : (j < n)%nat -> nth j (map f (seq 0 n)) d = f j.
Proof.
  intros Hj. rewrite (nth_indep _ d (f 0%nat)) by (rewrite map_length, seq_length; exact Hj).
  rewrite map_nth, seq_nth by exact Hj. reflexivity.
Qed.

Lemma mark_primitive_length n reads deps : length (mark_primitive n reads deps) = n.
Proof. unfold mark_primitive. now rewrite map_length, seq_length. Qed.

Lemma mark_primitive_spec n reads deps j :
  nth j (mark_primitive n reads deps) false = true <->
  (j < n)%nat /\ exists i, (i < n)%nat /\ (2 <= nth i reads 0)%nat /\ N.testbit (nth i deps 0%N) (N.of_nat j) = true.
Proof.
  destruct (Nat.lt_ge_cases j n) as [Hj|Hj].
  - unfold mark_primitive. rewrite nth_map_seq by exact Hj. rewrite existsb_exists. split.
    + intros (i & Hi & Hb). apply in_seq in Hi. apply andb_true_iff in Hb. destruct Hb as [Hd Ht].
      split; [exact Hj|]. exists i. split; [lia|]. split; [|exact Ht].
      change false with ((fun r => (2 <=? r)%nat) 0%nat) in Hd. rewrite map_nth in Hd. now apply Nat.leb_le in Hd.
    + intros (_ & i & Hi & Hr & Ht). exists i. split; [apply in_seq; lia|]. apply andb_true_iff. split; [|exact Ht].
      change false with ((fun r => (2 <=? r)%nat) 0%nat). rewrite map_nth. now apply Nat.leb_le.
  - rewrite nth_overflow by (rewrite mark_primitive_length; exact Hj). split; [discriminate|lia].
Qed.

Lemma reaches_zero_all p : wf_program p -> forall k, (k <= length p)%nat -> reaches p k 0%nat.
Proof.
  intros Hwf k. induction k as [k IH] using lt_wf_ind. intros Hk.
  destruct k as [|k]; [apply reaches_refl|].
  destruct (nth_error p k) as [[a b]|] eqn:E; [|apply nth_error_None in E; lia].
  destruct (Hwf k a b E) as [Ha _].
  apply rt_trans with a; [apply rt_step; exists k, a, b; auto|apply IH; lia].
Qed.

(* ------------------------------------------------------------------------------------------ *)
(* vectors: combination with the chain (adapted from proto_appendix/K1.v) *)

Fixpoint dot (u c : list Z) : Z :=
  match u, c with a :: u', b :: c' => a * b + dot u' c' | _, _ => 0 end.

Lemma dot_vadd u : forall w c, length u = length w -> dot (vadd_aux u w) c = dot u c + dot w c.
Proof.
  induction u as [|a u IH]; intros [|b w] [|x c] H; cbn [length vadd_aux dot] in *; try lia.
  rewrite IH by lia. lia.
Qed.

Lemma dot_vlsh u e : forall c, dot (vlsh u e) c = dot u c * 2 ^ Z.of_N e.
Proof.
  rewrite vlsh_spec. induction u as [|a u IH]; intros [|x c]; cbn [map dot]; try lia.
  all: try (rewrite IH; lia).
Qed.

Lemma dot_zero n : forall c, dot (repeat 0 n) c = 0.
Proof. induction n as [|n IH]; intros [|x c]; cbn [repeat dot]; try reflexivity. rewrite IH. lia. Qed.

Lemma dot_basis_gen i : forall m s (c : list Z), length c = m ->
  dot (map (fun j => if Nat.eqb j i then 1 else 0) (seq s m)) c =
  if ((s <=? i) && (i <? s + m))%nat then nth (i - s) c 0 else 0.
Proof.
  induction m as [|m IH]; intros s c Hc.
  - destruct c; [|discriminate]. cbn [seq map dot].
    destruct ((s <=? i) && (i <? s + 0))%nat eqn:E; [|reflexivity].
    apply andb_true_iff in E. destruct E as [E1 E2]. apply Nat.leb_le in E1. apply Nat.ltb_lt in E2. lia.
  - destruct c as [|x c]; [discriminate|]. cbn [seq map dot]. cbn [length] in Hc.
    rewrite (IH (S s) c) by lia.
    destruct (Nat.eqb s i) eqn:Es.
    + apply Nat.eqb_eq in Es. subst s.
      replace ((S i <=? i)%nat) with false by (symmetry; apply Nat.leb_gt; lia). cbn [andb].
      replace ((i <=? i) && (i <? i + S m))%nat with true
        by (symmetry; apply andb_true_iff; split; [apply Nat.leb_le|apply Nat.ltb_lt]; lia).
      rewrite Nat.sub_diag. cbn [nth]. lia.
    + apply Nat.eqb_neq in Es.
      destruct ((S s <=? i) && (i <? S s + m))%nat eqn:E1.
      * apply andb_true_iff in E1. destruct E1 as [A B]. apply Nat.leb_le in A. apply Nat.ltb_lt in B.
        replace ((s <=? i) && (i <? s + S m))%nat with true
          by (symmetry; apply andb_true_iff; split; [apply Nat.leb_le|apply Nat.ltb_lt]; lia).
        replace (i - s)%nat with (S (i - S s)) by lia. cbn [nth]. lia.
      * replace ((s <=? i) && (i <? s + S m))%nat with false; [lia|].
        symmetry. apply andb_false_iff. apply andb_false_iff in E1. destruct E1 as [A|B].
        -- apply Nat.leb_gt in A. left. apply Nat.leb_gt. lia.
        -- apply Nat.ltb_ge in B. right. apply Nat.ltb_ge. lia.
Qed.

Lemma dot_basis n i c : length c = n -> (i < n)%nat -> dot (basis n i) c = nz c i.
Proof.
  intros Hc Hi. unfold basis. rewrite dot_basis_gen by exact Hc.
  replace ((0 <=? i) && (i <? 0 + n))%nat with true
    by (symmetry; apply andb_true_iff; split; [apply Nat.leb_le|apply Nat.ltb_lt]; lia).
  rewrite Nat.sub_0_r. reflexivity.
Qed.

(* a vector of the right length whose combination with the chain is x, with non-negative
   coordinates, non-zero only at primitive positions *)
Section Vec.
Variable n : nat.
Variable prim : list bool.
Variable c : list Z.
Hypothesis Hc : length c = n.

Definition vec_ok (a : list Z) (x : Z) : Prop :=
  length a = n /\ dot a c = x /\ (forall i, 0 <= nth i a 0) /\
  (forall i, nth i a 0 <> 0 -> nth i prim false = true).

Lemma vec_ok_basis k : (k < n)%nat -> nth k prim false = true -> vec_ok (basis n k) (nz c k).
Proof using Hc.
  intros Hk Hp. destruct (basis_spec n k) as [Hl Hn]. split; [exact Hl|]. split; [now apply dot_basis|].
  assert (Hv : forall i, nth i (basis n k) 0 = if (i <? n)%nat then (if Nat.eqb i k then 1 else 0) else 0).
  { intros i. destruct (i <? n)%nat eqn:E; [apply Nat.ltb_lt in E; now apply Hn|].
    apply Nat.ltb_ge in E. apply nth_overflow. lia. }
  split; intros i; rewrite Hv; destruct (i <? n)%nat; try lia; destruct (Nat.eqb i k) eqn:E; try lia.
  apply Nat.eqb_eq in E. now subst i.
Qed.

Lemma vec_ok_add a b x y : vec_ok a x -> vec_ok b y -> vec_ok (vadd_aux a b) (x + y).
Proof using Hc.
  intros (La & Da & Pa & Sa) (Lb & Db & Pb & Sb). split; [rewrite vadd_aux_length; lia|].
  split; [rewrite dot_vadd by lia; lia|]. split; intros i; rewrite vadd_aux_nth by lia.
  - specialize (Pa i). specialize (Pb i). lia.
  - intros H. destruct (Z.eq_dec (nth i a 0) 0) as [E|E]; [apply Sb; lia|now apply Sa].
Qed.

Lemma vec_ok_lsh a x e : vec_ok a x -> vec_ok (vlsh a e) (x * 2 ^ Z.of_N e).
Proof using Hc.
  intros (La & Da & Pa & Sa). assert (0 < 2 ^ Z.of_N e) by (apply Z.pow_pos_nonneg; lia).
  split; [rewrite (proj1 (vlsh_nth a e 0%nat)); exact La|]. split; [rewrite dot_vlsh; lia|].
  split; intros i; rewrite (proj2 (vlsh_nth a e i)).
  - specialize (Pa i). nia.
  - intros H1. apply Sa. nia.
Qed.

Lemma vec_ok_zero : vec_ok (repeat 0 n) 0.
Proof using Hc.
  split; [apply repeat_length|]. split; [apply dot_zero|].
  assert (Hz : forall i, nth i (repeat 0 n) 0 = 0).
  { intros i. destruct (Nat.lt_ge_cases i n); [apply nth_repeat'|apply nth_overflow; rewrite repeat_length; lia]. }
  split; intros i; rewrite Hz; lia.
Qed.

(* vc_loop: every vector describes its chain element *)
Lemma vc_loop_spec : forall p vc,
  (length vc + length p = n)%nat ->
  (forall m, (m < length vc)%nat -> vec_ok (nth m vc []) (nz c m)) ->
  (forall k i j, nth_error p k = Some (i, j) ->
     (i < length vc + k /\ j < length vc + k)%nat /\ nz c i + nz c j = nz c (length vc + k)) ->
  exists vc', vc_loop n prim vc p = Ok vc' /\ length vc' = n /\
              forall m, (m < n)%nat -> vec_ok (nth m vc' []) (nz c m).
Proof using Hc.
  induction p as [|[i j] p IH]; intros vc Hl Hv Hp; cbn [vc_loop].
  - cbn [length] in Hl. exists vc. split; [reflexivity|]. split; [lia|]. intros m Hm. apply Hv. lia.
  - cbn [length] in Hl. destruct (Hp 0%nat i j eq_refl) as [[Hi Hj] Hs]. rewrite Nat.add_0_r in Hi, Hj, Hs.
    assert (Hext : forall x, vec_ok x (nz c (length vc)) ->
      exists vc', vc_loop n prim (vc ++ [x]) p = Ok vc' /\ length vc' = n /\
                  forall m, (m < n)%nat -> vec_ok (nth m vc' []) (nz c m)).
    { intros x Hx. apply IH.
      - rewrite app_length. cbn [length]. lia.
      - intros m Hm. rewrite app_length in Hm. cbn [length] in Hm.
        destruct (Nat.eq_dec m (length vc)) as [->|Hne].
        + rewrite nth_middle. exact Hx.
        + rewrite app_nth1 by lia. apply Hv. lia.
      - intros k i' j' Hk. rewrite app_length. cbn [length].
        destruct (Hp (S k) i' j' Hk) as [Hb Hs']. replace (length vc + 1 + k)%nat with (length vc + S k)%nat by lia.
        split; [lia|exact Hs']. }
    destruct (nth (length vc) prim false) eqn:Epr.
    + apply Hext. apply vec_ok_basis; [lia|exact Epr].
    + rewrite (nth_error_nth' vc [] Hi), (nth_error_nth' vc [] Hj).
      apply Hext. rewrite <- Hs. apply vec_ok_add; apply Hv; assumption.
Qed.

(* the target vector *)
Lemma target_vec_ok (vc : list (list Z)) (idx : Z -> nat) : forall sum acc x,
  vec_ok acc x ->
  (forall t, In t sum -> vec_ok (nth (idx (fst t)) vc []) (fst t)) ->
  vec_ok (fold_left (fun acc t => vadd_aux acc (vlsh (nth (idx (fst t)) vc []) (snd t))) sum acc)
         (x + tsum sum).
Proof using Hc.
  induction sum as [|t sum IH]; intros acc x Ha Ht; cbn [fold_left tsum].
  - now rewrite Z.add_0_r.
  - replace (x + (term_int t + tsum sum)) with ((x + term_int t) + tsum sum) by lia. apply IH.
    + rewrite term_int_eq. apply vec_ok_add; [exact Ha|]. apply vec_ok_lsh. apply Ht. now left.
    + intros u Hu. apply Ht. now right.
Qed.

End Vec.

(* ------------------------------------------------------------------------------------------ *)
(* the rebuilt sum *)

Lemma tsum_bits ci vi : 0 <= vi -> tsum (map (fun e => (ci, e)) (bits_set vi)) = ci * vi.
Proof.
  intros Hv. rewrite <- (bits_set_sum vi Hv) at 2. induction (bits_set vi) as [|e l IH]; cbn [map tsum pow2_sum fold_right].
  - lia.
  - rewrite term_int_eq. cbn [fst snd]. unfold pow2_sum in IH. rewrite IH. lia.
Qed.

Lemma rebuilt_tsum : forall c v, length c = length v -> (forall i, 0 <= nth i v 0) ->
  tsum (rebuilt c v) = dot v c.
Proof.
  unfold rebuilt. induction c as [|ci c IH]; intros [|vi v] Hl Hp; cbn [length] in Hl; try lia; [reflexivity|].
  cbn [combine flat_map dot]. rewrite tsum_app, tsum_bits by (apply (Hp 0%nat)).
  rewrite IH; [lia|lia|]. intros i. apply (Hp (S i)).
Qed.

Lemma rebuilt_In : forall c v t, In t (rebuilt c v) ->
  exists i, (i < length c)%nat /\ fst t = nz c i /\ nth i v 0 <> 0.
Proof.
  unfold rebuilt. induction c as [|ci c IH]; intros [|vi v] t Ht; cbn [combine flat_map] in Ht; try destruct Ht.
  apply in_app_iff in Ht. destruct Ht as [Ht|Ht].
  - apply in_map_iff in Ht. destruct Ht as (e & <- & He). exists 0%nat. cbn [length fst nth]. split; [lia|].
    split; [reflexivity|]. intros E. rewrite E in He. destruct He.
  - destruct (IH v t Ht) as (i & Hi & Hf & Hn). exists (S i). cbn [length]. split; [lia|]. split; assumption.
Qed.

(* ------------------------------------------------------------------------------------------ *)
(* the sort: checked oracle or stable insertion *)

Lemma remove_first_perm t : forall l l', remove_first t l = Some l' -> Permutation l (t :: l').
Proof.
  induction l as [|u r IH]; intros l' H; cbn [remove_first] in H; [discriminate|].
  destruct ((fst t =? fst u) && (snd t =? snd u)%N) eqn:E.
  - injection H as <-. apply andb_true_iff in E. destruct E as [E1 E2].
    apply Z.eqb_eq in E1. apply N.eqb_eq in E2. destruct t, u. cbn [fst snd] in *. subst. reflexivity.
  - destruct (remove_first t r) as [r'|] eqn:Er; [|discriminate]. cbn [option_map] in H. injection H as <-.
    apply perm_trans with (u :: t :: r'); [constructor; now apply IH|apply perm_swap].
Qed.

Lemma is_perm_spec : forall a b, is_perm a b = true -> Permutation a b.
Proof.
  induction a as [|t a IH]; intros b H; cbn [is_perm] in H.
  - destruct b; [constructor|discriminate].
  - destruct (remove_first t b) as [b'|] eqn:Er; [|discriminate].
    apply perm_trans with (t :: b'); [constructor; now apply IH|].
    apply Permutation_sym. now apply remove_first_perm.
Qed.

Lemma nondec_unfold x y r :
  nondecreasing_e (x :: y :: r) = ((snd x <=? snd y)%N && nondecreasing_e (y :: r)).
Proof. reflexivity. Qed.

Lemma insert_by_e_perm t : forall l, Permutation (insert_by_e t l) (t :: l).
Proof.
  induction l as [|u r IH]; cbn [insert_by_e]; [reflexivity|].
  destruct (snd t <? snd u)%N; [reflexivity|].
  apply perm_trans with (u :: t :: r); [constructor; exact IH|apply perm_swap].
Qed.

Lemma insert_by_e_nondec t : forall l, nondecreasing_e l = true -> nondecreasing_e (insert_by_e t l) = true.
Proof.
  induction l as [|u r IH]; intros H; [reflexivity|]. cbn [insert_by_e].
  destruct (snd t <? snd u)%N eqn:E.
  - rewrite nondec_unfold, H, andb_true_r. apply N.ltb_lt in E. apply N.leb_le. lia.
  - apply N.ltb_ge in E. destruct r as [|w r'].
    + cbn [insert_by_e]. rewrite nondec_unfold. cbn [nondecreasing_e]. rewrite andb_true_r. now apply N.leb_le.
    + rewrite nondec_unfold in H. apply andb_true_iff in H. destruct H as [H1 H2].
      specialize (IH H2). cbn [insert_by_e] in *. destruct (snd t <? snd w)%N eqn:E2.
      * rewrite nondec_unfold, IH, andb_true_r. now apply N.leb_le.
      * rewrite nondec_unfold, IH, andb_true_r. exact H1.
Qed.

Lemma sort_by_e_spec l : Permutation (sort_by_e l) l /\ nondecreasing_e (sort_by_e l) = true.
Proof.
  unfold sort_by_e. rewrite (Permutation_rev l) at 2. induction (rev l) as [|t r [IH1 IH2]]; cbn [fold_right].
  - split; [constructor|reflexivity].
  - split; [|now apply insert_by_e_nondec].
    apply perm_trans with (t :: fold_right insert_by_e [] r); [apply insert_by_e_perm|now constructor].
Qed.

(* ------------------------------------------------------------------------------------------ *)
(* pruning *)

Definition prune (c : list Z) (prim : list bool) : list Z := map fst (filter snd (combine c prim)).

Lemma prune_model c prim : map fst (filter (fun '(x, b) => b) (combine c prim)) = prune c prim.
Proof. reflexivity. Qed.

Lemma combine_app_eq {A B} (a1 : list A) (b1 : list B) a2 b2 : length a1 = length b1 ->
  combine (a1 ++ a2) (b1 ++ b2) = combine a1 b1 ++ combine a2 b2.
Proof.
  revert b1. induction a1 as [|x a1 IH]; intros [|y b1] H; cbn [length] in H; try discriminate; [reflexivity|].
  cbn [app combine]. f_equal. apply IH. lia.
Qed.

Lemma prune_app c1 p1 c2 p2 : length c1 = length p1 ->
  prune (c1 ++ c2) (p1 ++ p2) = prune c1 p1 ++ prune c2 p2.
Proof.
  intros H. unfold prune. rewrite combine_app_eq by exact H. now rewrite filter_app, map_app.
Qed.

Lemma firstn_snoc {A} (d : A) : forall k l, (k < length l)%nat -> firstn (S k) l = firstn k l ++ [nth k l d].
Proof.
  induction k as [|k IH]; intros [|x l] H; cbn [length] in H; try lia; [reflexivity|].
  change (firstn (S (S k)) (x :: l)) with (x :: firstn (S k) l). rewrite IH by lia. reflexivity.
Qed.

Lemma prune_In_c c prim x : In x (prune c prim) -> In x c.
Proof.
  unfold prune. intros H. apply in_map_iff in H. destruct H as ([y b] & <- & H). apply filter_In in H.
  destruct H as [H _]. now apply in_combine_l in H.
Qed.

Lemma prune_firstn_S c prim k : (k < length c)%nat -> length prim = length c ->
  prune (firstn (S k) c) (firstn (S k) prim) =
  prune (firstn k c) (firstn k prim) ++ (if nth k prim false then [nz c k] else []).
Proof.
  intros Hk Hl. rewrite (firstn_snoc 0) by exact Hk. rewrite (firstn_snoc false) by lia.
  rewrite prune_app by (rewrite !firstn_length; lia). f_equal. unfold prune. cbn [combine filter snd].
  unfold nz. destruct (nth k prim false); reflexivity.
Qed.

(* the marked positions of a chain, when position 0 is marked and the marks are closed under
   "operand of", form a chain *)
Lemma prune_chain c p prim : is_chain c -> program c = Ok p -> length prim = length c ->
  nth 0%nat prim false = true ->
  (forall k i j, nth_error p k = Some (i, j) -> nth (S k) prim false = true ->
                 nth i prim false = true /\ nth j prim false = true) ->
  is_chain (prune c prim) /\ forall i, (i < length c)%nat -> nth i prim false = true -> In (nz c i) (prune c prim).
Proof.
  intros Hc Hp Hl H0 Hcl. destruct (program_ops c p Hp) as [Hlen Hops].
  assert (Hnd : NoDup c) by apply Hc.
  assert (G : forall k, (1 <= k <= length c)%nat ->
    is_chain (prune (firstn k c) (firstn k prim)) /\
    forall i, (i < k)%nat -> nth i prim false = true -> In (nz c i) (prune (firstn k c) (firstn k prim))).
  { induction k as [|k IH]; intros Hk; [lia|]. destruct (Nat.eq_dec k 0) as [->|Hk0].
    - destruct c as [|x c']; [cbn [length] in Hk; lia|]. destruct prim as [|b prim']; [discriminate|].
      cbn [nth] in H0. subst b. unfold prune. cbn [firstn combine filter snd map fst].
      assert (x = 1) by (destruct Hc as [[r Er] _]; now injection Er). subst x.
      split.
      + split; [now exists []|]. split; [repeat constructor; intros []|]. split; [intros [H|[]]; lia|].
        intros k Hk'. cbn [length] in Hk'. lia.
      + intros i Hi _. assert (i = 0%nat) by lia. subst i. now left.
    - destruct (IH ltac:(lia)) as [IHc IHin]. rewrite prune_firstn_S by lia.
      destruct (nth k prim false) eqn:Epk.
      + destruct (nth_error p (k - 1)) as [[i j]|] eqn:Eop; [|apply nth_error_None in Eop; lia].
        destruct (Hops _ _ _ Eop) as [Hij Hs]. replace (S (k - 1)) with k in Hs by lia.
        destruct (Hcl _ _ _ Eop) as [Hpi Hpj]; [replace (S (k - 1)) with k by lia; exact Epk|].
        assert (Hi : In (nz c i) (prune (firstn k c) (firstn k prim))) by (apply IHin; [lia|exact Hpi]).
        assert (Hj : In (nz c j) (prune (firstn k c) (firstn k prim))) by (apply IHin; [lia|exact Hpj]).
        split.
        * apply is_chain_snoc; [exact IHc| |].
          -- apply In_nz in Hi. destruct Hi as (i' & Hi' & Ei). apply In_nz in Hj. destruct Hj as (j' & Hj' & Ej).
             destruct (Nat.le_ge_cases i' j').
             ++ exists i', j'. split; [lia|]. rewrite Ei, Ej. exact Hs.
             ++ exists j', i'. split; [lia|]. rewrite Ei, Ej. lia.
          -- intros Hin. apply prune_In_c in Hin.
             apply In_nz in Hin. destruct Hin as (i' & Hi' & Ei). rewrite firstn_length in Hi'.
             rewrite nz_firstn in Ei by lia.
             assert (i' = k); [|lia]. apply (proj1 (NoDup_nth c 0) Hnd); [lia|lia|exact Ei].
        * intros i' Hi' Hpi'. apply in_app_iff. destruct (Nat.eq_dec i' k) as [->|Hne]; [right; now left|].
          left. apply IHin; [lia|exact Hpi'].
      + rewrite app_nil_r. split; [exact IHc|]. intros i' Hi' Hpi'.
        destruct (Nat.eq_dec i' k) as [->|Hne]; [congruence|]. apply IHin; [lia|exact Hpi']. }
  assert (Hlc : (1 <= length c)%nat) by lia.
  destruct (G (length c) ltac:(lia)) as [G1 G2].
  rewrite firstn_all in G1, G2. rewrite <- Hl, firstn_all in G1, G2. split; [exact G1|]. intros i Hi. apply G2. lia.
Qed.

(* ------------------------------------------------------------------------------------------ *)
(* primitive *)

(* the path taken when the sum does not have exactly one term *)
Definition primitive_body (sum : list (Z * N)) (c : list Z) (order : option (list (Z * N)))
  : outcome (list (Z * N) * list Z) :=
    let n := length c in
    obind (program c) (fun p =>
    obind (read_counts p) (fun reads0 =>
    obind (fold_left (fun acc t => obind acc (fun rs => bump rs (idx_of c (fst t)))) sum (Ok reads0)) (fun reads =>
    obind (dependencies p) (fun deps =>
    let prim := mark_primitive n reads deps in
    obind (vc_loop n prim [basis n 0] p) (fun vc =>
    let v := fold_left (fun acc t => vadd_aux acc (vlsh (nth (idx_of c (fst t)) vc []) (snd t))) sum (repeat 0 n) in
    let out0 := rebuilt c v in
    obind (match order with
           | None => Ok (sort_by_e out0)
           | Some o => if is_perm o out0 && nondecreasing_e o then Ok o else Err ($"sortoracle")
           end) (fun out =>
    if sum_int out =? sum_int sum
    then Ok (out, prune c prim)
    else Err ($"reconstruct"))))))).

Lemma primitive_general sum c order : length sum <> 1%nat -> primitive sum c order = primitive_body sum c order.
Proof. destruct sum as [|t1 [|t2 r]]; intros H; [reflexivity|cbn [length] in H; lia|reflexivity]. Qed.

Lemma tsum_pos l : l <> [] -> (forall t, In t l -> 1 <= fst t) -> 0 < tsum l.
Proof.
  destruct l as [|t r]; intros Hne H; [congruence|]. cbn [tsum].
  assert (0 <= tsum r) by (apply tsum_nonneg; intros u Hu; specialize (H u (or_intror Hu)); lia).
  rewrite term_int_eq. specialize (H t (or_introl eq_refl)).
  assert (0 < 2 ^ Z.of_N (snd t)) by (apply Z.pow_pos_nonneg; lia). nia.
Qed.

(* what a successful call guarantees *)
Definition primitive_post (sum : list (Z * N)) (c : list Z) (r : list (Z * N) * list Z) : Prop :=
  sum_int (fst r) = sum_int sum /\ nondecreasing_e (fst r) = true /\ fst r <> [] /\
  is_chain (snd r) /\ (forall t, In t (fst r) -> In (fst t) (snd r)) /\ (forall x, In x (snd r) -> In x c).

Lemma primitive_body_ok sum c order :
  is_chain c -> (2 <= length sum)%nat -> (forall t, In t sum -> In (fst t) c) ->
  (exists r, primitive_body sum c order = Ok r /\ primitive_post sum c r) \/
  (exists o, order = Some o /\ primitive_body sum c order = Err ($"sortoracle")).
Proof.
  intros Hc Hlen Hin. unfold primitive_body.
  destruct (proj2 (program_iff c) Hc) as [p Hp]. rewrite Hp. cbn [obind].
  destruct (program_ops c p Hp) as [Hn Hops]. pose proof (program_wf c p Hp) as Hwf.
  remember (length c) as n eqn:En.
  (* read counts *)
  destruct (read_counts_wf p Hwf) as (reads0 & Er0 & Lr0 & _). rewrite Er0. cbn [obind].
  assert (Tr0 : (length p <= total reads0)%nat).
  { unfold read_counts in Er0. destruct (read_counts_loop_total _ _ _ Er0) as [_ T]. lia. }
  destruct (bump_terms_total (fun t => idx_of c (fst t)) sum reads0) as (reads & Er & Lr & Tr).
  { intros t Ht. destruct (idx_of_spec c (fst t) (Hin t Ht)) as [Hi _]. lia. }
  rewrite Er. cbn [obind].
  (* dependencies *)
  destruct (deps_spec p Hwf) as (deps & Ed & Ld & Hdeps). rewrite Ed. cbn [obind].
  set (prim := mark_primitive n reads deps).
  assert (Lprim : length prim = n) by apply mark_primitive_length.
  assert (Hprim : forall j, nth j prim false = true <->
            (j < n)%nat /\ exists i, (i < n)%nat /\ (2 <= nth i reads 0)%nat /\ reaches p i j).
  { intros j. unfold prim. rewrite mark_primitive_spec. split.
    - intros (Hj & i & Hi & Hr & Ht). split; [exact Hj|]. exists i. split; [exact Hi|]. split; [exact Hr|].
      apply Hdeps; [lia|exact Ht].
    - intros (Hj & i & Hi & Hr & Ht). split; [exact Hj|]. exists i. split; [exact Hi|]. split; [exact Hr|].
      apply Hdeps; [lia|exact Ht]. }
  assert (Hprim0 : nth 0%nat prim false = true).
  { destruct (pigeon reads) as (i & Hi & Hr); [lia|]. apply Hprim. split; [lia|]. exists i.
    split; [lia|]. split; [exact Hr|]. apply reaches_zero_all; [exact Hwf|lia]. }
  assert (Hprimcl : forall k i j, nth_error p k = Some (i, j) -> nth (S k) prim false = true ->
            nth i prim false = true /\ nth j prim false = true).
  { intros k i j Hk Hpk. apply Hprim in Hpk. destruct Hpk as (Hkn & i0 & Hi0 & Hr0 & Hreach).
    destruct (Hops k i j Hk) as [Hij _].
    split; apply Hprim; (split; [lia|]); exists i0; (split; [exact Hi0|]); (split; [exact Hr0|]);
      (apply rt_trans with (S k); [exact Hreach|]); apply rt_step; exists k, i, j; auto. }
  (* vectors *)
  destruct (vc_loop_spec n prim c (eq_sym En) p [basis n 0]) as (vc & Evc & Lvc & Hvc).
  { cbn [length]. unfold op in *. lia. }
  { intros m Hm. cbn [length] in Hm. assert (m = 0%nat) by lia. subst m. cbn [nth].
    apply vec_ok_basis; [now symmetry|lia|exact Hprim0]. }
  { intros k i j Hk. cbn [length]. destruct (Hops k i j Hk) as [Hij Hs]. split; [lia|exact Hs]. }
  rewrite Evc. cbn [obind].
  set (v := fold_left (fun acc t => vadd_aux acc (vlsh (nth (idx_of c (fst t)) vc []) (snd t))) sum (repeat 0 n)).
  assert (Hv : vec_ok n prim c v (tsum sum)).
  { replace (tsum sum) with (0 + tsum sum) by lia. unfold v. apply target_vec_ok; [now symmetry|apply vec_ok_zero; now symmetry|].
    intros t Ht. destruct (idx_of_spec c (fst t) (Hin t Ht)) as [Hi Hval]. rewrite <- En in Hi.
    rewrite <- Hval at 2. apply Hvc. exact Hi. }
  destruct Hv as (Lv & Dv & Pv & Sv).
  assert (Hout0 : tsum (rebuilt c v) = tsum sum) by (rewrite rebuilt_tsum; [exact Dv|lia|exact Pv]).
  (* the pruned chain *)
  destruct (prune_chain c p prim Hc Hp (eq_trans Lprim En) Hprim0 Hprimcl) as [Hpc Hpin].
  assert (Hposc : forall t, In t sum -> 1 <= fst t) by (intros t Ht; apply (chain_pos c); [exact Hc|now apply Hin]).
  assert (Hfinish : forall out, Permutation out (rebuilt c v) -> nondecreasing_e out = true ->
    exists r, (if sum_int out =? sum_int sum then Ok (out, prune c prim) else Err ($"reconstruct")) = Ok r /\
              primitive_post sum c r).
  { intros out Hperm Hnd. assert (Es : sum_int out = sum_int sum).
    { rewrite !sum_int_tsum, (tsum_perm _ _ Hperm). exact Hout0. }
    rewrite (proj2 (Z.eqb_eq _ _) Es). exists (out, prune c prim). split; [reflexivity|].
    unfold primitive_post. cbn [fst snd]. split; [exact Es|]. split; [exact Hnd|]. split; [|split; [exact Hpc|split]].
    - intros E. subst out. rewrite !sum_int_tsum in Es. cbn [tsum] in Es.
      assert (0 < tsum sum) by (apply tsum_pos; [intros E; subst sum; cbn [length] in Hlen; lia|exact Hposc]). lia.
    - intros t Ht. apply (Permutation_in _ Hperm) in Ht. destruct (rebuilt_In c v t Ht) as (i & Hi & Hf & Hnz).
      rewrite Hf. apply Hpin; [exact Hi|]. now apply Sv.
    - apply prune_In_c. }
  destruct order as [o|]; cbn [obind].
  - destruct (is_perm o (rebuilt c v) && nondecreasing_e o) eqn:Eo; cbn [obind].
    + apply andb_true_iff in Eo. destruct Eo as [E1 E2]. left. apply Hfinish; [now apply is_perm_spec|exact E2].
    + right. exists o. split; reflexivity.
  - left. destruct (sort_by_e_spec (rebuilt c v)) as [H1 H2]. now apply Hfinish.
Qed.

(* L3 *)
Theorem primitive_ok sum c order :
  is_chain c -> sum <> [] -> nondecreasing_e sum = true -> (forall t, In t sum -> In (fst t) c) ->
  (exists r, primitive sum c order = Ok r /\ primitive_post sum c r) \/
  (exists o, order = Some o /\ primitive sum c order = Err ($"sortoracle")).
Proof.
  intros Hc Hne Hnd Hin. destruct sum as [|t1 [|t2 rest]]; [congruence| |].
  - (* one term: returned unchanged *)
    assert (Hpost : primitive_post [t1] c ([t1], c)).
    { unfold primitive_post. cbn [fst snd]. split; [reflexivity|]. split; [exact Hnd|]. split; [discriminate|].
      split; [exact Hc|]. split; [exact Hin|auto]. }
    cbn [primitive]. destruct order as [o|]; [|left; eexists; split; [reflexivity|exact Hpost]].
    destruct (is_perm o [t1]); [left; eexists; split; [reflexivity|exact Hpost]|].
    right. exists o. split; reflexivity.
  - rewrite primitive_general by (cbn [length]; lia). apply primitive_body_ok; [exact Hc|cbn [length]; lia|exact Hin].
Qed.

(* in particular: never "reconstruction does not match", never a panic; and with the stable sort
   (or any observed order that passes the model's check) always a result *)
Corollary primitive_never_reconstruct sum c order :
  is_chain c -> sum <> [] -> nondecreasing_e sum = true -> (forall t, In t sum -> In (fst t) c) ->
  primitive sum c order <> Err ($"reconstruct") /\ (forall e, primitive sum c order <> Panic e) /\
  primitive sum c order <> OutOfFuel.
Proof.
  intros Hc Hne Hnd Hin. destruct (primitive_ok sum c order Hc Hne Hnd Hin) as [(r & E & _)|(o & _ & E)];
    rewrite E; repeat split; try intros ?; discriminate.
Qed.

Corollary primitive_stable_ok sum c :
  is_chain c -> sum <> [] -> nondecreasing_e sum = true -> (forall t, In t sum -> In (fst t) c) ->
  exists r, primitive sum c None = Ok r /\ primitive_post sum c r.
Proof.
  intros Hc Hne Hnd Hin. destruct (primitive_ok sum c None Hc Hne Hnd Hin) as [H|(o & E & _)]; [exact H|discriminate].
Qed.
