(* C14, part 6: everything that is proved about one invocation, in one statement. *)
From Coq Require Import String.
From Coq Require Import List NArith ZArith Lia Bool QArith.
From AV Require Import model.Proto model.Bits model.Chain model.Program model.Peg model.AstProto model.Gen
  model.Calc model.Search model.SearchEns.
From AV Require model.Cli model.Translate.
From AV Require Import proofs.SearchProofs proofs.SearchMain proofs.SearchEnsProofs proofs.SearchGen proofs.SearchFmtB.
Import ListNotations.
Open Scope Z_scope.

Definition builtin_templates : list (list N) := [$"listing"; $"chain"; $"ops"; $"script"].

(* what is proved of a successful run beyond consistent_report: gen on the printed script *)
Definition gen_clause (n : Z) (o : sout) : Prop :=
  forall tmpl, In tmpl builtin_templates ->
  (2 <= n -> exists out, gen default_cfg tmpl (so_stdout o) = Ok out) /\
  (n = 1 -> gen default_cfg tmpl (so_stdout o) = Err ($"empty")).

(* fmt -b (parse, Translate, acc.Build on the named program, print: model/Cli.v) accepts the printed script
   and what it prints loads to a genuine chain ending in n *)
Definition fmtb_clause (n : Z) (o : sout) : Prop :=
  exists out ir ops c, Cli.fmt_out true (so_stdout o) = Ok out /\
    Translate.load_m out = Ok (ir, ops, c) /\ last c 0 = n /\ is_chain c.

Lemma gen_one : forall tmpl, gen default_cfg tmpl ($"return  1" ++ [10%N]) = Err ($"empty").
Proof. intros tmpl. vm_compute. reflexivity. Qed.

Theorem search_full_all : forall orcs expr p w n,
  eval expr = Ok n -> 1 <= n -> Z.of_N (bitlen n) < 2 ^ 64 -> 1 <= p ->
  (forall rs, ens_model orcs n = Ok rs -> Forall fits_slice rs) ->
  (exists rs o, ens_model orcs n = Ok rs /\ search_full orcs expr p w = Ok o /\
                consistent_report w n rs o /\ gen_clause n o /\ fmtb_clause n o) \/
  (search_full orcs expr p w = Err ($"alg") /\ exists j, orcs j <> None).
Proof.
  intros orcs expr p w n He Hn Hb Hp Hfit.
  destruct (search_full_consistent orcs expr p w n He Hn Hb Hp Hfit) as [(rs & o & Er & Es & Hc & Hg & Hs)|H]; [left|right; exact H].
  exists rs, o. split; [exact Er|]. split; [exact Es|]. split; [exact Hc|].
  split; [|exact (consistent_fmtb w n rs o Hg Hs Hc)].
  intros tmpl Ht. split.
  - intros H2. exact (consistent_gen w n rs o tmpl H2 Hg Hs Hc Ht).
  - intros ->. destruct (consistent_one w rs o Hg Hc) as (-> & _). apply gen_one.
Qed.
