(* Proofs about model/Bits.v (C19). *)
From Coq Require Import List NArith ZArith Bool Lia.
From AV Require Import model.Proto model.Bits.
Import ListNotations.
Open Scope Z_scope.

Lemma pow2_eq e : pow2 e = 2 ^ Z.of_N e.
Proof. unfold pow2. apply Z.shiftl_1_l. Qed.

Lemma mask_ones_shiftl l h : (l <= h)%N -> mask l h = Z.shiftl (Z.ones (Z.of_N h - Z.of_N l)) (Z.of_N l).
Proof.
  intros H. unfold mask. rewrite !pow2_eq, Z.ones_equiv, Z.shiftl_mul_pow2 by lia.
  replace (Z.of_N h) with ((Z.of_N h - Z.of_N l) + Z.of_N l) at 1 by lia.
  rewrite Z.pow_add_r by lia. lia.
Qed.

Lemma mask_bits l h i :
  (l <= h)%N -> 0 <= i ->
  Z.testbit (mask l h) i = (Z.of_N l <=? i) && (i <? Z.of_N h).
Proof.
  intros H Hi. rewrite mask_ones_shiftl by assumption.
  rewrite Z.shiftl_spec by assumption.
  destruct (Z.leb_spec (Z.of_N l) i) as [Hl|Hl].
  - destruct (Z.ltb_spec i (Z.of_N h)) as [Hh|Hh]; cbn [andb].
    + apply Z.ones_spec_low. lia.
    + apply Z.ones_spec_high. lia.
  - cbn [andb]. apply Z.testbit_neg_r. lia.
Qed.

Lemma mask_nonneg l h : (l <= h)%N -> 0 <= mask l h.
Proof.
  intros H. unfold mask. rewrite !pow2_eq.
  assert (2 ^ Z.of_N l <= 2 ^ Z.of_N h) by (apply Z.pow_le_mono_r; lia). lia.
Qed.

Lemma ones_eq n : ones n = 2 ^ Z.of_N n - 1.
Proof. unfold ones, mask. rewrite !pow2_eq. reflexivity. Qed.

Lemma extract_eq x l h :
  0 <= x -> (l <= h)%N ->
  extract x l h = (x / 2 ^ Z.of_N l) mod 2 ^ (Z.of_N h - Z.of_N l).
Proof.
  intros Hx H. unfold extract. apply Z.bits_inj'. intros i Hi.
  rewrite Z.shiftr_spec by assumption. rewrite Z.land_spec.
  rewrite mask_bits by lia.
  destruct (Z.ltb_spec i (Z.of_N h - Z.of_N l)) as [Hlt|Hge].
  - rewrite Z.mod_pow2_bits_low by lia. rewrite Z.div_pow2_bits by lia.
    replace (Z.of_N l <=? i + Z.of_N l) with true by (symmetry; apply Z.leb_le; lia).
    replace (i + Z.of_N l <? Z.of_N h) with true by (symmetry; apply Z.ltb_lt; lia).
    reflexivity.
  - rewrite Z.mod_pow2_bits_high by lia.
    replace (i + Z.of_N l <? Z.of_N h) with false by (symmetry; apply Z.ltb_ge; lia).
    rewrite andb_false_r. reflexivity.
Qed.
