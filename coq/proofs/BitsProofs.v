(* Proofs about model/Bits.v (C19). *)
From Coq Require Import List NArith ZArith Bool Arith Lia ZifyBool ZifyNat ZifyN Sorted.
From AV Require Import model.Proto model.Bits.
Import ListNotations.
Open Scope Z_scope.

Lemma pow2_eq e : pow2 e = 2 ^ Z.of_N e.
Proof. unfold pow2. apply Z.shiftl_1_l. Qed.

Lemma mask_ones_shiftl l h : (l <= h)%N -> mask l h = Z.shiftl (Z.ones (Z.of_N h - Z.of_N l)) (Z.of_N l).
Proof.
  intros H. unfold mask. rewrite !pow2_eq, Z.ones_equiv, Z.shiftl_mul_pow2 by lia.
  replace (Z.of_N h) with ((Z.of_N h - Z.of_N l) + Z.of_N l) at 1 by lia.
  rewrite Z.pow_add_r by lia. lia.
Qed.

Lemma mask_bits l h i :
  (l <= h)%N -> 0 <= i ->
  Z.testbit (mask l h) i = (Z.of_N l <=? i) && (i <? Z.of_N h).
Proof.
  intros H Hi. rewrite mask_ones_shiftl by assumption.
  rewrite Z.shiftl_spec by assumption.
  destruct (Z.leb_spec (Z.of_N l) i) as [Hl|Hl].
  - destruct (Z.ltb_spec i (Z.of_N h)) as [Hh|Hh]; cbn [andb].
    + apply Z.ones_spec_low. lia.
    + apply Z.ones_spec_high. lia.
  - cbn [andb]. apply Z.testbit_neg_r. lia.
Qed.

Lemma mask_nonneg l h : (l <= h)%N -> 0 <= mask l h.
Proof.
  intros H. unfold mask. rewrite !pow2_eq.
  assert (2 ^ Z.of_N l <= 2 ^ Z.of_N h) by (apply Z.pow_le_mono_r; lia). lia.
Qed.

Lemma ones_eq n : ones n = 2 ^ Z.of_N n - 1.
Proof. unfold ones, mask. rewrite !pow2_eq. reflexivity. Qed.

Lemma extract_eq x l h :
  0 <= x -> (l <= h)%N ->
  extract x l h = (x / 2 ^ Z.of_N l) mod 2 ^ (Z.of_N h - Z.of_N l).
Proof.
  intros Hx H. unfold extract. apply Z.bits_inj'. intros i Hi.
  rewrite Z.shiftr_spec by assumption. rewrite Z.land_spec.
  rewrite mask_bits by lia.
  destruct (Z.ltb_spec i (Z.of_N h - Z.of_N l)) as [Hlt|Hge].
  - rewrite Z.mod_pow2_bits_low by lia. rewrite Z.div_pow2_bits by lia.
    replace (Z.of_N l <=? i + Z.of_N l) with true by (symmetry; apply Z.leb_le; lia).
    replace (i + Z.of_N l <? Z.of_N h) with true by (symmetry; apply Z.ltb_lt; lia).
    reflexivity.
  - rewrite Z.mod_pow2_bits_high by lia.
    replace (i + Z.of_N l <? Z.of_N h) with false by (symmetry; apply Z.ltb_ge; lia).
    rewrite andb_false_r. reflexivity.
Qed.

(* ------------------------------------------------------------------------------------ *)
(* BitLen                                                                                 *)
(* ------------------------------------------------------------------------------------ *)

Lemma bitlen_0_iff x : bitlen x = 0%N <-> x = 0.
Proof.
  unfold bitlen. destruct x as [|p|p]; cbn [Z.abs_N N.size]; split; intros H; try reflexivity; discriminate.
Qed.

Lemma bitlen_opp x : bitlen (- x) = bitlen x.
Proof. unfold bitlen. now rewrite Zabs2N.inj_opp. Qed.

Lemma N_size_bounds n : n <> 0%N -> (2 ^ (N.size n - 1) <= n < 2 ^ N.size n)%N.
Proof.
  intros Hn. rewrite (N.size_log2 n Hn). replace (N.succ (N.log2 n) - 1)%N with (N.log2 n) by lia.
  apply N.log2_spec. lia.
Qed.

Lemma bitlen_bounds x : 0 < x -> 2 ^ (Z.of_N (bitlen x) - 1) <= x < 2 ^ Z.of_N (bitlen x).
Proof.
  intros Hx. unfold bitlen. set (n := Z.abs_N x).
  assert (Hn : Z.of_N n = x) by (unfold n; rewrite N2Z.inj_abs_N; lia).
  assert (Hn0 : n <> 0%N) by lia.
  pose proof (N_size_bounds n Hn0) as [H1 H2].
  assert (Hs : (1 <= N.size n)%N) by (rewrite (N.size_log2 n Hn0); lia).
  apply N2Z.inj_le in H1. apply N2Z.inj_lt in H2. rewrite N2Z.inj_pow in H1, H2.
  rewrite N2Z.inj_sub in H1 by exact Hs. change (Z.of_N 2) with 2 in *. change (Z.of_N 1) with 1 in *.
  rewrite Hn in *. split; assumption.
Qed.

Lemma bitlen_upper x : 0 <= x -> x < 2 ^ Z.of_N (bitlen x).
Proof.
  intros Hx. destruct (Z.eq_dec x 0) as [->|Hne]; [reflexivity|]. apply bitlen_bounds. lia.
Qed.

Lemma bitlen_pow2 e : bitlen (2 ^ Z.of_N e) = (e + 1)%N.
Proof.
  unfold bitlen. change 2 with (Z.of_N 2). rewrite <- N2Z.inj_pow, Zabs2N.id.
  rewrite N.size_log2 by (apply N.pow_nonzero; lia). rewrite N.log2_pow2 by lia. lia.
Qed.

Lemma testbit_above_bitlen x i : 0 <= x -> (bitlen x <= i)%N -> Z.testbit x (Z.of_N i) = false.
Proof.
  intros Hx Hi. rewrite <- (Z.mod_small x (2 ^ Z.of_N (bitlen x))) by (split; [exact Hx|apply bitlen_upper; exact Hx]).
  apply Z.mod_pow2_bits_high. lia.
Qed.

(* ------------------------------------------------------------------------------------ *)
(* IsPow2                                                                                 *)
(* ------------------------------------------------------------------------------------ *)

Lemma is_pow2_iff x : is_pow2 x = true <-> exists e : N, x = 2 ^ Z.of_N e.
Proof.
  unfold is_pow2. cbv zeta. split.
  - destruct (bitlen x =? 0)%N; [discriminate|]. intros H. apply Z.eqb_eq in H.
    exists (bitlen x - 1)%N. rewrite <- pow2_eq. exact H.
  - intros [e ->]. rewrite bitlen_pow2. replace (e + 1 =? 0)%N with false by (symmetry; apply N.eqb_neq; lia).
    apply Z.eqb_eq. rewrite pow2_eq. f_equal. lia.
Qed.

Lemma is_pow2_false_iff x : is_pow2 x = false <-> forall e : N, x <> 2 ^ Z.of_N e.
Proof.
  split.
  - intros H e He. assert (is_pow2 x = true) by (apply is_pow2_iff; exists e; exact He). congruence.
  - intros H. destruct (is_pow2 x) eqn:E; [|reflexivity]. apply is_pow2_iff in E as [e He]. now apply H in He.
Qed.

(* ------------------------------------------------------------------------------------ *)
(* Pow2UpTo                                                                               *)
(* ------------------------------------------------------------------------------------ *)

Lemma pow2_upto_loop_spec x : forall fuel i,
  x < 2 ^ (Z.of_nat (i + fuel) - 1) ->
  exists k : nat,
    pow2_upto_loop fuel (2 ^ Z.of_nat i) x = map (fun e => 2 ^ Z.of_nat e) (seq i k) /\
    forall e, (i <= e)%nat -> (2 ^ Z.of_nat e <= x <-> (e < i + k)%nat).
Proof.
  induction fuel as [|f IH]; intros i Hx.
  - exists 0%nat. split; [reflexivity|]. intros e He. split; [|lia]. intros H.
    assert (2 ^ (Z.of_nat (i + 0) - 1) <= 2 ^ Z.of_nat e) by (apply Z.pow_le_mono_r; lia). lia.
  - cbn [pow2_upto_loop]. destruct (Z.leb_spec (2 ^ Z.of_nat i) x) as [Hle|Hgt].
    + assert (E : Z.shiftl (2 ^ Z.of_nat i) 1 = 2 ^ Z.of_nat (S i)).
      { rewrite Z.shiftl_mul_pow2 by lia. rewrite Nat2Z.inj_succ, Z.pow_succ_r by lia. lia. }
      rewrite E. destruct (IH (S i)) as [k [H1 H2]].
      { replace (S i + f)%nat with (i + S f)%nat by lia. exact Hx. }
      exists (S k). split; [cbn [seq map]; f_equal; exact H1|].
      intros e He. destruct (Nat.eq_dec e i) as [->|Hne]; [split; [lia|intros _; exact Hle]|].
      rewrite (H2 e ltac:(lia)). lia.
    + exists 0%nat. split; [reflexivity|]. intros e He. split; [|lia]. intros H.
      assert (2 ^ Z.of_nat i <= 2 ^ Z.of_nat e) by (apply Z.pow_le_mono_r; lia). lia.
Qed.

(* exactly the powers of two that are <= x, in ascending order *)
Lemma pow2_upto_spec x : exists k : nat,
  pow2_upto x = map (fun e => 2 ^ Z.of_nat e) (seq 0 k) /\
  forall e : nat, 2 ^ Z.of_nat e <= x <-> (e < k)%nat.
Proof.
  unfold pow2_upto. change 1 with (2 ^ Z.of_nat 0).
  destruct (pow2_upto_loop_spec x (S (N.to_nat (bitlen x))) 0) as [k [H1 H2]].
  - replace (Z.of_nat (0 + S (N.to_nat (bitlen x))) - 1) with (Z.of_N (bitlen x)) by lia.
    destruct (Z.le_gt_cases 0 x) as [Hx|Hx]; [apply bitlen_upper; exact Hx|].
    pose proof (Z.pow_nonneg 2 (Z.of_N (bitlen x))). lia.
  - exists k. split; [exact H1|]. intros e. apply (H2 e). lia.
Qed.

Lemma pow2_upto_In x p : In p (pow2_upto x) <-> (exists e : N, p = 2 ^ Z.of_N e) /\ p <= x.
Proof.
  destruct (pow2_upto_spec x) as [k [H1 H2]]. rewrite H1, in_map_iff. split.
  - intros [e [<- He]]. apply in_seq in He. split; [exists (N.of_nat e); f_equal; lia|apply H2; lia].
  - intros [[e ->] Hp]. exists (N.to_nat e). split; [f_equal; lia|]. apply in_seq.
    assert (N.to_nat e < k)%nat; [|lia]. apply H2. replace (Z.of_nat (N.to_nat e)) with (Z.of_N e) by lia. exact Hp.
Qed.

Lemma pow2_upto_sorted x : StronglySorted Z.lt (pow2_upto x).
Proof.
  destruct (pow2_upto_spec x) as [k [-> _]]. generalize 0%nat as i.
  induction k as [|k IH]; intros i; cbn [seq map]; constructor; [apply IH|].
  apply Forall_forall. intros p Hp. apply in_map_iff in Hp as [e [<- He]]. apply in_seq in He.
  apply Z.pow_lt_mono_r; lia.
Qed.

(* ------------------------------------------------------------------------------------ *)
(* BitsSet                                                                                *)
(* ------------------------------------------------------------------------------------ *)

Definition pow2_sum (es : list N) : Z := fold_right (fun e a => 2 ^ Z.of_N e + a) 0 es.

Lemma pow2_sum_app a b : pow2_sum (a ++ b) = pow2_sum a + pow2_sum b.
Proof. induction a as [|e a IH]; cbn [app pow2_sum fold_right]; [reflexivity|]. fold (pow2_sum (a ++ b)). fold (pow2_sum a). lia. Qed.

Lemma bits_below x : 0 <= x -> forall m : nat,
  pow2_sum (filter (fun i => Z.testbit x (Z.of_N i)) (map N.of_nat (seq 0 m))) = x mod 2 ^ Z.of_nat m.
Proof.
  intros Hx. induction m as [|m IH].
  - cbn [seq map filter pow2_sum fold_right]. change (2 ^ Z.of_nat 0) with 1. now rewrite Z.mod_1_r.
  - rewrite seq_S, map_app, filter_app, pow2_sum_app, IH. cbn [seq map filter plus].
    rewrite Nat2Z.inj_succ, Z.pow_succ_r by lia. rewrite (Z.mul_comm 2).
    rewrite Z.rem_mul_r by (try apply Z.pow_nonzero; lia).
    replace (Z.of_N (N.of_nat m)) with (Z.of_nat m) by lia.
    rewrite <- Z.testbit_spec' by lia.
    destruct (Z.testbit x (Z.of_nat m)); cbn [pow2_sum fold_right Z.b2z];
      replace (Z.of_N (N.of_nat m)) with (Z.of_nat m) by lia; lia.
Qed.

Lemma bits_set_In x i : In i (bits_set x) <-> (i < bitlen x)%N /\ Z.testbit x (Z.of_N i) = true.
Proof.
  unfold bits_set. rewrite filter_In, in_map_iff. split.
  - intros [[k [<- Hk]] Hb]. apply in_seq in Hk. split; [lia|exact Hb].
  - intros [Hi Hb]. split; [|exact Hb]. exists (N.to_nat i). split; [lia|apply in_seq; lia].
Qed.

Lemma bits_set_In_nonneg x i : 0 <= x -> (In i (bits_set x) <-> Z.testbit x (Z.of_N i) = true).
Proof.
  intros Hx. rewrite bits_set_In. split; [tauto|]. intros Hb. split; [|exact Hb].
  destruct (N.lt_ge_cases i (bitlen x)) as [H|H]; [exact H|].
  rewrite (testbit_above_bitlen x i Hx H) in Hb. discriminate.
Qed.

Lemma StronglySorted_filter {A} (R : A -> A -> Prop) (f : A -> bool) l :
  StronglySorted R l -> StronglySorted R (filter f l).
Proof.
  induction 1 as [|a l Hs IH Ha]; cbn [filter]; [constructor|].
  destruct (f a); [|exact IH]. constructor; [exact IH|].
  apply Forall_forall. intros y Hy. apply filter_In in Hy as [Hy _].
  rewrite Forall_forall in Ha. now apply Ha.
Qed.

Lemma seq_N_sorted n : forall a, StronglySorted N.lt (map N.of_nat (seq a n)).
Proof.
  induction n as [|n IH]; intros a; cbn [seq map]; constructor; [apply IH|].
  apply Forall_forall. intros y Hy. apply in_map_iff in Hy as [k [<- Hk]]. apply in_seq in Hk. lia.
Qed.

Lemma bits_set_sorted x : StronglySorted N.lt (bits_set x).
Proof. unfold bits_set. apply StronglySorted_filter, seq_N_sorted. Qed.

Lemma bits_set_sum x : 0 <= x -> pow2_sum (bits_set x) = x.
Proof.
  intros Hx. unfold bits_set. rewrite bits_below by exact Hx.
  replace (Z.of_nat (N.to_nat (bitlen x))) with (Z.of_N (bitlen x)) by lia.
  apply Z.mod_small. split; [exact Hx|apply bitlen_upper; exact Hx].
Qed.

Lemma bits_set_spec x : 0 <= x ->
  StronglySorted N.lt (bits_set x) /\
  (forall i, In i (bits_set x) <-> Z.testbit x (Z.of_N i) = true) /\
  pow2_sum (bits_set x) = x.
Proof.
  intros Hx. split; [apply bits_set_sorted|]. split; [intros i; apply bits_set_In_nonneg; exact Hx|apply bits_set_sum; exact Hx].
Qed.

(* ------------------------------------------------------------------------------------ *)
(* MinMax                                                                                 *)
(* ------------------------------------------------------------------------------------ *)

Lemma min_max_spec x y : min_max x y = (Z.min x y, Z.max x y).
Proof. unfold min_max. destruct (Z.ltb_spec x y); f_equal; lia. Qed.

(* ------------------------------------------------------------------------------------ *)
(* Uint64s                                                                                *)
(* ------------------------------------------------------------------------------------ *)

Definition limbs_value (ws : list Z) : Z := fold_right (fun w a => w + 2 ^ 64 * a) 0 ws.

Lemma ones_64 : ones 64 = Z.ones 64.
Proof. reflexivity. Qed.

Lemma uint64s_loop_spec : forall fuel z, 0 <= z < 2 ^ Z.of_nat fuel ->
  exists ws, uint64s_loop fuel z = Ok ws /\ limbs_value ws = z /\
             Forall (fun w => 0 <= w < 2 ^ 64) ws /\ (ws <> [] -> last ws 0 <> 0).
Proof.
  induction fuel as [|f IH]; intros z Hz.
  - change (2 ^ Z.of_nat 0) with 1 in Hz. assert (z = 0) as -> by lia.
    exists []. repeat split; [constructor|congruence].
  - cbn [uint64s_loop]. destruct (Z.eqb_spec z 0) as [->|Hne].
    + exists []. repeat split; [constructor|congruence].
    + rewrite Z.shiftr_div_pow2 by lia. rewrite ones_64, Z.land_ones by lia.
      rewrite Nat2Z.inj_succ, Z.pow_succ_r in Hz by lia.
      assert (Hq : 0 <= z / 2 ^ 64 < 2 ^ Z.of_nat f).
      { split; [apply Z.div_pos; lia|]. apply Z.div_lt_upper_bound; [lia|].
        assert (0 < 2 ^ Z.of_nat f) by (apply Z.pow_pos_nonneg; lia). nia. }
      destruct (IH _ Hq) as [ws [H1 [H2 [H3 H4]]]]. rewrite H1. cbn [obind].
      exists (z mod 2 ^ 64 :: ws). split; [reflexivity|]. split; [|split].
      * cbn [limbs_value fold_right]. fold (limbs_value ws). rewrite H2.
        rewrite (Z.div_mod z (2 ^ 64)) at 3 by lia. lia.
      * constructor; [apply Z.mod_pos_bound; lia|exact H3].
      * intros _. destruct ws as [|w ws]; [|exact (H4 ltac:(discriminate))].
        cbn [last]. cbn [limbs_value fold_right] in H2.
        rewrite (Z.div_mod z (2 ^ 64)) in Hne by lia. lia.
Qed.

Lemma uint64s_spec x : 0 <= x ->
  exists ws, uint64s x = Ok ws /\ limbs_value ws = x /\
             Forall (fun w => 0 <= w < 2 ^ 64) ws /\ (ws <> [] -> last ws 0 <> 0).
Proof.
  intros Hx. unfold uint64s. apply uint64s_loop_spec. split; [exact Hx|].
  pose proof (bitlen_upper x Hx) as H.
  replace (Z.of_nat (S (N.to_nat (bitlen x)))) with (Z.succ (Z.of_N (bitlen x))) by lia.
  rewrite Z.pow_succ_r by lia. lia.
Qed.

(* Go's loop never terminates for negative x (arithmetic shift keeps the sign): the model
   reports OutOfFuel, whatever the fuel *)
Lemma uint64s_loop_neg : forall fuel z, z < 0 -> uint64s_loop fuel z = OutOfFuel.
Proof.
  induction fuel as [|f IH]; intros z Hz; cbn [uint64s_loop];
    (destruct (Z.eqb_spec z 0) as [->|Hne]; [lia|]); [reflexivity|].
  rewrite IH; [reflexivity|]. apply Z.shiftr_neg. exact Hz.
Qed.

Lemma uint64s_neg x : x < 0 -> uint64s x = OutOfFuel.
Proof. intros H. apply uint64s_loop_neg. exact H. Qed.

(* ------------------------------------------------------------------------------------ *)
(* BytesLittleEndian                                                                      *)
(* ------------------------------------------------------------------------------------ *)

Definition bytes_value (bs : list N) : N := fold_right (fun b a => b + 256 * a)%N 0%N bs.

Lemma bytes_le_loop_spec : forall fuel z, (z < 2 ^ N.of_nat fuel)%N ->
  let bs := bytes_le_loop fuel z in
  bytes_value bs = z /\ Forall (fun b => b < 256)%N bs /\ (bs <> [] -> last bs 0%N <> 0%N).
Proof.
  induction fuel as [|f IH]; intros z Hz; cbv zeta.
  - change (2 ^ N.of_nat 0)%N with 1%N in Hz. assert (z = 0%N) as -> by lia.
    cbn [bytes_le_loop]. repeat split; [constructor|congruence].
  - cbn [bytes_le_loop]. destruct (N.eqb_spec z 0) as [->|Hne].
    + repeat split; [constructor|congruence].
    + rewrite Nat2N.inj_succ, N.pow_succ_r' in Hz.
      assert (Hq : (z / 256 < 2 ^ N.of_nat f)%N).
      { apply N.div_lt_upper_bound; [lia|]. assert (0 < 2 ^ N.of_nat f)%N by (apply N.neq_0_lt_0, N.pow_nonzero; lia). nia. }
      destruct (IH _ Hq) as [H2 [H3 H4]]. set (bs := bytes_le_loop f (z / 256)%N) in *.
      split; [|split].
      * cbn [bytes_value fold_right]. fold (bytes_value bs). rewrite H2.
        rewrite (N.div_mod z 256) at 3 by lia. lia.
      * constructor; [apply N.mod_upper_bound; lia|exact H3].
      * intros _. destruct bs as [|w ws] eqn:Ebs; [|exact (H4 ltac:(discriminate))].
        cbn [last]. cbn [bytes_value fold_right] in H2.
        rewrite (N.div_mod z 256) in Hne by lia. lia.
Qed.

(* little-endian base-256 digits of |x|, no trailing zero byte *)
Lemma bytes_le_spec x :
  bytes_value (bytes_le x) = Z.abs_N x /\ Forall (fun b => b < 256)%N (bytes_le x) /\
  (bytes_le x <> [] -> last (bytes_le x) 0%N <> 0%N).
Proof.
  unfold bytes_le. apply bytes_le_loop_spec. unfold bitlen.
  pose proof (N.size_gt (Z.abs_N x)) as H.
  replace (N.of_nat (S (N.to_nat (N.size (Z.abs_N x))))) with (N.succ (N.size (Z.abs_N x))) by lia.
  rewrite N.pow_succ_r'. lia.
Qed.

Lemma bytes_le_zero : bytes_le 0 = [].
Proof. reflexivity. Qed.

(* ------------------------------------------------------------------------------------ *)
(* Hex / Binary: underscore-separated literals                                            *)
(* ------------------------------------------------------------------------------------ *)

(* t is s with underscores (byte 95) inserted at arbitrary places *)
Inductive us_inserted : list N -> list N -> Prop :=
| usi_nil : us_inserted [] []
| usi_us s t : us_inserted s t -> us_inserted s (95%N :: t)
| usi_keep c s t : us_inserted s t -> us_inserted (c :: s) (c :: t).

Lemma strip_us_inserted s t : Forall (fun c => c <> 95%N) s -> us_inserted s t -> strip_underscore t = s.
Proof.
  intros Hs H. induction H as [|s t H IH|c s t H IH].
  - reflexivity.
  - unfold strip_underscore. cbn [filter]. change (95 =? 95)%N with true. cbn [negb]. apply IH. exact Hs.
  - apply Forall_cons_iff in Hs as [Hc Hs]. unfold strip_underscore. cbn [filter].
    replace (c =? 95)%N with false by (symmetry; apply N.eqb_neq; exact Hc). cbn [negb].
    f_equal. apply IH. exact Hs.
Qed.

Lemma us_inserted_strip t : us_inserted (strip_underscore t) t.
Proof.
  induction t as [|c t IH]; [constructor|]. unfold strip_underscore. cbn [filter].
  destruct (N.eqb_spec c 95) as [->|Hne]; cbn [negb]; [apply usi_us|apply usi_keep]; exact IH.
Qed.

Lemma us_inserted_refl s : us_inserted s s.
Proof. induction s; constructor; assumption. Qed.

Lemma strip_no_underscore s : ~ In 95%N (strip_underscore s).
Proof. unfold strip_underscore. intros H. apply filter_In in H as [_ H]. discriminate. Qed.

(* the digit value of a character in the given base (letters in either case) *)
Definition digit_of (base : N) (c d : N) : Prop := digitval c = Some d /\ (d < base)%N.

(* value of a digit string, most significant digit first *)
Definition digits_value (base : N) (ds : list N) : N := fold_left (fun a d => a * base + d)%N ds 0%N.

Lemma digitval_char c d : digitval c = Some d <->
  (48 <= c <= 57 /\ d = c - 48)%N \/ (97 <= c <= 122 /\ d = c - 87)%N \/ (65 <= c <= 90 /\ d = c - 55)%N.
Proof.
  unfold digitval.
  destruct ((48 <=? c) && (c <=? 57))%N eqn:E1; [|destruct ((97 <=? c) && (c <=? 122))%N eqn:E2;
    [|destruct ((65 <=? c) && (c <=? 90))%N eqn:E3]];
  (split; [intros H; try discriminate; injection H as <-; lia|intros H; try (exfalso; lia); f_equal; lia]).
Qed.

Lemma hex_digit_char c : (exists d, digit_of 16 c d) <-> (48 <= c <= 57 \/ 97 <= c <= 102 \/ 65 <= c <= 70)%N.
Proof.
  split.
  - intros [d [H Hd]]. apply digitval_char in H. lia.
  - intros H. assert (E : exists d, digitval c = Some d /\ (d < 16)%N); [|exact E].
    destruct H as [H|[H|H]].
    + exists (c - 48)%N. split; [apply digitval_char|]; lia.
    + exists (c - 87)%N. split; [apply digitval_char|]; lia.
    + exists (c - 55)%N. split; [apply digitval_char|]; lia.
Qed.

Lemma bin_digit_char c : (exists d, digit_of 2 c d) <-> (c = 48 \/ c = 49)%N.
Proof.
  split.
  - intros [d [H Hd]]. apply digitval_char in H. lia.
  - intros H. assert (E : exists d, digitval c = Some d /\ (d < 2)%N); [|exact E].
    exists (c - 48)%N. split; [apply digitval_char|]; lia.
Qed.

Lemma digits_acc_spec base : forall s a v,
  digits_acc base a s = Some v <->
  exists ds, Forall2 (digit_of base) s ds /\ v = fold_left (fun a d => a * base + d)%N ds a.
Proof.
  induction s as [|c s IH]; intros a v; cbn [digits_acc].
  - split.
    + intros H. injection H as <-. exists []. split; [constructor|reflexivity].
    + intros [ds [H ->]]. inversion H. reflexivity.
  - split.
    + destruct (digitval c) as [d|] eqn:Ed; [|discriminate].
      destruct (d <? base)%N eqn:Eb; [|discriminate]. intros H. apply IH in H as [ds [H1 H2]].
      exists (d :: ds). split; [|exact H2]. constructor; [|exact H1]. split; [exact Ed|apply N.ltb_lt; exact Eb].
    + intros [ds [H ->]]. inversion H as [|c' d s' ds' [Ed Eb] Hr]; subst.
      rewrite Ed. replace (d <? base)%N with true by (symmetry; apply N.ltb_lt; exact Eb).
      apply IH. exists ds'. split; [exact Hr|reflexivity].
Qed.

Lemma digits_acc_app base s t : forall a,
  digits_acc base a (s ++ t) = match digits_acc base a s with Some a' => digits_acc base a' t | None => None end.
Proof.
  induction s as [|c s IH]; intros a; cbn [app digits_acc]; [reflexivity|].
  destruct (digitval c) as [d|]; [|reflexivity]. destruct (d <? base)%N; [apply IH|reflexivity].
Qed.

(* sign handling of SetString as equations on the first character *)
Lemma set_string_eq base s : set_string base s =
  match s with
  | [] => None
  | c :: r =>
      if (c =? 45)%N then match r with [] => None | _ => option_map (fun n => - Z.of_N n) (digits_acc base 0 r) end
      else if (c =? 43)%N then match r with [] => None | _ => option_map Z.of_N (digits_acc base 0 r) end
      else option_map Z.of_N (digits_acc base 0 s)
  end.
Proof.
  destruct s as [|c r]; [reflexivity|].
  destruct (N.eqb_spec c 45) as [->|H45]; [reflexivity|].
  destruct (N.eqb_spec c 43) as [->|H43]; [reflexivity|].
  unfold set_string. destruct c as [|p]; [reflexivity|].
  do 7 (try (destruct p as [p|p|]; try reflexivity; try congruence)).
Qed.

Inductive sign_prefix : list N -> bool -> Prop :=
| sp_none : sign_prefix [] false
| sp_plus : sign_prefix [43%N] false
| sp_minus : sign_prefix [45%N] true.

(* s is: optional sign, then at least one digit of the base and nothing else; v its value *)
Definition wf_literal (base : N) (s : list N) (v : Z) : Prop :=
  exists sg neg body ds,
    s = sg ++ body /\ sign_prefix sg neg /\ body <> [] /\ Forall2 (digit_of base) body ds /\
    v = if neg then - Z.of_N (digits_value base ds) else Z.of_N (digits_value base ds).

Lemma digitval_not_sign c d : digitval c = Some d -> c <> 45%N /\ c <> 43%N /\ c <> 95%N.
Proof. intros H. apply digitval_char in H. lia. Qed.

Lemma set_string_spec base s v : set_string base s = Some v <-> wf_literal base s v.
Proof.
  rewrite set_string_eq. split.
  - destruct s as [|c r]; [discriminate|].
    destruct (N.eqb_spec c 45) as [->|H45]; [|destruct (N.eqb_spec c 43) as [->|H43]].
    + destruct r as [|c' r']; [discriminate|]. destruct (digits_acc base 0 (c' :: r')) as [n|] eqn:E; [|discriminate].
      intros H. injection H as <-. apply digits_acc_spec in E as [ds [H1 H2]].
      exists [45%N], true, (c' :: r'), ds. repeat split; try assumption; [constructor|discriminate|].
      unfold digits_value. now rewrite H2.
    + destruct r as [|c' r']; [discriminate|]. destruct (digits_acc base 0 (c' :: r')) as [n|] eqn:E; [|discriminate].
      intros H. injection H as <-. apply digits_acc_spec in E as [ds [H1 H2]].
      exists [43%N], false, (c' :: r'), ds. repeat split; try assumption; [constructor|discriminate|].
      unfold digits_value. now rewrite H2.
    + destruct (digits_acc base 0 (c :: r)) as [n|] eqn:E; [|discriminate].
      intros H. injection H as <-. apply digits_acc_spec in E as [ds [H1 H2]].
      exists [], false, (c :: r), ds. repeat split; try assumption; [constructor|discriminate|].
      unfold digits_value. now rewrite H2.
  - intros [sg [neg [body [ds [-> [Hsg [Hne [Hd ->]]]]]]]].
    assert (E : digits_acc base 0 body = Some (digits_value base ds))
      by (apply digits_acc_spec; exists ds; split; [exact Hd|reflexivity]).
    destruct body as [|c r]; [congruence|].
    destruct Hsg; cbn [app].
    + inversion Hd as [|c' d s' ds' [Ed _] Hr]; subst. destruct (digitval_not_sign c d Ed) as [H45 [H43 _]].
      replace (c =? 45)%N with false by (symmetry; apply N.eqb_neq; exact H45).
      replace (c =? 43)%N with false by (symmetry; apply N.eqb_neq; exact H43).
      rewrite E. reflexivity.
    + change (43 =? 45)%N with false. change (43 =? 43)%N with true. cbv iota. rewrite E. reflexivity.
    + change (45 =? 45)%N with true. cbv iota. rewrite E. reflexivity.
Qed.

Lemma hex_spec s v : hex s = Some v <-> wf_literal 16 (strip_underscore s) v.
Proof. apply set_string_spec. Qed.

Lemma binary_spec s v : binary s = Some v <-> wf_literal 2 (strip_underscore s) v.
Proof. apply set_string_spec. Qed.

(* any character other than '_', a leading sign and the digits of the base makes the literal invalid *)
Lemma set_string_accepts base s v : set_string base s = Some v ->
  exists sg body, s = sg ++ body /\ (sg = [] \/ sg = [43%N] \/ sg = [45%N]) /\ body <> [] /\
                  Forall (fun c => exists d, digit_of base c d) body.
Proof.
  intros H. apply set_string_spec in H as [sg [neg [body [ds [-> [Hsg [Hne [Hd _]]]]]]]].
  exists sg, body. repeat split; try assumption.
  - destruct Hsg; auto.
  - clear Hne. induction Hd as [|c d s' ds' Hcd Hr IH]; constructor; [exists d; exact Hcd|exact IH].
Qed.

Lemma hex_rejects s c : In c s -> c <> 95%N -> c <> 43%N -> c <> 45%N ->
  ~ (48 <= c <= 57 \/ 97 <= c <= 102 \/ 65 <= c <= 70)%N -> hex s = None.
Proof.
  intros Hin H95 H43 H45 Hnd. destruct (hex s) as [v|] eqn:E; [|reflexivity]. exfalso.
  apply set_string_accepts in E as [sg [body [E [Hsg [_ Hb]]]]].
  assert (Hc : In c (strip_underscore s)).
  { unfold strip_underscore. apply filter_In. split; [exact Hin|]. apply negb_true_iff, N.eqb_neq. exact H95. }
  rewrite E in Hc. apply in_app_or in Hc as [Hc|Hc].
  - destruct Hsg as [-> | [-> | ->]]; cbn [In] in Hc; intuition congruence.
  - rewrite Forall_forall in Hb. apply Hnd, hex_digit_char, Hb, Hc.
Qed.

Lemma binary_rejects s c : In c s -> c <> 95%N -> c <> 43%N -> c <> 45%N -> c <> 48%N -> c <> 49%N -> binary s = None.
Proof.
  intros Hin H95 H43 H45 H0 H1. destruct (binary s) as [v|] eqn:E; [|reflexivity]. exfalso.
  apply set_string_accepts in E as [sg [body [E [Hsg [_ Hb]]]]].
  assert (Hc : In c (strip_underscore s)).
  { unfold strip_underscore. apply filter_In. split; [exact Hin|]. apply negb_true_iff, N.eqb_neq. exact H95. }
  rewrite E in Hc. apply in_app_or in Hc as [Hc|Hc].
  - destruct Hsg as [-> | [-> | ->]]; cbn [In] in Hc; intuition congruence.
  - rewrite Forall_forall in Hb. apply Hb, bin_digit_char in Hc. lia.
Qed.

(* ---- round trip with the canonical rendering (Proto.print_base_fuel, as used on the wire) ---- *)

Definition print_baseN (base n : N) : list N := print_base_fuel base (S (N.to_nat (N.size n))) n [].
Definition print_baseZ (base : N) (z : Z) : list N :=
  match z with
  | Zneg p => 45%N :: print_baseN base (Npos p)
  | _ => print_baseN base (Z.to_N z)
  end.
Definition print_binZ : Z -> list N := print_baseZ 2.

Lemma print_hexZ_base z : print_hexZ z = print_baseZ 16 z.
Proof. reflexivity. Qed.

Lemma hexchar_digit base d : (base <= 16)%N -> (d < base)%N -> digit_of base (hexchar d) d.
Proof.
  intros Hb Hd. split; [|exact Hd]. apply digitval_char. unfold hexchar.
  destruct (N.ltb_spec d 10); lia.
Qed.

Lemma print_base_fuel_app base : forall fuel n acc,
  print_base_fuel base fuel n acc = print_base_fuel base fuel n [] ++ acc.
Proof.
  induction fuel as [|f IH]; intros n acc; cbn [print_base_fuel]; [reflexivity|]. cbv zeta.
  destruct (n / base =? 0)%N; [reflexivity|].
  rewrite (IH _ (_ :: acc)), (IH _ [_]). rewrite <- app_assoc. reflexivity.
Qed.

Lemma print_base_fuel_digits base : (2 <= base <= 16)%N -> forall fuel n, (n < 2 ^ N.of_nat fuel)%N ->
  exists ds, Forall2 (digit_of base) (print_base_fuel base (S fuel) n []) ds /\ ds <> [] /\
             forall a, fold_left (fun a d => a * base + d)%N ds a = (a * base ^ N.of_nat (length ds) + n)%N.
Proof.
  intros Hb. induction fuel as [|f IH]; intros n Hn.
  - change (2 ^ N.of_nat 0)%N with 1%N in Hn. assert (n = 0%N) as -> by lia.
    cbn [print_base_fuel]. cbv zeta. rewrite N.div_0_l by lia. change (0 =? 0)%N with true. cbv iota.
    exists [0%N]. split; [|split; [discriminate|]].
    + constructor; [|constructor]. rewrite N.mod_0_l by lia. apply hexchar_digit; lia.
    + intros a. cbn [fold_left length]. change (N.of_nat 1) with 1%N. rewrite N.pow_1_r. lia.
  - remember (S f) as sf. cbn [print_base_fuel]. cbv zeta. subst sf.
    assert (Hm : (n mod base < base)%N) by (apply N.mod_upper_bound; lia).
    destruct (N.eqb_spec (n / base) 0) as [Hq|Hq].
    + exists [(n mod base)%N]. split; [|split; [discriminate|]].
      * constructor; [|constructor]. apply hexchar_digit; lia.
      * intros a. cbn [fold_left length]. change (N.of_nat 1) with 1%N. rewrite N.pow_1_r.
        rewrite (N.div_mod n base) at 2 by lia. rewrite Hq. lia.
    + rewrite print_base_fuel_app.
      assert (Hq' : (n / base < 2 ^ N.of_nat f)%N).
      { rewrite Nat2N.inj_succ, N.pow_succ_r' in Hn. apply N.div_lt_upper_bound; [lia|].
        assert (0 < 2 ^ N.of_nat f)%N by (apply N.neq_0_lt_0, N.pow_nonzero; lia). nia. }
      destruct (IH _ Hq') as [ds [H1 [H2 H3]]].
      exists (ds ++ [(n mod base)%N]). split; [|split].
      * apply Forall2_app; [exact H1|]. constructor; [|constructor]. apply hexchar_digit; lia.
      * destruct ds; discriminate.
      * intros a. rewrite fold_left_app. cbn [fold_left]. rewrite H3.
        rewrite app_length. cbn [length]. replace (N.of_nat (length ds + 1)) with (N.succ (N.of_nat (length ds))) by lia.
        rewrite N.pow_succ_r'. assert (E : n = (base * (n / base) + n mod base)%N) by (apply N.div_mod; lia).
        set (q := (n / base)%N) in *. set (r := (n mod base)%N) in *. clearbody q r. rewrite E. ring.
Qed.

Lemma print_baseN_digits base n : (2 <= base <= 16)%N ->
  exists ds, Forall2 (digit_of base) (print_baseN base n) ds /\ ds <> [] /\ digits_value base ds = n.
Proof.
  intros Hb. destruct (print_base_fuel_digits base Hb (N.to_nat (N.size n)) n) as [ds [H1 [H2 H3]]].
  - rewrite N2Nat.id. apply N.size_gt.
  - exists ds. split; [exact H1|]. split; [exact H2|]. unfold digits_value. rewrite H3. lia.
Qed.

Lemma Forall2_digit_no_us base s ds : Forall2 (digit_of base) s ds -> Forall (fun c => c <> 95%N) s.
Proof.
  induction 1 as [|c d s' ds' [Hc _] Hr IH]; constructor; [|exact IH]. apply (digitval_not_sign c d Hc).
Qed.

Lemma print_baseZ_literal base z : (2 <= base <= 16)%N ->
  wf_literal base (print_baseZ base z) z /\ Forall (fun c => c <> 95%N) (print_baseZ base z).
Proof.
  intros Hb. unfold print_baseZ. destruct z as [|p|p].
  - destruct (print_baseN_digits base (Z.to_N 0) Hb) as [ds [H1 [H2 H3]]]. split.
    + exists [], false, (print_baseN base (Z.to_N 0)), ds. repeat split; [constructor| |exact H1|rewrite H3; reflexivity].
      intros E. rewrite E in H1. inversion H1. congruence.
    + eapply Forall2_digit_no_us; exact H1.
  - destruct (print_baseN_digits base (Z.to_N (Zpos p)) Hb) as [ds [H1 [H2 H3]]]. split.
    + exists [], false, (print_baseN base (Z.to_N (Zpos p))), ds. repeat split; [constructor| |exact H1|rewrite H3; reflexivity].
      intros E. rewrite E in H1. inversion H1. congruence.
    + eapply Forall2_digit_no_us; exact H1.
  - destruct (print_baseN_digits base (Npos p) Hb) as [ds [H1 [H2 H3]]]. split.
    + exists [45%N], true, (print_baseN base (Npos p)), ds. repeat split; [constructor| |exact H1|rewrite H3; reflexivity].
      intros E. rewrite E in H1. inversion H1. congruence.
    + constructor; [discriminate|]. eapply Forall2_digit_no_us; exact H1.
Qed.

(* parsing the canonical hex rendering of n, with underscores inserted anywhere, gives n *)
Lemma hex_roundtrip n t : us_inserted (print_hexZ n) t -> hex t = Some n.
Proof.
  intros H. rewrite print_hexZ_base in H. destruct (print_baseZ_literal 16 n ltac:(lia)) as [H1 H2].
  apply hex_spec. rewrite (strip_us_inserted _ _ H2 H). exact H1.
Qed.

Lemma binary_roundtrip n t : us_inserted (print_binZ n) t -> binary t = Some n.
Proof.
  intros H. unfold print_binZ in H. destruct (print_baseZ_literal 2 n ltac:(lia)) as [H1 H2].
  apply binary_spec. rewrite (strip_us_inserted _ _ H2 H). exact H1.
Qed.
